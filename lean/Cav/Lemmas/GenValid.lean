/-
  General sweep invariant, part 29: VALIDITY BY ORIENTATION DETERMINANTS.  Two ring edges without
  a common vertex are apart (`SegApart`: the end points of one edge lie strictly on one side of
  the other edge, or the abscissa ranges are disjoint); the two edges at a vertex that is a local
  extremum of the abscissa are not collinear (`NoSpike`).  These imply the semantic validity
  `NoCross` used by the invariant.
-/
import Cav.Lemmas.GenStepBend

set_option linter.unusedSimpArgs false
set_option linter.unusedVariables false

namespace Cav.GenValid
open Cav Num Cav.Geo Cav.QuadGeom Cav.GenGeom Cav.GenInv Cav.GenQueue Cav.GenStepBend

/-- the segments `ab` and `cd` are apart, by orientation determinants -/
def SegApart (a b c d : Q) : Prop :=
  0 < orient a b c * orient a b d ∨ 0 < orient c d a * orient c d b ∨
    (a.1 < c.1 ∧ a.1 < d.1 ∧ b.1 < c.1 ∧ b.1 < d.1) ∨ (c.1 < a.1 ∧ c.1 < b.1 ∧ d.1 < a.1 ∧ d.1 < b.1)

instance (a b c d : Q) : Decidable (SegApart a b c d) := by unfold SegApart; exact inferInstance

theorem SegApart.swapL {a b c d : Q} (h : SegApart a b c d) : SegApart b a c d := by
  rcases h with h | h | ⟨h1, h2, h3, h4⟩ | ⟨h1, h2, h3, h4⟩
  · left
    have e1 : orient b a c = - orient a b c := by unfold orient; ring
    have e2 : orient b a d = - orient a b d := by unfold orient; ring
    rw [e1, e2]; linarith [h]
  · right; left; linarith [h, mul_comm (orient c d a) (orient c d b)]
  · exact Or.inr (Or.inr (Or.inl ⟨h3, h4, h1, h2⟩))
  · exact Or.inr (Or.inr (Or.inr ⟨h2, h1, h4, h3⟩))

theorem SegApart.symm {a b c d : Q} (h : SegApart a b c d) : SegApart c d a b := by
  rcases h with h | h | ⟨h1, h2, h3, h4⟩ | ⟨h1, h2, h3, h4⟩
  · exact Or.inr (Or.inl h)
  · exact Or.inl h
  · exact Or.inr (Or.inr (Or.inr ⟨h1, h2, h3, h4⟩))
  · exact Or.inr (Or.inr (Or.inl ⟨h1, h2, h3, h4⟩))

theorem SegApart.swapR {a b c d : Q} (h : SegApart a b c d) : SegApart a b d c :=
  h.symm.swapL.symm

/-- the determinant of `a`, `b` and a point of the line `cd` -/
theorem orient_on_line (a b c d : Q) (hcd : c.1 < d.1) (x : Rat) :
    (d.1 - c.1) * orient a b (x, lineY c d x) = (d.1 - x) * orient a b c + (x - c.1) * orient a b d := by
  have : d.1 - c.1 ≠ 0 := ne_of_gt (sub_pos.mpr hcd)
  rw [lineY_eq c d hcd]
  unfold orient
  field_simp
  ring

/-- both end points of `cd` strictly on one side of the line `ab`: no common point -/
theorem side_ne (a b c d : Q) (hab : a.1 < b.1) (hcd : c.1 < d.1)
    (h : 0 < orient a b c * orient a b d) (x : Rat) (hc : c.1 ≤ x) (hd : x ≤ d.1) :
    lineY a b x ≠ lineY c d x := by
  intro heq
  have h0 : orient a b (x, lineY c d x) = 0 := by
    have e := pt_sub_lineY a b (x, lineY c d x) hab
    simp only at e
    rw [heq, sub_self] at e
    have hd' : b.1 - a.1 ≠ 0 := ne_of_gt (sub_pos.mpr hab)
    rcases div_eq_zero_iff.mp e.symm with h | h
    · exact h
    · exact absurd h hd'
  have key := orient_on_line a b c d hcd x
  rw [h0, mul_zero] at key
  have h1 : 0 ≤ d.1 - x := sub_nonneg.mpr hd
  have h2 : 0 ≤ x - c.1 := sub_nonneg.mpr hc
  have h3 : 0 < (d.1 - x) + (x - c.1) := by linarith
  rcases mul_pos_iff.mp h with ⟨p1, p2⟩ | ⟨p1, p2⟩
  · rcases lt_or_eq_of_le h1 with h1' | h1'
    · nlinarith [mul_pos h1' p1, mul_nonneg h2 (le_of_lt p2)]
    · have h2' : 0 < x - c.1 := by linarith
      nlinarith [mul_pos h2' p2, mul_nonneg h1 (le_of_lt p1)]
  · rcases lt_or_eq_of_le h1 with h1' | h1'
    · nlinarith [mul_pos h1' (neg_pos.mpr p1), mul_nonneg h2 (le_of_lt (neg_pos.mpr p2))]
    · have h2' : 0 < x - c.1 := by linarith
      nlinarith [mul_pos h2' (neg_pos.mpr p2), mul_nonneg h1 (le_of_lt (neg_pos.mpr p1))]

/-- segments that are apart have no common point -/
theorem apart_ne (a b c d : Q) (hab : a.1 < b.1) (hcd : c.1 < d.1) (h : SegApart a b c d)
    (x : Rat) (ha : a.1 ≤ x) (hb : x ≤ b.1) (hc : c.1 ≤ x) (hd : x ≤ d.1) :
    lineY a b x ≠ lineY c d x := by
  rcases h with h | h | ⟨h1, h2, h3, h4⟩ | ⟨h1, h2, h3, h4⟩
  · exact side_ne a b c d hab hcd h x hc hd
  · exact fun e => side_ne c d a b hcd hab h x ha hb e.symm
  · intro _; linarith
  · intro _; linarith

/-- two edges out of the same left point that are not collinear meet only there -/
theorem fanL_ne (a b d : Q) (hab : a.1 < b.1) (had : a.1 < d.1) (x : Rat) (hx : a.1 < x)
    (ho : orient a b d ≠ 0) : lineY a b x ≠ lineY a d x := by
  rcases lt_or_gt_of_ne ho with h | h
  · have : 0 < orient a d b := by have := orient_swap a b d; linarith
    exact ne_of_gt (fan_lt a d b had hab x hx this)
  · exact ne_of_lt (fan_lt a b d hab had x hx h)

/-- two edges into the same right point that are not collinear meet only there -/
theorem fanR_ne (a c d : Q) (had : a.1 < d.1) (hcd : c.1 < d.1) (x : Rat) (hx : x < d.1)
    (ho : orient a c d ≠ 0) : lineY a d x ≠ lineY c d x := by
  intro e
  have h := lineY_sub_sameR a c d x had hcd
  rw [e, sub_self] at h
  have h' : (d.1 - x) * orient a c d / ((d.1 - a.1) * (d.1 - c.1)) = 0 := by linarith
  have hden : (d.1 - a.1) * (d.1 - c.1) ≠ 0 :=
    ne_of_gt (mul_pos (sub_pos.mpr had) (sub_pos.mpr hcd))
  rcases div_eq_zero_iff.mp h' with h1 | h1
  · rcases mul_eq_zero.mp h1 with h2 | h2
    · linarith
    · exact ho h2
  · exact hden h1

/-! ### validity of a ring -/

/-- two ring edges without a common vertex are apart -/
def EdgesApart (R : RingQ) : Prop :=
  ∀ i, i < R.n → ∀ j, j < R.n → i ≠ j → R.nxt i ≠ j → R.nxt j ≠ i →
    SegApart (R.pt i) (R.pt (R.nxt i)) (R.pt j) (R.pt (R.nxt j))

/-- at a local extremum of the abscissa the two edges are not collinear -/
def NoSpike (R : RingQ) : Prop :=
  ∀ i, i < R.n → (R.x (R.prv i) < R.x i ↔ R.x (R.nxt i) < R.x i) →
    orient (R.pt (R.prv i)) (R.pt i) (R.pt (R.nxt i)) ≠ 0

instance (R : RingQ) : Decidable (EdgesApart R) := by unfold EdgesApart; exact inferInstance
instance (R : RingQ) : Decidable (NoSpike R) := by unfold NoSpike; exact inferInstance

variable {R : RingQ} {V : Array (Vtx XQ)}

/-- a ring edge is `(i, nxt i)` for one of its end points `i` -/
theorem edge_form (hR : RingOK R V) {u v : Nat} (hu : u < R.n) (hv : v < R.n) (h : Adj R u v) :
    (R.nxt u = v) ∨ (R.nxt v = u) := by
  rcases h with h | h
  · exact Or.inl h
  · right
    rw [← h]
    exact hR.nxt_prv u hu

/-- the two edges `{u, v}`, `{u', v'}` without a common vertex are apart -/
theorem apart_of (hR : RingOK R V) (hA : EdgesApart R) {u v u' v' : Nat} (hu : u < R.n) (hv : v < R.n)
    (hu' : u' < R.n) (hv' : v' < R.n) (h : Adj R u v) (h' : Adj R u' v')
    (n1 : u ≠ u') (n2 : u ≠ v') (n3 : v ≠ u') (n4 : v ≠ v') :
    SegApart (R.pt u) (R.pt v) (R.pt u') (R.pt v') := by
  rcases edge_form hR hu hv h with e | e <;> rcases edge_form hR hu' hv' h' with e' | e'
  · have := hA u hu u' hu' n1 (by rw [e]; exact n3) (by rw [e']; exact Ne.symm n2)
    rw [e, e'] at this; exact this
  · have := hA u hu v' hv' n2 (by rw [e]; exact n4) (by rw [e']; exact Ne.symm n1)
    rw [e, e'] at this; exact this.swapR
  · have := hA v hv u' hu' n3 (by rw [e]; exact n1) (by rw [e']; exact Ne.symm n4)
    rw [e, e'] at this; exact this.swapL
  · have := hA v hv v' hv' n4 (by rw [e]; exact n2) (by rw [e']; exact Ne.symm n3)
    rw [e, e'] at this; exact this.swapL.swapR

/-- **validity by orientation determinants implies the semantic validity** -/
theorem noCross_of (hR : RingOK R V) (hA : EdgesApart R) (hS : NoSpike R) : NoCross R := by
  intro u v u' v' hu hv hu' hv' h h' hlt hlt' hne x hxu hxu' hxv hxv' heq
  by_cases c1 : v = u'
  · exact Or.inr (Or.inr (Or.inl c1))
  by_cases c2 : u = v'
  · exact Or.inr (Or.inr (Or.inr c2))
  by_cases c3 : u = u'
  · -- a common left end: a Start vertex
    left
    refine ⟨?_, c3⟩
    subst c3
    have c4 : v ≠ v' := fun e => hne ⟨rfl, e⟩
    by_contra hx
    have hx' : R.x u < x := lt_of_le_of_ne hxu (Ne.symm hx)
    have hsp := hS u hu ⟨fun hp => absurd hp (not_lt.mpr (le_of_lt (by
        rcases adj_cases h with e | e <;> rcases adj_cases h' with e' | e'
        · exact absurd (e.trans e'.symm) c4
        · rw [← e']; exact hlt'
        · rw [← e]; exact hlt
        · exact absurd (e.trans e'.symm) c4))),
      fun hp => absurd hp (not_lt.mpr (le_of_lt (by
        rcases adj_cases h with e | e <;> rcases adj_cases h' with e' | e'
        · exact absurd (e.trans e'.symm) c4
        · rw [← e]; exact hlt
        · rw [← e']; exact hlt'
        · exact absurd (e.trans e'.symm) c4)))⟩
    have ho : orient (R.pt u) (R.pt v) (R.pt v') ≠ 0 := by
      rcases adj_cases h with e | e <;> rcases adj_cases h' with e' | e'
      · exact absurd (e.trans e'.symm) c4
      · rw [e, e']
        intro h0; apply hsp
        have : orient (R.pt (R.prv u)) (R.pt u) (R.pt (R.nxt u)) =
            orient (R.pt u) (R.pt (R.nxt u)) (R.pt (R.prv u)) := by unfold orient; ring
        rw [this]; exact h0
      · rw [e, e']
        intro h0; apply hsp
        have : orient (R.pt (R.prv u)) (R.pt u) (R.pt (R.nxt u)) =
            - orient (R.pt u) (R.pt (R.prv u)) (R.pt (R.nxt u)) := by unfold orient; ring
        rw [this, h0, neg_zero]
      · exact absurd (e.trans e'.symm) c4
    exact fanL_ne _ _ _ hlt hlt' x hx' ho heq
  by_cases c4 : v = v'
  · -- a common right end: an End vertex
    right; left
    refine ⟨?_, c4⟩
    subst c4
    by_contra hx
    have hx' : x < R.x v := lt_of_le_of_ne hxv hx
    have hvu := adj_symm hR hu h
    have hvu' := adj_symm hR hu' h'
    have hsp := hS v hv ⟨fun _ => by
        rcases adj_cases hvu with e | e <;> rcases adj_cases hvu' with e' | e'
        · exact absurd (e.trans e'.symm) c3
        · rw [← e]; exact hlt
        · rw [← e']; exact hlt'
        · exact absurd (e.trans e'.symm) c3,
      fun _ => by
        rcases adj_cases hvu with e | e <;> rcases adj_cases hvu' with e' | e'
        · exact absurd (e.trans e'.symm) c3
        · rw [← e']; exact hlt'
        · rw [← e]; exact hlt
        · exact absurd (e.trans e'.symm) c3⟩
    have ho : orient (R.pt u) (R.pt u') (R.pt v) ≠ 0 := by
      rcases adj_cases hvu with e | e <;> rcases adj_cases hvu' with e' | e'
      · exact absurd (e.trans e'.symm) c3
      · rw [e, e']
        intro h0; apply hsp
        have : orient (R.pt (R.prv v)) (R.pt v) (R.pt (R.nxt v)) =
            orient (R.pt (R.nxt v)) (R.pt (R.prv v)) (R.pt v) := by unfold orient; ring
        rw [this]; exact h0
      · rw [e, e']
        intro h0; apply hsp
        have : orient (R.pt (R.prv v)) (R.pt v) (R.pt (R.nxt v)) =
            - orient (R.pt (R.prv v)) (R.pt (R.nxt v)) (R.pt v) := by unfold orient; ring
        rw [this, h0, neg_zero]
      · exact absurd (e.trans e'.symm) c3
    exact fanR_ne _ _ _ hlt hlt' x hx' ho heq
  · -- no common vertex
    exfalso
    exact apart_ne _ _ _ _ hlt hlt' (apart_of hR hA hu hv hu' hv' h h' c3 c2 c1 c4) x hxu hxv hxu' hxv' heq

end Cav.GenValid
