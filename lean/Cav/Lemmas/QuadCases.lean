/-
  Simple quadrilaterals: the predicate `SimpleQuad` (orientation determinants only), its
  symmetries, the linear relations between the four orientation determinants of four points,
  and the sign analysis that assigns every simple quadrilateral with increasing abscissae to one
  of the ten event chains of `QuadFlows.lean`.
-/
import Cav.Lemmas.QuadFlows
import Cav.Lemmas.QuadSetup
import Mathlib.Tactic.Tauto

set_option linter.unusedSimpArgs false
set_option linter.unusedVariables false
set_option linter.unusedTactic false
set_option linter.unreachableTactic false

namespace Cav.QuadCases
open Cav Num Cav.Geo Cav.Sweep Cav.TriRun Cav.QuadRun Cav.QuadGeom Cav.QuadFlows

/-- `p × q` -/
def cross2 (p q : Rat × Rat) : Rat := p.1 * q.2 - p.2 * q.1

/-- twice the signed area of the polygon `a b c d` (shoelace formula) -/
def shoelace (a b c d : Rat × Rat) : Rat := cross2 a b + cross2 b c + cross2 c d + cross2 d a

/-- the segments `p q` and `r s` cross properly: `r`, `s` lie strictly on different sides of the
    line `p q`, and `p`, `q` strictly on different sides of the line `r s` -/
def Cross (p q r s : Rat × Rat) : Prop :=
  orient p q r * orient p q s < 0 ∧ orient r s p * orient r s q < 0

instance (p q r s : Rat × Rat) : Decidable (Cross p q r s) := by unfold Cross; exact inferInstance

/-- `a b c d` (in this cyclic order) is a simple quadrilateral: no three of the four points are
    collinear (all four triples are triples of consecutive vertices) and neither pair of opposite
    edges `ab`/`cd`, `bc`/`da` crosses.  (Without collinear triples two segments meet iff they
    cross properly; adjacent edges meet only in their common vertex.) -/
def SimpleQuad (a b c d : Rat × Rat) : Prop :=
  orient a b c ≠ 0 ∧ orient b c d ≠ 0 ∧ orient c d a ≠ 0 ∧ orient d a b ≠ 0 ∧
    ¬ Cross a b c d ∧ ¬ Cross b c d a

instance (a b c d : Rat × Rat) : Decidable (SimpleQuad a b c d) := by
  unfold SimpleQuad; exact inferInstance

theorem orient_swap12 (a b c : Rat × Rat) : orient b a c = - orient a b c := by unfold orient; ring
theorem orient_swap13 (a b c : Rat × Rat) : orient c b a = - orient a b c := by unfold orient; ring
theorem orient_rot2 (a b c : Rat × Rat) : orient c a b = orient a b c := by unfold orient; ring

theorem Cross.symm {p q r s : Rat × Rat} (h : Cross p q r s) : Cross r s p q := ⟨h.2, h.1⟩

theorem Cross.rev {p q r s : Rat × Rat} (h : Cross s r q p) : Cross p q r s := by
  obtain ⟨h1, h2⟩ := h
  refine ⟨?_, ?_⟩
  · rw [orient_swap12 p q r, orient_swap12 p q s] at h2
    linarith [neg_mul_neg (orient p q s) (orient p q r), mul_comm (orient p q s) (orient p q r)]
  · rw [orient_swap12 r s q, orient_swap12 r s p] at h1
    linarith [neg_mul_neg (orient r s q) (orient r s p), mul_comm (orient r s q) (orient r s p)]

theorem SimpleQuad.rot {a b c d : Rat × Rat} (h : SimpleQuad a b c d) : SimpleQuad b c d a := by
  obtain ⟨n1, n2, n3, n4, c1, c2⟩ := h
  exact ⟨n2, n3, n4, n1, c2, fun hc => c1 hc.symm⟩

theorem SimpleQuad.rev {a b c d : Rat × Rat} (h : SimpleQuad a b c d) : SimpleQuad d c b a := by
  obtain ⟨n1, n2, n3, n4, c1, c2⟩ := h
  refine ⟨?_, ?_, ?_, ?_, ?_, ?_⟩
  · rw [orient_swap13]; exact neg_ne_zero.mpr n2
  · rw [orient_swap13]; exact neg_ne_zero.mpr n1
  · rw [orient_swap13]; exact neg_ne_zero.mpr n4
  · rw [orient_swap13]; exact neg_ne_zero.mpr n3
  · exact fun hc => c1 (Cross.rev hc)
  · intro hc
    exact c2 (Cross.rev hc.symm)

/-! ### the four linear relations between the orientation determinants of four points -/

section
variable (q1 q2 q3 q4 : Rat × Rat)

theorem rel_a : (q3.1 - q1.1) * orient q1 q2 q4 =
    (q2.1 - q1.1) * orient q1 q3 q4 + (q4.1 - q1.1) * orient q1 q2 q3 := by unfold orient; ring
theorem rel_b : (q4.1 - q2.1) * orient q1 q3 q4 =
    (q4.1 - q1.1) * orient q2 q3 q4 + (q4.1 - q3.1) * orient q1 q2 q4 := by unfold orient; ring
theorem rel_c : (q3.1 - q2.1) * orient q1 q2 q4 =
    (q2.1 - q1.1) * orient q2 q3 q4 + (q4.1 - q2.1) * orient q1 q2 q3 := by unfold orient; ring
theorem rel_d : (q3.1 - q2.1) * orient q1 q3 q4 =
    (q3.1 - q1.1) * orient q2 q3 q4 + (q4.1 - q3.1) * orient q1 q2 q3 := by unfold orient; ring

end

/-! ### what is claimed about the two emitted triangles -/

/-- the two triangles `t1 t2` have their corners among `a b c d`, are non-degenerate, and their
    absolute doubled areas add up to the absolute doubled (shoelace) area of `a b c d` -/
def QuadGood (a b c d : Rat × Rat) (t1 t2 : Pt XQ × Pt XQ × Pt XQ) : Prop :=
  (∀ p ∈ [t1.1, t1.2.1, t1.2.2, t2.1, t2.2.1, t2.2.2], p ∈ [Fq a, Fq b, Fq c, Fq d]) ∧
    orientPt t1.1 t1.2.1 t1.2.2 ≠ 0 ∧ orientPt t2.1 t2.2.1 t2.2.2 ≠ 0 ∧
    |orientPt t1.1 t1.2.1 t1.2.2| + |orientPt t2.1 t2.2.1 t2.2.2| = |shoelace a b c d|

theorem QuadGood.rot {a b c d : Rat × Rat} {t1 t2 : Pt XQ × Pt XQ × Pt XQ}
    (h : QuadGood a b c d t1 t2) : QuadGood b c d a t1 t2 := by
  obtain ⟨hm, n1, n2, ha⟩ := h
  refine ⟨?_, n1, n2, ?_⟩
  · intro p hp
    have := hm p hp
    simp only [List.mem_cons, List.not_mem_nil, or_false] at this ⊢
    tauto
  · rw [ha]; congr 1; unfold shoelace; ring

theorem QuadGood.rev {a b c d : Rat × Rat} {t1 t2 : Pt XQ × Pt XQ × Pt XQ}
    (h : QuadGood a b c d t1 t2) : QuadGood d c b a t1 t2 := by
  obtain ⟨hm, n1, n2, ha⟩ := h
  refine ⟨?_, n1, n2, ?_⟩
  · intro p hp
    have := hm p hp
    simp only [List.mem_cons, List.not_mem_nil, or_false] at this ⊢
    tauto
  · rw [ha, ← abs_neg]; congr 1; unfold shoelace cross2; ring

theorem mem_of_sort3 {x y z p : Pt XQ} {l : List (Pt XQ)} (hx : x ∈ l) (hy : y ∈ l) (hz : z ∈ l)
    (hp : p ∈ [(sort3 x y z).1, (sort3 x y z).2.1, (sort3 x y z).2.2]) : p ∈ l := by
  have := (sort3_perm x y z).mem_iff.mp hp
  simp only [List.mem_cons, List.not_mem_nil, or_false] at this
  rcases this with rfl | rfl | rfl <;> assumption

theorem orientPt_sort3 (x y z : Rat × Rat) :
    |orientPt (sort3 (Fq x) (Fq y) (Fq z)).1 (sort3 (Fq x) (Fq y) (Fq z)).2.1
      (sort3 (Fq x) (Fq y) (Fq z)).2.2| = |orient x y z| :=
  sort3_abs_orient (Fq x) (Fq y) (Fq z)

/-- the claim for two triangles given as `sort3` of corner triples -/
theorem quadGood_sort3 (a b c d x y z u v w : Rat × Rat)
    (hx : Fq x ∈ [Fq a, Fq b, Fq c, Fq d]) (hy : Fq y ∈ [Fq a, Fq b, Fq c, Fq d])
    (hz : Fq z ∈ [Fq a, Fq b, Fq c, Fq d]) (hu : Fq u ∈ [Fq a, Fq b, Fq c, Fq d])
    (hv : Fq v ∈ [Fq a, Fq b, Fq c, Fq d]) (hw : Fq w ∈ [Fq a, Fq b, Fq c, Fq d])
    (h1 : orient x y z ≠ 0) (h2 : orient u v w ≠ 0)
    (harea : |orient x y z| + |orient u v w| = |shoelace a b c d|) :
    QuadGood a b c d (sort3 (Fq x) (Fq y) (Fq z)) (sort3 (Fq u) (Fq v) (Fq w)) := by
  refine ⟨?_, ?_, ?_, ?_⟩
  · intro p hp
    simp only [List.mem_cons, List.not_mem_nil, or_false] at hp
    rcases hp with rfl | rfl | rfl | rfl | rfl | rfl
    · exact mem_of_sort3 hx hy hz (by simp)
    · exact mem_of_sort3 hx hy hz (by simp)
    · exact mem_of_sort3 hx hy hz (by simp)
    · exact mem_of_sort3 hu hv hw (by simp)
    · exact mem_of_sort3 hu hv hw (by simp)
    · exact mem_of_sort3 hu hv hw (by simp)
  · intro h0
    have := orientPt_sort3 x y z
    rw [h0, abs_zero] at this
    exact h1 (abs_eq_zero.mp this.symm)
  · intro h0
    have := orientPt_sort3 u v w
    rw [h0, abs_zero] at this
    exact h2 (abs_eq_zero.mp this.symm)
  · rw [orientPt_sort3, orientPt_sort3, harea]

/-! ### sign analysis -/

/-- sign analysis for ring `O` (`a b c d` stand for `orient q1 q2 q3`, `orient q1 q2 q4`,
    `orient q1 q3 q4`, `orient q2 q3 q4`; `dij = qj.1 - qi.1`) -/
theorem signs_O (a b c d d12 d13 d14 d23 d24 d34 : Rat)
    (p12 : 0 < d12) (p13 : 0 < d13) (p14 : 0 < d14) (p23 : 0 < d23) (p24 : 0 < d24) (p34 : 0 < d34)
    (Ra : d13 * b = d12 * c + d14 * a) (Rb : d24 * c = d14 * d + d34 * b)
    (Rc : d23 * b = d12 * d + d24 * a) (Rd : d23 * c = d13 * d + d34 * a)
    (na : a ≠ 0) (nb : b ≠ 0) (nc : c ≠ 0) (nd : d ≠ 0)
    (C1 : ¬ (b * a < 0 ∧ (-c) * (-d) < 0))
    (C2 : ¬ ((-d) * b < 0 ∧ a * (-c) < 0)) :
    (0 < a ∧ d < 0) ∨ (a < 0 ∧ 0 < d) := by
  rcases lt_or_gt_of_ne na with ha | ha <;> rcases lt_or_gt_of_ne nb with hb | hb <;>
    rcases lt_or_gt_of_ne nc with hc | hc <;> rcases lt_or_gt_of_ne nd with hd | hd
  all_goals
    first
      | (simp [ha, hb, hc, hd]; done)
      | (exfalso; exact C1 ⟨by nlinarith, by nlinarith⟩)
      | (exfalso; exact C2 ⟨by nlinarith, by nlinarith⟩)

/-- sign analysis for ring `A` (`a b c d` stand for `orient q1 q2 q3`, `orient q1 q2 q4`,
    `orient q1 q3 q4`, `orient q2 q3 q4`; `dij = qj.1 - qi.1`) -/
theorem signs_A (a b c d d12 d13 d14 d23 d24 d34 : Rat)
    (p12 : 0 < d12) (p13 : 0 < d13) (p14 : 0 < d14) (p23 : 0 < d23) (p24 : 0 < d24) (p34 : 0 < d34)
    (Ra : d13 * b = d12 * c + d14 * a) (Rb : d24 * c = d14 * d + d34 * b)
    (Rc : d23 * b = d12 * d + d24 * a) (Rd : d23 * c = d13 * d + d34 * a)
    (na : a ≠ 0) (nb : b ≠ 0) (nc : c ≠ 0) (nd : d ≠ 0)
    (C1 : ¬ (a * b < 0 ∧ c * d < 0))
    (C2 : ¬ (d * a < 0 ∧ b * c < 0)) :
    (b < 0 ∧ c < 0 ∧ a < 0) ∨ (b < 0 ∧ c < 0 ∧ 0 < a ∧ d < 0) ∨ (0 < b ∧ 0 < c ∧ 0 < a) ∨ (0 < b ∧ 0 < c ∧ a < 0 ∧ 0 < d) := by
  rcases lt_or_gt_of_ne na with ha | ha <;> rcases lt_or_gt_of_ne nb with hb | hb <;>
    rcases lt_or_gt_of_ne nc with hc | hc <;> rcases lt_or_gt_of_ne nd with hd | hd
  all_goals
    first
      | (simp [ha, hb, hc, hd]; done)
      | (exfalso; exact C1 ⟨by nlinarith, by nlinarith⟩)
      | (exfalso; exact C2 ⟨by nlinarith, by nlinarith⟩)

/-- sign analysis for ring `Z` (`a b c d` stand for `orient q1 q2 q3`, `orient q1 q2 q4`,
    `orient q1 q3 q4`, `orient q2 q3 q4`; `dij = qj.1 - qi.1`) -/
theorem signs_Z (a b c d d12 d13 d14 d23 d24 d34 : Rat)
    (p12 : 0 < d12) (p13 : 0 < d13) (p14 : 0 < d14) (p23 : 0 < d23) (p24 : 0 < d24) (p34 : 0 < d34)
    (Ra : d13 * b = d12 * c + d14 * a) (Rb : d24 * c = d14 * d + d34 * b)
    (Rc : d23 * b = d12 * d + d24 * a) (Rd : d23 * c = d13 * d + d34 * a)
    (na : a ≠ 0) (nb : b ≠ 0) (nc : c ≠ 0) (nd : d ≠ 0)
    (C1 : ¬ ((-a) * c < 0 ∧ b * (-d) < 0))
    (C2 : ¬ ((-d) * (-a) < 0 ∧ c * b < 0)) :
    (c < 0 ∧ b < 0 ∧ 0 < a ∧ d < 0) ∨ (0 < c ∧ 0 < b ∧ a < 0 ∧ 0 < d) ∨ (c < 0 ∧ a < 0 ∧ 0 < d ∧ b < 0) ∨ (0 < c ∧ 0 < a ∧ d < 0 ∧ 0 < b) := by
  rcases lt_or_gt_of_ne na with ha | ha <;> rcases lt_or_gt_of_ne nb with hb | hb <;>
    rcases lt_or_gt_of_ne nc with hc | hc <;> rcases lt_or_gt_of_ne nd with hd | hd
  all_goals
    first
      | (simp [ha, hb, hc, hd]; done)
      | (exfalso; exact C1 ⟨by nlinarith, by nlinarith⟩)
      | (exfalso; exact C2 ⟨by nlinarith, by nlinarith⟩)

/-! ### the three ring types -/

/-- ring `O`: every simple quadrilateral `q1 q2 q4 q3` with `q1.1 < q2.1 < q3.1 < q4.1` is
    accepted, with two triangles that tile it -/
theorem ringO_run (ori : Bool) (V : Array (Vtx XQ)) (i1 i2 i3 i4 : Nat) (q1 q2 q3 q4 : Rat × Rat)
    (h1 : V[i1]? = some ⟨Fq q1, (nb ori i2 i3).1, (nb ori i2 i3).2⟩)
    (h2 : V[i2]? = some ⟨Fq q2, (nb ori i4 i1).1, (nb ori i4 i1).2⟩)
    (h3 : V[i3]? = some ⟨Fq q3, (nb ori i1 i4).1, (nb ori i1 i4).2⟩)
    (h4 : V[i4]? = some ⟨Fq q4, (nb ori i3 i2).1, (nb ori i3 i2).2⟩)
    (h12 : q1.1 < q2.1) (h23 : q2.1 < q3.1) (h34 : q3.1 < q4.1)
    (hs : SimpleQuad q1 q2 q4 q3) :
    ∃ s' t1 t2, Runs (stQ V [(i1, [])]) (.ok ((), s')) (loop 5) ∧ s'.out = [t2, t1] ∧
      s'.mono = true ∧ QuadGood q1 q2 q4 q3 t1 t2 := by
  obtain ⟨n1, n2, n3, n4, C1, C2⟩ := hs
  have h13 := lt_trans h12 h23
  have h24 := lt_trans h23 h34
  have h14 := lt_trans h13 h34
  have na : orient q1 q2 q3 ≠ 0 := by
    intro h; apply n4; simp only [orient] at *; linarith
  have nb : orient q1 q2 q4 ≠ 0 := by
    intro h; apply n1; simp only [orient] at *; linarith
  have nc : orient q1 q3 q4 ≠ 0 := by
    intro h; apply n3; simp only [orient] at *; linarith
  have nd : orient q2 q3 q4 ≠ 0 := by
    intro h; apply n2; simp only [orient] at *; linarith
  have e1 : orient q4 q3 q1 = - orient q1 q3 q4 := by unfold orient; ring
  have e2 : orient q4 q3 q2 = - orient q2 q3 q4 := by unfold orient; ring
  have e3 : orient q2 q4 q3 = - orient q2 q3 q4 := by unfold orient; ring
  have e4 : orient q2 q4 q1 = orient q1 q2 q4 := by unfold orient; ring
  have e5 : orient q3 q1 q2 = orient q1 q2 q3 := by unfold orient; ring
  have e6 : orient q3 q1 q4 = - orient q1 q3 q4 := by unfold orient; ring
  simp only [Cross, e1, e2, e3, e4, e5, e6] at C1 C2
  have S := signs_O (orient q1 q2 q3) (orient q1 q2 q4) (orient q1 q3 q4) (orient q2 q3 q4)
    (q2.1 - q1.1) (q3.1 - q1.1) (q4.1 - q1.1) (q3.1 - q2.1) (q4.1 - q2.1) (q4.1 - q3.1)
    (sub_pos.mpr h12) (sub_pos.mpr h13) (sub_pos.mpr h14) (sub_pos.mpr h23) (sub_pos.mpr h24)
    (sub_pos.mpr h34) (rel_a q1 q2 q3 q4) (rel_b q1 q2 q3 q4) (rel_c q1 q2 q3 q4) (rel_d q1 q2 q3 q4)
    na nb nc nd C1 C2
  rcases S with ⟨s123, s234⟩ | ⟨s123, s234⟩
  · obtain ⟨s', hr, ho, hm⟩ := run_Oa ori V i1 i2 i3 i4 q1 q2 q3 q4 h1 h2 h3 h4 h12 h23 h34 s123 s234
    refine ⟨s', _, _, hr, ho, hm, quadGood_sort3 q1 q2 q4 q3 q2 q1 q3 q2 q3 q4
      (by simp) (by simp) (by simp) (by simp) (by simp) (by simp) (ne_of_lt (by osgn)) (ne_of_lt (by osgn)) ?_⟩
    have hx : 0 < - orient q2 q1 q3 := by osgn
    have hy : 0 < - orient q2 q3 q4 := by osgn
    have hS : |shoelace q1 q2 q4 q3| = |- orient q2 q1 q3 + (- orient q2 q3 q4)| := by
      first
        | (congr 1; unfold shoelace cross2 orient; ring1)
        | (rw [← abs_neg]; congr 1; unfold shoelace cross2 orient; ring1)
    rw [hS, abs_of_neg (by linarith), abs_of_neg (by linarith), abs_of_pos (by linarith)]
  · obtain ⟨s', hr, ho, hm⟩ := run_Ob ori V i1 i2 i3 i4 q1 q2 q3 q4 h1 h2 h3 h4 h12 h23 h34 s123 s234
    refine ⟨s', _, _, hr, ho, hm, quadGood_sort3 q1 q2 q4 q3 q3 q1 q2 q3 q2 q4
      (by simp) (by simp) (by simp) (by simp) (by simp) (by simp) (ne_of_lt (by osgn)) (ne_of_lt (by osgn)) ?_⟩
    have hx : 0 < - orient q3 q1 q2 := by osgn
    have hy : 0 < - orient q3 q2 q4 := by osgn
    have hS : |shoelace q1 q2 q4 q3| = |- orient q3 q1 q2 + (- orient q3 q2 q4)| := by
      first
        | (congr 1; unfold shoelace cross2 orient; ring1)
        | (rw [← abs_neg]; congr 1; unfold shoelace cross2 orient; ring1)
    rw [hS, abs_of_neg (by linarith), abs_of_neg (by linarith), abs_of_pos (by linarith)]

/-- ring `A`: every simple quadrilateral `q1 q2 q3 q4` with `q1.1 < q2.1 < q3.1 < q4.1` is
    accepted, with two triangles that tile it -/
theorem ringA_run (ori : Bool) (V : Array (Vtx XQ)) (i1 i2 i3 i4 : Nat) (q1 q2 q3 q4 : Rat × Rat)
    (h1 : V[i1]? = some ⟨Fq q1, (nb ori i4 i2).1, (nb ori i4 i2).2⟩)
    (h2 : V[i2]? = some ⟨Fq q2, (nb ori i1 i3).1, (nb ori i1 i3).2⟩)
    (h3 : V[i3]? = some ⟨Fq q3, (nb ori i2 i4).1, (nb ori i2 i4).2⟩)
    (h4 : V[i4]? = some ⟨Fq q4, (nb ori i3 i1).1, (nb ori i3 i1).2⟩)
    (h12 : q1.1 < q2.1) (h23 : q2.1 < q3.1) (h34 : q3.1 < q4.1)
    (hs : SimpleQuad q1 q2 q3 q4) :
    ∃ s' t1 t2, Runs (stQ V [(i1, [])]) (.ok ((), s')) (loop 5) ∧ s'.out = [t2, t1] ∧
      s'.mono = true ∧ QuadGood q1 q2 q3 q4 t1 t2 := by
  obtain ⟨n1, n2, n3, n4, C1, C2⟩ := hs
  have h13 := lt_trans h12 h23
  have h24 := lt_trans h23 h34
  have h14 := lt_trans h13 h34
  have na : orient q1 q2 q3 ≠ 0 := by
    intro h; apply n1; simp only [orient] at *; linarith
  have nb : orient q1 q2 q4 ≠ 0 := by
    intro h; apply n4; simp only [orient] at *; linarith
  have nc : orient q1 q3 q4 ≠ 0 := by
    intro h; apply n3; simp only [orient] at *; linarith
  have nd : orient q2 q3 q4 ≠ 0 := by
    intro h; apply n2; simp only [orient] at *; linarith
  have e1 : orient q3 q4 q1 = orient q1 q3 q4 := by unfold orient; ring
  have e2 : orient q3 q4 q2 = orient q2 q3 q4 := by unfold orient; ring
  have e3 : orient q2 q3 q1 = orient q1 q2 q3 := by unfold orient; ring
  have e4 : orient q4 q1 q2 = orient q1 q2 q4 := by unfold orient; ring
  have e5 : orient q4 q1 q3 = orient q1 q3 q4 := by unfold orient; ring
  simp only [Cross, e1, e2, e3, e4, e5] at C1 C2
  have S := signs_A (orient q1 q2 q3) (orient q1 q2 q4) (orient q1 q3 q4) (orient q2 q3 q4)
    (q2.1 - q1.1) (q3.1 - q1.1) (q4.1 - q1.1) (q3.1 - q2.1) (q4.1 - q2.1) (q4.1 - q3.1)
    (sub_pos.mpr h12) (sub_pos.mpr h13) (sub_pos.mpr h14) (sub_pos.mpr h23) (sub_pos.mpr h24)
    (sub_pos.mpr h34) (rel_a q1 q2 q3 q4) (rel_b q1 q2 q3 q4) (rel_c q1 q2 q3 q4) (rel_d q1 q2 q3 q4)
    na nb nc nd C1 C2
  rcases S with ⟨s124, s134, s123⟩ | ⟨s124, s134, s123, s234⟩ | ⟨s124, s134, s123⟩ | ⟨s124, s134, s123, s234⟩
  · obtain ⟨s', hr, ho, hm⟩ := run_At ori V i1 i2 i3 i4 q1 q2 q3 q4 h1 h2 h3 h4 h12 h23 h34 s124 s134 s123
    refine ⟨s', _, _, hr, ho, hm, quadGood_sort3 q1 q2 q3 q4 q1 q2 q3 q1 q3 q4
      (by simp) (by simp) (by simp) (by simp) (by simp) (by simp) (ne_of_lt (by osgn)) (ne_of_lt (by osgn)) ?_⟩
    have hx : 0 < - orient q1 q2 q3 := by osgn
    have hy : 0 < - orient q1 q3 q4 := by osgn
    have hS : |shoelace q1 q2 q3 q4| = |- orient q1 q2 q3 + (- orient q1 q3 q4)| := by
      first
        | (congr 1; unfold shoelace cross2 orient; ring1)
        | (rw [← abs_neg]; congr 1; unfold shoelace cross2 orient; ring1)
    rw [hS, abs_of_neg (by linarith), abs_of_neg (by linarith), abs_of_pos (by linarith)]
  · obtain ⟨s', hr, ho, hm⟩ := run_Atr ori V i1 i2 i3 i4 q1 q2 q3 q4 h1 h2 h3 h4 h12 h23 h34 s124 s134 s123 s234
    refine ⟨s', _, _, hr, ho, hm, quadGood_sort3 q1 q2 q3 q4 q2 q3 q4 q1 q2 q4
      (by simp) (by simp) (by simp) (by simp) (by simp) (by simp) (ne_of_lt (by osgn)) (ne_of_lt (by osgn)) ?_⟩
    have hx : 0 < - orient q2 q3 q4 := by osgn
    have hy : 0 < - orient q1 q2 q4 := by osgn
    have hS : |shoelace q1 q2 q3 q4| = |- orient q2 q3 q4 + (- orient q1 q2 q4)| := by
      first
        | (congr 1; unfold shoelace cross2 orient; ring1)
        | (rw [← abs_neg]; congr 1; unfold shoelace cross2 orient; ring1)
    rw [hS, abs_of_neg (by linarith), abs_of_neg (by linarith), abs_of_pos (by linarith)]
  · obtain ⟨s', hr, ho, hm⟩ := run_Ab ori V i1 i2 i3 i4 q1 q2 q3 q4 h1 h2 h3 h4 h12 h23 h34 s124 s134 s123
    refine ⟨s', _, _, hr, ho, hm, quadGood_sort3 q1 q2 q3 q4 q3 q2 q1 q3 q1 q4
      (by simp) (by simp) (by simp) (by simp) (by simp) (by simp) (ne_of_lt (by osgn)) (ne_of_lt (by osgn)) ?_⟩
    have hx : 0 < - orient q3 q2 q1 := by osgn
    have hy : 0 < - orient q3 q1 q4 := by osgn
    have hS : |shoelace q1 q2 q3 q4| = |- orient q3 q2 q1 + (- orient q3 q1 q4)| := by
      first
        | (congr 1; unfold shoelace cross2 orient; ring1)
        | (rw [← abs_neg]; congr 1; unfold shoelace cross2 orient; ring1)
    rw [hS, abs_of_neg (by linarith), abs_of_neg (by linarith), abs_of_pos (by linarith)]
  · obtain ⟨s', hr, ho, hm⟩ := run_Abr ori V i1 i2 i3 i4 q1 q2 q3 q4 h1 h2 h3 h4 h12 h23 h34 s124 s134 s123 s234
    refine ⟨s', _, _, hr, ho, hm, quadGood_sort3 q1 q2 q3 q4 q2 q1 q4 q3 q2 q4
      (by simp) (by simp) (by simp) (by simp) (by simp) (by simp) (ne_of_lt (by osgn)) (ne_of_lt (by osgn)) ?_⟩
    have hx : 0 < - orient q2 q1 q4 := by osgn
    have hy : 0 < - orient q3 q2 q4 := by osgn
    have hS : |shoelace q1 q2 q3 q4| = |- orient q2 q1 q4 + (- orient q3 q2 q4)| := by
      first
        | (congr 1; unfold shoelace cross2 orient; ring1)
        | (rw [← abs_neg]; congr 1; unfold shoelace cross2 orient; ring1)
    rw [hS, abs_of_neg (by linarith), abs_of_neg (by linarith), abs_of_pos (by linarith)]

/-- ring `Z`: every simple quadrilateral `q1 q3 q2 q4` with `q1.1 < q2.1 < q3.1 < q4.1` is
    accepted, with two triangles that tile it -/
theorem ringZ_run (ori : Bool) (V : Array (Vtx XQ)) (i1 i2 i3 i4 : Nat) (q1 q2 q3 q4 : Rat × Rat)
    (h1 : V[i1]? = some ⟨Fq q1, (nb ori i4 i3).1, (nb ori i4 i3).2⟩)
    (h2 : V[i2]? = some ⟨Fq q2, (nb ori i3 i4).1, (nb ori i3 i4).2⟩)
    (h3 : V[i3]? = some ⟨Fq q3, (nb ori i1 i2).1, (nb ori i1 i2).2⟩)
    (h4 : V[i4]? = some ⟨Fq q4, (nb ori i2 i1).1, (nb ori i2 i1).2⟩)
    (h12 : q1.1 < q2.1) (h23 : q2.1 < q3.1) (h34 : q3.1 < q4.1)
    (hs : SimpleQuad q1 q3 q2 q4) :
    ∃ s' t1 t2, Runs (stQ V [(i1, []), (i2, [])]) (.ok ((), s')) (loop 5) ∧ s'.out = [t2, t1] ∧
      s'.mono = true ∧ QuadGood q1 q3 q2 q4 t1 t2 := by
  obtain ⟨n1, n2, n3, n4, C1, C2⟩ := hs
  have h13 := lt_trans h12 h23
  have h24 := lt_trans h23 h34
  have h14 := lt_trans h13 h34
  have na : orient q1 q2 q3 ≠ 0 := by
    intro h; apply n1; simp only [orient] at *; linarith
  have nb : orient q1 q2 q4 ≠ 0 := by
    intro h; apply n3; simp only [orient] at *; linarith
  have nc : orient q1 q3 q4 ≠ 0 := by
    intro h; apply n4; simp only [orient] at *; linarith
  have nd : orient q2 q3 q4 ≠ 0 := by
    intro h; apply n2; simp only [orient] at *; linarith
  have e1 : orient q1 q3 q2 = - orient q1 q2 q3 := by unfold orient; ring
  have e2 : orient q2 q4 q1 = orient q1 q2 q4 := by unfold orient; ring
  have e3 : orient q2 q4 q3 = - orient q2 q3 q4 := by unfold orient; ring
  have e4 : orient q3 q2 q4 = - orient q2 q3 q4 := by unfold orient; ring
  have e5 : orient q3 q2 q1 = - orient q1 q2 q3 := by unfold orient; ring
  have e6 : orient q4 q1 q3 = orient q1 q3 q4 := by unfold orient; ring
  have e7 : orient q4 q1 q2 = orient q1 q2 q4 := by unfold orient; ring
  simp only [Cross, e1, e2, e3, e4, e5, e6, e7] at C1 C2
  have S := signs_Z (orient q1 q2 q3) (orient q1 q2 q4) (orient q1 q3 q4) (orient q2 q3 q4)
    (q2.1 - q1.1) (q3.1 - q1.1) (q4.1 - q1.1) (q3.1 - q2.1) (q4.1 - q2.1) (q4.1 - q3.1)
    (sub_pos.mpr h12) (sub_pos.mpr h13) (sub_pos.mpr h14) (sub_pos.mpr h23) (sub_pos.mpr h24)
    (sub_pos.mpr h34) (rel_a q1 q2 q3 q4) (rel_b q1 q2 q3 q4) (rel_c q1 q2 q3 q4) (rel_d q1 q2 q3 q4)
    na nb nc nd C1 C2
  rcases S with ⟨s134, s124, s123, s234⟩ | ⟨s134, s124, s123, s234⟩ | ⟨s134, s123, s234, s124⟩ | ⟨s134, s123, s234, s124⟩
  · obtain ⟨s', hr, ho, hm⟩ := run_Zia ori V i1 i2 i3 i4 q1 q2 q3 q4 h1 h2 h3 h4 h12 h23 h34 s134 s124 s123 s234
    refine ⟨s', _, _, hr, ho, hm, quadGood_sort3 q1 q3 q2 q4 q2 q1 q3 q1 q2 q4
      (by simp) (by simp) (by simp) (by simp) (by simp) (by simp) (ne_of_lt (by osgn)) (ne_of_lt (by osgn)) ?_⟩
    have hx : 0 < - orient q2 q1 q3 := by osgn
    have hy : 0 < - orient q1 q2 q4 := by osgn
    have hS : |shoelace q1 q3 q2 q4| = |- orient q2 q1 q3 + (- orient q1 q2 q4)| := by
      first
        | (congr 1; unfold shoelace cross2 orient; ring1)
        | (rw [← abs_neg]; congr 1; unfold shoelace cross2 orient; ring1)
    rw [hS, abs_of_neg (by linarith), abs_of_neg (by linarith), abs_of_pos (by linarith)]
  · obtain ⟨s', hr, ho, hm⟩ := run_Zib ori V i1 i2 i3 i4 q1 q2 q3 q4 h1 h2 h3 h4 h12 h23 h34 s134 s124 s123 s234
    refine ⟨s', _, _, hr, ho, hm, quadGood_sort3 q1 q3 q2 q4 q1 q2 q3 q2 q1 q4
      (by simp) (by simp) (by simp) (by simp) (by simp) (by simp) (ne_of_lt (by osgn)) (ne_of_lt (by osgn)) ?_⟩
    have hx : 0 < - orient q1 q2 q3 := by osgn
    have hy : 0 < - orient q2 q1 q4 := by osgn
    have hS : |shoelace q1 q3 q2 q4| = |- orient q1 q2 q3 + (- orient q2 q1 q4)| := by
      first
        | (congr 1; unfold shoelace cross2 orient; ring1)
        | (rw [← abs_neg]; congr 1; unfold shoelace cross2 orient; ring1)
    rw [hS, abs_of_neg (by linarith), abs_of_neg (by linarith), abs_of_pos (by linarith)]
  · obtain ⟨s', hr, ho, hm⟩ := run_Zab ori V i1 i2 i3 i4 q1 q2 q3 q4 h1 h2 h3 h4 h12 h23 h34 s134 s123 s234 s124
    refine ⟨s', _, _, hr, ho, hm, quadGood_sort3 q1 q3 q2 q4 q3 q2 q4 q1 q3 q4
      (by simp) (by simp) (by simp) (by simp) (by simp) (by simp) (ne_of_lt (by osgn)) (ne_of_lt (by osgn)) ?_⟩
    have hx : 0 < - orient q3 q2 q4 := by osgn
    have hy : 0 < - orient q1 q3 q4 := by osgn
    have hS : |shoelace q1 q3 q2 q4| = |- orient q3 q2 q4 + (- orient q1 q3 q4)| := by
      first
        | (congr 1; unfold shoelace cross2 orient; ring1)
        | (rw [← abs_neg]; congr 1; unfold shoelace cross2 orient; ring1)
    rw [hS, abs_of_neg (by linarith), abs_of_neg (by linarith), abs_of_pos (by linarith)]
  · obtain ⟨s', hr, ho, hm⟩ := run_Zbe ori V i1 i2 i3 i4 q1 q2 q3 q4 h1 h2 h3 h4 h12 h23 h34 s134 s123 s234 s124
    refine ⟨s', _, _, hr, ho, hm, quadGood_sort3 q1 q3 q2 q4 q3 q1 q4 q2 q3 q4
      (by simp) (by simp) (by simp) (by simp) (by simp) (by simp) (ne_of_lt (by osgn)) (ne_of_lt (by osgn)) ?_⟩
    have hx : 0 < - orient q3 q1 q4 := by osgn
    have hy : 0 < - orient q2 q3 q4 := by osgn
    have hS : |shoelace q1 q3 q2 q4| = |- orient q3 q1 q4 + (- orient q2 q3 q4)| := by
      first
        | (congr 1; unfold shoelace cross2 orient; ring1)
        | (rw [← abs_neg]; congr 1; unfold shoelace cross2 orient; ring1)
    rw [hS, abs_of_neg (by linarith), abs_of_neg (by linarith), abs_of_pos (by linarith)]

/-- from the set-up state and the run of the event loop to the result of `sweepMon` -/
theorem sweepMon_quad {A B C D : Pt XQ} {evs : List (Nat × List Nat)} {s' : St XQ}
    {t1 t2 : Pt XQ × Pt XQ × Pt XQ}
    (hsetup : (forIn [#[A, B, C, D]] ([] : List (Pt XQ)) SweepSetup.polyBody).run (initSt : St XQ) =
      .ok ([D, C, B, A], stQ (QuadSetup.ringQ A B C D) evs))
    (hr : Runs (stQ (QuadSetup.ringQ A B C D) evs) (.ok ((), s')) (loop 5))
    (ho : s'.out = [t2, t1]) (hm : s'.mono = true) :
    sweepMon [#[A, B, C, D]] = .ok ([t1, t2], true) := by
  unfold sweepMon
  rw [SweepSetup.run_eq, hsetup]
  simp only []
  rw [show (stQ (QuadSetup.ringQ A B C D) evs).verts.size + 1 = 5 from rfl, hr.run]
  simp [ho, hm]

end Cav.QuadCases
