/-
  Tiling by the emitted triangles, part 3: the weight `areaW R (beta q)` of the ring at a point
  `q` between two consecutive event abscissae (the slab lemma).

  * (S1) `eAllW_beta`, `areaW_beta`: `areaW R (beta q)` is the sum over the left-to-right ring edges
    passing strictly below `q` of the sign `sgn R u v` (`+1` lower, `-1` upper boundary edge);
  * (S2) `sum_w_eq`: the weighted version of `sum_ind_eq_length`;
  * (S3) `Slab R q E`: the list `E` enumerates, from bottom to top, the ring edges crossing the
    vertical line through `q`; `slab_of_inv`: the active list of the sweep invariant is such a list
    for every `q` strictly between the sweep abscissa and the next event; `slab_weight`: with
    alternating flags, `areaW R (beta q) = if inRegionV R q then 1 else 0`;
  * (S4) `weight_of_none`, `weight_left`, `weight_right`: no edge below `q`.
-/
import Cav.Lemmas.GenOutInRayDefs
import Cav.Lemmas.GenStepEnd

set_option linter.unusedVariables false
set_option linter.unusedSimpArgs false

namespace Cav.GenOutIn
open Cav Num Cav.Geo Cav.Sweep Cav.QuadGeom Cav.GenInv Cav.GenQueue Cav.GenOrder
open Cav.GenStepBend Cav.GenStepEnd Cav.GenOutDefs Cav.GenOutCount Cav.GenOutInv

variable {R : RingQ}

/-! ### (S1) the weight `beta q` on ring edges -/

theorem below_lt {q p r : Rat × Rat} (h : below q p r) : p.1 < r.1 := lt_trans h.1 h.2.1

/-- sign of a left-to-right ring edge: `+1` for a lower, `-1` for an upper boundary edge -/
def sgn (R : RingQ) (u v : Nat) : Rat := if isLo R u v then 1 else -1

theorem eAllW_beta (R : RingQ) (q : Rat × Rat) (u v : Nat) :
    eAllW R (beta q) u v = if below q (R.pt u) (R.pt v) then sgn R u v else 0 := by
  unfold eAllW eSignedW beta sgn
  by_cases hb : below q (R.pt u) (R.pt v)
  · have hx : R.x u < R.x v := below_lt hb
    simp only [if_pos hx, if_pos hb, mul_one]
  · by_cases hx : R.x u < R.x v
    · have hb' : ¬ below q (R.pt v) (R.pt u) := fun h => lt_asymm hx (below_lt h)
      simp only [if_pos hx, if_neg hb, if_neg hb', mul_zero]
    · simp only [if_neg hx, if_neg hb]

theorem areaW_beta (R : RingQ) (q : Rat × Rat) :
    areaW R (beta q) = ((List.range R.n).map fun u =>
      (if below q (R.pt u) (R.pt (R.nxt u)) then sgn R u (R.nxt u) else 0) +
      (if below q (R.pt u) (R.pt (R.prv u)) then sgn R u (R.prv u) else 0)).sum := by
  unfold areaW
  simp only [eAllW_beta]

/-! ### (S2) weighted double counting -/

theorem sum_flatMap_map {α β : Type} (f : α → List β) (g : β → Rat) : ∀ l : List α,
    ((l.flatMap f).map g).sum = (l.map fun u => ((f u).map g).sum).sum
  | [] => rfl
  | a :: l => by
    rw [List.flatMap_cons, List.map_append, List.sum_append, sum_flatMap_map f g l, List.map_cons,
      List.sum_cons]

theorem pairsOf_sum (nxt prv : Nat → Nat) (P : Nat → Nat → Prop) [∀ u v, Decidable (P u v)]
    (g : Nat → Nat → Rat) (u : Nat) :
    ((pairsOf nxt prv P u).map fun e => g e.1 e.2).sum =
      (if P u (nxt u) then g u (nxt u) else 0) + (if P u (prv u) then g u (prv u) else 0) := by
  unfold pairsOf
  by_cases h1 : P u (nxt u) <;> by_cases h2 : P u (prv u) <;> simp [h1, h2]

/-- the pairs of the double sum are a permutation of any duplicate-free enumeration -/
theorem pairs_perm {n : Nat} {nxt prv : Nat → Nat} {P : Nat → Nat → Prop}
    [∀ u v, Decidable (P u v)] {L : List (Nat × Nat)} (hL : L.Nodup)
    (hmem : ∀ u' v', (u', v') ∈ L ↔ (u' < n ∧ (v' = nxt u' ∨ v' = prv u') ∧ P u' v'))
    (hne : ∀ u', u' < n → nxt u' ≠ prv u') :
    ((List.range n).flatMap (pairsOf nxt prv P)).Perm L := by
  have hM : ((List.range n).flatMap (pairsOf nxt prv P)).Nodup := by
    rw [List.nodup_flatMap]
    refine ⟨fun u hu => pairsOf_nodup nxt prv P u (hne u (List.mem_range.mp hu)), ?_⟩
    have hr : (List.range n).Pairwise (· ≠ ·) := List.nodup_range
    refine hr.imp ?_
    intro u1 u2 h12
    show List.Disjoint (pairsOf nxt prv P u1) (pairsOf nxt prv P u2)
    intro p hp1 hp2
    have e1 := ((mem_pairsOf nxt prv P u1 p).mp hp1).1
    have e2 := ((mem_pairsOf nxt prv P u2 p).mp hp2).1
    exact h12 (e1.symm.trans e2)
  rw [List.perm_ext_iff_of_nodup hM hL]
  rintro ⟨u', v'⟩
  rw [hmem u' v', List.mem_flatMap]
  constructor
  · rintro ⟨u, hu, hp⟩
    obtain ⟨e1, e2, e3⟩ := (mem_pairsOf nxt prv P u _).mp hp
    simp only at e1 e2 e3
    subst e1
    exact ⟨List.mem_range.mp hu, e2, e3⟩
  · rintro ⟨hu, e2, e3⟩
    exact ⟨u', List.mem_range.mpr hu, (mem_pairsOf nxt prv P u' _).mpr ⟨rfl, e2, e3⟩⟩

/-- **weighted double counting** (the `Nat` version with `g = 1` is `sum_ind_eq_length`) -/
theorem sum_w_eq {n : Nat} {nxt prv : Nat → Nat} {P : Nat → Nat → Prop}
    [∀ u v, Decidable (P u v)] (g : Nat → Nat → Rat) {L : List (Nat × Nat)} (hL : L.Nodup)
    (hmem : ∀ u' v', (u', v') ∈ L ↔ (u' < n ∧ (v' = nxt u' ∨ v' = prv u') ∧ P u' v'))
    (hne : ∀ u', u' < n → nxt u' ≠ prv u') :
    ((List.range n).map fun u' =>
      (if P u' (nxt u') then g u' (nxt u') else 0) + (if P u' (prv u') then g u' (prv u') else 0)).sum =
      (L.map fun e => g e.1 e.2).sum := by
  have hp := pairs_perm hL hmem hne
  rw [← (hp.map (fun e => g e.1 e.2)).sum_eq, sum_flatMap_map]
  congr 1
  apply List.map_congr_left
  intro u _
  exact (pairsOf_sum nxt prv P g u).symm

/-! ### lists -/

/-- in a strictly increasing list the elements below a bound form a prefix -/
theorem filter_eq_take {α : Type} (f : α → Rat) (c : Rat) : ∀ l : List α,
    l.Pairwise (fun a b => f a < f b) →
    l.filter (fun a => decide (f a < c)) = l.take (l.filter (fun a => decide (f a < c))).length
  | [], _ => rfl
  | a :: r, h => by
    obtain ⟨h1, h2⟩ := List.pairwise_cons.mp h
    by_cases ha : f a < c
    · rw [List.filter_cons_of_pos (by simpa using ha), List.length_cons, List.take_succ_cons,
        ← filter_eq_take f c r h2]
    · have hnil : r.filter (fun a => decide (f a < c)) = [] := by
        rw [List.filter_eq_nil_iff]
        intro b hb
        have hab := h1 b hb
        simp only [decide_eq_true_eq]
        intro hbc
        exact ha (lt_trans hab hbc)
      rw [List.filter_cons_of_neg (by simpa using ha), hnil]
      rfl

/-- the signs of a prefix of `[iv1.lo, iv1.hi, iv2.lo, …]` sum to the parity of its length -/
theorem alt_take (R : RingQ) : ∀ (ivs : List IV),
    (∀ iv ∈ ivs, isLo R iv.lo.lv iv.lo.rv ∧ ¬ isLo R iv.hi.lv iv.hi.rv) → ∀ k, k ≤ (flatE ivs).length →
    (((flatE ivs).take k).map fun a => sgn R a.lv a.rv).sum = if k % 2 = 1 then 1 else 0
  | [], _, k, hk => by
    have : k = 0 := by simpa using hk
    subst this
    rfl
  | iv :: r, h, 0, _ => by simp
  | iv :: r, h, 1, _ => by
    have h1 := (h iv List.mem_cons_self).1
    simp [sgn, h1]
  | iv :: r, h, k + 2, hk => by
    obtain ⟨h1, h2⟩ := h iv List.mem_cons_self
    have hk' : k ≤ (flatE r).length := by
      rw [flatE_cons, List.length_cons, List.length_cons] at hk
      omega
    have ih := alt_take R r (fun iv' hm => h iv' (List.mem_cons_of_mem _ hm)) k hk'
    have e : (k + 2) % 2 = k % 2 := by omega
    rw [flatE_cons, List.take_succ_cons, List.take_succ_cons, List.map_cons, List.map_cons,
      List.sum_cons, List.sum_cons, ih, e]
    unfold sgn
    rw [if_pos h1, if_neg h2]
    ring

/-! ### (S3) the slab lemma -/

/-- `E` lists, from bottom to top, the ring edges crossing the vertical line through `q` -/
structure Slab (R : RingQ) (q : Rat × Rat) (E : List AE) : Prop where
  span : ∀ a ∈ E, a.lv < R.n ∧ Adj R a.lv a.rv ∧ R.x a.lv < q.1 ∧ q.1 < R.x a.rv
  sorted : E.Pairwise (fun a b => hY R a q.1 < hY R b q.1)
  cross : ∀ u v, u < R.n → v < R.n → Adj R u v → R.x u < q.1 → q.1 < R.x v →
    ∃ a ∈ E, a.lv = u ∧ a.rv = v

/-- **the active list between two events**: for `q` strictly between the sweep abscissa and the
    next event abscissa the active list is a `Slab` -/
theorem slab_of_inv (hN : NoCross R) {s : St XQ} {xs : Rat} {ivs : List IV} (hI : Inv R s xs ivs)
    {w : Nat} {es : List Nat} {rest : List (Nat × List Nat)} (hev : s.events = (w, es) :: rest)
    {q : Rat × Rat} (h1 : xs < q.1) (h2 : q.1 < R.x w) : Slab R q (flatE ivs) := by
  have hq := hI.q
  rw [hev] at hq
  have hR := hI.ring
  have hgap := no_gap hR hq hI.cross
  have hreach := reach_head hq
  have hsp : ∀ a ∈ flatE ivs, a.lv < R.n ∧ Adj R a.lv a.rv ∧ R.x a.lv < q.1 ∧ q.1 < R.x a.rv := by
    intro a ha
    have sa := hI.span a ha
    exact ⟨sa.lv_lt, sa.adj, lt_of_le_of_lt sa.le h1, lt_of_lt_of_le h2 (hreach a ha).1⟩
  refine ⟨hsp, ?_, ?_⟩
  · have hadv := heights_advance hN hI.span hI.sorted hq.uniq h1
      (fun a ha => le_of_lt (hsp a ha).2.2.2)
    refine List.Pairwise.imp_of_mem ?_ hadv
    intro a b ha hb hab
    rcases hab with h | ⟨e, -⟩
    · exact h
    · exact absurd (hsp a ha).2.2.2 (not_lt.mpr (le_of_eq e.symm))
  · intro u v hu hv hadj hxu hxv
    apply hI.cross u v hu hv hadj ?_ (lt_trans h1 hxv)
    by_contra hc
    have := hgap u hu (not_le.mp hc)
    exact absurd (lt_trans hxu h2) (not_lt.mpr this)

/-- the edges of a slab strictly below `q` -/
def belowE (R : RingQ) (q : Rat × Rat) (E : List AE) : List AE :=
  E.filter fun a => decide (hY R a q.1 < q.2)

theorem belowE_mem {V : Array (Vtx XQ)} (hR : RingOK R V) {q : Rat × Rat} {E : List AE}
    (hS : Slab R q E) (u' v' : Nat) :
    (u', v') ∈ (belowE R q E).map (fun b => (b.lv, b.rv)) ↔
      (u' < R.n ∧ (v' = R.nxt u' ∨ v' = R.prv u') ∧ below q (R.pt u') (R.pt v')) := by
  constructor
  · intro hm
    obtain ⟨b, hb, e⟩ := List.mem_map.mp hm
    have e1 : b.lv = u' := congrArg Prod.fst e
    have e2 : b.rv = v' := congrArg Prod.snd e
    obtain ⟨hbE, hlt⟩ := List.mem_filter.mp hb
    have hlt : hY R b q.1 < q.2 := by simpa using hlt
    obtain ⟨s1, s2, s3, s4⟩ := hS.span b hbE
    subst e1; subst e2
    exact ⟨s1, adj_cases s2, s3, s4, hlt⟩
  · rintro ⟨hu, hv, h1, h2, h3⟩
    have hvn : v' < R.n := by
      rcases hv with h | h
      · rw [h]; exact hR.nxt_lt u' hu
      · rw [h]; exact hR.prv_lt u' hu
    have hadj : Adj R u' v' := by
      rcases hv with h | h
      · exact Or.inl h.symm
      · exact Or.inr h.symm
    obtain ⟨b, hb, e1, e2⟩ := hS.cross u' v' hu hvn hadj h1 h2
    refine List.mem_map.mpr ⟨b, List.mem_filter.mpr ⟨hb, ?_⟩, by rw [e1, e2]⟩
    have : hY R b q.1 < q.2 := by
      show lineY (R.pt b.lv) (R.pt b.rv) q.1 < q.2
      rw [e1, e2]; exact h3
    simpa using this

theorem belowE_nodup {q : Rat × Rat} {E : List AE} (hS : Slab R q E) :
    ((belowE R q E).map (fun b => (b.lv, b.rv))).Nodup := by
  have hE : (E.map (fun b => (b.lv, b.rv))).Nodup := by
    unfold List.Nodup
    rw [List.pairwise_map]
    refine hS.sorted.imp ?_
    intro a b hab e
    have e1 : a.lv = b.lv := congrArg Prod.fst e
    have e2 : a.rv = b.rv := congrArg Prod.snd e
    have : hY R a q.1 = hY R b q.1 := by
      show lineY (R.pt a.lv) (R.pt a.rv) q.1 = lineY (R.pt b.lv) (R.pt b.rv) q.1
      rw [e1, e2]
    rw [this] at hab
    exact lt_irrefl _ hab
  exact hE.sublist (List.Sublist.map _ List.filter_sublist)

/-- the number of ring edges below `q` -/
theorem nBpt_eq {V : Array (Vtx XQ)} (hR : RingOK R V) {q : Rat × Rat} {E : List AE}
    (hS : Slab R q E) : nBpt R q = (belowE R q E).length := by
  have h := sum_ind_eq_length (n := R.n) (nxt := R.nxt) (prv := R.prv)
    (P := fun u' v' => below q (R.pt u') (R.pt v')) (belowE_nodup hS) (belowE_mem hR hS)
    (fun u' hu' => (hR.ne u' hu').symm)
  rw [List.length_map] at h
  exact h

/-- the weight of the ring at `q` is the sum of the signs of the edges below `q` -/
theorem areaW_eq {V : Array (Vtx XQ)} (hR : RingOK R V) {q : Rat × Rat} {E : List AE}
    (hS : Slab R q E) :
    areaW R (beta q) = ((belowE R q E).map fun a => sgn R a.lv a.rv).sum := by
  have h := sum_w_eq (n := R.n) (nxt := R.nxt) (prv := R.prv)
    (P := fun u' v' => below q (R.pt u') (R.pt v')) (sgn R) (belowE_nodup hS) (belowE_mem hR hS)
    (fun u' hu' => (hR.ne u' hu').symm)
  rw [List.map_map] at h
  rw [areaW_beta]
  exact h

/-- **the slab lemma**: along a vertical line crossed by the edges `[iv1.lo, iv1.hi, iv2.lo, …]`
    (lower edges `+1`, upper edges `-1`) the weight at `q` is the parity of the number of edges
    below `q` -/
theorem slab_weight {V : Array (Vtx XQ)} (hR : RingOK R V) {q : Rat × Rat} {ivs : List IV}
    (hS : Slab R q (flatE ivs))
    (hF : ∀ iv ∈ ivs, isLo R iv.lo.lv iv.lo.rv ∧ ¬ isLo R iv.hi.lv iv.hi.rv) :
    areaW R (beta q) = if inRegionV R q then 1 else 0 := by
  have hn := nBpt_eq hR hS
  have ha := areaW_eq hR hS
  have htk : belowE R q (flatE ivs) = (flatE ivs).take (belowE R q (flatE ivs)).length :=
    filter_eq_take (fun a => hY R a q.1) q.2 (flatE ivs) hS.sorted
  have hle : (belowE R q (flatE ivs)).length ≤ (flatE ivs).length := List.length_filter_le _ _
  have hs := alt_take R ivs hF _ hle
  rw [← htk, ← ha, ← hn] at hs
  rw [hs]
  by_cases h : inRegionV R q
  · rw [if_pos h]
    unfold inRegionV at h
    rw [if_pos h]
  · rw [if_neg h]
    unfold inRegionV at h
    rw [if_neg h]

/-! ### (S4) no edge below `q` -/

theorem weight_of_none {q : Rat × Rat}
    (h : ∀ u, u < R.n → ¬ below q (R.pt u) (R.pt (R.nxt u)) ∧ ¬ below q (R.pt u) (R.pt (R.prv u))) :
    areaW R (beta q) = if inRegionV R q then 1 else 0 := by
  have h1 : nBpt R q = 0 := by
    unfold nBpt
    apply List.sum_eq_zero
    intro t ht
    obtain ⟨u, hu, rfl⟩ := List.mem_map.mp ht
    have := h u (List.mem_range.mp hu)
    rw [if_neg this.1, if_neg this.2, Nat.add_zero]
  have h2: areaW R (beta q) = 0 := by
    rw [areaW_beta]
    apply List.sum_eq_zero
    intro t ht
    obtain ⟨u, hu, rfl⟩ := List.mem_map.mp ht
    have := h u (List.mem_range.mp hu)
    rw [if_neg this.1, if_neg this.2, add_zero]
  have h3 : ¬ inRegionV R q := by
    unfold inRegionV
    rw [h1]
    decide
  rw [h2, if_neg h3]

/-- `q` to the left of all vertices -/
theorem weight_left {q : Rat × Rat} (h : ∀ v, v < R.n → q.1 < R.x v) :
    areaW R (beta q) = if inRegionV R q then 1 else 0 := by
  apply weight_of_none
  intro u hu
  have hx := h u hu
  exact ⟨fun hb => lt_asymm hx hb.1, fun hb => lt_asymm hx hb.1⟩

/-- `q` to the right of all vertices -/
theorem weight_right {V : Array (Vtx XQ)} (hR : RingOK R V) {q : Rat × Rat}
    (h : ∀ v, v < R.n → R.x v < q.1) :
    areaW R (beta q) = if inRegionV R q then 1 else 0 := by
  apply weight_of_none
  intro u hu
  exact ⟨fun hb => lt_asymm (h _ (hR.nxt_lt u hu)) hb.2.1,
    fun hb => lt_asymm (h _ (hR.prv_lt u hu)) hb.2.1⟩

end Cav.GenOutIn
