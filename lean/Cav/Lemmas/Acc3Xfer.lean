/-
  Helper lemmas for `Thm/C08Accuracy`: transfer of the quadrature routines from `Rat` to `XQ`.

  The sweep model runs over `XQ` (it needs `−∞`), the accuracy theorems of `Thm/C09Accuracy` are
  stated over `Rat`.  `XQ.fin : Rat → XQ` commutes with every `Num` operation that the model path
  `gkTriangle → gk2d → gkApprox2 → nested → gk1d → gkApprox → symRule → unitRule` uses
  (`+ - * neg abs`, `/ two`, `lt`, `le`, `beq`, `isNaN`, `ofNat`, the rule tables), so on finite
  data and for an integrand that maps finite points to finite values the `XQ` run IS the image of
  the `Rat` run (`gkTriangle_fin`).
-/
import Cav.Model.Quad
import Cav.Lemmas.GeomXQ

namespace Cav.Acc3
open Cav Num Cav.Geo

/-! ### the operations -/

theorem fin_add (a b : Rat) : (XQ.fin a + XQ.fin b : XQ) = .fin (a + b) := rfl
theorem fin_mul (a b : Rat) : (XQ.fin a * XQ.fin b : XQ) = .fin (a * b) := rfl
theorem fin_neg (a : Rat) : (-XQ.fin a : XQ) = .fin (-a) := rfl
theorem fin_sub (a b : Rat) : (XQ.fin a - XQ.fin b : XQ) = .fin (a - b) := sub_fin a b
theorem fin_abs (a : Rat) : Num.abs (XQ.fin a) = XQ.fin (Num.abs a) := rfl
theorem fin_lt (a b : Rat) : Num.lt (XQ.fin a) (XQ.fin b) = Num.lt a b := rfl
theorem fin_beq (a b : Rat) : Num.beq (XQ.fin a) (XQ.fin b) = Num.beq a b := rfl
theorem fin_isNaN (a : Rat) : Num.isNaN (XQ.fin a) = Num.isNaN a := rfl
theorem fin_ofNat (n : Nat) : (Num.ofNat n : XQ) = .fin (Num.ofNat n) := rfl
theorem fin_zero : (Num.zero : XQ) = .fin Num.zero := rfl
theorem fin_one : (Num.one : XQ) = .fin Num.one := rfl
theorem fin_two : (Num.two : XQ) = .fin Num.two := rfl

theorem fin_le (a b : Rat) : Num.le (XQ.fin a) (XQ.fin b) = Num.le a b := by
  show (decide (a < b) || decide (a = b)) = decide (a ≤ b)
  rw [← Bool.decide_or]
  exact decide_eq_decide.mpr le_iff_lt_or_eq.symm

theorem two_rat_ne : (Num.two : Rat) ≠ 0 := by
  show ((2 : Nat) : Rat) ≠ 0
  norm_num

theorem fin_div_two (a : Rat) : (XQ.fin a / (Num.two : XQ) : XQ) = .fin (a / Num.two) := by
  rw [fin_two, div_fin _ _ two_rat_ne]

theorem fin_bne (a b : Rat) : Num.bne (XQ.fin a) (XQ.fin b) = Num.bne a b := rfl

theorem fin_partialCmp (a b : Rat) :
    Num.partialCmp (XQ.fin a) (XQ.fin b) = Num.partialCmp a b := by
  unfold Num.partialCmp
  rw [fin_lt, fin_lt, fin_beq]

theorem fin_ofCmp (a b : Rat) : Num.ofCmp (XQ.fin a) (XQ.fin b) = Num.ofCmp a b := by
  unfold Num.ofCmp Num.ofLt Num.ofGt Num.ofGe
  rw [fin_isNaN, fin_isNaN, fin_le, fin_le]

/-- pairs -/
def finP (p : Rat × Rat) : XQ × XQ := (.fin p.1, .fin p.2)

@[simp] theorem finP_fst (p : Rat × Rat) : (finP p).1 = .fin p.1 := rfl
@[simp] theorem finP_snd (p : Rat × Rat) : (finP p).2 = .fin p.2 := rfl

/-! ### the rule tables -/

theorem dy_fin (n k : Nat) : (Gen.dy n k : XQ) = .fin (Gen.dy n k) := by
  unfold Gen.dy
  rw [fin_ofNat, fin_ofNat, div_fin]
  show ((2 ^ k : Nat) : Rat) ≠ 0
  positivity

theorem g10_fin : (Gen.g10 : List (XQ × XQ)) = (Gen.g10 : List (Rat × Rat)).map finP := by
  simp only [Gen.g10, dy_fin, List.map_cons, List.map_nil, finP]

theorem k21_fin : (Gen.k21 : List (XQ × XQ)) = (Gen.k21 : List (Rat × Rat)).map finP := by
  simp only [Gen.k21, dy_fin, List.map_cons, List.map_nil, finP]

/-! ### one panel of the 1-D routine -/

theorem ruleFold_fin (F : XQ → XQ) (f : Rat → Rat) (hF : ∀ x, F (.fin x) = .fin (f x))
    (l : List (Rat × Rat)) (s0 : Rat) :
    (l.map finP).foldl (fun s nw => s + nw.2 * (F (-nw.1) + F nw.1)) (XQ.fin s0) =
      XQ.fin (l.foldl (fun s nw => s + nw.2 * (f (-nw.1) + f nw.1)) s0) := by
  induction l generalizing s0 with
  | nil => rfl
  | cons p l ih =>
    simp only [List.map_cons, List.foldl_cons, finP_fst, finP_snd, fin_neg, hF, fin_add, fin_mul]
    exact ih _

theorem unitRule_fin (F : XQ → XQ) (f : Rat → Rat) (hF : ∀ x, F (.fin x) = .fin (f x))
    (rule : List (Rat × Rat)) :
    unitRule F (rule.map finP) = XQ.fin (unitRule f rule) := by
  cases rule with
  | nil => rfl
  | cons p rest =>
    obtain ⟨n0, w0⟩ := p
    simp only [unitRule, List.map_cons, finP, fin_zero, fin_beq]
    split
    · rw [hF, fin_mul, fin_add]
      exact ruleFold_fin F f hF rest _
    · exact ruleFold_fin F f hF ((n0, w0) :: rest) _

theorem denorm_fin (a b x : Rat) :
    denorm (XQ.fin a) (XQ.fin b) (XQ.fin x) = XQ.fin (denorm a b x) := by
  simp only [denorm, fin_sub, fin_mul, fin_add, fin_div_two]

theorem symRule_fin (F : XQ → XQ) (f : Rat → Rat) (hF : ∀ x, F (.fin x) = .fin (f x))
    (a b : Rat) (rule : List (Rat × Rat)) :
    symRule F (.fin a) (.fin b) (rule.map finP) = XQ.fin (symRule f a b rule) := by
  unfold symRule
  rw [unitRule_fin (fun x => F (denorm (.fin a) (.fin b) x)) (fun x => f (denorm a b x))
    (fun x => by rw [denorm_fin, hF]), fin_sub, fin_div_two, fin_mul]

theorem gkApprox_fin (F : XQ → XQ) (f : Rat → Rat) (hF : ∀ x, F (.fin x) = .fin (f x))
    (a b : Rat) : gkApprox F (.fin a) (.fin b) = finP (gkApprox f a b) := by
  simp only [gkApprox, g10_fin, k21_fin, symRule_fin F f hF, fin_sub, fin_abs, finP]

/-! ### the sorted set of panels -/

def finPanel (p : Panel Rat) : Panel XQ := ⟨.fin p.err, .fin p.val, .fin p.a, .fin p.b⟩

theorem panelCmp_fin (p q : Panel Rat) : panelCmp (finPanel p) (finPanel q) = panelCmp p q := by
  simp only [panelCmp, finPanel, fin_partialCmp]

theorem setInsert_fin (p : Panel Rat) (s : List (Panel Rat)) :
    setInsert (finPanel p) (s.map finPanel) = (setInsert p s).map finPanel := by
  induction s with
  | nil => rfl
  | cons k ks ih =>
    simp only [List.map_cons, setInsert, panelCmp_fin]
    cases panelCmp p k <;> simp only [List.map_cons, ih]

theorem setRemove_fin (p : Panel Rat) (s : List (Panel Rat)) :
    setRemove (finPanel p) (s.map finPanel) = (setRemove p s).map finPanel := by
  induction s with
  | nil => rfl
  | cons k ks ih =>
    simp only [List.map_cons, setRemove, panelCmp_fin]
    cases panelCmp p k <;> simp only [List.map_cons, ih]

theorem sumVals_fin (s0 : Rat) (s : List (Panel Rat)) :
    sumVals (XQ.fin s0) (s.map finPanel) = XQ.fin (sumVals s0 s) := by
  unfold sumVals
  induction s generalizing s0 with
  | nil => rfl
  | cons p s ih =>
    simp only [List.map_cons, List.foldl_cons]
    exact ih _

/-- results -/
def finRes : Except IntegErr (Rat × Rat) → Except IntegErr (XQ × XQ)
  | .ok v => .ok (finP v)
  | .error e => .error e

@[simp] theorem finRes_ok (v : Rat × Rat) : finRes (.ok v) = .ok (finP v) := rfl
@[simp] theorem finRes_error (e : IntegErr) : finRes (.error e) = .error e := rfl

theorem finRes_eq_ok {r : Except IntegErr (Rat × Rat)} {v e : XQ} (h : finRes r = .ok (v, e)) :
    ∃ v' e', r = .ok (v', e') ∧ v = .fin v' ∧ e = .fin e' := by
  cases r with
  | error x => cases h
  | ok p =>
    obtain ⟨v', e'⟩ := p
    simp only [finRes_ok, finP, Except.ok.injEq, Prod.mk.injEq] at h
    exact ⟨v', e', rfl, h.1.symm, h.2.symm⟩

/-! ### the 1-D routine -/

theorem gk1dLoop_fin (F : XQ → XQ) (f : Rat → Rat) (hF : ∀ x, F (.fin x) = .fin (f x))
    (tol : Rat) :
    ∀ (fuel : Nat) (accu : Rat) (set : List (Panel Rat)) (trX : List (XQ × XQ))
      (tr : List (Rat × Rat)),
      (gk1dLoop F (.fin tol) fuel (.fin accu) (set.map finPanel) trX).res =
        finRes (gk1dLoop f tol fuel accu set tr).res := by
  intro fuel
  induction fuel with
  | zero => intro accu set trX tr; rfl
  | succ n ih =>
    intro accu set trX tr
    unfold gk1dLoop
    rw [fin_isNaN, fin_lt, List.getLast?_map]
    by_cases hn : Num.isNaN accu = true
    · simp only [hn, if_true, finRes_error]
    · by_cases hl : Num.lt accu tol = true
      · simp only [hn, hl, if_true, Bool.false_eq_true, if_false, finRes_ok, finP]
        rw [show (-(Num.zero : XQ)) = XQ.fin (-(Num.zero : Rat)) from rfl, sumVals_fin]
      · simp only [hn, hl, Bool.false_eq_true, if_false]
        cases hs : set.getLast? with
        | none => rfl
        | some iv =>
          simp only [Option.map_some]
          have e1 : (finPanel iv).a = .fin iv.a := rfl
          have e2 : (finPanel iv).b = .fin iv.b := rfl
          have e3 : (finPanel iv).err = .fin iv.err := rfl
          simp only [e1, e2, e3, fin_bne, fin_add, fin_div_two, gkApprox_fin F f hF, finP_fst,
            finP_snd, fin_sub]
          by_cases hb : Num.bne iv.a iv.b = true
          · simp only [hb, if_true]
            have i1 : ∀ (x : Rat × Rat) (a b : Rat),
                (⟨.fin x.2, .fin x.1, .fin a, .fin b⟩ : Panel XQ) = finPanel ⟨x.2, x.1, a, b⟩ :=
              fun _ _ _ => rfl
            rw [i1, i1, setInsert_fin, setInsert_fin, setRemove_fin]
            exact ih _ _ _ _
          · simp only [hb, Bool.false_eq_true, if_false]
            rw [setRemove_fin]
            exact ih _ _ _ _

theorem gk1d_fin (F : XQ → XQ) (f : Rat → Rat) (hF : ∀ x, F (.fin x) = .fin (f x))
    (a b tol : Rat) (mi : Option Nat) :
    (gk1d F (.fin a) (.fin b) (.fin tol) mi).res = finRes (gk1d f a b tol mi).res := by
  unfold gk1d
  rw [fin_beq]
  by_cases hab : Num.beq a b = true
  · simp only [hab, if_true]; rfl
  · simp only [hab, Bool.false_eq_true, if_false, gkApprox_fin F f hF, finP_fst, finP_snd]
    exact gk1dLoop_fin F f hF tol _ _ [⟨(gkApprox f a b).2, (gkApprox f a b).1, a, b⟩] _ _

/-! ### nested / 2-D / triangle -/

theorem nested_go_fin (a b : Rat)
    (innerX : XQ → Except IntegErr (XQ × XQ) × InnerCall XQ)
    (inner : Rat → Except IntegErr (Rat × Rat) × InnerCall Rat)
    (hin : ∀ x, (innerX (.fin x)).1 = finRes (inner x).1) :
    ∀ (rest : List (Rat × Rat)) (s accu : Rat) (callsX : List (InnerCall XQ))
      (calls : List (InnerCall Rat)),
      (nested.go (.fin a) (.fin b) innerX (rest.map finP) (.fin s) (.fin accu) callsX).res =
        finRes (nested.go a b inner rest s accu calls).res := by
  intro rest
  induction rest with
  | nil =>
    intro s accu callsX calls
    simp only [List.map_nil, nested.go, fin_sub, fin_div_two, fin_mul, fin_abs, finRes_ok, finP]
  | cons p rest ih =>
    intro s accu callsX calls
    obtain ⟨n, w⟩ := p
    simp only [List.map_cons, finP, nested.go, fin_neg]
    have h1 := hin (-n)
    have h2 := hin n
    cases hn : (inner (-n)).1 with
    | error e =>
      rw [hn] at h1
      simp only [h1, finRes_error]
    | ok nres =>
      rw [hn] at h1
      simp only [h1, finRes_ok]
      cases hp : (inner n).1 with
      | error e =>
        rw [hp] at h2
        simp only [h2, finRes_error]
      | ok pres =>
        rw [hp] at h2
        simp only [h2, finRes_ok, finP_fst, finP_snd, fin_add, fin_mul]
        exact ih _ _ _ _

theorem nested_fin (F : XQ → XQ → XQ) (f : Rat → Rat → Rat)
    (hF : ∀ x y, F (.fin x) (.fin y) = .fin (f x y))
    (IAB : XQ → XQ × XQ) (iAB : Rat → Rat × Rat) (hI : ∀ x, IAB (.fin x) = finP (iAB x))
    (a b tol : Rat) (mi : Option Nat) (rule : List (Rat × Rat)) :
    (nested F (.fin a) (.fin b) IAB (.fin tol) mi (rule.map finP)).res =
      finRes (nested f a b iAB tol mi rule).res := by
  have hin : ∀ x : Rat,
      (gk1d (fun y => F (denorm (.fin a) (.fin b) (.fin x)) y)
        (IAB (denorm (.fin a) (.fin b) (.fin x))).1 (IAB (denorm (.fin a) (.fin b) (.fin x))).2
        (.fin tol) mi).res =
      finRes (gk1d (fun y => f (denorm a b x) y) (iAB (denorm a b x)).1 (iAB (denorm a b x)).2
        tol mi).res := by
    intro x
    rw [denorm_fin, hI]
    exact gk1d_fin _ _ (fun y => hF _ y) _ _ _ _
  cases rule with
  | nil => rfl
  | cons p rest =>
    obtain ⟨n0, w0⟩ := p
    simp only [nested, List.map_cons, finP, fin_zero, fin_beq]
    by_cases h0 : Num.beq n0 Num.zero = true
    · simp only [h0, if_true]
      have h1 := hin n0
      cases hr : (gk1d (fun y => f (denorm a b n0) y) (iAB (denorm a b n0)).1
          (iAB (denorm a b n0)).2 tol mi).res with
      | error e =>
        rw [hr] at h1
        simp only [h1, finRes_error]
      | ok res =>
        rw [hr] at h1
        simp only [h1, finRes_ok, finP_fst, finP_snd, fin_mul, fin_add]
        exact nested_go_fin a b _ _ (fun x => by simpa only [fin_neg] using hin x) _ _ _ _ _
    · simp only [h0, Bool.false_eq_true, if_false]
      exact nested_go_fin a b _ _ (fun x => hin x) ((n0, w0) :: rest) _ _ _ _

theorem ofMax_fin (x y : Rat) : ofMax (XQ.fin x) (XQ.fin y) = XQ.fin (ofMax x y) := by
  unfold ofMax
  rw [fin_ofCmp]
  split <;> rfl

theorem gkApprox2_fin (F : XQ → XQ → XQ) (f : Rat → Rat → Rat)
    (hF : ∀ x y, F (.fin x) (.fin y) = .fin (f x y))
    (IAB : XQ → XQ × XQ) (iAB : Rat → Rat × Rat) (hI : ∀ x, IAB (.fin x) = finP (iAB x))
    (tol : Rat) (mi : Option Nat) (a b : Rat) :
    (gkApprox2 F IAB (.fin tol) mi (.fin a) (.fin b)).1 =
      finRes (gkApprox2 f iAB tol mi a b).1 := by
  unfold gkApprox2
  simp only [fin_div_two, g10_fin, k21_fin]
  have h1 := nested_fin F f hF IAB iAB hI a b (tol / Num.two) mi Gen.g10
  have h2 := nested_fin F f hF IAB iAB hI a b (tol / Num.two) mi Gen.k21
  cases hl : (nested f a b iAB (tol / Num.two) mi Gen.g10).res with
  | error e =>
    rw [hl] at h1
    simp only [h1, finRes_error]
  | ok li =>
    rw [hl] at h1
    simp only [h1, finRes_ok]
    cases hk : (nested f a b iAB (tol / Num.two) mi Gen.k21).res with
    | error e =>
      rw [hk] at h2
      simp only [h2, finRes_error]
    | ok ki =>
      rw [hk] at h2
      simp only [h2, finRes_ok, fin_sub, fin_abs, ofMax_fin, fin_add, finP]

theorem gk2dLoop_fin (F : XQ → XQ → XQ) (f : Rat → Rat → Rat)
    (hF : ∀ x y, F (.fin x) (.fin y) = .fin (f x y))
    (IAB : XQ → XQ × XQ) (iAB : Rat → Rat × Rat) (hI : ∀ x, IAB (.fin x) = finP (iAB x))
    (tol : Rat) (mi : Option Nat) :
    ∀ (fuel : Nat) (accu : Rat) (set : List (Panel Rat))
      (trX : List (XQ × XQ × List (InnerCall XQ) × List (InnerCall XQ)))
      (tr : List (Rat × Rat × List (InnerCall Rat) × List (InnerCall Rat))),
      (gk2dLoop F IAB (.fin tol) mi fuel (.fin accu) (set.map finPanel) trX).res =
        finRes (gk2dLoop f iAB tol mi fuel accu set tr).res := by
  intro fuel
  induction fuel with
  | zero => intro accu set trX tr; rfl
  | succ n ih =>
    intro accu set trX tr
    unfold gk2dLoop
    rw [fin_isNaN, fin_lt, List.getLast?_map]
    by_cases hn : Num.isNaN accu = true
    · simp only [hn, if_true, finRes_error]
    · by_cases hl : Num.lt accu tol = true
      · simp only [hn, hl, if_true, Bool.false_eq_true, if_false, finRes_ok, finP]
        rw [show (-(Num.zero : XQ)) = XQ.fin (-(Num.zero : Rat)) from rfl, sumVals_fin]
      · simp only [hn, hl, Bool.false_eq_true, if_false]
        cases hs : set.getLast? with
        | none => rfl
        | some iv =>
          simp only [Option.map_some]
          have e1 : (finPanel iv).a = .fin iv.a := rfl
          have e2 : (finPanel iv).b = .fin iv.b := rfl
          have e3 : (finPanel iv).err = .fin iv.err := rfl
          simp only [e1, e2, e3, fin_bne, fin_add, fin_div_two, fin_sub]
          by_cases hb : Num.bne iv.a iv.b = true
          · simp only [hb, if_true]
            have g1 := gkApprox2_fin F f hF IAB iAB hI tol mi iv.a ((iv.a + iv.b) / Num.two)
            have g2 := gkApprox2_fin F f hF IAB iAB hI tol mi ((iv.a + iv.b) / Num.two) iv.b
            cases hL : (gkApprox2 f iAB tol mi iv.a ((iv.a + iv.b) / Num.two)).1 with
            | error e =>
              rw [hL] at g1
              simp only [g1, finRes_error]
            | ok left =>
              rw [hL] at g1
              simp only [g1, finRes_ok]
              cases hR : (gkApprox2 f iAB tol mi ((iv.a + iv.b) / Num.two) iv.b).1 with
              | error e =>
                rw [hR] at g2
                simp only [g2, finRes_error]
              | ok right =>
                rw [hR] at g2
                simp only [g2, finRes_ok, finP_fst, finP_snd, fin_add]
                have i1 : ∀ (x : Rat × Rat) (a b : Rat),
                    (⟨.fin x.2, .fin x.1, .fin a, .fin b⟩ : Panel XQ) =
                      finPanel ⟨x.2, x.1, a, b⟩ := fun _ _ _ => rfl
                rw [i1, i1, setInsert_fin, setInsert_fin, setRemove_fin]
                exact ih _ _ _ _
          · simp only [hb, Bool.false_eq_true, if_false]
            rw [setRemove_fin]
            exact ih _ _ _ _

theorem gk2d_fin (F : XQ → XQ → XQ) (f : Rat → Rat → Rat)
    (hF : ∀ x y, F (.fin x) (.fin y) = .fin (f x y))
    (IAB : XQ → XQ × XQ) (iAB : Rat → Rat × Rat) (hI : ∀ x, IAB (.fin x) = finP (iAB x))
    (a b tol : Rat) (mi : Option Nat) :
    (gk2d F (.fin a) (.fin b) IAB (.fin tol) mi).res = finRes (gk2d f a b iAB tol mi).res := by
  unfold gk2d
  rw [fin_beq]
  by_cases hab : Num.beq a b = true
  · simp only [hab, if_true]; rfl
  · simp only [hab, Bool.false_eq_true, if_false]
    have g1 := gkApprox2_fin F f hF IAB iAB hI tol mi a b
    cases hL : (gkApprox2 f iAB tol mi a b).1 with
    | error e =>
      rw [hL] at g1
      simp only [g1, finRes_error]
    | ok va =>
      rw [hL] at g1
      simp only [g1, finRes_ok, finP_fst, finP_snd]
      exact gk2dLoop_fin F f hF IAB iAB hI tol mi _ _ [⟨va.2, va.1, a, b⟩] _ _

/-- triangles -/
def finTri (t : (Rat × Rat) × (Rat × Rat) × (Rat × Rat)) : (XQ × XQ) × (XQ × XQ) × (XQ × XQ) :=
  (finP t.1, finP t.2.1, finP t.2.2)

theorem triFactor_fin (t : (Rat × Rat) × (Rat × Rat) × (Rat × Rat)) :
    triFactor (finTri t) = XQ.fin (triFactor t) := by
  obtain ⟨p0, p1, p2⟩ := t
  simp only [triFactor, finTri, finP, fin_sub, fin_mul, fin_add, fin_abs]

theorem triIntegrand_fin (F : XQ → XQ → XQ) (f : Rat → Rat → Rat)
    (hF : ∀ x y, F (.fin x) (.fin y) = .fin (f x y))
    (t : (Rat × Rat) × (Rat × Rat) × (Rat × Rat)) (u0 u1 : Rat) :
    triIntegrand F (finTri t) (.fin u0) (.fin u1) = XQ.fin (triIntegrand f t u0 u1) := by
  obtain ⟨p0, p1, p2⟩ := t
  unfold triIntegrand
  rw [triFactor_fin]
  simp only [finTri, finP, fin_one, fin_sub, fin_mul, fin_add, hF]

/-- **transfer of the triangle routine**: over finite data and for an integrand that maps finite
    points to finite values, the `XQ` run is the image of the `Rat` run -/
theorem gkTriangle_fin (F : XQ → XQ → XQ) (f : Rat → Rat → Rat)
    (hF : ∀ x y, F (.fin x) (.fin y) = .fin (f x y))
    (t : (Rat × Rat) × (Rat × Rat) × (Rat × Rat)) (tol : Rat) (mi : Option Nat) :
    (gkTriangle F (finTri t) (.fin tol) mi).res = finRes (gkTriangle f t tol mi).res := by
  unfold gkTriangle
  rw [fin_zero, fin_one]
  exact gk2d_fin _ _ (triIntegrand_fin F f hF t) _ (fun u1 => (Num.zero, Num.one - u1))
    (fun x => by simp only [finP, fin_sub]) _ _ _ _

end Cav.Acc3

