/-
  Helper lemmas for `Thm/C01Success`: on polynomials of degree ≤ 19 both embedded rules are exact
  up to their table defects, so the first-panel estimate `|G10 − K21|` is at most the sum of the
  two defect bounds, and the 1-D routine stops on its first panel as soon as the tolerance exceeds
  that sum.  The 2-D analogue: every inner run stops on its first panel, both nested rules are
  accurate, and the first outer estimate `|G10 − K21| + max(e_G10, e_K21)` is bounded.
-/
import Cav.Thm.C09
import Cav.Lemmas.Acc2Region

open Cav Num Cav.C01 Cav.Quad2D
namespace Cav.Acc2

/-- one G10 panel on `[a,b]` (either order, also `a = b`), degree ≤ 19 -/
theorem panel_poly_error_rat_G10 (cs : List Rat) (hdeg : cs.length ≤ 20) (a b : Rat) :
    |symRule (evalPoly cs) a b Gen.g10 - exactInt cs a b| ≤
      |(b - a) / 2| * (1 / 10 ^ 16) * absPolyAt cs (max |a| |b|) := by
  have hfun : (fun x => evalPoly cs ((a + b) / 2 + (b - a) / 2 * x)) =
      evalPoly (compAffine cs ((a + b) / 2) ((b - a) / 2)) :=
    funext (fun x => (evalPoly_compAffine cs _ _ x).symm)
  rw [symRule_eq, hfun, exactInt, ← mul_sub, abs_mul, mul_assoc]
  refine mul_le_mul_of_nonneg_left ?_ (abs_nonneg _)
  have hlen : (compAffine cs ((a + b) / 2) ((b - a) / 2)).length ≤ 20 := by
    rw [compAffine_length]; exact hdeg
  refine le_trans (unit_panel_poly_error_G10 _ hlen) ?_
  refine mul_le_mul_of_nonneg_left ?_ (by positivity)
  refine le_trans (normL1_compAffine cs _ _) ?_
  exact absPolyAt_mono cs (by positivity) (abs_mid_add_abs_half a b)

/-- the first-panel estimate `|G10 − K21|` of a polynomial of degree ≤ 19 is at most the two
    defect bounds added -/
theorem first_panel_estimate_le (cs : List Rat) (hdeg : cs.length ≤ 20) (a b : Rat) :
    (gkApprox (evalPoly cs) a b).2 ≤
      |(b - a) / 2| * (2 / 10 ^ 16) * absPolyAt cs (max |a| |b|) := by
  rw [gkApprox_snd]
  have h1 := panel_poly_error_rat_G10 cs hdeg a b
  have h2 := panel_poly_error_rat cs (le_trans hdeg (by decide)) a b
  have h3 : |symRule (evalPoly cs) a b Gen.g10 - symRule (evalPoly cs) a b Gen.k21| ≤
      |symRule (evalPoly cs) a b Gen.g10 - exactInt cs a b| +
        |symRule (evalPoly cs) a b Gen.k21 - exactInt cs a b| := by
    rw [← abs_neg (symRule (evalPoly cs) a b Gen.k21 - exactInt cs a b)]
    calc |symRule (evalPoly cs) a b Gen.g10 - symRule (evalPoly cs) a b Gen.k21|
        = |(symRule (evalPoly cs) a b Gen.g10 - exactInt cs a b) +
            -(symRule (evalPoly cs) a b Gen.k21 - exactInt cs a b)| := by congr 1; ring
      _ ≤ _ := abs_add_le _ _
  linarith

/-- a run that stops on its first panel: result AND trace -/
theorem gk1d_first_panel_full (g : Rat → Rat) (a b tol : Rat) (mi : Option Nat) (hab : a ≠ b)
    (hmi : mi ≠ some 0) (hlt : (gkApprox g a b).2 < tol) :
    (gk1d g a b tol mi).res = .ok ((gkApprox g a b).1, (gkApprox g a b).2) ∧
      (gk1d g a b tol mi).panels = [(a, b)] := by
  obtain ⟨n, hn⟩ := fuel_pos hmi
  rw [C02.gk1d_of_ne g a b tol mi hab, hn]
  unfold gk1dLoop
  have h1 : Num.isNaN (gkApprox g a b).2 = false := rfl
  have h2 : Num.lt (gkApprox g a b).2 tol = true := decide_eq_true hlt
  simp only [h1, h2, if_true, Bool.false_eq_true, if_false, QuadTiling.sumVals_eq,
    QuadTiling.zero_eq]
  simp

/-! ### the 2-D routine -/

theorem g10_weight_sum_le : unitRule (fun _ => (1 : Rat)) Gen.g10 ≤ 2 + 1 / 10 ^ 16 := by
  decide +kernel

/-- an inner integration on a polynomial of degree ≤ 19 succeeds as soon as the inner tolerance
    exceeds twice the inner accuracy bound; its estimate is at most that quantity -/
theorem inner_success (f : Rat → Rat → Rat) (cs : Rat → List Rat) (a b : Rat)
    (iAB : Rat → Rat × Rat) (tol : Rat) (mi : Option Nat)
    (hf : ∀ x y, f x y = evalPoly (cs x) y) (hmi : mi ≠ some 0) (node : Rat)
    (hdy : (cs (denorm a b node)).length ≤ 20)
    (htol : 2 * innerBound cs iAB (denorm a b node) < tol) :
    IsOk (innerRes f a b iAB tol mi node) ∧
      |(innerVal f a b iAB tol mi node).2| ≤ 2 * innerBound cs iAB (denorm a b node) := by
  have hfun : (fun y => f (denorm a b node) y) = evalPoly (cs (denorm a b node)) :=
    funext (fun y => hf _ y)
  have hnn := innerBound_nonneg cs iAB (denorm a b node)
  unfold innerVal innerRes
  rw [hfun]
  by_cases hab : (iAB (denorm a b node)).1 = (iAB (denorm a b node)).2
  · have h := (C10.gk1d_eq_bounds (evalPoly (cs (denorm a b node))) _ _ tol mi
      (decide_eq_true hab)).1
    rw [h]
    refine ⟨⟨_, rfl⟩, ?_⟩
    show |(Num.zero : Rat)| ≤ _
    rw [QuadTiling.zero_eq, abs_zero]
    linarith
  · have hle := first_panel_estimate_le (cs (denorm a b node)) hdy
      (iAB (denorm a b node)).1 (iAB (denorm a b node)).2
    have hle' : (gkApprox (evalPoly (cs (denorm a b node))) (iAB (denorm a b node)).1
        (iAB (denorm a b node)).2).2 ≤ 2 * innerBound cs iAB (denorm a b node) := by
      refine le_trans hle (le_of_eq ?_)
      unfold innerBound; ring
    have h := gk1d_first_panel (evalPoly (cs (denorm a b node))) _ _ tol mi hab hmi
      (lt_of_le_of_lt hle' htol)
    rw [h]
    refine ⟨⟨_, rfl⟩, ?_⟩
    show |(gkApprox _ _ _).2| ≤ _
    rw [abs_of_nonneg (by rw [gkApprox_snd]; exact abs_nonneg _)]
    exact hle'

/-- a nested run on the exact class succeeds when every inner tolerance test passes; its estimate
    is at most `|(b−a)/2| · 2ε · Σ weights` -/
theorem nested_success (R : List (Rat × Rat)) (hw : ∀ nw ∈ R, 0 ≤ nw.2)
    (f : Rat → Rat → Rat) (cs : Rat → List Rat) (a b : Rat)
    (iAB : Rat → Rat × Rat) (tol : Rat) (mi : Option Nat) (ε : Rat)
    (hf : ∀ x y, f x y = evalPoly (cs x) y) (hmi : mi ≠ some 0)
    (hdy : ∀ x, (cs x).length ≤ 20)
    (hε : ∀ node ∈ unitNodes R, innerBound cs iAB (denorm a b node) ≤ ε) (htol : 2 * ε < tol) :
    ∃ v e, (nested f a b iAB tol mi R).res = .ok (v, e) ∧
      e ≤ |(b - a) / 2| * (2 * ε * unitRule (fun _ => 1) R) := by
  have hin : ∀ node ∈ unitNodes R, IsOk (innerRes f a b iAB tol mi node) ∧
      |(innerVal f a b iAB tol mi node).2| ≤ 2 * ε := by
    intro node hnode
    have h1 := hε node hnode
    obtain ⟨h2, h3⟩ := inner_success f cs a b iAB tol mi hf hmi node (hdy _) (by linarith)
    exact ⟨h2, by linarith⟩
  refine ⟨_, _, (nested_res_ok_iff f a b iAB tol mi R _ _).mpr
    ⟨fun x hx => (hin x hx).1, rfl, rfl⟩, ?_⟩
  refine mul_le_mul_of_nonneg_left ?_ (abs_nonneg _)
  refine le_trans (le_abs_self _) ?_
  exact unitRule_abs_le _ (2 * ε) R hw (fun x hx => (hin x hx).2)

/-- the first (and only) outer panel of the 2-D routine on the exact class: `gkApprox2` succeeds and
    its estimate is at most `|(b−a)/2| · (2e-16·Σ_k|Fs[k]|·max(|a|,|b|)^k + 4ε·(2 + 1e-16))` -/
theorem gkApprox2_success (f : Rat → Rat → Rat) (cs : Rat → List Rat) (Fs : List Rat) (a b : Rat)
    (iAB : Rat → Rat × Rat) (tol : Rat) (mi : Option Nat) (ε : Rat)
    (hf : ∀ x y, f x y = evalPoly (cs x) y) (hmi : mi ≠ some 0)
    (hdy : ∀ x, (cs x).length ≤ 20)
    (hF : ∀ x, evalPoly Fs x = exactInt (cs x) (iAB x).1 (iAB x).2) (hdx : Fs.length ≤ 20)
    (hε : ∀ node, -1 < node ∧ node < 1 → innerBound cs iAB (denorm a b node) ≤ ε)
    (htol : 4 * ε < tol) :
    ∃ v e, (gkApprox2 f iAB tol mi a b).1 = .ok (v, e) ∧
      e ≤ |(b - a) / 2| * (2 / 10 ^ 16 * absPolyAt Fs (max |a| |b|) + 4 * ε * (2 + 1 / 10 ^ 16)) := by
  have hεg : ∀ node ∈ unitNodes (Gen.g10 : List (Rat × Rat)),
      innerBound cs iAB (denorm a b node) ≤ ε := fun n hn => hε n (g10_unitNodes_in_unit n hn)
  have hεk : ∀ node ∈ unitNodes (Gen.k21 : List (Rat × Rat)),
      innerBound cs iAB (denorm a b node) ≤ ε := fun n hn => hε n (k21_unitNodes_in_unit n hn)
  have hε0 : 0 ≤ ε := le_trans (innerBound_nonneg cs iAB _) (hε 0 (by norm_num))
  have hdy32 : ∀ x, (cs x).length ≤ 32 := fun x => le_trans (hdy x) (by decide)
  obtain ⟨vg, eg, hg, heg⟩ := nested_success Gen.g10 g10_weights_nonneg f cs a b iAB (tol / 2) mi ε
    hf hmi hdy hεg (by linarith)
  obtain ⟨vk, ek, hk, hek⟩ := nested_success Gen.k21 k21_weights_nonneg f cs a b iAB (tol / 2) mi ε
    hf hmi hdy hεk (by linarith)
  have hag := nested_poly_accuracy_rule Gen.g10 g10_weights_nonneg f cs Fs a b iAB (tol / 2) mi ε _
    hf hdy32 hF (panel_poly_error_rat_G10 Fs hdx a b) hεg vg eg hg
  have hak := nested_poly_accuracy_rule Gen.k21 k21_weights_nonneg f cs Fs a b iAB (tol / 2) mi ε _
    hf hdy32 hF (panel_poly_error_rat Fs (le_trans hdx (by decide)) a b) hεk vk ek hk
  refine ⟨vk, |vg - vk| + max eg ek,
    (gkApprox2_ok_iff f iAB tol mi a b _ _).mpr ⟨(vg, eg), (vk, ek), hg, hk, rfl, rfl⟩, ?_⟩
  have hWg := g10_weight_sum_le
  have hWk := C09.k21_weight_sum_le
  have hWg0 : 0 ≤ unitRule (fun _ => (1 : Rat)) Gen.g10 :=
    unitRule_nonneg _ _ g10_weights_nonneg (fun _ => zero_le_one)
  have hWk0 : 0 ≤ unitRule (fun _ => (1 : Rat)) Gen.k21 :=
    unitRule_nonneg _ _ k21_weights_nonneg (fun _ => zero_le_one)
  have hh : 0 ≤ |(b - a) / 2| := abs_nonneg _
  set h := |(b - a) / 2|
  set A := absPolyAt Fs (max |a| |b|)
  set Wg := unitRule (fun _ => (1 : Rat)) Gen.g10
  set Wk := unitRule (fun _ => (1 : Rat)) Gen.k21
  have h1 : |vg - vk| ≤ |vg - exactInt Fs a b| + |vk - exactInt Fs a b| := by
    rw [← abs_neg (vk - exactInt Fs a b)]
    calc |vg - vk| = |(vg - exactInt Fs a b) + -(vk - exactInt Fs a b)| := by congr 1; ring
      _ ≤ _ := abs_add_le _ _
  have hεWg : ε * Wg ≤ ε * (2 + 1 / 10 ^ 16) := mul_le_mul_of_nonneg_left hWg hε0
  have hεWk : ε * Wk ≤ ε * (2 + 1 / 10 ^ 16) := mul_le_mul_of_nonneg_left hWk hε0
  have h2 : h * (ε * Wg) ≤ h * (ε * (2 + 1 / 10 ^ 16)) := mul_le_mul_of_nonneg_left hεWg hh
  have h3 : h * (ε * Wk) ≤ h * (ε * (2 + 1 / 10 ^ 16)) := mul_le_mul_of_nonneg_left hεWk hh
  have h4 : max eg ek ≤ h * (2 * (ε * (2 + 1 / 10 ^ 16))) := by
    refine max_le (le_trans heg ?_) (le_trans hek ?_)
    · have : h * (2 * ε * Wg) = 2 * (h * (ε * Wg)) := by ring
      rw [this]; linarith
    · have : h * (2 * ε * Wk) = 2 * (h * (ε * Wk)) := by ring
      rw [this]; linarith
  have h5 : h * (2 / 10 ^ 16 * A + 4 * ε * (2 + 1 / 10 ^ 16)) =
      (h * (1 / 10 ^ 16) * A + h * (ε * (2 + 1 / 10 ^ 16))) +
      (h * (1 / 10 ^ 16) * A + h * (ε * (2 + 1 / 10 ^ 16))) +
      h * (2 * (ε * (2 + 1 / 10 ^ 16))) := by ring
  rw [h5]
  linarith

/-- a 2-D run that stops on its first outer panel: result and trace length -/
theorem gk2d_first_panel (f : Rat → Rat → Rat) (a b : Rat) (iAB : Rat → Rat × Rat) (tol : Rat)
    (mi : Option Nat) (hab : a ≠ b) (hmi : mi ≠ some 0) (v e : Rat)
    (hg : (gkApprox2 f iAB tol mi a b).1 = .ok (v, e)) (hlt : e < tol) :
    (gk2d f a b iAB tol mi).res = .ok (v, e) ∧ (gk2d f a b iAB tol mi).panels.length = 1 := by
  unfold gk2d
  have hb : Num.beq a b = false := by simp [Num.beq, hab]
  simp only [hb, Bool.false_eq_true, if_false]
  rcases hg' : gkApprox2 f iAB tol mi a b with ⟨r0, t0⟩
  rw [hg'] at hg
  simp only at hg
  subst hg
  obtain ⟨n, hn⟩ := fuel_pos hmi
  simp only [hn]
  unfold gk2dLoop
  have h1 : Num.isNaN e = false := rfl
  have h2 : Num.lt e tol = true := decide_eq_true hlt
  simp only [h1, h2, if_true, Bool.false_eq_true, if_false, QuadTiling.sumVals_eq,
    QuadTiling.zero_eq]
  simp

end Cav.Acc2
