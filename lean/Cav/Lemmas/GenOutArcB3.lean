/-
  Output of the sweep on general valid input, part 12b (end): the arc invariant at an END event:
  the merge of two arcs, the completion of a polygon, and the theorem `arc_end`.
-/
import Cav.Lemmas.GenOutArcB2

set_option linter.unusedVariables false
set_option linter.unusedSimpArgs false

namespace Cav.GenOutArc
open Cav Cav.Geo Cav.GenInv

/-! ### two different arcs are merged -/

theorem arc_end_merge_e {R : RingQ} {V : Array (Vtx XQ)} (hR : RingOK R V) {xs : Rat}
    {F1 F2 : List AE} {bot top : AE} {A : List Arc} {D : List Cyc}
    (hA : ArcInv R xs (F1 ++ bot :: top :: F2) A D)
    (hE : EOK R xs (F1 ++ bot :: top :: F2))
    {w : Nat} (hw : w < R.n) (hxs : xs < R.x w)
    (hgap : ∀ v, v < R.n → xs < R.x v → R.x w ≤ R.x v)
    {α1 α2 : Arc} (hα1 : α1 ∈ A) (hα2 : α2 ∈ A) (h12 : α1 ≠ α2)
    (hp1 : R.nxt^[α1.k] α1.v0 = R.prv w) (hv2 : α2.v0 = R.nxt w)
    (hcase : (α1.h = bot.id ∧ α2.t = top.id ∧ turnE R w = 1) ∨
      (α1.h = top.id ∧ α2.t = bot.id ∧ turnE R w = -1)) :
    ArcInv R (R.x w) (F1 ++ F2)
      (⟨α1.v0, α1.k + 1 + (α2.k + 1), α1.t, α2.h⟩ :: rest_e A α1 α2) D := by
  have hxs' : xs ≤ R.x w := le_of_lt hxs
  have ok1 := hA.arcs α1 hα1
  have ok2 := hA.arcs α2 hα2
  have hb : bot.id = α1.h ∨ bot.id = α2.t := by
    rcases hcase with ⟨e1, e2, -⟩ | ⟨e1, e2, -⟩
    · exact Or.inl e1.symm
    · exact Or.inr e2.symm
  have ht : top.id = α1.h ∨ top.id = α2.t := by
    rcases hcase with ⟨e1, e2, -⟩ | ⟨e1, e2, -⟩
    · exact Or.inr e2.symm
    · exact Or.inl e1.symm
  obtain ⟨hrest, hrnc, hrnd⟩ := rest_inv_e hA hE hxs' hα1 hα2 hb ht
  obtain ⟨pb, pt, -⟩ := pos_remove_e hE.ids
  -- the ends that remain
  have n1 : α1.t ≠ α1.h := nd_th_e hA.nd hα1
  have n2 : α1.t ≠ α2.t := fun e =>
    h12 (nd_inj_e hA.nd hα1 hα2 (x := α1.t) (by simp) (by simp [e]))
  have n3 : α2.h ≠ α1.h := fun e =>
    h12 (nd_inj_e hA.nd hα1 hα2 (x := α2.h) (by simp [e]) (by simp)).symm.symm
  have n4 : α2.h ≠ α2.t := (nd_th_e hA.nd hα2).symm
  have n5 : α1.t ≠ α2.h := fun e =>
    h12 (nd_inj_e hA.nd hα1 hα2 (x := α1.t) (by simp) (by simp [e]))
  have t1b : α1.t ≠ bot.id := by rcases hb with e | e <;> rw [e] <;> assumption
  have t1t : α1.t ≠ top.id := by rcases ht with e | e <;> rw [e] <;> assumption
  have h2b : α2.h ≠ bot.id := by rcases hb with e | e <;> rw [e] <;> assumption
  have h2t : α2.h ≠ top.id := by rcases ht with e | e <;> rw [e] <;> assumption
  have sT : Shift_e F1.length (pos (F1 ++ bot :: top :: F2) α1.t) (pos (F1 ++ F2) α1.t) :=
    (shift_arc_e hE.ids ok1).1 t1b t1t
  have sH : Shift_e F1.length (pos (F1 ++ bot :: top :: F2) α2.h) (pos (F1 ++ F2) α2.h) :=
    (shift_arc_e hE.ids ok2).2 h2b h2t
  have hTH : pos (F1 ++ bot :: top :: F2) α1.t ≠ pos (F1 ++ bot :: top :: F2) α2.h := by
    obtain ⟨a, ha, hid, -, -⟩ := ok1.tail
    intro e
    rw [← hid] at e
    exact n5 (hid ▸ pos_inj_e ha e)
  have hm : (pos (F1 ++ bot :: top :: F2) α1.h = F1.length ∧
        pos (F1 ++ bot :: top :: F2) α2.t = F1.length + 1) ∨
      (pos (F1 ++ bot :: top :: F2) α1.h = F1.length + 1 ∧
        pos (F1 ++ bot :: top :: F2) α2.t = F1.length) := by
    rcases hcase with ⟨e1, e2, -⟩ | ⟨e1, e2, -⟩
    · left; rw [e1, e2]; exact ⟨pb, pt⟩
    · right; rw [e1, e2]; exact ⟨pt, pb⟩
  -- the path
  have hnw : R.nxt (R.prv w) = w := hR.nxt_prv w hw
  have hpw : R.nxt^[α1.k + 1] α1.v0 = w := path_w_e R hp1 hnw
  have hps : ∀ j, R.nxt^[α1.k + 1 + (j + 1)] α1.v0 = R.nxt^[j] α2.v0 :=
    path_shift_e R hp1 hnw hv2.symm
  have hidx : ∀ j, j ≤ α1.k + 1 + (α2.k + 1) →
      j ≤ α1.k ∨ j = α1.k + 1 ∨ ∃ j', j' ≤ α2.k ∧ j = α1.k + 1 + (j' + 1) := by
    intro j hj
    by_cases h1 : j ≤ α1.k
    · exact Or.inl h1
    · by_cases h2 : j = α1.k + 1
      · exact Or.inr (Or.inl h2)
      · exact Or.inr (Or.inr ⟨j - (α1.k + 2), by omega, by omega⟩)
  have hnew : ArcOK R (R.x w) (F1 ++ F2) ⟨α1.v0, α1.k + 1 + (α2.k + 1), α1.t, α2.h⟩ := by
    refine ⟨?_, ?_, ?_, ?_, ?_⟩
    · obtain ⟨a, ha, hid, hl, hr⟩ := ok1.tail
      exact ⟨a, mem_remove_e ha (hid ▸ t1b) (hid ▸ t1t), hid, hl, hr⟩
    · obtain ⟨a, ha, hid, hl, hr⟩ := ok2.head
      refine ⟨a, mem_remove_e ha (hid ▸ h2b) (hid ▸ h2t), hid, ?_, ?_⟩
      · show a.lv = R.nxt^[α1.k + 1 + (α2.k + 1)] α1.v0
        rw [hps]; exact hl
      · show a.rv = R.nxt (R.nxt^[α1.k + 1 + (α2.k + 1)] α1.v0)
        rw [hps]; exact hr
    · intro j hj
      show R.nxt^[j] α1.v0 < R.n
      rcases hidx j hj with h | h | ⟨j', hj', h⟩
      · exact ok1.lt j h
      · rw [h, hpw]; exact hw
      · rw [h, hps]; exact ok2.lt j' hj'
    · intro j hj
      show R.x (R.nxt^[j] α1.v0) ≤ R.x w
      rcases hidx j hj with h | h | ⟨j', hj', h⟩
      · exact le_trans (ok1.le j h) hxs'
      · rw [h, hpw]
      · rw [h, hps]; exact le_trans (ok2.le j' hj') hxs'
    · show uSum R α1.v0 (α1.k + 1 + (α2.k + 1)) =
        if pos (F1 ++ F2) α2.h < pos (F1 ++ F2) α1.t then 1 else -1
      rw [uSum_merge_e, hpw, ← hv2, ok1.sum, ok2.sum, sign_shift_e sH sT]
      have hnc := (nonCross_iff_e _ _ _).mp (nc_of_mem_e hA.nc hα1 hα2 h12)
      obtain ⟨sT1, sT2⟩ := shift_ne_e sT
      obtain ⟨sH1, sH2⟩ := shift_ne_e sH
      rcases hcase with ⟨e1, e2, e3⟩ | ⟨e1, e2, e3⟩
      · rw [e1, e2, pb, pt] at hnc ⊢
        rw [e3]
        exact (sign_merge_pos_e sT1 sT2 sH1 sH2 hTH hnc).symm
      · rw [e1, e2, pb, pt] at hnc ⊢
        rw [e3]
        exact (sign_merge_neg_e sT1 sT2 sH1 sH2 hTH hnc).symm
  refine ⟨?_, ?_, ?_, ?_, hA.cyc, ?_⟩
  · -- arcs
    intro γ hγ
    rcases List.mem_cons.mp hγ with rfl | hγ
    · exact hnew
    · exact (hrest γ hγ).1
  · -- ends
    intro e he
    obtain ⟨eb, et⟩ := id_ne_e hE.ids he
    obtain ⟨γ, hγ, h⟩ := hA.ends e (mem_of_remove_e he)
    by_cases g1 : γ = α1
    · subst g1
      refine ⟨_, List.mem_cons_self, Or.inl ?_⟩
      rcases h with h | h
      · exact h
      · exfalso
        rcases hcase with ⟨e1, -, -⟩ | ⟨e1, -, -⟩
        · exact eb (h.symm.trans e1)
        · exact et (h.symm.trans e1)
    · by_cases g2 : γ = α2
      · subst g2
        refine ⟨_, List.mem_cons_self, Or.inr ?_⟩
        rcases h with h | h
        · exfalso
          rcases hcase with ⟨-, e2, -⟩ | ⟨-, e2, -⟩
          · exact et (h.symm.trans e2)
          · exact eb (h.symm.trans e2)
        · exact h
      · exact ⟨γ, List.mem_cons_of_mem _ (mem_rest_e.mpr ⟨hγ, g1, g2⟩), h⟩
  · -- nd
    rw [List.flatMap_cons]
    refine List.nodup_append.mpr ⟨?_, hrnd, ?_⟩
    · simp only [List.nodup_cons, List.mem_singleton, List.not_mem_nil, not_false_eq_true,
        List.nodup_nil, and_true]
      exact n5
    · intro x hx y hy exy
      subst exy
      obtain ⟨γ, hγ, hxγ⟩ := List.mem_flatMap.mp hy
      obtain ⟨hγA, g1, g2⟩ := mem_rest_e.mp hγ
      simp only [List.mem_cons, List.not_mem_nil, or_false] at hx
      rcases hx with hx | hx
      · exact g1 (nd_inj_e hA.nd hγA hα1 hxγ (by simp [hx]))
      · exact g2 (nd_inj_e hA.nd hγA hα2 hxγ (by simp [hx]))
  · -- nc
    refine List.pairwise_cons.mpr ⟨?_, hrnc⟩
    intro γ hγ
    obtain ⟨hγA, g1, g2⟩ := mem_rest_e.mp hγ
    obtain ⟨-, s1, s2⟩ := hrest γ hγ
    obtain ⟨c1, c2⟩ := shift_ne_e s1
    obtain ⟨d1, d2⟩ := shift_ne_e s2
    have q1 := (nonCross_iff_e _ _ _).mp (nc_of_mem_e hA.nc hα1 hγA (Ne.symm g1))
    have q2 := (nonCross_iff_e _ _ _).mp (nc_of_mem_e hA.nc hα2 hγA (Ne.symm g2))
    refine (nonCross_iff_e _ _ _).mpr ?_
    exact ncn_shift_e sT sH s1 s2 (ncn_merge_e hm c1 c2 d1 d2 q1 q2)
  · -- cover
    intro v hv hxv
    by_cases hvw : v = w
    · left
      refine ⟨_, List.mem_cons_self, α1.k + 1, Nat.le_add_right _ _, ?_⟩
      rw [hvw]; exact hpw.symm
    · rcases hA.cover v hv (old_vertex_e hR hw hgap hv hxv hvw) with ⟨γ, hγ, j, hj, hvj⟩ | h
      · left
        by_cases g1 : γ = α1
        · subst g1
          refine ⟨_, List.mem_cons_self, j, ?_, hvj⟩
          show j ≤ γ.k + 1 + (α2.k + 1)
          omega
        · by_cases g2 : γ = α2
          · subst g2
            refine ⟨_, List.mem_cons_self, α1.k + 1 + (j + 1), ?_, ?_⟩
            · show α1.k + 1 + (j + 1) ≤ α1.k + 1 + (γ.k + 1)
              omega
            · show v = R.nxt^[α1.k + 1 + (j + 1)] α1.v0
              rw [hps]; exact hvj
          · exact ⟨γ, List.mem_cons_of_mem _ (mem_rest_e.mpr ⟨hγ, g1, g2⟩), j, hj, hvj⟩
      · exact Or.inr h

/-! ### the two ends of one arc meet: the polygon is complete -/

theorem arc_end_close_e {R : RingQ} {V : Array (Vtx XQ)} (hR : RingOK R V) {xs : Rat}
    {F1 F2 : List AE} {bot top : AE} {A : List Arc} {D : List Cyc}
    (hA : ArcInv R xs (F1 ++ bot :: top :: F2) A D)
    (hE : EOK R xs (F1 ++ bot :: top :: F2))
    {w : Nat} (hw : w < R.n) (hxs : xs < R.x w)
    (hgap : ∀ v, v < R.n → xs < R.x v → R.x w ≤ R.x v)
    {α : Arc} (hα : α ∈ A)
    (hp1 : R.nxt^[α.k] α.v0 = R.prv w) (hv2 : α.v0 = R.nxt w)
    (hcase : (α.h = bot.id ∧ α.t = top.id ∧ turnE R w = 1) ∨
      (α.h = top.id ∧ α.t = bot.id ∧ turnE R w = -1)) :
    ArcInv R (R.x w) (F1 ++ F2) (rest_e A α α) (⟨α.v0, α.k, w⟩ :: D) := by
  have hxs' : xs ≤ R.x w := le_of_lt hxs
  have ok := hA.arcs α hα
  have hb : bot.id = α.h ∨ bot.id = α.t := by
    rcases hcase with ⟨e1, e2, -⟩ | ⟨e1, e2, -⟩
    · exact Or.inl e1.symm
    · exact Or.inr e2.symm
  have ht : top.id = α.h ∨ top.id = α.t := by
    rcases hcase with ⟨e1, e2, -⟩ | ⟨e1, e2, -⟩
    · exact Or.inr e2.symm
    · exact Or.inl e1.symm
  obtain ⟨hrest, hrnc, hrnd⟩ := rest_inv_e hA hE hxs' hα hα hb ht
  obtain ⟨pb, pt, -⟩ := pos_remove_e hE.ids
  have hnw : R.nxt (R.prv w) = w := hR.nxt_prv w hw
  have hcyc : CycOK R ⟨α.v0, α.k, w⟩ := by
    refine ⟨?_, hv2.symm, hw, ?_, ?_⟩
    · show R.nxt (R.nxt^[α.k] α.v0) = w
      rw [hp1, hnw]
    · intro j hj
      exact ⟨ok.lt j hj, lt_of_le_of_lt (ok.le j hj) hxs⟩
    · show uSum R α.v0 α.k + turnE R w = 2 * turnE R w
      rw [ok.sum]
      rcases hcase with ⟨e1, e2, e3⟩ | ⟨e1, e2, e3⟩
      · rw [e1, e2, e3, pb, pt, if_pos (Nat.lt_succ_self _)]; rfl
      · rw [e1, e2, e3, pb, pt, if_neg (by omega)]; rfl
  refine ⟨fun γ hγ => (hrest γ hγ).1, ?_, hrnd, hrnc, ?_, ?_⟩
  · -- ends
    intro e he
    obtain ⟨eb, et⟩ := id_ne_e hE.ids he
    obtain ⟨γ, hγ, h⟩ := hA.ends e (mem_of_remove_e he)
    have g : γ ≠ α := by
      intro g
      subst g
      rcases h with h | h
      · rcases hcase with ⟨-, e2, -⟩ | ⟨-, e2, -⟩
        · exact et (h.symm.trans e2)
        · exact eb (h.symm.trans e2)
      · rcases hcase with ⟨e1, -, -⟩ | ⟨e1, -, -⟩
        · exact eb (h.symm.trans e1)
        · exact et (h.symm.trans e1)
    exact ⟨γ, mem_rest_e.mpr ⟨hγ, g, g⟩, h⟩
  · -- cyc
    intro c hc
    rcases List.mem_cons.mp hc with rfl | hc
    · exact hcyc
    · exact hA.cyc c hc
  · -- cover
    intro v hv hxv
    by_cases hvw : v = w
    · exact Or.inr ⟨_, List.mem_cons_self, Or.inl hvw⟩
    · rcases hA.cover v hv (old_vertex_e hR hw hgap hv hxv hvw) with ⟨γ, hγ, j, hj, hvj⟩ | h
      · by_cases g : γ = α
        · subst g
          exact Or.inr ⟨_, List.mem_cons_self, Or.inr ⟨j, hj, hvj⟩⟩
        · exact Or.inl ⟨γ, mem_rest_e.mpr ⟨hγ, g, g⟩, j, hj, hvj⟩
      · obtain ⟨c, hc, h⟩ := h
        exact Or.inr ⟨c, List.mem_cons_of_mem _ hc, h⟩

/-! ### the End event -/

/-- **the arc invariant is kept by an End event** -/
theorem arc_end {R : RingQ} {V : Array (Vtx XQ)} (hR : RingOK R V) {xs : Rat} {F1 F2 : List AE}
    {bot top : AE} {A : List Arc} {D : List Cyc}
    (hA : ArcInv R xs (F1 ++ bot :: top :: F2) A D)
    (hE : EOK R xs (F1 ++ bot :: top :: F2))
    {w : Nat} (hw : w < R.n) (hxs : xs < R.x w)
    (hgap : ∀ v, v < R.n → xs < R.x v → R.x w ≤ R.x v)
    (hx0 : R.x (R.prv w) < R.x w) (hx1 : R.x (R.nxt w) < R.x w)
    (hbr : bot.rv = w) (htr : top.rv = w) (hne : bot.lv ≠ top.lv)
    (hor : 0 < orient (R.pt bot.lv) (R.pt w) (R.pt top.lv))
    (hE' : EOK R (R.x w) (F1 ++ F2)) :
    ∃ A' D', ArcInv R (R.x w) (F1 ++ F2) A' D' := by
  have hbE : bot ∈ F1 ++ bot :: top :: F2 := List.mem_append_right _ List.mem_cons_self
  have htE : top ∈ F1 ++ bot :: top :: F2 :=
    List.mem_append_right _ (List.mem_cons_of_mem _ List.mem_cons_self)
  obtain ⟨α1, hα1, α2, hα2, hp1, hv2, hcase⟩ :=
    end_arcs_e hR hA hE hbE htE hx0 hx1 hbr htr hne hor
  by_cases h12 : α1 = α2
  · subst h12
    exact ⟨_, _, arc_end_close_e hR hA hE hw hxs hgap hα1 hp1 hv2 hcase⟩
  · exact ⟨_, _, arc_end_merge_e hR hA hE hw hxs hgap hα1 hα2 h12 hp1 hv2 hcase⟩

end Cav.GenOutArc
