/-
  List-level (`Seg`) heap lemmas for the general sweep, part 2: `chainMerge` followed by the two
  fans from the new node (`merge_fans`).
-/
import Cav.Lemmas.GenOutHeap

set_option linter.unusedSimpArgs false
set_option linter.unusedVariables false
set_option linter.unusedSectionVars false

namespace Cav.GenOutHeap
open Cav Num Cav.Sweep Cav.SweepRun Cav.TriRun Cav.QuadRun Cav.CvxHeap Cav.MonoHeap

variable {α : Type} [Num α]

/-- node array after `chainMerge b t p`: `i = b.tail` (old cell `ni`), `j = t.head` (old cell
    `nj`), the new cell `N.size` sits between them -/
def mrg (N : Array (Node α)) (i j : Nat) (ni nj : Node α) (p : Pt α) : Array (Node α) :=
  ((((N.push ⟨p, none, none⟩).setIfInBounds i ⟨ni.p, ni.prev, some N.size⟩).setIfInBounds N.size
    ⟨p, some i, none⟩).setIfInBounds j ⟨nj.p, some N.size, nj.next⟩).setIfInBounds N.size
    ⟨p, some i, some j⟩

theorem size_mrg (N : Array (Node α)) (i j : Nat) (ni nj : Node α) (p : Pt α) :
    (mrg N i j ni nj p).size = N.size + 1 := by simp [mrg]

theorem mrg_new (N : Array (Node α)) (i j : Nat) (ni nj : Node α) (p : Pt α) :
    (mrg N i j ni nj p)[N.size]? = some ⟨p, some i, some j⟩ := by
  simp [mrg, Array.getElem?_setIfInBounds]

theorem mrg_i (N : Array (Node α)) (i j : Nat) (ni nj : Node α) (p : Pt α) (hi : i < N.size)
    (hne : i ≠ j) : (mrg N i j ni nj p)[i]? = some ⟨ni.p, ni.prev, some N.size⟩ := by
  have h1 : i ≠ N.size := Nat.ne_of_lt hi
  have h2 : i < N.size + 1 := Nat.lt_succ_of_lt hi
  simp [mrg, Array.getElem?_setIfInBounds, h1, h1.symm, hne, hne.symm, h2]

theorem mrg_j (N : Array (Node α)) (i j : Nat) (ni nj : Node α) (p : Pt α) (hj : j < N.size) :
    (mrg N i j ni nj p)[j]? = some ⟨nj.p, some N.size, nj.next⟩ := by
  have h1 : j ≠ N.size := Nat.ne_of_lt hj
  have h2 : j < N.size + 1 := Nat.lt_succ_of_lt hj
  simp [mrg, Array.getElem?_setIfInBounds, h1, h1.symm, h2]

theorem mrg_other (N : Array (Node α)) (i j : Nat) (ni nj : Node α) (p : Pt α) (k : Nat)
    (hk : k < N.size) (hi : k ≠ i) (hj : k ≠ j) : (mrg N i j ni nj p)[k]? = N[k]? := by
  have h1 : k ≠ N.size := Nat.ne_of_lt hk
  simp [mrg, Array.getElem?_setIfInBounds, Array.getElem?_push, h1, h1.symm, hi.symm, hj.symm]

theorem run_chainMerge_seg (b t : Chain) (p : Pt α) (s : St α) (ni nj : Node α)
    (hi : s.nodes[b.tail]? = some ni) (hj : s.nodes[t.head]? = some nj) (hne : b.tail ≠ t.head) :
    (chainMerge b t p).run s =
      .ok (⟨s.nodes.size, b.head, t.tail⟩,
        { s with nodes := mrg s.nodes b.tail t.head ni nj p }) := by
  have li := lt_of_get hi
  have lj := lt_of_get hj
  have n1 : b.tail ≠ s.nodes.size := Nat.ne_of_lt li
  have n2 : t.head ≠ s.nodes.size := Nat.ne_of_lt lj
  have l1 : b.tail < s.nodes.size + 1 := Nat.lt_succ_of_lt li
  unfold chainMerge mrg
  simp [↓run_bind, run_pure, run_getNode, run_setNode, run_newNode, Array.getElem?_push,
    Array.getElem?_setIfInBounds, n1, n1.symm, n2, n2.symm, hne, hne.symm, hi, hj,
    -StateT.run_pure, -StateT.run_bind]

theorem exists_snoc {β : Type} : ∀ (l : List β), l ≠ [] → ∃ l' x, l = l' ++ [x]
  | [], h => absurd rfl h
  | [x], _ => ⟨[], x, rfl⟩
  | x :: y :: r, _ => by
    obtain ⟨l', z, h⟩ := exists_snoc (y :: r) (by simp)
    exact ⟨x :: l', z, by rw [h]; rfl⟩

/-- `chainMerge` at list level: the new cell sits between the two chains -/
theorem seg_merge (N : Array (Node α)) (l1 l2 : List (Nat × Pt α)) (hne1 : l1 ≠ []) (hne2 : l2 ≠ [])
    (h1 : Seg N none l1 none) (h2 : Seg N none l2 none) (hnd : ((l1 ++ l2).map Prod.fst).Nodup)
    (b t : Chain) (hbt : some b.tail = (l1.getLast?).map Prod.fst)
    (hth : some t.head = (l2.head?).map Prod.fst)
    (p : Pt α) (sm0 : St α) (hsm : sm0.nodes = N) :
    ∃ N1, (chainMerge b t p).run sm0 =
        .ok (⟨N.size, b.head, t.tail⟩, { sm0 with nodes := N1 }) ∧ N1.size = N.size + 1 ∧
      Seg N1 none (l1 ++ (N.size, p) :: l2) none ∧
      (∀ k, k < N.size → k ≠ b.tail → k ≠ t.head → N1[k]? = N[k]?) := by
  obtain ⟨l1', ⟨i, pi⟩, rfl⟩ := exists_snoc l1 hne1
  obtain ⟨⟨j, pj⟩, l2', rfl⟩ := List.exists_cons_of_ne_nil hne2
  simp only [List.getLast?_append, List.getLast?_singleton, Option.some_or, Option.map_some,
    Option.some.injEq, List.head?_cons] at hbt hth
  have hlt1 := Seg.lt h1
  have hlt2 := Seg.lt h2
  rw [seg_snoc] at h1
  obtain ⟨h1a, h1b⟩ := h1
  obtain ⟨h2a, h2b⟩ := h2
  have hndL := nodup_app_left hnd
  have hndR := nodup_app_right hnd
  have hij : i ≠ j := nodup_app_ne hnd (x := (i, pi)) (y := (j, pj)) (by simp) (by simp)
  have f1 : ∀ x ∈ l1', x.1 ≠ i := fun x hx => nodup_app_ne hndL hx (y := (i, pi)) (by simp)
  have f2 : ∀ x ∈ l1', x.1 ≠ j := fun x hx =>
    nodup_app_ne hnd (List.mem_append_left _ hx) (y := (j, pj)) (by simp)
  have f3 : ∀ x ∈ l2', x.1 ≠ i := fun x hx =>
    (nodup_app_ne hnd (x := (i, pi)) (by simp) (y := x) (List.mem_cons_of_mem _ hx)).symm
  have f4 : ∀ x ∈ l2', x.1 ≠ j := fun x hx =>
    (nodup_app_ne (A := [(j, pj)]) (B := l2') (x := (j, pj)) hndR (by simp) hx).symm
  have li := lt_of_get h1b
  have lj := lt_of_get h2a
  subst hsm
  refine ⟨mrg sm0.nodes i j ⟨pi, nxtOf l1'.reverse none, none⟩ ⟨pj, none, nxtOf l2' none⟩ p, ?_,
    size_mrg _ _ _ _ _ _, ?_, ?_⟩
  · have := run_chainMerge_seg b t p sm0 _ _ (hbt ▸ h1b) (hth ▸ h2a) (by rw [hbt, hth]; exact hij)
    rw [hbt, hth] at this
    exact this
  · rw [seg_append, lastOr_snoc, seg_snoc]
    refine ⟨⟨Seg.congr ?_ h1a, mrg_i _ _ _ _ _ _ li hij⟩, mrg_new _ _ _ _ _ _, mrg_j _ _ _ _ _ _ lj,
      Seg.congr ?_ h2b⟩
    · intro k hk
      rw [List.mem_map] at hk
      obtain ⟨x, hx, rfl⟩ := hk
      exact mrg_other _ _ _ _ _ _ _ (hlt1 x (List.mem_append_left _ hx)) (f1 x hx) (f2 x hx)
    · intro k hk
      rw [List.mem_map] at hk
      obtain ⟨x, hx, rfl⟩ := hk
      exact mrg_other _ _ _ _ _ _ _ (hlt2 x (List.mem_cons_of_mem _ hx)) (f3 x hx) (f4 x hx)
  · intro k hk hki hkj
    rw [hbt] at hki
    rw [hth] at hkj
    exact mrg_other _ _ _ _ _ _ _ hk hki hkj

/-- **(D2)** `chainMerge` followed by the backward and the forward fan from the new node -/
theorem merge_fans (N : Array (Node α)) (l1 l2 : List (Nat × Pt α)) (hne1 : l1 ≠ []) (hne2 : l2 ≠ [])
    (h1 : Seg N none l1 none) (h2 : Seg N none l2 none) (hnd : ((l1 ++ l2).map Prod.fst).Nodup)
    (b t : Chain) (hbt : some b.tail = (l1.getLast?).map Prod.fst)
    (hth : some t.head = (l2.head?).map Prod.fst)
    (p : Pt α) (sm0 : St α) (hsm : sm0.nodes = N) (fuel : Nat) (hfuel : N.size + 1 ≤ fuel)
    {mid1 : List (Nat × Pt α)} {g1 : Nat} {pg1 : Pt α} {rest1 : List (Nat × Pt α)}
    (hs1 : l1.reverse = mid1 ++ (g1, pg1) :: rest1)
    (hfan1 : FanB p (mid1.map Prod.snd ++ [pg1])) (hstop1 : StopB p pg1 rest1)
    {mid2 : List (Nat × Pt α)} {g2 : Nat} {pg2 : Pt α} {rest2 : List (Nat × Pt α)}
    (hs2 : l2 = mid2 ++ (g2, pg2) :: rest2)
    (hfan2 : FanF p (mid2.map Prod.snd ++ [pg2])) (hstop2 : StopF p pg2 rest2) :
    ∃ N1 N2 N3,
      (chainMerge b t p).run sm0 =
        .ok (⟨N.size, b.head, t.tail⟩, { sm0 with nodes := N1 }) ∧ N1.size = N.size + 1 ∧
      (nodeTriangulate N.size true fuel).run { sm0 with nodes := N1 } =
        .ok ((), { sm0 with nodes := N2, out := trisB p (mid1.map Prod.snd ++ [pg1]) ++ sm0.out }) ∧
      (nodeTriangulate N.size false fuel).run
          { sm0 with nodes := N2, out := trisB p (mid1.map Prod.snd ++ [pg1]) ++ sm0.out } =
        .ok ((), { sm0 with nodes := N3, out := trisF p (mid2.map Prod.snd ++ [pg2]) ++
          (trisB p (mid1.map Prod.snd ++ [pg1]) ++ sm0.out) }) ∧
      Seg N3 none (rest1.reverse ++ (g1, pg1) :: (N.size, p) :: (g2, pg2) :: rest2) none ∧
      N3.size = N.size + 1 ∧
      (∀ k, k < N.size → (∀ x ∈ l1 ++ l2, x.1 ≠ k) → N3[k]? = N[k]?) := by
  obtain ⟨N1, hrun1, hsz1, hseg1, hfr1⟩ :=
    seg_merge N l1 l2 hne1 hne2 h1 h2 hnd b t hbt hth p sm0 hsm
  have hlt1 := Seg.lt h1
  have hlt2 := Seg.lt h2
  have hltW : ∀ x ∈ l1 ++ l2, x.1 ≠ N.size := by
    intro x hx
    rcases List.mem_append.mp hx with hx | hx
    · exact Nat.ne_of_lt (hlt1 x hx)
    · exact Nat.ne_of_lt (hlt2 x hx)
  have hndW : ((l1 ++ (N.size, p) :: l2).map Prod.fst).Nodup := nodup_insert_mid hnd _ p hltW
  -- the shape of `l1`
  have hl1 : l1 = (rest1.reverse ++ [(g1, pg1)]) ++ mid1.reverse := by
    have := congrArg List.reverse hs1
    rw [List.reverse_reverse] at this
    rw [this]; simp
  have hlen1 : mid1.length ≤ fuel := by
    have h := Seg.length_le h1 (nodup_app_left hnd)
    have h' := congrArg List.length hs1
    simp only [List.length_reverse, List.length_append, List.length_cons] at h'
    omega
  have hlen2 : mid2.length ≤ fuel := by
    have h := Seg.length_le h2 (nodup_app_right hnd)
    have h' := congrArg List.length hs2
    simp only [List.length_append, List.length_cons] at h'
    omega
  -- backward fan
  obtain ⟨N2, hrun2, hseg2, hsz2, hfr2⟩ := bwd_fan_mid { sm0 with nodes := N1 } l1 N.size p l2 none
    hseg1 hndW hs1 hfan1 hstop1 fuel hlen1
  have hndW2 : (((rest1.reverse ++ [(g1, pg1)]) ++ (N.size, p) :: l2).map Prod.fst).Nodup := by
    rw [hl1] at hndW
    exact nodup_drop_mid hndW
  have hseg2' : Seg N2 none ((rest1.reverse ++ [(g1, pg1)]) ++ (N.size, p) :: l2) none := by
    simpa using hseg2
  -- forward fan
  obtain ⟨N3, hrun3, hseg3, hsz3, hfr3⟩ := fwd_fan_mid
    { sm0 with nodes := N2, out := trisB p (mid1.map Prod.snd ++ [pg1]) ++ sm0.out }
    (rest1.reverse ++ [(g1, pg1)]) N.size p l2 none hseg2' hndW2 hs2 hfan2 hstop2 fuel hlen2
  refine ⟨N1, N2, N3, hrun1, hsz1, hrun2, hrun3, by simpa using hseg3, ?_, ?_⟩
  · rw [hsz3]; show N2.size = _; rw [hsz2]; exact hsz1
  · intro k hk hout
    have hm1 : ∀ x ∈ mid1 ++ (g1, pg1) :: rest1, x.1 ≠ k := by
      intro x hx
      rw [← hs1] at hx
      exact hout x (List.mem_append_left _ (List.mem_reverse.mp hx))
    have hm2 : ∀ x ∈ mid2 ++ (g2, pg2) :: rest2, x.1 ≠ k := by
      intro x hx
      rw [← hs2] at hx
      exact hout x (List.mem_append_right _ hx)
    rw [hfr3 k (Nat.ne_of_lt hk) (fun x hx => hm2 x (List.mem_append_left _ hx))
      (fun e => hm2 (g2, pg2) (by simp) e.symm)]
    show N2[k]? = _
    rw [hfr2 k (Nat.ne_of_lt hk) (fun x hx => hm1 x (List.mem_append_left _ hx))
      (fun e => hm1 (g1, pg1) (by simp) e.symm)]
    show N1[k]? = _
    obtain ⟨x1, hx1, e1⟩ := mem_of_getLast?_fst hbt
    obtain ⟨x2, hx2, e2⟩ := mem_of_head?_fst hth
    exact hfr1 k hk (fun e => hout x1 (List.mem_append_left _ hx1) (e1.trans e.symm))
      (fun e => hout x2 (List.mem_append_right _ hx2) (e2.trans e.symm))

end Cav.GenOutHeap
