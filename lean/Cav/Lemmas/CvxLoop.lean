/-
  The event loop of the sweep model on a polygon made of two x-monotone chains, the bottom one
  convex and the top one concave (`Conv`): induction over the event queue with the state
  invariant "two active edges, one shared back-chain with nodes `[b i, t j]`" after the Start
  event, `i` Bends on the bottom chain and `j` Bends on the top chain.
-/
import Cav.Lemmas.CvxFlows
import Cav.Lemmas.CvxGeom

set_option linter.unusedSimpArgs false
set_option linter.unusedVariables false

namespace Cav.CvxLoop
open Cav Num Cav.Geo Cav.Sweep Cav.SweepRun Cav.TriRun Cav.QuadRun Cav.TriEvents Cav.QuadGeom
open Cav.CvxHeap Cav.CvxEvents Cav.CvxFlows Cav.CvxGeom

/-! ### areas -/

def cross (a b : Rat × Rat) : Rat := a.1 * b.2 - a.2 * b.1

theorem orient_eq_cross (a b c : Rat × Rat) : orient a b c = cross a b + cross b c + cross c a := by
  unfold orient cross; ring

/-- `Σ_{l<k} cross (f l) (f (l+1))` -/
def chainSum (f : Nat → Rat × Rat) : Nat → Rat
  | 0 => 0
  | k + 1 => chainSum f k + cross (f k) (f (k + 1))

/-- doubled absolute area of an emitted triangle -/
def triArea (tr : Tri) : Rat := |orientPt tr.1 tr.2.1 tr.2.2|

def areaSum (l : List Tri) : Rat := (l.map triArea).sum

theorem areaSum_append (l1 l2 : List Tri) : areaSum (l1 ++ l2) = areaSum l1 + areaSum l2 := by
  simp [areaSum]

theorem triArea_sort3 (a b c : Rat × Rat) : triArea (sort3 (Fq a) (Fq b) (Fq c)) = |orient a b c| := by
  unfold triArea
  rw [sort3_abs_orient]
  rfl

/-! ### the configuration -/

/-- the vertex ring `V` restricted to the two chains: `bi k` / `ti k` are the ring indices of the
    `k`-th vertex of the bottom / top chain, `b k` / `t k` their coordinates -/
structure Conv (V : Array (Vtx XQ)) (mB mT : Nat) (bi ti : Nat → Nat) (b t : Nat → Rat × Rat) :
    Prop where
  ch : Chains mB mT b t
  three : 3 ≤ mB + mT
  i0 : ti 0 = bi 0
  iR : ti mT = bi mB
  xBT : ∀ i j, 0 < i → i < mB → 0 < j → j < mT → (b i).1 ≠ (t j).1
  vB : ∀ k, k + 1 < mB → ∃ n1 n2, V[bi (k + 1)]? = some ⟨Fq (b (k + 1)), n1, n2⟩ ∧
    Nbrs n1 n2 (bi k) (bi (k + 2))
  vT : ∀ k, k + 1 < mT → ∃ n1 n2, V[ti (k + 1)]? = some ⟨Fq (t (k + 1)), n1, n2⟩ ∧
    Nbrs n1 n2 (ti k) (ti (k + 2))
  vL : ∃ n1 n2, V[bi 0]? = some ⟨Fq (b 0), n1, n2⟩ ∧ Nbrs n1 n2 (bi 1) (ti 1)
  vR : ∃ n1 n2, V[bi mB]? = some ⟨Fq (b mB), n1, n2⟩ ∧ Nbrs n1 n2 (bi (mB - 1)) (ti (mT - 1))

section
variable {V : Array (Vtx XQ)} {mB mT : Nat} {bi ti : Nat → Nat} {b t : Nat → Rat × Rat}

theorem Conv.lkB (hC : Conv V mB mT bi ti b t) (k : Nat) (hk : k ≤ mB) :
    ∃ n1 n2, V[bi k]? = some ⟨Fq (b k), n1, n2⟩ := by
  rcases Nat.eq_zero_or_pos k with rfl | hpos
  · obtain ⟨n1, n2, h, -⟩ := hC.vL; exact ⟨n1, n2, h⟩
  · rcases Nat.lt_or_ge k mB with hlt | hge
    · obtain ⟨k', rfl⟩ : ∃ k', k = k' + 1 := ⟨k - 1, by omega⟩
      obtain ⟨n1, n2, h, -⟩ := hC.vB k' hlt; exact ⟨n1, n2, h⟩
    · have : k = mB := by omega
      subst this
      obtain ⟨n1, n2, h, -⟩ := hC.vR; exact ⟨n1, n2, h⟩

theorem Conv.lkT (hC : Conv V mB mT bi ti b t) (k : Nat) (hk : k ≤ mT) :
    ∃ n1 n2, V[ti k]? = some ⟨Fq (t k), n1, n2⟩ := by
  rcases Nat.eq_zero_or_pos k with rfl | hpos
  · obtain ⟨n1, n2, h, -⟩ := hC.vL
    rw [hC.i0, ← hC.ch.p0]; exact ⟨n1, n2, h⟩
  · rcases Nat.lt_or_ge k mT with hlt | hge
    · obtain ⟨k', rfl⟩ : ∃ k', k = k' + 1 := ⟨k - 1, by omega⟩
      obtain ⟨n1, n2, h, -⟩ := hC.vT k' hlt; exact ⟨n1, n2, h⟩
    · have : k = mT := by omega
      subst this
      obtain ⟨n1, n2, h, -⟩ := hC.vR
      rw [hC.iR, ← hC.ch.pR]; exact ⟨n1, n2, h⟩

theorem Conv.xB_le_R (hC : Conv V mB mT bi ti b t) (i : Nat) (hi : i ≤ mB) : (b i).1 ≤ (b mB).1 := by
  rcases Nat.lt_or_ge i mB with h | h
  · exact le_of_lt (hC.ch.xB_lt i mB h (le_refl _))
  · have : i = mB := by omega
    rw [this]

theorem Conv.xT_le_R (hC : Conv V mB mT bi ti b t) (j : Nat) (hj : j ≤ mT) : (t j).1 ≤ (b mB).1 := by
  rw [hC.ch.pR]
  rcases Nat.lt_or_ge j mT with h | h
  · exact le_of_lt (hC.ch.xT_lt j mT h (le_refl _))
  · have : j = mT := by omega
    rw [this]

/-- two pending vertices with the same abscissa are both the rightmost vertex -/
theorem Conv.pend_x (hC : Conv V mB mT bi ti b t) (i j : Nat) (hi0 : 0 < i) (hi : i ≤ mB)
    (hj0 : 0 < j) (hj : j ≤ mT) (h : (b i).1 = (t j).1) : i = mB ∧ j = mT := by
  rcases Nat.lt_or_ge i mB with hlt | hge
  · exfalso
    rcases Nat.lt_or_ge j mT with hlt' | hge'
    · exact hC.xBT i j hi0 hlt hj0 hlt' h
    · have : j = mT := by omega
      subst this
      have := hC.ch.xB_lt i mB hlt (le_refl _)
      rw [hC.ch.pR] at this
      linarith
  · have hi' : i = mB := by omega
    refine ⟨hi', ?_⟩
    rcases Nat.lt_or_ge j mT with hlt' | hge'
    · exfalso
      have := hC.ch.xT_lt j mT hlt' (le_refl _)
      rw [hi', hC.ch.pR] at h
      linarith
    · omega

/-! ### the event queue -/

/-- the queue in the state `(i, j)`: the two pending right end points in lexicographic order, or
    the rightmost vertex with both edges -/
def QueueOK (mB mT : Nat) (bi ti : Nat → Nat) (b t : Nat → Rat × Rat) (i j : Nat)
    (evs : List (Nat × List Nat)) : Prop :=
  (i + 1 = mB ∧ j + 1 = mT ∧ (evs = [(bi mB, [0, 1])] ∨ evs = [(bi mB, [1, 0])])) ∨
  ((b (i + 1)).1 < (t (j + 1)).1 ∧ evs = [(bi (i + 1), [0]), (ti (j + 1), [1])]) ∨
  ((t (j + 1)).1 < (b (i + 1)).1 ∧ evs = [(ti (j + 1), [1]), (bi (i + 1), [0])])

theorem Conv.queue_B (hC : Conv V mB mT bi ti b t) (i j : Nat) (hi : i < mB) (hj : j < mT) :
    QueueOK mB mT bi ti b t i j
      (evMerge ((Fq (b (i + 1))).cmp (Fq (t (j + 1)))) (bi (i + 1)) 0 (ti (j + 1)) [1]) := by
  rcases lt_trichotomy (b (i + 1)).1 (t (j + 1)).1 with h | h | h
  · right; left
    rw [cmp_lt_of_x _ _ h]
    exact ⟨h, rfl⟩
  · left
    obtain ⟨e1, e2⟩ := hC.pend_x (i + 1) (j + 1) (by omega) (by omega) (by omega) (by omega) h
    refine ⟨e1, e2, Or.inr ?_⟩
    rw [e1, e2, hC.ch.pR, cmp_self, hC.iR]
    rfl
  · right; right
    rw [cmp_gt_of_x _ _ h]
    exact ⟨h, rfl⟩

theorem Conv.queue_T (hC : Conv V mB mT bi ti b t) (i j : Nat) (hi : i < mB) (hj : j < mT) :
    QueueOK mB mT bi ti b t i j
      (evMerge ((Fq (t (j + 1))).cmp (Fq (b (i + 1)))) (ti (j + 1)) 1 (bi (i + 1)) [0]) := by
  rcases lt_trichotomy (b (i + 1)).1 (t (j + 1)).1 with h | h | h
  · right; left
    rw [cmp_gt_of_x _ _ h]
    exact ⟨h, rfl⟩
  · left
    obtain ⟨e1, e2⟩ := hC.pend_x (i + 1) (j + 1) (by omega) (by omega) (by omega) (by omega) h
    refine ⟨e1, e2, Or.inl ?_⟩
    rw [e1, e2, hC.ch.pR, cmp_self]
    rfl
  · right; right
    rw [cmp_lt_of_x _ _ h]
    exact ⟨h, rfl⟩

/-! ### the state invariant and the result of the loop -/

/-- the back-chain in the state `(i, j)`: the single node of the leftmost vertex, or the two
    nodes `b i` (head) and `t j` (tail) -/
def ChainOK (b t : Nat → Rat × Rat) (i j : Nat) (N : Array (Node XQ)) (iB iT : Nat) : Prop :=
  (i = 0 ∧ j = 0 ∧ iT = iB ∧ N[iB]? = some ⟨Fq (b 0), none, none⟩) ∨
  ((0 < i ∨ 0 < j) ∧ N[iB]? = some ⟨Fq (b i), none, some iT⟩ ∧
    N[iT]? = some ⟨Fq (t j), some iB, none⟩)

/-- a point is a vertex of the polygon -/
def IsVtx (mB mT : Nat) (b t : Nat → Rat × Rat) (p : Pt XQ) : Prop :=
  (∃ k, k ≤ mB ∧ p = Fq (b k)) ∨ (∃ k, k ≤ mT ∧ p = Fq (t k))

def TriOK (mB mT : Nat) (b t : Nat → Rat × Rat) (tr : Tri) : Prop :=
  IsVtx mB mT b t tr.1 ∧ IsVtx mB mT b t tr.2.1 ∧ IsVtx mB mT b t tr.2.2

theorem triOK_sort3 {p q r : Pt XQ} (hp : IsVtx mB mT b t p) (hq : IsVtx mB mT b t q)
    (hr : IsVtx mB mT b t r) : TriOK mB mT b t (sort3 p q r) := by
  unfold TriOK
  rcases sort3_cases p q r with h | h | h | h | h | h <;> rw [h] <;> simp only [] <;>
    exact ⟨by assumption, by assumption, by assumption⟩

/-- doubled signed area of the part of the polygon already triangulated in the state `(i, j)` -/
def SA (b t : Nat → Rat × Rat) (i j : Nat) : Rat :=
  chainSum b i + cross (b i) (t j) - chainSum t j

/-- doubled signed area of the polygon -/
def SAtot (mB mT : Nat) (b t : Nat → Rat × Rat) : Rat := chainSum b mB - chainSum t mT

theorem SA_stepB (i j : Nat) : SA b t (i + 1) j - SA b t i j = orient (b i) (b (i + 1)) (t j) := by
  unfold SA; simp only [chainSum]; rw [orient_eq_cross]; unfold cross; ring

theorem SA_stepT (i j : Nat) : SA b t i (j + 1) - SA b t i j = - orient (t j) (t (j + 1)) (b i) := by
  unfold SA; simp only [chainSum]; rw [orient_eq_cross]; unfold cross; ring

theorem SA_stepE (i j : Nat) (h : b (i + 1) = t (j + 1)) :
    chainSum b (i + 1) - chainSum t (j + 1) - SA b t i j = - orient (b i) (t j) (b (i + 1)) := by
  unfold SA; simp only [chainSum]; rw [orient_eq_cross, ← h]; unfold cross; ring

/-- what the event loop delivers from the state `(i, j)` with `k` Bends to go -/
def Done (mB mT : Nat) (b t : Nat → Rat × Rat) (i j k : Nat) (out : List Tri) (s' : St XQ) : Prop :=
  s'.mono = true ∧ ∃ T', s'.out = T' ++ out ∧
    T'.length + (if i = 0 ∧ j = 0 then 1 else 0) = k + 1 ∧
    (∀ tr ∈ T', TriOK mB mT b t tr ∧ 0 < triArea tr) ∧
    areaSum T' = SAtot mB mT b t - SA b t i j

theorem loop_step_run {n : Nat} {s s1 : St XQ} (h : Runs s (.ok ((), s1)) handleNext)
    (hne : s.events.isEmpty = false) : (loop (n + 1)).run s = (loop n).run s1 := by
  rw [loop_succ_run, hne, h.run]
  simp

theorem Done.step {i j i' j' k : Nat} {out : List Tri} {s' : St XQ} {tr : Tri}
    (hij : 0 < i ∨ 0 < j) (hij' : 0 < i' ∨ 0 < j')
    (htr : TriOK mB mT b t tr) (ha : triArea tr = SA b t i' j' - SA b t i j)
    (hpos : 0 < SA b t i' j' - SA b t i j)
    (h : Done mB mT b t i' j' k (tr :: out) s') : Done mB mT b t i j (k + 1) out s' := by
  obtain ⟨hm, T', ho, hl, hv, hs⟩ := h
  refine ⟨hm, T' ++ [tr], by simp [ho], ?_, ?_, ?_⟩
  · have e1 : ¬ (i = 0 ∧ j = 0) := by omega
    have e2 : ¬ (i' = 0 ∧ j' = 0) := by omega
    simp only [e1, e2, if_false, List.length_append, List.length_cons, List.length_nil] at hl ⊢
    omega
  · intro x hx
    rcases List.mem_append.mp hx with hx | hx
    · exact hv x hx
    · simp only [List.mem_singleton] at hx; subst hx; exact ⟨htr, by rw [ha]; exact hpos⟩
  · rw [areaSum_append, hs]
    simp only [areaSum, List.map_cons, List.map_nil, List.sum_cons, List.sum_nil, ha]
    ring

theorem Done.step0 {i' j' k : Nat} {out : List Tri} {s' : St XQ}
    (hij' : 0 < i' ∨ 0 < j') (ha : SA b t i' j' = SA b t 0 0)
    (h : Done mB mT b t i' j' k out s') : Done mB mT b t 0 0 (k + 1) out s' := by
  obtain ⟨hm, T', ho, hl, hv, hs⟩ := h
  refine ⟨hm, T', ho, ?_, hv, ?_⟩
  · have e2 : ¬ (i' = 0 ∧ j' = 0) := by omega
    simp only [e2, if_false, true_and, if_true] at hl ⊢
    omega
  · rw [hs, ha]

theorem Conv.cutB (hC : Conv V mB mT bi ti b t) (i j : Nat) (hi : i < mB) (hj : j < mT)
    (hij : 0 < i ∨ 0 < j) : 0 < orient (b i) (b (i + 1)) (t j) := by
  rcases Nat.eq_zero_or_pos j with rfl | hj0
  · rw [← hC.ch.p0]
    exact hC.ch.wB_0 i (by omega) hi
  · exact hC.ch.wB_T i hi j hj0 hj

theorem Conv.cutT (hC : Conv V mB mT bi ti b t) (i j : Nat) (hi : i < mB) (hj : j < mT)
    (hij : 0 < i ∨ 0 < j) : orient (t j) (t (j + 1)) (b i) < 0 := by
  rcases Nat.eq_zero_or_pos i with rfl | hi0
  · rw [hC.ch.p0]
    exact hC.ch.wT_0 j (by omega) hj
  · exact hC.ch.wT_B j hj i hi0 hi

theorem isVtx_b (k : Nat) (hk : k ≤ mB) : IsVtx mB mT b t (Fq (b k)) := Or.inl ⟨k, hk, rfl⟩
theorem isVtx_t (k : Nat) (hk : k ≤ mT) : IsVtx mB mT b t (Fq (t k)) := Or.inr ⟨k, hk, rfl⟩

/-- **the event loop from the state `(i, j)`** -/
theorem loop_from (hC : Conv V mB mT bi ti b t) :
    ∀ (k i j : Nat), i < mB → j < mT → (mB - 1 - i) + (mT - 1 - j) = k →
    ∀ (xs : Rat) (N : Array (Node XQ)) (rm iB iT : Nat) (evs : List (Nat × List Nat))
      (out : List Tri) (fuel : Nat),
      ChainOK b t i j N iB iT →
      (b i).1 ≤ xs → (t j).1 ≤ xs → xs < (b (i + 1)).1 → xs < (t (j + 1)).1 →
      QueueOK mB mT bi ti b t i j evs → k + 2 ≤ fuel →
      ∃ s', (loop fuel).run
          (stC V (.fin xs) N rm iB iT (Fq (b (i + 1))) (Fq (t (j + 1))) evs out) = .ok ((), s') ∧
        Done mB mT b t i j k out s' := by
  intro k
  induction k with
  | zero =>
    intro i j hi hj hk xs N rm iB iT evs out fuel hch x1 x2 x3 x4 hq hf
    have ei : i + 1 = mB := by omega
    have ej : j + 1 = mT := by omega
    have hpR : b (i + 1) = t (j + 1) := by rw [ei, ej]; exact hC.ch.pR
    have h3 := hC.three
    have hij : 0 < i ∨ 0 < j := by omega
    obtain ⟨fuel, rfl⟩ : ∃ f, fuel = f + 2 := ⟨fuel - 2, by omega⟩
    -- the queue
    have hes : ∃ es, evs = [(bi mB, es)] ∧ (es = [0, 1] ∨ es = [1, 0]) := by
      rcases hq with ⟨-, -, h | h⟩ | ⟨h, -⟩ | ⟨h, -⟩
      · exact ⟨_, h, Or.inl rfl⟩
      · exact ⟨_, h, Or.inr rfl⟩
      · rw [hpR] at h; exact absurd h (lt_irrefl _)
      · rw [hpR] at h; exact absurd h (lt_irrefl _)
    obtain ⟨es, rfl, hes⟩ := hes
    -- the chain
    rcases hch with ⟨rfl, rfl, -, -⟩ | ⟨-, hNB, hNT⟩
    · omega
    obtain ⟨n1, n2, hv, hn⟩ := hC.vR
    obtain ⟨a1, a2, hB⟩ := hC.lkB i (by omega)
    obtain ⟨a5, a6, hT⟩ := hC.lkT j (by omega)
    have hcut := hC.cutB i j hi hj hij
    have ho : orient (b i) (t j) (b (i + 1)) < 0 := by
      rw [orient_swap]; linarith
    have hn' : Nbrs n1 n2 (bi i) (ti j) := by
      have e1 : mB - 1 = i := by omega
      have e2 : mT - 1 = j := by omega
      rw [e1, e2] at hn; exact hn
    have hv' : V[bi mB]? = some ⟨Fq (b (i + 1)), n1, n2⟩ := by rw [ei]; exact hv
    have hrun := end_fin V N rm iB iT (b i) (t j) (b (i + 1)) (bi mB) (bi i) n1 n2 a1 a2 a5 a6 out
      xs (ti j) es hNB hNT hv' hn' hB hT hes x1 x2 x3 ho
    rw [← hpR]
    rw [loop_step_run hrun rfl, loop_succ_run]
    refine ⟨_, rfl, rfl, [sort3 (Fq (b i)) (Fq (t j)) (Fq (b (i + 1)))], rfl, ?_, ?_, ?_⟩
    · have : ¬ (i = 0 ∧ j = 0) := by omega
      simp [this]
    · intro tr htr
      simp only [List.mem_singleton] at htr
      subst htr
      refine ⟨triOK_sort3 (isVtx_b i (by omega)) (isVtx_t j (by omega)) (isVtx_b (i + 1) (by omega)), ?_⟩
      rw [triArea_sort3]; exact abs_pos.mpr (ne_of_lt ho)
    · simp only [areaSum, List.map_cons, List.map_nil, List.sum_cons, List.sum_nil, add_zero]
      rw [triArea_sort3, abs_of_neg ho]
      have := SA_stepE (b := b) (t := t) i j hpR
      unfold SAtot
      rw [← ei, ← ej]
      linarith
  | succ k ih =>
    intro i j hi hj hk xs N rm iB iT evs out fuel hch x1 x2 x3 x4 hq hf
    obtain ⟨fuel, rfl⟩ : ∃ f, fuel = f + 1 := ⟨fuel - 1, by omega⟩
    rcases hq with ⟨e1, e2, -⟩ | ⟨hlt, rfl⟩ | ⟨hlt, rfl⟩
    · omega
    · -- Bend on the bottom chain
      have hi1 : i + 1 < mB := by
        rcases Nat.lt_or_ge (i + 1) mB with h | h
        · exact h
        · exfalso
          have e : i + 1 = mB := by omega
          have := hC.xT_le_R (j + 1) (by omega)
          rw [e] at hlt; linarith
      obtain ⟨n1, n2, hv, hn⟩ := hC.vB i hi1
      obtain ⟨a1, a2, hB⟩ := hC.lkB i (by omega)
      obtain ⟨a5, a6, hrp⟩ := hC.lkB (i + 2) (by omega)
      obtain ⟨a7, a8, hO⟩ := hC.lkT (j + 1) (by omega)
      have hsame : (b (i + 2)).1 = (t (j + 1)).1 → b (i + 2) = t (j + 1) := by
        intro h
        obtain ⟨e1, e2⟩ := hC.pend_x (i + 2) (j + 1) (by omega) (by omega) (by omega) (by omega) h
        rw [e1, e2]; exact hC.ch.pR
      have hl : (b (i + 2)).1 < (t (j + 1)).1 → orient (t j) (t (j + 1)) (b (i + 2)) < 0 := by
        intro h
        have : i + 2 < mB := by
          rcases Nat.lt_or_ge (i + 2) mB with h' | h'
          · exact h'
          · exfalso
            have e : i + 2 = mB := by omega
            have := hC.xT_le_R (j + 1) (by omega)
            rw [e] at h; linarith
        exact hC.ch.wT_B j hj (i + 2) (by omega) this
      have hg : (t (j + 1)).1 < (b (i + 2)).1 → 0 < orient (b (i + 1)) (b (i + 2)) (t (j + 1)) := by
        intro h
        have : j + 1 < mT := by
          rcases Nat.lt_or_ge (j + 1) mT with h' | h'
          · exact h'
          · exfalso
            have e : j + 1 = mT := by omega
            have := hC.xB_le_R (i + 2) (by omega)
            rw [e, ← hC.ch.pR] at h; linarith
        exact hC.ch.wB_T (i + 1) hi1 (j + 1) (by omega) this
      have hq' := hC.queue_B (i + 1) j hi1 hj
      rcases hch with ⟨rfl, rfl, rfl, hN0⟩ | ⟨hij, hNB, hNT⟩
      · -- first Bend
        have hl' : (b (0 + 2)).1 < (t (0 + 1)).1 → orient (b 0) (t (0 + 1)) (b (0 + 2)) < 0 := by
          intro h; rw [hC.ch.p0]; exact hl h
        have hrun := bendB1_fin V (.fin xs) N rm (b (0 + 1)) (b (0 + 2)) (t (0 + 1)) (bi (0 + 1)) (bi 0)
          (bi (0 + 2)) (ti (0 + 1)) n1 n2 a1 a2 a5 a6 a7 a8 out iT (b 0) hN0 hv hn hB hrp hO
          (hC.ch.xB 0 (by omega)) (hC.ch.xB 1 (by omega)) (by rw [hC.ch.p0]; exact hC.ch.xT 0 (by omega))
          hlt hsame hl' hg
        rw [loop_step_run hrun rfl]
        have h0lt := lt_of_get hN0
        have c1 := appH_new N iT ⟨Fq (b 0), none, none⟩ (Fq (b (0 + 1))) h0lt
        have c2 := appH_old N iT ⟨Fq (b 0), none, none⟩ (Fq (b (0 + 1))) h0lt
        simp only [] at c2
        replace c2 := c2.trans (show _ = some (⟨Fq (t 0), some N.size, none⟩ : Node XQ) by rw [hC.ch.p0])
        obtain ⟨s', hs', hd⟩ := ih (0 + 1) 0 hi1 hj (by omega) (b (0 + 1)).1 _ N.size N.size iT _ out fuel
          (Or.inr ⟨Or.inl (by omega), c1, c2⟩) (le_refl _) (le_of_lt (lt_of_le_of_lt x2 x3))
          (hC.ch.xB 1 (by omega)) hlt hq' (by omega)
        refine ⟨s', hs', Done.step0 (i' := 0 + 1) (j' := 0) (Or.inl (by omega)) ?_ hd⟩
        have := SA_stepB (b := b) (t := t) 0 0
        have e : orient (b 0) (b (0 + 1)) (t 0) = 0 := by rw [← hC.ch.p0]; unfold orient; ring
        linarith
      · have hcut := hC.cutB i j hi hj hij
        have hrun := bendB_fin V (.fin xs) N rm iB iT (b i) (t j) (b (i + 1)) (b (i + 2)) (t (j + 1))
          (bi (i + 1)) (bi i) (bi (i + 2)) (ti (j + 1)) n1 n2 a1 a2 a5 a6 a7 a8 out hNB hNT hv hn hB
          hrp hO (hC.ch.xB i hi) (hC.ch.xB (i + 1) hi1) (hC.ch.xT j hj)
          (le_of_lt (lt_of_le_of_lt x2 x3)) hlt hcut hsame hl hg
        rw [loop_step_run hrun rfl]
        have hBlt := lt_of_get hNB
        have hTlt := lt_of_get hNT
        have c1 := cut_fst (appH N iB ⟨Fq (b i), none, some iT⟩ (Fq (b (i + 1)))) N.size iT
          ⟨Fq (b (i + 1)), none, some iB⟩ ⟨Fq (t j), some iB, none⟩
          (by simp [size_appH]) (Nat.ne_of_gt hTlt)
        have c3 := cut_snd (appH N iB ⟨Fq (b i), none, some iT⟩ (Fq (b (i + 1)))) N.size iT
          ⟨Fq (b (i + 1)), none, some iB⟩ ⟨Fq (t j), some iB, none⟩
          (by simp only [size_appH]; omega)
        simp only [] at c1 c3
        obtain ⟨s', hs', hd⟩ := ih (i + 1) j hi1 hj (by omega) (b (i + 1)).1 _ N.size N.size iT _ _ fuel
          (Or.inr ⟨Or.inl (by omega), c1, c3⟩) (le_refl _) (le_of_lt (lt_of_le_of_lt x2 x3))
          (hC.ch.xB (i + 1) hi1) hlt hq' (by omega)
        refine ⟨s', hs', Done.step (i' := i + 1) (j' := j) hij (Or.inl (by omega)) ?_ ?_ ?_ hd⟩
        · exact triOK_sort3 (isVtx_b (i + 1) (by omega)) (isVtx_b i (by omega)) (isVtx_t j (by omega))
        · rw [triArea_sort3, SA_stepB]
          have : orient (b (i + 1)) (b i) (t j) = - orient (b i) (b (i + 1)) (t j) := by
            unfold orient; ring
          rw [this, abs_neg, abs_of_pos hcut]
        · rw [SA_stepB]; exact hcut
    · -- Bend on the top chain
      have hj1 : j + 1 < mT := by
        rcases Nat.lt_or_ge (j + 1) mT with h | h
        · exact h
        · exfalso
          have e : j + 1 = mT := by omega
          have := hC.xB_le_R (i + 1) (by omega)
          rw [e, ← hC.ch.pR] at hlt; linarith
      obtain ⟨n1, n2, hv, hn⟩ := hC.vT j hj1
      obtain ⟨a1, a2, hB⟩ := hC.lkT j (by omega)
      obtain ⟨a5, a6, hrp⟩ := hC.lkT (j + 2) (by omega)
      obtain ⟨a7, a8, hO⟩ := hC.lkB (i + 1) (by omega)
      have hsame : (t (j + 2)).1 = (b (i + 1)).1 → t (j + 2) = b (i + 1) := by
        intro h
        obtain ⟨e1, e2⟩ := hC.pend_x (i + 1) (j + 2) (by omega) (by omega) (by omega) (by omega) h.symm
        rw [e1, e2]; exact hC.ch.pR.symm
      have hl : (t (j + 2)).1 < (b (i + 1)).1 → 0 < orient (b i) (b (i + 1)) (t (j + 2)) := by
        intro h
        have : j + 2 < mT := by
          rcases Nat.lt_or_ge (j + 2) mT with h' | h'
          · exact h'
          · exfalso
            have e : j + 2 = mT := by omega
            have := hC.xB_le_R (i + 1) (by omega)
            rw [e, ← hC.ch.pR] at h; linarith
        exact hC.ch.wB_T i hi (j + 2) (by omega) this
      have hg : (b (i + 1)).1 < (t (j + 2)).1 → orient (t (j + 1)) (t (j + 2)) (b (i + 1)) < 0 := by
        intro h
        have : i + 1 < mB := by
          rcases Nat.lt_or_ge (i + 1) mB with h' | h'
          · exact h'
          · exfalso
            have e : i + 1 = mB := by omega
            have := hC.xT_le_R (j + 2) (by omega)
            rw [e] at h; linarith
        exact hC.ch.wT_B (j + 1) hj1 (i + 1) (by omega) this
      have hq' := hC.queue_T i (j + 1) hi hj1
      rcases hch with ⟨rfl, rfl, rfl, hN0⟩ | ⟨hij, hNB, hNT⟩
      · -- first Bend
        have hl' : (t (0 + 2)).1 < (b (0 + 1)).1 → 0 < orient (t 0) (b (0 + 1)) (t (0 + 2)) := by
          intro h; rw [← hC.ch.p0]; exact hl h
        have hN0' : N[iT]? = some ⟨Fq (t 0), none, none⟩ := by rw [← hC.ch.p0]; exact hN0
        have hrun := bendT1_fin V (.fin xs) N rm (t (0 + 1)) (t (0 + 2)) (b (0 + 1)) (ti (0 + 1)) (ti 0)
          (ti (0 + 2)) (bi (0 + 1)) n1 n2 a1 a2 a5 a6 a7 a8 out iT (t 0) hN0' hv hn hB hrp hO
          (hC.ch.xT 0 (by omega)) (hC.ch.xT 1 (by omega)) (by rw [← hC.ch.p0]; exact hC.ch.xB 0 (by omega))
          hlt hsame hl' hg
        rw [loop_step_run hrun rfl]
        have h0lt := lt_of_get hN0'
        have c1 := appT_new N iT ⟨Fq (t 0), none, none⟩ (Fq (t (0 + 1))) h0lt
        have c2 := appT_old N iT ⟨Fq (t 0), none, none⟩ (Fq (t (0 + 1))) h0lt
        simp only [] at c2
        replace c2 := c2.trans (show _ = some (⟨Fq (b 0), none, some N.size⟩ : Node XQ) by rw [hC.ch.p0])
        obtain ⟨s', hs', hd⟩ := ih 0 (0 + 1) hi hj1 (by omega) (t (0 + 1)).1 _ N.size iT N.size _ out fuel
          (Or.inr ⟨Or.inr (by omega), c2, c1⟩) (le_of_lt (lt_of_le_of_lt x1 x4)) (le_refl _)
          hlt (hC.ch.xT 1 (by omega)) hq' (by omega)
        refine ⟨s', hs', Done.step0 (i' := 0) (j' := 0 + 1) (Or.inr (by omega)) ?_ hd⟩
        have := SA_stepT (b := b) (t := t) 0 0
        have e : orient (t 0) (t (0 + 1)) (b 0) = 0 := by rw [hC.ch.p0]; unfold orient; ring
        linarith
      · have hcut := hC.cutT i j hi hj hij
        have hrun := bendT_fin V (.fin xs) N rm iB iT (b i) (t j) (t (j + 1)) (t (j + 2)) (b (i + 1))
          (ti (j + 1)) (ti j) (ti (j + 2)) (bi (i + 1)) n1 n2 a1 a2 a5 a6 a7 a8 out hNB hNT hv hn hB
          hrp hO (hC.ch.xT j hj) (hC.ch.xT (j + 1) hj1) (hC.ch.xB i hi)
          (le_of_lt (lt_of_le_of_lt x1 x4)) hlt hcut hsame hl hg
        rw [loop_step_run hrun rfl]
        have hBlt := lt_of_get hNB
        have hTlt := lt_of_get hNT
        have c1 := cut_fst (appT N iT ⟨Fq (t j), some iB, none⟩ (Fq (t (j + 1)))) iB N.size
          ⟨Fq (b i), none, some iT⟩ ⟨Fq (t (j + 1)), some iT, none⟩
          (by simp only [size_appT]; omega) (Nat.ne_of_lt hBlt)
        have c3 := cut_snd (appT N iT ⟨Fq (t j), some iB, none⟩ (Fq (t (j + 1)))) iB N.size
          ⟨Fq (b i), none, some iT⟩ ⟨Fq (t (j + 1)), some iT, none⟩
          (by simp [size_appT])
        simp only [] at c1 c3
        obtain ⟨s', hs', hd⟩ := ih i (j + 1) hi hj1 (by omega) (t (j + 1)).1 _ N.size iB N.size _ _ fuel
          (Or.inr ⟨Or.inr (by omega), c1, c3⟩) (le_of_lt (lt_of_le_of_lt x1 x4)) (le_refl _)
          hlt (hC.ch.xT (j + 1) hj1) hq' (by omega)
        refine ⟨s', hs', Done.step (i' := i) (j' := j + 1) hij (Or.inr (by omega)) ?_ ?_ ?_ hd⟩
        · exact triOK_sort3 (isVtx_b i (by omega)) (isVtx_t j (by omega)) (isVtx_t (j + 1) (by omega))
        · rw [triArea_sort3, SA_stepT]
          have : orient (b i) (t j) (t (j + 1)) = orient (t j) (t (j + 1)) (b i) := by
            unfold orient; ring
          rw [this, abs_of_neg hcut]
        · rw [SA_stepT]; linarith

/-- **the whole event loop**: Start, `mB + mT - 2` Bends, End -/
theorem loop_conv (hC : Conv V mB mT bi ti b t) (fuel : Nat) (hf : mB + mT + 1 ≤ fuel) :
    ∃ s', (loop fuel).run (stQ V [(bi 0, [])]) = .ok ((), s') ∧ s'.mono = true ∧
      s'.out.length = mB + mT - 2 ∧ (∀ tr ∈ s'.out, TriOK mB mT b t tr ∧ 0 < triArea tr) ∧
      areaSum s'.out = SAtot mB mT b t := by
  have h3 := hC.three
  have hB := hC.ch.hB
  have hT := hC.ch.hT
  obtain ⟨fuel, rfl⟩ : ∃ f, fuel = f + 1 := ⟨fuel - 1, by omega⟩
  obtain ⟨l1, l2, hL, hl⟩ := hC.vL
  obtain ⟨a1, a2, h1⟩ := hC.lkB 1 hB
  obtain ⟨a3, a4, h2⟩ := hC.lkT 1 hT
  have xLB : (b 0).1 < (b 1).1 := hC.ch.xB 0 (by omega)
  have xLT : (b 0).1 < (t 1).1 := by rw [hC.ch.p0]; exact hC.ch.xT 0 (by omega)
  have ho : 0 < orient (b 0) (b 1) (t 1) := by
    rcases Nat.lt_or_ge 1 mT with h | h
    · exact hC.ch.wB_T 0 (by omega) 1 (by omega) h
    · have e : mT = 1 := by omega
      have := hC.ch.wB_R 0 (by omega)
      rw [hC.ch.pR, e] at this
      exact this
  have hrun := start_fin V (b 1) (t 1) (bi 1) a1 a2 (bi 0) (ti 1) l1 l2 a3 a4 (b 0) hL hl h1 h2
    xLB xLT ho
  rw [loop_step_run hrun rfl]
  obtain ⟨s', hs', hm, T', ho', hl', hv, ha⟩ := loop_from hC (mB + mT - 2) 0 0 (by omega) (by omega)
    (by omega) (b 0).1 #[⟨Fq (b 0), none, none⟩] 0 0 0 _ [] fuel
    (Or.inl ⟨rfl, rfl, rfl, rfl⟩) (le_refl _) (by rw [hC.ch.p0]) xLB xLT
    (hC.queue_T 0 0 (by omega) (by omega)) (by omega)
  refine ⟨s', hs', hm, ?_, ?_, ?_⟩
  · rw [ho']; simp only [List.append_nil]
    simp only [and_self, if_true] at hl'
    omega
  · rw [ho']; simpa using hv
  · rw [ho', List.append_nil, ha]
    unfold SA; simp only [chainSum]; rw [hC.ch.p0]; unfold cross; ring

end

end Cav.CvxLoop
