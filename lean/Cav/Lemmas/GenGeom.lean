/-
  General sweep invariant, part 4 (rational geometry): two non-vertical segments that do not meet
  keep their vertical order on their common abscissa range (`nc_lt`: the difference of the two
  heights is affine, so a change of sign gives an explicit meeting abscissa); the comparators of
  the model (`cmpEdgeP`, `partialCmpEdgeP`, the overlap tests `wobP`, `wotP`) in terms of heights.
-/
import Cav.Lemmas.GenQuery
import Cav.Lemmas.CvxFlows

set_option linter.unusedSimpArgs false
set_option linter.unusedVariables false

namespace Cav.GenGeom
open Cav Num Cav.Geo Cav.Sweep Cav.TriRun Cav.QuadRun Cav.TriGeom Cav.QuadGeom Cav.CvxFlows
open Cav.GenQuery

abbrev Q := Rat × Rat

/-! ### heights are affine -/

theorem lineY_eq (a b : Q) (h : a.1 < b.1) (x : Rat) :
    lineY a b x = a.2 + (b.2 - a.2) / (b.1 - a.1) * (x - a.1) := by
  have : b.1 - a.1 ≠ 0 := ne_of_gt (sub_pos.mpr h)
  unfold lineY
  field_simp
  ring

/-- the difference of two heights at a convex combination of two abscissae -/
theorem lineY_combo (a b : Q) (h : a.1 < b.1) (x y t : Rat) :
    lineY a b ((1 - t) * x + t * y) = (1 - t) * lineY a b x + t * lineY a b y := by
  rw [lineY_eq a b h, lineY_eq a b h, lineY_eq a b h]
  ring

/-- **no crossing**: `ab` strictly below `cd` at `x0`, and the two lines do not meet on
    `(x0, x1]`: then `ab` is strictly below `cd` at `x1` -/
theorem nc_lt (a b c d : Q) (hab : a.1 < b.1) (hcd : c.1 < d.1) (x0 x1 : Rat) (h01 : x0 ≤ x1)
    (h0 : lineY a b x0 < lineY c d x0)
    (hno : ∀ x, x0 < x → x ≤ x1 → lineY a b x ≠ lineY c d x) :
    lineY a b x1 < lineY c d x1 := by
  by_contra hcon
  have h1 : lineY c d x1 ≤ lineY a b x1 := not_lt.mp hcon
  rcases eq_or_lt_of_le h01 with heq | hlt
  · subst heq; exact absurd h0 (not_lt.mpr h1)
  · -- g0 > 0 ≥ g1 : the zero of the affine difference
    set g0 := lineY c d x0 - lineY a b x0 with hg0
    set g1 := lineY c d x1 - lineY a b x1 with hg1
    have p0 : 0 < g0 := by rw [hg0]; linarith
    have p1 : g1 ≤ 0 := by rw [hg1]; linarith
    have hden : 0 < g0 - g1 := by linarith
    set t := g0 / (g0 - g1) with ht
    have ht0 : 0 < t := div_pos p0 hden
    have ht1 : t ≤ 1 := by rw [ht, div_le_one hden]; linarith
    have hx : (1 - t) * x0 + t * x1 = x0 + t * (x1 - x0) := by ring
    have hxs0 : x0 < (1 - t) * x0 + t * x1 := by
      rw [hx]; have := mul_pos ht0 (sub_pos.mpr hlt); linarith
    have hxs1 : (1 - t) * x0 + t * x1 ≤ x1 := by
      rw [hx]
      have : t * (x1 - x0) ≤ 1 * (x1 - x0) := mul_le_mul_of_nonneg_right ht1 (le_of_lt (sub_pos.mpr hlt))
      linarith
    apply hno _ hxs0 hxs1
    rw [lineY_combo a b hab, lineY_combo c d hcd]
    have key : (1 - t) * g0 + t * g1 = 0 := by
      rw [ht]
      field_simp
      ring
    rw [hg0, hg1] at key
    linarith

/-- if the strict order at `x0` is not kept at `x1`, the two lines meet in between -/
theorem nc_meet (a b c d : Q) (hab : a.1 < b.1) (hcd : c.1 < d.1) (x0 x1 : Rat) (h01 : x0 ≤ x1)
    (h0 : lineY a b x0 < lineY c d x0) (h1 : ¬ lineY a b x1 < lineY c d x1) :
    ∃ x, x0 < x ∧ x ≤ x1 ∧ lineY a b x = lineY c d x := by
  by_contra hcon
  apply h1
  apply nc_lt a b c d hab hcd x0 x1 h01 h0
  intro x hx0 hx1 he
  exact hcon ⟨x, hx0, hx1, he⟩

/-- the same with `ab` above -/
theorem nc_gt (a b c d : Q) (hab : a.1 < b.1) (hcd : c.1 < d.1) (x0 x1 : Rat) (h01 : x0 ≤ x1)
    (h0 : lineY c d x0 < lineY a b x0)
    (hno : ∀ x, x0 < x → x ≤ x1 → lineY a b x ≠ lineY c d x) :
    lineY c d x1 < lineY a b x1 :=
  nc_lt c d a b hcd hab x0 x1 h01 h0 (fun x h1 h2 e => hno x h1 h2 e.symm)

/-- two lines out of the same left point: the order to the right of it is the sign of the
    orientation determinant -/
theorem fan_lt (a b d : Q) (hab : a.1 < b.1) (had : a.1 < d.1) (x : Rat) (hx : a.1 < x)
    (ho : 0 < orient a b d) : lineY a b x < lineY a d x := by
  have h := lineY_sub_sameL a b d x hab had
  have : 0 < (x - a.1) * orient a b d / ((b.1 - a.1) * (d.1 - a.1)) :=
    pos_div (mul_pos (sub_pos.mpr hx) ho) (mul_pos (sub_pos.mpr hab) (sub_pos.mpr had))
  linarith

/-! ### the comparators of the model through heights -/

/-- strictly lower at the sweep abscissa: `.lt` / `.gt` -/
theorem cmpE_lt (a b c d : Q) (x : Rat) (hab : a.1 < b.1) (hcd : c.1 < d.1)
    (ha : a.1 ≤ x) (hb : x ≤ b.1) (hc : c.1 ≤ x) (hd : x ≤ d.1)
    (h : lineY a b x < lineY c d x) :
    cmpEdgeP (Fq a) (Fq b) (Fq c) (Fq d) (.fin x) = .lt :=
  cmpEdgeP_y_lt (yE_in a b x hab ha hb) (yE_in c d x hcd hc hd) h

theorem cmpE_gt (a b c d : Q) (x : Rat) (hab : a.1 < b.1) (hcd : c.1 < d.1)
    (ha : a.1 ≤ x) (hb : x ≤ b.1) (hc : c.1 ≤ x) (hd : x ≤ d.1)
    (h : lineY c d x < lineY a b x) :
    cmpEdgeP (Fq a) (Fq b) (Fq c) (Fq d) (.fin x) = .gt :=
  cmpEdgeP_y_gt (yE_in a b x hab ha hb) (yE_in c d x hcd hc hd) h

theorem partialCmp_lt (a b c d : Q) (x : Rat) (hab : a.1 < b.1) (hcd : c.1 < d.1)
    (ha : a.1 ≤ x) (hb : x ≤ b.1) (hc : c.1 ≤ x) (hd : x ≤ d.1)
    (h : lineY a b x < lineY c d x) :
    partialCmpEdgeP (Fq a) (Fq b) (Fq c) (Fq d) (.fin x) = some .lt := by
  unfold partialCmpEdgeP
  simp only [isFinite_fin, Bool.not_true, Bool.false_eq_true, if_false, yE_in a b x hab ha hb,
    yE_in c d x hcd hc hd, ofCmp_fin, if_pos h]

/-- the overlap test of an edge `p → rp` against its bottom partner `lb → rb` which is below it
    up to the smaller of the two right abscissae -/
theorem wobP_false (p rp lb rb : Q) (hpr : p.1 < rp.1) (hlr : lb.1 < rb.1) (hlp : lb.1 ≤ p.1)
    (hprb : p.1 < rb.1)
    (hsame : rp.1 = rb.1 → rp = rb)
    (hlt : rp.1 < rb.1 → 0 < orient lb rb rp) (hgt : rb.1 < rp.1 → orient p rp rb < 0) :
    wobP (Fq p) (Fq rp) (Fq lb) (Fq rb) = false := by
  obtain ⟨o1, o2⟩ := ovT lb p rp rb hpr hlr hlp hprb hsame hlt hgt
  unfold wobP
  cases hx : ofEq (Fq rp).x (Fq rb).x
  · simp only [Bool.false_eq_true, if_false]
    have e : minTotal (Fq rp).x (Fq rb).x = XQ.fin (min rp.1 rb.1) := minTotal_fin _ _
    rw [e, o2 hx]; rfl
  · simp only [if_true]
    exact o1 hx

/-- the overlap test of an edge `p → rp` against its top partner `lt → rt` which is above it -/
theorem wotP_false (p rp lt rt : Q) (hpr : p.1 < rp.1) (hlr : lt.1 < rt.1) (hlp : lt.1 ≤ p.1)
    (hprt : p.1 < rt.1)
    (hsame : rp.1 = rt.1 → rp = rt)
    (hlt : rp.1 < rt.1 → orient lt rt rp < 0) (hgt : rt.1 < rp.1 → 0 < orient p rp rt) :
    wotP (Fq p) (Fq rp) (Fq lt) (Fq rt) = false := by
  obtain ⟨o1, o2⟩ := ovB lt p rp rt hpr hlr hlp hprt hsame hlt hgt
  unfold wotP
  cases hx : ofEq (Fq rp).x (Fq rt).x
  · simp only [Bool.false_eq_true, if_false]
    have e : minTotal (Fq rp).x (Fq rt).x = XQ.fin (min rp.1 rt.1) := minTotal_fin _ _
    rw [e, o2 hx]; rfl
  · simp only [if_true]
    exact o1 hx

/-- a point above a line, as an orientation determinant -/
theorem orient_pos_of_above (a b s : Q) (h : a.1 < b.1) (hs : lineY a b s.1 < s.2) :
    0 < orient a b s := by
  have e := pt_sub_lineY a b s h
  have hd : 0 < b.1 - a.1 := sub_pos.mpr h
  have : 0 < orient a b s / (b.1 - a.1) := by rw [← e]; linarith
  exact (div_pos_iff_of_pos_right hd).mp this

theorem orient_neg_of_below (a b s : Q) (h : a.1 < b.1) (hs : s.2 < lineY a b s.1) :
    orient a b s < 0 := by
  have e := pt_sub_lineY a b s h
  have hd : 0 < b.1 - a.1 := sub_pos.mpr h
  have : orient a b s / (b.1 - a.1) < 0 := by rw [← e]; linarith
  by_contra hc
  have := div_nonneg (not_lt.mp hc) (le_of_lt hd)
  linarith

theorem above_of_orient_pos (a b s : Q) (h : a.1 < b.1) (ho : 0 < orient a b s) :
    lineY a b s.1 < s.2 := by
  have e := pt_sub_lineY a b s h
  have : 0 < orient a b s / (b.1 - a.1) := div_pos ho (sub_pos.mpr h)
  linarith

theorem below_of_orient_neg (a b s : Q) (h : a.1 < b.1) (ho : orient a b s < 0) :
    s.2 < lineY a b s.1 := by
  have e := pt_sub_lineY a b s h
  have : orient a b s / (b.1 - a.1) < 0 := div_neg_of_neg_of_pos ho (sub_pos.mpr h)
  linarith

end Cav.GenGeom
