/-
  General sweep invariant, part 19: the proper Start event from an arbitrary state, all four
  cases (partners present or not) in one statement (`start_run_proper`); the resulting edge array
  is described by `ProperEdges`.
-/
import Cav.Lemmas.GenStart3

set_option linter.unusedSimpArgs false
set_option linter.unusedVariables false
set_option linter.unusedSectionVars false

namespace Cav.GenStart
open Cav Num Cav.Sweep Cav.SweepRun Cav.TriRun Cav.QuadRun Cav.CvxHeap Cav.CvxEvents Cav.SweepOut
open Cav.GenNodes Cav.GenQuery Cav.GenActive Cav.GenBend Cav.SweepHeap Cav.TriEvents

variable {α : Type} [Num α]

/-- the edge array after a proper Start: the new edges `D`, `D + 1` of the new chain `C`, linked
    to the partners `bP` (below) and `tP` (above); all other cells untouched -/
structure ProperEdges (E E' : Array (Edge α)) (C : Nat) (pB pT : Pt α) (bP tP : Option Nat) : Prop where
  bot : E'[E.size]? = some ⟨pB, C, true, bP, some (E.size + 1)⟩
  top : E'[E.size + 1]? = some ⟨pT, C, false, some E.size, tP⟩
  fr : ∀ k, k < E.size → bP ≠ some k → tP ≠ some k → E'[k]? = E[k]?
  bb : ∀ k c, bP = some k → E[k]? = some c → E'[k]? = some { c with tPart := some E.size }
  tt : ∀ k c, tP = some k → E[k]? = some c → E'[k]? = some { c with bPart := some (E.size + 1) }

section arrays
variable (E : Array (Edge α)) (pB pT : Pt α) (C bb tt : Nat) (cbb ctt : Edge α)

theorem properEdges_nn : ProperEdges E (linkEnn E pB pT C) C pB pT none none := by
  refine ⟨?_, ?_, ?_, fun _ _ h => (by cases h), fun _ _ h => (by cases h)⟩
  · lk_ne; lk_self
  · lk_self
  · intro k hk _ _
    lk_ne; lk_ne
    exact startEdges_old _ _ _ _ hk

theorem properEdges_ns (ht : tt < E.size) (hct : E[tt]? = some ctt) (hf : ctt.bofIn = true) :
    ProperEdges E (linkEns E pB pT C tt ctt) C pB pT none (some tt) := by
  refine ⟨?_, ?_, ?_, fun _ _ h => (by cases h), ?_⟩
  · lk_ne; lk_ne; lk_self
  · lk_ne; rw [Array.getElem?_setIfInBounds_self_of_lt (by simp [startEdges] <;> omega), hf]; rfl
  · intro k hk _ h2
    have : tt ≠ k := fun e => h2 (by rw [e])
    rw [Array.getElem?_setIfInBounds_ne this]
    lk_ne; lk_ne
    exact startEdges_old _ _ _ _ hk
  · intro k c hk hc
    cases hk
    rw [hct] at hc; cases hc
    lk_self

theorem properEdges_sn (hb : bb < E.size) (hcb : E[bb]? = some cbb) (hf : cbb.bofIn = false) :
    ProperEdges E (linkEsn E pB pT C bb cbb) C pB pT (some bb) none := by
  refine ⟨?_, ?_, ?_, ?_, fun _ _ h => (by cases h)⟩
  · lk_ne; lk_ne; rw [Array.getElem?_setIfInBounds_self_of_lt (by simp [startEdges] <;> omega), hf]; rfl
  · lk_self
  · intro k hk h1 _
    have : bb ≠ k := fun e => h1 (by rw [e])
    lk_ne
    rw [Array.getElem?_setIfInBounds_ne this]
    lk_ne
    exact startEdges_old _ _ _ _ hk
  · intro k c hk hc
    cases hk
    rw [hcb] at hc; cases hc
    lk_ne; lk_self

theorem properEdges_ss (hb : bb < E.size) (ht : tt < E.size) (hbt : bb ≠ tt)
    (hcb : E[bb]? = some cbb) (hct : E[tt]? = some ctt) (hf1 : cbb.bofIn = false)
    (hf2 : ctt.bofIn = true) :
    ProperEdges E (linkEe E pB pT C bb tt cbb ctt) C pB pT (some bb) (some tt) := by
  refine ⟨?_, ?_, ?_, ?_, ?_⟩
  · rw [linkEe_D E pB pT C bb tt cbb ctt hb ht, hf1]; rfl
  · rw [linkEe_D1 E pB pT C bb tt cbb ctt ht, hf2]; rfl
  · intro k hk h1 h2
    exact linkEe_old E pB pT C bb tt cbb ctt hk (fun e => h1 (by rw [e])) (fun e => h2 (by rw [e]))
  · intro k c hk hc
    cases hk
    rw [hcb] at hc; cases hc
    exact linkEe_bb E pB pT C bb tt cbb ctt hb ht hbt
  · intro k c hk hc
    cases hk
    rw [hct] at hc; cases hc
    exact linkEe_tt E pB pT C bb tt cbb ctt ht

end arrays

section
variable (s : St α) (vi lp1 lp2 lpB lpT a1 a2 a3 a4 : Nat) (es : List Nat)
  (rest : List (Nat × List Nat)) (p pB pT : Pt α) (P Q : List Nat) (L Rr : Nat → Pt α)

/-- comparison of two stored edges at the abscissa `x` -/
abbrev CmpLt (L Rr : Nat → Pt α) (x : α) (a b : Nat) : Prop :=
  cmpEdgeP (L a) (Rr a) (L b) (Rr b) x = .lt ∧ cmpEdgeP (L b) (Rr b) (L a) (Rr a) x = .gt

/-- **the proper Start event from an arbitrary state** -/
theorem start_run_proper
    (hev : s.events = (vi, es) :: rest)
    (hv : s.verts[vi]? = some ⟨p, lp1, lp2⟩) (hn : Nbrs lp1 lp2 lpB lpT)
    (hB : s.verts[lpB]? = some ⟨pB, a1, a2⟩) (hT : s.verts[lpT]? = some ⟨pT, a3, a4⟩)
    (hs1 : fromTriplet p pB pT = some .start) (hs2 : fromTriplet p pT pB = some .start)
    (hxB : ofEq pB.x p.x = false) (hxT : ofEq pT.x p.x = false)
    (hc1 : cmpEdgeP p pB p pT p.x = .lt) (hc2 : cmpEdgeP p pT p pB p.x = .gt)
    (hevs : ∀ a ∈ rest, a.1 < s.verts.size)
    (hm : s.mono = true) (hact : s.active = P ++ Q)
    (hG : ∀ k ∈ P ++ Q, EG s k (L k) (Rr k))
    (hPB : ∀ k ∈ P, cmpEdgeP p pB (L k) (Rr k) p.x = .gt)
    (hQB : ∀ k ∈ Q, cmpEdgeP p pB (L k) (Rr k) p.x = .lt)
    (hPT : ∀ k ∈ P, cmpEdgeP p pT (L k) (Rr k) p.x = .gt)
    (hQT : ∀ k ∈ Q, cmpEdgeP p pT (L k) (Rr k) p.x = .lt)
    (hpw : (P ++ Q).Pairwise (CmpLt L Rr p.x))
    (hself : ∀ k ∈ P ++ Q, cmpEdgeP (L k) (Rr k) (L k) (Rr k) p.x = .eq)
    (hbb : ∀ bb, P.getLast? = some bb → ∃ cbb, s.edges[bb]? = some cbb ∧ cbb.bofIn = false ∧
      wobP p pB (L bb) (Rr bb) = false)
    (htt : ∀ tt, Q.head? = some tt → ∃ ctt, s.edges[tt]? = some ctt ∧ ctt.bofIn = true ∧
      wotP p pT (L tt) (Rr tt) = false)
    (hpc : ∀ bb tt, P.getLast? = some bb → Q.head? = some tt → bb ≠ tt ∧
      partialCmpEdgeP (L bb) (Rr bb) (L tt) (Rr tt) p.x = some .lt) :
    ∃ E', (handleNext : SM α Unit).run s = .ok ((),
        startRes s lpB lpT rest p pB pT E' (P ++ s.edges.size :: (s.edges.size + 1) :: Q)) ∧
      ProperEdges s.edges E' s.chains.size pB pT P.getLast? Q.head? := by
  rcases List.eq_nil_or_concat P with hP | ⟨P', bb, hP⟩
  · -- nothing below
    cases Q with
    | nil =>
      subst hP
      refine ⟨_, ?_, properEdges_nn s.edges pB pT s.chains.size⟩
      exact start_run_nn s vi lp1 lp2 lpB lpT a1 a2 a3 a4 es rest p pB pT hev hv hn hB hT hs1 hs2 hxB hxT
        hc1 hc2 hevs hm (by simpa using hact)
    | cons tt Q' =>
      obtain ⟨ctt, httc, httf, hwot⟩ := htt tt rfl
      have hpwQ : (tt :: Q').Pairwise (CmpLt L Rr p.x) := by
        rw [hP] at hpw; simpa using hpw
      refine ⟨_, start_run_ns s vi lp1 lp2 lpB lpT a1 a2 a3 a4 es rest p pB pT P (tt :: Q') L Rr Q' tt ctt
        hev hv hn hB hT hs1 hs2 hxB hxT hc1 hc2 hevs hm hP rfl hact hG hQB hQT httc ?_ ?_ ?_ hwot, ?_⟩
      · intro k hk; rw [hP] at hk; cases hk
      · exact hself tt (by simp)
      · intro k hk
        exact ((List.pairwise_cons.mp hpwQ).1 k hk).1
      · rw [hP]
        exact properEdges_ns s.edges pB pT s.chains.size tt ctt (lt_of_get' httc) httc httf
  · rw [List.concat_eq_append] at hP
    have hlast : P.getLast? = some bb := by rw [hP]; simp
    obtain ⟨cbb, hbbc, hbbf, hwob⟩ := hbb bb hlast
    have hpw' : (P' ++ bb :: Q).Pairwise (CmpLt L Rr p.x) := by
      rw [hP] at hpw; simpa using hpw
    rw [List.pairwise_append] at hpw'
    obtain ⟨-, hpwbQ, hcross⟩ := hpw'
    have hbbP : ∀ k ∈ P', cmpEdgeP (L bb) (Rr bb) (L k) (Rr k) p.x = .gt :=
      fun k hk => (hcross k hk bb List.mem_cons_self).2
    have hbbQ : ∀ k ∈ Q, cmpEdgeP (L bb) (Rr bb) (L k) (Rr k) p.x = .lt :=
      fun k hk => ((List.pairwise_cons.mp hpwbQ).1 k hk).1
    have hbbS := hself bb (by rw [hP]; simp)
    cases Q with
    | nil =>
      refine ⟨_, start_run_sn s vi lp1 lp2 lpB lpT a1 a2 a3 a4 es rest p pB pT P [] L Rr P' bb cbb
        hev hv hn hB hT hs1 hs2 hxB hxT hc1 hc2 hevs hm hP rfl hact hG hPB hPT hbbc hbbP hbbS hbbQ hwob, ?_⟩
      rw [hlast]
      exact properEdges_sn s.edges pB pT s.chains.size bb cbb (lt_of_get' hbbc) hbbc hbbf
    | cons tt Q' =>
      obtain ⟨ctt, httc, httf, hwot⟩ := htt tt rfl
      obtain ⟨hbt, hpc'⟩ := hpc bb tt hlast rfl
      have httP : ∀ k ∈ P, cmpEdgeP (L tt) (Rr tt) (L k) (Rr k) p.x = .gt := by
        intro k hk
        rw [hP] at hk
        rcases List.mem_append.mp hk with hk | hk
        · exact (hcross k hk tt (by simp)).2
        · simp only [List.mem_singleton] at hk
          subst hk
          exact ((List.pairwise_cons.mp hpwbQ).1 tt List.mem_cons_self).2
      have httQ : ∀ k ∈ Q', cmpEdgeP (L tt) (Rr tt) (L k) (Rr k) p.x = .lt := by
        intro k hk
        have := (List.pairwise_cons.mp hpwbQ).2
        exact ((List.pairwise_cons.mp this).1 k hk).1
      refine ⟨_, start_run_ss s vi lp1 lp2 lpB lpT a1 a2 a3 a4 es rest p pB pT P (tt :: Q') L Rr P' Q' bb tt
        cbb ctt hev hv hn hB hT hs1 hs2 hxB hxT hc1 hc2 hevs hm hP rfl hact hG hPB hQB hPT hQT hbbc httc
        hbbf hbt hbbP hbbS hbbQ httP (hself tt (by simp)) httQ hpc' hwob hwot, ?_⟩
      rw [hlast]
      exact properEdges_ss s.edges pB pT s.chains.size bb tt cbb ctt (lt_of_get' hbbc) (lt_of_get' httc) hbt
        hbbc httc hbbf httf

end

end Cav.GenStart
