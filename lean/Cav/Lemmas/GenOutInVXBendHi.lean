/-
  Tiling WITHOUT the hypothesis of distinct abscissae: copy of `GenOutVXBendHi.xbendV_hi` with the generic
  identity `GenFV` in addition (the clause is the one of `GenOutInXBendHi.lean`, for the sheared ring).
-/
import Cav.Lemmas.GenOutXBendHi
import Cav.Lemmas.GenOutVXBend
import Cav.Lemmas.GenOutInVDefs
import Cav.Lemmas.GenOutVXBendHi

set_option linter.unusedVariables false
set_option linter.unusedSimpArgs false

namespace Cav.GenOutInV
open Cav Num Cav.Geo Cav.Sweep Cav.TriRun Cav.QuadRun Cav.QuadGeom Cav.SweepOut Cav.CvxEvents Cav.CvxLoop
open Cav.CvxHeap Cav.GenNodes Cav.GenInv Cav.GenQueue Cav.MonoGeom Cav.MonoHeap Cav.MonoFan Cav.GenOutShape
open Cav.GenOutDefs Cav.GenLinks Cav.GenOrder Cav.GenOutInv Cav.GenOutCount Cav.GenOutAux
open Cav.GenOutStepAux Cav.GenOutFan Cav.GenOutXBend
open Cav.GenVShear Cav.GenVBridge Cav.GenVInv Cav.GenOutV
open Cav.GenOutVX Cav.GenOutIn
open Cav.GenGeom hiding Q

variable {R : RingQ} {ε : Rat} {Vε : Array (Vtx XQ)}

/-- **Bend on the upper edge of an in-interval**, equal abscissae allowed -/
theorem xbendV_hiT (hSh : ShOK R ε Vε) {s : St XQ} {xs X : Rat} {pre post : List IV} {iv : IV}
    {G : Nat → CH} (hT : XInvTV R ε s xs X (pre ++ iv :: post) G)
    {w : Nat} {es : List Nat} {rest : List (Nat × List Nat)} (hev : s.events = (w, es) :: rest)
    {u w' : Nat} (hnb : (R.prv w = u ∧ R.nxt w = w') ∨ (R.prv w = w' ∧ R.nxt w = u))
    (hxu : (shearRing ε R).x u < (shearRing ε R).x w) (hxw' : (shearRing ε R).x w < (shearRing ε R).x w')
    (hB : BendHiV R ε s pre iv post u w w') :
    ∃ s' G', (handleNext : SM XQ Unit).run s = .ok ((), s') ∧
      XInvTV R ε s' ((shearRing ε R).x w) (R.x w) (pre ++ ⟨iv.lo, ⟨iv.hi.id, w, w'⟩, iv.ci⟩ :: post) G' := by
  have hX := hT.base
  obtain ⟨hlv, hrv, c, h, smid, N2, out2, s', hc, hh, hsn, hso, hbt, hrun, hs'n, hs'o, hs'c, hI'⟩ := hB
  rw [← FqU_pt ε R w] at hsn
  have hI := hX.inv
  have hR := hSh.ring
  have hnb' : ((shearRing ε R).prv w = u ∧ (shearRing ε R).nxt w = w') ∨
      ((shearRing ε R).prv w = w' ∧ (shearRing ε R).nxt w = u) := hnb
  have hq := hI.q
  rw [hev] at hq
  have hwq := hq.gt (w, es) List.mem_cons_self
  have hwn : w < (shearRing ε R).n := hwq.1
  have hxs : xs < (shearRing ε R).x w := hwq.2
  have hgap := no_gap hR hq hI.cross
  have hmem : iv ∈ pre ++ iv :: post := by simp
  have hok := hX.ok iv hmem
  obtain ⟨ch, hch, hhd, htl, hrm⟩ := hok.cell
  rw [hc] at hch
  cases hch
  obtain ⟨hc1, hc2, hc3⟩ := Linked.mid hI.lk
  obtain ⟨hhdpt, htlpt⟩ := hok.ends hc3
  have hsh := hok.shape
  have hflags := hX.flags iv hmem
  have hlo_mem : iv.lo ∈ flatE (pre ++ iv :: post) := by simp
  have hhi_mem : iv.hi ∈ flatE (pre ++ iv :: post) := by simp
  have hsp_lo := hI.span iv.lo hlo_mem
  -- the fan
  have he0 : ((G iv.ci).up.map Prod.snd).getLast? = some ((shearRing ε R).pt iv.hi.lv) := by
    rw [List.getLast?_map, (G iv.ci).up_last, Option.map_some, htlpt]
  have hside : ∀ q ∈ ((G iv.ci).up.map Prod.snd).dropLast,
      0 < (-1 : Rat) * orient ((shearRing ε R).pt iv.hi.lv) ((shearRing ε R).pt w) q := by
    intro q hq
    have := hsh.belowHi q hq
    rw [hrv] at this
    linarith
  have hnn : NoTurn (-(-1 : Rat)) ((G iv.ci).up.map Prod.snd) := by
    rw [neg_neg]; exact hsh.ntY
  obtain ⟨dr, g, rest0, hsplitX, hfan, hstop, hxd', hnt'⟩ := fan_view (-1) ((shearRing ε R).pt w) (G iv.ci).Y (G iv.ci).m
    (G iv.ci).X ((shearRing ε R).pt iv.hi.lv) hsh.xdY hsh.xdX hnn hsh.ntX (lt_of_le_of_lt hsh.mx hxs) he0 hside
  -- the chain as a list, read from the tail
  have hlr : (G iv.ci).l.reverse = ((G iv.ci).Y.reverse ++ dr) ++ g :: rest0 := by
    rw [CH.l_rev, hsplitX]; simp
  obtain ⟨tl0, htl0⟩ := rev_cons_tl (G iv.ci)
  have hseg0 : SegR s.nodes none (((G iv.ci).tl.1, FqU ε (G iv.ci).tl.2) :: hpU ε tl0) none := by
    have := segR_of_okU hok.seg
    rw [htl0] at this; exact this
  have hhnode : h = ⟨FqU ε (G iv.ci).tl.2, nxtOf (hpU ε tl0) none, none⟩ := by
    have := hseg0.1
    rw [← htl, hh] at this
    exact Option.some.inj this
  have hndl : ((((G iv.ci).tl.1, FqU ε (G iv.ci).tl.2) :: hpU ε tl0).map Prod.fst).Nodup := by
    have : ((hpU ε ((G iv.ci).tl :: tl0)).map Prod.fst).Nodup := by
      rw [hpU_fst, ← htl0, List.map_reverse]
      exact List.nodup_reverse.mpr (nd_self hX.nd)
    exact this
  have hsplit : ((G iv.ci).tl.1, FqU ε (G iv.ci).tl.2) :: hpU ε tl0 =
      hpU ε ((G iv.ci).Y.reverse ++ dr) ++ (g.1, FqU ε g.2) :: hpU ε rest0 := by
    rw [← hpU_cons, ← htl0, hlr, hpU_append]; rfl
  obtain ⟨N', hrun', hseg', hsz', hfr'⟩ := fan_tail_fr (N := s.nodes) (FqU ε ((shearRing ε R).pt w)) smid
    ⟨s.nodes.size, c.head, s.nodes.size⟩ (by rw [hsn, htl, hhnode]) rfl hseg0 hndl hsplit
    (fanB_hpU _ _ _ hfan) (stopB_hpU _ _ _ hxd' hstop)
  obtain ⟨eN, eo⟩ := run_inj hbt hrun'
  obtain ⟨ta, tlen⟩ := trisB_hpU _ _ _ hfan
  -- the new description
  refine ⟨s', Function.update G iv.ci ⟨g :: rest0, (s.nodes.size, (shearRing ε R).pt w), []⟩, hrun, ?_⟩
  have hcine := ci_ne_mid hI.cind
  have hGo : ∀ j ∈ pre ++ post, Function.update G iv.ci ⟨g :: rest0, (s.nodes.size, (shearRing ε R).pt w), []⟩ j.ci = G j.ci :=
    fun j hj => Function.update_of_ne (hcine j hj) _ _
  have hGs : Function.update G iv.ci ⟨g :: rest0, (s.nodes.size, (shearRing ε R).pt w), []⟩ iv.ci =
      ⟨g :: rest0, (s.nodes.size, (shearRing ε R).pt w), []⟩ := Function.update_self _ _ _
  have hjm : ∀ j ∈ pre ++ post, j ∈ pre ++ iv :: post := by
    intro j hj
    rcases List.mem_append.mp hj with h | h
    · exact List.mem_append_left _ h
    · exact List.mem_append_right _ (List.mem_cons_of_mem _ h)
  have hothers : ∀ j ∈ pre ++ post, ChainOKV R ε s' ((shearRing ε R).x w) j
      (Function.update G iv.ci ⟨g :: rest0, (s.nodes.size, (shearRing ε R).pt w), []⟩ j.ci) := by
    intro j hj
    refine other_okV hX (le_of_lt hxs) (hjm j hj) (hGo j hj) ?_ ?_
    · rw [hs'c]; exact Array.getElem?_setIfInBounds_ne (Ne.symm (hcine j hj))
    · intro x hx
      rw [hs'n, eN]
      apply hfr' x.1 (SegU.idx_lt (hX.ok j (hjm j hj)).seg x hx)
      intro y hy
      have hy' : y ∈ hpU ε (G iv.ci).l.reverse := by rw [htl0]; exact hy
      obtain ⟨y0, hy0, rfl⟩ := List.mem_map.mp hy'
      exact fun e => nd_disj hX.nd j hj x hx y0 (List.mem_reverse.mp hy0) e.symm
  have hflat' : flatE (pre ++ (⟨iv.lo, ⟨iv.hi.id, w, w'⟩, iv.ci⟩ : IV) :: post) =
      flatE pre ++ iv.lo :: (⟨iv.hi.id, w, w'⟩ : AE) :: flatE post := by simp
  have hbelow : Below (shearRing ε R) ((shearRing ε R).x w) iv.lo ⟨iv.hi.id, w, w'⟩ := by
    have := hI'.sorted
    rw [hflat', List.pairwise_append] at this
    exact (List.pairwise_cons.mp this.2.1).1 _ List.mem_cons_self
  have hlone : iv.lo.lv ≠ w := by
    intro e
    have := hsp_lo.le
    rw [e] at this
    exact absurd hxs (not_lt.mpr this)
  have hwabove := pt_above hbelow hlone hsp_lo.lt
  have hhiNew : ¬ isLo (shearRing ε R) w w' :=
    isLo_hiV hSh (iv := (⟨iv.lo, ⟨iv.hi.id, w, w'⟩, iv.ci⟩ : IV)) hI' rfl
  have hhiOld : ¬ isLo (shearRing ε R) u w := by have := hflags.2; rwa [hlv, hrv] at this
  refine ⟨⟨hI', ?_, ?_, ?_, ?_, ?_, ?_, fun h => absurd h (by simp), ?_⟩, ?_⟩
  · -- chains
    intro j hj
    rcases List.mem_append.mp hj with hj | hj
    · exact hothers j (List.mem_append_left _ hj)
    · rcases List.mem_cons.mp hj with rfl | hj
      · show ChainOKV R ε s' ((shearRing ε R).x w) _ (Function.update G iv.ci _ iv.ci)
        rw [hGs]
        refine ⟨⟨⟨s.nodes.size, c.head, s.nodes.size⟩, ?_, ?_, rfl, rfl⟩, ?_, ?_⟩
        · rw [hs'c]; exact Array.getElem?_setIfInBounds_self_of_lt (lt_of_get' hc)
        · show c.head = (lastD (s.nodes.size, (shearRing ε R).pt w) (g :: rest0)).1
          rw [hhd]
          show (lastD (G iv.ci).m (G iv.ci).X).1 = (lastD g rest0).1
          rw [lastD_suffix hsplitX]
        · rw [hs'n, eN]
          have : hpU ε (CH.l ⟨g :: rest0, (s.nodes.size, (shearRing ε R).pt w), []⟩) =
              ((s.nodes.size, FqU ε ((shearRing ε R).pt w)) :: (g.1, FqU ε g.2) :: hpU ε rest0).reverse := by
            simp [CH.l, hpU]
          rw [this]; exact (segR_iff_seg _ _ _ _).mp hseg'
        · refine ⟨hxd', trivial, hnt', trivial, le_refl _, ?_, by simp [CH.up]⟩
          intro q hq
          have e : (CH.dn ⟨g :: rest0, (s.nodes.size, (shearRing ε R).pt w), []⟩).map Prod.snd =
              (shearRing ε R).pt w :: (g :: rest0).map Prod.snd := rfl
          rw [e, List.map_cons, List.dropLast_cons_cons] at hq
          rcases List.mem_cons.mp hq with rfl | hq
          · exact hwabove
          · apply hsh.aboveLo q
            have hdn : (G iv.ci).dn.map Prod.snd = dr.map Prod.snd ++ (g :: rest0).map Prod.snd := by
              show ((G iv.ci).m :: (G iv.ci).X).map Prod.snd = _
              rw [hsplitX, List.map_append]
            exact mem_dropLast_suffix hdn (by simp) (by simpa using hq)
      · exact hothers j (List.mem_append_right _ hj)
  · -- node indices
    rw [idxs_append, idxs_cons, idxs_congr (fun j hj => hGo j (List.mem_append_left _ hj)),
      idxs_congr (fun j hj => hGo j (List.mem_append_right _ hj))]
    show (idxs G pre ++ ((Function.update G iv.ci _ iv.ci).l.map Prod.fst ++ idxs G post)).Nodup
    rw [hGs]
    have hnd := hX.nd
    rw [idxs_append, idxs_cons, ← List.append_assoc] at hnd
    have hsub : ((g :: rest0).map Prod.fst).Sublist ((G iv.ci).l.map Prod.fst).reverse := by
      rw [← List.map_reverse]
      exact (sub_of_split hlr).map Prod.fst
    have := nodup_replace_rev (n := s.nodes.size) hnd hsub (by
        intro k hk
        apply idx_ne_sizeV hX k
        rw [idxs_append, idxs_cons, ← List.append_assoc]; exact hk)
    simpa [CH.l] using this
  · -- flags
    intro j hj
    rcases List.mem_append.mp hj with hj | hj
    · exact hX.flags j (List.mem_append_left _ hj)
    · rcases List.mem_cons.mp hj with rfl | hj
      · exact ⟨hflags.1, hhiNew⟩
      · exact hX.flags j (List.mem_append_right _ (List.mem_cons_of_mem _ hj))
  · -- count
    have hcnt := hX.count
    rw [cnt_step hR hwn hxs hgap, vWeight_bend (by
      rcases hnb' with ⟨e1, e2⟩ | ⟨e1, e2⟩
      · exact Or.inl ⟨by rw [e1]; exact hxu, by rw [e2]; exact hxw'⟩
      · exact Or.inr ⟨by rw [e2]; exact hxu, by rw [e1]; exact hxw'⟩)]
    rw [hs'o, eo, hso, List.length_append, tlen]
    rw [lenSum_append, lenSum_cons, lenSum_congr (fun j hj => hGo j (List.mem_append_left _ hj)),
      lenSum_congr (fun j hj => hGo j (List.mem_append_right _ hj))]
    show _ + (lenSum G pre + ((Function.update G iv.ci _ iv.ci).l.length + lenSum G post)) = _
    rw [hGs]
    have hlen : (G iv.ci).l.length = ((G iv.ci).Y.reverse ++ dr).length + (rest0.length + 1) := by
      have := congrArg List.length hlr
      rw [List.length_reverse, List.length_append, List.length_cons] at this
      exact this
    rw [lenSum_append, lenSum_cons, hlen] at hcnt
    simp only [CH.l, List.length_append, List.length_cons, List.length_reverse, List.length_nil] at hcnt ⊢
    omega
  · -- area
    have harea := hX.area
    rw [wDone_bend hR hwn hxs hgap hnb' hxu hxw']
    rw [pathTot_append, pathTot_cons, pathTot_congr (fun j hj => hGo j (List.mem_append_left _ hj)),
      pathTot_congr (fun j hj => hGo j (List.mem_append_right _ hj))]
    show _ = _ + (pathTot G pre + (pathSum ((Function.update G iv.ci _ iv.ci).l.map Prod.snd) + pathTot G post))
    rw [hGs, hs'o, eo, hso, areaSum_append, ta, harea, pathTot_append, pathTot_cons]
    have hva := view_acct ((shearRing ε R).pt w) (((G iv.ci).Y.reverse ++ dr).map Prod.snd) g.2 (rest0.map Prod.snd)
    -- the tail view of the old chain
    have e1 : ((G iv.ci).l.reverse).map Prod.snd =
        ((G iv.ci).Y.reverse ++ dr).map Prod.snd ++ g.2 :: rest0.map Prod.snd := by
      rw [hlr]; simp
    have e2 : (((G iv.ci).Y.reverse ++ dr) ++ [g]).map Prod.snd =
        ((G iv.ci).Y.reverse ++ dr).map Prod.snd ++ [g.2] := by simp
    have e3 : (CH.l ⟨g :: rest0, (s.nodes.size, (shearRing ε R).pt w), []⟩).map Prod.snd =
        ((shearRing ε R).pt w :: g.2 :: rest0.map Prod.snd).reverse := by simp [CH.l]
    have e4 : pathSum ((shearRing ε R).pt w :: ((G iv.ci).l.reverse).map Prod.snd) =
        cross ((shearRing ε R).pt w) ((shearRing ε R).pt u) + pathSum (((G iv.ci).l.reverse).map Prod.snd) := by
      rw [htl0, List.map_cons, htlpt, hlv]
      cases tl0 <;> simp [pathSum]
    have e5 : pathSum (((G iv.ci).l.reverse).map Prod.snd) = - pathSum ((G iv.ci).l.map Prod.snd) := by
      rw [List.map_reverse, pathSum_reverse]
    rw [e5] at e4
    rw [e1] at e4
    rw [e4] at hva
    rw [e2, e3, pathSum_reverse]
    unfold eSigned
    rw [if_neg hhiOld]
    have hcs := cross_swap ((shearRing ε R).pt u) ((shearRing ε R).pt w)
    linarith
  · -- coherence
    exact coh_step hR hwn hxs hgap hX.coh
      (coh_bend hnb' hxu hxw' ⟨fun h => absurd h hhiOld, fun h => absurd h hhiNew⟩)
  · -- positive areas
    intro tr htr
    rw [hs'o, eo, hso] at htr
    rcases List.mem_append.mp htr with h | h
    · exact trisB_posU _ _ _ hfan tr h
    · exact hX.posA tr h
  · -- the generic identity
    obtain ⟨Tg, hTg, hneg, hid⟩ := hT.gen
    refine ⟨trisBq ((shearRing ε R).pt w) ((((G iv.ci).Y.reverse ++ dr) ++ [g]).map Prod.snd) ++ Tg, ?_, ?_, ?_⟩
    · rw [hs'o, eo, hso, hTg, List.map_append, trisB_hpU_map]
    · intro t ht
      rcases List.mem_append.mp ht with h | h
      · exact trisBq_neg _ _ hfan t h
      · exact hneg t h
    · intro ω hω
      rw [pathTotW_append, pathTotW_cons, pathTotW_congr (fun j hj => hGo j (List.mem_append_left _ hj)),
        pathTotW_congr (fun j hj => hGo j (List.mem_append_right _ hj))]
      show _ = _ + (pathTotW ω G pre + (pathSumW ω ((Function.update G iv.ci _ iv.ci).l.map Prod.snd) + pathTotW ω G post))
      rw [hGs, muSum_append, muSum_trisBq hω, hid ω hω, wDoneW_bend hR ω hwn hxs hgap hnb' hxu hxw',
        pathTotW_append, pathTotW_cons]
      have hva := view_acctW hω ((shearRing ε R).pt w) (((G iv.ci).Y.reverse ++ dr).map Prod.snd) g.2 (rest0.map Prod.snd)
      -- the tail view of the old chain
      have e1 : ((G iv.ci).l.reverse).map Prod.snd =
          ((G iv.ci).Y.reverse ++ dr).map Prod.snd ++ g.2 :: rest0.map Prod.snd := by
        rw [hlr]; simp
      have e2 : (((G iv.ci).Y.reverse ++ dr) ++ [g]).map Prod.snd =
          ((G iv.ci).Y.reverse ++ dr).map Prod.snd ++ [g.2] := by simp
      have e3 : (CH.l ⟨g :: rest0, (s.nodes.size, (shearRing ε R).pt w), []⟩).map Prod.snd =
          ((shearRing ε R).pt w :: g.2 :: rest0.map Prod.snd).reverse := by simp [CH.l]
      have e4 : pathSumW ω ((shearRing ε R).pt w :: ((G iv.ci).l.reverse).map Prod.snd) =
          ω ((shearRing ε R).pt w) ((shearRing ε R).pt u) + pathSumW ω (((G iv.ci).l.reverse).map Prod.snd) := by
        apply pathSumW_cons_head
        rw [htl0, List.map_cons, htlpt, hlv]; rfl
      have e5 : pathSumW ω (((G iv.ci).l.reverse).map Prod.snd) =
          - pathSumW ω ((G iv.ci).l.map Prod.snd) := by
        rw [List.map_reverse, pathSumW_reverse hω]
      rw [e5] at e4
      rw [e1] at e4
      rw [e4] at hva
      rw [e2, e3, pathSumW_reverse hω]
      unfold eSignedW
      rw [if_neg hhiOld]
      have hcs := hω ((shearRing ε R).pt u) ((shearRing ε R).pt w)
      linarith

end Cav.GenOutInV
