/-
  Executor additions for quadrilaterals with equal abscissae: pure mirrors and run lemmas for
  `verticalIsCrossed` (`vcP`) and `willOverlapBot/Top` (`wobP`, `wotP`), so that the event chains
  no longer depend on which abscissae coincide; the structure `Ord4L` of the comparison facts of
  four points in strictly increasing LEXICOGRAPHIC order.
-/
import Cav.Lemmas.QuadRun

set_option linter.unusedSectionVars false
set_option linter.unusedSimpArgs false
set_option linter.unusedVariables false

namespace Cav.QuadVRun
open Cav Num Cav.Sweep Cav.SweepRun Cav.TriRun Cav.QuadRun

variable {α : Type} [Num α]

/-- edge `i` of a state (a dummy edge out of range) -/
def edgeD (s : St α) (i : Nat) : Edge α := (s.edges[i]?).getD ⟨dummyPt, 0, false, none, none⟩

theorem run_getEdgeD (i : Nat) (s : St α) (h : (s.edges[i]?).isSome = true) :
    (getEdge i : SM α _).run s = .ok (edgeD s i, s) := by
  rw [run_getEdge]; unfold edgeD
  cases hh : s.edges[i]? with
  | none => simp [hh] at h
  | some e => rfl

/-! ### `verticalIsCrossed` -/

/-- heights at `x` of the active edges that are not skipped -/
def vcYs (s : St α) (skip : Option Nat) (x : α) : List Nat → List α
  | [] => []
  | a :: r =>
    if skip == some a then vcYs s skip x r
    else yExtrap (lptD s (edgeD s a)) (edgeD s a).rpt x true :: vcYs s skip x r

/-- all look-ups of the scan succeed -/
def vcOk (s : St α) (skip : Option Nat) : List Nat → Bool
  | [] => true
  | a :: r =>
    if skip == some a then vcOk s skip r
    else (s.edges[a]?).isSome && (lpt? s (edgeD s a)).isSome && vcOk s skip r

/-- pure mirror of `verticalIsCrossed`: the edge `p rp` is vertical and one of the heights `ys`
    lies strictly between its end points -/
def vcP (p rp : Pt α) (ys : List α) : Bool :=
  if !(ofEq rp.x p.x) then false else ys.any (fun y => ofLt p.y y && ofLt y rp.y)

theorem run_vc_go (skip : Option Nat) (p rp : Pt α) (s : St α) (l : List Nat)
    (h : vcOk s skip l = true) :
    (verticalIsCrossed.go skip p rp l).run s =
      .ok ((vcYs s skip p.x l).any (fun y => ofLt p.y y && ofLt y rp.y), s) := by
  induction l with
  | nil => rfl
  | cons a r ih =>
    unfold verticalIsCrossed.go vcYs
    unfold vcOk at h
    by_cases hs : (skip == some a) = true
    · simp only [hs, if_true] at h ⊢
      exact ih h
    · simp only [hs, if_false, Bool.false_eq_true, Bool.and_eq_true] at h ⊢
      obtain ⟨⟨h1, h2⟩, h3⟩ := h
      simp only [run_bind, run_getEdgeD a s h1, run_yAt _ _ _ s h2, List.any_cons]
      generalize yExtrap (lptD s (edgeD s a)) (edgeD s a).rpt p.x true = y
      cases h1' : ofLt p.y y <;> cases h2' : ofLt y rp.y <;>
        simp only [Bool.false_eq_true, false_and, and_false, and_self, if_true, if_false, run_pure,
          Bool.and_false, Bool.and_true, Bool.false_and, Bool.true_or, Bool.false_or, Bool.and_self] <;>
        exact ih h3

theorem run_verticalIsCrossed (skip : Option Nat) (p rp : Pt α) (s : St α)
    (h : vcOk s skip s.active = true) :
    (verticalIsCrossed skip p rp).run s = .ok (vcP p rp (vcYs s skip p.x s.active), s) := by
  unfold verticalIsCrossed vcP
  by_cases hx : (!ofEq rp.x p.x) = true
  · simp only [hx, if_true, run_pure]
  · simp only [hx, if_false, Bool.false_eq_true, run_bind, run_get]
    exact run_vc_go skip p rp s s.active h


/-! ### `willOverlapBot`, `willOverlapTop` -/

/-- pure mirror of `willOverlapBot` for an edge `le re` with bottom partner `lb rb` -/
def wobP (le re lb rb : Pt α) : Bool :=
  if ofEq re.x rb.x then ofLt (yExtrap le re re.x true) (yExtrap lb rb re.x true)
  else cmpAtP le re lb rb (minTotal re.x rb.x) true != .gt

/-- pure mirror of `willOverlapTop` for an edge `le re` with top partner `lt rt` -/
def wotP (le re lt rt : Pt α) : Bool :=
  if ofEq re.x rt.x then ofGt (yExtrap le re re.x true) (yExtrap lt rt re.x true)
  else cmpAtP le re lt rt (minTotal re.x rt.x) true != .lt

theorem run_wob_none (ei : Nat) (sb : Bool) (s : St α) (h1 : (s.edges[ei]?).isSome = true)
    (hb : (edgeD s ei).bPart = none) : (willOverlapBot ei sb).run s = .ok (false, s) := by
  unfold willOverlapBot
  simp only [run_bind, run_getEdgeD ei s h1, hb, run_pure]

theorem run_wot_none (ei : Nat) (sb : Bool) (s : St α) (h1 : (s.edges[ei]?).isSome = true)
    (hb : (edgeD s ei).tPart = none) : (willOverlapTop ei sb).run s = .ok (false, s) := by
  unfold willOverlapTop
  simp only [run_bind, run_getEdgeD ei s h1, hb, run_pure]

theorem run_wob_some (ei : Nat) (sb : Bool) (s : St α) (h1 : (s.edges[ei]?).isSome = true)
    (hb : ((edgeD s ei).bPart).isSome = true)
    (hne : (sb && ((edgeD s ei).bPart).getD 0 == ei) = false)
    (h2 : (s.edges[((edgeD s ei).bPart).getD 0]?).isSome = true)
    (h3 : (lpt? s (edgeD s ei)).isSome = true)
    (h4 : (lpt? s (edgeD s (((edgeD s ei).bPart).getD 0))).isSome = true) :
    (willOverlapBot ei sb).run s =
      .ok (wobP (lptD s (edgeD s ei)) (edgeD s ei).rpt
        (lptD s (edgeD s (((edgeD s ei).bPart).getD 0))) (edgeD s (((edgeD s ei).bPart).getD 0)).rpt, s) := by
  unfold willOverlapBot wobP
  cases hbp : (edgeD s ei).bPart with
  | none => simp [hbp] at hb
  | some bi =>
    simp only [hbp, Option.getD_some] at hne h2 h4 ⊢
    simp only [run_bind, run_getEdgeD ei s h1, hbp, hne, Bool.false_eq_true, if_false, run_pure,
      run_getEdgeD bi s h2]
    by_cases hx : ofEq (edgeD s ei).rpt.x (edgeD s bi).rpt.x = true
    · simp only [hx, if_true, run_bind, run_yAt _ _ _ s h3, run_yAt _ _ _ s h4, run_pure]
    · simp only [hx, if_false, Bool.false_eq_true, run_bind, run_cmpAt _ _ _ _ s h3 h4, run_pure]

theorem run_wot_some (ei : Nat) (sb : Bool) (s : St α) (h1 : (s.edges[ei]?).isSome = true)
    (hb : ((edgeD s ei).tPart).isSome = true)
    (hne : (sb && ((edgeD s ei).tPart).getD 0 == ei) = false)
    (h2 : (s.edges[((edgeD s ei).tPart).getD 0]?).isSome = true)
    (h3 : (lpt? s (edgeD s ei)).isSome = true)
    (h4 : (lpt? s (edgeD s (((edgeD s ei).tPart).getD 0))).isSome = true) :
    (willOverlapTop ei sb).run s =
      .ok (wotP (lptD s (edgeD s ei)) (edgeD s ei).rpt
        (lptD s (edgeD s (((edgeD s ei).tPart).getD 0))) (edgeD s (((edgeD s ei).tPart).getD 0)).rpt, s) := by
  unfold willOverlapTop wotP
  cases hbp : (edgeD s ei).tPart with
  | none => simp [hbp] at hb
  | some bi =>
    simp only [hbp, Option.getD_some] at hne h2 h4 ⊢
    simp only [run_bind, run_getEdgeD ei s h1, hbp, hne, Bool.false_eq_true, if_false, run_pure,
      run_getEdgeD bi s h2]
    by_cases hx : ofEq (edgeD s ei).rpt.x (edgeD s bi).rpt.x = true
    · simp only [hx, if_true, run_bind, run_yAt _ _ _ s h3, run_yAt _ _ _ s h4, run_pure]
    · simp only [hx, if_false, Bool.false_eq_true, run_bind, run_cmpAt _ _ _ _ s h3 h4, run_pure]


/-! ### unconditional forms (usable by `simp` without side conditions) -/

/-- the run of `verticalIsCrossed` when a look-up fails (never in the flows) -/
def vcErr (skip : Option Nat) (p rp : Pt α) (s : St α) : Except (SErr α) (Bool × St α) :=
  (verticalIsCrossed skip p rp).run s

theorem run_vc (skip : Option Nat) (p rp : Pt α) (s : St α) :
    (verticalIsCrossed skip p rp).run s =
      if vcOk s skip s.active = true then .ok (vcP p rp (vcYs s skip p.x s.active), s)
      else vcErr skip p rp s := by
  split
  · exact run_verticalIsCrossed skip p rp s ‹_›
  · rfl

def wobErr (ei : Nat) (sb : Bool) (s : St α) : Except (SErr α) (Bool × St α) :=
  (willOverlapBot ei sb).run s
def wotErr (ei : Nat) (sb : Bool) (s : St α) : Except (SErr α) (Bool × St α) :=
  (willOverlapTop ei sb).run s

theorem run_wob (ei : Nat) (sb : Bool) (s : St α) :
    (willOverlapBot ei sb).run s =
      if (s.edges[ei]?).isSome = true then
        match (edgeD s ei).bPart with
        | none => .ok (false, s)
        | some bi =>
          if ((!(sb && bi == ei)) && (s.edges[bi]?).isSome && (lpt? s (edgeD s ei)).isSome &&
              (lpt? s (edgeD s bi)).isSome) = true then
            .ok (wobP (lptD s (edgeD s ei)) (edgeD s ei).rpt (lptD s (edgeD s bi)) (edgeD s bi).rpt, s)
          else wobErr ei sb s
      else wobErr ei sb s := by
  split
  · rename_i h1
    cases hb : (edgeD s ei).bPart with
    | none => exact run_wob_none ei sb s h1 hb
    | some bi =>
      simp only []
      split
      · rename_i hc
        simp only [Bool.and_eq_true, Bool.not_eq_true'] at hc
        obtain ⟨⟨⟨c1, c2⟩, c3⟩, c4⟩ := hc
        have := run_wob_some ei sb s h1 (by simp [hb]) (by simpa [hb] using c1) (by simpa [hb] using c2)
          c3 (by simpa [hb] using c4)
        simpa [hb] using this
      · rfl
  · rfl

theorem run_wot (ei : Nat) (sb : Bool) (s : St α) :
    (willOverlapTop ei sb).run s =
      if (s.edges[ei]?).isSome = true then
        match (edgeD s ei).tPart with
        | none => .ok (false, s)
        | some bi =>
          if ((!(sb && bi == ei)) && (s.edges[bi]?).isSome && (lpt? s (edgeD s ei)).isSome &&
              (lpt? s (edgeD s bi)).isSome) = true then
            .ok (wotP (lptD s (edgeD s ei)) (edgeD s ei).rpt (lptD s (edgeD s bi)) (edgeD s bi).rpt, s)
          else wotErr ei sb s
      else wotErr ei sb s := by
  split
  · rename_i h1
    cases hb : (edgeD s ei).tPart with
    | none => exact run_wot_none ei sb s h1 hb
    | some bi =>
      simp only []
      split
      · rename_i hc
        simp only [Bool.and_eq_true, Bool.not_eq_true'] at hc
        obtain ⟨⟨⟨c1, c2⟩, c3⟩, c4⟩ := hc
        have := run_wot_some ei sb s h1 (by simp [hb]) (by simpa [hb] using c1) (by simpa [hb] using c2)
          c3 (by simpa [hb] using c4)
        simpa [hb] using this
      · rfl
  · rfl

theorem vcP_nil (p rp : Pt α) : vcP p rp [] = false := by
  unfold vcP; split <;> rfl

/-- all comparisons between four points in strictly increasing lexicographic order -/
structure Ord4L (p1 p2 p3 p4 : Pt XQ) : Prop where
  f1 : Num.isFinite p1.x = true
  f2 : Num.isFinite p2.x = true
  f3 : Num.isFinite p3.x = true
  f4 : Num.isFinite p4.x = true
  c11 : p1.cmp p1 = .eq
  c12 : p1.cmp p2 = .lt
  c13 : p1.cmp p3 = .lt
  c14 : p1.cmp p4 = .lt
  c21 : p2.cmp p1 = .gt
  c22 : p2.cmp p2 = .eq
  c23 : p2.cmp p3 = .lt
  c24 : p2.cmp p4 = .lt
  c31 : p3.cmp p1 = .gt
  c32 : p3.cmp p2 = .gt
  c33 : p3.cmp p3 = .eq
  c34 : p3.cmp p4 = .lt
  c41 : p4.cmp p1 = .gt
  c42 : p4.cmp p2 = .gt
  c43 : p4.cmp p3 = .gt
  c44 : p4.cmp p4 = .eq
  e12 : p1.eq p2 = false
  e13 : p1.eq p3 = false
  e14 : p1.eq p4 = false
  e21 : p2.eq p1 = false
  e23 : p2.eq p3 = false
  e24 : p2.eq p4 = false
  e31 : p3.eq p1 = false
  e32 : p3.eq p2 = false
  e34 : p3.eq p4 = false
  e41 : p4.eq p1 = false
  e42 : p4.eq p2 = false
  e43 : p4.eq p3 = false

set_option hygiene false in
/-- one event, with the standing hypotheses of the flow lemmas of `QuadVEvents*.lean` -/
macro "qevL" "[" args:Lean.Parser.Tactic.simpLemma,* "]" : tactic =>
  `(tactic| sm_event [h1, h2, h3, h4, f1, f2, f3, f4, c11, c12, c13, c14, c21, c22, c23, c24, c31, c32, c33, c34, c41, c42, c43, c44, e12, e13, e14, e21, e23, e24, e31, e32, e34, e41, e42, e43,
      fromTriplet, Pt.lt, Pt.gt, Pt.ge, run_cmpEdge, run_cmpAt, run_partialCmpEdge, run_yAt,
      run_edgeGrad, lpt?, lptD, edgeD, run_vc, vcOk, vcYs, vcP_nil, run_wob, run_wot, eventsAdd, eventsAdd.go,
      search, searchPos, cmpAll, isMono, activeInsert, activeRemove,
      chainAppend, chainSplit, chainMerge, backTriangulate, nodeTriangulate, nodeFuel,
      except_map_ok, cmpEdgeP_self, $args,*])

end Cav.QuadVRun
