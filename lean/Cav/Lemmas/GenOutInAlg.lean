/-
  Tiling by the emitted triangles, part 2: the algebra of the generic area identity.  The lemmas of
  `MonoGeom` (`pathSum_append`, `pathSum_reverse`, `orientSum_eq`), `GenOutShape` (`view_acct`,
  `trisF_acct`, `trisB_acct`), `GenOutAux` (`trisF_hp`, `trisB_hp`), `GenOutCount` (`wDone_step`,
  `cnt_wDone_left`, `cnt_wDone_right`), `GenOutXBend` (`wDone_bend`), `GenOutXStart` (`wDone_start`),
  `GenOutXClose` (`wDone_end`, `full_fan_area`) and `GenOutXMergeAux` (`pathSum_cons_head`,
  `merge_acct`) for an arbitrary antisymmetric weight `w` in place of `cross`.
-/
import Cav.Lemmas.GenOutInDefs
import Cav.Lemmas.GenOutAux

set_option linter.unusedVariables false
set_option linter.unusedSimpArgs false

namespace Cav.GenOutIn
open Cav Num Cav.Geo Cav.Sweep Cav.QuadGeom Cav.CvxEvents Cav.CvxLoop Cav.GenInv Cav.MonoGeom
open Cav.MonoHeap Cav.MonoFan Cav.MonoInv
open Cav.GenOutShape Cav.GenOutDefs Cav.GenOutInv Cav.GenOutCount Cav.GenOutAux

/-! ### path sums -/

theorem pathSumW_append (w : W) : ∀ (l1 : List Q) (g : Q) (l2 : List Q),
    pathSumW w (l1 ++ g :: l2) = pathSumW w (l1 ++ [g]) + pathSumW w (g :: l2)
  | [], g, l2 => by simp [pathSumW]
  | [a], g, l2 => by simp [pathSumW]
  | a :: b :: l1, g, l2 => by
    have ih := pathSumW_append w (b :: l1) g l2
    simp only [List.cons_append, pathSumW] at ih ⊢
    rw [ih]; ring

theorem pathSumW_reverse {w : W} (hw : AS w) : ∀ (l : List Q), pathSumW w l.reverse = - pathSumW w l
  | [] => by simp [pathSumW]
  | [a] => by simp [pathSumW]
  | a :: b :: r => by
    have ih := pathSumW_reverse hw (b :: r)
    have e : (a :: b :: r).reverse = r.reverse ++ b :: [a] := by simp
    rw [e, pathSumW_append]
    have e2 : r.reverse ++ [b] = (b :: r).reverse := by simp
    rw [e2, ih]
    simp only [pathSumW, hw a b]
    ring

theorem pathSumW_cons_head (w : W) (p h : Q) : ∀ (L : List Q), L.head? = some h →
    pathSumW w (p :: L) = w p h + pathSumW w L
  | [], hh => by cases hh
  | [a], hh => by
    simp only [List.head?_cons, Option.some.injEq] at hh
    subst hh
    simp [pathSumW]
  | a :: b :: r, hh => by
    simp only [List.head?_cons, Option.some.injEq] at hh
    subst hh
    simp [pathSumW]

/-! ### orientation sums -/

theorem orientSumW_eq {w : W} (hw : AS w) (u : Q) : ∀ (q0 : Q) (r : List Q),
    orientSumW w u (q0 :: r) = pathSumW w (q0 :: r) + w u q0 - w u (lastQ q0 r)
  | q0, [] => by simp [orientSumW, pathSumW, lastQ]
  | q0, q1 :: r => by
    have ih := orientSumW_eq hw u q1 r
    simp only [orientSumW, pathSumW, lastQ, ih, hw u q1]
    ring

/-- the path through the apex before and after the fan has been cut -/
theorem view_acctW {w : W} (hw : AS w) (u : Q) (mid : List Q) (g : Q) (rest : List Q) :
    pathSumW w (u :: (mid ++ g :: rest)) =
      orientSumW w u (mid ++ [g]) + pathSumW w (u :: g :: rest) := by
  cases mid with
  | nil => simp [pathSumW, orientSumW]
  | cons q0 mid' =>
    have h1 := orientSumW_eq hw u q0 (mid' ++ [g])
    rw [lastQ_append] at h1
    have h2 := pathSumW_append w (q0 :: mid') g rest
    simp only [List.cons_append] at h1 h2 ⊢
    simp only [pathSumW] at h2 ⊢
    rw [h1]
    have h3 : pathSumW w (q0 :: (mid' ++ g :: rest)) =
        pathSumW w (q0 :: (mid' ++ [g])) + pathSumW w (g :: rest) := h2
    rw [h3]
    ring

/-! ### ghost fans and emitted fans -/

theorem trisF_map (u : Q) : ∀ (pts : List Q),
    trisF (Fq u) (pts.map Fq) = (trisFq u pts).map sq
  | [] => rfl
  | [_] => rfl
  | q0 :: q1 :: r => by
    have ih := trisF_map u (q1 :: r)
    simp only [List.map_cons, trisF, trisFq, List.map_append, List.map_nil] at ih ⊢
    rw [ih]
    rfl

theorem trisB_map (u : Q) : ∀ (pts : List Q),
    trisB (Fq u) (pts.map Fq) = (trisBq u pts).map sq
  | [] => rfl
  | [_] => rfl
  | q0 :: q1 :: r => by
    have ih := trisB_map u (q1 :: r)
    simp only [List.map_cons, trisB, trisBq, List.map_append, List.map_nil] at ih ⊢
    rw [ih]
    rfl

theorem trisF_hp_map (u : Q) (mid : List (Nat × Q)) (g : Nat × Q) :
    trisF (Fq u) ((hp mid).map Prod.snd ++ [Fq g.2]) =
      (trisFq u ((mid ++ [g]).map Prod.snd)).map sq := by
  rw [hp_pts]; exact trisF_map u _

theorem trisB_hp_map (u : Q) (mid : List (Nat × Q)) (g : Nat × Q) :
    trisB (Fq u) ((hp mid).map Prod.snd ++ [Fq g.2]) =
      (trisBq u ((mid ++ [g]).map Prod.snd)).map sq := by
  rw [hp_pts]; exact trisB_map u _

/-! ### the ghost triples are clockwise -/

theorem trisFq_neg (u : Q) : ∀ (pts : List Q), FanQ 1 u pts →
    ∀ t ∈ trisFq u pts, orient t.1 t.2.1 t.2.2 < 0
  | [], _ => by simp [trisFq]
  | [_], _ => by simp [trisFq]
  | q0 :: q1 :: r, h => by
    intro t ht
    simp only [trisFq] at ht
    rcases List.mem_append.mp ht with ht | ht
    · exact trisFq_neg u (q1 :: r) h.2 t ht
    · simp only [List.mem_singleton] at ht
      subst ht
      have := h.1
      show orient u q0 q1 < 0
      linarith

theorem trisBq_neg (u : Q) : ∀ (pts : List Q), FanQ (-1) u pts →
    ∀ t ∈ trisBq u pts, orient t.1 t.2.1 t.2.2 < 0
  | [], _ => by simp [trisBq]
  | [_], _ => by simp [trisBq]
  | q0 :: q1 :: r, h => by
    intro t ht
    simp only [trisBq] at ht
    rcases List.mem_append.mp ht with ht | ht
    · exact trisBq_neg u (q1 :: r) h.2 t ht
    · simp only [List.mem_singleton] at ht
      subst ht
      have := h.1
      have e : orient q1 q0 u = - orient u q0 q1 := by unfold orient; ring
      show orient q1 q0 u < 0
      rw [e]
      linarith

/-! ### the measure of a fan -/

theorem muSum_trisFq {w : W} (hw : AS w) (u : Q) : ∀ (pts : List Q),
    muSum w (trisFq u pts) = - orientSumW w u pts
  | [] => by simp [trisFq, orientSumW]
  | [_] => by simp [trisFq, orientSumW]
  | q0 :: q1 :: r => by
    have ih := muSum_trisFq hw u (q1 :: r)
    simp only [trisFq, orientSumW]
    rw [muSum_append, ih]
    simp only [muSum, muW, List.map_cons, List.map_nil, List.sum_cons, List.sum_nil]
    ring

theorem muSum_trisBq {w : W} (hw : AS w) (u : Q) : ∀ (pts : List Q),
    muSum w (trisBq u pts) = orientSumW w u pts
  | [] => by simp [trisBq, orientSumW]
  | [_] => by simp [trisBq, orientSumW]
  | q0 :: q1 :: r => by
    have ih := muSum_trisBq hw u (q1 :: r)
    simp only [trisBq, orientSumW]
    rw [muSum_append, ih]
    simp only [muSum, muW, List.map_cons, List.map_nil, List.sum_cons, List.sum_nil,
      hw q0 q1, hw u q0, hw q1 u]
    ring

/-! ### one step of the sweep -/

theorem eTermW_same {R : RingQ} {V : Array (Vtx XQ)} (hR : RingOK R V) (w : W) {xs : Rat} {z : Nat}
    (hz : z < R.n) (hxs : xs < R.x z) (hgap : ∀ v, v < R.n → xs < R.x v → R.x z ≤ R.x v)
    (u : Nat) {v : Nat} (hv : v < R.n) (hne : v ≠ z) :
    eTermW R w (R.x z) u v = eTermW R w xs u v := by
  unfold eTermW
  have := le_iff_of_gap hR hz hxs hgap hv hne
  by_cases h : R.x v ≤ xs
  · by_cases h0 : R.x u < R.x v
    · rw [if_pos ⟨h0, this.mpr h⟩, if_pos ⟨h0, h⟩]
    · rw [if_neg (fun h' => h0 h'.1), if_neg (fun h' => h0 h'.1)]
  · rw [if_neg (fun h' => h (this.mp h'.2)), if_neg (fun h' => h h'.2)]

theorem eTermW_new (R : RingQ) (w : W) (u z : Nat) :
    eTermW R w (R.x z) u z = if R.x u < R.x z then eSignedW R w u z else 0 := by
  unfold eTermW
  by_cases h0 : R.x u < R.x z
  · rw [if_pos ⟨h0, le_refl _⟩, if_pos h0]
  · rw [if_neg (fun h' => h0 h'.1), if_neg h0]

theorem eTermW_old (R : RingQ) (w : W) {xs : Rat} (u z : Nat) (hxs : xs < R.x z) :
    eTermW R w xs u z = 0 := by
  unfold eTermW
  rw [if_neg (fun h' => not_le.mpr hxs h'.2)]

theorem wDoneW_step {R : RingQ} {V : Array (Vtx XQ)} (hR : RingOK R V) (w : W) {xs : Rat} {z : Nat}
    (hz : z < R.n) (hxs : xs < R.x z) (hgap : ∀ v, v < R.n → xs < R.x v → R.x z ≤ R.x v) :
    wDoneW R w (R.x z) = wDoneW R w xs
      + (if R.x (R.prv z) < R.x z then eSignedW R w (R.prv z) z else 0)
      + (if R.x (R.nxt z) < R.x z then eSignedW R w (R.nxt z) z else 0) := by
  unfold wDoneW
  rw [List.sum_map_add, List.sum_map_add]
  have hN : ((List.range R.n).map fun u => eTermW R w (R.x z) u (R.nxt u)).sum =
      ((List.range R.n).map fun u => eTermW R w xs u (R.nxt u)).sum
        + (if R.x (R.prv z) < R.x z then eSignedW R w (R.prv z) z else 0) := by
    apply sum_range_update _ _ _ (R.prv z) R.n (hR.prv_lt z hz)
    · intro u hu hne
      apply eTermW_same hR w hz hxs hgap u (hR.nxt_lt u hu)
      intro e
      apply hne
      rw [← e]; exact (hR.prv_nxt u hu).symm
    · show eTermW R w (R.x z) (R.prv z) (R.nxt (R.prv z)) =
        eTermW R w xs (R.prv z) (R.nxt (R.prv z)) + _
      rw [hR.nxt_prv z hz, eTermW_new, eTermW_old R w _ _ hxs, zero_add]
  have hP : ((List.range R.n).map fun u => eTermW R w (R.x z) u (R.prv u)).sum =
      ((List.range R.n).map fun u => eTermW R w xs u (R.prv u)).sum
        + (if R.x (R.nxt z) < R.x z then eSignedW R w (R.nxt z) z else 0) := by
    apply sum_range_update _ _ _ (R.nxt z) R.n (hR.nxt_lt z hz)
    · intro u hu hne
      apply eTermW_same hR w hz hxs hgap u (hR.prv_lt u hu)
      intro e
      apply hne
      rw [← e]; exact (hR.nxt_prv u hu).symm
    · show eTermW R w (R.x z) (R.nxt z) (R.prv (R.nxt z)) =
        eTermW R w xs (R.nxt z) (R.prv (R.nxt z)) + _
      rw [hR.prv_nxt z hz, eTermW_new, eTermW_old R w _ _ hxs, zero_add]
  rw [hN, hP]
  ring

/-- the finished edge in `wDoneW` at a Bend vertex -/
theorem wDoneW_bend {R : RingQ} {V : Array (Vtx XQ)} (hR : RingOK R V) (w : W) {xs : Rat}
    {w0 u w' : Nat} (hw0 : w0 < R.n)
    (hxs : xs < R.x w0) (hgap : ∀ v, v < R.n → xs < R.x v → R.x w0 ≤ R.x v)
    (hnb : (R.prv w0 = u ∧ R.nxt w0 = w') ∨ (R.prv w0 = w' ∧ R.nxt w0 = u))
    (hxu : R.x u < R.x w0) (hxw' : R.x w0 < R.x w') :
    wDoneW R w (R.x w0) = wDoneW R w xs + eSignedW R w u w0 := by
  rw [wDoneW_step hR w hw0 hxs hgap]
  rcases hnb with ⟨e1, e2⟩ | ⟨e1, e2⟩
  · rw [e1, e2, if_pos hxu, if_neg (not_lt.mpr (le_of_lt hxw'))]; ring
  · rw [e1, e2, if_neg (not_lt.mpr (le_of_lt hxw')), if_pos hxu]; ring

/-- no edge is finished at a Start vertex -/
theorem wDoneW_start {R : RingQ} {V : Array (Vtx XQ)} (hR : RingOK R V) (w : W) {xs : Rat}
    {w0 wB wT : Nat} (hw0 : w0 < R.n)
    (hxs : xs < R.x w0) (hgap : ∀ v, v < R.n → xs < R.x v → R.x w0 ≤ R.x v)
    (hnb : (R.prv w0 = wB ∧ R.nxt w0 = wT) ∨ (R.prv w0 = wT ∧ R.nxt w0 = wB))
    (hxB : R.x w0 < R.x wB) (hxT : R.x w0 < R.x wT) : wDoneW R w (R.x w0) = wDoneW R w xs := by
  rw [wDoneW_step hR w hw0 hxs hgap]
  rcases hnb with ⟨e1, e2⟩ | ⟨e1, e2⟩
  · rw [e1, e2, if_neg (not_lt.mpr (le_of_lt hxB)), if_neg (not_lt.mpr (le_of_lt hxT))]; ring
  · rw [e1, e2, if_neg (not_lt.mpr (le_of_lt hxT)), if_neg (not_lt.mpr (le_of_lt hxB))]; ring

/-- the two finished edges in `wDoneW` at an End vertex -/
theorem wDoneW_end {R : RingQ} {V : Array (Vtx XQ)} (hR : RingOK R V) (w : W) {xs : Rat}
    {w0 uB uT : Nat} (hw0 : w0 < R.n)
    (hxs : xs < R.x w0) (hgap : ∀ v, v < R.n → xs < R.x v → R.x w0 ≤ R.x v)
    (hnb : (R.prv w0 = uB ∧ R.nxt w0 = uT) ∨ (R.prv w0 = uT ∧ R.nxt w0 = uB))
    (hx0 : R.x (R.prv w0) < R.x w0) (hx1 : R.x (R.nxt w0) < R.x w0) :
    wDoneW R w (R.x w0) = wDoneW R w xs + eSignedW R w uB w0 + eSignedW R w uT w0 := by
  rw [wDoneW_step hR w hw0 hxs hgap, if_pos hx0, if_pos hx1]
  rcases hnb with ⟨e1, e2⟩ | ⟨e1, e2⟩
  · rw [e1, e2]
  · rw [e1, e2]; ring

/-! ### boundary values -/

/-- before the first vertex -/
theorem wDoneW_left {R : RingQ} {V : Array (Vtx XQ)} (hR : RingOK R V) (w : W) {xs : Rat}
    (h : ∀ v, v < R.n → xs < R.x v) : wDoneW R w xs = 0 := by
  unfold wDoneW
  apply List.sum_eq_zero
  intro t ht
  obtain ⟨u, hu, rfl⟩ := List.mem_map.mp ht
  have hu := List.mem_range.mp hu
  rw [eTermW_old R w _ _ (h _ (hR.nxt_lt u hu)), eTermW_old R w _ _ (h _ (hR.prv_lt u hu)), add_zero]

theorem eTermW_all (R : RingQ) (w : W) {xs : Rat} (u v : Nat) (h : R.x v ≤ xs) :
    eTermW R w xs u v = eAllW R w u v := by
  unfold eTermW eAllW
  by_cases h0 : R.x u < R.x v
  · rw [if_pos ⟨h0, h⟩, if_pos h0]
  · rw [if_neg (fun h' => h0 h'.1), if_neg h0]

/-- after the last vertex -/
theorem wDoneW_right {R : RingQ} {V : Array (Vtx XQ)} (hR : RingOK R V) (w : W) {xs : Rat}
    (h : ∀ v, v < R.n → R.x v ≤ xs) : wDoneW R w xs = areaW R w := by
  unfold wDoneW areaW
  apply sum_range_congr
  intro u hu
  rw [eTermW_all R w _ _ (h _ (hR.nxt_lt u hu)), eTermW_all R w _ _ (h _ (hR.prv_lt u hu))]

/-! ### the complete backward fan and the merged chain -/

/-- the measure of the complete backward fan -/
theorem full_fanW {w : W} (hw : AS w) (p t hdp : Q) (r : List Q) (L : List Q)
    (hrev : L.reverse = t :: r) (hlast : (t :: r).getLast? = some hdp) :
    orientSumW w p (t :: r) + pathSumW w L = w hdp p - w t p := by
  rw [orientSumW_eq hw, lastQ_eq_of_getLast t r hdp hlast, ← hrev, pathSumW_reverse hw,
    hw p hdp, hw p t]
  ring

/-- the path of the merged chain: `L1` (head to tail, read backward from its tail `uB`) and `L2`
    (read forward from its head `uT`), the fans `M1 ++ [g1]`, `M2 ++ [g2]` cut off by the apex `p` -/
theorem merge_acctW {w : W} (hw : AS w) (p uB uT : Q) (M1 : List Q) (g1 : Q) (r1 : List Q)
    (M2 : List Q) (g2 : Q) (r2 : List Q) (L1 L2 : List Q)
    (h1 : L1.reverse = M1 ++ g1 :: r1) (hh1 : L1.reverse.head? = some uB)
    (h2 : L2 = M2 ++ g2 :: r2) (hh2 : L2.head? = some uT) :
    pathSumW w (r1.reverse ++ g1 :: p :: g2 :: r2) =
      pathSumW w L1 + pathSumW w L2 + orientSumW w p (M1 ++ [g1]) - orientSumW w p (M2 ++ [g2])
        - w p uB + w p uT := by
  have hv1 := view_acctW hw p M1 g1 r1
  have hv2 := view_acctW hw p M2 g2 r2
  rw [← h1, pathSumW_cons_head w p uB _ hh1, pathSumW_reverse hw] at hv1
  rw [← h2, pathSumW_cons_head w p uT _ hh2] at hv2
  have e1 : r1.reverse ++ g1 :: p :: g2 :: r2 = (r1.reverse ++ [g1]) ++ p :: (g2 :: r2) := by simp
  have e2 : (r1.reverse ++ [g1]) ++ [p] = (p :: g1 :: r1).reverse := by simp
  rw [e1, pathSumW_append, e2, pathSumW_reverse hw]
  linarith

end Cav.GenOutIn
