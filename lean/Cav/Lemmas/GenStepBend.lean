/-
  General sweep invariant, part 8: the Bend event, geometry and queue at the level of the flat
  active list (`bend_flat`): the bending edge may sit anywhere in the list.
-/
import Cav.Lemmas.GenOrder

set_option linter.unusedSimpArgs false
set_option linter.unusedVariables false

namespace Cav.GenStepBend
open Cav Num Cav.Geo Cav.Sweep Cav.TriRun Cav.QuadRun Cav.QuadGeom Cav.CvxFlows
open Cav.GenQuery Cav.GenGeom Cav.GenInv Cav.GenQueue Cav.GenOrder

variable {R : RingQ} {V : Array (Vtx XQ)}

/-- replacing an element of a list by one that behaves the same w.r.t. the relation -/
theorem pairwise_replace {β : Type} {P : β → β → Prop} {F1 F2 : List β} {a0 a1 : β}
    (h1 : ∀ b, P a0 b → P a1 b) (h2 : ∀ b, P b a0 → P b a1)
    (h : (F1 ++ a0 :: F2).Pairwise P) : (F1 ++ a1 :: F2).Pairwise P := by
  rw [List.pairwise_append] at h ⊢
  obtain ⟨hF1, hr, hc⟩ := h
  rw [List.pairwise_cons] at hr ⊢
  refine ⟨hF1, ⟨fun b hb => h1 b (hr.1 b hb), hr.2⟩, ?_⟩
  intro a ha b hb
  rcases List.mem_cons.mp hb with rfl | hb
  · exact h2 a (hc a ha _ List.mem_cons_self)
  · exact hc a ha b (List.mem_cons_of_mem _ hb)

/-- the heights of all active edges at the next event abscissa are strictly ordered, except for
    edges ending there in the same vertex -/
theorem heights_advance (hN : NoCross R) {xs x' : Rat} {L : List AE}
    (hS : ∀ a ∈ L, Span R xs a) (hP : L.Pairwise (Below R xs))
    (hu : ∀ a ∈ L, ∀ b ∈ L, a.lv = b.lv → a.rv = b.rv → a = b) (hx : xs < x')
    (hr : ∀ a ∈ L, x' ≤ R.x a.rv) :
    L.Pairwise (fun a b => hY R a x' < hY R b x' ∨ (x' = R.x a.rv ∧ a.rv = b.rv)) := by
  have hirr : ∀ a ∈ L, ∀ b ∈ L, Below R xs a b → a ≠ b := by
    intro a _ b _ hab e
    subst e
    exact below_irrefl xs a hab
  refine List.Pairwise.imp_of_mem ?_ hP
  intro a b ha hb hab
  apply advance hN (hS a ha) (hS b hb) hab ?_ hx (hr a ha) (hr b hb)
  rintro ⟨e1, e2⟩
  exact hirr a ha b hb hab (hu a ha b hb e1 e2)


theorem eq_singleton_of {β : Type} {l : List β} {x : β} (hnd : l.Nodup) (h : ∀ e, e ∈ l ↔ e = x) :
    l = [x] := by
  cases l with
  | nil => exact absurd ((h x).mpr rfl) (by simp)
  | cons a t =>
    have ha : a = x := (h a).mp List.mem_cons_self
    subst ha
    cases t with
    | nil => rfl
    | cons b t' =>
      have hb : b = a := (h b).mp (by simp)
      subst hb
      simp at hnd

/-- a list whose elements are pairwise related by an irreflexive relation has no duplicates -/
theorem nodup_of_pairwise_below {xs : Rat} {L : List AE} (h : L.Pairwise (Below R xs)) : L.Nodup := by
  refine List.Pairwise.imp ?_ h
  intro a b hab e
  subst e
  exact below_irrefl xs a hab

/-- the neighbours of a vertex -/
theorem adj_cases {w v : Nat} (h : Adj R w v) : v = R.nxt w ∨ v = R.prv w := by
  rcases h with h | h
  · exact Or.inl h.symm
  · exact Or.inr h.symm

/-- **the edge registered with a Bend vertex**: `w` has its left neighbour `u` and its right
    neighbour `w'`; exactly one active edge ends at `w`, it comes from `u` and it is the only edge
    registered with `w` -/
theorem bend_es (hR : RingOK R V) {xs : Rat} {E : List AE} {w u w' : Nat} {es : List Nat}
    {rest : List (Nat × List Nat)}
    (hS : ∀ a ∈ E, Span R xs a) (hq : QCore R xs E ((w, es) :: rest)) (hc : Cross R xs E)
    (hnb : (R.prv w = u ∧ R.nxt w = w') ∨ (R.prv w = w' ∧ R.nxt w = u))
    (hxu : R.x u < R.x w) (hxw' : R.x w < R.x w') :
    ∃ F1 a0 F2, E = F1 ++ a0 :: F2 ∧ a0.lv = u ∧ a0.rv = w ∧ es = [a0.id] ∧
      ∀ a ∈ E, a.rv = w → a = a0 := by
  have hw := hq.gt (w, es) List.mem_cons_self
  have hwn : w < R.n := hw.1
  have hun : u < R.n := by
    rcases hnb with ⟨h, -⟩ | ⟨-, h⟩
    · rw [← h]; exact hR.prv_lt w hwn
    · rw [← h]; exact hR.nxt_lt w hwn
  have hadjwu : Adj R w u := by
    rcases hnb with ⟨h, -⟩ | ⟨-, h⟩
    · exact Or.inr h
    · exact Or.inl h
  have hgap := no_gap hR hq hc
  have hus : R.x u ≤ xs := by
    by_contra hcon
    exact absurd (hgap u hun (not_le.mp hcon)) (not_le.mpr hxu)
  obtain ⟨a0, ha0, h1, h2⟩ := hc u w hun hwn (adj_symm hR hwn hadjwu) hus hw.2
  obtain ⟨F1, F2, hE⟩ := List.append_of_mem ha0
  have honly : ∀ a ∈ E, a.rv = w → a = a0 := by
    intro a ha harv
    have hsp := hS a ha
    have hadj : Adj R w a.lv := by
      have := adj_symm hR hsp.lv_lt hsp.adj
      rw [harv] at this; exact this
    have hlv : a.lv = u := by
      have hne : a.lv ≠ w' := by
        intro e
        have := hsp.le
        rw [e] at this
        exact absurd (lt_trans hw.2 hxw') (not_lt.mpr this)
      rcases adj_cases hadj with h | h <;> rcases hnb with ⟨h3, h4⟩ | ⟨h3, h4⟩
      · rw [h4] at h; exact absurd h hne
      · rw [h4] at h; exact h
      · rw [h3] at h; exact h
      · rw [h3] at h; exact absurd h hne
    exact hq.uniq a ha a0 ha0 (hlv.trans h1.symm) (harv.trans h2.symm)
  obtain ⟨hnd, hmem⟩ := hq.reg (w, es) List.mem_cons_self
  refine ⟨F1, a0, F2, hE, h1, h2, ?_, honly⟩
  apply eq_singleton_of hnd
  intro e
  rw [hmem e]
  constructor
  · rintro ⟨a, ha, rfl, harv⟩
    rw [honly a ha harv]
  · rintro rfl
    exact ⟨a0, ha0, rfl, h2⟩


/-- the overlap test of a new edge `w → w'` against an edge that is strictly below its left end -/
theorem wob_of_below (hR : RingOK R V) (hN : NoCross R) {b anew : AE} {x0 : Rat}
    (hb : Span R x0 b) (hn : Span R x0 anew) (hx0 : R.x anew.lv = x0)
    (hlt : hY R b x0 < hY R anew x0) (hne : b.lv ≠ anew.lv) :
    wobP (Fq (R.pt anew.lv)) (Fq (R.pt anew.rv)) (Fq (R.pt b.lv)) (Fq (R.pt b.rv)) = false := by
  have hpair : ¬ (b.lv = anew.lv ∧ b.rv = anew.rv) := fun h => hne h.1
  apply wobP_false _ _ _ _ hn.lt hb.lt (by show R.x b.lv ≤ R.x anew.lv; rw [hx0]; exact hb.le)
    (by show R.x anew.lv < R.x b.rv; rw [hx0]; exact hb.gt)
  · intro h
    have := hR.distinct _ _ hn.rv_lt hb.rv_lt h
    rw [this]
  · intro h
    rcases advance hN hb hn (Or.inl hlt) hpair hn.gt (le_of_lt h) (le_refl _) with h1 | ⟨h1, -⟩
    · apply orient_pos_of_above _ _ _ hb.lt
      have e : hY R anew (R.x anew.rv) = (R.pt anew.rv).2 := lineY_right _ _ hn.lt
      rw [← e]; exact h1
    · exact absurd h1 (ne_of_lt h)
  · intro h
    rcases advance hN hb hn (Or.inl hlt) hpair hb.gt (le_refl _) (le_of_lt h) with h1 | ⟨-, h1⟩
    · apply orient_neg_of_below _ _ _ hn.lt
      have e : hY R b (R.x b.rv) = (R.pt b.rv).2 := lineY_right _ _ hb.lt
      rw [← e]; exact h1
    · exact absurd h (by rw [h1]; exact lt_irrefl _)

/-- the overlap test of a new edge against an edge that is strictly above its left end -/
theorem wot_of_above (hR : RingOK R V) (hN : NoCross R) {t anew : AE} {x0 : Rat}
    (ht : Span R x0 t) (hn : Span R x0 anew) (hx0 : R.x anew.lv = x0)
    (hlt : hY R anew x0 < hY R t x0) (hne : anew.lv ≠ t.lv) :
    wotP (Fq (R.pt anew.lv)) (Fq (R.pt anew.rv)) (Fq (R.pt t.lv)) (Fq (R.pt t.rv)) = false := by
  have hpair : ¬ (anew.lv = t.lv ∧ anew.rv = t.rv) := fun h => hne h.1
  apply wotP_false _ _ _ _ hn.lt ht.lt (by show R.x t.lv ≤ R.x anew.lv; rw [hx0]; exact ht.le)
    (by show R.x anew.lv < R.x t.rv; rw [hx0]; exact ht.gt)
  · intro h
    have := hR.distinct _ _ hn.rv_lt ht.rv_lt h
    rw [this]
  · intro h
    rcases advance hN hn ht (Or.inl hlt) hpair hn.gt (le_refl _) (le_of_lt h) with h1 | ⟨-, h1⟩
    · apply orient_neg_of_below _ _ _ ht.lt
      have e : hY R anew (R.x anew.rv) = (R.pt anew.rv).2 := lineY_right _ _ hn.lt
      rw [← e]; exact h1
    · exact absurd h (by rw [h1]; exact lt_irrefl _)
  · intro h
    rcases advance hN hn ht (Or.inl hlt) hpair ht.gt (le_of_lt h) (le_refl _) with h1 | ⟨h1, -⟩
    · apply orient_pos_of_above _ _ _ hn.lt
      have e : hY R t (R.x t.rv) = (R.pt t.rv).2 := lineY_right _ _ ht.lt
      rw [← e]; exact h1
    · exact absurd h1 (ne_of_lt h)


/-- **the Bend event on the flat active list**: the edge `a0` (anywhere in the list) ends at the
    Bend vertex `w` and is replaced by the edge `w → w'`; the order, the queue and the crossing
    invariant are kept, and the overlap tests against every lower / upper edge are negative -/
theorem bend_flat (hR : RingOK R V) (hN : NoCross R) {xs : Rat} {F1 F2 : List AE} {a0 : AE}
    {w w' : Nat} {es : List Nat} {rest : List (Nat × List Nat)}
    (hS : ∀ a ∈ F1 ++ a0 :: F2, Span R xs a)
    (hP : (F1 ++ a0 :: F2).Pairwise (Below R xs))
    (hq : QCore R xs (F1 ++ a0 :: F2) ((w, es) :: rest))
    (hc : Cross R xs (F1 ++ a0 :: F2))
    (hw' : w' < R.n) (hadj : Adj R w w') (hxw' : R.x w < R.x w')
    (hright : ∀ v, v < R.n → Adj R w v → R.x w < R.x v → v = w')
    (ha0 : a0.rv = w) (honly : ∀ a ∈ F1 ++ a0 :: F2, a.rv = w → a = a0) :
    (∀ a ∈ F1 ++ (⟨a0.id, w, w'⟩ : AE) :: F2, Span R (R.x w) a) ∧
    (F1 ++ (⟨a0.id, w, w'⟩ : AE) :: F2).Pairwise (Below R (R.x w)) ∧
    QCore R (R.x w) (F1 ++ (⟨a0.id, w, w'⟩ : AE) :: F2) (qAdd R w' a0.id rest) ∧
    Cross R (R.x w) (F1 ++ (⟨a0.id, w, w'⟩ : AE) :: F2) ∧
    (∀ b ∈ F1, wobP (Fq (R.pt w)) (Fq (R.pt w')) (Fq (R.pt b.lv)) (Fq (R.pt b.rv)) = false) ∧
    (∀ t ∈ F2, wotP (Fq (R.pt w)) (Fq (R.pt w')) (Fq (R.pt t.lv)) (Fq (R.pt t.rv)) = false) := by
  have hwq := hq.gt (w, es) List.mem_cons_self
  have hwn : w < R.n := hwq.1
  have hxs : xs < R.x w := hwq.2
  have hhead : ∀ ev ∈ rest, R.x w < R.x ev.1 := (List.pairwise_cons.mp hq.sorted).1
  have hnd : (F1 ++ a0 :: F2).Nodup := nodup_of_pairwise_below hP
  have ha0mem : a0 ∈ F1 ++ a0 :: F2 := by simp
  have hsp0 := hS a0 ha0mem
  -- the other edges reach beyond `w`
  have hmid : ∀ a, a ∈ F1 ++ F2 → a ∈ F1 ++ a0 :: F2 ∧ a ≠ a0 := by
    intro a ha
    have hmem : a ∈ F1 ++ a0 :: F2 := by
      rcases List.mem_append.mp ha with h | h
      · exact List.mem_append_left _ h
      · exact List.mem_append_right _ (List.mem_cons_of_mem _ h)
    refine ⟨hmem, ?_⟩
    rintro rfl
    rw [List.nodup_append] at hnd
    rcases List.mem_append.mp ha with h | h
    · exact hnd.2.2 _ h _ List.mem_cons_self rfl
    · exact (List.nodup_cons.mp hnd.2.1).1 h
  have hbeyond : ∀ a ∈ F1 ++ a0 :: F2, a ≠ a0 → R.x w < R.x a.rv := by
    intro a ha hne
    obtain ⟨es', hm⟩ := hq.regAll a ha
    rcases List.mem_cons.mp hm with hm | hm
    · have : a.rv = w := by cases hm; rfl
      exact absurd (honly a ha this) hne
    · exact hhead _ hm
  have hreach : ∀ a ∈ F1 ++ a0 :: F2, R.x w ≤ R.x a.rv := by
    intro a ha
    by_cases h : a = a0
    · rw [h, ha0]
    · exact le_of_lt (hbeyond a ha h)
  -- strict heights at `w`
  have hH := heights_advance hN hS hP hq.uniq hxs hreach
  have hne : (F1 ++ a0 :: F2).Pairwise (fun a b => a ≠ b) := hnd
  have hstrict : (F1 ++ a0 :: F2).Pairwise (fun a b => hY R a (R.x w) < hY R b (R.x w)) := by
    have := hH.and hne
    refine List.Pairwise.imp_of_mem ?_ this
    rintro a b ha hb ⟨h1 | ⟨h1, h2⟩, h3⟩
    · exact h1
    · exfalso
      have e1 : a.rv = w := (hR.distinct _ _ hwn (hS a ha).rv_lt h1).symm
      have e2 : b.rv = w := by rw [← h2]; exact e1
      exact h3 ((honly a ha e1).trans (honly b hb e2).symm)
  have hy0 : hY R a0 (R.x w) = (R.pt w).2 := by
    have := lineY_right (R.pt a0.lv) (R.pt a0.rv) hsp0.lt
    rw [ha0] at this
    show lineY (R.pt a0.lv) (R.pt a0.rv) (R.pt w).1 = _
    rw [ha0]; exact this
  have hy1 : hY R (⟨a0.id, w, w'⟩ : AE) (R.x w) = (R.pt w).2 := lineY_left _ _
  have hstrict' : (F1 ++ (⟨a0.id, w, w'⟩ : AE) :: F2).Pairwise
      (fun a b => hY R a (R.x w) < hY R b (R.x w)) := by
    refine pairwise_replace ?_ ?_ hstrict
    · intro b hb; rw [hy1, ← hy0]; exact hb
    · intro b hb; rw [hy1, ← hy0]; exact hb
  have hnewspan : Span R (R.x w) (⟨a0.id, w, w'⟩ : AE) := ⟨hwn, hw', hadj, le_refl _, hxw'⟩
  have hspan' : ∀ a ∈ F1 ++ F2, Span R (R.x w) a := by
    intro a ha
    obtain ⟨hm, hne⟩ := hmid a ha
    have := hS a hm
    exact ⟨this.lv_lt, this.rv_lt, this.adj, le_trans this.le (le_of_lt hxs), hbeyond a hm hne⟩
  have hmemnew : ∀ a, a ∈ F1 ++ (⟨a0.id, w, w'⟩ : AE) :: F2 ↔ a = ⟨a0.id, w, w'⟩ ∨ a ∈ F1 ++ F2 := by
    intro a
    simp only [List.mem_append, List.mem_cons]
    tauto
  have hmemmid : ∀ a, a ∈ F1 ++ F2 ↔ a ∈ F1 ++ a0 :: F2 ∧ a.rv ≠ w := by
    intro a
    constructor
    · intro ha
      obtain ⟨hm, hne⟩ := hmid a ha
      exact ⟨hm, fun e => hne (honly a hm e)⟩
    · rintro ⟨hm, hnw⟩
      have hna : a ≠ a0 := fun e => hnw (by rw [e]; exact ha0)
      simp only [List.mem_append, List.mem_cons] at hm ⊢
      tauto
  refine ⟨?_, ?_, ?_, ?_, ?_, ?_⟩
  · intro a ha
    rcases (hmemnew a).mp ha with rfl | ha
    · exact hnewspan
    · exact hspan' a ha
  · exact hstrict'.imp (fun h => Or.inl h)
  · have hpop := hq.pop hmemmid
    refine hpop.add hR ⟨a0.id, w, w'⟩ hw' hxw' ?_ ?_ hmemnew
    · intro b hb
      obtain ⟨hm, hne⟩ := hmid b hb
      intro e
      exact hne (hq.idinj b hm a0 ha0mem e)
    · intro b hb
      obtain ⟨hm, hne⟩ := hmid b hb
      rintro ⟨e, -⟩
      have := (hS b hm).le
      simp only at e
      rw [e] at this
      exact absurd hxs (not_lt.mpr this)
  · refine cross_step hR hwn hxs hc (no_gap hR hq hc) (new := [⟨a0.id, w, w'⟩]) ?_ ?_
    · intro a
      rw [hmemnew a, hmemmid a]
      simp only [List.mem_singleton]
      tauto
    · intro v hv hav hxv
      exact ⟨_, List.mem_singleton.mpr rfl, rfl, (hright v hv hav hxv).symm⟩
  · intro b hb
    have hbmid : b ∈ F1 ++ F2 := List.mem_append_left _ hb
    have hlt : hY R b (R.x w) < hY R (⟨a0.id, w, w'⟩ : AE) (R.x w) := by
      rw [List.pairwise_append] at hstrict'
      exact hstrict'.2.2 b hb _ List.mem_cons_self
    have hne : b.lv ≠ w := by
      intro e
      have := (hS b (hmid b hbmid).1).le
      rw [e] at this
      exact absurd hxs (not_lt.mpr this)
    exact wob_of_below hR hN (hspan' b hbmid) hnewspan rfl hlt hne
  · intro t ht
    have htmid : t ∈ F1 ++ F2 := List.mem_append_right _ ht
    have hlt : hY R (⟨a0.id, w, w'⟩ : AE) (R.x w) < hY R t (R.x w) := by
      rw [List.pairwise_append, List.pairwise_cons] at hstrict'
      exact hstrict'.2.1.1 t ht
    have hne : w ≠ t.lv := by
      intro e
      have := (hS t (hmid t htmid).1).le
      rw [← e] at this
      exact absurd hxs (not_lt.mpr this)
    exact wot_of_above hR hN (hspan' t htmid) hnewspan rfl hlt hne

end Cav.GenStepBend
