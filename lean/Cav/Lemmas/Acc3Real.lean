/-
  Helper lemmas for `Thm/C08Accuracy`: the exact value `triIntegral terms t` of one triangle as a
  real ITERATED integral over the unit simplex of the integrand composed with the affine
  parametrisation of the triangle,

    `triIntegral terms t = triFactor t · ∫_0^1 ∫_0^{1−s} p(p0 + s(p1−p0) + r(p2−p0)) dr ds`,

  `p` the polynomial with the given terms evaluated at REAL arguments (`evalTermsR`), `triFactor t`
  twice the area of `t`.
-/
import Cav.Lemmas.Acc3Tot

namespace Cav.Acc3
open Cav Num Cav.Acc2 Cav.C01 Cav.C09Accuracy Cav.C07Accuracy

/-! ### polynomials in two real variables -/

/-- `Σ c·x^i·y^j` at real arguments -/
noncomputable def evalTermsR (terms : List (Nat × Nat × Rat)) (x y : ℝ) : ℝ :=
  (terms.map (fun tm => ((tm.2.2 : Rat) : ℝ) * x ^ tm.1 * y ^ tm.2.1)).sum

@[simp] theorem evalTermsR_nil (x y : ℝ) : evalTermsR [] x y = 0 := rfl
@[simp] theorem evalTermsR_cons (tm : Nat × Nat × Rat) (terms : List (Nat × Nat × Rat)) (x y : ℝ) :
    evalTermsR (tm :: terms) x y =
      ((tm.2.2 : Rat) : ℝ) * x ^ tm.1 * y ^ tm.2.1 + evalTermsR terms x y := by
  simp [evalTermsR]

theorem evalTermsR_cast (terms : List (Nat × Nat × Rat)) (x y : Rat) :
    evalTermsR terms (x : ℝ) (y : ℝ) = ((evalTerms terms x y : Rat) : ℝ) := by
  induction terms with
  | nil => simp
  | cons tm ts ih => rw [evalTermsR_cons, evalTerms_cons, ih]; push_cast; rfl

theorem evalTermsR_continuous (terms : List (Nat × Nat × Rat)) :
    Continuous (fun p : ℝ × ℝ => evalTermsR terms p.1 p.2) := by
  induction terms with
  | nil => simpa using continuous_const
  | cons tm ts ih =>
    simp only [evalTermsR_cons]
    fun_prop

/-- Horner evaluation of a list of REAL coefficients -/
noncomputable def hornerR : List ℝ → ℝ → ℝ
  | [], _ => 0
  | c :: cs, r => c + r * hornerR cs r

/-- `Σ_j cs[j]/(k+j) · r^j` in Horner form -/
noncomputable def antiR : Nat → List ℝ → ℝ → ℝ
  | _, [], _ => 0
  | k, c :: cs, r => c / (k : ℝ) + r * antiR (k + 1) cs r

theorem hornerR_continuous (cs : List ℝ) : Continuous (hornerR cs) := by
  induction cs with
  | nil => exact continuous_const
  | cons c cs ih =>
    show Continuous (fun r => c + r * hornerR cs r)
    exact continuous_const.add (continuous_id.mul ih)

theorem hasDerivAt_antiR (cs : List ℝ) (k : Nat) (r : ℝ) :
    HasDerivAt (fun r => r ^ (k + 1) * antiR (k + 1) cs r) (r ^ k * hornerR cs r) r := by
  induction cs generalizing k with
  | nil =>
    simp only [antiR, hornerR, mul_zero]
    exact hasDerivAt_const r 0
  | cons c cs ih =>
    have h1 : HasDerivAt (fun r : ℝ => c / ((k + 1 : Nat) : ℝ) * r ^ (k + 1))
        (c / ((k + 1 : Nat) : ℝ) * (((k + 1 : Nat) : ℝ) * r ^ k)) r := by
      have := (hasDerivAt_pow (k + 1) r).const_mul (c / ((k + 1 : Nat) : ℝ))
      simpa using this
    have h2 := ih (k + 1)
    have hk : ((k + 1 : Nat) : ℝ) ≠ 0 := by positivity
    have h3 := h1.add h2
    have e1 : (fun r : ℝ => r ^ (k + 1) * antiR (k + 1) (c :: cs) r) =
        (fun r : ℝ => c / ((k + 1 : Nat) : ℝ) * r ^ (k + 1)) +
          (fun r : ℝ => r ^ (k + 1 + 1) * antiR (k + 1 + 1) cs r) := by
      funext x
      simp only [antiR, Pi.add_apply]
      ring
    have e2 : r ^ k * hornerR (c :: cs) r =
        c / ((k + 1 : Nat) : ℝ) * (((k + 1 : Nat) : ℝ) * r ^ k) + r ^ (k + 1) * hornerR cs r := by
      simp only [hornerR]
      field_simp
      ring
    rw [e1, e2]
    exact h3

/-- the integral of a Horner polynomial from `0` -/
theorem integral_hornerR (cs : List ℝ) (b : ℝ) :
    ∫ r in (0 : ℝ)..b, hornerR cs r = b * antiR 1 cs b := by
  have h := intervalIntegral.integral_eq_sub_of_hasDerivAt
    (f := fun r => r ^ (0 + 1) * antiR (0 + 1) cs r) (f' := fun r => r ^ 0 * hornerR cs r)
    (a := 0) (b := b) (fun x _ => hasDerivAt_antiR cs 0 x)
    (by simpa using (hornerR_continuous cs).intervalIntegrable 0 b)
  simpa using h

/-- bivariate polynomial (lists of coefficient lists) at real arguments -/
noncomputable def evalPoly2R (G : List (List Rat)) (s r : ℝ) : ℝ :=
  hornerR (G.map fun q => evalPolyR q s) r

@[simp] theorem evalPoly2R_nil (s r : ℝ) : evalPoly2R [] s r = 0 := rfl
@[simp] theorem evalPoly2R_cons (q : List Rat) (G : List (List Rat)) (s r : ℝ) :
    evalPoly2R (q :: G) s r = evalPolyR q s + r * evalPoly2R G s r := rfl

theorem evalPoly2R_cast (G : List (List Rat)) (s r : Rat) :
    evalPoly2R G (s : ℝ) (r : ℝ) = ((evalPoly2 G s r : Rat) : ℝ) := by
  induction G with
  | nil => simp [evalPoly2]
  | cons q G ih =>
    have : evalPoly2 (q :: G) s r = evalPoly q s + r * evalPoly2 G s r := by
      simp only [evalPoly2, coeffsAt_cons, evalPoly_cons]
    rw [evalPoly2R_cons, ih, this, evalPolyR_cast]
    push_cast
    rfl

theorem evalPoly2R_continuous_left (G : List (List Rat)) (r : ℝ) :
    Continuous (fun s => evalPoly2R G s r) := by
  induction G with
  | nil => exact continuous_const
  | cons q G ih =>
    simp only [evalPoly2R_cons]
    exact (evalPolyR_continuous q).add (continuous_const.mul ih)

theorem evalPoly2R_continuous_right (G : List (List Rat)) (s : ℝ) :
    Continuous (fun r => evalPoly2R G s r) := hornerR_continuous _

/-! ### the transformed integrand at real barycentric coordinates -/

/-- `triFactor t · p(p0 + s(p1−p0) + r(p2−p0))` at real `(s, r)` -/
noncomputable def triIntegrandR (terms : List (Nat × Nat × Rat))
    (t : (Rat × Rat) × (Rat × Rat) × (Rat × Rat)) (s r : ℝ) : ℝ :=
  ((triFactor t : Rat) : ℝ) *
    evalTermsR terms
      ((t.1.1 : ℝ) + ((t.2.1.1 - t.1.1 : Rat) : ℝ) * s + ((t.2.2.1 - t.1.1 : Rat) : ℝ) * r)
      ((t.1.2 : ℝ) + ((t.2.1.2 - t.1.2 : Rat) : ℝ) * s + ((t.2.2.2 - t.1.2 : Rat) : ℝ) * r)

theorem triIntegrandR_cast (terms : List (Nat × Nat × Rat))
    (t : (Rat × Rat) × (Rat × Rat) × (Rat × Rat)) (s r : Rat) :
    triIntegrandR terms t (s : ℝ) (r : ℝ) = ((evalPoly2 (triPoly terms t) s r : Rat) : ℝ) := by
  rw [triPoly, evalPoly2_triPolyAux, triIntegrandR]
  have := evalTermsR_cast terms (t.1.1 + (t.2.1.1 - t.1.1) * s + (t.2.2.1 - t.1.1) * r)
    (t.1.2 + (t.2.1.2 - t.1.2) * s + (t.2.2.2 - t.1.2) * r)
  push_cast at this ⊢
  rw [this]

theorem triIntegrandR_continuous (terms : List (Nat × Nat × Rat))
    (t : (Rat × Rat) × (Rat × Rat) × (Rat × Rat)) :
    Continuous (fun p : ℝ × ℝ => triIntegrandR terms t p.1 p.2) := by
  unfold triIntegrandR
  have h := evalTermsR_continuous terms
  have hg : Continuous (fun p : ℝ × ℝ =>
      ((t.1.1 : ℝ) + ((t.2.1.1 - t.1.1 : Rat) : ℝ) * p.1 + ((t.2.2.1 - t.1.1 : Rat) : ℝ) * p.2,
        (t.1.2 : ℝ) + ((t.2.1.2 - t.1.2 : Rat) : ℝ) * p.1 + ((t.2.2.2 - t.1.2 : Rat) : ℝ) * p.2)) := by
    fun_prop
  exact continuous_const.mul (h.comp hg)

/-- the coefficient lists `triPoly terms t` evaluate to the transformed integrand at ALL real
    barycentric coordinates -/
theorem evalPoly2R_triPoly (terms : List (Nat × Nat × Rat))
    (t : (Rat × Rat) × (Rat × Rat) × (Rat × Rat)) (s r : ℝ) :
    evalPoly2R (triPoly terms t) s r = triIntegrandR terms t s r := by
  have hc := triIntegrandR_continuous terms t
  -- rational `s`, all `r`
  have h1 : ∀ (q : Rat) (r : ℝ),
      evalPoly2R (triPoly terms t) (q : ℝ) r = triIntegrandR terms t (q : ℝ) r := by
    intro q r
    refine eq_of_eq_on_rat (F := fun r => evalPoly2R (triPoly terms t) (q : ℝ) r)
      (G := fun r => triIntegrandR terms t (q : ℝ) r) (evalPoly2R_continuous_right _ _)
      (hc.comp (Continuous.prodMk continuous_const continuous_id)) (fun p => ?_) r
    simp only [evalPoly2R_cast, triIntegrandR_cast]
  exact eq_of_eq_on_rat (F := fun s => evalPoly2R (triPoly terms t) s r)
    (G := fun s => triIntegrandR terms t s r) (evalPoly2R_continuous_left _ _)
    (hc.comp (Continuous.prodMk continuous_id continuous_const)) (fun q => h1 q r) s

/-! ### the inner integral at real outer abscissae -/

theorem evalPolyR_polyAdd (p q : List Rat) (t : ℝ) :
    evalPolyR (polyAdd p q) t = evalPolyR p t + evalPolyR q t := by
  refine eq_of_eq_on_rat (F := fun t => evalPolyR (polyAdd p q) t)
    (G := fun t => evalPolyR p t + evalPolyR q t) (evalPolyR_continuous _)
    ((evalPolyR_continuous p).add (evalPolyR_continuous q)) (fun r => ?_) t
  simp only [evalPolyR_cast, evalPoly_polyAdd, Rat.cast_add]

theorem evalPolyR_polyScale (a : Rat) (p : List Rat) (t : ℝ) :
    evalPolyR (polyScale a p) t = (a : ℝ) * evalPolyR p t := by
  refine eq_of_eq_on_rat (F := fun t => evalPolyR (polyScale a p) t)
    (G := fun t => (a : ℝ) * evalPolyR p t) (evalPolyR_continuous _)
    (continuous_const.mul (evalPolyR_continuous p)) (fun r => ?_) t
  simp only [evalPolyR_cast, evalPoly_polyScale, Rat.cast_mul]

theorem evalPolyR_one_sub (s : ℝ) : evalPolyR [1, -1] s = 1 - s := by
  simp only [evalPolyR_cons, evalPolyR_nil]
  push_cast
  ring

theorem evalPolyR_triInnerAux (k : Nat) (G : List (List Rat)) (s : ℝ) :
    evalPolyR (triInnerAux k G) s = antiR k (G.map fun q => evalPolyR q s) (1 - s) := by
  induction G generalizing k with
  | nil => simp [triInnerAux, antiR, evalPolyR_nil]
  | cons q G ih =>
    simp only [triInnerAux, List.map_cons, antiR, evalPolyR_polyAdd, evalPolyR_polyScale,
      evalPolyR_polyMul, evalPolyR_one_sub, ih]
    push_cast
    ring

/-- **`triInner G` is the inner integral over `[0, 1−s]` at every REAL `s`** -/
theorem evalPolyR_triInner (G : List (List Rat)) (s : ℝ) :
    evalPolyR (triInner G) s = ∫ r in (0 : ℝ)..(1 - s), evalPoly2R G s r := by
  unfold evalPoly2R
  rw [integral_hornerR, triInner, evalPolyR_polyMul, evalPolyR_one_sub, evalPolyR_triInnerAux]

/-! ### the exact value as an iterated integral -/

/-- **the exact value of one triangle is the iterated integral over the unit simplex** of the
    transformed integrand `triFactor t · p(p0 + s(p1−p0) + r(p2−p0))` -/
theorem triIntegral_eq_iterated (terms : List (Nat × Nat × Rat))
    (t : (Rat × Rat) × (Rat × Rat) × (Rat × Rat)) :
    triIntegral terms t =
      ∫ s in (0 : ℝ)..1, ∫ r in (0 : ℝ)..(1 - s), triIntegrandR terms t s r := by
  unfold triIntegral
  simp only [Rat.cast_zero, Rat.cast_one]
  apply intervalIntegral.integral_congr
  intro s _
  simp only [evalPolyR_triInner, evalPoly2R_triPoly]

/-- … `= 2·area(t) ·` the iterated integral of the polynomial composed with the affine
    parametrisation of the triangle -/
theorem triIntegral_eq_area_mul (terms : List (Nat × Nat × Rat))
    (t : (Rat × Rat) × (Rat × Rat) × (Rat × Rat)) :
    triIntegral terms t =
      ((triFactor t : Rat) : ℝ) *
        ∫ s in (0 : ℝ)..1, ∫ r in (0 : ℝ)..(1 - s),
          evalTermsR terms
            ((t.1.1 : ℝ) + ((t.2.1.1 - t.1.1 : Rat) : ℝ) * s + ((t.2.2.1 - t.1.1 : Rat) : ℝ) * r)
            ((t.1.2 : ℝ) + ((t.2.1.2 - t.1.2 : Rat) : ℝ) * s + ((t.2.2.2 - t.1.2 : Rat) : ℝ) * r) := by
  rw [triIntegral_eq_iterated]
  unfold triIntegrandR
  simp only [intervalIntegral.integral_const_mul]

/-! ### the polynomial `terms'` of the theorems IS `f · |det Dg|` at real points -/

/-- two continuous functions on the plane that agree on `ℚ × ℚ` agree everywhere -/
theorem eq_of_eq_on_rat2 {Φ Ψ : ℝ × ℝ → ℝ} (hΦ : Continuous Φ) (hΨ : Continuous Ψ)
    (h : ∀ x y : Rat, Φ ((x : ℝ), (y : ℝ)) = Ψ ((x : ℝ), (y : ℝ))) (p : ℝ × ℝ) : Φ p = Ψ p := by
  have hd : DenseRange (Prod.map (Rat.cast : Rat → ℝ) (Rat.cast : Rat → ℝ)) :=
    (Rat.denseRange_cast (𝕜 := ℝ)).prodMap (Rat.denseRange_cast (𝕜 := ℝ))
  exact congrFun (hd.equalizer hΦ hΨ (funext fun q => h q.1 q.2)) p

/-- the point of the triangle with barycentric coordinates `(1 − s − r, s, r)` -/
noncomputable def paramX (t : (Rat × Rat) × (Rat × Rat) × (Rat × Rat)) (s r : ℝ) : ℝ :=
  (t.1.1 : ℝ) + ((t.2.1.1 - t.1.1 : Rat) : ℝ) * s + ((t.2.2.1 - t.1.1 : Rat) : ℝ) * r
noncomputable def paramY (t : (Rat × Rat) × (Rat × Rat) × (Rat × Rat)) (s r : ℝ) : ℝ :=
  (t.1.2 : ℝ) + ((t.2.1.2 - t.1.2 : Rat) : ℝ) * s + ((t.2.2.2 - t.1.2 : Rat) : ℝ) * r

/-- the exact value of a triangle for ANY continuous integrand `φ` that the polynomial `terms'`
    represents at the rational points: `2·area(t) · ∫_0^1 ∫_0^{1−s} φ(P(s,r)) dr ds` -/
theorem triExactQ_eq_iterated (terms' : List (Nat × Nat × Rat)) (φ : ℝ × ℝ → ℝ)
    (hφ : Continuous φ) (h : ∀ x y : Rat, φ ((x : ℝ), (y : ℝ)) = ((evalTerms terms' x y : Rat) : ℝ))
    (t : (Rat × Rat) × (Rat × Rat) × (Rat × Rat)) :
    ((triExactQ terms' t : Rat) : ℝ) =
      ((triFactor t : Rat) : ℝ) *
        ∫ s in (0 : ℝ)..1, ∫ r in (0 : ℝ)..(1 - s), φ (paramX t s r, paramY t s r) := by
  have e : ∀ p : ℝ × ℝ, φ p = evalTermsR terms' p.1 p.2 :=
    eq_of_eq_on_rat2 hφ (evalTermsR_continuous terms')
      (fun x y => by rw [h, evalTermsR_cast])
  rw [← triIntegral_eq, triIntegral_eq_area_mul]
  simp only [e, paramX, paramY]

/-- **sign case**: `cavTerms σ a b terms` is `f · |det Dg|` at real points, so the exact value is
    `2·area(t) · ∫_0^1 ∫_0^{1−s} (f · |1 − a·f_x − b·f_y|)(P(s,r)) dr ds` -/
theorem triExactQ_cavTerms (terms : List (Nat × Nat × Rat)) (σ a b : Rat) (hσ : σ = 1 ∨ σ = -1)
    (hs : ∀ x y : Rat, 0 ≤ σ * evalTerms (detTerms a b terms) x y)
    (t : (Rat × Rat) × (Rat × Rat) × (Rat × Rat)) :
    ((triExactQ (cavTerms σ a b terms) t : Rat) : ℝ) =
      ((triFactor t : Rat) : ℝ) *
        ∫ s in (0 : ℝ)..1, ∫ r in (0 : ℝ)..(1 - s),
          evalTermsR terms (paramX t s r) (paramY t s r) *
            |evalTermsR (detTerms a b terms) (paramX t s r) (paramY t s r)| := by
  refine triExactQ_eq_iterated (cavTerms σ a b terms)
    (fun p => evalTermsR terms p.1 p.2 * |evalTermsR (detTerms a b terms) p.1 p.2|)
    ((evalTermsR_continuous terms).mul (evalTermsR_continuous _).abs) (fun x y => ?_) t
  simp only [evalTermsR_cast]
  rw [cavTerms, evalTerms_mulTerms, evalTerms_scale]
  have h1 : |evalTerms (detTerms a b terms) x y| = σ * evalTerms (detTerms a b terms) x y := by
    rcases hσ with rfl | rfl
    · have := hs x y
      rw [one_mul] at this ⊢
      exact abs_of_nonneg this
    · have := hs x y
      rw [neg_one_mul] at this ⊢
      exact abs_of_nonpos (by linarith)
  rw [← h1]
  push_cast
  rfl

/-- **constant `c`-curve**: the exact value is `2·area(t) · ∫_0^1 ∫_0^{1−s} f(P(s,r)) dr ds` -/
theorem triExactQ_terms (terms : List (Nat × Nat × Rat))
    (t : (Rat × Rat) × (Rat × Rat) × (Rat × Rat)) :
    ((triExactQ terms t : Rat) : ℝ) =
      ((triFactor t : Rat) : ℝ) *
        ∫ s in (0 : ℝ)..1, ∫ r in (0 : ℝ)..(1 - s),
          evalTermsR terms (paramX t s r) (paramY t s r) :=
  triExactQ_eq_iterated terms (fun p => evalTermsR terms p.1 p.2) (evalTermsR_continuous terms)
    (fun x y => evalTermsR_cast terms x y) t

end Cav.Acc3
