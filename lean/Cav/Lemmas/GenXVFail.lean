/-
  Rejection of crossing input, vertical new edges (heap level): `verticalIsCrossed` firing
  (`VicHit`, `run_vic_hit`), the Bend event rejected by `verticalIsCrossed` (`bend_vic`), and the
  Bend event with a positive look-ahead test for a possibly vertical new edge (`bend_failV`).
-/
import Cav.Lemmas.GenVHeapStart
import Cav.Lemmas.GenXFailBend
import Cav.Lemmas.GenXFailStart

set_option linter.unusedSimpArgs false
set_option linter.unusedVariables false
set_option linter.unusedSectionVars false

namespace Cav.GenXVFail
open Cav Num Cav.Sweep Cav.SweepRun Cav.TriRun Cav.QuadRun Cav.CvxHeap Cav.CvxEvents Cav.SweepOut
open Cav.GenNodes Cav.GenQuery Cav.GenActive Cav.GenBend Cav.SweepHeap Cav.TriEvents Cav.GenStart
open Cav.GenVHeap Cav.GenXFail

variable {α : Type} [Num α]

/-- the edge `p → rp` is vertical, every active edge (except `skip`) has a geometry, and one of
    them passes strictly between `p` and `rp` on the sweep line -/
def VicHit (s : St α) (skip : Option Nat) (p rp : Pt α) : Prop :=
  ofEq rp.x p.x = true ∧ (∀ k ∈ s.active, skip ≠ some k → ∃ l r, EG s k l r) ∧
  ∃ k ∈ s.active, skip ≠ some k ∧ ∃ l r, EG s k l r ∧
    (ofLt p.y (yExtrap l r p.x true) && ofLt (yExtrap l r p.x true) rp.y) = true

theorem VicHit.congr {s s' : St α} {skip : Option Nat} {p rp : Pt α} (h : VicHit s skip p rp)
    (h0 : s'.active = s.active) (h1 : s'.edges = s.edges) (h2 : s'.chains = s.chains)
    (h3 : s'.nodes = s.nodes) : VicHit s' skip p rp := by
  obtain ⟨hx, hall, k, hk, hs, l, r, hg, ht⟩ := h
  refine ⟨hx, ?_, k, by rw [h0]; exact hk, hs, l, r, EG.congr h1 h2 h3 hg, ht⟩
  intro k hk hs
  rw [h0] at hk
  obtain ⟨l, r, hg⟩ := hall k hk hs
  exact ⟨l, r, EG.congr h1 h2 h3 hg⟩

theorem run_vic_go_hit (s : St α) (skip : Option Nat) (p rp : Pt α) : ∀ (l : List Nat),
    (∀ k ∈ l, skip ≠ some k → ∃ l' r, EG s k l' r) →
    (∃ k ∈ l, skip ≠ some k ∧ ∃ l' r, EG s k l' r ∧
      (ofLt p.y (yExtrap l' r p.x true) && ofLt (yExtrap l' r p.x true) rp.y) = true) →
    (verticalIsCrossed.go skip p rp l).run s = .ok (true, s)
  | [], _, h => by
    obtain ⟨k, hk, -⟩ := h
    cases hk
  | a :: rest, hall, h => by
    have ih := run_vic_go_hit s skip p rp rest (fun k hk => hall k (List.mem_cons_of_mem _ hk))
    unfold verticalIsCrossed.go
    by_cases hs : skip = some a
    · have : (skip == some a) = true := by rw [hs]; simp
      simp only [this, if_true]
      refine ih ?_
      obtain ⟨k, hk, hsk, hrest⟩ := h
      rcases List.mem_cons.mp hk with hk | hk
      · exact absurd (hk ▸ hs) hsk
      · exact ⟨k, hk, hsk, hrest⟩
    · have : (skip == some a) = false := by simpa using hs
      simp only [this, Bool.false_eq_true, if_false]
      obtain ⟨l', r, e, he, hl, hr⟩ := hall a List.mem_cons_self hs
      cases ht : (ofLt p.y (yExtrap l' r p.x true) && ofLt (yExtrap l' r p.x true) rp.y)
      · simp only [↓run_bind, run_getEdge, he, run_yAt e _ _ s (lpt_isSome hl), lptD_eq hl, hr, ht,
          Bool.false_eq_true, if_false]
        refine ih ?_
        obtain ⟨k, hk, hsk, l2, r2, hg2, ht2⟩ := h
        rcases List.mem_cons.mp hk with hk | hk
        · subst hk
          obtain ⟨e2, he2, hl2, hr2⟩ := hg2
          rw [he] at he2; cases he2
          rw [hl] at hl2; cases hl2
          rw [hr] at hr2; subst hr2
          rw [ht] at ht2; cases ht2
        · exact ⟨k, hk, hsk, l2, r2, hg2, ht2⟩
      · simp only [↓run_bind, run_getEdge, he, run_yAt e _ _ s (lpt_isSome hl), lptD_eq hl, hr, ht,
          if_true, run_pure]

theorem run_vic_hit (s : St α) (skip : Option Nat) (p rp : Pt α) (h : VicHit s skip p rp) :
    (verticalIsCrossed skip p rp).run s = .ok (true, s) := by
  unfold verticalIsCrossed
  obtain ⟨hx, hall, hex⟩ := h
  simp only [hx, Bool.not_true, Bool.false_eq_true, if_false, ↓run_bind, run_get]
  exact run_vic_go_hit s skip p rp s.active hall hex

section
variable (s : St α) (vi e r pr nx a1 a2 a3 a4 a5 a6 ci : Nat) (es' : List Nat)
  (rest : List (Nat × List Nat)) (p q1 q2 rp ro : Pt α) (bof : Bool) (bP tP : Option Nat)
  (c : Chain) (h : Node α)

/-- the Bend event rejected by `verticalIsCrossed` -/
theorem bend_vic
    (hev : s.events = (vi, e :: es') :: rest)
    (hv : s.verts[vi]? = some ⟨p, pr, nx⟩) (h1 : s.verts[pr]? = some ⟨q1, a1, a2⟩)
    (h2 : s.verts[nx]? = some ⟨q2, a3, a4⟩)
    (hft : fromTriplet p q1 q2 = some .bend)
    (hr : (if q1.ge q2 = true then pr else nx) = r) (hrp : s.verts[r]? = some ⟨rp, a5, a6⟩)
    (hvc : VicHit s (some e) p rp) :
    (handleNext : SM α Unit).run s = .error (.overlap .bend p) := by
  rw [handleNext_run_cons hev]
  unfold nextBody
  show Runs s _ _
  sm_steps [hv, h1, h2, hft]
  unfold handleBend
  sm_steps [hv, h1, h2, hft, hr, hrp]
  sm_use (run_vic_hit _ (some e) p rp ?h1)
  case h1 => exact hvc.congr rfl rfl rfl rfl
  sm_whnf
  sm_cond
  exact Runs.final rfl

/-- the Bend event with a positive look-ahead test; the new edge may be vertical -/
theorem bend_failV
    (hev : s.events = (vi, e :: es') :: rest)
    (hv : s.verts[vi]? = some ⟨p, pr, nx⟩) (h1 : s.verts[pr]? = some ⟨q1, a1, a2⟩)
    (h2 : s.verts[nx]? = some ⟨q2, a3, a4⟩)
    (hft : fromTriplet p q1 q2 = some .bend)
    (hr : (if q1.ge q2 = true then pr else nx) = r) (hrp : s.verts[r]? = some ⟨rp, a5, a6⟩)
    (hvc : VicFree s (some e) p rp)
    (hevs : ∀ a ∈ rest, a.1 < s.verts.size)
    (he : s.edges[e]? = some ⟨ro, ci, bof, bP, tP⟩)
    (hc : s.chains[ci]? = some c)
    (hN : NodesOk s.nodes)
    (hnode : s.nodes[if bof then c.head else c.tail]? = some h)
    (hBT : PartnerBad s e ci bof bP (fun lb rb => wobP p rp lb rb) ∨
      (PartnerOk s e ci bof bP (fun lb rb => wobP p rp lb rb) ∧
        PartnerBad s e ci bof tP (fun lt rt => wotP p rp lt rt))) :
    (handleNext : SM α Unit).run s = .error (.overlap .bend p) := by
  rw [handleNext_run_cons hev]
  unfold nextBody
  cases bof
  · -- the edge is the top of its in-interval: the chain grows at the tail
    simp only [Bool.false_eq_true, if_false] at hnode
    obtain ⟨hN1, hsz1, hpt1, hnew1⟩ := appT_props hN hnode p
    obtain ⟨N2, out2, hbt, hN2, hsz2, hpt2⟩ := bt_ok ⟨s.nodes.size, c.head, s.nodes.size⟩ true
      { s with events := rest, x := p.x, nodes := appT s.nodes c.tail h p,
               chains := s.chains.setIfInBounds ci ⟨s.nodes.size, c.head, s.nodes.size⟩ }
      hN1 (by simp only [if_true]; rw [hsz1]; exact Nat.lt_succ_self _)
    have hptA : ∀ i, i < s.nodes.size → ptAt N2 i = ptAt s.nodes i := fun i hi => by
      rw [hpt2 i]; exact hpt1 i hi
    have hnewA : ptAt N2 s.nodes.size = some p := by rw [hpt2]; exact hnew1
    show Runs s _ _
    sm_steps [hv, h1, h2, hft]
    unfold handleBend
    sm_steps [hv, h1, h2, hft, hr, hrp]
    sm_use (run_vic _ (some e) p rp ?h1)
    case h1 => exact hvc.congr rfl rfl rfl rfl
    sm_whnf
    sm_steps [hv, h1, h2, hft, hr, hrp, he, hc]
    sm_by (run_chainAppend_tail _ _ _ _ hnode)
    sm_bind
    sm_by hbt
    sm_bind [he]
    sm_bind
    rcases hBT with hB | ⟨hB, hT⟩
    · sm_by (wob_true s _ e ci false bP tP p rp c ⟨s.nodes.size, c.head, s.nodes.size⟩ true rfl
        (lt_of_get' he) hc rfl rfl hptA hnewA hB)
      sm_cond
      exact Runs.final rfl
    · sm_by (wob_false s _ e ci false bP tP p rp c ⟨s.nodes.size, c.head, s.nodes.size⟩ true rfl
        (lt_of_get' he) hc rfl rfl hptA hnewA hB)
      sm_cond
      sm_by (wot_true s _ e ci false bP tP p rp c ⟨s.nodes.size, c.head, s.nodes.size⟩ true rfl
        (lt_of_get' he) hc rfl rfl hptA hnewA hT)
      sm_cond
      exact Runs.final rfl
  · -- the edge is the bottom of its in-interval: the chain grows at the head
    simp only [if_true] at hnode
    obtain ⟨hN1, hsz1, hpt1, hnew1⟩ := appH_props hN hnode p
    obtain ⟨N2, out2, hbt, hN2, hsz2, hpt2⟩ := bt_ok ⟨s.nodes.size, s.nodes.size, c.tail⟩ false
      { s with events := rest, x := p.x, nodes := appH s.nodes c.head h p,
               chains := s.chains.setIfInBounds ci ⟨s.nodes.size, s.nodes.size, c.tail⟩ }
      hN1 (by simp only [Bool.false_eq_true, if_false]; rw [hsz1]; exact Nat.lt_succ_self _)
    have hptA : ∀ i, i < s.nodes.size → ptAt N2 i = ptAt s.nodes i := fun i hi => by
      rw [hpt2 i]; exact hpt1 i hi
    have hnewA : ptAt N2 s.nodes.size = some p := by rw [hpt2]; exact hnew1
    show Runs s _ _
    sm_steps [hv, h1, h2, hft]
    unfold handleBend
    sm_steps [hv, h1, h2, hft, hr, hrp]
    sm_use (run_vic _ (some e) p rp ?h1)
    case h1 => exact hvc.congr rfl rfl rfl rfl
    sm_whnf
    sm_steps [hv, h1, h2, hft, hr, hrp, he, hc]
    sm_by (run_chainAppend_head _ _ _ _ hnode)
    sm_bind
    sm_by hbt
    sm_bind [he]
    sm_bind
    rcases hBT with hB | ⟨hB, hT⟩
    · sm_by (wob_true s _ e ci true bP tP p rp c ⟨s.nodes.size, s.nodes.size, c.tail⟩ true rfl
        (lt_of_get' he) hc rfl rfl hptA hnewA hB)
      sm_cond
      exact Runs.final rfl
    · sm_by (wob_false s _ e ci true bP tP p rp c ⟨s.nodes.size, s.nodes.size, c.tail⟩ true rfl
        (lt_of_get' he) hc rfl rfl hptA hnewA hB)
      sm_cond
      sm_by (wot_true s _ e ci true bP tP p rp c ⟨s.nodes.size, s.nodes.size, c.tail⟩ true rfl
        (lt_of_get' he) hc rfl rfl hptA hnewA hT)
      sm_cond
      exact Runs.final rfl

end

end Cav.GenXVFail
