/-
  A concrete run of `gen_display_rs` for the `example`s of `Thm/C13Curves` (non-vacuity of the
  hypotheses), checked by kernel evaluation of the model over `Rat` (`decide +kernel`).

    f(x) = x,  g(x) = 2x  on `[0, 1]`,  x_res = y_res = 2,  one intermediate curve,  tol = 1/100.

  `f' = 1`, `g' = 2` never vanish: one piece.  Trimmed piece `[1/100, 99/100]`, range of `f` there
  `[1/100, 99/100]`; `c_raw(0)` is a lower tail (`ln1p` is junk `0` over `Rat`): `k = −1/100`.
  The curve attached at the interior sample `x_1 = 1/2` ends at `(1/2, 1/2) = (f(x_1), x_1)`.
-/
import Cav.Lemmas.RsCurves
import Cav.Lemmas.AccAD

namespace Cav.RsCurvesEx
open Cav Num Gen Cav.C07Accuracy Cav.RsCurves

/-- `f(x) = x` -/
def fEx : List Rat := [0, 1]
/-- `g(x) = 2x` -/
def gEx : List Rat := [0, 2]
/-- `xRes = yRes = 2`, one intermediate curve, no integration, `tol = 1/100` -/
def cfgC : Cfg2D Rat := ⟨false, 2, 2, 1, 20, 20, 1/100⟩

/-- the fields `a, b, xv, fv, gv, cvs` of a display -/
structure View where
  a : Rat
  b : Rat
  xv : List Rat
  fv : List Rat
  gv : List Rat
  cvs : List (Nat × List (Rat × Rat))
  deriving DecidableEq

def fields (d : Disp2D Rat) : View := ⟨d.a, d.b, d.xv, d.fv, d.gv, d.cvs⟩

/-- the fields of all displays of a run (`none` for a failed run) -/
def view (r : Except DispErr (List (Disp2D Rat))) : Option (List View) :=
  match r with
  | .ok ds => some (ds.map fields)
  | .error _ => none

theorem view_some {r : Except DispErr (List (Disp2D Rat))} {l : List View}
    (h : view r = some l) : ∃ ds, r = .ok ds ∧ ds.map fields = l := by
  cases r with
  | error e => cases h
  | ok ds => exact ⟨ds, rfl, by simpa [view] using h⟩

/-- the run: one display -/
theorem rs_run : view (genDisplayRs (adPoly fEx) (adPoly gEx) [(0, 1)] cfgC) =
    some [⟨0, 1, [0, 1/2, 1], [0, 1/2, 1], [-1/100, 99/100, 199/100],
      [(0, [(0, -1/100), (0, -1/100), (0, -1/100)]),
       (1, [(0, 99/100), (1/4, 3/4), (1/2, 1/2)]),
       (2, [(0, 199/100), (1/2, 3/2), (1, 101/100)])]⟩] := by
  decide +kernel

/-- the run as a single display with known fields -/
theorem rs_run_display : ∃ d, genDisplayRs (adPoly fEx) (adPoly gEx) [(0, 1)] cfgC = .ok [d] ∧
    d.a = 0 ∧ d.b = 1 ∧ d.xv = [0, 1/2, 1] ∧ d.fv = [0, 1/2, 1] ∧
    d.gv = [-1/100, 99/100, 199/100] ∧
    d.cvs = [(0, [(0, -1/100), (0, -1/100), (0, -1/100)]),
       (1, [(0, 99/100), (1/4, 3/4), (1/2, 1/2)]),
       (2, [(0, 199/100), (1/2, 3/2), (1, 101/100)])] := by
  obtain ⟨ds, h, hl⟩ := view_some rs_run
  cases ds with
  | nil => simp at hl
  | cons d rest =>
    cases rest with
    | cons _ _ => simp at hl
    | nil =>
      simp only [List.map_cons, List.map_nil, List.cons.injEq, and_true, fields,
        View.mk.injEq] at hl
      obtain ⟨h1, h2, h3, h4, h5, h6⟩ := hl
      exact ⟨d, h, h1, h2, h3, h4, h5, h6⟩

/-- the range of `f` on the trimmed piece `[1/100, 99/100]` and the bracket of `c_raw` -/
theorem rs_run_range : rsMinFdf (adPoly fEx) cfgC 0 1 = (1/100, 1) ∧
    rsMaxFdf (adPoly fEx) cfgC 0 1 = (99/100, 1) ∧
    rsMinX (adPoly fEx) cfgC 0 1 = 1/100 ∧ rsMaxX (adPoly fEx) cfgC 0 1 = 99/100 := by
  decide +kernel

end Cav.RsCurvesEx
