/-
  General sweep invariant, part 28: ACCEPTANCE from the semantic validity `NoCross`: set-up,
  initial invariant, event loop.
-/
import Cav.Lemmas.GenSetup
import Cav.Lemmas.GenLoop

set_option linter.unusedSimpArgs false
set_option linter.unusedVariables false

namespace Cav.GenAccept
open Cav Num Cav.Geo Cav.Sweep Cav.SweepRun Cav.TriRun Cav.QuadRun Cav.QuadGeom
open Cav.GenNodes Cav.TriEvents Cav.SweepSetup Cav.GenGeom Cav.GenInv Cav.GenQueue Cav.GenRing
open Cav.GenSetup Cav.GenLoop

theorem exists_lt_all : ∀ (L : List Rat), ∃ b, ∀ a ∈ L, b < a
  | [] => ⟨0, fun a ha => (by cases ha)⟩
  | a :: L => by
    obtain ⟨b, hb⟩ := exists_lt_all L
    refine ⟨min b (a - 1), ?_⟩
    intro c hc
    rcases List.mem_cons.mp hc with rfl | hc
    · exact lt_of_le_of_lt (min_le_right _ _) (by linarith)
    · exact lt_of_le_of_lt (min_le_left _ _) (hb c hc)

/-- the invariant holds after the set-up phase (nothing is active, the sweep line is to the left
    of all vertices) -/
theorem inv_init {R : RingQ} {V : Array (Vtx XQ)} (hR : RingOK R V) {evs : List (Nat × List Nat)}
    (hE : EvI R R.n evs) {xs : Rat} (hxs : ∀ v, v < R.n → xs < R.x v) :
    Inv R (stQ V evs) xs [] := by
  refine ⟨hR, rfl, fun h => absurd rfl h, rfl, List.nodup_nil, trivial, ?_, fun a ha => (by cases ha),
    List.Pairwise.nil, ?_, ?_⟩
  · intro j m hj
    simp [stQ] at hj
  · refine ⟨hE.sorted, ?_, ?_, fun a ha => (by cases ha), ?_, fun a ha => (by cases ha),
      fun a ha => (by cases ha)⟩
    · intro ev hev
      exact ⟨(hE.keys ev hev).1, hxs _ (hE.keys ev hev).1⟩
    · intro ev hev
      rw [(hE.keys ev hev).2]
      refine ⟨List.nodup_nil, fun e => ⟨fun h => (by cases h), ?_⟩⟩
      rintro ⟨a, ha, -⟩
      cases ha
    · intro v hv _ hs
      exact ⟨[], hE.starts v hv hs⟩
  · intro u v hu _ _ hle _
    exact absurd (hxs u hu) (not_lt.mpr hle)

/-- **acceptance of every polygon list that is valid in the sense of `NoCross`** -/
theorem accept_of_noCross (polys : List (Array Q)) (h3 : ∀ p ∈ polys, 3 ≤ p.size)
    (hx : ((polys.flatMap Array.toList).map (·.1)).Nodup) (hN : NoCross (ringOf polys)) :
    ∃ T, sweepMon (polys.map (fun p => p.map Fq)) = .ok (T, true) := by
  have hR := ringOK polys h3 hx
  obtain ⟨seen, evs, hset, hE⟩ := setup_all polys h3 hx
  obtain ⟨xs, hxs⟩ := exists_lt_all ((List.range (ringOf polys).n).map (ringOf polys).x)
  have hI : Inv (ringOf polys) (stQ (vertsOf (cellsAll 0 polys)) evs) xs [] :=
    inv_init hR hE (fun v hv => hxs _ (List.mem_map.mpr ⟨v, List.mem_range.mpr hv, rfl⟩))
  obtain ⟨s', hl, hm⟩ := loop_ok hN ((ringOf polys).n + 1) _ xs [] hI
    (Nat.lt_succ_of_le (meas_le xs))
  refine ⟨s'.out.reverse, ?_⟩
  unfold sweepMon
  rw [run_eq, hset]
  have hsz : (stQ (vertsOf (cellsAll 0 polys)) evs).verts.size = (ringOf polys).n := hR.size
  simp only [hsz, hl, hm]

end Cav.GenAccept
