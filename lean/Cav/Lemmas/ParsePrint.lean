/-
  COMPLETENESS of the parser model for the grammar `Spec/Grammar.lean`.

  For every level of the grammar: a string of that level followed by a continuation `rest`
  whose first character cannot extend the production is parsed — for every sufficiently large
  fuel — to the denoted tree, leaving exactly `rest`.  The left-recursive productions
  (`PExpr.add/sub`, `PMul.mul/div`) are matched with the accumulator loops `loopAdd`/`loopMul`
  by quantifying over the result `v` of the loop on the remaining input.
-/
import Cav.Spec.Grammar
import Cav.Lemmas.ParseBody
import Cav.Lemmas.ParseLexC

namespace Cav.ParseLemmas
open Cav Cav.Grammar

/-! ### "for all sufficiently large fuel" -/

/-- `X f = v` for every sufficiently large `f` -/
def Ev (X : Nat → R E) (v : R E) : Prop := ∃ f0, ∀ f, f0 ≤ f → X f = v

theorem exists_pred {f0 f : Nat} (h : f0 + 1 ≤ f) : ∃ f', f = f' + 1 ∧ f0 ≤ f' :=
  ⟨f - 1, by omega, by omega⟩

theorem ev_parseExpr {ctx : Ctx} {s rest : List Char} {t : E} {v : R E}
    (h1 : Ev (fun f => parseMul f ctx s true) (.ok rest t))
    (h2 : Ev (fun f => loopAdd f ctx rest t) v) : Ev (fun f => parseExpr f ctx s) v := by
  obtain ⟨f1, h1⟩ := h1
  obtain ⟨f2, h2⟩ := h2
  dsimp only at h1 h2
  refine ⟨max f1 f2 + 1, fun f hf => ?_⟩
  obtain ⟨f', rfl, hf'⟩ := exists_pred hf
  show parseExpr (f' + 1) ctx s = v
  rw [parseExpr_succ, h1 f' (by omega)]
  exact h2 f' (by omega)

theorem ev_parseMul {ctx : Ctx} {s rest : List Char} {a : Bool} {t : E} {v : R E}
    (h1 : Ev (fun f => parseTerm f ctx s a) (.ok rest t))
    (h2 : Ev (fun f => loopMul f ctx rest t) v) : Ev (fun f => parseMul f ctx s a) v := by
  obtain ⟨f1, h1⟩ := h1
  obtain ⟨f2, h2⟩ := h2
  dsimp only at h1 h2
  refine ⟨max f1 f2 + 1, fun f hf => ?_⟩
  obtain ⟨f', rfl, hf'⟩ := exists_pred hf
  show parseMul (f' + 1) ctx s a = v
  rw [parseMul_succ, h1 f' (by omega)]
  exact h2 f' (by omega)

theorem ev_loopAdd_plus {ctx : Ctx} {s rest : List Char} {acc t : E} {v : R E}
    (h1 : Ev (fun f => parseMul f ctx s false) (.ok rest t))
    (h2 : Ev (fun f => loopAdd f ctx rest (.bin .add acc t)) v) :
    Ev (fun f => loopAdd f ctx ('+' :: s) acc) v := by
  obtain ⟨f1, h1⟩ := h1
  obtain ⟨f2, h2⟩ := h2
  dsimp only at h1 h2
  refine ⟨max f1 f2 + 1, fun f hf => ?_⟩
  obtain ⟨f', rfl, hf'⟩ := exists_pred hf
  show loopAdd (f' + 1) ctx ('+' :: s) acc = v
  rw [loopAdd_plus, h1 f' (by omega)]
  exact h2 f' (by omega)

theorem ev_loopAdd_minus {ctx : Ctx} {s rest : List Char} {acc t : E} {v : R E}
    (h1 : Ev (fun f => parseMul f ctx s false) (.ok rest t))
    (h2 : Ev (fun f => loopAdd f ctx rest (.bin .sub acc t)) v) :
    Ev (fun f => loopAdd f ctx ('-' :: s) acc) v := by
  obtain ⟨f1, h1⟩ := h1
  obtain ⟨f2, h2⟩ := h2
  dsimp only at h1 h2
  refine ⟨max f1 f2 + 1, fun f hf => ?_⟩
  obtain ⟨f', rfl, hf'⟩ := exists_pred hf
  show loopAdd (f' + 1) ctx ('-' :: s) acc = v
  rw [loopAdd_minus, h1 f' (by omega)]
  exact h2 f' (by omega)

theorem ev_loopAdd_stop {ctx : Ctx} {s : List Char} {acc : E}
    (h1 : ∀ r, s ≠ '+' :: r) (h2 : ∀ r, s ≠ '-' :: r) :
    Ev (fun f => loopAdd f ctx s acc) (.ok s acc) := by
  refine ⟨1, fun f hf => ?_⟩
  obtain ⟨f', rfl, _⟩ := exists_pred hf
  exact loopAdd_stop _ _ _ _ h1 h2

theorem ev_loopMul_star {ctx : Ctx} {s rest : List Char} {acc t : E} {v : R E}
    (h1 : Ev (fun f => parseTerm f ctx s true) (.ok rest t))
    (h2 : Ev (fun f => loopMul f ctx rest (.bin .mul acc t)) v) :
    Ev (fun f => loopMul f ctx ('*' :: s) acc) v := by
  obtain ⟨f1, h1⟩ := h1
  obtain ⟨f2, h2⟩ := h2
  dsimp only at h1 h2
  refine ⟨max f1 f2 + 1, fun f hf => ?_⟩
  obtain ⟨f', rfl, hf'⟩ := exists_pred hf
  show loopMul (f' + 1) ctx ('*' :: s) acc = v
  rw [loopMul_star, h1 f' (by omega)]
  exact h2 f' (by omega)

theorem ev_loopMul_slash {ctx : Ctx} {s rest : List Char} {acc t : E} {v : R E}
    (h1 : Ev (fun f => parseTerm f ctx s true) (.ok rest t))
    (h2 : Ev (fun f => loopMul f ctx rest (.bin .div acc t)) v) :
    Ev (fun f => loopMul f ctx ('/' :: s) acc) v := by
  obtain ⟨f1, h1⟩ := h1
  obtain ⟨f2, h2⟩ := h2
  dsimp only at h1 h2
  refine ⟨max f1 f2 + 1, fun f hf => ?_⟩
  obtain ⟨f', rfl, hf'⟩ := exists_pred hf
  show loopMul (f' + 1) ctx ('/' :: s) acc = v
  rw [loopMul_slash, h1 f' (by omega)]
  exact h2 f' (by omega)

theorem ev_loopMul_stop {ctx : Ctx} {s : List Char} {acc : E}
    (h1 : ∀ r, s ≠ '*' :: r) (h2 : ∀ r, s ≠ '/' :: r) :
    Ev (fun f => loopMul f ctx s acc) (.ok s acc) := by
  refine ⟨1, fun f hf => ?_⟩
  obtain ⟨f', rfl, _⟩ := exists_pred hf
  exact loopMul_stop _ _ _ _ h1 h2

theorem ev_parseParenth_open {ctx : Ctx} {s rest : List Char} {t : E}
    (h : Ev (fun f => parseExpr f ctx s) (.ok (')' :: rest) t)) :
    Ev (fun f => parseParenth f ctx ('(' :: s)) (.ok rest t) := by
  obtain ⟨f1, h1⟩ := h
  dsimp only at h1
  refine ⟨f1 + 1, fun f hf => ?_⟩
  obtain ⟨f', rfl, hf'⟩ := exists_pred hf
  show parseParenth (f' + 1) ctx ('(' :: s) = _
  rw [parseParenth_open, h1 f' hf']
  rfl

theorem ev_parseParenth_other {ctx : Ctx} {s : List Char} (h : ∀ r, s ≠ '(' :: r) :
    Ev (fun f => parseParenth f ctx s) .fail := by
  refine ⟨1, fun f hf => ?_⟩
  obtain ⟨f', rfl, _⟩ := exists_pred hf
  exact parseParenth_other _ _ _ h

/-! ### follow sets and first characters -/

/-- what may follow a term: nothing that extends an atom, no `^`, no `**` -/
def FollT (rest : List Char) : Prop :=
  Stops atomCont rest ∧ (∀ r, rest ≠ '^' :: r) ∧ (∀ r, rest ≠ '*' :: '*' :: r)

/-- what may follow a product: additionally no `*` and no `/` -/
def FollM (rest : List Char) : Prop :=
  Stops atomCont rest ∧ (∀ r, rest ≠ '^' :: r) ∧ (∀ r, rest ≠ '*' :: r) ∧ (∀ r, rest ≠ '/' :: r)

theorem FollM.follT {rest : List Char} (h : FollM rest) : FollT rest :=
  ⟨h.1, h.2.1, fun _ e => h.2.2.1 _ e⟩

theorem follM_nil : FollM [] :=
  ⟨Stops.nil _, fun _ e => (nomatch e), fun _ e => (nomatch e), fun _ e => (nomatch e)⟩

/-- a continuation starting with a character that is none of the critical ones -/
theorem follM_cons {c : Char} (r : List Char) (h1 : atomCont c = false) (h2 : c ≠ '^') (h3 : c ≠ '*')
    (h4 : c ≠ '/') : FollM (c :: r) :=
  ⟨Stops.cons _ h1, fun _ e => h2 (List.cons.inj e).1, fun _ e => h3 (List.cons.inj e).1,
    fun _ e => h4 (List.cons.inj e).1⟩

/-- first character of an atom / power term -/
def StartA (s : List Char) : Prop :=
  ∃ c r, s = c :: r ∧ (isDigit c = true ∨ isAlpha c = true ∨ c = '.' ∨ c = '+' ∨ c = '(')

/-- first character of a term -/
def StartT (s : List Char) : Prop :=
  ∃ c r, s = c :: r ∧ (isDigit c = true ∨ isAlpha c = true ∨ c = '.' ∨ c = '+' ∨ c = '(' ∨ c = '-')

theorem StartA.append {s : List Char} (h : StartA s) (x : List Char) : StartA (s ++ x) := by
  obtain ⟨c, r, rfl, hc⟩ := h
  exact ⟨c, r ++ x, rfl, hc⟩

theorem StartT.append {s : List Char} (h : StartT s) (x : List Char) : StartT (s ++ x) := by
  obtain ⟨c, r, rfl, hc⟩ := h
  exact ⟨c, r ++ x, rfl, hc⟩

theorem StartA.startT {s : List Char} (h : StartA s) : StartT s := by
  obtain ⟨c, r, rfl, hc⟩ := h
  refine ⟨c, r, rfl, ?_⟩
  rcases hc with h | h | h | h | h
  · exact Or.inl h
  · exact Or.inr (Or.inl h)
  · exact Or.inr (Or.inr (Or.inl h))
  · exact Or.inr (Or.inr (Or.inr (Or.inl h)))
  · exact Or.inr (Or.inr (Or.inr (Or.inr (Or.inl h))))

theorem StartA.ne_minus {s : List Char} (h : StartA s) : ∀ r, s ≠ '-' :: r := by
  obtain ⟨c, r, rfl, hc⟩ := h
  intro r' e
  have e := (List.cons.inj e).1
  subst e
  rcases hc with h | h | h | h | h <;> revert h <;> decide

theorem StartA.ne_paren {s : List Char} (h : StartA s) (hp : ∀ r, s ≠ '(' :: r) :
    ∃ c r, s = c :: r ∧ (isDigit c = true ∨ isAlpha c = true ∨ c = '.' ∨ c = '+') := by
  obtain ⟨c, r, rfl, hc⟩ := h
  refine ⟨c, r, rfl, ?_⟩
  rcases hc with h | h | h | h | h
  · exact Or.inl h
  · exact Or.inr (Or.inl h)
  · exact Or.inr (Or.inr (Or.inl h))
  · exact Or.inr (Or.inr (Or.inr h))
  · exact absurd (by rw [h]) (hp r)

theorem StartT.ne_star {s : List Char} (h : StartT s) : ∀ r, s ≠ '*' :: r := by
  obtain ⟨c, r, rfl, hc⟩ := h
  intro r' e
  have e := (List.cons.inj e).1
  subst e
  rcases hc with h | h | h | h | h | h <;> revert h <;> decide

theorem startA_atom {ctx : Ctx} {t : E} {s : List Char} (h : PAtom ctx t s) : StartA s := by
  cases h with
  | paren _ => exact ⟨'(', _, rfl, by simp⟩
  | num hn =>
    obtain ⟨c, r, rfl, hc⟩ := numLeaf_head hn
    refine ⟨c, r, rfl, ?_⟩
    rcases hc with h | h | h | h
    · exact Or.inl h
    · exact Or.inr (Or.inl h)
    · exact Or.inr (Or.inr (Or.inl h))
    · exact Or.inr (Or.inr (Or.inr (Or.inl h)))
  | call hn _ _ =>
    obtain ⟨c, r, rfl, hc⟩ := isName_head hn
    exact ⟨c, _, rfl, Or.inr (Or.inl hc)⟩
  | cst hn _ =>
    obtain ⟨c, r, rfl, hc⟩ := isName_head hn
    exact ⟨c, _, rfl, Or.inr (Or.inl hc)⟩
  | var hn _ =>
    obtain ⟨c, r, rfl, hc⟩ := isName_head hn
    exact ⟨c, _, rfl, Or.inr (Or.inl hc)⟩

theorem startA_pow {ctx : Ctx} {t : E} {s : List Char} (h : PPow ctx t s) : StartA s := by
  cases h with
  | pow ha _ => exact (startA_atom ha).append _
  | powi ha _ => exact (startA_atom ha).append _
  | up ha => exact startA_atom ha

theorem startT_term {ctx : Ctx} {a : Bool} {t : E} {s : List Char} (h : PTerm ctx a t s) : StartT s := by
  cases h with
  | neg hp => exact ⟨'-', _, rfl, by simp⟩
  | pos hp => exact (startA_pow hp).startT

/-- a single `*` or `/` in front of a term is a legal continuation of a term -/
theorem follT_star {s2 : List Char} (h : StartT s2) (rest : List Char) : FollT ('*' :: (s2 ++ rest)) :=
  ⟨Stops.cons _ (by decide), fun _ e => absurd (List.cons.inj e).1 (by decide),
    fun r e => (h.append rest).ne_star r (List.cons.inj e).2⟩

theorem follT_slash (x : List Char) : FollT ('/' :: x) :=
  ⟨Stops.cons _ (by decide), fun _ e => absurd (List.cons.inj e).1 (by decide),
    fun _ e => absurd (List.cons.inj e).1 (by decide)⟩

/-! ### the motives: what each grammar level says about the parser -/

def MotA (ctx : Ctx) (t : E) (s : List Char) : Prop :=
  ∀ rest, Stops atomCont rest → Ev (fun f => atomF f ctx (s ++ rest)) (.ok rest t)

def MotP (ctx : Ctx) (t : E) (s : List Char) : Prop :=
  ∀ rest, FollT rest → Ev (fun f => powF f ctx (s ++ rest)) (.ok rest t)

def MotT (ctx : Ctx) (a : Bool) (t : E) (s : List Char) : Prop :=
  ∀ rest, FollT rest → Ev (fun f => parseTerm f ctx (s ++ rest) a) (.ok rest t)

def MotM (ctx : Ctx) (a : Bool) (t : E) (s : List Char) : Prop :=
  ∀ rest, FollT rest → ∀ v, Ev (fun f => loopMul f ctx rest t) v →
    Ev (fun f => parseMul f ctx (s ++ rest) a) v

def MotE (ctx : Ctx) (t : E) (s : List Char) : Prop :=
  ∀ rest, FollM rest → ∀ v, Ev (fun f => loopAdd f ctx rest t) v →
    Ev (fun f => parseExpr f ctx (s ++ rest)) v

/-! ### atoms -/

theorem atomB_P_ok {P F : List Char → R E} {ctx : Ctx} {s r : List Char} {t : E}
    (h : P s = .ok r t) : atomB P F ctx s = .ok r t := by
  unfold atomB; rw [h]

theorem atomB_lex {P F : List Char → R E} {ctx : Ctx} {s r : List Char} {t : E}
    (h1 : P s = .fail) (h2 : parseConst s = some (r, t)) : atomB P F ctx s = .ok r t := by
  unfold atomB; rw [h1, h2]

theorem atomB_F_ok {P F : List Char → R E} {ctx : Ctx} {s r : List Char} {t : E}
    (h1 : P s = .fail) (h2 : parseConst s = none) (h3 : F s = .ok r t) : atomB P F ctx s = .ok r t := by
  unfold atomB; rw [h1, h2, h3]

theorem atomB_var {P F : List Char → R E} {ctx : Ctx} {s : List Char}
    (h1 : P s = .fail) (h2 : parseConst s = none) (h3 : F s = .fail) :
    atomB P F ctx s = parseVar ctx s := by
  unfold atomB; rw [h1, h2, h3]

/-- an expression in parentheses, as seen from inside: the closing parenthesis is a legal
    continuation and stops the additive loop -/
theorem motE_close {ctx : Ctx} {t : E} {s : List Char} (ih : MotE ctx t s) (rest : List Char) :
    Ev (fun f => parseExpr f ctx (s ++ ')' :: rest)) (.ok (')' :: rest) t) := by
  apply ih (')' :: rest)
  · exact follM_cons _ (by decide) (by decide) (by decide) (by decide)
  · exact ev_loopAdd_stop (fun _ e => absurd (List.cons.inj e).1 (by decide))
      (fun _ e => absurd (List.cons.inj e).1 (by decide))

theorem atom_paren {ctx : Ctx} {t : E} {s : List Char} (ih : MotE ctx t s) :
    MotA ctx t ('(' :: s ++ [')']) := by
  intro rest _
  have e : ('(' :: s ++ [')']) ++ rest = '(' :: (s ++ ')' :: rest) := by simp
  rw [e]
  obtain ⟨f0, h⟩ := ev_parseParenth_open (motE_close ih rest)
  exact ⟨f0, fun f hf => atomB_P_ok (h f hf)⟩

theorem atom_num {ctx : Ctx} {t : E} {s : List Char} (hn : NumLeaf t s) : MotA ctx t s := by
  intro rest hr
  have hp : ∀ r, s ++ rest ≠ '(' :: r := by
    obtain ⟨c, r, rfl, hc⟩ := numLeaf_head hn
    intro r' e
    have e := (List.cons.inj e).1
    subst e
    rcases hc with h | h | h | h <;> revert h <;> decide
  obtain ⟨f0, h⟩ := ev_parseParenth_other (ctx := ctx) hp
  exact ⟨f0, fun f hf => atomB_lex (h f hf) (parseConst_numLeaf hn hr)⟩

/-- a name does not start with an opening parenthesis -/
theorem name_ne_paren {n : List Char} (hn : IsName n) (x : List Char) : ∀ r, n ++ x ≠ '(' :: r := by
  obtain ⟨c, r, rfl, hc⟩ := isName_head hn
  intro r' e
  exact (isAlpha_ne hc).2.2.2.1 (List.cons.inj e).1

theorem ev_parseFunc_call {ctx : Ctx} {n x rest : List Char} {t : E} (hn : IsName n)
    (hg : ctx.get (String.ofList n) = some .uop)
    (h : Ev (fun f => parseExpr f ctx x) (.ok (')' :: rest) t)) :
    Ev (fun f => parseFunc f ctx (n ++ '(' :: x))
      (.ok rest (.un ((UFn.ofName (String.ofList n)).getD (.user (String.ofList n))) t)) := by
  obtain ⟨f1, h1⟩ := h
  dsimp only at h1
  refine ⟨f1 + 1, fun f hf => ?_⟩
  obtain ⟨f', rfl, hf'⟩ := exists_pred hf
  show parseFunc (f' + 1) ctx (n ++ '(' :: x) = _
  rw [parseFunc_succ']
  unfold funcB
  rw [alpha1_append hn (Stops.cons _ (by decide))]
  simp only [funcNamed, hg, funcArg_open, h1 f' hf']
  rfl

theorem ev_parseFunc_notfn {ctx : Ctx} {n rest : List Char} {el : CtxEl} (hn : IsName n)
    (hr : Stops isAlpha rest) (hg : ctx.get (String.ofList n) = some el) (hel : el ≠ .uop) :
    Ev (fun f => parseFunc f ctx (n ++ rest)) .fail := by
  refine ⟨1, fun f hf => ?_⟩
  obtain ⟨f', rfl, _⟩ := exists_pred hf
  show parseFunc (f' + 1) ctx (n ++ rest) = _
  rw [parseFunc_succ']
  unfold funcB
  rw [alpha1_append hn hr]
  simp only [funcNamed, hg]
  cases el with
  | uop => exact absurd rfl hel
  | const => rfl
  | var i => rfl

theorem atom_call {arity : Nat} {ctx : Ctx} (hok : CtxOK' arity ctx) {n : List Char} {t : E}
    {s : List Char} (hn : IsName n) (hg : ctx.get (String.ofList n) = some .uop) (ih : MotE ctx t s) :
    MotA ctx (.un ((UFn.ofName (String.ofList n)).getD (.user (String.ofList n))) t)
      (n ++ '(' :: s ++ [')']) := by
  intro rest _
  have e : (n ++ '(' :: s ++ [')']) ++ rest = n ++ '(' :: (s ++ ')' :: rest) := by simp
  rw [e]
  obtain ⟨f1, h1⟩ := ev_parseParenth_other (ctx := ctx) (name_ne_paren hn ('(' :: (s ++ ')' :: rest)))
  obtain ⟨f2, h2⟩ := ev_parseFunc_call hn hg (motE_close ih rest)
  have hl := parseConst_name (rest := '(' :: (s ++ ')' :: rest)) hok hn hg (Stops.cons _ (by decide))
  exact ⟨max f1 f2, fun f hf => atomB_F_ok (h1 f (by omega)) hl (h2 f (by omega))⟩

theorem atom_cst {arity : Nat} {ctx : Ctx} (hok : CtxOK' arity ctx) {n : List Char}
    (hn : IsName n) (hg : ctx.get (String.ofList n) = some .const) :
    MotA ctx (.cst (String.ofList n)) n := by
  intro rest hr
  obtain ⟨_, ha, _⟩ := stops_atomCont hr
  obtain ⟨f1, h1⟩ := ev_parseParenth_other (ctx := ctx) (name_ne_paren hn rest)
  obtain ⟨f2, h2⟩ := ev_parseFunc_notfn hn ha hg (by simp)
  have hl := parseConst_name hok hn hg ha
  refine ⟨max f1 f2, fun f hf => ?_⟩
  show atomB _ _ ctx (n ++ rest) = _
  rw [atomB_var (h1 f (by omega)) hl (h2 f (by omega))]
  unfold parseVar
  rw [alpha1_append hn ha]
  simp only [hg]

theorem atom_var {arity : Nat} {ctx : Ctx} (hok : CtxOK' arity ctx) {n : List Char} {i : Nat}
    (hn : IsName n) (hg : ctx.get (String.ofList n) = some (.var i)) :
    MotA ctx (.var i) n := by
  intro rest hr
  obtain ⟨_, ha, _⟩ := stops_atomCont hr
  obtain ⟨f1, h1⟩ := ev_parseParenth_other (ctx := ctx) (name_ne_paren hn rest)
  obtain ⟨f2, h2⟩ := ev_parseFunc_notfn hn ha hg (by simp)
  have hl := parseConst_name hok hn hg ha
  refine ⟨max f1 f2, fun f hf => ?_⟩
  show atomB _ _ ctx (n ++ rest) = _
  rw [atomB_var (h1 f (by omega)) hl (h2 f (by omega))]
  unfold parseVar
  rw [alpha1_append hn ha]
  simp only [hg]

/-! ### power terms -/

theorem powTermB_ok {A : List Char → R E} {Pw : List Char → E → R E} {s rest : List Char} {b : E}
    (h : A s = .ok rest b) : powTermB A Pw s = Pw rest b := by
  unfold powTermB; rw [h]

theorem pow_up {ctx : Ctx} {t : E} {s : List Char} (ih : MotA ctx t s) : MotP ctx t s := by
  intro rest hr
  obtain ⟨f0, h⟩ := ih rest hr.1
  refine ⟨f0, fun f hf => ?_⟩
  show powTermB (atomF f ctx) _ (s ++ rest) = _
  rw [powTermB_ok (h f hf), powB_other _ _ _ hr.2.1 hr.2.2]

theorem pow_pow {ctx : Ctx} {b e : E} {s1 s2 : List Char} (ih1 : MotA ctx b s1)
    (ih2 : MotT ctx true e s2) : MotP ctx (.bin .pow b e) (s1 ++ '^' :: s2) := by
  intro rest hr
  have e1 : (s1 ++ '^' :: s2) ++ rest = s1 ++ '^' :: (s2 ++ rest) := by simp
  rw [e1]
  obtain ⟨f1, h1⟩ := ih1 ('^' :: (s2 ++ rest)) (Stops.cons _ (by decide))
  obtain ⟨f2, h2⟩ := ih2 rest hr
  dsimp only at h2
  refine ⟨max f1 f2, fun f hf => ?_⟩
  show powTermB (atomF f ctx) _ (s1 ++ '^' :: (s2 ++ rest)) = _
  rw [powTermB_ok (h1 f (by omega)), powB_caret]
  simp only [h2 f (by omega)]

theorem pow_powi {ctx : Ctx} {b : E} {n : Int} {s1 s2 : List Char} (ih1 : MotA ctx b s1)
    (hn : I32Text n s2) : MotP ctx (.powi b n) (s1 ++ '*' :: '*' :: s2) := by
  intro rest hr
  have e1 : (s1 ++ '*' :: '*' :: s2) ++ rest = s1 ++ '*' :: '*' :: (s2 ++ rest) := by simp
  rw [e1]
  obtain ⟨f1, h1⟩ := ih1 ('*' :: '*' :: (s2 ++ rest)) (Stops.cons _ (by decide))
  refine ⟨f1, fun f hf => ?_⟩
  show powTermB (atomF f ctx) _ (s1 ++ '*' :: '*' :: (s2 ++ rest)) = _
  rw [powTermB_ok (h1 f hf), powB_starstar, lexI32_append hn (stops_atomCont hr.1).1]

/-! ### terms -/

theorem term_pos {ctx : Ctx} {a : Bool} {t : E} {s : List Char} (hs : StartA s)
    (ih : MotP ctx t s) : MotT ctx a t s := by
  intro rest hr
  obtain ⟨f0, h⟩ := ih rest hr
  dsimp only at h
  refine ⟨f0 + 1, fun f hf => ?_⟩
  obtain ⟨f', rfl, hf'⟩ := exists_pred hf
  show parseTerm (f' + 1) ctx (s ++ rest) a = _
  rw [parseTerm_succ]
  unfold termB
  rw [negCount_zero (hs.append rest).ne_minus]
  simp only [h f' hf']
  rfl

theorem term_neg {ctx : Ctx} {t : E} {s : List Char} (hs : StartA s)
    (ih : MotP ctx t s) : MotT ctx true (.un .neg t) ('-' :: s) := by
  intro rest hr
  obtain ⟨f0, h⟩ := ih rest hr
  dsimp only at h
  refine ⟨f0 + 1, fun f hf => ?_⟩
  obtain ⟨f', rfl, hf'⟩ := exists_pred hf
  show parseTerm (f' + 1) ctx ('-' :: (s ++ rest)) true = _
  rw [parseTerm_succ]
  unfold termB
  rw [negCount_one (hs.append rest).ne_minus]
  simp only [h f' hf']
  rfl

/-! ### products -/

theorem mul_up {ctx : Ctx} {a : Bool} {t : E} {s : List Char} (ih : MotT ctx a t s) :
    MotM ctx a t s :=
  fun rest hr _ hv => ev_parseMul (ih rest hr) hv

theorem mul_mul {ctx : Ctx} {a : Bool} {l r : E} {s1 s2 : List Char} (hs : StartT s2)
    (ih1 : MotM ctx a l s1) (ih2 : MotT ctx true r s2) :
    MotM ctx a (.bin .mul l r) (s1 ++ '*' :: s2) := by
  intro rest hr v hv
  have e1 : (s1 ++ '*' :: s2) ++ rest = s1 ++ '*' :: (s2 ++ rest) := by simp
  rw [e1]
  exact ih1 _ (follT_star hs rest) v (ev_loopMul_star (ih2 rest hr) hv)

theorem mul_div {ctx : Ctx} {a : Bool} {l r : E} {s1 s2 : List Char}
    (ih1 : MotM ctx a l s1) (ih2 : MotT ctx true r s2) :
    MotM ctx a (.bin .div l r) (s1 ++ '/' :: s2) := by
  intro rest hr v hv
  have e1 : (s1 ++ '/' :: s2) ++ rest = s1 ++ '/' :: (s2 ++ rest) := by simp
  rw [e1]
  exact ih1 _ (follT_slash _) v (ev_loopMul_slash (ih2 rest hr) hv)

/-- a product followed by something that is not `*` or `/` -/
theorem motM_stop {ctx : Ctx} {a : Bool} {t : E} {s : List Char} (ih : MotM ctx a t s)
    {rest : List Char} (hr : FollM rest) :
    Ev (fun f => parseMul f ctx (s ++ rest) a) (.ok rest t) :=
  ih rest hr.follT _ (ev_loopMul_stop hr.2.2.1 hr.2.2.2)

/-! ### sums -/

theorem expr_up {ctx : Ctx} {t : E} {s : List Char} (ih : MotM ctx true t s) : MotE ctx t s :=
  fun _ hr _ hv => ev_parseExpr (motM_stop ih hr) hv

theorem expr_add {ctx : Ctx} {l r : E} {s1 s2 : List Char}
    (ih1 : MotE ctx l s1) (ih2 : MotM ctx false r s2) :
    MotE ctx (.bin .add l r) (s1 ++ '+' :: s2) := by
  intro rest hr v hv
  have e1 : (s1 ++ '+' :: s2) ++ rest = s1 ++ '+' :: (s2 ++ rest) := by simp
  rw [e1]
  exact ih1 _ (follM_cons _ (by decide) (by decide) (by decide) (by decide)) v
    (ev_loopAdd_plus (motM_stop ih2 hr) hv)

theorem expr_sub {ctx : Ctx} {l r : E} {s1 s2 : List Char}
    (ih1 : MotE ctx l s1) (ih2 : MotM ctx false r s2) :
    MotE ctx (.bin .sub l r) (s1 ++ '-' :: s2) := by
  intro rest hr v hv
  have e1 : (s1 ++ '-' :: s2) ++ rest = s1 ++ '-' :: (s2 ++ rest) := by simp
  rw [e1]
  exact ih1 _ (follM_cons _ (by decide) (by decide) (by decide) (by decide)) v
    (ev_loopAdd_minus (motM_stop ih2 hr) hv)

/-! ### assembly: mutual induction over the five levels of the grammar -/

/-- **every string of the grammar is parsed to its tree, in any legal context** -/
theorem prints_motE {arity : Nat} {ctx : Ctx} (hok : CtxOK' arity ctx) {t : E} {s : List Char}
    (h : PExpr ctx t s) : MotE ctx t s :=
  PExpr.rec
    (motive_1 := fun t s _ => MotE ctx t s)
    (motive_2 := fun a t s _ => MotM ctx a t s)
    (motive_3 := fun a t s _ => MotT ctx a t s)
    (motive_4 := fun t s _ => MotP ctx t s)
    (motive_5 := fun t s _ => MotA ctx t s)
    (fun _ _ ih1 ih2 => expr_add ih1 ih2)
    (fun _ _ ih1 ih2 => expr_sub ih1 ih2)
    (fun _ ih => expr_up ih)
    (fun _ h2 ih1 ih2 => mul_mul (startT_term h2) ih1 ih2)
    (fun _ _ ih1 ih2 => mul_div ih1 ih2)
    (fun _ ih => mul_up ih)
    (fun hp ih => term_neg (startA_pow hp) ih)
    (fun hp ih => term_pos (startA_pow hp) ih)
    (fun _ _ ih1 ih2 => pow_pow ih1 ih2)
    (fun _ hn ih1 => pow_powi ih1 hn)
    (fun _ ih => pow_up ih)
    (fun _ ih => atom_paren ih)
    (fun hn => atom_num hn)
    (fun hn hg _ ih => atom_call hok hn hg ih)
    (fun hn hg => atom_cst hok hn hg)
    (fun hn hg => atom_var hok hn hg)
    h

/-- the whole input: for all sufficiently large fuel `parseExpr` returns the tree and no rest -/
theorem prints_ev {arity : Nat} {ctx : Ctx} (hok : CtxOK' arity ctx) {t : E} {s : List Char}
    (h : PExpr ctx t s) : Ev (fun f => parseExpr f ctx s) (.ok [] t) := by
  have := prints_motE hok h [] follM_nil _
    (ev_loopAdd_stop (fun _ e => (nomatch e)) (fun _ e => (nomatch e)))
  rwa [List.append_nil] at this

end Cav.ParseLemmas
