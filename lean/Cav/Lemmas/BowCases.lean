/-
  Self-intersecting quadrilaterals (bow-ties): the predicate `BowTie` (one of the two pairs of
  opposite edges crosses properly — orientation determinants only, `Cross` of `QuadCases.lean`),
  its symmetries, and the sign analysis that assigns every bow-tie with increasing abscissae to
  one of the eight failing event chains of `BowFlows.lean`.
-/
import Cav.Lemmas.BowFlows
import Cav.Lemmas.QuadCases

set_option linter.unusedSimpArgs false
set_option linter.unusedVariables false
set_option linter.unusedTactic false
set_option linter.unreachableTactic false

namespace Cav.BowCases
open Cav Num Cav.Geo Cav.Sweep Cav.TriRun Cav.QuadRun Cav.QuadGeom Cav.QuadFlows Cav.QuadCases
  Cav.BowFlows

/-- the closed quadrilateral `a → b → c → d → a` is self-intersecting: the opposite edges `ab`,
    `cd` or the opposite edges `bc`, `da` cross properly -/
def BowTie (a b c d : Rat × Rat) : Prop := Cross a b c d ∨ Cross b c d a

instance (a b c d : Rat × Rat) : Decidable (BowTie a b c d) := by unfold BowTie; exact inferInstance

theorem BowTie.rot {a b c d : Rat × Rat} (h : BowTie a b c d) : BowTie b c d a := by
  rcases h with h | h
  · exact Or.inr h.symm
  · exact Or.inl h

theorem BowTie.rev {a b c d : Rat × Rat} (h : BowTie a b c d) : BowTie d c b a := by
  rcases h with h | h
  · exact Or.inl (Cross.rev h)
  · exact Or.inr (Cross.rev h).symm

/-- a bow-tie has no three collinear corners and is not a simple quadrilateral -/
theorem BowTie.not_simple {a b c d : Rat × Rat} (h : BowTie a b c d) : ¬ SimpleQuad a b c d := by
  rintro ⟨-, -, -, -, c1, c2⟩
  rcases h with h | h
  · exact c1 h
  · exact c2 h

/-! ### sign analysis (`a b c d` stand for `orient q1 q2 q3`, `orient q1 q2 q4`,
    `orient q1 q3 q4`, `orient q2 q3 q4`; `dij = qj.1 - qi.1`) -/

/-- both factors of a negative product are non-zero, with opposite signs -/
theorem neg_cases {x y : Rat} (h : x * y < 0) : (0 < x ∧ y < 0) ∨ (x < 0 ∧ 0 < y) :=
  mul_neg_iff.mp h

/-- ring `A` (`q1 q2 q3 q4`): the edges `q1 q2`, `q3 q4` cannot cross; if `q2 q3`, `q4 q1` cross
    then `q2`, `q3` lie on different sides of the line `q1 q4` -/
theorem bsigns_A (a b c d d12 d13 d14 d23 d24 d34 : Rat)
    (p12 : 0 < d12) (p13 : 0 < d13) (p14 : 0 < d14) (p23 : 0 < d23) (p24 : 0 < d24) (p34 : 0 < d34)
    (Ra : d13 * b = d12 * c + d14 * a) (Rb : d24 * c = d14 * d + d34 * b)
    (Rc : d23 * b = d12 * d + d24 * a) (Rd : d23 * c = d13 * d + d34 * a)
    (hc : (a * b < 0 ∧ c * d < 0) ∨ (d * a < 0 ∧ b * c < 0)) :
    (b < 0 ∧ 0 < c) ∨ (0 < b ∧ c < 0) := by
  rcases hc with ⟨u, v⟩ | ⟨u, v⟩
  · exfalso
    rcases neg_cases u with ⟨ha, hb⟩ | ⟨ha, hb⟩ <;> rcases neg_cases v with ⟨hc, hd⟩ | ⟨hc, hd⟩ <;>
      nlinarith [mul_pos p12 p12]
  · rcases neg_cases v with ⟨hb, hc⟩ | ⟨hb, hc⟩
    · exact Or.inr ⟨hb, hc⟩
    · exact Or.inl ⟨hb, hc⟩

/-- ring `O` (`q1 q2 q4 q3`): the edges `q1 q2`, `q4 q3` cannot cross; if `q2 q4`, `q3 q1` cross
    then `orient q1 q2 q3` and `orient q2 q3 q4` have the same sign -/
theorem bsigns_O (a b c d d12 d13 d14 d23 d24 d34 : Rat)
    (p12 : 0 < d12) (p13 : 0 < d13) (p14 : 0 < d14) (p23 : 0 < d23) (p24 : 0 < d24) (p34 : 0 < d34)
    (Ra : d13 * b = d12 * c + d14 * a) (Rb : d24 * c = d14 * d + d34 * b)
    (Rc : d23 * b = d12 * d + d24 * a) (Rd : d23 * c = d13 * d + d34 * a)
    (hc : (b * a < 0 ∧ (-c) * (-d) < 0) ∨ ((-d) * b < 0 ∧ a * (-c) < 0)) :
    (0 < a ∧ 0 < d) ∨ (a < 0 ∧ d < 0) := by
  rcases hc with ⟨u, v⟩ | ⟨u, v⟩
  · exfalso
    rcases neg_cases u with ⟨hb, ha⟩ | ⟨hb, ha⟩ <;> rcases neg_cases v with ⟨hc, hd⟩ | ⟨hc, hd⟩ <;>
      nlinarith [mul_pos p12 p12]
  · rcases neg_cases u with ⟨hd, hb⟩ | ⟨hd, hb⟩ <;> rcases neg_cases v with ⟨ha, hc⟩ | ⟨ha, hc⟩
    · exfalso; nlinarith [mul_pos p12 p12]
    · exact Or.inr ⟨ha, by linarith⟩
    · exact Or.inl ⟨ha, by linarith⟩
    · exfalso; nlinarith [mul_pos p12 p12]

/-- ring `Z` (`q1 q3 q2 q4`): the four determinants have the same sign (the edges `q1 q3`,
    `q2 q4` cross), or the first two have the sign opposite to the last two (the edges `q2 q3`,
    `q1 q4` cross) -/
theorem bsigns_Z (a b c d d12 d13 d14 d23 d24 d34 : Rat)
    (p12 : 0 < d12) (p13 : 0 < d13) (p14 : 0 < d14) (p23 : 0 < d23) (p24 : 0 < d24) (p34 : 0 < d34)
    (Ra : d13 * b = d12 * c + d14 * a) (Rb : d24 * c = d14 * d + d34 * b)
    (Rc : d23 * b = d12 * d + d24 * a) (Rd : d23 * c = d13 * d + d34 * a)
    (hc : ((-a) * c < 0 ∧ b * (-d) < 0) ∨ ((-d) * (-a) < 0 ∧ c * b < 0)) :
    (0 < a ∧ 0 < b ∧ 0 < c ∧ 0 < d) ∨ (a < 0 ∧ b < 0 ∧ c < 0 ∧ d < 0) ∨
      (0 < a ∧ 0 < b ∧ c < 0 ∧ d < 0) ∨ (a < 0 ∧ b < 0 ∧ 0 < c ∧ 0 < d) := by
  rcases hc with ⟨u, v⟩ | ⟨u, v⟩
  · rcases neg_cases u with ⟨ha, hc⟩ | ⟨ha, hc⟩ <;> rcases neg_cases v with ⟨hb, hd⟩ | ⟨hb, hd⟩
    · exfalso; nlinarith [mul_pos p12 p12]
    · exact Or.inr (Or.inl ⟨by linarith, hb, hc, by linarith⟩)
    · exact Or.inl ⟨by linarith, hb, hc, by linarith⟩
    · exfalso; nlinarith [mul_pos p12 p12]
  · rcases neg_cases u with ⟨hd, ha⟩ | ⟨hd, ha⟩ <;> rcases neg_cases v with ⟨hc, hb⟩ | ⟨hc, hb⟩
    · exfalso; nlinarith [mul_pos p12 p12]
    · exact Or.inr (Or.inr (Or.inl ⟨by linarith, hb, hc, by linarith⟩))
    · exact Or.inr (Or.inr (Or.inr ⟨by linarith, hb, hc, by linarith⟩))
    · exfalso; nlinarith [mul_pos p12 p12]

/-! ### the three ring types -/

/-- ring `A`: every bow-tie `q1 q2 q3 q4` with `q1.1 < q2.1 < q3.1 < q4.1` is rejected at the
    Bend `q2` (the edges `q2 q3` and `q4 q1` cross) -/
theorem ringA_bow (ori : Bool) (V : Array (Vtx XQ)) (i1 i2 i3 i4 : Nat) (q1 q2 q3 q4 : Rat × Rat)
    (h1 : V[i1]? = some ⟨Fq q1, (nb ori i4 i2).1, (nb ori i4 i2).2⟩)
    (h2 : V[i2]? = some ⟨Fq q2, (nb ori i1 i3).1, (nb ori i1 i3).2⟩)
    (h3 : V[i3]? = some ⟨Fq q3, (nb ori i2 i4).1, (nb ori i2 i4).2⟩)
    (h4 : V[i4]? = some ⟨Fq q4, (nb ori i3 i1).1, (nb ori i3 i1).2⟩)
    (h12 : q1.1 < q2.1) (h23 : q2.1 < q3.1) (h34 : q3.1 < q4.1)
    (hs : BowTie q1 q2 q3 q4) :
    Runs (stQ V [(i1, [])]) (.error (.overlap .bend (Fq q2))) (loop 5) := by
  have h13 := lt_trans h12 h23
  have h24 := lt_trans h23 h34
  have h14 := lt_trans h13 h34
  have e1 : orient q3 q4 q1 = orient q1 q3 q4 := by unfold orient; ring
  have e2 : orient q3 q4 q2 = orient q2 q3 q4 := by unfold orient; ring
  have e3 : orient q2 q3 q1 = orient q1 q2 q3 := by unfold orient; ring
  have e4 : orient q4 q1 q2 = orient q1 q2 q4 := by unfold orient; ring
  have e5 : orient q4 q1 q3 = orient q1 q3 q4 := by unfold orient; ring
  simp only [BowTie, Cross, e1, e2, e3, e4, e5] at hs
  have S := bsigns_A (orient q1 q2 q3) (orient q1 q2 q4) (orient q1 q3 q4) (orient q2 q3 q4)
    (q2.1 - q1.1) (q3.1 - q1.1) (q4.1 - q1.1) (q3.1 - q2.1) (q4.1 - q2.1) (q4.1 - q3.1)
    (sub_pos.mpr h12) (sub_pos.mpr h13) (sub_pos.mpr h14) (sub_pos.mpr h23) (sub_pos.mpr h24)
    (sub_pos.mpr h34) (rel_a q1 q2 q3 q4) (rel_b q1 q2 q3 q4) (rel_c q1 q2 q3 q4) (rel_d q1 q2 q3 q4)
    hs
  rcases S with ⟨s124, s134⟩ | ⟨s124, s134⟩
  · exact runBow_At ori V i1 i2 i3 i4 q1 q2 q3 q4 h1 h2 h3 h4 h12 h23 h34 s124 s134
  · exact runBow_Ab ori V i1 i2 i3 i4 q1 q2 q3 q4 h1 h2 h3 h4 h12 h23 h34 s124 s134

/-- ring `O`: every bow-tie `q1 q2 q4 q3` with `q1.1 < q2.1 < q3.1 < q4.1` is rejected at the
    Bend `q2` (the edges `q2 q4` and `q3 q1` cross) -/
theorem ringO_bow (ori : Bool) (V : Array (Vtx XQ)) (i1 i2 i3 i4 : Nat) (q1 q2 q3 q4 : Rat × Rat)
    (h1 : V[i1]? = some ⟨Fq q1, (nb ori i2 i3).1, (nb ori i2 i3).2⟩)
    (h2 : V[i2]? = some ⟨Fq q2, (nb ori i4 i1).1, (nb ori i4 i1).2⟩)
    (h3 : V[i3]? = some ⟨Fq q3, (nb ori i1 i4).1, (nb ori i1 i4).2⟩)
    (h4 : V[i4]? = some ⟨Fq q4, (nb ori i3 i2).1, (nb ori i3 i2).2⟩)
    (h12 : q1.1 < q2.1) (h23 : q2.1 < q3.1) (h34 : q3.1 < q4.1)
    (hs : BowTie q1 q2 q4 q3) :
    Runs (stQ V [(i1, [])]) (.error (.overlap .bend (Fq q2))) (loop 5) := by
  have h13 := lt_trans h12 h23
  have h24 := lt_trans h23 h34
  have h14 := lt_trans h13 h34
  have e1 : orient q4 q3 q1 = - orient q1 q3 q4 := by unfold orient; ring
  have e2 : orient q4 q3 q2 = - orient q2 q3 q4 := by unfold orient; ring
  have e3 : orient q2 q4 q3 = - orient q2 q3 q4 := by unfold orient; ring
  have e4 : orient q2 q4 q1 = orient q1 q2 q4 := by unfold orient; ring
  have e5 : orient q3 q1 q2 = orient q1 q2 q3 := by unfold orient; ring
  have e6 : orient q3 q1 q4 = - orient q1 q3 q4 := by unfold orient; ring
  simp only [BowTie, Cross, e1, e2, e3, e4, e5, e6] at hs
  have S := bsigns_O (orient q1 q2 q3) (orient q1 q2 q4) (orient q1 q3 q4) (orient q2 q3 q4)
    (q2.1 - q1.1) (q3.1 - q1.1) (q4.1 - q1.1) (q3.1 - q2.1) (q4.1 - q2.1) (q4.1 - q3.1)
    (sub_pos.mpr h12) (sub_pos.mpr h13) (sub_pos.mpr h14) (sub_pos.mpr h23) (sub_pos.mpr h24)
    (sub_pos.mpr h34) (rel_a q1 q2 q3 q4) (rel_b q1 q2 q3 q4) (rel_c q1 q2 q3 q4) (rel_d q1 q2 q3 q4)
    hs
  rcases S with ⟨s123, s234⟩ | ⟨s123, s234⟩
  · exact runBow_Oa ori V i1 i2 i3 i4 q1 q2 q3 q4 h1 h2 h3 h4 h12 h23 h34 s123 s234
  · exact runBow_Ob ori V i1 i2 i3 i4 q1 q2 q3 q4 h1 h2 h3 h4 h12 h23 h34 s123 s234

/-- ring `Z`: every bow-tie `q1 q3 q2 q4` with `q1.1 < q2.1 < q3.1 < q4.1` is rejected at the
    second Start `q2` (the edges `q1 q3`, `q2 q4` or the edges `q3 q2`, `q4 q1` cross) -/
theorem ringZ_bow (ori : Bool) (V : Array (Vtx XQ)) (i1 i2 i3 i4 : Nat) (q1 q2 q3 q4 : Rat × Rat)
    (h1 : V[i1]? = some ⟨Fq q1, (nb ori i4 i3).1, (nb ori i4 i3).2⟩)
    (h2 : V[i2]? = some ⟨Fq q2, (nb ori i3 i4).1, (nb ori i3 i4).2⟩)
    (h3 : V[i3]? = some ⟨Fq q3, (nb ori i1 i2).1, (nb ori i1 i2).2⟩)
    (h4 : V[i4]? = some ⟨Fq q4, (nb ori i2 i1).1, (nb ori i2 i1).2⟩)
    (h12 : q1.1 < q2.1) (h23 : q2.1 < q3.1) (h34 : q3.1 < q4.1)
    (hs : BowTie q1 q3 q2 q4) :
    Runs (stQ V [(i1, []), (i2, [])]) (.error (.overlap .start (Fq q2))) (loop 5) := by
  have h13 := lt_trans h12 h23
  have h24 := lt_trans h23 h34
  have h14 := lt_trans h13 h34
  have e1 : orient q1 q3 q2 = - orient q1 q2 q3 := by unfold orient; ring
  have e2 : orient q2 q4 q1 = orient q1 q2 q4 := by unfold orient; ring
  have e3 : orient q2 q4 q3 = - orient q2 q3 q4 := by unfold orient; ring
  have e4 : orient q3 q2 q4 = - orient q2 q3 q4 := by unfold orient; ring
  have e5 : orient q3 q2 q1 = - orient q1 q2 q3 := by unfold orient; ring
  have e6 : orient q4 q1 q3 = orient q1 q3 q4 := by unfold orient; ring
  have e7 : orient q4 q1 q2 = orient q1 q2 q4 := by unfold orient; ring
  simp only [BowTie, Cross, e1, e2, e3, e4, e5, e6, e7] at hs
  have S := bsigns_Z (orient q1 q2 q3) (orient q1 q2 q4) (orient q1 q3 q4) (orient q2 q3 q4)
    (q2.1 - q1.1) (q3.1 - q1.1) (q4.1 - q1.1) (q3.1 - q2.1) (q4.1 - q2.1) (q4.1 - q3.1)
    (sub_pos.mpr h12) (sub_pos.mpr h13) (sub_pos.mpr h14) (sub_pos.mpr h23) (sub_pos.mpr h24)
    (sub_pos.mpr h34) (rel_a q1 q2 q3 q4) (rel_b q1 q2 q3 q4) (rel_c q1 q2 q3 q4) (rel_d q1 q2 q3 q4)
    hs
  rcases S with ⟨s123, s124, s134, s234⟩ | ⟨s123, s124, s134, s234⟩ | ⟨s123, s124, s134, s234⟩ |
    ⟨s123, s124, s134, s234⟩
  · exact runBow_Zb34 ori V i1 i2 i3 i4 q1 q2 q3 q4 h1 h2 h3 h4 h12 h23 h34 s123 s124 s134 s234
  · exact runBow_Za43 ori V i1 i2 i3 i4 q1 q2 q3 q4 h1 h2 h3 h4 h12 h23 h34 s123 s124 s134 s234
  · exact runBow_Zb43 ori V i1 i2 i3 i4 q1 q2 q3 q4 h1 h2 h3 h4 h12 h23 h34 s123 s124 s134 s234
  · exact runBow_Za34 ori V i1 i2 i3 i4 q1 q2 q3 q4 h1 h2 h3 h4 h12 h23 h34 s123 s124 s134 s234

end Cav.BowCases
