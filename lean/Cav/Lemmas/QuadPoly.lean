/-
  Helper definitions and lemmas for `Thm/C01` (accuracy of the 1-D integrator on polynomials,
  exact arithmetic).

  * polynomials as coefficient lists over `Rat` (`evalPoly`, `wsum`, `normL1`, `absPolyAt`);
  * `unitRule` is linear in the integrand (any rule list);
  * composition of a polynomial with an affine map on coefficient lists (`compAffine`);
  * the bridge to Mathlib's interval integral over `ℝ` (`evalPolyR`);
  * evenness of `unitRule` (`unitRule_comp_neg`, used for swapping the bounds);
  * directed chains: every piece lies between the ends, total absolute length.
-/
import Cav.Model.Quad
import Cav.Inst.Rat
import Cav.Lemmas.QuadTiling
import Cav.Thm.C02
import Mathlib.Tactic.Ring
import Mathlib.Tactic.Linarith
import Mathlib.Tactic.Positivity
import Mathlib.Algebra.Order.Field.Rat
import Mathlib.Algebra.BigOperators.Group.List.Basic
import Mathlib.Algebra.Order.BigOperators.Group.List
import Mathlib.Analysis.SpecialFunctions.Integrals.Basic
import Mathlib.Topology.Algebra.Order.Archimedean
import Mathlib.Topology.Instances.Rat

open Cav Num
namespace Cav.C01

/-! ### polynomials as coefficient lists (low degree first) -/

/-- `Σ_k cs[k] * g k` -/
def wsum : List Rat → (Nat → Rat) → Rat
  | [], _ => 0
  | c :: cs, g => c * g 0 + wsum cs (fun k => g (k + 1))

/-- the polynomial `Σ_k cs[k] * x^k`, evaluated by Horner's scheme -/
def evalPoly : List Rat → Rat → Rat
  | [], _ => 0
  | c :: cs, x => c + x * evalPoly cs x

/-- `Σ_k |cs[k]|` -/
def normL1 (cs : List Rat) : Rat := (cs.map (fun c => |c|)).sum

/-- `Σ_k |cs[k]| * r^k` -/
def absPolyAt (cs : List Rat) (r : Rat) : Rat := evalPoly (cs.map (fun c => |c|)) r

@[simp] theorem wsum_nil (g : Nat → Rat) : wsum [] g = 0 := rfl
@[simp] theorem wsum_cons (c : Rat) (cs : List Rat) (g : Nat → Rat) :
    wsum (c :: cs) g = c * g 0 + wsum cs (fun k => g (k + 1)) := rfl
@[simp] theorem evalPoly_nil (x : Rat) : evalPoly [] x = 0 := rfl
@[simp] theorem evalPoly_cons (c : Rat) (cs : List Rat) (x : Rat) :
    evalPoly (c :: cs) x = c + x * evalPoly cs x := rfl
@[simp] theorem normL1_nil : normL1 [] = 0 := rfl
@[simp] theorem normL1_cons (c : Rat) (cs : List Rat) : normL1 (c :: cs) = |c| + normL1 cs := by
  simp [normL1]
@[simp] theorem absPolyAt_nil (r : Rat) : absPolyAt [] r = 0 := rfl
@[simp] theorem absPolyAt_cons (c : Rat) (cs : List Rat) (r : Rat) :
    absPolyAt (c :: cs) r = |c| + r * absPolyAt cs r := rfl

/-- `wsum` written as a `Finset` sum -/
theorem wsum_eq_sum (cs : List Rat) (g : Nat → Rat) :
    wsum cs g = ∑ k ∈ Finset.range cs.length, cs.getD k 0 * g k := by
  induction cs generalizing g with
  | nil => simp
  | cons c cs ih =>
    rw [wsum_cons, ih, List.length_cons, Finset.sum_range_succ']
    simp [add_comm]

theorem wsum_mul_left (x : Rat) (cs : List Rat) (g : Nat → Rat) :
    wsum cs (fun k => x * g k) = x * wsum cs g := by
  induction cs generalizing g with
  | nil => simp
  | cons c cs ih => rw [wsum_cons, wsum_cons, ih]; ring

theorem wsum_sub (cs : List Rat) (g h : Nat → Rat) :
    wsum cs (fun k => g k - h k) = wsum cs g - wsum cs h := by
  induction cs generalizing g h with
  | nil => simp
  | cons c cs ih => rw [wsum_cons, wsum_cons, wsum_cons, ih]; ring

/-- Horner's scheme computes `Σ_k cs[k] * x^k` -/
theorem evalPoly_eq_wsum (cs : List Rat) (x : Rat) : evalPoly cs x = wsum cs (fun k => x ^ k) := by
  induction cs with
  | nil => simp
  | cons c cs ih =>
    rw [evalPoly_cons, wsum_cons, ih, ← wsum_mul_left]
    simp [pow_succ']

theorem evalPoly_eq_sum (cs : List Rat) (x : Rat) :
    evalPoly cs x = ∑ k ∈ Finset.range cs.length, cs.getD k 0 * x ^ k := by
  rw [evalPoly_eq_wsum, wsum_eq_sum]

theorem absPolyAt_eq_sum (cs : List Rat) (r : Rat) :
    absPolyAt cs r = ∑ k ∈ Finset.range cs.length, |cs.getD k 0| * r ^ k := by
  induction cs with
  | nil => simp
  | cons c cs ih =>
    rw [absPolyAt_cons, ih, List.length_cons, Finset.sum_range_succ', Finset.mul_sum]
    simp [pow_succ', add_comm, mul_left_comm]

theorem normL1_nonneg (cs : List Rat) : 0 ≤ normL1 cs := by
  induction cs with
  | nil => simp
  | cons c cs ih => rw [normL1_cons]; positivity

theorem absPolyAt_nonneg (cs : List Rat) {r : Rat} (hr : 0 ≤ r) : 0 ≤ absPolyAt cs r := by
  induction cs with
  | nil => simp
  | cons c cs ih => rw [absPolyAt_cons]; positivity

theorem absPolyAt_mono (cs : List Rat) {r s : Rat} (hr : 0 ≤ r) (hrs : r ≤ s) :
    absPolyAt cs r ≤ absPolyAt cs s := by
  induction cs with
  | nil => simp
  | cons c cs ih =>
    rw [absPolyAt_cons, absPolyAt_cons]
    have h1 : r * absPolyAt cs r ≤ s * absPolyAt cs s :=
      mul_le_mul hrs ih (absPolyAt_nonneg cs hr) (le_trans hr hrs)
    linarith

/-- `|Σ_k cs[k] d_k| ≤ ε Σ_k |cs[k]|` when `|d_k| ≤ ε` for the indices that occur -/
theorem abs_wsum_le (cs : List Rat) (d : Nat → Rat) (ε : Rat)
    (hd : ∀ k, k < cs.length → |d k| ≤ ε) : |wsum cs d| ≤ ε * normL1 cs := by
  induction cs generalizing d with
  | nil => simp
  | cons c cs ih =>
    rw [wsum_cons, normL1_cons]
    have h0 : |d 0| ≤ ε := hd 0 (by simp)
    have h1 : |wsum cs (fun k => d (k + 1))| ≤ ε * normL1 cs :=
      ih _ (fun k hk => hd (k + 1) (by simpa using hk))
    have h2 : |c * d 0| ≤ ε * |c| := by
      rw [abs_mul, mul_comm]; exact mul_le_mul_of_nonneg_right h0 (abs_nonneg c)
    calc |c * d 0 + wsum cs (fun k => d (k + 1))|
        ≤ |c * d 0| + |wsum cs (fun k => d (k + 1))| := abs_add_le _ _
      _ ≤ ε * |c| + ε * normL1 cs := add_le_add h2 h1
      _ = ε * (|c| + normL1 cs) := by ring

/-! ### `unitRule` over `Rat` in closed form; linearity -/

theorem foldl_add_eq (c : Rat × Rat → Rat) (l : List (Rat × Rat)) (s0 : Rat) :
    l.foldl (fun s nw => s + c nw) s0 = s0 + (l.map c).sum := by
  induction l generalizing s0 with
  | nil => simp
  | cons p ps ih => simp only [List.foldl_cons, List.map_cons, List.sum_cons, ih]; ring

/-- the symmetric part of a rule: `Σ w·(f(−n) + f(n))` -/
def ruleSum (f : Rat → Rat) (rule : List (Rat × Rat)) : Rat :=
  (rule.map (fun nw => nw.2 * (f (-nw.1) + f nw.1))).sum

@[simp] theorem ruleSum_nil (f : Rat → Rat) : ruleSum f [] = 0 := rfl
@[simp] theorem ruleSum_cons (f : Rat → Rat) (p : Rat × Rat) (rule : List (Rat × Rat)) :
    ruleSum f (p :: rule) = p.2 * (f (-p.1) + f p.1) + ruleSum f rule := by
  simp [ruleSum]

theorem unitRule_nil (f : Rat → Rat) : unitRule f [] = 0 := by
  simp [unitRule, Num.zero, Num.ofNat]

theorem unitRule_cons (f : Rat → Rat) (n0 w0 : Rat) (rest : List (Rat × Rat)) :
    unitRule f ((n0, w0) :: rest) =
      if n0 = 0 then w0 * f 0 + ruleSum f rest else ruleSum f ((n0, w0) :: rest) := by
  simp only [unitRule]
  have hz : (Num.zero : Rat) = 0 := QuadTiling.zero_eq
  by_cases h : n0 = 0
  · subst h
    have hb : Num.beq (0 : Rat) zero = true := by simp [Num.beq, hz]
    rw [if_pos hb, if_pos rfl, hz]
    rw [show (0 : Rat) + w0 * f 0 = w0 * f 0 by ring]
    exact foldl_add_eq (fun nw => nw.2 * (f (-nw.1) + f nw.1)) rest _
  · have hb : Num.beq n0 zero = false := by simp [Num.beq, hz, h]
    rw [if_neg (by rw [hb]; exact Bool.false_ne_true), if_neg h, hz]
    rw [foldl_add_eq (fun nw => nw.2 * (f (-nw.1) + f nw.1)), zero_add]
    rfl

theorem ruleSum_add (f g : Rat → Rat) (rule : List (Rat × Rat)) :
    ruleSum (fun x => f x + g x) rule = ruleSum f rule + ruleSum g rule := by
  induction rule with
  | nil => simp
  | cons p ps ih => rw [ruleSum_cons, ruleSum_cons, ruleSum_cons, ih]; ring

theorem ruleSum_smul (c : Rat) (f : Rat → Rat) (rule : List (Rat × Rat)) :
    ruleSum (fun x => c * f x) rule = c * ruleSum f rule := by
  induction rule with
  | nil => simp
  | cons p ps ih => rw [ruleSum_cons, ruleSum_cons, ih]; ring

theorem ruleSum_comp_neg (f : Rat → Rat) (rule : List (Rat × Rat)) :
    ruleSum (fun x => f (-x)) rule = ruleSum f rule := by
  induction rule with
  | nil => simp
  | cons p ps ih => rw [ruleSum_cons, ruleSum_cons, ih, neg_neg]; ring

/-- `unitRule` is additive in the integrand (any rule list) -/
theorem unitRule_add (f g : Rat → Rat) (rule : List (Rat × Rat)) :
    unitRule (fun x => f x + g x) rule = unitRule f rule + unitRule g rule := by
  cases rule with
  | nil => simp [unitRule_nil]
  | cons p rest =>
    obtain ⟨n0, w0⟩ := p
    rw [unitRule_cons, unitRule_cons, unitRule_cons]
    by_cases h : n0 = 0
    · simp only [h, if_true, ruleSum_add]; ring
    · simp only [h, if_false, ruleSum_add]

/-- `unitRule` is homogeneous in the integrand (any rule list) -/
theorem unitRule_smul (c : Rat) (f : Rat → Rat) (rule : List (Rat × Rat)) :
    unitRule (fun x => c * f x) rule = c * unitRule f rule := by
  cases rule with
  | nil => simp [unitRule_nil]
  | cons p rest =>
    obtain ⟨n0, w0⟩ := p
    rw [unitRule_cons, unitRule_cons]
    by_cases h : n0 = 0
    · simp only [h, if_true, ruleSum_smul]; ring
    · simp only [h, if_false, ruleSum_smul]

theorem unitRule_zero (rule : List (Rat × Rat)) : unitRule (fun _ => (0 : Rat)) rule = 0 := by
  have := unitRule_smul 0 (fun _ => (0 : Rat)) rule
  simpa using this

/-- the rule is even: reflecting the integrand does not change its value -/
theorem unitRule_comp_neg (f : Rat → Rat) (rule : List (Rat × Rat)) :
    unitRule (fun x => f (-x)) rule = unitRule f rule := by
  cases rule with
  | nil => simp [unitRule_nil]
  | cons p rest =>
    obtain ⟨n0, w0⟩ := p
    rw [unitRule_cons, unitRule_cons]
    by_cases h : n0 = 0
    · simp only [h, if_true, ruleSum_comp_neg, neg_zero]
    · simp only [h, if_false, ruleSum_comp_neg]

/-- linearity over a coefficient list -/
theorem unitRule_wsum (cs : List Rat) (g : Nat → Rat → Rat) (rule : List (Rat × Rat)) :
    unitRule (fun x => wsum cs (fun k => g k x)) rule = wsum cs (fun k => unitRule (g k) rule) := by
  induction cs generalizing g with
  | nil => simp [unitRule_zero]
  | cons c cs ih =>
    simp only [wsum_cons]
    rw [unitRule_add (fun x => c * g 0 x) (fun x => wsum cs (fun k => g (k + 1) x)),
      unitRule_smul c (g 0), ih (fun k => g (k + 1))]

/-! ### composition with an affine map -/

/-- coefficients of `t ↦ carry + (c + h t) · Q(t)` -/
def mulLinAux (c h : Rat) : Rat → List Rat → List Rat
  | carry, [] => [carry]
  | carry, q :: Q => (carry + c * q) :: mulLinAux c h (h * q) Q

/-- coefficients of `t ↦ evalPoly cs (c + h t)` -/
def compAffine : List Rat → Rat → Rat → List Rat
  | [], _, _ => []
  | a :: cs, c, h => mulLinAux c h a (compAffine cs c h)

theorem mulLinAux_length (c h carry : Rat) (Q : List Rat) :
    (mulLinAux c h carry Q).length = Q.length + 1 := by
  induction Q generalizing carry with
  | nil => rfl
  | cons q Q ih => simp [mulLinAux, ih]

theorem compAffine_length (cs : List Rat) (c h : Rat) : (compAffine cs c h).length = cs.length := by
  induction cs with
  | nil => rfl
  | cons a cs ih => simp [compAffine, mulLinAux_length, ih]

theorem evalPoly_mulLinAux (c h carry : Rat) (Q : List Rat) (t : Rat) :
    evalPoly (mulLinAux c h carry Q) t = carry + (c + h * t) * evalPoly Q t := by
  induction Q generalizing carry with
  | nil => simp [mulLinAux]
  | cons q Q ih => simp only [mulLinAux, evalPoly_cons, ih]; ring

theorem evalPoly_compAffine (cs : List Rat) (c h t : Rat) :
    evalPoly (compAffine cs c h) t = evalPoly cs (c + h * t) := by
  induction cs with
  | nil => rfl
  | cons a cs ih => simp only [compAffine, evalPoly_mulLinAux, evalPoly_cons, ih]

theorem normL1_mulLinAux (c h carry : Rat) (Q : List Rat) :
    normL1 (mulLinAux c h carry Q) ≤ |carry| + (|c| + |h|) * normL1 Q := by
  induction Q generalizing carry with
  | nil => simp [mulLinAux]
  | cons q Q ih =>
    simp only [mulLinAux, normL1_cons]
    have h1 := ih (h * q)
    have h2 : |carry + c * q| ≤ |carry| + |c| * |q| := by
      rw [← abs_mul]; exact abs_add_le _ _
    rw [abs_mul] at h1
    nlinarith [h1, h2]

theorem normL1_compAffine (cs : List Rat) (c h : Rat) :
    normL1 (compAffine cs c h) ≤ absPolyAt cs (|c| + |h|) := by
  induction cs with
  | nil => simp [compAffine]
  | cons a cs ih =>
    simp only [compAffine, absPolyAt_cons]
    refine le_trans (normL1_mulLinAux c h a _) ?_
    have : 0 ≤ |c| + |h| := by positivity
    have := mul_le_mul_of_nonneg_left ih this
    linarith

/-- `|(a+b)/2| + |(b-a)/2| ≤ max |a| |b|` (in fact equal) -/
theorem abs_mid_add_abs_half (a b : Rat) : |(a + b) / 2| + |(b - a) / 2| ≤ max |a| |b| := by
  have ha := le_max_left |a| |b|
  have hb := le_max_right |a| |b|
  have h1 := le_abs_self a
  have h2 := neg_abs_le a
  have h3 := le_abs_self b
  have h4 := neg_abs_le b
  rcases abs_cases ((a + b) / 2) with ⟨e1, _⟩ | ⟨e1, _⟩ <;>
  rcases abs_cases ((b - a) / 2) with ⟨e2, _⟩ | ⟨e2, _⟩ <;>
  rw [e1, e2] <;> linarith

/-! ### the model functions over `Rat` in plain arithmetic -/

theorem numAbs_eq (x : Rat) : Num.abs x = |x| := by
  show (if x < 0 then -x else x) = |x|
  split
  · rename_i h; rw [abs_of_neg h]
  · rename_i h; rw [abs_of_nonneg (not_lt.mp h)]

theorem denorm_eq (a b x : Rat) : denorm a b x = (a + b) / 2 + (b - a) / 2 * x := by
  simp only [denorm, QuadTiling.two_eq]; ring

theorem symRule_eq (f : Rat → Rat) (a b : Rat) (rule : List (Rat × Rat)) :
    symRule f a b rule =
      (b - a) / 2 * unitRule (fun x => f ((a + b) / 2 + (b - a) / 2 * x)) rule := by
  simp only [symRule, QuadTiling.two_eq]
  congr 2
  funext x
  rw [denorm_eq]

theorem gkApprox_fst (f : Rat → Rat) (a b : Rat) : (gkApprox f a b).1 = symRule f a b Gen.k21 := rfl

theorem gkApprox_snd (f : Rat → Rat) (a b : Rat) :
    (gkApprox f a b).2 = |symRule f a b Gen.g10 - symRule f a b Gen.k21| := by
  rw [← numAbs_eq]; rfl

/-! ### directed chains -/

open Cav.C02 Cav.QuadTiling in
/-- in a directed chain from `a` to `b` every piece lies in the closed hull of `a, b` and runs
    in the direction of `b - a` -/
theorem chain_piece_bounds {a b : Rat} {L : List (Rat × Rat)} (hc : IsChain a b L)
    (hd : Directed a b L) (hab : a ≠ b) :
    ∀ p ∈ L, (a < b ∧ a ≤ p.1 ∧ p.1 < p.2 ∧ p.2 ≤ b) ∨ (b < a ∧ b ≤ p.2 ∧ p.2 < p.1 ∧ p.1 ≤ a) := by
  have hch : Chain a b L := (isChain_iff.mp hc).2
  intro p hp
  rcases lt_or_gt_of_ne hab with hlt | hgt
  · left
    have hdir : ∀ q ∈ L, q.1 < q.2 := fun q hq => (hd q hq).1 hlt
    obtain ⟨h1, h2⟩ := chain_bounds dir_lt hch hdir p hp
    exact ⟨hlt, by rcases h1 with h | h <;> [exact h.le; exact h.le], hdir p hp,
      by rcases h2 with h | h <;> [exact h.le; exact h.le]⟩
  · right
    have hdir : ∀ q ∈ L, q.2 < q.1 := fun q hq => (hd q hq).2 hgt
    obtain ⟨h1, h2⟩ := chain_bounds dir_gt hch hdir p hp
    exact ⟨hgt, by rcases h2 with h | h <;> [exact h.ge; exact h.le], hdir p hp,
      by rcases h1 with h | h <;> [exact h.ge; exact h.le]⟩

/-- every endpoint of a piece of a directed chain is bounded by `max |a| |b|` -/
theorem chain_piece_abs_le {a b : Rat} {L : List (Rat × Rat)} (hc : C02.IsChain a b L)
    (hd : C02.Directed a b L) (hab : a ≠ b) :
    ∀ p ∈ L, max |p.1| |p.2| ≤ max |a| |b| := by
  intro p hp
  rcases chain_piece_bounds hc hd hab p hp with ⟨_, h1, h2, h3⟩ | ⟨_, h1, h2, h3⟩
  · exact max_le (abs_le_max_abs_abs h1 (le_trans h2.le h3))
      (abs_le_max_abs_abs (le_trans h1 h2.le) h3)
  · rw [max_comm |a| |b|]
    exact max_le (abs_le_max_abs_abs (le_trans h1 h2.le) h3)
      (abs_le_max_abs_abs h1 (le_trans h2.le h3))

theorem list_sum_map_neg {ι : Type} (l : List ι) (f : ι → Rat) :
    (l.map (fun p => - f p)).sum = - (l.map f).sum := by
  induction l with
  | nil => simp
  | cons p ps ih => simp only [List.map_cons, List.sum_cons, ih]; ring

/-- the absolute lengths of the pieces of a directed chain add up to `|b - a|` -/
theorem chain_abs_length_sum {a b : Rat} {L : List (Rat × Rat)} (hc : C02.IsChain a b L)
    (hd : C02.Directed a b L) (hab : a ≠ b) :
    (L.map (fun p => |p.2 - p.1|)).sum = |b - a| := by
  have hs := C02.chain_length_sum a b L hc
  rcases lt_or_gt_of_ne hab with hlt | hgt
  · rw [abs_of_pos (sub_pos.mpr hlt), ← hs]
    congr 1
    apply List.map_congr_left
    intro p hp
    exact abs_of_pos (sub_pos.mpr ((hd p hp).1 hlt))
  · rw [abs_of_neg (sub_neg.mpr hgt), ← hs, ← list_sum_map_neg]
    congr 1
    apply List.map_congr_left
    intro p hp
    exact abs_of_neg (sub_neg.mpr ((hd p hp).2 hgt))

/-! ### bridge to the interval integral over `ℝ` -/

/-- the real polynomial function with the (rational) coefficients `cs` -/
noncomputable def evalPolyR (cs : List Rat) (x : ℝ) : ℝ :=
  ∑ k ∈ Finset.range cs.length, ((cs.getD k 0 : Rat) : ℝ) * x ^ k

theorem evalPolyR_cast (cs : List Rat) (q : Rat) : evalPolyR cs (q : ℝ) = ((evalPoly cs q : Rat) : ℝ) := by
  rw [evalPolyR, evalPoly_eq_sum]; push_cast; rfl

theorem evalPolyR_continuous (cs : List Rat) : Continuous (evalPolyR cs) := by
  unfold evalPolyR; fun_prop

/-- the composition identity of `compAffine`, for real arguments (by density of `ℚ` in `ℝ`) -/
theorem evalPolyR_compAffine (cs : List Rat) (c h : Rat) (t : ℝ) :
    evalPolyR (compAffine cs c h) t = evalPolyR cs ((c : ℝ) + (h : ℝ) * t) := by
  have h1 : Continuous (fun t : ℝ => evalPolyR (compAffine cs c h) t) := evalPolyR_continuous _
  have h2 : Continuous (fun t : ℝ => evalPolyR cs ((c : ℝ) + (h : ℝ) * t)) :=
    (evalPolyR_continuous cs).comp (by fun_prop)
  have := Rat.denseRange_cast (𝕜 := ℝ) |>.equalizer h1 h2 (by
    funext q
    simp only [Function.comp]
    rw [evalPolyR_cast, ← Rat.cast_mul, ← Rat.cast_add, evalPolyR_cast, evalPoly_compAffine])
  exact congrFun this t

/-- `∫_{-1}^{1} t^k dt` -/
theorem integral_pow_unit (k : Nat) :
    ∫ t in (-1 : ℝ)..1, t ^ k = if k % 2 = 1 then 0 else 2 / ((k : ℝ) + 1) := by
  rw [integral_pow]
  split
  · rename_i hk
    have : Even (k + 1) := by rw [Nat.even_iff]; omega
    rw [this.neg_one_pow]; simp
  · rename_i hk
    have : Odd (k + 1) := by rw [Nat.odd_iff]; omega
    rw [this.neg_one_pow]; simp; norm_num

theorem integral_evalPolyR_unit (cs : List Rat) :
    ∫ t in (-1 : ℝ)..1, evalPolyR cs t =
      ∑ k ∈ Finset.range cs.length, ((cs.getD k 0 : Rat) : ℝ) * ∫ t in (-1 : ℝ)..1, t ^ k := by
  unfold evalPolyR
  rw [intervalIntegral.integral_finsetSum]
  · congr 1; funext k
    rw [intervalIntegral.integral_const_mul]
  · intro k _
    exact (by fun_prop : Continuous fun t : ℝ => ((cs.getD k 0 : Rat) : ℝ) * t ^ k).intervalIntegrable _ _

/-- substitution `x = c + h t`, `c = (a+b)/2`, `h = (b-a)/2` (all `a, b`, including `a = b`) -/
theorem integral_evalPolyR (cs : List Rat) (a b : Rat) :
    ∫ x in (a : ℝ)..(b : ℝ), evalPolyR cs x =
      (((b - a) / 2 : Rat) : ℝ) * ∫ t in (-1 : ℝ)..1, evalPolyR (compAffine cs ((a + b) / 2) ((b - a) / 2)) t := by
  have h := intervalIntegral.mul_integral_comp_add_mul (a := (-1 : ℝ)) (b := 1) (f := evalPolyR cs)
    (c := (((b - a) / 2 : Rat) : ℝ)) (d := (((a + b) / 2 : Rat) : ℝ))
  simp only [evalPolyR_compAffine]
  rw [h]
  congr 1 <;> push_cast <;> ring

theorem evalPolyR_intervalIntegrable (cs : List Rat) (x y : ℝ) :
    IntervalIntegrable (evalPolyR cs) MeasureTheory.volume x y :=
  (evalPolyR_continuous cs).intervalIntegrable _ _

/-! ### sums over a tiling -/

theorem abs_sum_sub_sum_le {ι : Type} (L : List ι) (f g B : ι → Rat)
    (h : ∀ p ∈ L, |f p - g p| ≤ B p) :
    |(L.map f).sum - (L.map g).sum| ≤ (L.map B).sum := by
  induction L with
  | nil => simp
  | cons p ps ih =>
    simp only [List.map_cons, List.sum_cons]
    have h1 := h p List.mem_cons_self
    have h2 := ih (fun q hq => h q (List.mem_cons_of_mem _ hq))
    calc |f p + (ps.map f).sum - (g p + (ps.map g).sum)|
        = |(f p - g p) + ((ps.map f).sum - (ps.map g).sum)| := by congr 1; ring
      _ ≤ |f p - g p| + |(ps.map f).sum - (ps.map g).sum| := abs_add_le _ _
      _ ≤ B p + (ps.map B).sum := add_le_add h1 h2

end Cav.C01
