/-
  Tiling WITHOUT the hypothesis of distinct abscissae, part 5: THE TILING IDENTITY IN THE SHEARED
  PICTURE (`tiling_ghostV`).  For a polygon list that is valid in the lexicographic sense and EVERY
  admissible shear `ε` (`ShOK`), the result of the (original) run of the model is
  `L.map (sqU ε)` for a list `L` of clockwise triples of vertices of the SHEARED ring, and for every
  point `q'` whose abscissa is not the abscissa of a sheared vertex the number of triples containing
  `q'` (downward vertical ray) is the indicator of the even-odd region of the sheared ring.

  The ring side (`region_weight`) is the theorem of `GenOutInSlab2.lean` applied to the sheared
  polygon list `shP ε polys`, which is a valid set in general position (`valid_shP`) and whose ring
  is the sheared ring (`ringOf_shP`).
-/
import Cav.Lemmas.GenOutInVLoop
import Cav.Lemmas.GenOutInVRay
import Cav.Lemmas.GenOutInTile
import Cav.Lemmas.GenOutVPoly

set_option linter.unusedVariables false
set_option linter.unusedSimpArgs false

namespace Cav.GenOutInV
open Cav Num Cav.Geo Cav.Sweep Cav.QuadGeom Cav.CvxEvents Cav.CvxLoop Cav.MonoGeom
open Cav.GenInv Cav.GenRing Cav.GenValid Cav.GenOutShape Cav.SweepSetup
open Cav.GenVShear Cav.GenVAccept Cav.GenOutV Cav.GenOutVPoly Cav.GenOutIn

variable {ε : Rat} {Vε : Array (Vtx XQ)}

/-- **the tiling identity for the ghost triples in the sheared picture** (the list `L` is in the
    order of the result) -/
theorem tiling_ghostV (polys : List (Array (Rat × Rat))) (h3 : ∀ p ∈ polys, 3 ≤ p.size)
    (hnd : (polys.flatMap Array.toList).Nodup) (hSh : ShOK (ringOf polys) ε Vε) :
    ∃ L : List (Q × Q × Q),
      sweepMon (polys.map (fun p => p.map Fq)) = .ok (L.map (sqU ε), true) ∧
      (∀ t ∈ L, orient t.1 t.2.1 t.2.2 < 0) ∧
      (∀ t ∈ L, ∀ a ∈ [t.1, t.2.1, t.2.2],
        ∃ v, v < (ringOf polys).n ∧ (shearRing ε (ringOf polys)).pt v = a) ∧
      ∀ q : Q, Generic (shearRing ε (ringOf polys)) q →
        L.countP (fun t => decide (rayCount q t.1 t.2.1 t.2.2 % 2 = 1)) =
          if inRegionV (shearRing ε (ringOf polys)) q then 1 else 0 := by
  obtain ⟨Tg, hrun, hneg, hid⟩ := ghostV_of_shOK polys h3 hSh
  have hrun' : sweepMon (polys.map (fun p => p.map Fq)) = .ok (Tg.reverse.map (sqU ε), true) := by
    rw [List.map_reverse]; exact hrun
  have hcorn := SweepCorners.sweep_corners (sweep_of_mon hrun)
  have hvert : ∀ t ∈ Tg, ∀ a ∈ [t.1, t.2.1, t.2.2],
      ∃ v, v < (ringOf polys).n ∧ (shearRing ε (ringOf polys)).pt v = a := by
    intro t ht a ha
    have hm : sqU ε t ∈ (Tg.map (sqU ε)).reverse := List.mem_reverse.mpr (List.mem_map_of_mem ht)
    obtain ⟨c1, c2, c3⟩ := hcorn _ hm
    have hin : Fq (unsh ε a) ∈ allPts (polys.map (fun p => p.map Fq)) := by
      have := corners_sq (unshT ε t) (Fq (unsh ε a)) (by
        simp only [List.mem_cons, List.not_mem_nil, or_false] at ha ⊢
        rcases ha with rfl | rfl | rfl <;> simp [unshT])
      rw [← sqU_eq] at this
      rcases this with e | e | e <;> rw [e] <;> assumption
    obtain ⟨v, hv, hpt⟩ := vertex_of_input hin
    refine ⟨v, hv, ?_⟩
    show shear ε ((ringOf polys).pt v) = a
    rw [hpt, shear_unsh]
  refine ⟨Tg.reverse, hrun', fun t ht => hneg t (List.mem_reverse.mp ht),
    fun t ht => hvert t (List.mem_reverse.mp ht), ?_⟩
  intro q hq
  rw [List.countP_reverse]
  have hne : ∀ t ∈ Tg, q.1 ≠ t.1.1 ∧ q.1 ≠ t.2.1.1 ∧ q.1 ≠ t.2.2.1 := by
    intro t ht
    have key : ∀ a : Q, a ∈ [t.1, t.2.1, t.2.2] → q.1 ≠ a.1 := by
      intro a ha
      obtain ⟨v, hv, hpt⟩ := hvert t ht a ha
      have := hq v hv
      intro e
      apply this
      show ((shearRing ε (ringOf polys)).pt v).1 = q.1
      rw [hpt, e]
    exact ⟨key _ (by simp), key _ (by simp), key _ (by simp)⟩
  have hmu : muSum (beta q) Tg =
      (Tg.map fun t => if rayCount q t.1 t.2.1 t.2.2 % 2 = 1 then (1 : Rat) else 0).sum := by
    unfold muSum
    congr 1
    apply List.map_congr_left
    intro t ht
    obtain ⟨n1, n2, n3⟩ := hne t ht
    exact mu_beta' (hneg t ht) n1 n2 n3
  -- the ring side: the sheared polygon list is a valid set in general position
  obtain ⟨h3', hx', hA', hS'⟩ := valid_shP h3 hnd hSh
  have hR' := ringOK (shP ε polys) h3' hx'
  have hN' := noCross_of hR' hA' hS'
  have hring := ringOf_shP ε polys
  have hreg := region_weight (shP ε polys) h3' hx' hN' q (by rw [hring]; exact hq)
  rw [hring] at hreg
  have hsum := hid (beta q) (beta_as q)
  rw [hmu, hreg, sum_ite_countP (fun t : Q × Q × Q => rayCount q t.1 t.2.1 t.2.2 % 2 = 1)] at hsum
  by_cases hin : inRegionV (shearRing ε (ringOf polys)) q
  · rw [if_pos hin] at hsum ⊢
    exact_mod_cast hsum
  · rw [if_neg hin] at hsum ⊢
    exact_mod_cast hsum

end Cav.GenOutInV
