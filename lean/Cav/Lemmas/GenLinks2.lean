/-
  General sweep invariant, part 14: more on linked cells — the geometry of every active edge read
  from its cells, changing the partner link at the boundary of a block of in-intervals, splicing
  a block of in-intervals.
-/
import Cav.Lemmas.GenLinks

set_option linter.unusedSimpArgs false
set_option linter.unusedVariables false

namespace Cav.GenLinks
open Cav Num Cav.Geo Cav.Sweep Cav.TriRun Cav.QuadRun Cav.QuadGeom Cav.SweepOut
open Cav.GenNodes Cav.GenQuery Cav.GenGeom Cav.GenBend Cav.GenInv Cav.GenQueue Cav.GenOrder Cav.GenStepBend

variable {R : RingQ}

/-- the geometry of an active edge, read through its cells -/
theorem Linked.eg {s : St XQ} {l : List IV} {b a : Option Nat} (hl : Linked s R b l a) :
    ∀ x ∈ flatE l, EG s x.id (Fq (R.pt x.lv)) (Fq (R.pt x.rv)) := by
  intro x hx
  obtain ⟨pre, iv, post, rfl, hcase⟩ := mem_flatE hx
  obtain ⟨b', a', h1, h2, h3⟩ := Linked.mem hl iv (by simp)
  rcases hcase with rfl | rfl
  · exact ⟨_, h1, lpt_lo h1 h3, rfl⟩
  · exact ⟨_, h2, lpt_hi h2 h3, rfl⟩

/-- a list without duplicates splits at an element in one way only -/
theorem nodup_split_unique {β : Type} : ∀ {A A' B B' : List β} {x : β},
    (A ++ x :: B).Nodup → A ++ x :: B = A' ++ x :: B' → A = A' ∧ B = B'
  | [], [], B, B', x, _, h => by simpa using h
  | [], a' :: A', B, B', x, hnd, h => by
    exfalso
    simp only [List.nil_append, List.cons_append, List.cons.injEq] at h
    obtain ⟨rfl, rfl⟩ := h
    simp at hnd
  | a :: A, [], B, B', x, hnd, h => by
    exfalso
    simp only [List.nil_append, List.cons_append, List.cons.injEq] at h
    obtain ⟨rfl, h2⟩ := h
    simp at hnd
  | a :: A, a' :: A', B, B', x, hnd, h => by
    simp only [List.cons_append, List.cons.injEq] at h
    obtain ⟨rfl, h2⟩ := h
    have := nodup_split_unique (List.nodup_cons.mp hnd).2 h2
    exact ⟨by rw [this.1], this.2⟩

/-- the partner link above the last in-interval of a block is changed -/
theorem Linked.set_above {s s' : St XQ} : ∀ {l : List IV} {b a a' : Option Nat},
    Linked s R b l a →
    (∀ iv ∈ l, s'.edges[iv.lo.id]? = s.edges[iv.lo.id]? ∧ s'.chains[iv.ci]? = s.chains[iv.ci]?) →
    (∀ iv ∈ l.dropLast, s'.edges[iv.hi.id]? = s.edges[iv.hi.id]?) →
    s.nodes.size ≤ s'.nodes.size → (∀ i, i < s.nodes.size → ptAt s'.nodes i = ptAt s.nodes i) →
    (∀ l' iv, l = l' ++ [iv] → ECell s' R iv.hi iv.ci false (some iv.lo.id) a') →
    Linked s' R b l a'
  | [], _, _, _, _, _, _, _, _, _ => trivial
  | iv :: r, b, a, a', hl, hlo, hhi, hsz, hpt, hlast => by
    obtain ⟨h1, h2, h3, h4⟩ := hl
    obtain ⟨e1, e3⟩ := hlo iv List.mem_cons_self
    have c1 : ECell s' R iv.lo iv.ci true b (some iv.hi.id) := by
      unfold ECell at h1 ⊢; rw [e1]; exact h1
    have c3 : CCell s' R iv := by
      obtain ⟨c, hc, hrm, hh, ht⟩ := h3
      refine ⟨c, by rw [e3]; exact hc, Nat.lt_of_lt_of_le hrm hsz, ?_, ?_⟩
      · rw [hpt _ (ptAt_some_lt hh)]; exact hh
      · rw [hpt _ (ptAt_some_lt ht)]; exact ht
    cases r with
    | nil => exact ⟨c1, hlast [] iv rfl, c3, trivial⟩
    | cons iv2 r' =>
      refine ⟨c1, ?_, c3, ?_⟩
      · have e2 := hhi iv (by simp [List.dropLast])
        unfold ECell at h2 ⊢; rw [e2]; exact h2
      · refine Linked.set_above h4 (fun j hj => hlo j (List.mem_cons_of_mem _ hj)) ?_ hsz hpt ?_
        · intro j hj
          exact hhi j (by simp only [List.dropLast_cons_cons]; exact List.mem_cons_of_mem _ hj)
        · intro l' j e
          exact hlast (iv :: l') j (by rw [e]; rfl)

/-- the partner link below the first in-interval of a block is changed -/
theorem Linked.set_below {s s' : St XQ} {l : List IV} {b b' a : Option Nat}
    (hl : Linked s R b l a)
    (hhi : ∀ iv ∈ l, s'.edges[iv.hi.id]? = s.edges[iv.hi.id]? ∧ s'.chains[iv.ci]? = s.chains[iv.ci]?)
    (hlo : ∀ iv ∈ l.tail, s'.edges[iv.lo.id]? = s.edges[iv.lo.id]?)
    (hsz : s.nodes.size ≤ s'.nodes.size) (hpt : ∀ i, i < s.nodes.size → ptAt s'.nodes i = ptAt s.nodes i)
    (hfirst : ∀ iv l', l = iv :: l' → ECell s' R iv.lo iv.ci true b' (some iv.hi.id)) :
    Linked s' R b' l a := by
  cases l with
  | nil => trivial
  | cons iv r =>
    obtain ⟨h1, h2, h3, h4⟩ := hl
    obtain ⟨e2, e3⟩ := hhi iv List.mem_cons_self
    refine ⟨hfirst iv r rfl, ?_, ?_, ?_⟩
    · unfold ECell at h2 ⊢; rw [e2]; exact h2
    · obtain ⟨c, hc, hrm, hh, ht⟩ := h3
      refine ⟨c, by rw [e3]; exact hc, Nat.lt_of_lt_of_le hrm hsz, ?_, ?_⟩
      · rw [hpt _ (ptAt_some_lt hh)]; exact hh
      · rw [hpt _ (ptAt_some_lt ht)]; exact ht
    · refine Linked.frame ?_ hsz hpt h4
      intro j hj
      exact ⟨hlo j hj, (hhi j (List.mem_cons_of_mem _ hj)).1, (hhi j (List.mem_cons_of_mem _ hj)).2⟩

/-- a block `mid` of in-intervals is replaced by a block `mid'` with the same boundary ids -/
theorem Linked.splice {s s' : St XQ} {pre mid mid' post : List IV}
    (hl : Linked s R none (pre ++ (mid ++ post)) none)
    (hb1 : nxtLo (mid' ++ post) none = nxtLo (mid ++ post) none)
    (hb2 : lastHi mid' (lastHi pre none) = lastHi mid (lastHi pre none))
    (hfr : ∀ j ∈ pre ++ post, s'.edges[j.lo.id]? = s.edges[j.lo.id]? ∧
      s'.edges[j.hi.id]? = s.edges[j.hi.id]? ∧ s'.chains[j.ci]? = s.chains[j.ci]?)
    (hsz : s.nodes.size ≤ s'.nodes.size)
    (hpt : ∀ i, i < s.nodes.size → ptAt s'.nodes i = ptAt s.nodes i)
    (hmid : Linked s' R (lastHi pre none) mid' (nxtLo post none)) :
    Linked s' R none (pre ++ (mid' ++ post)) none := by
  rw [linked_append, linked_append] at hl ⊢
  obtain ⟨hpre, -, hpost⟩ := hl
  refine ⟨?_, hmid, ?_⟩
  · rw [hb1]
    exact Linked.frame (fun j hj => hfr j (List.mem_append_left _ hj)) hsz hpt hpre
  · rw [hb2]
    exact Linked.frame (fun j hj => hfr j (List.mem_append_right _ hj)) hsz hpt hpost


/-- a lower edge and an upper edge never share a stored cell -/
theorem Linked.lo_ne_hi {s : St XQ} {l : List IV} {b a : Option Nat} (hl : Linked s R b l a)
    {j k : IV} (hj : j ∈ l) (hk : k ∈ l) : j.lo.id ≠ k.hi.id := by
  obtain ⟨_, _, h1, -, -⟩ := Linked.mem hl j hj
  obtain ⟨_, _, -, h2, -⟩ := Linked.mem hl k hk
  intro e
  unfold ECell at h1 h2
  rw [e, h2] at h1
  have := congrArg (fun o => o.map Edge.bofIn) h1
  simp at this

theorem lastHi_eq_some {l : List IV} {k : Nat} (h : lastHi l none = some k) :
    ∃ l' iv, l = l' ++ [iv] ∧ k = iv.hi.id := by
  rcases lastHi_cases l none with ⟨-, e⟩ | ⟨l', iv, e1, e2⟩
  · rw [e] at h; cases h
  · rw [e2] at h; cases h
    exact ⟨l', iv, e1, rfl⟩

theorem nxtLo_eq_some {l : List IV} {k : Nat} (h : nxtLo l none = some k) :
    ∃ iv l', l = iv :: l' ∧ k = iv.lo.id := by
  rcases nxtLo_cases l none with ⟨-, e⟩ | ⟨iv, l', e1, e2⟩
  · rw [e] at h; cases h
  · rw [e2] at h; cases h
    exact ⟨iv, l', e1, rfl⟩

end Cav.GenLinks
