/-
  Heap-level run lemmas for the back-chain operations of the sweep model on a chain with at most
  three nodes: `chainAppend` at the head / at the tail, and `backTriangulate` when it cuts exactly
  one triangle or nothing.  The node arrays produced are named (`appH`, `appT`, `cut`) so that the
  symbolic executor treats them as opaque and reads them through the look-up lemmas below.
-/
import Cav.Lemmas.QuadRun

set_option linter.unusedSimpArgs false
set_option linter.unusedVariables false
set_option linter.unusedSectionVars false

namespace Cav.CvxHeap
open Cav Num Cav.Sweep Cav.SweepRun Cav.TriRun Cav.QuadRun

variable {α : Type} [Num α]

/-- node array after `chainAppend c p false` (new head in front of the old head `i`, whose cell
    was `h`) -/
def appH (N : Array (Node α)) (i : Nat) (h : Node α) (p : Pt α) : Array (Node α) :=
  ((N.push ⟨p, none, none⟩).setIfInBounds N.size ⟨p, none, some i⟩).setIfInBounds i
    ⟨h.p, some N.size, h.next⟩

/-- node array after `chainAppend c p true` (new tail behind the old tail `i`, whose cell was
    `t`) -/
def appT (N : Array (Node α)) (i : Nat) (t : Node α) (p : Pt α) : Array (Node α) :=
  ((N.push ⟨p, none, none⟩).setIfInBounds N.size ⟨p, some i, none⟩).setIfInBounds i
    ⟨t.p, t.prev, some N.size⟩

/-- node array after one cut of `nodeTriangulate`: `i1.next := i3`, `i3.prev := i1` -/
def cut (N : Array (Node α)) (i1 i3 : Nat) (n1 n3 : Node α) : Array (Node α) :=
  (N.setIfInBounds i1 ⟨n1.p, n1.prev, some i3⟩).setIfInBounds i3 ⟨n3.p, some i1, n3.next⟩

theorem lt_of_get {N : Array (Node α)} {i : Nat} {n : Node α} (h : N[i]? = some n) : i < N.size := by
  rcases Nat.lt_or_ge i N.size with h' | h'
  · exact h'
  · rw [Array.getElem?_eq_none h'] at h; cases h

theorem size_appH (N : Array (Node α)) (i : Nat) (h : Node α) (p : Pt α) :
    (appH N i h p).size = N.size + 1 := by simp [appH]
theorem size_appT (N : Array (Node α)) (i : Nat) (t : Node α) (p : Pt α) :
    (appT N i t p).size = N.size + 1 := by simp [appT]
theorem size_cut (N : Array (Node α)) (i1 i3 : Nat) (n1 n3 : Node α) :
    (cut N i1 i3 n1 n3).size = N.size := by simp [cut]

theorem appH_new (N : Array (Node α)) (i : Nat) (h : Node α) (p : Pt α) (hi : i < N.size) :
    (appH N i h p)[N.size]? = some ⟨p, none, some i⟩ := by
  have : i ≠ N.size := Nat.ne_of_lt hi
  simp [appH, Array.getElem?_setIfInBounds, Array.getElem?_push, this]

theorem appH_old (N : Array (Node α)) (i : Nat) (h : Node α) (p : Pt α) (hi : i < N.size) :
    (appH N i h p)[i]? = some ⟨h.p, some N.size, h.next⟩ := by
  have : i < N.size + 1 := Nat.lt_succ_of_lt hi
  simp [appH, Array.getElem?_setIfInBounds, this]

theorem appH_other (N : Array (Node α)) (i : Nat) (h : Node α) (p : Pt α) (j : Nat)
    (hj : j < N.size) (hne : j ≠ i) : (appH N i h p)[j]? = N[j]? := by
  have h1 : j ≠ N.size := Nat.ne_of_lt hj
  simp [appH, Array.getElem?_setIfInBounds, Array.getElem?_push, h1, hne.symm, h1.symm]

theorem appT_new (N : Array (Node α)) (i : Nat) (t : Node α) (p : Pt α) (hi : i < N.size) :
    (appT N i t p)[N.size]? = some ⟨p, some i, none⟩ := by
  have : i ≠ N.size := Nat.ne_of_lt hi
  simp [appT, Array.getElem?_setIfInBounds, Array.getElem?_push, this]

theorem appT_old (N : Array (Node α)) (i : Nat) (t : Node α) (p : Pt α) (hi : i < N.size) :
    (appT N i t p)[i]? = some ⟨t.p, t.prev, some N.size⟩ := by
  have : i < N.size + 1 := Nat.lt_succ_of_lt hi
  simp [appT, Array.getElem?_setIfInBounds, this]

theorem appT_other (N : Array (Node α)) (i : Nat) (t : Node α) (p : Pt α) (j : Nat)
    (hj : j < N.size) (hne : j ≠ i) : (appT N i t p)[j]? = N[j]? := by
  have h1 : j ≠ N.size := Nat.ne_of_lt hj
  simp [appT, Array.getElem?_setIfInBounds, Array.getElem?_push, h1, hne.symm, h1.symm]

theorem cut_fst (N : Array (Node α)) (i1 i3 : Nat) (n1 n3 : Node α) (h1 : i1 < N.size)
    (hne : i1 ≠ i3) : (cut N i1 i3 n1 n3)[i1]? = some ⟨n1.p, n1.prev, some i3⟩ := by
  simp [cut, Array.getElem?_setIfInBounds, h1, hne, hne.symm]

theorem cut_snd (N : Array (Node α)) (i1 i3 : Nat) (n1 n3 : Node α) (h3 : i3 < N.size) :
    (cut N i1 i3 n1 n3)[i3]? = some ⟨n3.p, some i1, n3.next⟩ := by
  simp [cut, Array.getElem?_setIfInBounds, h3]

/-! ### `chainAppend` -/

theorem run_chainAppend_head (c : Chain) (p : Pt α) (s : St α) (h : Node α)
    (hh : s.nodes[c.head]? = some h) :
    (chainAppend c p false).run s =
      .ok (⟨s.nodes.size, s.nodes.size, c.tail⟩, { s with nodes := appH s.nodes c.head h p }) := by
  have hlt := lt_of_get hh
  have n1 : c.head ≠ s.nodes.size := Nat.ne_of_lt hlt
  unfold chainAppend appH
  simp [↓run_bind, run_pure, run_getNode, run_setNode, run_newNode, Array.getElem?_push,
    Array.getElem?_setIfInBounds, n1, n1.symm, hh, -StateT.run_pure, -StateT.run_bind]
  rfl

theorem run_chainAppend_tail (c : Chain) (p : Pt α) (s : St α) (t : Node α)
    (ht : s.nodes[c.tail]? = some t) :
    (chainAppend c p true).run s =
      .ok (⟨s.nodes.size, c.head, s.nodes.size⟩, { s with nodes := appT s.nodes c.tail t p }) := by
  have hlt := lt_of_get ht
  have n1 : c.tail ≠ s.nodes.size := Nat.ne_of_lt hlt
  unfold chainAppend appT
  simp [↓run_bind, run_pure, run_getNode, run_setNode, run_newNode, Array.getElem?_push,
    Array.getElem?_setIfInBounds, n1, n1.symm, ht, -StateT.run_pure, -StateT.run_bind]
  rfl

/-! ### `backTriangulate` on a chain of two or three nodes -/

/-- forward from the head, two nodes: nothing to cut -/
theorem run_backTri_fwd_none (c : Chain) (s : St α) (p1 p2 : Pt α) (v1 v2 : Option Nat) (i2 : Nat)
    (h1 : s.nodes[c.head]? = some ⟨p1, v1, some i2⟩) (h2 : s.nodes[i2]? = some ⟨p2, v2, none⟩) :
    (backTriangulate c false).run s = .ok ((), s) := by
  unfold backTriangulate nodeFuel
  simp only [↓run_bind, run_pure, run_get, Bool.false_eq_true, if_false]
  rw [show s.nodes.size + 2 = (s.nodes.size + 1) + 1 from rfl, nodeTriangulate]
  simp [↓run_bind, run_pure, run_getNode, h1, h2, -StateT.run_pure, -StateT.run_bind]

/-- backward from the tail, two nodes: nothing to cut -/
theorem run_backTri_bwd_none (c : Chain) (s : St α) (p1 p2 : Pt α) (x1 x2 : Option Nat) (i1 : Nat)
    (h2 : s.nodes[c.tail]? = some ⟨p2, some i1, x2⟩) (h1 : s.nodes[i1]? = some ⟨p1, none, x1⟩) :
    (backTriangulate c true).run s = .ok ((), s) := by
  unfold backTriangulate nodeFuel
  simp only [↓run_bind, run_pure, run_get, if_true]
  rw [show s.nodes.size + 2 = (s.nodes.size + 1) + 1 from rfl, nodeTriangulate]
  simp [↓run_bind, run_pure, run_getNode, h1, h2, -StateT.run_pure, -StateT.run_bind]

/-- forward from the head, three nodes `head → i2 → i3`, clockwise: one triangle is cut -/
theorem run_backTri_fwd_cut (c : Chain) (s : St α) (p1 p2 p3 : Pt α) (v1 v2 v3 : Option Nat)
    (i2 i3 : Nat)
    (h1 : s.nodes[c.head]? = some ⟨p1, v1, some i2⟩) (h2 : s.nodes[i2]? = some ⟨p2, v2, some i3⟩)
    (h3 : s.nodes[i3]? = some ⟨p3, v3, none⟩) (hne : c.head ≠ i3)
    (hcw : clockwiseSign p1 p2 p3 = .c) :
    (backTriangulate c false).run s =
      .ok ((), { s with nodes := cut s.nodes c.head i3 ⟨p1, v1, some i2⟩ ⟨p3, v3, none⟩,
                        out := sort3 p1 p2 p3 :: s.out }) := by
  have l1 := lt_of_get h1
  have l3 := lt_of_get h3
  have c1 := cut_fst s.nodes c.head i3 ⟨p1, v1, some i2⟩ ⟨p3, v3, none⟩ l1 hne
  have c3 := cut_snd s.nodes c.head i3 ⟨p1, v1, some i2⟩ ⟨p3, v3, none⟩ l3
  unfold backTriangulate nodeFuel
  simp only [↓run_bind, run_pure, run_get, Bool.false_eq_true, if_false]
  rw [show s.nodes.size + 2 = (s.nodes.size + 1) + 1 from rfl, nodeTriangulate]
  simp only [↓run_bind, run_pure, run_getNode, h1, h2, h3, hcw, Bool.false_eq_true, if_false,
    if_true, run_setNode, run_modify, Array.getElem?_setIfInBounds, hne, l1, beq_self_eq_true]
  rw [nodeTriangulate]
  unfold cut at c1 c3
  simp only [↓run_bind, run_pure, run_getNode, Bool.false_eq_true, if_false, c1, c3]
  rfl

/-- backward from the tail, three nodes `i1 ← i2 ← tail`, clockwise: one triangle is cut -/
theorem run_backTri_bwd_cut (c : Chain) (s : St α) (p1 p2 p3 : Pt α) (x1 x2 x3 : Option Nat)
    (i1 i2 : Nat)
    (h3 : s.nodes[c.tail]? = some ⟨p3, some i2, x3⟩) (h2 : s.nodes[i2]? = some ⟨p2, some i1, x2⟩)
    (h1 : s.nodes[i1]? = some ⟨p1, none, x1⟩) (hne : i1 ≠ c.tail)
    (hcw : clockwiseSign p1 p2 p3 = .c) :
    (backTriangulate c true).run s =
      .ok ((), { s with nodes := cut s.nodes i1 c.tail ⟨p1, none, x1⟩ ⟨p3, some i2, x3⟩,
                        out := sort3 p1 p2 p3 :: s.out }) := by
  have l1 := lt_of_get h1
  have l3 := lt_of_get h3
  have c1 := cut_fst s.nodes i1 c.tail ⟨p1, none, x1⟩ ⟨p3, some i2, x3⟩ l1 hne
  have c3 := cut_snd s.nodes i1 c.tail ⟨p1, none, x1⟩ ⟨p3, some i2, x3⟩ l3
  unfold backTriangulate nodeFuel
  simp only [↓run_bind, run_pure, run_get, if_true]
  rw [show s.nodes.size + 2 = (s.nodes.size + 1) + 1 from rfl, nodeTriangulate]
  simp only [↓run_bind, run_pure, run_getNode, h1, h2, h3, hcw, if_true, if_false, run_setNode, run_modify,
    Array.getElem?_setIfInBounds, hne, l1, beq_self_eq_true]
  rw [nodeTriangulate]
  unfold cut at c1 c3
  simp only [↓run_bind, run_pure, run_getNode, if_true, c1, c3]
  rfl

end Cav.CvxHeap
