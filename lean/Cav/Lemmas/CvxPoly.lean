/-
  From an input array `P` of rational points to the configuration `Conv` of `CvxLoop.lean`:
  cyclic indexing (`cyc`), the hypotheses `StrictlyConvex`, `DistinctX`, `TwoChains`, the ring
  built by the set-up loop, and the shoelace sum.
-/
import Cav.Lemmas.CvxLoop
import Cav.Lemmas.CvxSetup
import Mathlib.Algebra.BigOperators.Group.Finset.Basic

set_option linter.unusedSimpArgs false
set_option linter.unusedVariables false

namespace Cav.CvxPoly
open Cav Num Cav.Geo Cav.Sweep Cav.SweepRun Cav.TriRun Cav.QuadRun Cav.TriEvents Cav.QuadGeom
open Cav.CvxEvents Cav.CvxFlows Cav.CvxGeom Cav.CvxLoop Cav.CvxSetup Cav.SweepSetup

/-- cyclic indexing into the vertex array -/
def cyc (P : Array (Rat × Rat)) (k : Nat) : Rat × Rat := P.getD (k % P.size) (0, 0)

/-- all turns of the closed polygon `P` have the same strict sign -/
def StrictlyConvex (P : Array (Rat × Rat)) : Prop :=
  (∀ i, i < P.size → 0 < orient (cyc P i) (cyc P (i + 1)) (cyc P (i + 2))) ∨
  (∀ i, i < P.size → orient (cyc P i) (cyc P (i + 1)) (cyc P (i + 2)) < 0)

/-- pairwise distinct abscissae -/
def DistinctX (P : Array (Rat × Rat)) : Prop :=
  ∀ j, j < P.size → ∀ i, i < j → (P.getD i (0, 0)).1 ≠ (P.getD j (0, 0)).1

/-- from vertex `L` the abscissae increase strictly along the next `m` edges and, in the other
    direction, along the remaining `P.size - m` edges: the polygon consists of two x-monotone
    chains from vertex `L` to vertex `(L + m) % P.size` -/
def TwoChains (P : Array (Rat × Rat)) (L m : Nat) : Prop :=
  L < P.size ∧ 0 < m ∧ m < P.size ∧
  (∀ k, k < m → (cyc P (L + k)).1 < (cyc P (L + k + 1)).1) ∧
  (∀ k, k < P.size - m → (cyc P (L + P.size - k)).1 < (cyc P (L + P.size - (k + 1))).1)

/-- the polygon winds once: it splits into two x-monotone chains -/
def XMonotone (P : Array (Rat × Rat)) : Prop :=
  ∃ L, L < P.size ∧ ∃ m, m < P.size ∧ TwoChains P L m

instance (P : Array (Rat × Rat)) : Decidable (StrictlyConvex P) := by
  unfold StrictlyConvex; exact inferInstance
instance (P : Array (Rat × Rat)) : Decidable (DistinctX P) := by
  unfold DistinctX; exact inferInstance
instance (P : Array (Rat × Rat)) (L m : Nat) : Decidable (TwoChains P L m) := by
  unfold TwoChains; exact inferInstance
instance (P : Array (Rat × Rat)) : Decidable (XMonotone P) := by
  unfold XMonotone; exact inferInstance

/-- the input of the model -/
def polyOf (P : Array (Rat × Rat)) : Array (Pt XQ) := P.map (fun p => F p.1 p.2)

/-- doubled signed area of the closed polygon (shoelace formula) -/
def shoelace (P : Array (Rat × Rat)) : Rat :=
  ∑ i ∈ Finset.range P.size, ((cyc P i).1 * (cyc P (i + 1)).2 - (cyc P i).2 * (cyc P (i + 1)).1)

section
variable (P : Array (Rat × Rat))

theorem cyc_add_size (k : Nat) : cyc P (k + P.size) = cyc P k := by
  unfold cyc; rw [Nat.add_mod_right]

theorem cyc_lt (k : Nat) (hk : k < P.size) : cyc P k = P.getD k (0, 0) := by
  unfold cyc; rw [Nat.mod_eq_of_lt hk]

theorem cyc_mod (k : Nat) : cyc P (k % P.size) = cyc P k := by
  unfold cyc; rw [Nat.mod_mod]

theorem polyOf_size : (polyOf P).size = P.size := by simp [polyOf]

theorem polyOf_getD (k : Nat) (hk : k < P.size) :
    (polyOf P).getD k dummyPt = Fq (P.getD k (0, 0)) := by
  simp [polyOf, Array.getD, hk]

theorem polyOf_getD_mod (k : Nat) (hn : 0 < P.size) :
    (polyOf P).getD (k % P.size) dummyPt = Fq (cyc P k) := by
  rw [polyOf_getD P _ (Nat.mod_lt _ hn)]; rfl

/-! ### index arithmetic -/

theorem prev_mod (a n : Nat) (hn : 0 < n) : ((a + 1) % n + n - 1) % n = a % n := by
  have : (a + 1) % n + n - 1 = (a + 1) % n + (n - 1) := by omega
  rw [this, Nat.mod_add_mod]
  have : a + 1 + (n - 1) = a + n := by omega
  rw [this, Nat.add_mod_right]

theorem next_mod (a n : Nat) : (a % n + 1) % n = (a + 1) % n := Nat.mod_add_mod a n 1

theorem mod_ne_of_lt (a c n : Nat) (h1 : a < c) (h2 : c - a < n) : a % n ≠ c % n := by
  intro h
  have := Nat.sub_mod_eq_zero_of_mod_eq h.symm
  have hd : n ∣ c - a := Nat.dvd_of_mod_eq_zero this
  have := Nat.eq_zero_of_dvd_of_lt hd h2
  omega

/-- the ring cell at a cyclic index `a + 1` -/
theorem ring_at (a : Nat) (hn : 0 < P.size) :
    (ringOf (polyOf P))[(a + 1) % P.size]? =
      some ⟨Fq (cyc P (a + 1)), a % P.size, (a + 2) % P.size⟩ := by
  have hs := polyOf_size P
  rw [ringOf_get _ _ (by rw [hs]; exact Nat.mod_lt _ hn)]
  unfold vtxOf
  rw [hs, polyOf_getD_mod P _ hn, prev_mod a _ hn, next_mod]

/-! ### the two chains as index functions -/

/-- ring index / point of the `k`-th vertex after `L` -/
def fwd (L k : Nat) : Nat := (L + k) % P.size
/-- ring index of the `k`-th vertex before `L` -/
def bwd (L k : Nat) : Nat := (L + P.size - k) % P.size
def pf (L k : Nat) : Rat × Rat := cyc P (L + k)
def pb (L k : Nat) : Rat × Rat := cyc P (L + P.size - k)

variable {P}

theorem ring_fwd (L k : Nat) (hn : 0 < P.size) :
    (ringOf (polyOf P))[fwd P L (k + 1)]? =
      some ⟨Fq (pf P L (k + 1)), fwd P L k, fwd P L (k + 2)⟩ :=
  ring_at P (L + k) hn

theorem ring_bwd (L k : Nat) (hk : k + 2 ≤ P.size) :
    (ringOf (polyOf P))[bwd P L (k + 1)]? =
      some ⟨Fq (pb P L (k + 1)), bwd P L (k + 2), bwd P L k⟩ := by
  have := ring_at P (L + P.size - (k + 2)) (by omega)
  have e1 : L + P.size - (k + 2) + 1 = L + P.size - (k + 1) := by omega
  have e2 : L + P.size - (k + 2) + 2 = L + P.size - k := by omega
  rw [e1, e2] at this
  exact this

theorem ring_L (L : Nat) (hn : 2 ≤ P.size) :
    (ringOf (polyOf P))[fwd P L 0]? = some ⟨Fq (pf P L 0), bwd P L 1, fwd P L 1⟩ := by
  have := ring_at P (L + P.size - 1) (by omega)
  have e1 : L + P.size - 1 + 1 = L + P.size := by omega
  have e2 : L + P.size - 1 + 2 = L + 1 + P.size := by omega
  rw [e1, e2, Nat.add_mod_right, Nat.add_mod_right, cyc_add_size] at this
  exact this

theorem ring_R (L m : Nat) (h0 : 0 < m) (hm : m < P.size) :
    (ringOf (polyOf P))[fwd P L m]? =
      some ⟨Fq (pf P L m), fwd P L (m - 1), bwd P L (P.size - m - 1)⟩ := by
  have := ring_at P (L + (m - 1)) (by omega)
  have e1 : L + (m - 1) + 1 = L + m := by omega
  have e2 : L + (m - 1) + 2 = L + P.size - (P.size - m - 1) := by omega
  rw [e1, e2] at this
  exact this

theorem bwd_zero (L : Nat) : bwd P L 0 = fwd P L 0 := by
  unfold bwd fwd; rw [Nat.sub_zero, Nat.add_zero, Nat.add_mod_right]

theorem bwd_end (L m : Nat) (hm : m < P.size) : bwd P L (P.size - m) = fwd P L m := by
  unfold bwd fwd
  have : L + P.size - (P.size - m) = L + m := by omega
  rw [this]

theorem pb_zero (L : Nat) : pb P L 0 = pf P L 0 := by
  unfold pb pf; rw [Nat.sub_zero, Nat.add_zero, cyc_add_size]

theorem pb_end (L m : Nat) (hm : m < P.size) : pb P L (P.size - m) = pf P L m := by
  unfold pb pf
  have : L + P.size - (P.size - m) = L + m := by omega
  rw [this]

/-- convexity at every cyclic index -/
theorem convex_all {σ : Rat → Prop}
    (h : ∀ i, i < P.size → σ (orient (cyc P i) (cyc P (i + 1)) (cyc P (i + 2)))) (hn : 0 < P.size)
    (a : Nat) : σ (orient (cyc P a) (cyc P (a + 1)) (cyc P (a + 2))) := by
  have := h (a % P.size) (Nat.mod_lt _ hn)
  have e1 : cyc P (a % P.size + 1) = cyc P (a + 1) := by unfold cyc; rw [Nat.mod_add_mod]
  have e2 : cyc P (a % P.size + 2) = cyc P (a + 2) := by unfold cyc; rw [Nat.mod_add_mod]
  rw [cyc_mod, e1, e2] at this
  exact this

theorem x_ne_of_idx (hx : DistinctX P) (a c : Nat) (h1 : a < c) (h2 : c - a < P.size) :
    (cyc P a).1 ≠ (cyc P c).1 := by
  have hn : 0 < P.size := by omega
  have hne := mod_ne_of_lt a c P.size h1 h2
  unfold cyc
  rcases Nat.lt_or_ge (a % P.size) (c % P.size) with h | h
  · exact hx _ (Nat.mod_lt _ hn) _ h
  · exact (hx _ (Nat.mod_lt _ hn) _ (by omega)).symm

section conv
variable {L m : Nat} (hx : DistinctX P) (h2 : TwoChains P L m)
include hx h2

theorem xBT_aux (i j : Nat) (hi0 : 0 < i) (hi : i < m) (hj0 : 0 < j) (hj : j < P.size - m) :
    (pf P L i).1 ≠ (pb P L j).1 := by
  obtain ⟨hL, hm0, hm, up, dn⟩ := h2
  exact x_ne_of_idx hx (L + i) (L + P.size - j) (by omega) (by omega)

/-- counter-clockwise input: the chain after `L` is the bottom chain -/
theorem conv_ccw (hc : ∀ i, i < P.size → 0 < orient (cyc P i) (cyc P (i + 1)) (cyc P (i + 2)))
    (hn : 3 ≤ P.size) :
    Conv (ringOf (polyOf P)) m (P.size - m) (fwd P L) (bwd P L) (pf P L) (pb P L) := by
  have hxbt := xBT_aux hx h2
  obtain ⟨hL, hm0, hm, up, dn⟩ := h2
  have hn0 : 0 < P.size := by omega
  refine
    { ch :=
        { hB := hm0, hT := by omega, p0 := (pb_zero L).symm, pR := (pb_end L m hm).symm
          xB := up, xT := dn
          cB := fun k hk => convex_all (σ := fun r => 0 < r) hc hn0 (L + k)
          cT := fun k hk => ?_ }
      three := by omega
      i0 := bwd_zero L
      iR := bwd_end L m hm
      xBT := hxbt
      vB := fun k hk => ⟨_, _, ring_fwd L k hn0, Or.inl ⟨rfl, rfl⟩⟩
      vT := fun k hk => ⟨_, _, ring_bwd L k (by omega), Or.inr ⟨rfl, rfl⟩⟩
      vL := ⟨_, _, ring_L L (by omega), Or.inr ⟨rfl, rfl⟩⟩
      vR := ⟨_, _, ring_R L m hm0 hm, Or.inl ⟨rfl, rfl⟩⟩ }
  have := convex_all (σ := fun r => 0 < r) hc hn0 (L + P.size - (k + 2))
  have e1 : L + P.size - (k + 2) + 1 = L + P.size - (k + 1) := by omega
  have e2 : L + P.size - (k + 2) + 2 = L + P.size - k := by omega
  simp only [e1, e2] at this
  unfold pb
  have e : orient (cyc P (L + P.size - k)) (cyc P (L + P.size - (k + 1))) (cyc P (L + P.size - (k + 2)))
      = - orient (cyc P (L + P.size - (k + 2))) (cyc P (L + P.size - (k + 1))) (cyc P (L + P.size - k)) := by
    unfold orient; ring
  rw [e]; linarith

/-- clockwise input: the chain before `L` is the bottom chain -/
theorem conv_cw (hc : ∀ i, i < P.size → orient (cyc P i) (cyc P (i + 1)) (cyc P (i + 2)) < 0)
    (hn : 3 ≤ P.size) :
    Conv (ringOf (polyOf P)) (P.size - m) m (bwd P L) (fwd P L) (pb P L) (pf P L) := by
  have hxbt := xBT_aux hx h2
  obtain ⟨hL, hm0, hm, up, dn⟩ := h2
  have hn0 : 0 < P.size := by omega
  refine
    { ch :=
        { hB := by omega, hT := hm0, p0 := pb_zero L, pR := pb_end L m hm
          xB := dn, xT := up
          cB := fun k hk => ?_
          cT := fun k hk => convex_all (σ := fun r => r < 0) hc hn0 (L + k) }
      three := by omega
      i0 := (bwd_zero L).symm
      iR := (bwd_end L m hm).symm
      xBT := fun i j hi0 hi hj0 hj => (hxbt j i hj0 hj hi0 hi).symm
      vB := fun k hk => ⟨_, _, ring_bwd L k (by omega), Or.inr ⟨rfl, rfl⟩⟩
      vT := fun k hk => ⟨_, _, ring_fwd L k hn0, Or.inl ⟨rfl, rfl⟩⟩
      vL := ⟨_, _, by rw [bwd_zero, pb_zero]; exact ring_L L (by omega), Or.inl ⟨rfl, rfl⟩⟩
      vR := ⟨_, _, by rw [bwd_end L m hm, pb_end L m hm]; exact ring_R L m hm0 hm, Or.inr ⟨?_, ?_⟩⟩ }
  · have := convex_all (σ := fun r => r < 0) hc hn0 (L + P.size - (k + 2))
    have e1 : L + P.size - (k + 2) + 1 = L + P.size - (k + 1) := by omega
    have e2 : L + P.size - (k + 2) + 2 = L + P.size - k := by omega
    simp only [e1, e2] at this
    unfold pb
    have e : orient (cyc P (L + P.size - k)) (cyc P (L + P.size - (k + 1))) (cyc P (L + P.size - (k + 2)))
        = - orient (cyc P (L + P.size - (k + 2))) (cyc P (L + P.size - (k + 1))) (cyc P (L + P.size - k)) := by
      unfold orient; ring
    rw [e]; linarith
  · rfl
  · rfl

end conv

/-! ### the hypotheses of the set-up loop -/

theorem valid_all (hx : DistinctX P) (i : Nat) (hi : i < (polyOf P).size) :
    validPt (seenAt (polyOf P) i) ((polyOf P).getD i dummyPt) =
      .ok ((polyOf P).getD i dummyPt :: seenAt (polyOf P) i) := by
  rw [polyOf_size] at hi
  refine (validPt_ok_iff _ _ _).mpr ⟨?_, ?_, rfl⟩
  · rw [polyOf_getD P i hi]; rfl
  · intro s hs
    unfold seenAt at hs
    simp only [List.mem_reverse, List.mem_map, List.mem_range] at hs
    obtain ⟨k, hk, rfl⟩ := hs
    rw [polyOf_getD P i hi, polyOf_getD P k (by omega), Geo.Pt.eq_fin]
    simp only [decide_eq_false_iff_not, not_and]
    intro h
    exact absurd h (hx i hi k hk)

theorem cyc_congr (a c : Nat) (h : a % P.size = c % P.size) : cyc P a = cyc P c := by
  unfold cyc; rw [h]

/-- the three points the set-up loop classifies at vertex `i` -/
theorem triple_at (i : Nat) (hi : i < P.size) :
    (polyOf P).getD i dummyPt = Fq (cyc P i) ∧
    (polyOf P).getD ((i + (polyOf P).size - 1) % (polyOf P).size) dummyPt = Fq (cyc P (i + P.size - 1)) ∧
    (polyOf P).getD ((i + 1) % (polyOf P).size) dummyPt = Fq (cyc P (i + 1)) := by
  have hn : 0 < P.size := by omega
  rw [polyOf_size]
  refine ⟨?_, polyOf_getD_mod P _ hn, polyOf_getD_mod P _ hn⟩
  rw [polyOf_getD P i hi, cyc_lt P i hi]

theorem ft_all (h2 : TwoChains P L m) (i : Nat) (hi : i < (polyOf P).size) :
    ∃ k, fromTriplet ((polyOf P).getD i dummyPt)
      ((polyOf P).getD ((i + (polyOf P).size - 1) % (polyOf P).size) dummyPt)
      ((polyOf P).getD ((i + 1) % (polyOf P).size) dummyPt) = some k ∧ (k = .start ↔ i = L) := by
  obtain ⟨hL, hm0, hm, up, dn⟩ := h2
  have hi' : i < P.size := by rw [polyOf_size] at hi; exact hi
  have hn : 0 < P.size := by omega
  obtain ⟨t1, t2, t3⟩ := triple_at i hi'
  rw [t1, t2, t3]
  -- position of `i` on the ring relative to `L`
  obtain ⟨k, hk, e⟩ : ∃ k, k < P.size ∧ (L + k) % P.size = i := by
    refine ⟨(i + P.size - L) % P.size, Nat.mod_lt _ hn, ?_⟩
    rw [Nat.add_comm, Nat.mod_add_mod]
    have : i + P.size - L + L = i + P.size := by omega
    rw [this, Nat.add_mod_right, Nat.mod_eq_of_lt hi']
  have c0 : cyc P i = cyc P (L + k) := cyc_congr i (L + k) (by rw [e, Nat.mod_eq_of_lt hi'])
  have c1 : cyc P (i + 1) = cyc P (L + k + 1) := by
    apply cyc_congr; rw [← e, Nat.mod_add_mod]
  have c2 : cyc P (i + P.size - 1) = cyc P (L + k + P.size - 1) := by
    apply cyc_congr
    have a1 : i + P.size - 1 = i + (P.size - 1) := by omega
    have a2 : L + k + P.size - 1 = L + k + (P.size - 1) := by omega
    rw [a1, a2, ← e, Nat.mod_add_mod]
  rw [c0, c1, c2]
  rcases Nat.eq_zero_or_pos k with rfl | hk0
  · -- the leftmost vertex
    have eL : i = L := by rw [← e, Nat.add_zero, Nat.mod_eq_of_lt hL]
    refine ⟨.start, ?_, by simp [eL]⟩
    have u := up 0 hm0
    have d := dn 0 (by omega)
    rw [Nat.sub_zero, cyc_add_size] at d
    rw [Nat.add_zero] at u ⊢
    exact ft_start _ _ _ d u
  · have hiL : i ≠ L := by
      rw [← e]
      have := mod_ne_of_lt L (L + k) P.size (by omega) (by omega)
      rw [Nat.mod_eq_of_lt hL] at this
      exact this.symm
    have cp : cyc P (L + k + P.size - 1) = cyc P (L + (k - 1)) := by
      have : L + k + P.size - 1 = L + (k - 1) + P.size := by omega
      rw [this, cyc_add_size]
    rw [cp]
    rcases Nat.lt_or_ge k m with hkm | hkm
    · -- interior of the chain after `L`
      have u1 := up (k - 1) (by omega)
      have u2 := up k hkm
      have : L + (k - 1) + 1 = L + k := by omega
      rw [this] at u1
      exact ⟨.bend, (ft_bend _ _ _ u1 u2).1, by simp [hiL]⟩
    · rcases Nat.eq_or_lt_of_le hkm with rfl | hkm'
      · -- the rightmost vertex
        have u1 := up (m - 1) (by omega)
        have : L + (m - 1) + 1 = L + m := by omega
        rw [this] at u1
        have d := dn (P.size - m - 1) (by omega)
        have a1 : L + P.size - (P.size - m - 1) = L + m + 1 := by omega
        have a2 : L + P.size - (P.size - m - 1 + 1) = L + m := by omega
        rw [a1, a2] at d
        exact ⟨.end_, ft_end _ _ _ u1 d, by simp [hiL]⟩
      · -- interior of the chain before `L`
        have d1 := dn (P.size - k) (by omega)
        have d2 := dn (P.size - k - 1) (by omega)
        have a1 : L + P.size - (P.size - k) = L + k := by omega
        have a2 : L + P.size - (P.size - k + 1) = L + (k - 1) := by omega
        have a3 : L + P.size - (P.size - k - 1) = L + k + 1 := by omega
        have a4 : L + P.size - (P.size - k - 1 + 1) = L + k := by omega
        rw [a1, a2] at d1
        rw [a3, a4] at d2
        exact ⟨.bend, (ft_bend _ _ _ d2 d1).2, by simp [hiL]⟩

/-! ### the shoelace sum -/

/-- one term of the shoelace sum -/
def sl (P : Array (Rat × Rat)) (i : Nat) : Rat := cross (cyc P i) (cyc P (i + 1))

theorem sl_add_size (i : Nat) : sl P (i + P.size) = sl P i := by
  unfold sl
  have : i + P.size + 1 = i + 1 + P.size := by omega
  rw [this, cyc_add_size, cyc_add_size]

theorem shoelace_eq : shoelace P = ∑ i ∈ Finset.range P.size, sl P i := rfl

theorem sum_rot (n : Nat) (g : Nat → Rat) (hg : ∀ i, g (i + n) = g i) (L : Nat) :
    ∑ k ∈ Finset.range n, g (L + k) = ∑ k ∈ Finset.range n, g k := by
  induction L with
  | zero => simp
  | succ L ih =>
    rw [← ih]
    have h1 := Finset.sum_range_succ (fun k => g (L + k)) n
    have h2 := Finset.sum_range_succ' (fun k => g (L + k)) n
    simp only [Nat.add_zero] at h2
    have h3 : ∀ k, g (L + (k + 1)) = g (L + 1 + k) := fun k => by
      congr 1; omega
    simp only [h3] at h2
    rw [hg] at h1
    linarith

theorem chainSum_fwd (L j : Nat) :
    chainSum (pf P L) j = ∑ k ∈ Finset.range j, sl P (L + k) := by
  induction j with
  | zero => simp [chainSum]
  | succ j ih =>
    rw [chainSum, ih, Finset.sum_range_succ]
    rfl

theorem cross_anti (a c : Rat × Rat) : cross a c = - cross c a := by unfold cross; ring

theorem chainSum_bwd (A : Nat) (j : Nat) (hj : j ≤ A) :
    chainSum (fun k => cyc P (A - k)) j = - ∑ k ∈ Finset.range j, sl P (A - j + k) := by
  induction j with
  | zero => simp [chainSum]
  | succ j ih =>
    rw [chainSum, ih (by omega), Finset.sum_range_succ']
    have h3 : ∀ k, sl P (A - (j + 1) + (k + 1)) = sl P (A - j + k) := fun k => by
      congr 1; omega
    simp only [h3, Nat.add_zero]
    have : cross (cyc P (A - j)) (cyc P (A - (j + 1))) = - sl P (A - (j + 1)) := by
      unfold sl
      have : A - (j + 1) + 1 = A - j := by omega
      rw [this, cross_anti]
    rw [this]; ring

/-- the area the loop accounts for is the shoelace sum (counter-clockwise input) -/
theorem SAtot_ccw (L m : Nat) (hm : m < P.size) :
    SAtot m (P.size - m) (pf P L) (pb P L) = shoelace P := by
  unfold SAtot
  have hb : chainSum (pb P L) (P.size - m) = chainSum (fun k => cyc P (L + P.size - k)) (P.size - m) := rfl
  rw [chainSum_fwd, hb, chainSum_bwd (L + P.size) (P.size - m) (by omega), shoelace_eq,
    ← sum_rot P.size (sl P) sl_add_size L]
  have e : L + P.size - (P.size - m) = L + m := by omega
  rw [e]
  have := Finset.sum_range_add (fun k => sl P (L + k)) m (P.size - m)
  have e2 : m + (P.size - m) = P.size := by omega
  rw [e2] at this
  simp only [← Nat.add_assoc] at this
  rw [this]; ring

theorem SAtot_cw (L m : Nat) (hm : m < P.size) :
    SAtot (P.size - m) m (pb P L) (pf P L) = - shoelace P := by
  have := SAtot_ccw (P := P) L m hm
  unfold SAtot at *
  linarith

end

end Cav.CvxPoly
