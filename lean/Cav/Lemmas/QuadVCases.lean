/-
  Simple quadrilaterals whose corners are in lexicographic order (abscissae may coincide): a
  small shear `x ↦ x + ε·y` makes the abscissae strictly increasing without changing any
  orientation determinant, so the sign analysis of `QuadCases.lean` applies; every simple
  quadrilateral is assigned to one of the ten event chains of `QuadVFlows.lean`.
-/
import Cav.Lemmas.QuadCases
import Cav.Lemmas.QuadVFlows

set_option linter.unusedSimpArgs false
set_option linter.unusedVariables false
set_option linter.unusedTactic false
set_option linter.unreachableTactic false

namespace Cav.QuadVCases
open Cav Num Cav.Geo Cav.Sweep Cav.TriRun Cav.QuadRun Cav.QuadGeom Cav.QuadVGeom Cav.QuadCases
  Cav.QuadVFlows

/-- the shear `x ↦ x + ε·y` -/
def shear (e : Rat) (q : Rat × Rat) : Rat × Rat := (q.1 + e * q.2, q.2)

theorem orient_shear (e : Rat) (a b c : Rat × Rat) :
    orient (shear e a) (shear e b) (shear e c) = orient a b c := by
  unfold orient shear; ring

/-- a sufficiently small positive shear turns the lexicographic order into the order of the
    abscissae -/
theorem shear_pair (p q : Rat × Rat) (h : lexLt p q) :
    ∃ e : Rat, 0 < e ∧ ∀ ε, 0 < ε → ε ≤ e → (shear ε p).1 < (shear ε q).1 := by
  rcases h with h | ⟨hx, hy⟩
  · refine ⟨(q.1 - p.1) / (|p.2 - q.2| + 1), div_pos (sub_pos.mpr h) (by positivity), ?_⟩
    intro ε h0 he
    have hd : 0 < |p.2 - q.2| + 1 := by positivity
    have h1 : ε * (|p.2 - q.2| + 1) ≤ q.1 - p.1 := by
      have := mul_le_mul_of_nonneg_right he hd.le
      rwa [div_mul_cancel₀ _ (ne_of_gt hd)] at this
    have h2 : ε * (p.2 - q.2) ≤ ε * |p.2 - q.2| := mul_le_mul_of_nonneg_left (le_abs_self _) h0.le
    show p.1 + ε * p.2 < q.1 + ε * q.2
    nlinarith
  · refine ⟨1, one_pos, ?_⟩
    intro ε h0 _
    show p.1 + ε * p.2 < q.1 + ε * q.2
    have := mul_pos h0 (sub_pos.mpr hy)
    rw [hx]; nlinarith

theorem exists_shear (q1 q2 q3 q4 : Rat × Rat) (l12 : lexLt q1 q2) (l23 : lexLt q2 q3)
    (l34 : lexLt q3 q4) :
    ∃ ε : Rat, (shear ε q1).1 < (shear ε q2).1 ∧ (shear ε q2).1 < (shear ε q3).1 ∧
      (shear ε q3).1 < (shear ε q4).1 := by
  obtain ⟨e1, p1, f1⟩ := shear_pair q1 q2 l12
  obtain ⟨e2, p2, f2⟩ := shear_pair q2 q3 l23
  obtain ⟨e3, p3, f3⟩ := shear_pair q3 q4 l34
  have hm : 0 < min e1 (min e2 e3) := lt_min p1 (lt_min p2 p3)
  exact ⟨min e1 (min e2 e3), f1 _ hm (min_le_left _ _),
    f2 _ hm (le_trans (min_le_right _ _) (min_le_left _ _)),
    f3 _ hm (le_trans (min_le_right _ _) (min_le_right _ _))⟩

/-- three points in lexicographic order, not collinear: the outer abscissae differ -/
theorem x_strict_of_orient (a b c : Rat × Rat) (lab : lexLt a b) (lbc : lexLt b c)
    (h : orient a b c ≠ 0) : a.1 < c.1 := by
  by_contra hc
  have h1 := lexLt_le lab
  have h2 := lexLt_le lbc
  have e1 : a.1 = b.1 := by linarith
  have e2 : b.1 = c.1 := by linarith
  apply h
  unfold orient
  rw [← e2, ← e1]; ring

/-! ### the three ring types -/

/-- ring `O`, lexicographic order: every simple quadrilateral `q1 q2 q4 q3` with
    `q1 < q2 < q3 < q4` is accepted, with two triangles that tile it -/
theorem ringOV_run (ori : Bool) (V : Array (Vtx XQ)) (i1 i2 i3 i4 : Nat) (q1 q2 q3 q4 : Rat × Rat)
    (h1 : V[i1]? = some ⟨Fq q1, (nb ori i2 i3).1, (nb ori i2 i3).2⟩)
    (h2 : V[i2]? = some ⟨Fq q2, (nb ori i4 i1).1, (nb ori i4 i1).2⟩)
    (h3 : V[i3]? = some ⟨Fq q3, (nb ori i1 i4).1, (nb ori i1 i4).2⟩)
    (h4 : V[i4]? = some ⟨Fq q4, (nb ori i3 i2).1, (nb ori i3 i2).2⟩)
    (l12 : lexLt q1 q2) (l23 : lexLt q2 q3) (l34 : lexLt q3 q4)
    (hs : SimpleQuad q1 q2 q4 q3) :
    ∃ s' t1 t2, Runs (stQ V [(i1, [])]) (.ok ((), s')) (loop 5) ∧ s'.out = [t2, t1] ∧
      s'.mono = true ∧ QuadGood q1 q2 q4 q3 t1 t2 := by
  obtain ⟨n1, n2, n3, n4, C1, C2⟩ := hs
  have na : orient q1 q2 q3 ≠ 0 := by
    intro h; apply n4; simp only [orient] at *; linarith
  have nb : orient q1 q2 q4 ≠ 0 := by
    intro h; apply n1; simp only [orient] at *; linarith
  have nc : orient q1 q3 q4 ≠ 0 := by
    intro h; apply n3; simp only [orient] at *; linarith
  have nd : orient q2 q3 q4 ≠ 0 := by
    intro h; apply n2; simp only [orient] at *; linarith
  have x13 := x_strict_of_orient q1 q2 q3 l12 l23 na
  have x24 := x_strict_of_orient q2 q3 q4 l23 l34 nd
  have e1 : orient q4 q3 q1 = - orient q1 q3 q4 := by unfold orient; ring
  have e2 : orient q4 q3 q2 = - orient q2 q3 q4 := by unfold orient; ring
  have e3 : orient q2 q4 q3 = - orient q2 q3 q4 := by unfold orient; ring
  have e4 : orient q2 q4 q1 = orient q1 q2 q4 := by unfold orient; ring
  have e5 : orient q3 q1 q2 = orient q1 q2 q3 := by unfold orient; ring
  have e6 : orient q3 q1 q4 = - orient q1 q3 q4 := by unfold orient; ring
  simp only [Cross, e1, e2, e3, e4, e5, e6] at C1 C2
  obtain ⟨ε, g12, g23, g34⟩ := exists_shear q1 q2 q3 q4 l12 l23 l34
  have g13 := lt_trans g12 g23
  have g24 := lt_trans g23 g34
  have g14 := lt_trans g13 g34
  have S := signs_O (orient q1 q2 q3) (orient q1 q2 q4) (orient q1 q3 q4) (orient q2 q3 q4)
    ((shear ε q2).1 - (shear ε q1).1) ((shear ε q3).1 - (shear ε q1).1) ((shear ε q4).1 - (shear ε q1).1)
    ((shear ε q3).1 - (shear ε q2).1) ((shear ε q4).1 - (shear ε q2).1) ((shear ε q4).1 - (shear ε q3).1)
    (sub_pos.mpr g12) (sub_pos.mpr g13) (sub_pos.mpr g14) (sub_pos.mpr g23) (sub_pos.mpr g24)
    (sub_pos.mpr g34)
    (by have := rel_a (shear ε q1) (shear ε q2) (shear ε q3) (shear ε q4); simpa only [orient_shear] using this)
    (by have := rel_b (shear ε q1) (shear ε q2) (shear ε q3) (shear ε q4); simpa only [orient_shear] using this)
    (by have := rel_c (shear ε q1) (shear ε q2) (shear ε q3) (shear ε q4); simpa only [orient_shear] using this)
    (by have := rel_d (shear ε q1) (shear ε q2) (shear ε q3) (shear ε q4); simpa only [orient_shear] using this)
    na nb nc nd C1 C2
  clear g12 g23 g34 g13 g24 g14
  rcases S with ⟨s123, s234⟩ | ⟨s123, s234⟩
  · obtain ⟨s', hr, ho, hm⟩ := runV_Oa ori V i1 i2 i3 i4 q1 q2 q3 q4 h1 h2 h3 h4 l12 l23 l34 x13 x24 s123 s234
    refine ⟨s', _, _, hr, ho, hm, quadGood_sort3 q1 q2 q4 q3 q2 q1 q3 q2 q3 q4
      (by simp) (by simp) (by simp) (by simp) (by simp) (by simp) (ne_of_lt (by osgn)) (ne_of_lt (by osgn)) ?_⟩
    have hx : 0 < - orient q2 q1 q3 := by osgn
    have hy : 0 < - orient q2 q3 q4 := by osgn
    have hS : |shoelace q1 q2 q4 q3| = |- orient q2 q1 q3 + (- orient q2 q3 q4)| := by
      first
        | (congr 1; unfold shoelace cross2 orient; ring1)
        | (rw [← abs_neg]; congr 1; unfold shoelace cross2 orient; ring1)
    rw [hS, abs_of_neg (by linarith), abs_of_neg (by linarith), abs_of_pos (by linarith)]
  · obtain ⟨s', hr, ho, hm⟩ := runV_Ob ori V i1 i2 i3 i4 q1 q2 q3 q4 h1 h2 h3 h4 l12 l23 l34 x13 x24 s123 s234
    refine ⟨s', _, _, hr, ho, hm, quadGood_sort3 q1 q2 q4 q3 q3 q1 q2 q3 q2 q4
      (by simp) (by simp) (by simp) (by simp) (by simp) (by simp) (ne_of_lt (by osgn)) (ne_of_lt (by osgn)) ?_⟩
    have hx : 0 < - orient q3 q1 q2 := by osgn
    have hy : 0 < - orient q3 q2 q4 := by osgn
    have hS : |shoelace q1 q2 q4 q3| = |- orient q3 q1 q2 + (- orient q3 q2 q4)| := by
      first
        | (congr 1; unfold shoelace cross2 orient; ring1)
        | (rw [← abs_neg]; congr 1; unfold shoelace cross2 orient; ring1)
    rw [hS, abs_of_neg (by linarith), abs_of_neg (by linarith), abs_of_pos (by linarith)]

/-- ring `A`, lexicographic order: every simple quadrilateral `q1 q2 q3 q4` with
    `q1 < q2 < q3 < q4` is accepted, with two triangles that tile it -/
theorem ringAV_run (ori : Bool) (V : Array (Vtx XQ)) (i1 i2 i3 i4 : Nat) (q1 q2 q3 q4 : Rat × Rat)
    (h1 : V[i1]? = some ⟨Fq q1, (nb ori i4 i2).1, (nb ori i4 i2).2⟩)
    (h2 : V[i2]? = some ⟨Fq q2, (nb ori i1 i3).1, (nb ori i1 i3).2⟩)
    (h3 : V[i3]? = some ⟨Fq q3, (nb ori i2 i4).1, (nb ori i2 i4).2⟩)
    (h4 : V[i4]? = some ⟨Fq q4, (nb ori i3 i1).1, (nb ori i3 i1).2⟩)
    (l12 : lexLt q1 q2) (l23 : lexLt q2 q3) (l34 : lexLt q3 q4)
    (hs : SimpleQuad q1 q2 q3 q4) :
    ∃ s' t1 t2, Runs (stQ V [(i1, [])]) (.ok ((), s')) (loop 5) ∧ s'.out = [t2, t1] ∧
      s'.mono = true ∧ QuadGood q1 q2 q3 q4 t1 t2 := by
  obtain ⟨n1, n2, n3, n4, C1, C2⟩ := hs
  have na : orient q1 q2 q3 ≠ 0 := by
    intro h; apply n1; simp only [orient] at *; linarith
  have nb : orient q1 q2 q4 ≠ 0 := by
    intro h; apply n4; simp only [orient] at *; linarith
  have nc : orient q1 q3 q4 ≠ 0 := by
    intro h; apply n3; simp only [orient] at *; linarith
  have nd : orient q2 q3 q4 ≠ 0 := by
    intro h; apply n2; simp only [orient] at *; linarith
  have x13 := x_strict_of_orient q1 q2 q3 l12 l23 na
  have x24 := x_strict_of_orient q2 q3 q4 l23 l34 nd
  have e1 : orient q3 q4 q1 = orient q1 q3 q4 := by unfold orient; ring
  have e2 : orient q3 q4 q2 = orient q2 q3 q4 := by unfold orient; ring
  have e3 : orient q2 q3 q1 = orient q1 q2 q3 := by unfold orient; ring
  have e4 : orient q4 q1 q2 = orient q1 q2 q4 := by unfold orient; ring
  have e5 : orient q4 q1 q3 = orient q1 q3 q4 := by unfold orient; ring
  simp only [Cross, e1, e2, e3, e4, e5] at C1 C2
  obtain ⟨ε, g12, g23, g34⟩ := exists_shear q1 q2 q3 q4 l12 l23 l34
  have g13 := lt_trans g12 g23
  have g24 := lt_trans g23 g34
  have g14 := lt_trans g13 g34
  have S := signs_A (orient q1 q2 q3) (orient q1 q2 q4) (orient q1 q3 q4) (orient q2 q3 q4)
    ((shear ε q2).1 - (shear ε q1).1) ((shear ε q3).1 - (shear ε q1).1) ((shear ε q4).1 - (shear ε q1).1)
    ((shear ε q3).1 - (shear ε q2).1) ((shear ε q4).1 - (shear ε q2).1) ((shear ε q4).1 - (shear ε q3).1)
    (sub_pos.mpr g12) (sub_pos.mpr g13) (sub_pos.mpr g14) (sub_pos.mpr g23) (sub_pos.mpr g24)
    (sub_pos.mpr g34)
    (by have := rel_a (shear ε q1) (shear ε q2) (shear ε q3) (shear ε q4); simpa only [orient_shear] using this)
    (by have := rel_b (shear ε q1) (shear ε q2) (shear ε q3) (shear ε q4); simpa only [orient_shear] using this)
    (by have := rel_c (shear ε q1) (shear ε q2) (shear ε q3) (shear ε q4); simpa only [orient_shear] using this)
    (by have := rel_d (shear ε q1) (shear ε q2) (shear ε q3) (shear ε q4); simpa only [orient_shear] using this)
    na nb nc nd C1 C2
  clear g12 g23 g34 g13 g24 g14
  rcases S with ⟨s124, s134, s123⟩ | ⟨s124, s134, s123, s234⟩ | ⟨s124, s134, s123⟩ | ⟨s124, s134, s123, s234⟩
  · obtain ⟨s', hr, ho, hm⟩ := runV_At ori V i1 i2 i3 i4 q1 q2 q3 q4 h1 h2 h3 h4 l12 l23 l34 x13 x24 s124 s134 s123
    refine ⟨s', _, _, hr, ho, hm, quadGood_sort3 q1 q2 q3 q4 q1 q2 q3 q1 q3 q4
      (by simp) (by simp) (by simp) (by simp) (by simp) (by simp) (ne_of_lt (by osgn)) (ne_of_lt (by osgn)) ?_⟩
    have hx : 0 < - orient q1 q2 q3 := by osgn
    have hy : 0 < - orient q1 q3 q4 := by osgn
    have hS : |shoelace q1 q2 q3 q4| = |- orient q1 q2 q3 + (- orient q1 q3 q4)| := by
      first
        | (congr 1; unfold shoelace cross2 orient; ring1)
        | (rw [← abs_neg]; congr 1; unfold shoelace cross2 orient; ring1)
    rw [hS, abs_of_neg (by linarith), abs_of_neg (by linarith), abs_of_pos (by linarith)]
  · obtain ⟨s', hr, ho, hm⟩ := runV_Atr ori V i1 i2 i3 i4 q1 q2 q3 q4 h1 h2 h3 h4 l12 l23 l34 x13 x24 s124 s134 s123 s234
    refine ⟨s', _, _, hr, ho, hm, quadGood_sort3 q1 q2 q3 q4 q2 q3 q4 q1 q2 q4
      (by simp) (by simp) (by simp) (by simp) (by simp) (by simp) (ne_of_lt (by osgn)) (ne_of_lt (by osgn)) ?_⟩
    have hx : 0 < - orient q2 q3 q4 := by osgn
    have hy : 0 < - orient q1 q2 q4 := by osgn
    have hS : |shoelace q1 q2 q3 q4| = |- orient q2 q3 q4 + (- orient q1 q2 q4)| := by
      first
        | (congr 1; unfold shoelace cross2 orient; ring1)
        | (rw [← abs_neg]; congr 1; unfold shoelace cross2 orient; ring1)
    rw [hS, abs_of_neg (by linarith), abs_of_neg (by linarith), abs_of_pos (by linarith)]
  · obtain ⟨s', hr, ho, hm⟩ := runV_Ab ori V i1 i2 i3 i4 q1 q2 q3 q4 h1 h2 h3 h4 l12 l23 l34 x13 x24 s124 s134 s123
    refine ⟨s', _, _, hr, ho, hm, quadGood_sort3 q1 q2 q3 q4 q3 q2 q1 q3 q1 q4
      (by simp) (by simp) (by simp) (by simp) (by simp) (by simp) (ne_of_lt (by osgn)) (ne_of_lt (by osgn)) ?_⟩
    have hx : 0 < - orient q3 q2 q1 := by osgn
    have hy : 0 < - orient q3 q1 q4 := by osgn
    have hS : |shoelace q1 q2 q3 q4| = |- orient q3 q2 q1 + (- orient q3 q1 q4)| := by
      first
        | (congr 1; unfold shoelace cross2 orient; ring1)
        | (rw [← abs_neg]; congr 1; unfold shoelace cross2 orient; ring1)
    rw [hS, abs_of_neg (by linarith), abs_of_neg (by linarith), abs_of_pos (by linarith)]
  · obtain ⟨s', hr, ho, hm⟩ := runV_Abr ori V i1 i2 i3 i4 q1 q2 q3 q4 h1 h2 h3 h4 l12 l23 l34 x13 x24 s124 s134 s123 s234
    refine ⟨s', _, _, hr, ho, hm, quadGood_sort3 q1 q2 q3 q4 q2 q1 q4 q3 q2 q4
      (by simp) (by simp) (by simp) (by simp) (by simp) (by simp) (ne_of_lt (by osgn)) (ne_of_lt (by osgn)) ?_⟩
    have hx : 0 < - orient q2 q1 q4 := by osgn
    have hy : 0 < - orient q3 q2 q4 := by osgn
    have hS : |shoelace q1 q2 q3 q4| = |- orient q2 q1 q4 + (- orient q3 q2 q4)| := by
      first
        | (congr 1; unfold shoelace cross2 orient; ring1)
        | (rw [← abs_neg]; congr 1; unfold shoelace cross2 orient; ring1)
    rw [hS, abs_of_neg (by linarith), abs_of_neg (by linarith), abs_of_pos (by linarith)]

/-- ring `Z`, lexicographic order: every simple quadrilateral `q1 q3 q2 q4` with
    `q1 < q2 < q3 < q4` is accepted, with two triangles that tile it -/
theorem ringZV_run (ori : Bool) (V : Array (Vtx XQ)) (i1 i2 i3 i4 : Nat) (q1 q2 q3 q4 : Rat × Rat)
    (h1 : V[i1]? = some ⟨Fq q1, (nb ori i4 i3).1, (nb ori i4 i3).2⟩)
    (h2 : V[i2]? = some ⟨Fq q2, (nb ori i3 i4).1, (nb ori i3 i4).2⟩)
    (h3 : V[i3]? = some ⟨Fq q3, (nb ori i1 i2).1, (nb ori i1 i2).2⟩)
    (h4 : V[i4]? = some ⟨Fq q4, (nb ori i2 i1).1, (nb ori i2 i1).2⟩)
    (l12 : lexLt q1 q2) (l23 : lexLt q2 q3) (l34 : lexLt q3 q4)
    (hs : SimpleQuad q1 q3 q2 q4) :
    ∃ s' t1 t2, Runs (stQ V [(i1, []), (i2, [])]) (.ok ((), s')) (loop 5) ∧ s'.out = [t2, t1] ∧
      s'.mono = true ∧ QuadGood q1 q3 q2 q4 t1 t2 := by
  obtain ⟨n1, n2, n3, n4, C1, C2⟩ := hs
  have na : orient q1 q2 q3 ≠ 0 := by
    intro h; apply n1; simp only [orient] at *; linarith
  have nb : orient q1 q2 q4 ≠ 0 := by
    intro h; apply n3; simp only [orient] at *; linarith
  have nc : orient q1 q3 q4 ≠ 0 := by
    intro h; apply n4; simp only [orient] at *; linarith
  have nd : orient q2 q3 q4 ≠ 0 := by
    intro h; apply n2; simp only [orient] at *; linarith
  have x13 := x_strict_of_orient q1 q2 q3 l12 l23 na
  have x24 := x_strict_of_orient q2 q3 q4 l23 l34 nd
  have e1 : orient q1 q3 q2 = - orient q1 q2 q3 := by unfold orient; ring
  have e2 : orient q2 q4 q1 = orient q1 q2 q4 := by unfold orient; ring
  have e3 : orient q2 q4 q3 = - orient q2 q3 q4 := by unfold orient; ring
  have e4 : orient q3 q2 q4 = - orient q2 q3 q4 := by unfold orient; ring
  have e5 : orient q3 q2 q1 = - orient q1 q2 q3 := by unfold orient; ring
  have e6 : orient q4 q1 q3 = orient q1 q3 q4 := by unfold orient; ring
  have e7 : orient q4 q1 q2 = orient q1 q2 q4 := by unfold orient; ring
  simp only [Cross, e1, e2, e3, e4, e5, e6, e7] at C1 C2
  obtain ⟨ε, g12, g23, g34⟩ := exists_shear q1 q2 q3 q4 l12 l23 l34
  have g13 := lt_trans g12 g23
  have g24 := lt_trans g23 g34
  have g14 := lt_trans g13 g34
  have S := signs_Z (orient q1 q2 q3) (orient q1 q2 q4) (orient q1 q3 q4) (orient q2 q3 q4)
    ((shear ε q2).1 - (shear ε q1).1) ((shear ε q3).1 - (shear ε q1).1) ((shear ε q4).1 - (shear ε q1).1)
    ((shear ε q3).1 - (shear ε q2).1) ((shear ε q4).1 - (shear ε q2).1) ((shear ε q4).1 - (shear ε q3).1)
    (sub_pos.mpr g12) (sub_pos.mpr g13) (sub_pos.mpr g14) (sub_pos.mpr g23) (sub_pos.mpr g24)
    (sub_pos.mpr g34)
    (by have := rel_a (shear ε q1) (shear ε q2) (shear ε q3) (shear ε q4); simpa only [orient_shear] using this)
    (by have := rel_b (shear ε q1) (shear ε q2) (shear ε q3) (shear ε q4); simpa only [orient_shear] using this)
    (by have := rel_c (shear ε q1) (shear ε q2) (shear ε q3) (shear ε q4); simpa only [orient_shear] using this)
    (by have := rel_d (shear ε q1) (shear ε q2) (shear ε q3) (shear ε q4); simpa only [orient_shear] using this)
    na nb nc nd C1 C2
  clear g12 g23 g34 g13 g24 g14
  rcases S with ⟨s134, s124, s123, s234⟩ | ⟨s134, s124, s123, s234⟩ | ⟨s134, s123, s234, s124⟩ | ⟨s134, s123, s234, s124⟩
  · obtain ⟨s', hr, ho, hm⟩ := runV_Zia ori V i1 i2 i3 i4 q1 q2 q3 q4 h1 h2 h3 h4 l12 l23 l34 x13 x24 s134 s124 s123 s234
    refine ⟨s', _, _, hr, ho, hm, quadGood_sort3 q1 q3 q2 q4 q2 q1 q3 q1 q2 q4
      (by simp) (by simp) (by simp) (by simp) (by simp) (by simp) (ne_of_lt (by osgn)) (ne_of_lt (by osgn)) ?_⟩
    have hx : 0 < - orient q2 q1 q3 := by osgn
    have hy : 0 < - orient q1 q2 q4 := by osgn
    have hS : |shoelace q1 q3 q2 q4| = |- orient q2 q1 q3 + (- orient q1 q2 q4)| := by
      first
        | (congr 1; unfold shoelace cross2 orient; ring1)
        | (rw [← abs_neg]; congr 1; unfold shoelace cross2 orient; ring1)
    rw [hS, abs_of_neg (by linarith), abs_of_neg (by linarith), abs_of_pos (by linarith)]
  · obtain ⟨s', hr, ho, hm⟩ := runV_Zib ori V i1 i2 i3 i4 q1 q2 q3 q4 h1 h2 h3 h4 l12 l23 l34 x13 x24 s134 s124 s123 s234
    refine ⟨s', _, _, hr, ho, hm, quadGood_sort3 q1 q3 q2 q4 q1 q2 q3 q2 q1 q4
      (by simp) (by simp) (by simp) (by simp) (by simp) (by simp) (ne_of_lt (by osgn)) (ne_of_lt (by osgn)) ?_⟩
    have hx : 0 < - orient q1 q2 q3 := by osgn
    have hy : 0 < - orient q2 q1 q4 := by osgn
    have hS : |shoelace q1 q3 q2 q4| = |- orient q1 q2 q3 + (- orient q2 q1 q4)| := by
      first
        | (congr 1; unfold shoelace cross2 orient; ring1)
        | (rw [← abs_neg]; congr 1; unfold shoelace cross2 orient; ring1)
    rw [hS, abs_of_neg (by linarith), abs_of_neg (by linarith), abs_of_pos (by linarith)]
  · obtain ⟨s', hr, ho, hm⟩ := runV_Zab ori V i1 i2 i3 i4 q1 q2 q3 q4 h1 h2 h3 h4 l12 l23 l34 x13 x24 s134 s123 s234 s124
    refine ⟨s', _, _, hr, ho, hm, quadGood_sort3 q1 q3 q2 q4 q3 q2 q4 q1 q3 q4
      (by simp) (by simp) (by simp) (by simp) (by simp) (by simp) (ne_of_lt (by osgn)) (ne_of_lt (by osgn)) ?_⟩
    have hx : 0 < - orient q3 q2 q4 := by osgn
    have hy : 0 < - orient q1 q3 q4 := by osgn
    have hS : |shoelace q1 q3 q2 q4| = |- orient q3 q2 q4 + (- orient q1 q3 q4)| := by
      first
        | (congr 1; unfold shoelace cross2 orient; ring1)
        | (rw [← abs_neg]; congr 1; unfold shoelace cross2 orient; ring1)
    rw [hS, abs_of_neg (by linarith), abs_of_neg (by linarith), abs_of_pos (by linarith)]
  · obtain ⟨s', hr, ho, hm⟩ := runV_Zbe ori V i1 i2 i3 i4 q1 q2 q3 q4 h1 h2 h3 h4 l12 l23 l34 x13 x24 s134 s123 s234 s124
    refine ⟨s', _, _, hr, ho, hm, quadGood_sort3 q1 q3 q2 q4 q3 q1 q4 q2 q3 q4
      (by simp) (by simp) (by simp) (by simp) (by simp) (by simp) (ne_of_lt (by osgn)) (ne_of_lt (by osgn)) ?_⟩
    have hx : 0 < - orient q3 q1 q4 := by osgn
    have hy : 0 < - orient q2 q3 q4 := by osgn
    have hS : |shoelace q1 q3 q2 q4| = |- orient q3 q1 q4 + (- orient q2 q3 q4)| := by
      first
        | (congr 1; unfold shoelace cross2 orient; ring1)
        | (rw [← abs_neg]; congr 1; unfold shoelace cross2 orient; ring1)
    rw [hS, abs_of_neg (by linarith), abs_of_neg (by linarith), abs_of_pos (by linarith)]

end Cav.QuadVCases
