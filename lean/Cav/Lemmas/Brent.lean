/-
  Helper lemmas for `Cav/Thm/C11Brent.lean`.

  Part A (every `Num α`): the body of one iteration of `brentLoop` as named functions
  (`s0`, `cond1`, `bis`, `sx`, `pair`, `next`), the unfolding equations `brentLoop_succ`,
  `findRootBrent_eq` (both `rfl`: the named functions are the model text), the generic
  "state in which the loop stopped" lemma, and a version of the loop that counts evaluations.

  Part B (`Rat`): meaning of the `Num` comparisons, the interpolation/bisection point lies
  between the bracket ends, the invariants `Bracket`, `InHull`, `CNear`.
-/
import Cav.Model.Brent
import Cav.Inst.Rat
import Mathlib.Tactic.Ring
import Mathlib.Tactic.Linarith
import Mathlib.Tactic.Positivity
import Mathlib.Algebra.Order.Field.Rat

namespace Cav.BrentL
open Cav Num

/-! ## Part A — structural, every `Num α` -/
section Structural
variable {α : Type} [Num α]

/-- the interpolated point (inverse quadratic interpolation or secant) -/
def s0 (s : BrentSt α) : α :=
  if Num.bne s.ya s.yc && Num.bne s.yb s.yc then
    s.a * s.yb * s.yc / ((s.ya - s.yb) * (s.ya - s.yc)) + s.b * s.ya * s.yc / ((s.yb - s.ya) * (s.yb - s.yc))
      + s.c * s.ya * s.yb / ((s.yc - s.ya) * (s.yc - s.yb))
  else
    s.b - s.yb * (s.b - s.a) / (s.yb - s.ya)

/-- `cond1`: `s0` is not strictly between `(3a+b)/4` and `b` -/
def cond1 (s : BrentSt α) : Bool :=
  Num.lt zero ((s0 s - s.b) * (s0 s - ((Num.ofInt 3 : α) * s.a + s.b) / (Num.ofInt 4 : α)))

/-- the five-way disjunction that selects bisection -/
def bis (tol : α) (s : BrentSt α) : Bool :=
  cond1 s
  || (s.flag && Num.le (Num.abs (s.b - s.c) / (Num.ofInt 2 : α)) (Num.abs (s0 s - s.b)))
  || (!s.flag && Num.le (Num.abs (s.c - s.d) / (Num.ofInt 2 : α)) (Num.abs (s0 s - s.b)))
  || (s.flag && xConverged tol s.b s.c)
  || (!s.flag && xConverged tol s.c s.d)

/-- the point at which `f` is evaluated in this iteration -/
def sx (tol : α) (s : BrentSt α) : α :=
  if bis tol s then (s.a + s.b) / (Num.ofInt 2 : α) else s0 s

/-- the new `(a, ya, b, yb)` -/
def pair (f : α → α) (tol : α) (s : BrentSt α) : α × α × α × α :=
  if Num.lt (s.ya * f (sx tol s)) zero then brentArrange s.a (f s.a) (sx tol s) (f (sx tol s))
  else brentArrange (sx tol s) (f (sx tol s)) s.b (f s.b)

/-- the state after one iteration -/
def next (f : α → α) (tol : α) (s : BrentSt α) : BrentSt α :=
  ⟨(pair f tol s).1, (pair f tol s).2.1, (pair f tol s).2.2.1, (pair f tol s).2.2.2,
    s.b, s.yb, s.c, bis tol s, s.iter + 1⟩

/-- the initial state -/
def init (a b : α) (f : α → α) : BrentSt α :=
  let p := brentArrange a (f a) b (f b)
  ⟨p.1, p.2.1, p.2.2.1, p.2.2.2, p.1, p.2.1, p.1, true, 0⟩

/-- one iteration of the model, in terms of the named pieces (definitional) -/
theorem brentLoop_succ (f : α → α) (tol : α) (m fuel : Nat) (s : BrentSt α) :
    brentLoop f tol m (fuel + 1) s =
      if Num.beq s.ya zero then .ok s.a
      else if Num.beq s.yb zero then .ok s.b
      else if xConverged tol s.a s.b then .ok s.c
      else if m ≤ s.iter + 1 then .error .noConvergency
      else brentLoop f tol m fuel (next f tol s) := rfl

theorem brentLoop_zero (f : α → α) (tol : α) (m : Nat) (s : BrentSt α) :
    brentLoop f tol m 0 s = .error .noConvergency := rfl

/-- the model's entry point, in terms of the named pieces (definitional) -/
theorem findRootBrent_eq (a b : α) (f : α → α) (tol : α) (m : Nat) :
    findRootBrent a b f tol m =
      if Num.lt zero ((init a b f).ya * (init a b f).yb) then .error .noBracketing
      else brentLoop f tol m (m + 1) (init a b f) := rfl

/-- the three ways in which the loop returns `.ok r` from a state `s` -/
def StopsAt (tol : α) (s : BrentSt α) (r : α) : Prop :=
  (Num.beq s.ya zero = true ∧ r = s.a) ∨
  (Num.beq s.ya zero = false ∧ Num.beq s.yb zero = true ∧ r = s.b) ∨
  (Num.beq s.ya zero = false ∧ Num.beq s.yb zero = false ∧ xConverged tol s.a s.b = true ∧ r = s.c)

/-- If `P` holds initially and is preserved by every iteration that is actually executed, an
    `.ok r` result is produced in a state that satisfies `P`. -/
theorem brentLoop_ok_reach {f : α → α} {tol : α} {m : Nat} (P : BrentSt α → Prop)
    (hstep : ∀ s, P s → Num.beq s.ya zero = false → Num.beq s.yb zero = false →
      xConverged tol s.a s.b = false → P (next f tol s)) {r : α} :
    ∀ (fuel : Nat) (s : BrentSt α), P s → brentLoop f tol m fuel s = .ok r →
      ∃ s', P s' ∧ StopsAt tol s' r := by
  intro fuel
  induction fuel with
  | zero => intro s _ h; rw [brentLoop_zero] at h; cases h
  | succ fuel ih =>
    intro s hP h
    rw [brentLoop_succ] at h
    cases h1 : Num.beq s.ya zero with
    | true =>
      rw [h1, if_pos rfl] at h
      exact ⟨s, hP, Or.inl ⟨h1, by cases h; rfl⟩⟩
    | false =>
      rw [h1, if_neg Bool.false_ne_true] at h
      cases h2 : Num.beq s.yb zero with
      | true =>
        rw [h2, if_pos rfl] at h
        exact ⟨s, hP, Or.inr (Or.inl ⟨h1, h2, by cases h; rfl⟩)⟩
      | false =>
        rw [h2, if_neg Bool.false_ne_true] at h
        cases h3 : xConverged tol s.a s.b with
        | true =>
          rw [h3, if_pos rfl] at h
          exact ⟨s, hP, Or.inr (Or.inr ⟨h1, h2, h3, by cases h; rfl⟩)⟩
        | false =>
          rw [h3, if_neg Bool.false_ne_true] at h
          by_cases hm : m ≤ s.iter + 1
          · rw [if_pos hm] at h; cases h
          · rw [if_neg hm] at h
            exact ih _ (hstep s hP h1 h2 h3) h

/-- the loop never reports `noBracketing` -/
theorem brentLoop_ne_noBracketing (f : α → α) (tol : α) (m : Nat) :
    ∀ (fuel : Nat) (s : BrentSt α), brentLoop f tol m fuel s ≠ .error .noBracketing := by
  intro fuel
  induction fuel with
  | zero => intro s h; rw [brentLoop_zero] at h; cases h
  | succ fuel ih =>
    intro s h
    rw [brentLoop_succ] at h
    split at h
    · cases h
    · split at h
      · cases h
      · split at h
        · cases h
        · split at h
          · cases h
          · exact ih _ h

/-! ### counting evaluations of `f`

`brentLoopC` is `brentLoop` with a counter that is increased by the number of applications of
`f` that the model text of one iteration contains (`f sx`, and `f s.a` or `f s.b` inside the
call of `brentArrange`; the Rust source reuses the stored `ya`/`yb` there, so it evaluates
less). -/

def brentLoopC (f : α → α) (tol : α) (maxIters : Nat) : Nat → BrentSt α → Nat → Except SearchErr α × Nat
  | 0, _, k => (.error .noConvergency, k)
  | fuel + 1, s, k =>
    if Num.beq s.ya zero then (.ok s.a, k)
    else if Num.beq s.yb zero then (.ok s.b, k)
    else if xConverged tol s.a s.b then (.ok s.c, k)
    else if maxIters ≤ s.iter + 1 then (.error .noConvergency, k + 2)
    else brentLoopC f tol maxIters fuel (next f tol s) (k + 2)

def findRootBrentC (a b : α) (f : α → α) (tol : α) (maxIters : Nat) : Except SearchErr α × Nat :=
  if Num.lt zero ((init a b f).ya * (init a b f).yb) then (.error .noBracketing, 2)
  else brentLoopC f tol maxIters (maxIters + 1) (init a b f) 2

theorem brentLoopC_fst (f : α → α) (tol : α) (m : Nat) :
    ∀ (fuel : Nat) (s : BrentSt α) (k : Nat),
      (brentLoopC f tol m fuel s k).1 = brentLoop f tol m fuel s := by
  intro fuel
  induction fuel with
  | zero => intro s k; rfl
  | succ fuel ih =>
    intro s k
    rw [brentLoop_succ, brentLoopC]
    split
    · rfl
    · split
      · rfl
      · split
        · rfl
        · split
          · rfl
          · exact ih _ _

theorem brentLoopC_snd (f : α → α) (tol : α) (m : Nat) :
    ∀ (fuel : Nat) (s : BrentSt α) (k : Nat),
      (brentLoopC f tol m fuel s k).2 ≤ k + 2 * (max m (s.iter + 1) - s.iter) := by
  intro fuel
  induction fuel with
  | zero => intro s k; simp [brentLoopC]
  | succ fuel ih =>
    intro s k
    rw [brentLoopC]
    have hpos : 1 ≤ max m (s.iter + 1) - s.iter := by omega
    split
    · simp
    · split
      · simp
      · split
        · simp
        · split
          · show k + 2 ≤ _; omega
          · rename_i hm
            refine Nat.le_trans (ih _ _) ?_
            show k + 2 + 2 * (max m (s.iter + 1 + 1) - (s.iter + 1)) ≤ _
            omega

end Structural

/-! ## Part B — `Rat` -/
section RatFacts

@[simp] theorem zero_eq : (Num.zero : Rat) = 0 := by simp [Num.zero, Num.ofNat]
@[simp] theorem one_eq : (Num.one : Rat) = 1 := by simp [Num.one, Num.ofNat]
@[simp] theorem two_eq : (Num.two : Rat) = 2 := by simp [Num.two, Num.ofNat]
@[simp] theorem ofInt_eq (i : Int) : (Num.ofInt i : Rat) = (i : Rat) := rfl
@[simp] theorem ofNat_eq (n : Nat) : (Num.ofNat n : Rat) = (n : Rat) := rfl
@[simp] theorem lt_iff (a b : Rat) : Num.lt a b = true ↔ a < b := by simp [Num.lt]
@[simp] theorem le_iff (a b : Rat) : Num.le a b = true ↔ a ≤ b := by simp [Num.le]
@[simp] theorem beq_iff (a b : Rat) : Num.beq a b = true ↔ a = b := by simp [Num.beq]
@[simp] theorem beq_false_iff (a b : Rat) : Num.beq a b = false ↔ a ≠ b := by simp [Num.beq]
@[simp] theorem bne_iff (a b : Rat) : Num.bne a b = true ↔ a ≠ b := by simp [Num.bne, Num.beq]
@[simp] theorem abs_eq (x : Rat) : Num.abs x = |x| := by
  show (if x < 0 then -x else x) = |x|
  split
  · rename_i h; rw [abs_of_neg h]
  · rename_i h; rw [abs_of_nonneg (not_lt.mp h)]

@[simp] theorem xConverged_iff (tol x1 x2 : Rat) : xConverged tol x1 x2 = true ↔ |x2 - x1| < tol / 2 := by
  simp [xConverged]

theorem xConverged_false_iff (tol x1 x2 : Rat) :
    xConverged tol x1 x2 = false ↔ tol / 2 ≤ |x2 - x1| := by
  rw [← Bool.not_eq_true, xConverged_iff, not_lt]

/-- `x` lies in the closed interval spanned by `a` and `b` (either order) -/
def Btw (a b x : Rat) : Prop := (a ≤ x ∧ x ≤ b) ∨ (b ≤ x ∧ x ≤ a)

theorem btw_of_mul_nonpos {x u v : Rat} (h : (x - u) * (x - v) ≤ 0) : Btw u v x := by
  unfold Btw
  by_contra hc
  push Not at hc
  obtain ⟨h1, h2⟩ := hc
  rcases lt_or_ge x u with hxu | hxu
  · rcases lt_or_ge x v with hxv | hxv
    · have : 0 < (x - u) * (x - v) := mul_pos_of_neg_of_neg (by linarith) (by linarith)
      linarith
    · have := h2 hxv; linarith
  · have hxv := h1 hxu
    rcases lt_or_ge u x with hux | hux
    · have : 0 < (x - u) * (x - v) := mul_pos (by linarith) (by linarith)
      linarith
    · have hxu' : x = u := le_antisymm hux hxu
      subst hxu'
      rcases lt_or_ge x v with hxv' | hxv'
      · linarith
      · have := h2 hxv'; linarith

theorem btw_comm {a b x : Rat} : Btw a b x ↔ Btw b a x := by
  unfold Btw; constructor <;> (intro h; rcases h with h | h) <;> [exact Or.inr h; exact Or.inl h; exact Or.inr h; exact Or.inl h]

theorem btw_bounds {lo hi a b x : Rat} (ha : lo ≤ a ∧ a ≤ hi) (hb : lo ≤ b ∧ b ≤ hi) (h : Btw a b x) :
    lo ≤ x ∧ x ≤ hi := by
  rcases h with h | h <;> constructor <;> linarith [ha.1, ha.2, hb.1, hb.2, h.1, h.2]

/-- the evaluation point lies between the current bracket ends, at least a quarter of the
    bracket width away from `a` -/
theorem sx_btw (tol : Rat) (s : BrentSt Rat) :
    Btw s.a s.b (sx tol s) ∧ |s.b - s.a| ≤ 4 * |sx tol s - s.a| := by
  unfold sx
  cases hb : bis tol s with
  | true =>
    rw [if_pos rfl]
    simp only [ofInt_eq]
    have e : ((2 : Int) : Rat) = 2 := by norm_num
    rw [e]
    constructor
    · rcases le_total s.a s.b with h | h
      · left; constructor <;> linarith
      · right; constructor <;> linarith
    · have : (s.a + s.b) / 2 - s.a = (s.b - s.a) / 2 := by ring
      rw [this, abs_div, abs_of_pos (by norm_num : (0 : Rat) < 2)]
      linarith [abs_nonneg (s.b - s.a)]
  | false =>
    rw [if_neg Bool.false_ne_true]
    have hc1 : cond1 s = false := by
      unfold bis at hb
      cases h : cond1 s with
      | false => rfl
      | true => rw [h] at hb; simp at hb
    have hle : (s0 s - s.b) * (s0 s - (3 * s.a + s.b) / 4) ≤ 0 := by
      have := hc1
      unfold cond1 at this
      rw [← Bool.not_eq_true, lt_iff] at this
      simp only [ofInt_eq, zero_eq] at this
      have e3 : ((3 : Int) : Rat) = 3 := by norm_num
      have e4 : ((4 : Int) : Rat) = 4 := by norm_num
      rw [e3, e4] at this
      exact not_lt.mp this
    have hbt := btw_of_mul_nonpos hle
    generalize s0 s = x at hbt ⊢
    rcases hbt with ⟨h1, h2⟩ | ⟨h1, h2⟩
    · -- b ≤ x ≤ (3a+b)/4, hence b ≤ a
      have hba : s.b ≤ s.a := by linarith
      refine ⟨Or.inr ⟨h1, by linarith⟩, ?_⟩
      rw [abs_of_nonpos (by linarith), abs_of_nonpos (by linarith)]
      linarith
    · have hab : s.a ≤ s.b := by linarith
      refine ⟨Or.inl ⟨by linarith, h2⟩, ?_⟩
      rw [abs_of_nonneg (by linarith), abs_of_nonneg (by linarith)]
      linarith

theorem arrange_cases (a ya b yb : Rat) :
    (brentArrange a ya b yb = (a, ya, b, yb) ∧ |yb| < |ya|) ∨
    (brentArrange a ya b yb = (b, yb, a, ya) ∧ |ya| ≤ |yb|) := by
  unfold brentArrange
  by_cases h : |yb| < |ya|
  · left; rw [if_pos (by simpa using h)]; exact ⟨rfl, h⟩
  · right; rw [if_neg (by simpa using h)]; exact ⟨rfl, not_lt.mp h⟩

/-- the new bracket: either `{a, sx}` with a strict sign change, or `{sx, b}` -/
theorem next_cases (f : Rat → Rat) (tol : Rat) (s : BrentSt Rat) :
    let x := sx tol s
    let n := next f tol s
    n.c = s.b ∧ n.yc = s.yb ∧ n.d = s.c ∧ n.iter = s.iter + 1 ∧ n.flag = bis tol s ∧ |n.yb| ≤ |n.ya| ∧
    ((s.ya * f x < 0 ∧
        ((n.a = s.a ∧ n.ya = f s.a ∧ n.b = x ∧ n.yb = f x) ∨
         (n.a = x ∧ n.ya = f x ∧ n.b = s.a ∧ n.yb = f s.a))) ∨
     (0 ≤ s.ya * f x ∧
        ((n.a = x ∧ n.ya = f x ∧ n.b = s.b ∧ n.yb = f s.b) ∨
         (n.a = s.b ∧ n.ya = f s.b ∧ n.b = x ∧ n.yb = f x)))) := by
  intro x n
  refine ⟨rfl, rfl, rfl, rfl, rfl, ?_⟩
  show |(pair f tol s).2.2.2| ≤ |(pair f tol s).2.1| ∧ _
  have hn : n.a = (pair f tol s).1 ∧ n.ya = (pair f tol s).2.1 ∧ n.b = (pair f tol s).2.2.1 ∧
      n.yb = (pair f tol s).2.2.2 := ⟨rfl, rfl, rfl, rfl⟩
  obtain ⟨e1, e2, e3, e4⟩ := hn
  rw [e1, e2, e3, e4]
  unfold pair
  by_cases h : s.ya * f x < 0
  · rw [if_pos (by simpa using h)]
    rcases arrange_cases s.a (f s.a) x (f x) with ⟨e, hh⟩ | ⟨e, hh⟩
    · show |(brentArrange s.a (f s.a) x (f x)).2.2.2| ≤ |(brentArrange s.a (f s.a) x (f x)).2.1| ∧ _
      rw [e]; exact ⟨le_of_lt hh, Or.inl ⟨h, Or.inl ⟨rfl, rfl, rfl, rfl⟩⟩⟩
    · show |(brentArrange s.a (f s.a) x (f x)).2.2.2| ≤ |(brentArrange s.a (f s.a) x (f x)).2.1| ∧ _
      rw [e]; exact ⟨hh, Or.inl ⟨h, Or.inr ⟨rfl, rfl, rfl, rfl⟩⟩⟩
  · rw [if_neg (by simpa using h)]
    rcases arrange_cases x (f x) s.b (f s.b) with ⟨e, hh⟩ | ⟨e, hh⟩
    · show |(brentArrange x (f x) s.b (f s.b)).2.2.2| ≤ |(brentArrange x (f x) s.b (f s.b)).2.1| ∧ _
      rw [e]; exact ⟨le_of_lt hh, Or.inr ⟨not_lt.mp h, Or.inl ⟨rfl, rfl, rfl, rfl⟩⟩⟩
    · show |(brentArrange x (f x) s.b (f s.b)).2.2.2| ≤ |(brentArrange x (f x) s.b (f s.b)).2.1| ∧ _
      rw [e]; exact ⟨hh, Or.inr ⟨not_lt.mp h, Or.inr ⟨rfl, rfl, rfl, rfl⟩⟩⟩

end RatFacts
end Cav.BrentL
