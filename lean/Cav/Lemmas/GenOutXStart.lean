/-
  Output of the sweep on general valid input, part 7: **the proper Start event keeps the
  strengthened invariant**: a new in-interval with a one-node back-chain; no triangle, weight `0`.
-/
import Cav.Lemmas.GenOutStepAux
import Cav.Lemmas.GenOutStepStart

set_option linter.unusedVariables false
set_option linter.unusedSimpArgs false

namespace Cav.GenOutXStart
open Cav Num Cav.Geo Cav.Sweep Cav.TriRun Cav.QuadRun Cav.QuadGeom Cav.SweepOut Cav.CvxEvents Cav.CvxLoop
open Cav.CvxHeap Cav.GenNodes Cav.GenInv Cav.GenQueue Cav.MonoGeom Cav.MonoHeap Cav.MonoFan Cav.GenOutShape
open Cav.GenOutDefs Cav.GenLinks Cav.GenOrder Cav.GenOutInv Cav.GenOutCount Cav.GenOutAux
open Cav.GenOutStepAux Cav.GenOutStart
open Cav.GenGeom hiding Q

variable {R : RingQ}

/-- coherence at a Start vertex -/
theorem coh_start {w wB wT : Nat} (hnb : (R.prv w = wB ∧ R.nxt w = wT) ∨ (R.prv w = wT ∧ R.nxt w = wB))
    (hxB : R.x w < R.x wB) (hxT : R.x w < R.x wT) (h : isLo R w wB ↔ ¬ isLo R w wT) : Coh R w := by
  unfold Coh
  rcases hnb with ⟨e1, e2⟩ | ⟨e1, e2⟩
  · rw [e1, e2, if_neg (not_lt.mpr (le_of_lt hxB)), if_pos hxT]
    exact h
  · rw [e1, e2, if_neg (not_lt.mpr (le_of_lt hxT)), if_pos hxB]
    constructor
    · intro h1 h2; exact (h.mp h2) h1
    · intro h1; by_contra h2; exact h1 (h.mpr h2)

/-- no edge is finished at a Start vertex -/
theorem wDone_start {V : Array (Vtx XQ)} (hR : RingOK R V) {xs : Rat} {w wB wT : Nat} (hw : w < R.n)
    (hxs : xs < R.x w) (hgap : ∀ v, v < R.n → xs < R.x v → R.x w ≤ R.x v)
    (hnb : (R.prv w = wB ∧ R.nxt w = wT) ∨ (R.prv w = wT ∧ R.nxt w = wB))
    (hxB : R.x w < R.x wB) (hxT : R.x w < R.x wT) : wDone R (R.x w) = wDone R xs := by
  rw [wDone_step hR hw hxs hgap]
  rcases hnb with ⟨e1, e2⟩ | ⟨e1, e2⟩
  · rw [e1, e2, if_neg (not_lt.mpr (le_of_lt hxB)), if_neg (not_lt.mpr (le_of_lt hxT))]; ring
  · rw [e1, e2, if_neg (not_lt.mpr (le_of_lt hxT)), if_neg (not_lt.mpr (le_of_lt hxB))]; ring

/-- the chain ids of the in-intervals are valid chain cells -/
theorem ci_lt {s : St XQ} {xs : Rat} {ivs : List IV} {G : Nat → CH} (hX : XInv R s xs ivs G) :
    ∀ j ∈ ivs, j.ci < s.chains.size := by
  intro j hj
  obtain ⟨ch, hch, -⟩ := (hX.ok j hj).cell
  exact lt_of_get' hch

/-- **the proper Start event** -/
theorem xstart_proper {s : St XQ} {xs : Rat} {pre post : List IV} {G : Nat → CH}
    (hX : XInv R s xs (pre ++ post) G)
    {w : Nat} {es : List Nat} {rest : List (Nat × List Nat)} (hev : s.events = (w, es) :: rest)
    {wB wT : Nat} (hnb : (R.prv w = wB ∧ R.nxt w = wT) ∨ (R.prv w = wT ∧ R.nxt w = wB))
    (hxB : R.x w < R.x wB) (hxT : R.x w < R.x wT)
    (ho : 0 < orient (R.pt w) (R.pt wB) (R.pt wT))
    (hS : StartProper R s pre post w wB wT) :
    ∃ s' G', (handleNext : SM XQ Unit).run s = .ok ((), s') ∧
      XInv R s' (R.x w)
        (pre ++ ⟨⟨s.edges.size, w, wB⟩, ⟨s.edges.size + 1, w, wT⟩, s.chains.size⟩ :: post) G' := by
  obtain ⟨-, -, s', hrun, hs'n, hs'o, hs'c, hI'⟩ := hS
  have hI := hX.inv
  have hR := hI.ring
  have hq := hI.q
  rw [hev] at hq
  have hwq := hq.gt (w, es) List.mem_cons_self
  have hwn : w < R.n := hwq.1
  have hxs : xs < R.x w := hwq.2
  have hgap := no_gap hR hq hI.cross
  have hcilt := ci_lt hX
  refine ⟨s', Function.update G s.chains.size ⟨[], (s.nodes.size, R.pt w), []⟩, hrun, ?_⟩
  have hGo : ∀ j ∈ pre ++ post, Function.update G s.chains.size ⟨[], (s.nodes.size, R.pt w), []⟩ j.ci = G j.ci :=
    fun j hj => Function.update_of_ne (Nat.ne_of_lt (hcilt j hj)) _ _
  have hGs : Function.update G s.chains.size ⟨[], (s.nodes.size, R.pt w), []⟩ s.chains.size =
      ⟨[], (s.nodes.size, R.pt w), []⟩ := Function.update_self _ _ _
  have hothers : ∀ j ∈ pre ++ post, ChainOK R s' (R.x w) j
      (Function.update G s.chains.size ⟨[], (s.nodes.size, R.pt w), []⟩ j.ci) := by
    intro j hj
    refine other_ok hX (le_of_lt hxs) hj (hGo j hj) ?_ ?_
    · rw [hs'c, Array.getElem?_push_lt (hcilt j hj), ← Array.getElem?_eq_getElem (hcilt j hj)]
    · intro x hx
      have hlt := Seg.idx_lt (hX.ok j hj).seg x hx
      rw [hs'n, Array.getElem?_push_lt hlt, ← Array.getElem?_eq_getElem hlt]
  have hloNew : isLo R w wB :=
    isLo_lo (iv := (⟨⟨s.edges.size, w, wB⟩, ⟨s.edges.size + 1, w, wT⟩, s.chains.size⟩ : IV)) hI' rfl
  have hhiNew : ¬ isLo R w wT :=
    isLo_hi (iv := (⟨⟨s.edges.size, w, wB⟩, ⟨s.edges.size + 1, w, wT⟩, s.chains.size⟩ : IV)) hI' rfl
  refine ⟨hI', ?_, ?_, ?_, ?_, ?_, ?_, fun h => absurd h (by simp), ?_⟩
  · intro j hj
    rcases List.mem_append.mp hj with hj | hj
    · exact hothers j (List.mem_append_left _ hj)
    · rcases List.mem_cons.mp hj with rfl | hj
      · show ChainOK R s' (R.x w) _ (Function.update G s.chains.size _ s.chains.size)
        rw [hGs]
        refine ⟨⟨⟨s.nodes.size, s.nodes.size, s.nodes.size⟩, ?_, rfl, rfl, rfl⟩, ?_, ?_⟩
        · rw [hs'c]; exact Array.getElem?_push_size
        · rw [hs'n]
          show Seg _ none [(s.nodes.size, Fq (R.pt w))] none
          exact ⟨Array.getElem?_push_size, trivial⟩
        · exact shape_single _ _ _ (le_refl _) _ _ _ _
      · exact hothers j (List.mem_append_right _ hj)
  · rw [idxs_append, idxs_cons, idxs_congr (fun j hj => hGo j (List.mem_append_left _ hj)),
      idxs_congr (fun j hj => hGo j (List.mem_append_right _ hj))]
    show (idxs G pre ++ ((Function.update G s.chains.size _ s.chains.size).l.map Prod.fst ++ idxs G post)).Nodup
    rw [hGs]
    have hnd := hX.nd
    rw [idxs_append] at hnd
    have := nodup_replace (A := idxs G pre) (B := idxs G post) (old := []) (sub := [])
      (n := s.nodes.size) (by simpa using hnd) (List.Sublist.refl _) (by
        intro k hk
        apply idx_ne_size hX k
        rw [idxs_append]; simpa using hk)
    simpa [CH.l] using this
  · intro j hj
    rcases List.mem_append.mp hj with hj | hj
    · exact hX.flags j (List.mem_append_left _ hj)
    · rcases List.mem_cons.mp hj with rfl | hj
      · exact ⟨hloNew, hhiNew⟩
      · exact hX.flags j (List.mem_append_right _ hj)
  · have hcnt := hX.count
    rw [cnt_step hR hwn hxs hgap, vWeight_start hnb hxB hxT ho, if_pos hloNew, hs'o]
    rw [lenSum_append, lenSum_cons, lenSum_congr (fun j hj => hGo j (List.mem_append_left _ hj)),
      lenSum_congr (fun j hj => hGo j (List.mem_append_right _ hj))]
    show _ + (lenSum G pre + ((Function.update G s.chains.size _ s.chains.size).l.length + lenSum G post)) = _
    rw [hGs]
    rw [lenSum_append] at hcnt
    simp only [CH.l, List.length_append, List.length_cons, List.length_reverse, List.length_nil] at hcnt ⊢
    omega
  · have harea := hX.area
    rw [wDone_start hR hwn hxs hgap hnb hxB hxT]
    rw [pathTot_append, pathTot_cons, pathTot_congr (fun j hj => hGo j (List.mem_append_left _ hj)),
      pathTot_congr (fun j hj => hGo j (List.mem_append_right _ hj))]
    show _ = _ + (pathTot G pre + (pathSum ((Function.update G s.chains.size _ s.chains.size).l.map Prod.snd) + pathTot G post))
    rw [hGs, hs'o, harea, pathTot_append]
    simp [CH.l, pathSum]
  · exact coh_step hR hwn hxs hgap hX.coh
      (coh_start hnb hxB hxT ⟨fun _ => hhiNew, fun _ => hloNew⟩)
  · intro tr htr
    rw [hs'o] at htr
    exact hX.posA tr htr

end Cav.GenOutXStart
