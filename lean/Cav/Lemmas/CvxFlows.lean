/-
  The event lemmas of `CvxEvents.lean` instantiated at finite points: every pure geometric test
  of the model is discharged from strict inequalities between abscissae and from the signs of
  orientation determinants (lemmas of `QuadGeom.lean`).
-/
import Cav.Lemmas.QuadGeom
import Cav.Lemmas.CvxEvents

set_option linter.unusedSimpArgs false
set_option linter.unusedVariables false

namespace Cav.CvxFlows
open Cav Num Cav.Geo Cav.Sweep Cav.TriRun Cav.QuadRun Cav.TriEvents Cav.QuadGeom Cav.TriGeom
open Cav.CvxHeap Cav.CvxEvents

/-! ### small facts about finite points with distinct abscissae -/

theorem lex_of_x {a c : Rat × Rat} (h : a.1 < c.1) : lexLt (a.1, a.2) (c.1, c.2) := Or.inl h

theorem ft_bend (a p c : Rat × Rat) (h1 : a.1 < p.1) (h2 : p.1 < c.1) :
    fromTriplet (Fq p) (Fq a) (Fq c) = some .bend ∧ fromTriplet (Fq p) (Fq c) (Fq a) = some .bend :=
  ⟨(C15.fromTriplet_bend_fin _ _ _ _ _ _).mpr (Or.inl ⟨lex_of_x h1, lex_of_x h2⟩),
   (C15.fromTriplet_bend_fin _ _ _ _ _ _).mpr (Or.inr ⟨lex_of_x h1, lex_of_x h2⟩)⟩

theorem ft_start (p a c : Rat × Rat) (h1 : p.1 < a.1) (h2 : p.1 < c.1) :
    fromTriplet (Fq p) (Fq a) (Fq c) = some .start :=
  (C15.fromTriplet_start_fin _ _ _ _ _ _).mpr ⟨lex_of_x h1, lex_of_x h2⟩

theorem ft_end (p a c : Rat × Rat) (h1 : a.1 < p.1) (h2 : c.1 < p.1) :
    fromTriplet (Fq p) (Fq a) (Fq c) = some .end_ :=
  (C15.fromTriplet_end_fin _ _ _ _ _ _).mpr ⟨lex_of_x h1, lex_of_x h2⟩

theorem ge_false (a c : Rat × Rat) (h : a.1 < c.1) : (Fq a).ge (Fq c) = false := by
  cases hg : (Fq a).ge (Fq c) with
  | false => rfl
  | true => exact absurd (lex_of_x h) ((C15.Pt.ge_fin _ _ _ _).mp hg)

theorem ge_true (a c : Rat × Rat) (h : a.1 < c.1) : (Fq c).ge (Fq a) = true :=
  (C15.Pt.ge_fin _ _ _ _).mpr (lexLt_asymm (lex_of_x h))

theorem minTotal_fin (a c : Rat) : minTotal (XQ.fin a) (XQ.fin c) = XQ.fin (min a c) := by
  unfold minTotal
  rw [totalCmp_fin]
  rcases lt_trichotomy a c with h | h | h
  · simp [h, min_eq_left (le_of_lt h)]
  · subst h; simp
  · simp [h, lt_asymm h, min_eq_right (le_of_lt h)]

theorem cmp_lt_of_x (a c : Rat × Rat) (h : a.1 < c.1) : (Fq a).cmp (Fq c) = .lt :=
  (Geo.Pt.cmp_fin_lt _ _ _ _).mpr (Or.inl h)
theorem cmp_gt_of_x (a c : Rat × Rat) (h : c.1 < a.1) : (Fq a).cmp (Fq c) = .gt :=
  (Geo.Pt.cmp_fin_gt _ _ _ _).mpr (Or.inl h)
theorem cmp_self (a : Rat × Rat) : (Fq a).cmp (Fq a) = .eq :=
  (Geo.Pt.cmp_fin_eq _ _ _ _).mpr ⟨rfl, rfl⟩

/-- the overlap test of a Bend on the bottom chain -/
theorem ovB (T p rp rO : Rat × Rat) (hpr : p.1 < rp.1) (hTO : T.1 < rO.1) (hTp : T.1 ≤ p.1) (hpO : p.1 < rO.1)
    (hsame : rp.1 = rO.1 → rp = rO)
    (hlt : rp.1 < rO.1 → orient T rO rp < 0) (hgt : rO.1 < rp.1 → 0 < orient p rp rO) :
    (ofEq (Fq rp).x (Fq rO).x = true →
      ofGt (yExtrap (Fq p) (Fq rp) (Fq rp).x true) (yExtrap (Fq T) (Fq rO) (Fq rp).x true) = false) ∧
    (ofEq (Fq rp).x (Fq rO).x = false →
      cmpAtP (Fq p) (Fq rp) (Fq T) (Fq rO) (XQ.fin (min rp.1 rO.1)) true = .lt) := by
  constructor
  · intro h
    simp only [F_x, ofEq_fin, decide_eq_true_eq] at h
    have := hsame h
    subst this
    exact ofGt_right_false p T rp hpr hTO
  · intro h
    simp only [F_x, ofEq_fin, decide_eq_false_iff_not] at h
    rcases lt_or_gt_of_ne h with h' | h'
    · rw [min_eq_left (le_of_lt h')]
      exact cmpAt_keyEnd_lt p rp T rO hpr hTO (by linarith) (le_of_lt h') (hlt h')
    · rw [min_eq_right (le_of_lt h')]
      exact cmpAt_otherEnd_lt p rp T rO hpr hTO (le_of_lt hpO) (le_of_lt h') (hgt h')

/-- the overlap test of a Bend on the top chain -/
theorem ovT (B p rp rO : Rat × Rat) (hpr : p.1 < rp.1) (hBO : B.1 < rO.1) (hBp : B.1 ≤ p.1) (hpO : p.1 < rO.1)
    (hsame : rp.1 = rO.1 → rp = rO)
    (hlt : rp.1 < rO.1 → 0 < orient B rO rp) (hgt : rO.1 < rp.1 → orient p rp rO < 0) :
    (ofEq (Fq rp).x (Fq rO).x = true →
      ofLt (yExtrap (Fq p) (Fq rp) (Fq rp).x true) (yExtrap (Fq B) (Fq rO) (Fq rp).x true) = false) ∧
    (ofEq (Fq rp).x (Fq rO).x = false →
      cmpAtP (Fq p) (Fq rp) (Fq B) (Fq rO) (XQ.fin (min rp.1 rO.1)) true = .gt) := by
  constructor
  · intro h
    simp only [F_x, ofEq_fin, decide_eq_true_eq] at h
    have := hsame h
    subst this
    exact ofLt_right_false p B rp hpr hBO
  · intro h
    simp only [F_x, ofEq_fin, decide_eq_false_iff_not] at h
    rcases lt_or_gt_of_ne h with h' | h'
    · rw [min_eq_left (le_of_lt h')]
      exact cmpAt_keyEnd_gt p rp B rO hpr hBO (by linarith) (le_of_lt h') (hlt h')
    · rw [min_eq_right (le_of_lt h')]
      exact cmpAt_otherEnd_gt p rp B rO hpr hBO (le_of_lt hpO) (le_of_lt h') (hgt h')

section
variable (V : Array (Vtx XQ)) (x : XQ) (N : Array (Node XQ)) (rm iB iT : Nat)
  (B T p rp rO : Rat × Rat) (vi vB r vO n1 n2 a1 a2 a5 a6 a7 a8 : Nat) (out : List Tri)

/-- Bend on the bottom chain, two-node chain -/
theorem bendB_fin
    (hNB : N[iB]? = some ⟨Fq B, none, some iT⟩) (hNT : N[iT]? = some ⟨Fq T, some iB, none⟩)
    (hv : V[vi]? = some ⟨Fq p, n1, n2⟩) (hn : Nbrs n1 n2 vB r)
    (hB : V[vB]? = some ⟨Fq B, a1, a2⟩) (hrp : V[r]? = some ⟨Fq rp, a5, a6⟩)
    (hO : V[vO]? = some ⟨Fq rO, a7, a8⟩)
    (hBp : B.1 < p.1) (hpr : p.1 < rp.1) (hTO : T.1 < rO.1) (hTp : T.1 ≤ p.1) (hpO : p.1 < rO.1)
    (hcut : 0 < orient B p T)
    (hsame : rp.1 = rO.1 → rp = rO)
    (hlt : rp.1 < rO.1 → orient T rO rp < 0) (hgt : rO.1 < rp.1 → 0 < orient p rp rO) :
    Runs (stC V x N rm iB iT (Fq p) (Fq rO) [(vi, [0]), (vO, [1])] out)
      (.ok ((), stC V (.fin p.1)
        (cut (appH N iB ⟨Fq B, none, some iT⟩ (Fq p)) N.size iT ⟨Fq p, none, some iB⟩
          ⟨Fq T, some iB, none⟩)
        N.size N.size iT (Fq rp) (Fq rO) (evMerge ((Fq rp).cmp (Fq rO)) r 0 vO [1])
        (sort3 (Fq p) (Fq B) (Fq T) :: out))) handleNext := by
  obtain ⟨o1, o2⟩ := ovB T p rp rO hpr hTO hTp hpO hsame hlt hgt
  have hcw : clockwiseSign (Fq p) (Fq B) (Fq T) = .c :=
    cw_c p B T (by have := orient_swap B p T; simp only [orient] at *; linarith)
  have hx : ofEq (Fq rp).x (Fq p).x = false := by simp [ne_of_gt hpr]
  obtain ⟨f1, f2⟩ := ft_bend B p rp hBp hpr
  rcases hn with ⟨rfl, rfl⟩ | ⟨rfl, rfl⟩
  · exact bendB V x N rm iB iT (Fq B) (Fq T) (Fq p) (Fq B) (Fq rp) (Fq rp) (Fq rO) vi n1 n2 n2 vO
      a1 a2 a5 a6 a5 a6 a7 a8 out _ (XQ.fin (min rp.1 rO.1)) hNB hNT hv hB hrp f1
      (by rw [ge_false B rp (lt_trans hBp hpr)]; simp) hrp hO rfl hx hcw (minTotal_fin _ _) o1 o2 rfl
  · exact bendB V x N rm iB iT (Fq B) (Fq T) (Fq p) (Fq rp) (Fq B) (Fq rp) (Fq rO) vi n1 n2 n1 vO
      a5 a6 a1 a2 a5 a6 a7 a8 out _ (XQ.fin (min rp.1 rO.1)) hNB hNT hv hrp hB f2
      (by rw [ge_true B rp (lt_trans hBp hpr)]; simp) hrp hO rfl hx hcw (minTotal_fin _ _) o1 o2 rfl

/-- first Bend, on the bottom chain (single-node chain) -/
theorem bendB1_fin (i0 : Nat) (L : Rat × Rat)
    (hN0 : N[i0]? = some ⟨Fq L, none, none⟩)
    (hv : V[vi]? = some ⟨Fq p, n1, n2⟩) (hn : Nbrs n1 n2 vB r)
    (hB : V[vB]? = some ⟨Fq L, a1, a2⟩) (hrp : V[r]? = some ⟨Fq rp, a5, a6⟩)
    (hO : V[vO]? = some ⟨Fq rO, a7, a8⟩)
    (hLp : L.1 < p.1) (hpr : p.1 < rp.1) (hLO : L.1 < rO.1) (hpO : p.1 < rO.1)
    (hsame : rp.1 = rO.1 → rp = rO)
    (hlt : rp.1 < rO.1 → orient L rO rp < 0) (hgt : rO.1 < rp.1 → 0 < orient p rp rO) :
    Runs (stC V x N rm i0 i0 (Fq p) (Fq rO) [(vi, [0]), (vO, [1])] out)
      (.ok ((), stC V (.fin p.1) (appH N i0 ⟨Fq L, none, none⟩ (Fq p))
        N.size N.size i0 (Fq rp) (Fq rO) (evMerge ((Fq rp).cmp (Fq rO)) r 0 vO [1]) out))
      handleNext := by
  obtain ⟨o1, o2⟩ := ovB L p rp rO hpr hLO (le_of_lt hLp) hpO hsame hlt hgt
  have hx : ofEq (Fq rp).x (Fq p).x = false := by simp [ne_of_gt hpr]
  obtain ⟨f1, f2⟩ := ft_bend L p rp hLp hpr
  rcases hn with ⟨rfl, rfl⟩ | ⟨rfl, rfl⟩
  · exact bendB1 V x N rm (Fq p) (Fq L) (Fq rp) (Fq rp) (Fq rO) vi n1 n2 n2 vO
      a1 a2 a5 a6 a5 a6 a7 a8 out _ (XQ.fin (min rp.1 rO.1)) i0 (Fq L) hN0 hv hB hrp f1
      (by rw [ge_false L rp (lt_trans hLp hpr)]; simp) hrp hO rfl hx (minTotal_fin _ _) o1 o2 rfl
  · exact bendB1 V x N rm (Fq p) (Fq rp) (Fq L) (Fq rp) (Fq rO) vi n1 n2 n1 vO
      a5 a6 a1 a2 a5 a6 a7 a8 out _ (XQ.fin (min rp.1 rO.1)) i0 (Fq L) hN0 hv hrp hB f2
      (by rw [ge_true L rp (lt_trans hLp hpr)]; simp) hrp hO rfl hx (minTotal_fin _ _) o1 o2 rfl

/-- Bend on the top chain, two-node chain (`vB` is the previous vertex of the top chain) -/
theorem bendT_fin
    (hNB : N[iB]? = some ⟨Fq B, none, some iT⟩) (hNT : N[iT]? = some ⟨Fq T, some iB, none⟩)
    (hv : V[vi]? = some ⟨Fq p, n1, n2⟩) (hn : Nbrs n1 n2 vB r)
    (hB : V[vB]? = some ⟨Fq T, a1, a2⟩) (hrp : V[r]? = some ⟨Fq rp, a5, a6⟩)
    (hO : V[vO]? = some ⟨Fq rO, a7, a8⟩)
    (hTp : T.1 < p.1) (hpr : p.1 < rp.1) (hBO : B.1 < rO.1) (hBp : B.1 ≤ p.1) (hpO : p.1 < rO.1)
    (hcut : orient T p B < 0)
    (hsame : rp.1 = rO.1 → rp = rO)
    (hlt : rp.1 < rO.1 → 0 < orient B rO rp) (hgt : rO.1 < rp.1 → orient p rp rO < 0) :
    Runs (stC V x N rm iB iT (Fq rO) (Fq p) [(vi, [1]), (vO, [0])] out)
      (.ok ((), stC V (.fin p.1)
        (cut (appT N iT ⟨Fq T, some iB, none⟩ (Fq p)) iB N.size ⟨Fq B, none, some iT⟩
          ⟨Fq p, some iT, none⟩)
        N.size iB N.size (Fq rO) (Fq rp) (evMerge ((Fq rp).cmp (Fq rO)) r 1 vO [0])
        (sort3 (Fq B) (Fq T) (Fq p) :: out))) handleNext := by
  obtain ⟨o1, o2⟩ := ovT B p rp rO hpr hBO hBp hpO hsame hlt hgt
  have hcw : clockwiseSign (Fq B) (Fq T) (Fq p) = .c :=
    cw_c B T p (by have := orient_rot B T p; simp only [orient] at *; linarith)
  have hx : ofEq (Fq rp).x (Fq p).x = false := by simp [ne_of_gt hpr]
  obtain ⟨f1, f2⟩ := ft_bend T p rp hTp hpr
  rcases hn with ⟨rfl, rfl⟩ | ⟨rfl, rfl⟩
  · exact bendT V x N rm iB iT (Fq B) (Fq T) (Fq p) (Fq T) (Fq rp) (Fq rp) (Fq rO) vi n1 n2 n2 vO
      a1 a2 a5 a6 a5 a6 a7 a8 out _ (XQ.fin (min rp.1 rO.1)) hNB hNT hv hB hrp f1
      (by rw [ge_false T rp (lt_trans hTp hpr)]; simp) hrp hO rfl hx hcw (minTotal_fin _ _) o1 o2 rfl
  · exact bendT V x N rm iB iT (Fq B) (Fq T) (Fq p) (Fq rp) (Fq T) (Fq rp) (Fq rO) vi n1 n2 n1 vO
      a5 a6 a1 a2 a5 a6 a7 a8 out _ (XQ.fin (min rp.1 rO.1)) hNB hNT hv hrp hB f2
      (by rw [ge_true T rp (lt_trans hTp hpr)]; simp) hrp hO rfl hx hcw (minTotal_fin _ _) o1 o2 rfl

/-- first Bend, on the top chain (single-node chain) -/
theorem bendT1_fin (i0 : Nat) (L : Rat × Rat)
    (hN0 : N[i0]? = some ⟨Fq L, none, none⟩)
    (hv : V[vi]? = some ⟨Fq p, n1, n2⟩) (hn : Nbrs n1 n2 vB r)
    (hB : V[vB]? = some ⟨Fq L, a1, a2⟩) (hrp : V[r]? = some ⟨Fq rp, a5, a6⟩)
    (hO : V[vO]? = some ⟨Fq rO, a7, a8⟩)
    (hLp : L.1 < p.1) (hpr : p.1 < rp.1) (hLO : L.1 < rO.1) (hpO : p.1 < rO.1)
    (hsame : rp.1 = rO.1 → rp = rO)
    (hlt : rp.1 < rO.1 → 0 < orient L rO rp) (hgt : rO.1 < rp.1 → orient p rp rO < 0) :
    Runs (stC V x N rm i0 i0 (Fq rO) (Fq p) [(vi, [1]), (vO, [0])] out)
      (.ok ((), stC V (.fin p.1) (appT N i0 ⟨Fq L, none, none⟩ (Fq p))
        N.size i0 N.size (Fq rO) (Fq rp) (evMerge ((Fq rp).cmp (Fq rO)) r 1 vO [0]) out))
      handleNext := by
  obtain ⟨o1, o2⟩ := ovT L p rp rO hpr hLO (le_of_lt hLp) hpO hsame hlt hgt
  have hx : ofEq (Fq rp).x (Fq p).x = false := by simp [ne_of_gt hpr]
  obtain ⟨f1, f2⟩ := ft_bend L p rp hLp hpr
  rcases hn with ⟨rfl, rfl⟩ | ⟨rfl, rfl⟩
  · exact bendT1 V x N rm (Fq p) (Fq L) (Fq rp) (Fq rp) (Fq rO) vi n1 n2 n2 vO
      a1 a2 a5 a6 a5 a6 a7 a8 out _ (XQ.fin (min rp.1 rO.1)) i0 (Fq L) hN0 hv hB hrp f1
      (by rw [ge_false L rp (lt_trans hLp hpr)]; simp) hrp hO rfl hx (minTotal_fin _ _) o1 o2 rfl
  · exact bendT1 V x N rm (Fq p) (Fq rp) (Fq L) (Fq rp) (Fq rO) vi n1 n2 n1 vO
      a5 a6 a1 a2 a5 a6 a7 a8 out _ (XQ.fin (min rp.1 rO.1)) i0 (Fq L) hN0 hv hrp hB f2
      (by rw [ge_true L rp (lt_trans hLp hpr)]; simp) hrp hO rfl hx (minTotal_fin _ _) o1 o2 rfl

/-- the End event -/
theorem end_fin (xs : Rat) (vT : Nat) (es : List Nat)
    (hNB : N[iB]? = some ⟨Fq B, none, some iT⟩) (hNT : N[iT]? = some ⟨Fq T, some iB, none⟩)
    (hv : V[vi]? = some ⟨Fq p, n1, n2⟩) (hn : Nbrs n1 n2 vB vT)
    (hB : V[vB]? = some ⟨Fq B, a1, a2⟩) (hT : V[vT]? = some ⟨Fq T, a5, a6⟩)
    (hes : es = [0, 1] ∨ es = [1, 0])
    (hBx : B.1 ≤ xs) (hTx : T.1 ≤ xs) (hxp : xs < p.1)
    (ho : orient B T p < 0) :
    Runs (stC V (.fin xs) N rm iB iT (Fq p) (Fq p) [(vi, es)] out)
      (.ok ((), stE V (.fin p.1)
        (cut (appT N iT ⟨Fq T, some iB, none⟩ (Fq p)) iB N.size ⟨Fq B, none, some iT⟩
          ⟨Fq p, some iT, none⟩)
        N.size iB N.size (Fq p) (Fq p) (sort3 (Fq B) (Fq T) (Fq p) :: out))) handleNext := by
  have hBp : B.1 < p.1 := lt_of_le_of_lt hBx hxp
  have hTp : T.1 < p.1 := lt_of_le_of_lt hTx hxp
  have hg1 := ofGe_gradR_true B T p hBp hTp ho
  have hg2 := ofGe_gradR_false T B p hTp hBp
    (by have := orient_swap B T p; have := orient_rot B p T; simp only [orient] at *; linarith)
  have hc := cmpE_fanR_lt B T p xs hBx hTx hxp ho
  have hcw := cw_c B T p ho
  rcases hn with ⟨rfl, rfl⟩ | ⟨rfl, rfl⟩
  · exact endC V (.fin xs) N rm iB iT (Fq B) (Fq T) (Fq p) (Fq B) (Fq T) vi n1 n2
      a1 a2 a5 a6 out es hNB hNT hv hB hT (ft_end p B T hBp hTp) hes rfl hg1 hg2 hc hcw
  · exact endC V (.fin xs) N rm iB iT (Fq B) (Fq T) (Fq p) (Fq T) (Fq B) vi n1 n2
      a5 a6 a1 a2 out es hNB hNT hv hT hB (ft_end p T B hTp hBp) hes rfl hg1 hg2 hc hcw

/-- the Start event -/
theorem start_fin (L vT l1 l2 a3 a4 : Nat) (pL : Rat × Rat)
    (hL : V[L]? = some ⟨Fq pL, l1, l2⟩) (hl : Nbrs l1 l2 vB vT)
    (hB : V[vB]? = some ⟨Fq B, a1, a2⟩) (hT : V[vT]? = some ⟨Fq T, a3, a4⟩)
    (hLB : pL.1 < B.1) (hLT : pL.1 < T.1) (ho : 0 < orient pL B T) :
    Runs (stQ V [(L, [])])
      (.ok ((), stC V (.fin pL.1) #[⟨Fq pL, none, none⟩] 0 0 0 (Fq B) (Fq T)
        (evMerge ((Fq T).cmp (Fq B)) vT 1 vB [0]) [])) handleNext :=
  startC V a1 a2 a3 a4 _ L vB vT (Fq pL) (Fq B) (Fq T) l1 l2 hL hl hB hT rfl
    (ft_start pL B T hLB hLT) (ft_start pL T B hLT hLB)
    (cmpE_fanL0_lt pL B T hLB hLT ho)
    (cmpE_fanL0_gt pL T B hLT hLB (by have := orient_swap pL B T; simp only [orient] at *; linarith))
    rfl

end

end Cav.CvxFlows
