/-
  CONSUMPTION (every successful parser call returns a shorter rest; the loops a rest that is
  not longer) and TERMINATION (`6 * s.length + k` units of fuel suffice, `k` depending on the
  entry point; `k = 10` for `parseExpr`, which is `fuelFor`).
-/
import Cav.Lemmas.ParseBody
import Cav.Lemmas.ParseLex

namespace Cav.ParseLemmas
open Cav

/-! ### consumption of the abstract bodies -/

/-- a parser that consumes at least one character when it succeeds -/
def Consumes (X : List Char → R E) : Prop := ∀ s r t, X s = .ok r t → r.length < s.length

theorem atomB_consumes {P F : List Char → R E} (ctx : Ctx) (hP : Consumes P) (hF : Consumes F) :
    Consumes (atomB P F ctx) := by
  intro s r t h
  unfold atomB at h
  split at h
  · rename_i r0 t0 hp; cases h; exact hP _ _ _ hp
  · cases h
  · split at h
    · rename_i r0 t0 hl; cases h; exact parseConst_length hl
    · split at h
      · rename_i r0 t0 hf; cases h; exact hF _ _ _ hf
      · cases h
      · exact parseVar_length h

theorem powB_length {T : List Char → R E} (hT : Consumes T) {rest r : List Char} {base t : E}
    (h : powB T rest base = .ok r t) : r.length ≤ rest.length := by
  unfold powB at h
  split at h
  · rename_i r1
    split at h
    · rename_i r2 ex ht; cases h; have := hT _ _ _ ht; simp; omega
    · cases h
    · cases h; exact Nat.le_refl _
  · rename_i r1
    split at h
    · rename_i r2 n hl; cases h; have := lexI32_length hl; simp; omega
    · cases h; exact Nat.le_refl _
  · cases h; exact Nat.le_refl _

theorem powTermB_consumes {A : List Char → R E} {Pw : List Char → E → R E} (hA : Consumes A)
    (hPw : ∀ rest base r t, Pw rest base = .ok r t → r.length ≤ rest.length) :
    Consumes (powTermB A Pw) := by
  intro s r t h
  unfold powTermB at h
  split at h
  · cases h
  · cases h
  · rename_i rest base ha
    have := hA _ _ _ ha
    have := hPw _ _ _ _ h
    omega

theorem termB_length {Q : List Char → R E} (hQ : Consumes Q) {s r : List Char} {a : Bool} {t : E}
    (h : termB Q s a = .ok r t) : r.length < s.length := by
  unfold termB at h
  split at h
  · cases h
  · split at h
    · rename_i r0 t0 hq
      have h1 := hQ _ _ _ hq
      have h2 := negCount_length s
      have : r = r0 := by split at h <;> cases h <;> rfl
      subst this; omega
    · cases h
    · cases h

theorem funcClose_length {name r0 r : List Char} {x : R E} {t : E}
    (hx : ∀ r1 t1, x = .ok r1 t1 → r1.length < r0.length)
    (h : funcClose name x = .ok r t) : r.length < r0.length := by
  unfold funcClose at h
  split at h
  · rename_i r2 t2; cases h; have := hx _ _ rfl; simp at this; omega
  · cases h
  · cases h
  · cases h

theorem funcB_consumes {X : List Char → R E} (ctx : Ctx) (hX : Consumes X) : Consumes (funcB X ctx) := by
  intro s r t h
  unfold funcB at h
  split at h
  · cases h
  · rename_i name r0 ha
    have h1 := alpha1_length ha
    unfold funcNamed at h
    split at h
    · unfold funcArg at h
      split at h
      · rename_i r1
        have := funcClose_length (r0 := r1) (fun r2 t2 hx => hX _ _ _ hx) h
        simp at h1; omega
      · cases h
    · cases h

/-! ### consumption of the seven functions -/

theorem consumes_all (ctx : Ctx) : ∀ f : Nat,
    Consumes (parseExpr f ctx) ∧
    (∀ s a r t, loopAdd f ctx s a = .ok r t → r.length ≤ s.length) ∧
    (∀ a, Consumes (fun s => parseMul f ctx s a)) ∧
    (∀ s a r t, loopMul f ctx s a = .ok r t → r.length ≤ s.length) ∧
    (∀ a, Consumes (fun s => parseTerm f ctx s a)) ∧
    Consumes (parseParenth f ctx) ∧
    Consumes (parseFunc f ctx) := by
  intro f
  induction f with
  | zero =>
    refine ⟨?_, ?_, ?_, ?_, ?_, ?_, ?_⟩
    · intro _ _ _ h; cases h
    · intro _ _ _ _ h; cases h
    · intro _ _ _ _ h; cases h
    · intro _ _ _ _ h; cases h
    · intro _ _ _ _ h; cases h
    · intro _ _ _ h; cases h
    · intro _ _ _ h; cases h
  | succ f ih =>
    obtain ⟨iE, iLA, iM, iLM, iT, iP, iF⟩ := ih
    refine ⟨?_, ?_, ?_, ?_, ?_, ?_, ?_⟩
    · intro s r t h
      rw [parseExpr_succ] at h
      split at h
      · rename_i r0 t0 hm
        have := iM true _ _ _ hm
        have := iLA _ _ _ _ h
        omega
      · cases h
      · cases h
    · intro s acc r t h
      rcases head_cases '+' '-' s with ⟨rest, rfl⟩ | ⟨rest, rfl⟩ | ⟨h1, h2⟩
      · rw [loopAdd_plus] at h
        split at h
        · rename_i r0 t0 hm
          have := iM false _ _ _ hm
          have := iLA _ _ _ _ h
          simp; omega
        · cases h
        · cases h
      · rw [loopAdd_minus] at h
        split at h
        · rename_i r0 t0 hm
          have := iM false _ _ _ hm
          have := iLA _ _ _ _ h
          simp; omega
        · cases h
        · cases h
      · rw [loopAdd_stop _ _ _ _ h1 h2] at h
        cases h; exact Nat.le_refl _
    · intro a s r t h
      simp only at h
      rw [parseMul_succ] at h
      split at h
      · rename_i r0 t0 hm
        have := iT a _ _ _ hm
        have := iLM _ _ _ _ h
        omega
      · cases h
      · cases h
    · intro s acc r t h
      rcases head_cases '*' '/' s with ⟨rest, rfl⟩ | ⟨rest, rfl⟩ | ⟨h1, h2⟩
      · rw [loopMul_star] at h
        split at h
        · rename_i r0 t0 hm
          have := iT true _ _ _ hm
          have := iLM _ _ _ _ h
          simp; omega
        · cases h
        · cases h
      · rw [loopMul_slash] at h
        split at h
        · rename_i r0 t0 hm
          have := iT true _ _ _ hm
          have := iLM _ _ _ _ h
          simp; omega
        · cases h
        · cases h
      · rw [loopMul_stop _ _ _ _ h1 h2] at h
        cases h; exact Nat.le_refl _
    · intro a s r t h
      simp only at h
      rw [parseTerm_succ] at h
      refine termB_length ?_ h
      apply powTermB_consumes
      · exact atomB_consumes ctx iP iF
      · intro rest base r t h
        exact powB_length (iT true) h
    · intro s r t h
      rcases head_case '(' s with ⟨r0, rfl⟩ | h1
      · rw [parseParenth_open] at h
        split at h
        · rename_i r2 t2 he
          cases h
          have := iE _ _ _ he
          simp at this ⊢; omega
        · cases h
        · cases h
        · cases h
      · rw [parseParenth_other _ _ _ h1] at h; cases h
    · intro s r t h
      rw [parseFunc_succ'] at h
      exact funcB_consumes ctx iE _ _ _ h

/-! ### the abstract bodies do not invent `oof` -/

theorem parseVar_ne_oof (ctx : Ctx) (s : List Char) : parseVar ctx s ≠ .oof := by
  unfold parseVar
  split
  · simp
  · split <;> simp

theorem atomB_ne_oof {P F : List Char → R E} (ctx : Ctx) (s : List Char)
    (hP : P s ≠ .oof) (hF : F s ≠ .oof) : atomB P F ctx s ≠ .oof := by
  unfold atomB
  split
  · simp
  · rename_i h; exact absurd h hP
  · split
    · simp
    · split
      · simp
      · rename_i h; exact absurd h hF
      · exact parseVar_ne_oof ctx s

theorem powB_ne_oof {T : List Char → R E} (rest : List Char) (base : E)
    (hT : ∀ r1, rest = '^' :: r1 → T r1 ≠ .oof) : powB T rest base ≠ .oof := by
  unfold powB
  split
  · rename_i r1
    split
    · simp
    · rename_i h; exact absurd h (hT r1 rfl)
    · simp
  · split <;> simp
  · simp

theorem powTermB_ne_oof {A : List Char → R E} {Pw : List Char → E → R E} (s : List Char)
    (hA : A s ≠ .oof) (hPw : ∀ rest base, A s = .ok rest base → Pw rest base ≠ .oof) :
    powTermB A Pw s ≠ .oof := by
  unfold powTermB
  split
  · simp
  · rename_i h; exact absurd h hA
  · rename_i rest base h; exact hPw rest base h

theorem termB_ne_oof {Q : List Char → R E} (s : List Char) (a : Bool)
    (hQ : Q (negCount s).2 ≠ .oof) : termB Q s a ≠ .oof := by
  unfold termB
  split
  · simp
  · split
    · split <;> simp
    · simp
    · rename_i h; exact absurd h hQ

theorem funcB_ne_oof {X : List Char → R E} (ctx : Ctx) (s : List Char)
    (hX : ∀ name r1, alpha1 s = some (name, '(' :: r1) → X r1 ≠ .oof) : funcB X ctx s ≠ .oof := by
  unfold funcB
  split
  · simp
  · rename_i name r ha
    unfold funcNamed
    split
    · unfold funcArg
      split
      · rename_i r1
        have := hX name r1 ha
        unfold funcClose
        split
        · simp
        · simp
        · simp
        · rename_i h; exact absurd h this
      · simp
    · simp

/-! ### termination -/

/-- `6 * s.length + k` units of fuel suffice, `k` depending on the entry point -/
theorem fuel_all (ctx : Ctx) : ∀ f : Nat,
    (∀ s, 6 * s.length + 10 ≤ f → parseExpr f ctx s ≠ .oof) ∧
    (∀ s a, 6 * s.length + 9 ≤ f → loopAdd f ctx s a ≠ .oof) ∧
    (∀ s a, 6 * s.length + 9 ≤ f → parseMul f ctx s a ≠ .oof) ∧
    (∀ s a, 6 * s.length + 8 ≤ f → loopMul f ctx s a ≠ .oof) ∧
    (∀ s a, 6 * s.length + 8 ≤ f → parseTerm f ctx s a ≠ .oof) ∧
    (∀ s, 6 * s.length + 7 ≤ f → parseParenth f ctx s ≠ .oof) ∧
    (∀ s, 6 * s.length + 7 ≤ f → parseFunc f ctx s ≠ .oof) := by
  intro f
  induction f with
  | zero =>
    refine ⟨?_, ?_, ?_, ?_, ?_, ?_, ?_⟩ <;> intros <;> omega
  | succ f ih =>
    obtain ⟨iE, iLA, iM, iLM, iT, iP, iF⟩ := ih
    obtain ⟨cE, cLA, cM, cLM, cT, cP, cF⟩ := consumes_all ctx f
    refine ⟨?_, ?_, ?_, ?_, ?_, ?_, ?_⟩
    · intro s hf
      rw [parseExpr_succ]
      split
      · rename_i r0 t0 hm
        have := cM true _ _ _ hm
        exact iLA _ _ (by omega)
      · simp
      · rename_i h; exact absurd h (iM _ _ (by omega))
    · intro s acc hf
      rcases head_cases '+' '-' s with ⟨rest, rfl⟩ | ⟨rest, rfl⟩ | ⟨h1, h2⟩
      · rw [loopAdd_plus]
        simp at hf
        split
        · rename_i r0 t0 hm
          have := cM false _ _ _ hm
          exact iLA _ _ (by omega)
        · simp
        · rename_i h; exact absurd h (iM _ _ (by omega))
      · rw [loopAdd_minus]
        simp at hf
        split
        · rename_i r0 t0 hm
          have := cM false _ _ _ hm
          exact iLA _ _ (by omega)
        · simp
        · rename_i h; exact absurd h (iM _ _ (by omega))
      · rw [loopAdd_stop _ _ _ _ h1 h2]; simp
    · intro s a hf
      rw [parseMul_succ]
      split
      · rename_i r0 t0 hm
        have := cT a _ _ _ hm
        exact iLM _ _ (by omega)
      · simp
      · rename_i h; exact absurd h (iT _ _ (by omega))
    · intro s acc hf
      rcases head_cases '*' '/' s with ⟨rest, rfl⟩ | ⟨rest, rfl⟩ | ⟨h1, h2⟩
      · rw [loopMul_star]
        simp at hf
        split
        · rename_i r0 t0 hm
          have := cT true _ _ _ hm
          exact iLM _ _ (by omega)
        · simp
        · rename_i h; exact absurd h (iT _ _ (by omega))
      · rw [loopMul_slash]
        simp at hf
        split
        · rename_i r0 t0 hm
          have := cT true _ _ _ hm
          exact iLM _ _ (by omega)
        · simp
        · rename_i h; exact absurd h (iT _ _ (by omega))
      · rw [loopMul_stop _ _ _ _ h1 h2]; simp
    · intro s a hf
      rw [parseTerm_succ]
      apply termB_ne_oof
      have hn := negCount_length s
      apply powTermB_ne_oof
      · exact atomB_ne_oof ctx _ (iP _ (by omega)) (iF _ (by omega))
      · intro rest base ha
        have := atomB_consumes ctx cP cF _ _ _ ha
        apply powB_ne_oof
        intro r1 hr
        subst hr
        simp at this
        exact iT _ _ (by omega)
    · intro s hf
      rcases head_case '(' s with ⟨r0, rfl⟩ | h1
      · rw [parseParenth_open]
        simp at hf
        have := iE r0 (by omega)
        split
        · simp
        · simp
        · simp
        · rename_i h; exact absurd h this
      · rw [parseParenth_other _ _ _ h1]; simp
    · intro s hf
      rw [parseFunc_succ']
      apply funcB_ne_oof
      intro name r1 ha
      have := alpha1_length ha
      simp at this
      exact iE _ (by omega)

end Cav.ParseLemmas
