/-
  Output of the sweep on general valid input, part 2: the SHAPE of a back-chain (pure geometry of
  rational points, no heap).

  A back-chain, read from its head (the left end of the lower edge of its in-interval) to its tail
  (the left end of the upper edge), is `X.reverse ++ m :: Y`: `m` is the rightmost node, the
  abscissae decrease strictly from `m` along `X` down to the head and along `Y` up to the tail;
  neither part has a clockwise (convex) corner; the points of `m :: X` but the head lie strictly
  above the lower edge, those of `m :: Y` but the tail strictly below the upper edge (`Shape`).

  `fan_view`: a new point `u` to the right of the chain, joined to the end of the near part by an
  edge, sees the whole near part and `m`; the maximal fan then stops somewhere in the far part and
  the new chain `u :: g :: rest` has the shape again.  `fan_full`: if `u` is also joined to the end
  of the far part (closing End) it sees everything.  Area and number of the triangles of a fan.
-/
import Cav.Lemmas.MonoInv

set_option linter.unusedVariables false
set_option linter.unusedSimpArgs false

namespace Cav.GenOutShape
open Cav Cav.Geo Cav.Sweep Cav.QuadGeom Cav.CvxEvents Cav.CvxGeom Cav.CvxLoop Cav.MonoGeom Cav.MonoFan
open Cav.MonoHeap Cav.MonoInv

theorem Fq_inj {a b : Q} (h : Fq a = Fq b) : a = b := by
  obtain ⟨a1, a2⟩ := a
  obtain ⟨b1, b2⟩ := b
  simp only [Fq, F, Pt.mk.injEq, XQ.fin.injEq] at h
  exact Prod.ext h.1 h.2

/-! ### lists -/

theorem fanQ_join {σ : Rat} {u : Q} : ∀ (a : List Q) (z : Q) (b : List Q),
    FanQ σ u (a ++ [z]) → FanQ σ u (z :: b) → FanQ σ u (a ++ z :: b)
  | [], _, _, _, h2 => h2
  | [_], _, _, h1, h2 => ⟨h1.1, h2⟩
  | _ :: y :: a, z, b, h1, h2 => ⟨h1.1, fanQ_join (y :: a) z b h1.2 h2⟩

theorem mem_dropLast_suffix {β : Type} {l dr s : List β} (h : l = dr ++ s) (hs : s ≠ []) {q : β}
    (hq : q ∈ s.dropLast) : q ∈ l.dropLast := by
  rw [h, List.dropLast_append_of_ne_nil hs]
  exact List.mem_append_right _ hq

theorem getLast?_suffix {β : Type} {l dr : List β} {g : β} {rest : List β} (h : l = dr ++ g :: rest) :
    l.getLast? = (g :: rest).getLast? := by
  rw [h, List.getLast?_append]
  cases hh : (g :: rest).getLast? with
  | none => simp at hh
  | some z => rfl

/-! ### visibility -/

theorem orient_rot1 (a b c : Q) : orient a b c = - orient b a c := by unfold orient; ring
theorem orient_rot2 (a b c : Q) : orient a b c = orient c a b := by unfold orient; ring

/-- the apex `u`, joined by an edge to the end `e0` of the near part, sees the near part and `m` -/
theorem reach (σ : Rat) (u m : Q) (nr : List Q) (e0 : Q)
    (hx : XDec (m :: nr)) (hn : NoTurn (-σ) (m :: nr)) (hu : m.1 < u.1)
    (he0 : (m :: nr).getLast? = some e0)
    (hside : ∀ q ∈ (m :: nr).dropLast, 0 < σ * orient e0 u q) :
    FanQ σ u (nr.reverse ++ [m]) := by
  have hrev : (m :: nr).reverse = nr.reverse ++ [m] := by simp
  rw [← hrev]
  apply fan_first σ u _ (XDec.reverse hx)
  · have := NoTurn.reverse hn
    rwa [neg_neg] at this
  · intro q hq
    have hq' : q ∈ m :: nr := List.mem_reverse.mp hq
    exact lt_of_le_of_lt (XDec.le_head hx q hq') hu
  · intro c0 c1 r hc
    have e : m :: nr = r.reverse ++ [c1, c0] := by
      have := congrArg List.reverse hc
      simpa using this
    have h0 : c0 = e0 := by
      rw [e] at he0
      simpa using he0
    have h1 : c1 ∈ (m :: nr).dropLast := by
      rw [e]
      have : r.reverse ++ [c1, c0] = (r.reverse ++ [c1]) ++ [c0] := by simp
      rw [this, List.dropLast_concat]
      simp
    have := hside c1 h1
    rw [← h0] at this
    have e2 : orient u c0 c1 = - orient c0 u c1 := orient_rot1 u c0 c1
    rw [e2]
    linarith

/-- the maximal fan from an apex to the right of a chain in the view `nr.reverse ++ m :: fr` -/
theorem fan_view (σ : Rat) (u : Q) (nr : List (Nat × Q)) (m : Nat × Q) (fr : List (Nat × Q)) (e0 : Q)
    (hxn : XDec ((m :: nr).map Prod.snd)) (hxf : XDec ((m :: fr).map Prod.snd))
    (hnn : NoTurn (-σ) ((m :: nr).map Prod.snd)) (hnf : NoTurn σ ((m :: fr).map Prod.snd))
    (hu : m.2.1 < u.1) (he0 : ((m :: nr).map Prod.snd).getLast? = some e0)
    (hside : ∀ q ∈ ((m :: nr).map Prod.snd).dropLast, 0 < σ * orient e0 u q) :
    ∃ dr g rest, m :: fr = dr ++ g :: rest ∧
      FanQ σ u ((nr.reverse ++ dr ++ [g]).map Prod.snd) ∧
      (∀ h r, rest = h :: r → ¬ σ * orient u g.2 h.2 < 0) ∧
      XDec (u :: (g :: rest).map Prod.snd) ∧ NoTurn σ (u :: (g :: rest).map Prod.snd) := by
  obtain ⟨dr, g, rest, hs, hf, hstop⟩ := fanQ_split σ u (m :: fr) (by simp)
  refine ⟨dr, g, rest, hs, ?_, hstop, ?_, ?_⟩
  · have hr := reach σ u m.2 (nr.map Prod.snd) e0 (by simpa using hxn) (by simpa using hnn) hu
      (by simpa using he0) (by simpa using hside)
    obtain ⟨b, hb⟩ : ∃ b, (dr ++ [g]).map Prod.snd = m.2 :: b := by
      cases dr with
      | nil =>
        simp only [List.nil_append, List.cons.injEq] at hs
        exact ⟨[], by rw [← hs.1]; rfl⟩
      | cons d dr' =>
        simp only [List.cons_append, List.cons.injEq] at hs
        exact ⟨(dr' ++ [g]).map Prod.snd, by rw [← hs.1]; rfl⟩
    have e : (nr.reverse ++ dr ++ [g]).map Prod.snd = (nr.map Prod.snd).reverse ++ m.2 :: b := by
      rw [List.append_assoc, List.map_append, hb, List.map_reverse]
    rw [e]
    exact fanQ_join _ _ _ hr (by rw [← hb]; exact hf)
  · have hgm : g ∈ m :: fr := by rw [hs]; simp
    have hle := XDec.le_head (a := m.2) (r := fr.map Prod.snd) (by simpa using hxf) g.2
      (by
        rcases List.mem_cons.mp hgm with h | h
        · rw [h]; exact List.mem_cons_self
        · exact List.mem_cons_of_mem _ (List.mem_map_of_mem h))
    have hsuf : XDec ((g :: rest).map Prod.snd) := by
      have := hxf
      rw [hs, List.map_append] at this
      exact XDec.suffix this
    exact ⟨lt_of_le_of_lt hle hu, hsuf⟩
  · have hsuf : NoTurn σ ((g :: rest).map Prod.snd) := by
      have := hnf
      rw [hs, List.map_append] at this
      exact NoTurn.suffix this
    cases rest with
    | nil => trivial
    | cons h r => exact ⟨hstop h r rfl, hsuf⟩

/-- an apex joined to both ends of the chain sees everything -/
theorem fan_full (σ : Rat) (u : Q) (nr : List (Nat × Q)) (m : Nat × Q) (fr : List (Nat × Q)) (e0 e1 : Q)
    (hxn : XDec ((m :: nr).map Prod.snd)) (hxf : XDec ((m :: fr).map Prod.snd))
    (hnn : NoTurn (-σ) ((m :: nr).map Prod.snd)) (hnf : NoTurn σ ((m :: fr).map Prod.snd))
    (hu : m.2.1 < u.1) (he0 : ((m :: nr).map Prod.snd).getLast? = some e0)
    (hside : ∀ q ∈ ((m :: nr).map Prod.snd).dropLast, 0 < σ * orient e0 u q)
    (he1 : ((m :: fr).map Prod.snd).getLast? = some e1)
    (hside1 : ∀ q ∈ ((m :: fr).map Prod.snd).dropLast, 0 < -σ * orient e1 u q) :
    FanQ σ u ((nr.reverse ++ m :: fr).map Prod.snd) := by
  have hr := reach σ u m.2 (nr.map Prod.snd) e0 (by simpa using hxn) (by simpa using hnn) hu
    (by simpa using he0) (by simpa using hside)
  have hl : FanQ σ u ((m :: fr).map Prod.snd) := by
    apply fan_last σ u _ hxf hnf
    · intro q hq
      exact lt_of_le_of_lt (XDec.le_head (a := m.2) (r := fr.map Prod.snd) (by simpa using hxf) q
        (by simpa using hq)) hu
    · intro pre y z hc
      have h0 : z = e1 := by
        rw [hc] at he1
        simpa using he1
      have h1 : y ∈ ((m :: fr).map Prod.snd).dropLast := by
        rw [hc]
        have : pre ++ [y, z] = (pre ++ [y]) ++ [z] := by simp
        rw [this, List.dropLast_concat]
        simp
      have := hside1 y h1
      rw [← h0] at this
      have e2 : orient u y z = orient z u y := orient_rot2 u y z
      rw [e2]
      linarith
  have e : (nr.reverse ++ m :: fr).map Prod.snd = (nr.map Prod.snd).reverse ++ m.2 :: fr.map Prod.snd := by
    rw [List.map_append, List.map_reverse, List.map_cons]
  rw [e]
  exact fanQ_join _ _ _ hr (by simpa using hl)

/-! ### the triangles of a fan -/

theorem trisF_acct (u : Q) : ∀ (pts : List Q), FanQ 1 u pts →
    areaSum (trisF (Fq u) (pts.map Fq)) = - orientSum u pts ∧
      (trisF (Fq u) (pts.map Fq)).length + 1 = max pts.length 1
  | [], _ => by simp [trisF, areaSum, orientSum]
  | [_], _ => by simp [trisF, areaSum, orientSum]
  | q0 :: q1 :: r, h => by
    obtain ⟨ih2, ih3⟩ := trisF_acct u (q1 :: r) h.2
    have hneg : orient u q0 q1 < 0 := by have := h.1; linarith
    have ha : triArea (sort3 (Fq u) (Fq q0) (Fq q1)) = - orient u q0 q1 := by
      rw [triArea_sort3, abs_of_neg hneg]
    simp only [List.map_cons, trisF] at ih2 ih3 ⊢
    refine ⟨?_, ?_⟩
    · rw [areaSum_append, ih2]
      simp only [areaSum, List.map_cons, List.map_nil, List.sum_cons, List.sum_nil, ha, orientSum]
      ring
    · simp only [List.length_append, List.length_cons, List.length_nil] at ih3 ⊢
      omega

theorem trisB_acct (u : Q) : ∀ (pts : List Q), FanQ (-1) u pts →
    areaSum (trisB (Fq u) (pts.map Fq)) = orientSum u pts ∧
      (trisB (Fq u) (pts.map Fq)).length + 1 = max pts.length 1
  | [], _ => by simp [trisB, areaSum, orientSum]
  | [_], _ => by simp [trisB, areaSum, orientSum]
  | q0 :: q1 :: r, h => by
    obtain ⟨ih2, ih3⟩ := trisB_acct u (q1 :: r) h.2
    have hpos : 0 < orient u q0 q1 := by have := h.1; linarith
    have e : orient q1 q0 u = - orient u q0 q1 := by unfold orient; ring
    have ha : triArea (sort3 (Fq q1) (Fq q0) (Fq u)) = orient u q0 q1 := by
      rw [triArea_sort3, e, abs_neg, abs_of_pos hpos]
    simp only [List.map_cons, trisB] at ih2 ih3 ⊢
    refine ⟨?_, ?_⟩
    · rw [areaSum_append, ih2]
      simp only [areaSum, List.map_cons, List.map_nil, List.sum_cons, List.sum_nil, ha, orientSum]
      ring
    · simp only [List.length_append, List.length_cons, List.length_nil] at ih3 ⊢
      omega


/-- the triangles of a fan have positive area -/
theorem trisF_pos_q (u : Q) : ∀ (pts : List Q), FanQ 1 u pts →
    ∀ tr ∈ trisF (Fq u) (pts.map Fq), 0 < triArea tr
  | [], _ => by simp [trisF]
  | [_], _ => by simp [trisF]
  | q0 :: q1 :: r, h => by
    intro tr htr
    simp only [List.map_cons, trisF] at htr
    rcases List.mem_append.mp htr with htr | htr
    · exact trisF_pos_q u (q1 :: r) h.2 tr (by simpa using htr)
    · simp only [List.mem_singleton] at htr
      subst htr
      have hneg : orient u q0 q1 < 0 := by have := h.1; linarith
      rw [triArea_sort3, abs_of_neg hneg]; linarith

theorem trisB_pos_q (u : Q) : ∀ (pts : List Q), FanQ (-1) u pts →
    ∀ tr ∈ trisB (Fq u) (pts.map Fq), 0 < triArea tr
  | [], _ => by simp [trisB]
  | [_], _ => by simp [trisB]
  | q0 :: q1 :: r, h => by
    intro tr htr
    simp only [List.map_cons, trisB] at htr
    rcases List.mem_append.mp htr with htr | htr
    · exact trisB_pos_q u (q1 :: r) h.2 tr (by simpa using htr)
    · simp only [List.mem_singleton] at htr
      subst htr
      have hpos : 0 < orient u q0 q1 := by have := h.1; linarith
      have e : orient q1 q0 u = - orient u q0 q1 := by unfold orient; ring
      rw [triArea_sort3, e, abs_neg, abs_of_pos hpos]; exact hpos

/-- the path through the apex before and after the fan has been cut -/
theorem view_acct (u : Q) (mid : List Q) (g : Q) (rest : List Q) :
    pathSum (u :: (mid ++ g :: rest)) = orientSum u (mid ++ [g]) + pathSum (u :: g :: rest) := by
  cases mid with
  | nil => simp [pathSum, orientSum]
  | cons q0 mid' =>
    have h1 := orientSum_eq u q0 (mid' ++ [g])
    rw [lastQ_append] at h1
    have h2 := pathSum_append (q0 :: mid') g rest
    simp only [List.cons_append] at h1 h2 ⊢
    simp only [pathSum] at h2 ⊢
    rw [h1]
    have h3 : pathSum (q0 :: (mid' ++ g :: rest)) = pathSum (q0 :: (mid' ++ [g])) + pathSum (g :: rest) := h2
    rw [h3, cross_swap g u]
    ring

/-! ### the ghost description of a back-chain -/

/-- rightmost node `m`, the nodes `X` from `m` (excluded) down to the head, the nodes `Y` from `m`
    (excluded) up to the tail -/
structure CH where
  X : List (Nat × Q)
  m : Nat × Q
  Y : List (Nat × Q)

/-- the chain from the head to the tail -/
def CH.l (c : CH) : List (Nat × Q) := c.X.reverse ++ c.m :: c.Y
/-- from the rightmost node down to the head -/
def CH.dn (c : CH) : List (Nat × Q) := c.m :: c.X
/-- from the rightmost node up to the tail -/
def CH.up (c : CH) : List (Nat × Q) := c.m :: c.Y
/-- last element of `a :: l` -/
def lastD {β : Type} : β → List β → β
  | a, [] => a
  | _, b :: r => lastD b r

theorem getLast?_cons_lastD {β : Type} : ∀ (a : β) (l : List β), (a :: l).getLast? = some (lastD a l)
  | _, [] => rfl
  | a, b :: r => by rw [List.getLast?_cons_cons]; exact getLast?_cons_lastD b r

def CH.hd (c : CH) : Nat × Q := lastD c.m c.X
def CH.tl (c : CH) : Nat × Q := lastD c.m c.Y

theorem CH.l_ne (c : CH) : c.l ≠ [] := by simp [CH.l]

theorem CH.l_rev (c : CH) : c.l.reverse = c.Y.reverse ++ c.m :: c.X := by simp [CH.l]

theorem CH.dn_last (c : CH) : c.dn.getLast? = some c.hd := getLast?_cons_lastD _ _

theorem CH.up_last (c : CH) : c.up.getLast? = some c.tl := getLast?_cons_lastD _ _

theorem CH.head_l (c : CH) : c.l.head? = some c.hd := by
  have e : c.l = (c.m :: c.X).reverse ++ c.Y := by simp [CH.l]
  rw [e, List.head?_append, List.head?_reverse, getLast?_cons_lastD]
  rfl

theorem CH.last_l (c : CH) : c.l.getLast? = some c.tl := by
  unfold CH.l
  rw [List.getLast?_append, getLast?_cons_lastD]
  rfl

/-- the shape of a back-chain at the sweep abscissa `xs` between the lower edge `lo1 → lo2` and
    the upper edge `hi1 → hi2` -/
structure Shape (c : CH) (xs : Rat) (lo1 lo2 hi1 hi2 : Q) : Prop where
  xdX : XDec (c.dn.map Prod.snd)
  xdY : XDec (c.up.map Prod.snd)
  ntX : NoTurn (-1) (c.dn.map Prod.snd)
  ntY : NoTurn 1 (c.up.map Prod.snd)
  mx : c.m.2.1 ≤ xs
  aboveLo : ∀ q ∈ (c.dn.map Prod.snd).dropLast, 0 < orient lo1 lo2 q
  belowHi : ∀ q ∈ (c.up.map Prod.snd).dropLast, orient hi1 hi2 q < 0

theorem Shape.mono {c : CH} {xs xs' : Rat} {lo1 lo2 hi1 hi2 : Q} (h : Shape c xs lo1 lo2 hi1 hi2)
    (hx : xs ≤ xs') : Shape c xs' lo1 lo2 hi1 hi2 :=
  ⟨h.xdX, h.xdY, h.ntX, h.ntY, le_trans h.mx hx, h.aboveLo, h.belowHi⟩

/-- every point of the chain lies at or left of the rightmost one -/
theorem Shape.x_le {c : CH} {xs : Rat} {lo1 lo2 hi1 hi2 : Q} (h : Shape c xs lo1 lo2 hi1 hi2) :
    ∀ q ∈ c.l, q.2.1 ≤ c.m.2.1 := by
  intro q hq
  unfold CH.l at hq
  rcases List.mem_append.mp hq with hq | hq
  · have hq' : q ∈ c.dn := List.mem_cons_of_mem _ (List.mem_reverse.mp hq)
    exact XDec.le_head (a := c.m.2) (r := c.X.map Prod.snd) (by simpa [CH.dn] using h.xdX) q.2
      (by simpa [CH.dn] using List.mem_map_of_mem (f := Prod.snd) hq')
  · exact XDec.le_head (a := c.m.2) (r := c.Y.map Prod.snd) (by simpa [CH.up] using h.xdY) q.2
      (by simpa [CH.up] using List.mem_map_of_mem (f := Prod.snd) hq)

/-- the shape of a one-point chain -/
theorem shape_single (n : Nat) (p : Q) (xs : Rat) (hp : p.1 ≤ xs) (lo1 lo2 hi1 hi2 : Q) :
    Shape ⟨[], (n, p), []⟩ xs lo1 lo2 hi1 hi2 :=
  ⟨trivial, trivial, trivial, trivial, hp, by simp [CH.dn], by simp [CH.up]⟩

end Cav.GenOutShape
