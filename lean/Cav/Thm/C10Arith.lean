/-
  C10 (arithmetic part) — facts about the reported status/estimate that need laws of arithmetic.

  Part 1 (`Rat`, exact arithmetic, instance `instNumRat`): the estimates returned by the nested,
  2-D and triangle routines are non-negative and below the tolerance.
  Part 2 (`XQ` = ℚ ∪ {±∞, NaN} with IEEE special-value rules, instance `instNumXQ`): NaN honesty —
  a NaN sample can never be reported as success.

  Model path used: `nested`, `gkApprox2`, `gk2dLoop`, `gk2d`, `gkTriangle`, `gk1d`, `gk1dLoop`,
  `gkApprox`, `symRule`, `unitRule`, `setInsert`, `setRemove`, `panelCmp`, `ofMax`; `Num`
  operations used: `+ - * /`, `ofNat`, `lt`, `le`, `beq`, `isNaN`, `abs`.
-/
import Cav.Model.Quad
import Cav.Inst.Rat
import Cav.Inst.XQ
import Cav.Thm.C10
import Cav.Thm.C01
import Cav.Lemmas.Quad2D
import Cav.Lemmas.XQLaws

namespace Cav.C10
open Cav Num Cav.Quad2D

/-! ## Part 1 — exact arithmetic (`Rat`) -/

/-- **the nested estimate is non-negative**, for every integrand, outer bounds in EITHER order
    (also coincident), every inner-bound function, tolerance, budget, and every rule list with
    non-negative weights: the accumulated inner estimates are `≥ 0`
    (`C01.gk1d_ok_estimate`, and `(0,0)` for coincident inner bounds) and the model multiplies
    them by `|(b−a)/2|`. -/
theorem nested_err_nonneg (f : Rat → Rat → Rat) (a b : Rat) (innerAB : Rat → Rat × Rat)
    (tol : Rat) (mi : Option Nat) (rule : List (Rat × Rat)) (hw : ∀ nw ∈ rule, 0 ≤ nw.2)
    (v e : Rat) (h : (nested f a b innerAB tol mi rule).res = .ok (v, e)) : 0 ≤ e := by
  obtain ⟨_, _, he⟩ := (nested_res_ok_iff f a b innerAB tol mi rule v e).mp h
  rw [he]
  exact mul_nonneg (abs_nonneg _)
    (unitRule_nonneg _ rule hw (innerVal_snd_nonneg f a b innerAB tol mi))

/-- … in particular for the 10-point rule of the source -/
theorem nested_err_nonneg_g10 (f : Rat → Rat → Rat) (a b : Rat) (innerAB : Rat → Rat × Rat)
    (tol : Rat) (mi : Option Nat) (v e : Rat)
    (h : (nested f a b innerAB tol mi Gen.g10).res = .ok (v, e)) : 0 ≤ e :=
  nested_err_nonneg f a b innerAB tol mi _ g10_weights_nonneg v e h

/-- … and the 21-point rule of the source -/
theorem nested_err_nonneg_k21 (f : Rat → Rat → Rat) (a b : Rat) (innerAB : Rat → Rat × Rat)
    (tol : Rat) (mi : Option Nat) (v e : Rat)
    (h : (nested f a b innerAB tol mi Gen.k21).res = .ok (v, e)) : 0 ≤ e :=
  nested_err_nonneg f a b innerAB tol mi _ k21_weights_nonneg v e h

/-- the estimate of one 2-D panel, `|G10 − K21| + max(e_G10, e_K21)`, is non-negative -/
theorem gkApprox2_err_nonneg (f : Rat → Rat → Rat) (innerAB : Rat → Rat × Rat) (tol : Rat)
    (mi : Option Nat) (a b v e : Rat) (h : (gkApprox2 f innerAB tol mi a b).1 = .ok (v, e)) :
    0 ≤ e := by
  obtain ⟨li, ki, hl, _, _, he⟩ := (gkApprox2_ok_iff f innerAB tol mi a b v e).mp h
  have h1 : 0 ≤ li.2 := nested_err_nonneg_g10 f a b innerAB (tol / 2) mi li.1 li.2 hl
  rw [he]
  exact add_nonneg (abs_nonneg _) (le_trans h1 (le_max_left _ _))

/-- the estimate of a successful 2-D run is non-negative (all outer bounds, also coincident) -/
theorem gk2d_ok_err_nonneg (f : Rat → Rat → Rat) (a b : Rat) (innerAB : Rat → Rat × Rat)
    (tol : Rat) (mi : Option Nat) (v e : Rat)
    (h : (gk2d f a b innerAB tol mi).res = .ok (v, e)) : 0 ≤ e := by
  by_cases hab : a = b
  · have hb : Num.beq a b = true := decide_eq_true hab
    simp only [gk2d, hb, if_true, Except.ok.injEq, Prod.mk.injEq] at h
    rw [← h.2, QuadTiling.zero_eq]
  · obtain ⟨L, _, _, hok, _, he, _⟩ := gk2d_ok_tiling f a b innerAB tol mi v e hab h
    rw [he]
    apply List.sum_nonneg
    intro x hx
    obtain ⟨p, hp, rfl⟩ := List.mem_map.mp hx
    exact gkApprox2_err_nonneg f innerAB tol mi p.1 p.2 _ _ (hok p hp)

/-- **a successful 2-D run's estimate is below the tolerance and non-negative** (distinct outer
    bounds in either order; for coincident bounds the result is `(0,0)`, so the clause `e < tol`
    then holds iff `0 < tol`) -/
theorem gk2d_ok_estimate (f : Rat → Rat → Rat) (a b : Rat) (innerAB : Rat → Rat × Rat)
    (tol : Rat) (mi : Option Nat) (v e : Rat) (hab : a ≠ b ∨ 0 < tol)
    (h : (gk2d f a b innerAB tol mi).res = .ok (v, e)) : e < tol ∧ 0 ≤ e := by
  refine ⟨?_, gk2d_ok_err_nonneg f a b innerAB tol mi v e h⟩
  rcases gk2d_ok_honest f a b innerAB tol mi v e h with ⟨hb, _, he⟩ | ⟨_, hl⟩
  · rcases hab with hab | htol
    · exact absurd (of_decide_eq_true hb) hab
    · rw [he, QuadTiling.zero_eq]; exact htol
  · exact of_decide_eq_true hl

/-- **triangle form**: the outer bounds are `0` and `1`, so no side condition is left -/
theorem gkTriangle_ok_estimate (f : Rat → Rat → Rat) (t : (Rat × Rat) × (Rat × Rat) × (Rat × Rat))
    (tol : Rat) (mi : Option Nat) (v e : Rat)
    (h : (gkTriangle f t tol mi).res = .ok (v, e)) : e < tol ∧ 0 ≤ e :=
  gk2d_ok_estimate _ _ _ _ tol mi v e
    (Or.inl (by simp [Num.zero, Num.one, Num.ofNat])) h

/-! ### non-vacuity of Part 1 (kernel evaluation of the model, `decide +kernel`) -/

/-- `f(x,y) = x + y` -/
def fxy : Rat → Rat → Rat := fun x y => x + y
/-- inner bounds `[0,1]` for every outer abscissa: the unit square -/
def unitSq : Rat → Rat × Rat := fun _ => (0, 1)

theorem fxy_nested_res : (nested fxy 0 1 unitSq (1/10) (some 2) Gen.g10).res =
    .ok (41538374868278620956186376595832825 / 41538374868278621028243970633760768,
      1080863910568919025 / 41538374868278621028243970633760768) := by
  decide +kernel

/-- reversed outer bounds: the estimate is still non-negative (`|(b−a)/2|` in the model) -/
theorem fxy_nested_res_rev : (nested fxy 1 0 unitSq (1/10) (some 2) Gen.g10).res =
    .ok (-41538374868278620956186376595832825 / 41538374868278621028243970633760768,
      1080863910568919025 / 41538374868278621028243970633760768) := by
  decide +kernel

example : (0 : Rat) ≤ 1080863910568919025 / 41538374868278621028243970633760768 :=
  nested_err_nonneg_g10 fxy 0 1 unitSq (1/10) (some 2) _ _ fxy_nested_res

example : (0 : Rat) ≤ 1080863910568919025 / 41538374868278621028243970633760768 :=
  nested_err_nonneg_g10 fxy 1 0 unitSq (1/10) (some 2) _ _ fxy_nested_res_rev

/-- a 2-D run: `∫_0^1∫_0^1 (x+y) dy dx = 1`, tolerance `1/10`, budget 2 -/
theorem fxy_gk2d_res : (gk2d fxy 0 1 unitSq (1/10) (some 2)).res =
    .ok (332306998946228976296402297318015025 / 332306998946228968225951765070086144,
      8646911284551352425 / 166153499473114484112975882535043072) := by
  decide +kernel

example : (gkApprox2 fxy unitSq (1/10) (some 2) 0 1).1 =
    .ok (332306998946228976296402297318015025 / 332306998946228968225951765070086144,
      8646911284551352425 / 166153499473114484112975882535043072) := by
  decide +kernel

example : (8646911284551352425 / 166153499473114484112975882535043072 : Rat) < 1/10 ∧
    (0 : Rat) ≤ 8646911284551352425 / 166153499473114484112975882535043072 :=
  gk2d_ok_estimate fxy 0 1 unitSq (1/10) (some 2) _ _ (Or.inl (by decide)) fxy_gk2d_res

/-- a triangle run: `x + y` over the triangle `(0,0), (1,0), (0,1)` (exact value `1/3`) -/
theorem fxy_tri_res : (gkTriangle fxy ((0, 0), (1, 0), (0, 1)) (1/10) (some 2)).res =
    .ok (71893191112401707467349830750709226086671350857449045647209985196095 /
        215679573337205118357336120696157045389097155380324579848828881993728,
      1972091765646792830373830093394417826171817869755135 /
        107839786668602559178668060348078522694548577690162289924414440996864) := by
  decide +kernel

example : (1972091765646792830373830093394417826171817869755135 /
      107839786668602559178668060348078522694548577690162289924414440996864 : Rat) < 1/10 ∧
    (0 : Rat) ≤ 1972091765646792830373830093394417826171817869755135 /
      107839786668602559178668060348078522694548577690162289924414440996864 :=
  gkTriangle_ok_estimate fxy ((0, 0), (1, 0), (0, 1)) (1/10) (some 2) _ _ fxy_tri_res

/-! ## Part 2 — NaN honesty (`XQ`)

The special-value laws of the instance are proved in `Cav/Lemmas/XQLaws.lean`
(`isNaN_add`, `isNaN_sub`, `isNaN_mul`, `isNaN_div`, `isNaN_abs`, `isNaN_neg`, `lt_of_isNaN`,
`le_of_isNaN`, `beq_of_isNaN`); they are restated here for reference. -/

open Cav.XQLaws

/-- IEEE absorption: an arithmetic operation with a NaN argument is NaN -/
theorem xq_nan_absorbing (a b : XQ) (h : Num.isNaN a = true ∨ Num.isNaN b = true) :
    Num.isNaN (a + b) = true ∧ Num.isNaN (a - b) = true ∧ Num.isNaN (a * b) = true ∧
      Num.isNaN (a / b) = true :=
  ⟨isNaN_add h, isNaN_sub h, isNaN_mul h, isNaN_div h⟩

/-- `abs` and unary minus keep NaN-ness -/
theorem xq_nan_abs_neg (a : XQ) :
    Num.isNaN (Num.abs a) = Num.isNaN a ∧ Num.isNaN (-a) = Num.isNaN a :=
  ⟨isNaN_abs a, isNaN_neg a⟩

/-- every comparison with a NaN argument is false -/
theorem xq_nan_compare (a b : XQ) (h : Num.isNaN a = true ∨ Num.isNaN b = true) :
    Num.lt a b = false ∧ Num.le a b = false ∧ Num.beq a b = false :=
  ⟨lt_of_isNaN h, le_of_isNaN h, beq_of_isNaN h⟩

/-- **a NaN sample makes the rule value NaN** (every rule list): `f` NaN at one of the unit
    nodes the rule evaluates — `n0` when `n0 == 0`, else `−n`/`n` for a listed node -/
theorem unitRule_nan (f : XQ → XQ) (rule : List (XQ × XQ))
    (h : ∃ x ∈ unitNodes rule, Num.isNaN (f x) = true) : Num.isNaN (unitRule f rule) = true :=
  XQLaws.unitRule_nan f rule h

/-- **a NaN sample makes the panel's estimate NaN** -/
theorem gkApprox_nan (f : XQ → XQ) (a b : XQ)
    (h : ∃ x ∈ panelAbscissae a b, Num.isNaN (f x) = true) :
    Num.isNaN (gkApprox f a b).2 = true :=
  XQLaws.gkApprox_nan f a b h

/-- **NaN honesty, loop form** with the invariant explicit: from a state in which "some evaluated
    panel has a NaN estimate ⇒ `accu` is NaN", a run whose trace contains a panel with a NaN
    estimate never returns `ok` (it ends in `.error .nan`, or `.error .convergence` when the
    budget runs out first). -/
theorem gk1dLoop_nan_never_ok (f : XQ → XQ) (tol : XQ) (fuel : Nat) (accu : XQ)
    (set : List (Panel XQ)) (tr : List (XQ × XQ))
    (inv : (∃ p ∈ tr, Num.isNaN (gkApprox f p.1 p.2).2 = true) → Num.isNaN accu = true)
    (h : ∃ p ∈ (gk1dLoop f tol fuel accu set tr).panels, Num.isNaN (gkApprox f p.1 p.2).2 = true) :
    ∀ v e, (gk1dLoop f tol fuel accu set tr).res ≠ .ok (v, e) :=
  XQLaws.gk1dLoop_nan_never_ok f tol fuel accu set tr inv h

/-- **NaN honesty, 1-D** (every integrand, all bounds incl. ±∞/NaN with `a == b` false, every
    tolerance incl. `+∞`/NaN, every budget incl. `none`): if the integrand returned NaN at ANY
    abscissa of ANY panel the run evaluated, the run does not report success. -/
theorem gk1d_nan_never_ok (f : XQ → XQ) (a b tol : XQ) (mi : Option Nat)
    (hab : ¬ Num.beq a b = true)
    (h : ∃ p ∈ (gk1d f a b tol mi).panels, ∃ x ∈ panelAbscissae p.1 p.2, Num.isNaN (f x) = true) :
    ∀ v e, (gk1d f a b tol mi).res ≠ .ok (v, e) := by
  obtain ⟨p, hp, hx⟩ := h
  exact gk1d_nan_err_never_ok f a b tol mi (by simpa using hab)
    ⟨p, hp, XQLaws.gkApprox_nan f p.1 p.2 hx⟩

/-- for coincident bounds (`a == b`) the integrand is never sampled, so the premise is empty -/
theorem gk1d_eq_bounds_no_samples (f : XQ → XQ) (a b tol : XQ) (mi : Option Nat)
    (hab : Num.beq a b = true) : (gk1d f a b tol mi).panels = [] :=
  (gk1d_eq_bounds f a b tol mi hab).2

/-- **a successful 1-D result is finite**: value and estimate are finite rationals — for every
    integrand, all bounds, every tolerance (including `+∞`) and budget.  The clause "`ok (v,e)`
    ⇒ `v` is not NaN" therefore holds in `XQ` WITHOUT a finiteness hypothesis on `tol`:
    `e < tol` is false for `e = +∞` whatever `tol` is, an infinite panel estimate turns `accu`
    into `∞ − ∞ = NaN` when that panel is bisected, and a finite `|G10 − K21|` forces both rule
    values finite, so no `+∞ + −∞` can occur in the final sum. -/
theorem gk1d_ok_finite (f : XQ → XQ) (a b tol : XQ) (mi : Option Nat) (v e : XQ)
    (h : (gk1d f a b tol mi).res = .ok (v, e)) :
    Num.isFinite v = true ∧ Num.isFinite e = true := by
  obtain ⟨hv, he⟩ := XQLaws.gk1d_ok_finite f a b tol mi v e h
  exact ⟨(isFinite_iff v).mpr hv, (isFinite_iff e).mpr he⟩

theorem gk1d_ok_value_not_nan (f : XQ → XQ) (a b tol : XQ) (mi : Option Nat) (v e : XQ)
    (h : (gk1d f a b tol mi).res = .ok (v, e)) : Num.isNaN v = false ∧ Num.isNaN e = false := by
  obtain ⟨hv, he⟩ := XQLaws.gk1d_ok_finite f a b tol mi v e h
  exact ⟨hv.not_nan, he.not_nan⟩

/-! ### non-vacuity of Part 2 -/

/-- the constant-NaN integrand on `[0,1]`: the run ends with the NaN error after one panel -/
theorem nan_run : (gk1d (fun _ => XQ.nan) (.fin 0) (.fin 1) (.fin (1/10)) (some 3)).res =
      .error .nan ∧
    (gk1d (fun _ => XQ.nan) (.fin 0) (.fin 1) (.fin (1/10)) (some 3)).panels =
      [(.fin 0, .fin 1)] := by
  decide +kernel

/-- the hypotheses of `gk1d_nan_never_ok` hold for it -/
example : ∀ v e, (gk1d (fun _ => XQ.nan) (.fin 0) (.fin 1) (.fin (1/10)) (some 3)).res ≠ .ok (v, e) :=
  gk1d_nan_never_ok _ _ _ _ _ (by decide)
    ⟨(.fin 0, .fin 1), by rw [nan_run.2]; exact List.mem_singleton.mpr rfl,
      denorm (.fin 0) (.fin 1) (Gen.dy 0 0), by decide +kernel, rfl⟩

/-- NaN at a single abscissa (the midpoint `1/2` of the first panel) with an infinite tolerance:
    still no success -/
def nanAtHalf : XQ → XQ := fun x => if x = .fin (1/2) then .nan else .fin 1

theorem nanAtHalf_run :
    (gk1d nanAtHalf (.fin 0) (.fin 1) .pinf (some 3)).res = .error .nan ∧
    (gk1d nanAtHalf (.fin 0) (.fin 1) .pinf (some 3)).panels = [(.fin 0, .fin 1)] := by
  decide +kernel

example : ∀ v e, (gk1d nanAtHalf (.fin 0) (.fin 1) .pinf (some 3)).res ≠ .ok (v, e) :=
  gk1d_nan_never_ok _ _ _ _ _ (by decide)
    ⟨(.fin 0, .fin 1), by rw [nanAtHalf_run.2]; exact List.mem_singleton.mpr rfl,
      .fin (1/2), by decide +kernel, by decide +kernel⟩

/-- budget exhausted before the NaN is seen by the loop test: `.error .convergence`, not `ok` -/
example : (gk1d (fun _ => XQ.nan) (.fin 0) (.fin 1) (.fin (1/10)) (some 0)).res =
    .error .convergence := by decide +kernel

/-- a successful `XQ` run (the hypothesis of `gk1d_ok_finite` is satisfiable), tolerance `+∞` -/
theorem xq_ok_run : (gk1d (fun x : XQ => x * x) (.fin 0) (.fin 1) .pinf (some 3)).res =
    .ok (XQ.fin (62357403192785192623920599132391814836069332533239 /
        187072209578355573530071658587684226515959365500928),
      XQ.fin (1270896076164581617055055471783151 /
        187072209578355573530071658587684226515959365500928)) := by
  decide +kernel

example : Num.isFinite (XQ.fin (62357403192785192623920599132391814836069332533239 /
      187072209578355573530071658587684226515959365500928)) = true ∧
    Num.isFinite (XQ.fin (1270896076164581617055055471783151 /
      187072209578355573530071658587684226515959365500928)) = true :=
  gk1d_ok_finite _ _ _ _ _ _ _ xq_ok_run

/-- an integrand that overflows to `+∞` at one abscissa: the infinite estimate is never below any
    tolerance, and bisecting that panel gives `∞ − ∞ = NaN` -/
def infAtHalf : XQ → XQ := fun x => if x = .fin (1/2) then .pinf else .fin 1

example : (gk1d infAtHalf (.fin 0) (.fin 1) .pinf (some 3)).res = .error .nan := by
  decide +kernel

end Cav.C10
