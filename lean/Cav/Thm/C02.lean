/-
  C02 — the 1-D result is an exact tiling sum of the embedded 10/21 pair (exact arithmetic).

  Statements over `Rat` (the `instNumRat` instance of `Num`): what the program text of
  `gauss_kronrod_quadrature` computes when `+ - * /` are exact.  Rounding is modelled, not
  verified (DESIGN §1.2).

  Model path used: `gk1d`, `gk1dLoop`, `gkApprox`, `setInsert`, `setRemove`, `panelCmp`,
  `sumVals`; `Num` operations used: `+ - * /`, `ofNat`, `lt`, `beq`, `isNaN`, `abs`.
-/
import Cav.Model.Quad
import Cav.Inst.Rat
import Cav.Lemmas.QuadTiling

namespace Cav.C02
open Cav Num Cav.QuadTiling

/-- `L` is a chain of consecutive intervals from `a` to `b` -/
def IsChain : Rat → Rat → List (Rat × Rat) → Prop
  | _, _, [] => False
  | a, b, [p] => p.1 = a ∧ p.2 = b
  | a, b, p :: q :: rest => p.1 = a ∧ IsChain p.2 b (q :: rest)

/-- every piece runs strictly in the direction from `a` to `b` -/
def Directed (a b : Rat) (L : List (Rat × Rat)) : Prop :=
  ∀ p ∈ L, (a < b → p.1 < p.2) ∧ (b < a → p.2 < p.1)

/-- `IsChain` is the non-empty case of the helper notion `QuadTiling.Chain`. -/
theorem isChain_iff {a b : Rat} {L : List (Rat × Rat)} : IsChain a b L ↔ L ≠ [] ∧ Chain a b L := by
  induction L generalizing a with
  | nil => simp [IsChain]
  | cons p rest ih =>
    cases rest with
    | nil => simp [IsChain, Chain]
    | cons q rest' =>
      simp only [IsChain, Chain, ih, ne_eq, reduceCtorEq, not_false_eq_true, true_and]

/-- the sums in the statements are ordinary right-nested rational additions ending in `0` -/
example (x y : Rat) : [x, y].sum = x + (y + 0) := rfl

/-- for distinct bounds the routine is the loop started on the single panel `[a,b]` -/
theorem gk1d_of_ne (f : Rat → Rat) (a b tol : Rat) (mi : Option Nat) (hab : a ≠ b) :
    gk1d f a b tol mi =
      gk1dLoop f tol (mi.getD 18446744073709551615) (gkApprox f a b).2
        [⟨(gkApprox f a b).2, (gkApprox f a b).1, a, b⟩] [(a, b)] := by
  unfold gk1d
  have hb : Num.beq a b = false := by simp [Num.beq, hab]
  rw [if_neg (by rw [hb]; exact Bool.false_ne_true)]

/-- MAIN THEOREM: for every integrand `f : Rat → Rat` whatsoever, all bounds `a ≠ b` in either
    order, every tolerance and every budget (including `none`): a successful result is the sum
    of single-panel Kronrod-21 estimates over panels that tile `[a,b]` as a chain with no gap,
    overlap or repetition, and the returned error estimate is the sum of those panels'
    `|G10 − K21|` discrepancies; moreover every panel of the tiling is one on which the rule
    pair was actually evaluated (it occurs in the `panels` trace). -/
theorem gk1d_ok_is_tiling_sum (f : Rat → Rat) (a b tol : Rat) (mi : Option Nat) (v e : Rat)
    (hab : a ≠ b) (h : (gk1d f a b tol mi).res = .ok (v, e)) :
    ∃ L : List (Rat × Rat), IsChain a b L ∧ Directed a b L ∧
      v = (L.map (fun p => (gkApprox f p.1 p.2).1)).sum ∧
      e = (L.map (fun p => (gkApprox f p.1 p.2).2)).sum ∧
      ∀ p ∈ L, p ∈ (gk1d f a b tol mi).panels := by
  rw [gk1d_of_ne f a b tol mi hab] at h ⊢
  have hne : ∀ L, Chain a b L → L ≠ [] := by
    rintro L hc rfl; exact hab hc
  rcases lt_or_gt_of_ne hab with hlt | hgt
  · obtain ⟨L, hc, hd, hv, he, hp⟩ :=
      gk1dLoop_tiling dir_lt f tol a b _ _ _ _ v e (Inv.init f hlt) h
    exact ⟨L, isChain_iff.mpr ⟨hne L hc, hc⟩,
      fun p hp => ⟨fun _ => hd p hp, fun h' => absurd hlt (lt_asymm h')⟩, hv, he, hp⟩
  · obtain ⟨L, hc, hd, hv, he, hp⟩ :=
      gk1dLoop_tiling dir_gt f tol a b _ _ _ _ v e (Inv.init f (r := fun x y => y < x) hgt) h
    exact ⟨L, isChain_iff.mpr ⟨hne L hc, hc⟩,
      fun p hp => ⟨fun h' => absurd hgt (lt_asymm h'), fun _ => hd p hp⟩, hv, he, hp⟩

/-- every panel costs 31 integrand evaluations: 10 for G10 and 21 for K21 -/
theorem panelAbscissae_length (a b : Rat) : (panelAbscissae a b).length = 31 := by
  have h1 : Num.beq (Gen.dy 2681881670250813 54 : Rat) zero = false := by
    simp [Gen.dy, Num.beq, Num.zero, Num.ofNat]
  have h2 : Num.beq (Gen.dy 0 0 : Rat) zero = true := by
    simp [Gen.dy, Num.beq, Num.zero, Num.ofNat]
  simp [panelAbscissae, unitNodes, Gen.g10, Gen.k21, h1, h2]

/-- the trace only grows: the loop's output trace extends the trace it was given -/
theorem gk1dLoop_panels_prefix {α : Type} [Num α] (f : α → α) (tol : α) :
    ∀ (fuel : Nat) (accu : α) (set : List (Panel α)) (tr : List (α × α)),
      ∃ ext, (gk1dLoop f tol fuel accu set tr).panels = tr.reverse ++ ext := by
  intro fuel
  induction fuel with
  | zero => intro accu set tr; exact ⟨[], by simp [gk1dLoop]⟩
  | succ n ih =>
    intro accu set tr
    unfold gk1dLoop
    by_cases hn : Num.isNaN accu = true
    · exact ⟨[], by simp [hn]⟩
    · by_cases hl : Num.lt accu tol = true
      · exact ⟨[], by simp [hn, hl]⟩
      · have hn' : Num.isNaN accu = false := by simpa using hn
        have hl' : Num.lt accu tol = false := by simpa using hl
        simp only [hn', hl', Bool.false_eq_true, if_false]
        cases hs : set.getLast? with
        | none => exact ⟨[], by simp⟩
        | some iv =>
          simp only []
          by_cases hb : Num.bne iv.a iv.b = true
          · simp only [hb, if_true]
            obtain ⟨ext, he⟩ := ih (accu - iv.err + ((gkApprox f iv.a ((iv.a + iv.b) / two)).2 +
              (gkApprox f ((iv.a + iv.b) / two) iv.b).2))
              (setRemove iv
                (setInsert ⟨(gkApprox f ((iv.a + iv.b) / two) iv.b).2,
                    (gkApprox f ((iv.a + iv.b) / two) iv.b).1, (iv.a + iv.b) / two, iv.b⟩
                  (setInsert ⟨(gkApprox f iv.a ((iv.a + iv.b) / two)).2,
                    (gkApprox f iv.a ((iv.a + iv.b) / two)).1, iv.a, (iv.a + iv.b) / two⟩ set)))
              (((iv.a + iv.b) / two, iv.b) :: (iv.a, (iv.a + iv.b) / two) :: tr)
            exact ⟨(iv.a, (iv.a + iv.b) / two) :: ((iv.a + iv.b) / two, iv.b) :: ext, by rw [he]; simp⟩
          · have hb' : Num.bne iv.a iv.b = false := by simpa using hb
            simp only [hb', Bool.false_eq_true, if_false]
            exact ih _ _ _

/-- the trace starts with the whole interval -/
theorem gk1d_panels_head (f : Rat → Rat) (a b tol : Rat) (mi : Option Nat) (hab : a ≠ b) :
    (gk1d f a b tol mi).panels.head? = some (a, b) := by
  rw [gk1d_of_ne f a b tol mi hab]
  obtain ⟨ext, he⟩ := gk1dLoop_panels_prefix f tol (mi.getD 18446744073709551615)
    (gkApprox f a b).2 [⟨(gkApprox f a b).2, (gkApprox f a b).1, a, b⟩] [(a, b)]
  rw [he]; rfl

/-- an additive interval functional (e.g. an exact integral) sums over a chain to its value
    on `[a,b]` -/
theorem chain_additive (F : Rat → Rat → Rat) (hF : ∀ x y z, F x y + F y z = F x z) (a b : Rat)
    (L : List (Rat × Rat)) (h : IsChain a b L) : (L.map (fun p => F p.1 p.2)).sum = F a b := by
  induction L generalizing a with
  | nil => exact absurd h (by simp [IsChain])
  | cons p rest ih =>
    cases rest with
    | nil =>
      obtain ⟨h1, h2⟩ := h
      simp [h1, h2]
    | cons q rest' =>
      obtain ⟨h1, h2⟩ := h
      rw [List.map_cons, List.sum_cons, ih _ h2, h1]
      exact hF _ _ _

/-- a chain's pieces have total signed length `b − a` (so no gap / overlap in the additive
    sense) -/
theorem chain_length_sum (a b : Rat) (L : List (Rat × Rat)) (h : IsChain a b L) :
    (L.map (fun p => p.2 - p.1)).sum = b - a :=
  chain_additive (fun x y => y - x) (by intro x y z; ring) a b L h

/-! ### non-vacuity: a concrete successful run with two bisections

`f` is the step function `x ↦ if x < 1/3 then 0 else 1` on `[0,1]`, tolerance `1/100`,
budget 40.  The run evaluates the rule pair on five panels and succeeds with the tiling
`[0,1/4], [1/4,1/2], [1/2,1]`.  All facts are checked by kernel evaluation of the model
(`decide +kernel`: no compiler, no extra axioms). -/

/-- the step integrand of the example -/
def stepF : Rat → Rat := fun x => if x < 1/3 then 0 else 1

theorem stepF_run_res : (gk1d stepF 0 1 (1/100) (some 40)).res =
    .ok (3092849030280598587 / 4611686018427387904, 40187151860528771 / 4611686018427387904) := by
  decide +kernel

theorem stepF_run_panels : (gk1d stepF 0 1 (1/100) (some 40)).panels =
    [(0, 1), (0, 1/2), (1/2, 1), (0, 1/4), (1/4, 1/2)] := by
  decide +kernel

/-- the hypotheses of the main theorem are satisfiable, with a run that really bisects -/
example : ∃ v e : Rat, (0 : Rat) ≠ 1 ∧ (gk1d stepF 0 1 (1/100) (some 40)).res = .ok (v, e) ∧
    1 < (gk1d stepF 0 1 (1/100) (some 40)).panels.length :=
  ⟨_, _, by decide, stepF_run_res, by rw [stepF_run_panels]; decide⟩

/-- so the main theorem yields a tiling for it -/
example : ∃ L : List (Rat × Rat), IsChain 0 1 L ∧ Directed 0 1 L ∧
    (3092849030280598587 / 4611686018427387904 : Rat) =
      (L.map (fun p => (gkApprox stepF p.1 p.2).1)).sum ∧
    (40187151860528771 / 4611686018427387904 : Rat) =
      (L.map (fun p => (gkApprox stepF p.1 p.2).2)).sum ∧
    ∀ p ∈ L, p ∈ (gk1d stepF 0 1 (1/100) (some 40)).panels :=
  gk1d_ok_is_tiling_sum stepF 0 1 (1/100) (some 40) _ _ (by decide) stepF_run_res

/-- the 3-piece tiling of that run is a directed chain … -/
theorem example_tiling :
    IsChain 0 1 [(0, 1/4), (1/4, 1/2), (1/2, 1)] ∧
    Directed 0 1 [(0, 1/4), (1/4, 1/2), (1/2, 1)] := by
  refine ⟨by simp [IsChain], ?_⟩
  intro p hp
  simp only [List.mem_cons, List.not_mem_nil, or_false] at hp
  rcases hp with rfl | rfl | rfl <;> norm_num

/-- … and the returned value and error estimate are the sums over exactly these pieces -/
example :
    (3092849030280598587 / 4611686018427387904 : Rat) =
      ([((0 : Rat), (1/4 : Rat)), (1/4, 1/2), (1/2, 1)].map
        (fun p => (gkApprox stepF p.1 p.2).1)).sum ∧
    (40187151860528771 / 4611686018427387904 : Rat) =
      ([((0 : Rat), (1/4 : Rat)), (1/4, 1/2), (1/2, 1)].map
        (fun p => (gkApprox stepF p.1 p.2).2)).sum := by
  decide +kernel

/-- a right-to-left chain (bounds in decreasing order) -/
example : IsChain 1 0 [(1, 1/2), (1/2, 0)] ∧ Directed 1 0 [(1, 1/2), (1/2, 0)] := by
  refine ⟨by simp [IsChain], ?_⟩
  intro p hp
  simp only [List.mem_cons, List.not_mem_nil, or_false] at hp
  rcases hp with rfl | rfl <;> norm_num

/-- reversed bounds also run: the same integrand from 1 down to 0 -/
example : (gk1d stepF 1 0 (1/100) (some 40)).res.toBool = true ∧
    (gk1d stepF 1 0 (1/100) (some 40)).panels.head? = some (1, 0) := by
  decide +kernel

end Cav.C02
