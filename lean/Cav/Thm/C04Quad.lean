/-
  C04 (every valid polygon set is accepted) for a single SIMPLE QUADRILATERAL in general position
  (pairwise distinct abscissae): for any four rational points `a b c d` forming, in this cyclic
  order, a simple quadrilateral (`SimpleQuad`: no three collinear, opposite edges do not cross —
  orientation determinants only), in any input rotation and either orientation, the sweep model
  over `XQ` accepts the polygon, emits exactly two triangles, every ordered look-up of the run was
  order-consistent (`mono = true`), the corners of both triangles are input points, both are
  non-degenerate, and their absolute doubled areas add up to the absolute doubled shoelace area
  of the quadrilateral.  All handler paths of the model occur: Start/Bend/End (convex and
  non-convex shapes with the reflex vertex at a Bend), the improper Start with a back-chain split
  (reflex vertex pointing left), and the End that merges two back-chains (reflex vertex pointing
  right).

  Proof: the ten event chains (`Cav/Lemmas/QuadEvents{O,A,Z}.lean`, symbolic execution with the
  geometric tests as hypotheses), their geometric hypotheses from orientation signs
  (`QuadGeom.lean`, `QuadFlows.lean`), the sign analysis of simple quadrilaterals
  (`QuadCases.lean`), and here the 24 orders of the abscissae.
-/
import Cav.Lemmas.QuadCases

set_option linter.unusedSimpArgs false
set_option linter.unusedVariables false
set_option linter.unusedTactic false
set_option linter.unreachableTactic false

namespace Cav.C04Quad
open Cav Num Cav.Geo Cav.Sweep Cav.SweepSetup Cav.TriRun Cav.QuadRun Cav.QuadGeom Cav.QuadSetup
  Cav.QuadCases

export Cav.QuadCases (SimpleQuad Cross shoelace cross2 QuadGood)
export Cav.QuadGeom (Fq)

/-- `SimpleQuad` and `QuadGood` are invariant under the eight symmetries of the 4-cycle -/
local macro "sym8" h:ident : tactic =>
  `(tactic| (first
      | exact $h
      | exact ($h).rot
      | exact ($h).rot.rot
      | exact ($h).rot.rot.rot
      | exact ($h).rev
      | exact ($h).rev.rot
      | exact ($h).rev.rot.rot
      | exact ($h).rev.rot.rot.rot))

theorem validPt_fq (seen : List (Pt XQ)) (q : Rat × Rat) (h : ∀ s ∈ seen, s.eq (Fq q) = false) :
    validPt seen (Fq q) = .ok (Fq q :: seen) :=
  (validPt_ok_iff _ _ _).mpr ⟨rfl, h, rfl⟩

/-- the quadrilateral with corners `P 0, P 1, P 2, P 3` (input order) whose abscissae increase
    along the input positions `i1, i2, i3, i4` -/
theorem quad_sorted (P : Nat → Rat × Rat) (i1 i2 i3 i4 : Nat)
    (hperm : (i1 = 0 ∧ i2 = 1 ∧ i3 = 2 ∧ i4 = 3) ∨
      (i1 = 0 ∧ i2 = 1 ∧ i3 = 3 ∧ i4 = 2) ∨
      (i1 = 0 ∧ i2 = 2 ∧ i3 = 1 ∧ i4 = 3) ∨
      (i1 = 0 ∧ i2 = 2 ∧ i3 = 3 ∧ i4 = 1) ∨
      (i1 = 0 ∧ i2 = 3 ∧ i3 = 1 ∧ i4 = 2) ∨
      (i1 = 0 ∧ i2 = 3 ∧ i3 = 2 ∧ i4 = 1) ∨
      (i1 = 1 ∧ i2 = 0 ∧ i3 = 2 ∧ i4 = 3) ∨
      (i1 = 1 ∧ i2 = 0 ∧ i3 = 3 ∧ i4 = 2) ∨
      (i1 = 1 ∧ i2 = 2 ∧ i3 = 0 ∧ i4 = 3) ∨
      (i1 = 1 ∧ i2 = 2 ∧ i3 = 3 ∧ i4 = 0) ∨
      (i1 = 1 ∧ i2 = 3 ∧ i3 = 0 ∧ i4 = 2) ∨
      (i1 = 1 ∧ i2 = 3 ∧ i3 = 2 ∧ i4 = 0) ∨
      (i1 = 2 ∧ i2 = 0 ∧ i3 = 1 ∧ i4 = 3) ∨
      (i1 = 2 ∧ i2 = 0 ∧ i3 = 3 ∧ i4 = 1) ∨
      (i1 = 2 ∧ i2 = 1 ∧ i3 = 0 ∧ i4 = 3) ∨
      (i1 = 2 ∧ i2 = 1 ∧ i3 = 3 ∧ i4 = 0) ∨
      (i1 = 2 ∧ i2 = 3 ∧ i3 = 0 ∧ i4 = 1) ∨
      (i1 = 2 ∧ i2 = 3 ∧ i3 = 1 ∧ i4 = 0) ∨
      (i1 = 3 ∧ i2 = 0 ∧ i3 = 1 ∧ i4 = 2) ∨
      (i1 = 3 ∧ i2 = 0 ∧ i3 = 2 ∧ i4 = 1) ∨
      (i1 = 3 ∧ i2 = 1 ∧ i3 = 0 ∧ i4 = 2) ∨
      (i1 = 3 ∧ i2 = 1 ∧ i3 = 2 ∧ i4 = 0) ∨
      (i1 = 3 ∧ i2 = 2 ∧ i3 = 0 ∧ i4 = 1) ∨
      (i1 = 3 ∧ i2 = 2 ∧ i3 = 1 ∧ i4 = 0))
    (h12 : (P i1).1 < (P i2).1) (h23 : (P i2).1 < (P i3).1) (h34 : (P i3).1 < (P i4).1)
    (hs : SimpleQuad (P 0) (P 1) (P 2) (P 3)) :
    ∃ t1 t2, sweepMon [#[Fq (P 0), Fq (P 1), Fq (P 2), Fq (P 3)]] = .ok ([t1, t2], true) ∧
      QuadGood (P 0) (P 1) (P 2) (P 3) t1 t2 := by
  rcases hperm with ⟨rfl, rfl, rfl, rfl⟩ | ⟨rfl, rfl, rfl, rfl⟩ | ⟨rfl, rfl, rfl, rfl⟩ | ⟨rfl, rfl, rfl, rfl⟩ | ⟨rfl, rfl, rfl, rfl⟩ | ⟨rfl, rfl, rfl, rfl⟩ | ⟨rfl, rfl, rfl, rfl⟩ | ⟨rfl, rfl, rfl, rfl⟩ | ⟨rfl, rfl, rfl, rfl⟩ | ⟨rfl, rfl, rfl, rfl⟩ | ⟨rfl, rfl, rfl, rfl⟩ | ⟨rfl, rfl, rfl, rfl⟩ | ⟨rfl, rfl, rfl, rfl⟩ | ⟨rfl, rfl, rfl, rfl⟩ | ⟨rfl, rfl, rfl, rfl⟩ | ⟨rfl, rfl, rfl, rfl⟩ | ⟨rfl, rfl, rfl, rfl⟩ | ⟨rfl, rfl, rfl, rfl⟩ | ⟨rfl, rfl, rfl, rfl⟩ | ⟨rfl, rfl, rfl, rfl⟩ | ⟨rfl, rfl, rfl, rfl⟩ | ⟨rfl, rfl, rfl, rfl⟩ | ⟨rfl, rfl, rfl, rfl⟩ | ⟨rfl, rfl, rfl, rfl⟩
  · -- abscissae in the order of the input positions (0, 1, 2, 3): ring `A`
    obtain ⟨f1, f2, f3, f4, c11, c12, c13, c14, c21, c22, c23, c24, c31, c32, c33, c34, c41, c42, c43, c44, e12, e13, e14, e21, e23, e24, e31, e32, e34, e41, e42, e43, x11, x12, x13, x14, x21, x22, x23, x24, x31, x32, x33, x34, x41, x42, x43, x44, m12, m13, m14, m21, m23, m24, m31, m32, m34, m41, m42, m43⟩ := ord4_fin (P 0) (P 1) (P 2) (P 3) h12 h23 h34
    have hsq : SimpleQuad (P 0) (P 1) (P 2) (P 3) := by sym8 hs
    obtain ⟨s', t1, t2, hr, ho, hm, hg⟩ := ringA_run true
      (ringQ (Fq (P 0)) (Fq (P 1)) (Fq (P 2)) (Fq (P 3))) 0 1 2 3 (P 0) (P 1) (P 2) (P 3)
      rfl rfl rfl rfl h12 h23 h34 hsq
    refine ⟨t1, t2, sweepMon_quad (setup_quad _ _ _ _ [(0, [])] .start .bend .bend .end_
      (validPt_fq _ _ (by simp)) (validPt_fq _ _ (by simp [f1, f2, f3, f4, c11, c12, c13, c14, c21, c22, c23, c24, c31, c32, c33, c34, c41, c42, c43, c44, e12, e13, e14, e21, e23, e24, e31, e32, e34, e41, e42, e43, x11, x12, x13, x14, x21, x22, x23, x24, x31, x32, x33, x34, x41, x42, x43, x44, m12, m13, m14, m21, m23, m24, m31, m32, m34, m41, m42, m43]))
      (validPt_fq _ _ (by simp [f1, f2, f3, f4, c11, c12, c13, c14, c21, c22, c23, c24, c31, c32, c33, c34, c41, c42, c43, c44, e12, e13, e14, e21, e23, e24, e31, e32, e34, e41, e42, e43, x11, x12, x13, x14, x21, x22, x23, x24, x31, x32, x33, x34, x41, x42, x43, x44, m12, m13, m14, m21, m23, m24, m31, m32, m34, m41, m42, m43])) (validPt_fq _ _ (by simp [f1, f2, f3, f4, c11, c12, c13, c14, c21, c22, c23, c24, c31, c32, c33, c34, c41, c42, c43, c44, e12, e13, e14, e21, e23, e24, e31, e32, e34, e41, e42, e43, x11, x12, x13, x14, x21, x22, x23, x24, x31, x32, x33, x34, x41, x42, x43, x44, m12, m13, m14, m21, m23, m24, m31, m32, m34, m41, m42, m43]))
      (by simp [fromTriplet, Pt.lt, Pt.gt, f1, f2, f3, f4, c11, c12, c13, c14, c21, c22, c23, c24, c31, c32, c33, c34, c41, c42, c43, c44, e12, e13, e14, e21, e23, e24, e31, e32, e34, e41, e42, e43, x11, x12, x13, x14, x21, x22, x23, x24, x31, x32, x33, x34, x41, x42, x43, x44, m12, m13, m14, m21, m23, m24, m31, m32, m34, m41, m42, m43]) (by simp [fromTriplet, Pt.lt, Pt.gt, f1, f2, f3, f4, c11, c12, c13, c14, c21, c22, c23, c24, c31, c32, c33, c34, c41, c42, c43, c44, e12, e13, e14, e21, e23, e24, e31, e32, e34, e41, e42, e43, x11, x12, x13, x14, x21, x22, x23, x24, x31, x32, x33, x34, x41, x42, x43, x44, m12, m13, m14, m21, m23, m24, m31, m32, m34, m41, m42, m43]) (by simp [fromTriplet, Pt.lt, Pt.gt, f1, f2, f3, f4, c11, c12, c13, c14, c21, c22, c23, c24, c31, c32, c33, c34, c41, c42, c43, c44, e12, e13, e14, e21, e23, e24, e31, e32, e34, e41, e42, e43, x11, x12, x13, x14, x21, x22, x23, x24, x31, x32, x33, x34, x41, x42, x43, x44, m12, m13, m14, m21, m23, m24, m31, m32, m34, m41, m42, m43]) (by simp [fromTriplet, Pt.lt, Pt.gt, f1, f2, f3, f4, c11, c12, c13, c14, c21, c22, c23, c24, c31, c32, c33, c34, c41, c42, c43, c44, e12, e13, e14, e21, e23, e24, e31, e32, e34, e41, e42, e43, x11, x12, x13, x14, x21, x22, x23, x24, x31, x32, x33, x34, x41, x42, x43, x44, m12, m13, m14, m21, m23, m24, m31, m32, m34, m41, m42, m43])
      (by simp [f1, f2, f3, f4, c11, c12, c13, c14, c21, c22, c23, c24, c31, c32, c33, c34, c41, c42, c43, c44, e12, e13, e14, e21, e23, e24, e31, e32, e34, e41, e42, e43, x11, x12, x13, x14, x21, x22, x23, x24, x31, x32, x33, x34, x41, x42, x43, x44, m12, m13, m14, m21, m23, m24, m31, m32, m34, m41, m42, m43])) hr ho hm, ?_⟩
    sym8 hg
  · -- abscissae in the order of the input positions (0, 1, 3, 2): ring `O`
    obtain ⟨f1, f2, f3, f4, c11, c12, c13, c14, c21, c22, c23, c24, c31, c32, c33, c34, c41, c42, c43, c44, e12, e13, e14, e21, e23, e24, e31, e32, e34, e41, e42, e43, x11, x12, x13, x14, x21, x22, x23, x24, x31, x32, x33, x34, x41, x42, x43, x44, m12, m13, m14, m21, m23, m24, m31, m32, m34, m41, m42, m43⟩ := ord4_fin (P 0) (P 1) (P 3) (P 2) h12 h23 h34
    have hsq : SimpleQuad (P 0) (P 1) (P 2) (P 3) := by sym8 hs
    obtain ⟨s', t1, t2, hr, ho, hm, hg⟩ := ringO_run false
      (ringQ (Fq (P 0)) (Fq (P 1)) (Fq (P 2)) (Fq (P 3))) 0 1 3 2 (P 0) (P 1) (P 3) (P 2)
      rfl rfl rfl rfl h12 h23 h34 hsq
    refine ⟨t1, t2, sweepMon_quad (setup_quad _ _ _ _ [(0, [])] .start .bend .end_ .bend
      (validPt_fq _ _ (by simp)) (validPt_fq _ _ (by simp [f1, f2, f3, f4, c11, c12, c13, c14, c21, c22, c23, c24, c31, c32, c33, c34, c41, c42, c43, c44, e12, e13, e14, e21, e23, e24, e31, e32, e34, e41, e42, e43, x11, x12, x13, x14, x21, x22, x23, x24, x31, x32, x33, x34, x41, x42, x43, x44, m12, m13, m14, m21, m23, m24, m31, m32, m34, m41, m42, m43]))
      (validPt_fq _ _ (by simp [f1, f2, f3, f4, c11, c12, c13, c14, c21, c22, c23, c24, c31, c32, c33, c34, c41, c42, c43, c44, e12, e13, e14, e21, e23, e24, e31, e32, e34, e41, e42, e43, x11, x12, x13, x14, x21, x22, x23, x24, x31, x32, x33, x34, x41, x42, x43, x44, m12, m13, m14, m21, m23, m24, m31, m32, m34, m41, m42, m43])) (validPt_fq _ _ (by simp [f1, f2, f3, f4, c11, c12, c13, c14, c21, c22, c23, c24, c31, c32, c33, c34, c41, c42, c43, c44, e12, e13, e14, e21, e23, e24, e31, e32, e34, e41, e42, e43, x11, x12, x13, x14, x21, x22, x23, x24, x31, x32, x33, x34, x41, x42, x43, x44, m12, m13, m14, m21, m23, m24, m31, m32, m34, m41, m42, m43]))
      (by simp [fromTriplet, Pt.lt, Pt.gt, f1, f2, f3, f4, c11, c12, c13, c14, c21, c22, c23, c24, c31, c32, c33, c34, c41, c42, c43, c44, e12, e13, e14, e21, e23, e24, e31, e32, e34, e41, e42, e43, x11, x12, x13, x14, x21, x22, x23, x24, x31, x32, x33, x34, x41, x42, x43, x44, m12, m13, m14, m21, m23, m24, m31, m32, m34, m41, m42, m43]) (by simp [fromTriplet, Pt.lt, Pt.gt, f1, f2, f3, f4, c11, c12, c13, c14, c21, c22, c23, c24, c31, c32, c33, c34, c41, c42, c43, c44, e12, e13, e14, e21, e23, e24, e31, e32, e34, e41, e42, e43, x11, x12, x13, x14, x21, x22, x23, x24, x31, x32, x33, x34, x41, x42, x43, x44, m12, m13, m14, m21, m23, m24, m31, m32, m34, m41, m42, m43]) (by simp [fromTriplet, Pt.lt, Pt.gt, f1, f2, f3, f4, c11, c12, c13, c14, c21, c22, c23, c24, c31, c32, c33, c34, c41, c42, c43, c44, e12, e13, e14, e21, e23, e24, e31, e32, e34, e41, e42, e43, x11, x12, x13, x14, x21, x22, x23, x24, x31, x32, x33, x34, x41, x42, x43, x44, m12, m13, m14, m21, m23, m24, m31, m32, m34, m41, m42, m43]) (by simp [fromTriplet, Pt.lt, Pt.gt, f1, f2, f3, f4, c11, c12, c13, c14, c21, c22, c23, c24, c31, c32, c33, c34, c41, c42, c43, c44, e12, e13, e14, e21, e23, e24, e31, e32, e34, e41, e42, e43, x11, x12, x13, x14, x21, x22, x23, x24, x31, x32, x33, x34, x41, x42, x43, x44, m12, m13, m14, m21, m23, m24, m31, m32, m34, m41, m42, m43])
      (by simp [f1, f2, f3, f4, c11, c12, c13, c14, c21, c22, c23, c24, c31, c32, c33, c34, c41, c42, c43, c44, e12, e13, e14, e21, e23, e24, e31, e32, e34, e41, e42, e43, x11, x12, x13, x14, x21, x22, x23, x24, x31, x32, x33, x34, x41, x42, x43, x44, m12, m13, m14, m21, m23, m24, m31, m32, m34, m41, m42, m43])) hr ho hm, ?_⟩
    sym8 hg
  · -- abscissae in the order of the input positions (0, 2, 1, 3): ring `Z`
    obtain ⟨f1, f2, f3, f4, c11, c12, c13, c14, c21, c22, c23, c24, c31, c32, c33, c34, c41, c42, c43, c44, e12, e13, e14, e21, e23, e24, e31, e32, e34, e41, e42, e43, x11, x12, x13, x14, x21, x22, x23, x24, x31, x32, x33, x34, x41, x42, x43, x44, m12, m13, m14, m21, m23, m24, m31, m32, m34, m41, m42, m43⟩ := ord4_fin (P 0) (P 2) (P 1) (P 3) h12 h23 h34
    have hsq : SimpleQuad (P 0) (P 1) (P 2) (P 3) := by sym8 hs
    obtain ⟨s', t1, t2, hr, ho, hm, hg⟩ := ringZ_run true
      (ringQ (Fq (P 0)) (Fq (P 1)) (Fq (P 2)) (Fq (P 3))) 0 2 1 3 (P 0) (P 2) (P 1) (P 3)
      rfl rfl rfl rfl h12 h23 h34 hsq
    refine ⟨t1, t2, sweepMon_quad (setup_quad _ _ _ _ [(0, []), (2, [])] .start .end_ .start .end_
      (validPt_fq _ _ (by simp)) (validPt_fq _ _ (by simp [f1, f2, f3, f4, c11, c12, c13, c14, c21, c22, c23, c24, c31, c32, c33, c34, c41, c42, c43, c44, e12, e13, e14, e21, e23, e24, e31, e32, e34, e41, e42, e43, x11, x12, x13, x14, x21, x22, x23, x24, x31, x32, x33, x34, x41, x42, x43, x44, m12, m13, m14, m21, m23, m24, m31, m32, m34, m41, m42, m43]))
      (validPt_fq _ _ (by simp [f1, f2, f3, f4, c11, c12, c13, c14, c21, c22, c23, c24, c31, c32, c33, c34, c41, c42, c43, c44, e12, e13, e14, e21, e23, e24, e31, e32, e34, e41, e42, e43, x11, x12, x13, x14, x21, x22, x23, x24, x31, x32, x33, x34, x41, x42, x43, x44, m12, m13, m14, m21, m23, m24, m31, m32, m34, m41, m42, m43])) (validPt_fq _ _ (by simp [f1, f2, f3, f4, c11, c12, c13, c14, c21, c22, c23, c24, c31, c32, c33, c34, c41, c42, c43, c44, e12, e13, e14, e21, e23, e24, e31, e32, e34, e41, e42, e43, x11, x12, x13, x14, x21, x22, x23, x24, x31, x32, x33, x34, x41, x42, x43, x44, m12, m13, m14, m21, m23, m24, m31, m32, m34, m41, m42, m43]))
      (by simp [fromTriplet, Pt.lt, Pt.gt, f1, f2, f3, f4, c11, c12, c13, c14, c21, c22, c23, c24, c31, c32, c33, c34, c41, c42, c43, c44, e12, e13, e14, e21, e23, e24, e31, e32, e34, e41, e42, e43, x11, x12, x13, x14, x21, x22, x23, x24, x31, x32, x33, x34, x41, x42, x43, x44, m12, m13, m14, m21, m23, m24, m31, m32, m34, m41, m42, m43]) (by simp [fromTriplet, Pt.lt, Pt.gt, f1, f2, f3, f4, c11, c12, c13, c14, c21, c22, c23, c24, c31, c32, c33, c34, c41, c42, c43, c44, e12, e13, e14, e21, e23, e24, e31, e32, e34, e41, e42, e43, x11, x12, x13, x14, x21, x22, x23, x24, x31, x32, x33, x34, x41, x42, x43, x44, m12, m13, m14, m21, m23, m24, m31, m32, m34, m41, m42, m43]) (by simp [fromTriplet, Pt.lt, Pt.gt, f1, f2, f3, f4, c11, c12, c13, c14, c21, c22, c23, c24, c31, c32, c33, c34, c41, c42, c43, c44, e12, e13, e14, e21, e23, e24, e31, e32, e34, e41, e42, e43, x11, x12, x13, x14, x21, x22, x23, x24, x31, x32, x33, x34, x41, x42, x43, x44, m12, m13, m14, m21, m23, m24, m31, m32, m34, m41, m42, m43]) (by simp [fromTriplet, Pt.lt, Pt.gt, f1, f2, f3, f4, c11, c12, c13, c14, c21, c22, c23, c24, c31, c32, c33, c34, c41, c42, c43, c44, e12, e13, e14, e21, e23, e24, e31, e32, e34, e41, e42, e43, x11, x12, x13, x14, x21, x22, x23, x24, x31, x32, x33, x34, x41, x42, x43, x44, m12, m13, m14, m21, m23, m24, m31, m32, m34, m41, m42, m43])
      (by simp [f1, f2, f3, f4, c11, c12, c13, c14, c21, c22, c23, c24, c31, c32, c33, c34, c41, c42, c43, c44, e12, e13, e14, e21, e23, e24, e31, e32, e34, e41, e42, e43, x11, x12, x13, x14, x21, x22, x23, x24, x31, x32, x33, x34, x41, x42, x43, x44, m12, m13, m14, m21, m23, m24, m31, m32, m34, m41, m42, m43])) hr ho hm, ?_⟩
    sym8 hg
  · -- abscissae in the order of the input positions (0, 2, 3, 1): ring `Z`
    obtain ⟨f1, f2, f3, f4, c11, c12, c13, c14, c21, c22, c23, c24, c31, c32, c33, c34, c41, c42, c43, c44, e12, e13, e14, e21, e23, e24, e31, e32, e34, e41, e42, e43, x11, x12, x13, x14, x21, x22, x23, x24, x31, x32, x33, x34, x41, x42, x43, x44, m12, m13, m14, m21, m23, m24, m31, m32, m34, m41, m42, m43⟩ := ord4_fin (P 0) (P 2) (P 3) (P 1) h12 h23 h34
    have hsq : SimpleQuad (P 0) (P 3) (P 2) (P 1) := by sym8 hs
    obtain ⟨s', t1, t2, hr, ho, hm, hg⟩ := ringZ_run false
      (ringQ (Fq (P 0)) (Fq (P 1)) (Fq (P 2)) (Fq (P 3))) 0 2 3 1 (P 0) (P 2) (P 3) (P 1)
      rfl rfl rfl rfl h12 h23 h34 hsq
    refine ⟨t1, t2, sweepMon_quad (setup_quad _ _ _ _ [(0, []), (2, [])] .start .end_ .start .end_
      (validPt_fq _ _ (by simp)) (validPt_fq _ _ (by simp [f1, f2, f3, f4, c11, c12, c13, c14, c21, c22, c23, c24, c31, c32, c33, c34, c41, c42, c43, c44, e12, e13, e14, e21, e23, e24, e31, e32, e34, e41, e42, e43, x11, x12, x13, x14, x21, x22, x23, x24, x31, x32, x33, x34, x41, x42, x43, x44, m12, m13, m14, m21, m23, m24, m31, m32, m34, m41, m42, m43]))
      (validPt_fq _ _ (by simp [f1, f2, f3, f4, c11, c12, c13, c14, c21, c22, c23, c24, c31, c32, c33, c34, c41, c42, c43, c44, e12, e13, e14, e21, e23, e24, e31, e32, e34, e41, e42, e43, x11, x12, x13, x14, x21, x22, x23, x24, x31, x32, x33, x34, x41, x42, x43, x44, m12, m13, m14, m21, m23, m24, m31, m32, m34, m41, m42, m43])) (validPt_fq _ _ (by simp [f1, f2, f3, f4, c11, c12, c13, c14, c21, c22, c23, c24, c31, c32, c33, c34, c41, c42, c43, c44, e12, e13, e14, e21, e23, e24, e31, e32, e34, e41, e42, e43, x11, x12, x13, x14, x21, x22, x23, x24, x31, x32, x33, x34, x41, x42, x43, x44, m12, m13, m14, m21, m23, m24, m31, m32, m34, m41, m42, m43]))
      (by simp [fromTriplet, Pt.lt, Pt.gt, f1, f2, f3, f4, c11, c12, c13, c14, c21, c22, c23, c24, c31, c32, c33, c34, c41, c42, c43, c44, e12, e13, e14, e21, e23, e24, e31, e32, e34, e41, e42, e43, x11, x12, x13, x14, x21, x22, x23, x24, x31, x32, x33, x34, x41, x42, x43, x44, m12, m13, m14, m21, m23, m24, m31, m32, m34, m41, m42, m43]) (by simp [fromTriplet, Pt.lt, Pt.gt, f1, f2, f3, f4, c11, c12, c13, c14, c21, c22, c23, c24, c31, c32, c33, c34, c41, c42, c43, c44, e12, e13, e14, e21, e23, e24, e31, e32, e34, e41, e42, e43, x11, x12, x13, x14, x21, x22, x23, x24, x31, x32, x33, x34, x41, x42, x43, x44, m12, m13, m14, m21, m23, m24, m31, m32, m34, m41, m42, m43]) (by simp [fromTriplet, Pt.lt, Pt.gt, f1, f2, f3, f4, c11, c12, c13, c14, c21, c22, c23, c24, c31, c32, c33, c34, c41, c42, c43, c44, e12, e13, e14, e21, e23, e24, e31, e32, e34, e41, e42, e43, x11, x12, x13, x14, x21, x22, x23, x24, x31, x32, x33, x34, x41, x42, x43, x44, m12, m13, m14, m21, m23, m24, m31, m32, m34, m41, m42, m43]) (by simp [fromTriplet, Pt.lt, Pt.gt, f1, f2, f3, f4, c11, c12, c13, c14, c21, c22, c23, c24, c31, c32, c33, c34, c41, c42, c43, c44, e12, e13, e14, e21, e23, e24, e31, e32, e34, e41, e42, e43, x11, x12, x13, x14, x21, x22, x23, x24, x31, x32, x33, x34, x41, x42, x43, x44, m12, m13, m14, m21, m23, m24, m31, m32, m34, m41, m42, m43])
      (by simp [f1, f2, f3, f4, c11, c12, c13, c14, c21, c22, c23, c24, c31, c32, c33, c34, c41, c42, c43, c44, e12, e13, e14, e21, e23, e24, e31, e32, e34, e41, e42, e43, x11, x12, x13, x14, x21, x22, x23, x24, x31, x32, x33, x34, x41, x42, x43, x44, m12, m13, m14, m21, m23, m24, m31, m32, m34, m41, m42, m43])) hr ho hm, ?_⟩
    sym8 hg
  · -- abscissae in the order of the input positions (0, 3, 1, 2): ring `O`
    obtain ⟨f1, f2, f3, f4, c11, c12, c13, c14, c21, c22, c23, c24, c31, c32, c33, c34, c41, c42, c43, c44, e12, e13, e14, e21, e23, e24, e31, e32, e34, e41, e42, e43, x11, x12, x13, x14, x21, x22, x23, x24, x31, x32, x33, x34, x41, x42, x43, x44, m12, m13, m14, m21, m23, m24, m31, m32, m34, m41, m42, m43⟩ := ord4_fin (P 0) (P 3) (P 1) (P 2) h12 h23 h34
    have hsq : SimpleQuad (P 0) (P 3) (P 2) (P 1) := by sym8 hs
    obtain ⟨s', t1, t2, hr, ho, hm, hg⟩ := ringO_run true
      (ringQ (Fq (P 0)) (Fq (P 1)) (Fq (P 2)) (Fq (P 3))) 0 3 1 2 (P 0) (P 3) (P 1) (P 2)
      rfl rfl rfl rfl h12 h23 h34 hsq
    refine ⟨t1, t2, sweepMon_quad (setup_quad _ _ _ _ [(0, [])] .start .bend .end_ .bend
      (validPt_fq _ _ (by simp)) (validPt_fq _ _ (by simp [f1, f2, f3, f4, c11, c12, c13, c14, c21, c22, c23, c24, c31, c32, c33, c34, c41, c42, c43, c44, e12, e13, e14, e21, e23, e24, e31, e32, e34, e41, e42, e43, x11, x12, x13, x14, x21, x22, x23, x24, x31, x32, x33, x34, x41, x42, x43, x44, m12, m13, m14, m21, m23, m24, m31, m32, m34, m41, m42, m43]))
      (validPt_fq _ _ (by simp [f1, f2, f3, f4, c11, c12, c13, c14, c21, c22, c23, c24, c31, c32, c33, c34, c41, c42, c43, c44, e12, e13, e14, e21, e23, e24, e31, e32, e34, e41, e42, e43, x11, x12, x13, x14, x21, x22, x23, x24, x31, x32, x33, x34, x41, x42, x43, x44, m12, m13, m14, m21, m23, m24, m31, m32, m34, m41, m42, m43])) (validPt_fq _ _ (by simp [f1, f2, f3, f4, c11, c12, c13, c14, c21, c22, c23, c24, c31, c32, c33, c34, c41, c42, c43, c44, e12, e13, e14, e21, e23, e24, e31, e32, e34, e41, e42, e43, x11, x12, x13, x14, x21, x22, x23, x24, x31, x32, x33, x34, x41, x42, x43, x44, m12, m13, m14, m21, m23, m24, m31, m32, m34, m41, m42, m43]))
      (by simp [fromTriplet, Pt.lt, Pt.gt, f1, f2, f3, f4, c11, c12, c13, c14, c21, c22, c23, c24, c31, c32, c33, c34, c41, c42, c43, c44, e12, e13, e14, e21, e23, e24, e31, e32, e34, e41, e42, e43, x11, x12, x13, x14, x21, x22, x23, x24, x31, x32, x33, x34, x41, x42, x43, x44, m12, m13, m14, m21, m23, m24, m31, m32, m34, m41, m42, m43]) (by simp [fromTriplet, Pt.lt, Pt.gt, f1, f2, f3, f4, c11, c12, c13, c14, c21, c22, c23, c24, c31, c32, c33, c34, c41, c42, c43, c44, e12, e13, e14, e21, e23, e24, e31, e32, e34, e41, e42, e43, x11, x12, x13, x14, x21, x22, x23, x24, x31, x32, x33, x34, x41, x42, x43, x44, m12, m13, m14, m21, m23, m24, m31, m32, m34, m41, m42, m43]) (by simp [fromTriplet, Pt.lt, Pt.gt, f1, f2, f3, f4, c11, c12, c13, c14, c21, c22, c23, c24, c31, c32, c33, c34, c41, c42, c43, c44, e12, e13, e14, e21, e23, e24, e31, e32, e34, e41, e42, e43, x11, x12, x13, x14, x21, x22, x23, x24, x31, x32, x33, x34, x41, x42, x43, x44, m12, m13, m14, m21, m23, m24, m31, m32, m34, m41, m42, m43]) (by simp [fromTriplet, Pt.lt, Pt.gt, f1, f2, f3, f4, c11, c12, c13, c14, c21, c22, c23, c24, c31, c32, c33, c34, c41, c42, c43, c44, e12, e13, e14, e21, e23, e24, e31, e32, e34, e41, e42, e43, x11, x12, x13, x14, x21, x22, x23, x24, x31, x32, x33, x34, x41, x42, x43, x44, m12, m13, m14, m21, m23, m24, m31, m32, m34, m41, m42, m43])
      (by simp [f1, f2, f3, f4, c11, c12, c13, c14, c21, c22, c23, c24, c31, c32, c33, c34, c41, c42, c43, c44, e12, e13, e14, e21, e23, e24, e31, e32, e34, e41, e42, e43, x11, x12, x13, x14, x21, x22, x23, x24, x31, x32, x33, x34, x41, x42, x43, x44, m12, m13, m14, m21, m23, m24, m31, m32, m34, m41, m42, m43])) hr ho hm, ?_⟩
    sym8 hg
  · -- abscissae in the order of the input positions (0, 3, 2, 1): ring `A`
    obtain ⟨f1, f2, f3, f4, c11, c12, c13, c14, c21, c22, c23, c24, c31, c32, c33, c34, c41, c42, c43, c44, e12, e13, e14, e21, e23, e24, e31, e32, e34, e41, e42, e43, x11, x12, x13, x14, x21, x22, x23, x24, x31, x32, x33, x34, x41, x42, x43, x44, m12, m13, m14, m21, m23, m24, m31, m32, m34, m41, m42, m43⟩ := ord4_fin (P 0) (P 3) (P 2) (P 1) h12 h23 h34
    have hsq : SimpleQuad (P 0) (P 3) (P 2) (P 1) := by sym8 hs
    obtain ⟨s', t1, t2, hr, ho, hm, hg⟩ := ringA_run false
      (ringQ (Fq (P 0)) (Fq (P 1)) (Fq (P 2)) (Fq (P 3))) 0 3 2 1 (P 0) (P 3) (P 2) (P 1)
      rfl rfl rfl rfl h12 h23 h34 hsq
    refine ⟨t1, t2, sweepMon_quad (setup_quad _ _ _ _ [(0, [])] .start .end_ .bend .bend
      (validPt_fq _ _ (by simp)) (validPt_fq _ _ (by simp [f1, f2, f3, f4, c11, c12, c13, c14, c21, c22, c23, c24, c31, c32, c33, c34, c41, c42, c43, c44, e12, e13, e14, e21, e23, e24, e31, e32, e34, e41, e42, e43, x11, x12, x13, x14, x21, x22, x23, x24, x31, x32, x33, x34, x41, x42, x43, x44, m12, m13, m14, m21, m23, m24, m31, m32, m34, m41, m42, m43]))
      (validPt_fq _ _ (by simp [f1, f2, f3, f4, c11, c12, c13, c14, c21, c22, c23, c24, c31, c32, c33, c34, c41, c42, c43, c44, e12, e13, e14, e21, e23, e24, e31, e32, e34, e41, e42, e43, x11, x12, x13, x14, x21, x22, x23, x24, x31, x32, x33, x34, x41, x42, x43, x44, m12, m13, m14, m21, m23, m24, m31, m32, m34, m41, m42, m43])) (validPt_fq _ _ (by simp [f1, f2, f3, f4, c11, c12, c13, c14, c21, c22, c23, c24, c31, c32, c33, c34, c41, c42, c43, c44, e12, e13, e14, e21, e23, e24, e31, e32, e34, e41, e42, e43, x11, x12, x13, x14, x21, x22, x23, x24, x31, x32, x33, x34, x41, x42, x43, x44, m12, m13, m14, m21, m23, m24, m31, m32, m34, m41, m42, m43]))
      (by simp [fromTriplet, Pt.lt, Pt.gt, f1, f2, f3, f4, c11, c12, c13, c14, c21, c22, c23, c24, c31, c32, c33, c34, c41, c42, c43, c44, e12, e13, e14, e21, e23, e24, e31, e32, e34, e41, e42, e43, x11, x12, x13, x14, x21, x22, x23, x24, x31, x32, x33, x34, x41, x42, x43, x44, m12, m13, m14, m21, m23, m24, m31, m32, m34, m41, m42, m43]) (by simp [fromTriplet, Pt.lt, Pt.gt, f1, f2, f3, f4, c11, c12, c13, c14, c21, c22, c23, c24, c31, c32, c33, c34, c41, c42, c43, c44, e12, e13, e14, e21, e23, e24, e31, e32, e34, e41, e42, e43, x11, x12, x13, x14, x21, x22, x23, x24, x31, x32, x33, x34, x41, x42, x43, x44, m12, m13, m14, m21, m23, m24, m31, m32, m34, m41, m42, m43]) (by simp [fromTriplet, Pt.lt, Pt.gt, f1, f2, f3, f4, c11, c12, c13, c14, c21, c22, c23, c24, c31, c32, c33, c34, c41, c42, c43, c44, e12, e13, e14, e21, e23, e24, e31, e32, e34, e41, e42, e43, x11, x12, x13, x14, x21, x22, x23, x24, x31, x32, x33, x34, x41, x42, x43, x44, m12, m13, m14, m21, m23, m24, m31, m32, m34, m41, m42, m43]) (by simp [fromTriplet, Pt.lt, Pt.gt, f1, f2, f3, f4, c11, c12, c13, c14, c21, c22, c23, c24, c31, c32, c33, c34, c41, c42, c43, c44, e12, e13, e14, e21, e23, e24, e31, e32, e34, e41, e42, e43, x11, x12, x13, x14, x21, x22, x23, x24, x31, x32, x33, x34, x41, x42, x43, x44, m12, m13, m14, m21, m23, m24, m31, m32, m34, m41, m42, m43])
      (by simp [f1, f2, f3, f4, c11, c12, c13, c14, c21, c22, c23, c24, c31, c32, c33, c34, c41, c42, c43, c44, e12, e13, e14, e21, e23, e24, e31, e32, e34, e41, e42, e43, x11, x12, x13, x14, x21, x22, x23, x24, x31, x32, x33, x34, x41, x42, x43, x44, m12, m13, m14, m21, m23, m24, m31, m32, m34, m41, m42, m43])) hr ho hm, ?_⟩
    sym8 hg
  · -- abscissae in the order of the input positions (1, 0, 2, 3): ring `O`
    obtain ⟨f1, f2, f3, f4, c11, c12, c13, c14, c21, c22, c23, c24, c31, c32, c33, c34, c41, c42, c43, c44, e12, e13, e14, e21, e23, e24, e31, e32, e34, e41, e42, e43, x11, x12, x13, x14, x21, x22, x23, x24, x31, x32, x33, x34, x41, x42, x43, x44, m12, m13, m14, m21, m23, m24, m31, m32, m34, m41, m42, m43⟩ := ord4_fin (P 1) (P 0) (P 2) (P 3) h12 h23 h34
    have hsq : SimpleQuad (P 1) (P 0) (P 3) (P 2) := by sym8 hs
    obtain ⟨s', t1, t2, hr, ho, hm, hg⟩ := ringO_run true
      (ringQ (Fq (P 0)) (Fq (P 1)) (Fq (P 2)) (Fq (P 3))) 1 0 2 3 (P 1) (P 0) (P 2) (P 3)
      rfl rfl rfl rfl h12 h23 h34 hsq
    refine ⟨t1, t2, sweepMon_quad (setup_quad _ _ _ _ [(1, [])] .bend .start .bend .end_
      (validPt_fq _ _ (by simp)) (validPt_fq _ _ (by simp [f1, f2, f3, f4, c11, c12, c13, c14, c21, c22, c23, c24, c31, c32, c33, c34, c41, c42, c43, c44, e12, e13, e14, e21, e23, e24, e31, e32, e34, e41, e42, e43, x11, x12, x13, x14, x21, x22, x23, x24, x31, x32, x33, x34, x41, x42, x43, x44, m12, m13, m14, m21, m23, m24, m31, m32, m34, m41, m42, m43]))
      (validPt_fq _ _ (by simp [f1, f2, f3, f4, c11, c12, c13, c14, c21, c22, c23, c24, c31, c32, c33, c34, c41, c42, c43, c44, e12, e13, e14, e21, e23, e24, e31, e32, e34, e41, e42, e43, x11, x12, x13, x14, x21, x22, x23, x24, x31, x32, x33, x34, x41, x42, x43, x44, m12, m13, m14, m21, m23, m24, m31, m32, m34, m41, m42, m43])) (validPt_fq _ _ (by simp [f1, f2, f3, f4, c11, c12, c13, c14, c21, c22, c23, c24, c31, c32, c33, c34, c41, c42, c43, c44, e12, e13, e14, e21, e23, e24, e31, e32, e34, e41, e42, e43, x11, x12, x13, x14, x21, x22, x23, x24, x31, x32, x33, x34, x41, x42, x43, x44, m12, m13, m14, m21, m23, m24, m31, m32, m34, m41, m42, m43]))
      (by simp [fromTriplet, Pt.lt, Pt.gt, f1, f2, f3, f4, c11, c12, c13, c14, c21, c22, c23, c24, c31, c32, c33, c34, c41, c42, c43, c44, e12, e13, e14, e21, e23, e24, e31, e32, e34, e41, e42, e43, x11, x12, x13, x14, x21, x22, x23, x24, x31, x32, x33, x34, x41, x42, x43, x44, m12, m13, m14, m21, m23, m24, m31, m32, m34, m41, m42, m43]) (by simp [fromTriplet, Pt.lt, Pt.gt, f1, f2, f3, f4, c11, c12, c13, c14, c21, c22, c23, c24, c31, c32, c33, c34, c41, c42, c43, c44, e12, e13, e14, e21, e23, e24, e31, e32, e34, e41, e42, e43, x11, x12, x13, x14, x21, x22, x23, x24, x31, x32, x33, x34, x41, x42, x43, x44, m12, m13, m14, m21, m23, m24, m31, m32, m34, m41, m42, m43]) (by simp [fromTriplet, Pt.lt, Pt.gt, f1, f2, f3, f4, c11, c12, c13, c14, c21, c22, c23, c24, c31, c32, c33, c34, c41, c42, c43, c44, e12, e13, e14, e21, e23, e24, e31, e32, e34, e41, e42, e43, x11, x12, x13, x14, x21, x22, x23, x24, x31, x32, x33, x34, x41, x42, x43, x44, m12, m13, m14, m21, m23, m24, m31, m32, m34, m41, m42, m43]) (by simp [fromTriplet, Pt.lt, Pt.gt, f1, f2, f3, f4, c11, c12, c13, c14, c21, c22, c23, c24, c31, c32, c33, c34, c41, c42, c43, c44, e12, e13, e14, e21, e23, e24, e31, e32, e34, e41, e42, e43, x11, x12, x13, x14, x21, x22, x23, x24, x31, x32, x33, x34, x41, x42, x43, x44, m12, m13, m14, m21, m23, m24, m31, m32, m34, m41, m42, m43])
      (by simp [f1, f2, f3, f4, c11, c12, c13, c14, c21, c22, c23, c24, c31, c32, c33, c34, c41, c42, c43, c44, e12, e13, e14, e21, e23, e24, e31, e32, e34, e41, e42, e43, x11, x12, x13, x14, x21, x22, x23, x24, x31, x32, x33, x34, x41, x42, x43, x44, m12, m13, m14, m21, m23, m24, m31, m32, m34, m41, m42, m43])) hr ho hm, ?_⟩
    sym8 hg
  · -- abscissae in the order of the input positions (1, 0, 3, 2): ring `A`
    obtain ⟨f1, f2, f3, f4, c11, c12, c13, c14, c21, c22, c23, c24, c31, c32, c33, c34, c41, c42, c43, c44, e12, e13, e14, e21, e23, e24, e31, e32, e34, e41, e42, e43, x11, x12, x13, x14, x21, x22, x23, x24, x31, x32, x33, x34, x41, x42, x43, x44, m12, m13, m14, m21, m23, m24, m31, m32, m34, m41, m42, m43⟩ := ord4_fin (P 1) (P 0) (P 3) (P 2) h12 h23 h34
    have hsq : SimpleQuad (P 1) (P 0) (P 3) (P 2) := by sym8 hs
    obtain ⟨s', t1, t2, hr, ho, hm, hg⟩ := ringA_run false
      (ringQ (Fq (P 0)) (Fq (P 1)) (Fq (P 2)) (Fq (P 3))) 1 0 3 2 (P 1) (P 0) (P 3) (P 2)
      rfl rfl rfl rfl h12 h23 h34 hsq
    refine ⟨t1, t2, sweepMon_quad (setup_quad _ _ _ _ [(1, [])] .bend .start .end_ .bend
      (validPt_fq _ _ (by simp)) (validPt_fq _ _ (by simp [f1, f2, f3, f4, c11, c12, c13, c14, c21, c22, c23, c24, c31, c32, c33, c34, c41, c42, c43, c44, e12, e13, e14, e21, e23, e24, e31, e32, e34, e41, e42, e43, x11, x12, x13, x14, x21, x22, x23, x24, x31, x32, x33, x34, x41, x42, x43, x44, m12, m13, m14, m21, m23, m24, m31, m32, m34, m41, m42, m43]))
      (validPt_fq _ _ (by simp [f1, f2, f3, f4, c11, c12, c13, c14, c21, c22, c23, c24, c31, c32, c33, c34, c41, c42, c43, c44, e12, e13, e14, e21, e23, e24, e31, e32, e34, e41, e42, e43, x11, x12, x13, x14, x21, x22, x23, x24, x31, x32, x33, x34, x41, x42, x43, x44, m12, m13, m14, m21, m23, m24, m31, m32, m34, m41, m42, m43])) (validPt_fq _ _ (by simp [f1, f2, f3, f4, c11, c12, c13, c14, c21, c22, c23, c24, c31, c32, c33, c34, c41, c42, c43, c44, e12, e13, e14, e21, e23, e24, e31, e32, e34, e41, e42, e43, x11, x12, x13, x14, x21, x22, x23, x24, x31, x32, x33, x34, x41, x42, x43, x44, m12, m13, m14, m21, m23, m24, m31, m32, m34, m41, m42, m43]))
      (by simp [fromTriplet, Pt.lt, Pt.gt, f1, f2, f3, f4, c11, c12, c13, c14, c21, c22, c23, c24, c31, c32, c33, c34, c41, c42, c43, c44, e12, e13, e14, e21, e23, e24, e31, e32, e34, e41, e42, e43, x11, x12, x13, x14, x21, x22, x23, x24, x31, x32, x33, x34, x41, x42, x43, x44, m12, m13, m14, m21, m23, m24, m31, m32, m34, m41, m42, m43]) (by simp [fromTriplet, Pt.lt, Pt.gt, f1, f2, f3, f4, c11, c12, c13, c14, c21, c22, c23, c24, c31, c32, c33, c34, c41, c42, c43, c44, e12, e13, e14, e21, e23, e24, e31, e32, e34, e41, e42, e43, x11, x12, x13, x14, x21, x22, x23, x24, x31, x32, x33, x34, x41, x42, x43, x44, m12, m13, m14, m21, m23, m24, m31, m32, m34, m41, m42, m43]) (by simp [fromTriplet, Pt.lt, Pt.gt, f1, f2, f3, f4, c11, c12, c13, c14, c21, c22, c23, c24, c31, c32, c33, c34, c41, c42, c43, c44, e12, e13, e14, e21, e23, e24, e31, e32, e34, e41, e42, e43, x11, x12, x13, x14, x21, x22, x23, x24, x31, x32, x33, x34, x41, x42, x43, x44, m12, m13, m14, m21, m23, m24, m31, m32, m34, m41, m42, m43]) (by simp [fromTriplet, Pt.lt, Pt.gt, f1, f2, f3, f4, c11, c12, c13, c14, c21, c22, c23, c24, c31, c32, c33, c34, c41, c42, c43, c44, e12, e13, e14, e21, e23, e24, e31, e32, e34, e41, e42, e43, x11, x12, x13, x14, x21, x22, x23, x24, x31, x32, x33, x34, x41, x42, x43, x44, m12, m13, m14, m21, m23, m24, m31, m32, m34, m41, m42, m43])
      (by simp [f1, f2, f3, f4, c11, c12, c13, c14, c21, c22, c23, c24, c31, c32, c33, c34, c41, c42, c43, c44, e12, e13, e14, e21, e23, e24, e31, e32, e34, e41, e42, e43, x11, x12, x13, x14, x21, x22, x23, x24, x31, x32, x33, x34, x41, x42, x43, x44, m12, m13, m14, m21, m23, m24, m31, m32, m34, m41, m42, m43])) hr ho hm, ?_⟩
    sym8 hg
  · -- abscissae in the order of the input positions (1, 2, 0, 3): ring `O`
    obtain ⟨f1, f2, f3, f4, c11, c12, c13, c14, c21, c22, c23, c24, c31, c32, c33, c34, c41, c42, c43, c44, e12, e13, e14, e21, e23, e24, e31, e32, e34, e41, e42, e43, x11, x12, x13, x14, x21, x22, x23, x24, x31, x32, x33, x34, x41, x42, x43, x44, m12, m13, m14, m21, m23, m24, m31, m32, m34, m41, m42, m43⟩ := ord4_fin (P 1) (P 2) (P 0) (P 3) h12 h23 h34
    have hsq : SimpleQuad (P 1) (P 2) (P 3) (P 0) := by sym8 hs
    obtain ⟨s', t1, t2, hr, ho, hm, hg⟩ := ringO_run false
      (ringQ (Fq (P 0)) (Fq (P 1)) (Fq (P 2)) (Fq (P 3))) 1 2 0 3 (P 1) (P 2) (P 0) (P 3)
      rfl rfl rfl rfl h12 h23 h34 hsq
    refine ⟨t1, t2, sweepMon_quad (setup_quad _ _ _ _ [(1, [])] .bend .start .bend .end_
      (validPt_fq _ _ (by simp)) (validPt_fq _ _ (by simp [f1, f2, f3, f4, c11, c12, c13, c14, c21, c22, c23, c24, c31, c32, c33, c34, c41, c42, c43, c44, e12, e13, e14, e21, e23, e24, e31, e32, e34, e41, e42, e43, x11, x12, x13, x14, x21, x22, x23, x24, x31, x32, x33, x34, x41, x42, x43, x44, m12, m13, m14, m21, m23, m24, m31, m32, m34, m41, m42, m43]))
      (validPt_fq _ _ (by simp [f1, f2, f3, f4, c11, c12, c13, c14, c21, c22, c23, c24, c31, c32, c33, c34, c41, c42, c43, c44, e12, e13, e14, e21, e23, e24, e31, e32, e34, e41, e42, e43, x11, x12, x13, x14, x21, x22, x23, x24, x31, x32, x33, x34, x41, x42, x43, x44, m12, m13, m14, m21, m23, m24, m31, m32, m34, m41, m42, m43])) (validPt_fq _ _ (by simp [f1, f2, f3, f4, c11, c12, c13, c14, c21, c22, c23, c24, c31, c32, c33, c34, c41, c42, c43, c44, e12, e13, e14, e21, e23, e24, e31, e32, e34, e41, e42, e43, x11, x12, x13, x14, x21, x22, x23, x24, x31, x32, x33, x34, x41, x42, x43, x44, m12, m13, m14, m21, m23, m24, m31, m32, m34, m41, m42, m43]))
      (by simp [fromTriplet, Pt.lt, Pt.gt, f1, f2, f3, f4, c11, c12, c13, c14, c21, c22, c23, c24, c31, c32, c33, c34, c41, c42, c43, c44, e12, e13, e14, e21, e23, e24, e31, e32, e34, e41, e42, e43, x11, x12, x13, x14, x21, x22, x23, x24, x31, x32, x33, x34, x41, x42, x43, x44, m12, m13, m14, m21, m23, m24, m31, m32, m34, m41, m42, m43]) (by simp [fromTriplet, Pt.lt, Pt.gt, f1, f2, f3, f4, c11, c12, c13, c14, c21, c22, c23, c24, c31, c32, c33, c34, c41, c42, c43, c44, e12, e13, e14, e21, e23, e24, e31, e32, e34, e41, e42, e43, x11, x12, x13, x14, x21, x22, x23, x24, x31, x32, x33, x34, x41, x42, x43, x44, m12, m13, m14, m21, m23, m24, m31, m32, m34, m41, m42, m43]) (by simp [fromTriplet, Pt.lt, Pt.gt, f1, f2, f3, f4, c11, c12, c13, c14, c21, c22, c23, c24, c31, c32, c33, c34, c41, c42, c43, c44, e12, e13, e14, e21, e23, e24, e31, e32, e34, e41, e42, e43, x11, x12, x13, x14, x21, x22, x23, x24, x31, x32, x33, x34, x41, x42, x43, x44, m12, m13, m14, m21, m23, m24, m31, m32, m34, m41, m42, m43]) (by simp [fromTriplet, Pt.lt, Pt.gt, f1, f2, f3, f4, c11, c12, c13, c14, c21, c22, c23, c24, c31, c32, c33, c34, c41, c42, c43, c44, e12, e13, e14, e21, e23, e24, e31, e32, e34, e41, e42, e43, x11, x12, x13, x14, x21, x22, x23, x24, x31, x32, x33, x34, x41, x42, x43, x44, m12, m13, m14, m21, m23, m24, m31, m32, m34, m41, m42, m43])
      (by simp [f1, f2, f3, f4, c11, c12, c13, c14, c21, c22, c23, c24, c31, c32, c33, c34, c41, c42, c43, c44, e12, e13, e14, e21, e23, e24, e31, e32, e34, e41, e42, e43, x11, x12, x13, x14, x21, x22, x23, x24, x31, x32, x33, x34, x41, x42, x43, x44, m12, m13, m14, m21, m23, m24, m31, m32, m34, m41, m42, m43])) hr ho hm, ?_⟩
    sym8 hg
  · -- abscissae in the order of the input positions (1, 2, 3, 0): ring `A`
    obtain ⟨f1, f2, f3, f4, c11, c12, c13, c14, c21, c22, c23, c24, c31, c32, c33, c34, c41, c42, c43, c44, e12, e13, e14, e21, e23, e24, e31, e32, e34, e41, e42, e43, x11, x12, x13, x14, x21, x22, x23, x24, x31, x32, x33, x34, x41, x42, x43, x44, m12, m13, m14, m21, m23, m24, m31, m32, m34, m41, m42, m43⟩ := ord4_fin (P 1) (P 2) (P 3) (P 0) h12 h23 h34
    have hsq : SimpleQuad (P 1) (P 2) (P 3) (P 0) := by sym8 hs
    obtain ⟨s', t1, t2, hr, ho, hm, hg⟩ := ringA_run true
      (ringQ (Fq (P 0)) (Fq (P 1)) (Fq (P 2)) (Fq (P 3))) 1 2 3 0 (P 1) (P 2) (P 3) (P 0)
      rfl rfl rfl rfl h12 h23 h34 hsq
    refine ⟨t1, t2, sweepMon_quad (setup_quad _ _ _ _ [(1, [])] .end_ .start .bend .bend
      (validPt_fq _ _ (by simp)) (validPt_fq _ _ (by simp [f1, f2, f3, f4, c11, c12, c13, c14, c21, c22, c23, c24, c31, c32, c33, c34, c41, c42, c43, c44, e12, e13, e14, e21, e23, e24, e31, e32, e34, e41, e42, e43, x11, x12, x13, x14, x21, x22, x23, x24, x31, x32, x33, x34, x41, x42, x43, x44, m12, m13, m14, m21, m23, m24, m31, m32, m34, m41, m42, m43]))
      (validPt_fq _ _ (by simp [f1, f2, f3, f4, c11, c12, c13, c14, c21, c22, c23, c24, c31, c32, c33, c34, c41, c42, c43, c44, e12, e13, e14, e21, e23, e24, e31, e32, e34, e41, e42, e43, x11, x12, x13, x14, x21, x22, x23, x24, x31, x32, x33, x34, x41, x42, x43, x44, m12, m13, m14, m21, m23, m24, m31, m32, m34, m41, m42, m43])) (validPt_fq _ _ (by simp [f1, f2, f3, f4, c11, c12, c13, c14, c21, c22, c23, c24, c31, c32, c33, c34, c41, c42, c43, c44, e12, e13, e14, e21, e23, e24, e31, e32, e34, e41, e42, e43, x11, x12, x13, x14, x21, x22, x23, x24, x31, x32, x33, x34, x41, x42, x43, x44, m12, m13, m14, m21, m23, m24, m31, m32, m34, m41, m42, m43]))
      (by simp [fromTriplet, Pt.lt, Pt.gt, f1, f2, f3, f4, c11, c12, c13, c14, c21, c22, c23, c24, c31, c32, c33, c34, c41, c42, c43, c44, e12, e13, e14, e21, e23, e24, e31, e32, e34, e41, e42, e43, x11, x12, x13, x14, x21, x22, x23, x24, x31, x32, x33, x34, x41, x42, x43, x44, m12, m13, m14, m21, m23, m24, m31, m32, m34, m41, m42, m43]) (by simp [fromTriplet, Pt.lt, Pt.gt, f1, f2, f3, f4, c11, c12, c13, c14, c21, c22, c23, c24, c31, c32, c33, c34, c41, c42, c43, c44, e12, e13, e14, e21, e23, e24, e31, e32, e34, e41, e42, e43, x11, x12, x13, x14, x21, x22, x23, x24, x31, x32, x33, x34, x41, x42, x43, x44, m12, m13, m14, m21, m23, m24, m31, m32, m34, m41, m42, m43]) (by simp [fromTriplet, Pt.lt, Pt.gt, f1, f2, f3, f4, c11, c12, c13, c14, c21, c22, c23, c24, c31, c32, c33, c34, c41, c42, c43, c44, e12, e13, e14, e21, e23, e24, e31, e32, e34, e41, e42, e43, x11, x12, x13, x14, x21, x22, x23, x24, x31, x32, x33, x34, x41, x42, x43, x44, m12, m13, m14, m21, m23, m24, m31, m32, m34, m41, m42, m43]) (by simp [fromTriplet, Pt.lt, Pt.gt, f1, f2, f3, f4, c11, c12, c13, c14, c21, c22, c23, c24, c31, c32, c33, c34, c41, c42, c43, c44, e12, e13, e14, e21, e23, e24, e31, e32, e34, e41, e42, e43, x11, x12, x13, x14, x21, x22, x23, x24, x31, x32, x33, x34, x41, x42, x43, x44, m12, m13, m14, m21, m23, m24, m31, m32, m34, m41, m42, m43])
      (by simp [f1, f2, f3, f4, c11, c12, c13, c14, c21, c22, c23, c24, c31, c32, c33, c34, c41, c42, c43, c44, e12, e13, e14, e21, e23, e24, e31, e32, e34, e41, e42, e43, x11, x12, x13, x14, x21, x22, x23, x24, x31, x32, x33, x34, x41, x42, x43, x44, m12, m13, m14, m21, m23, m24, m31, m32, m34, m41, m42, m43])) hr ho hm, ?_⟩
    sym8 hg
  · -- abscissae in the order of the input positions (1, 3, 0, 2): ring `Z`
    obtain ⟨f1, f2, f3, f4, c11, c12, c13, c14, c21, c22, c23, c24, c31, c32, c33, c34, c41, c42, c43, c44, e12, e13, e14, e21, e23, e24, e31, e32, e34, e41, e42, e43, x11, x12, x13, x14, x21, x22, x23, x24, x31, x32, x33, x34, x41, x42, x43, x44, m12, m13, m14, m21, m23, m24, m31, m32, m34, m41, m42, m43⟩ := ord4_fin (P 1) (P 3) (P 0) (P 2) h12 h23 h34
    have hsq : SimpleQuad (P 1) (P 0) (P 3) (P 2) := by sym8 hs
    obtain ⟨s', t1, t2, hr, ho, hm, hg⟩ := ringZ_run false
      (ringQ (Fq (P 0)) (Fq (P 1)) (Fq (P 2)) (Fq (P 3))) 1 3 0 2 (P 1) (P 3) (P 0) (P 2)
      rfl rfl rfl rfl h12 h23 h34 hsq
    refine ⟨t1, t2, sweepMon_quad (setup_quad _ _ _ _ [(1, []), (3, [])] .end_ .start .end_ .start
      (validPt_fq _ _ (by simp)) (validPt_fq _ _ (by simp [f1, f2, f3, f4, c11, c12, c13, c14, c21, c22, c23, c24, c31, c32, c33, c34, c41, c42, c43, c44, e12, e13, e14, e21, e23, e24, e31, e32, e34, e41, e42, e43, x11, x12, x13, x14, x21, x22, x23, x24, x31, x32, x33, x34, x41, x42, x43, x44, m12, m13, m14, m21, m23, m24, m31, m32, m34, m41, m42, m43]))
      (validPt_fq _ _ (by simp [f1, f2, f3, f4, c11, c12, c13, c14, c21, c22, c23, c24, c31, c32, c33, c34, c41, c42, c43, c44, e12, e13, e14, e21, e23, e24, e31, e32, e34, e41, e42, e43, x11, x12, x13, x14, x21, x22, x23, x24, x31, x32, x33, x34, x41, x42, x43, x44, m12, m13, m14, m21, m23, m24, m31, m32, m34, m41, m42, m43])) (validPt_fq _ _ (by simp [f1, f2, f3, f4, c11, c12, c13, c14, c21, c22, c23, c24, c31, c32, c33, c34, c41, c42, c43, c44, e12, e13, e14, e21, e23, e24, e31, e32, e34, e41, e42, e43, x11, x12, x13, x14, x21, x22, x23, x24, x31, x32, x33, x34, x41, x42, x43, x44, m12, m13, m14, m21, m23, m24, m31, m32, m34, m41, m42, m43]))
      (by simp [fromTriplet, Pt.lt, Pt.gt, f1, f2, f3, f4, c11, c12, c13, c14, c21, c22, c23, c24, c31, c32, c33, c34, c41, c42, c43, c44, e12, e13, e14, e21, e23, e24, e31, e32, e34, e41, e42, e43, x11, x12, x13, x14, x21, x22, x23, x24, x31, x32, x33, x34, x41, x42, x43, x44, m12, m13, m14, m21, m23, m24, m31, m32, m34, m41, m42, m43]) (by simp [fromTriplet, Pt.lt, Pt.gt, f1, f2, f3, f4, c11, c12, c13, c14, c21, c22, c23, c24, c31, c32, c33, c34, c41, c42, c43, c44, e12, e13, e14, e21, e23, e24, e31, e32, e34, e41, e42, e43, x11, x12, x13, x14, x21, x22, x23, x24, x31, x32, x33, x34, x41, x42, x43, x44, m12, m13, m14, m21, m23, m24, m31, m32, m34, m41, m42, m43]) (by simp [fromTriplet, Pt.lt, Pt.gt, f1, f2, f3, f4, c11, c12, c13, c14, c21, c22, c23, c24, c31, c32, c33, c34, c41, c42, c43, c44, e12, e13, e14, e21, e23, e24, e31, e32, e34, e41, e42, e43, x11, x12, x13, x14, x21, x22, x23, x24, x31, x32, x33, x34, x41, x42, x43, x44, m12, m13, m14, m21, m23, m24, m31, m32, m34, m41, m42, m43]) (by simp [fromTriplet, Pt.lt, Pt.gt, f1, f2, f3, f4, c11, c12, c13, c14, c21, c22, c23, c24, c31, c32, c33, c34, c41, c42, c43, c44, e12, e13, e14, e21, e23, e24, e31, e32, e34, e41, e42, e43, x11, x12, x13, x14, x21, x22, x23, x24, x31, x32, x33, x34, x41, x42, x43, x44, m12, m13, m14, m21, m23, m24, m31, m32, m34, m41, m42, m43])
      (by simp [f1, f2, f3, f4, c11, c12, c13, c14, c21, c22, c23, c24, c31, c32, c33, c34, c41, c42, c43, c44, e12, e13, e14, e21, e23, e24, e31, e32, e34, e41, e42, e43, x11, x12, x13, x14, x21, x22, x23, x24, x31, x32, x33, x34, x41, x42, x43, x44, m12, m13, m14, m21, m23, m24, m31, m32, m34, m41, m42, m43])) hr ho hm, ?_⟩
    sym8 hg
  · -- abscissae in the order of the input positions (1, 3, 2, 0): ring `Z`
    obtain ⟨f1, f2, f3, f4, c11, c12, c13, c14, c21, c22, c23, c24, c31, c32, c33, c34, c41, c42, c43, c44, e12, e13, e14, e21, e23, e24, e31, e32, e34, e41, e42, e43, x11, x12, x13, x14, x21, x22, x23, x24, x31, x32, x33, x34, x41, x42, x43, x44, m12, m13, m14, m21, m23, m24, m31, m32, m34, m41, m42, m43⟩ := ord4_fin (P 1) (P 3) (P 2) (P 0) h12 h23 h34
    have hsq : SimpleQuad (P 1) (P 2) (P 3) (P 0) := by sym8 hs
    obtain ⟨s', t1, t2, hr, ho, hm, hg⟩ := ringZ_run true
      (ringQ (Fq (P 0)) (Fq (P 1)) (Fq (P 2)) (Fq (P 3))) 1 3 2 0 (P 1) (P 3) (P 2) (P 0)
      rfl rfl rfl rfl h12 h23 h34 hsq
    refine ⟨t1, t2, sweepMon_quad (setup_quad _ _ _ _ [(1, []), (3, [])] .end_ .start .end_ .start
      (validPt_fq _ _ (by simp)) (validPt_fq _ _ (by simp [f1, f2, f3, f4, c11, c12, c13, c14, c21, c22, c23, c24, c31, c32, c33, c34, c41, c42, c43, c44, e12, e13, e14, e21, e23, e24, e31, e32, e34, e41, e42, e43, x11, x12, x13, x14, x21, x22, x23, x24, x31, x32, x33, x34, x41, x42, x43, x44, m12, m13, m14, m21, m23, m24, m31, m32, m34, m41, m42, m43]))
      (validPt_fq _ _ (by simp [f1, f2, f3, f4, c11, c12, c13, c14, c21, c22, c23, c24, c31, c32, c33, c34, c41, c42, c43, c44, e12, e13, e14, e21, e23, e24, e31, e32, e34, e41, e42, e43, x11, x12, x13, x14, x21, x22, x23, x24, x31, x32, x33, x34, x41, x42, x43, x44, m12, m13, m14, m21, m23, m24, m31, m32, m34, m41, m42, m43])) (validPt_fq _ _ (by simp [f1, f2, f3, f4, c11, c12, c13, c14, c21, c22, c23, c24, c31, c32, c33, c34, c41, c42, c43, c44, e12, e13, e14, e21, e23, e24, e31, e32, e34, e41, e42, e43, x11, x12, x13, x14, x21, x22, x23, x24, x31, x32, x33, x34, x41, x42, x43, x44, m12, m13, m14, m21, m23, m24, m31, m32, m34, m41, m42, m43]))
      (by simp [fromTriplet, Pt.lt, Pt.gt, f1, f2, f3, f4, c11, c12, c13, c14, c21, c22, c23, c24, c31, c32, c33, c34, c41, c42, c43, c44, e12, e13, e14, e21, e23, e24, e31, e32, e34, e41, e42, e43, x11, x12, x13, x14, x21, x22, x23, x24, x31, x32, x33, x34, x41, x42, x43, x44, m12, m13, m14, m21, m23, m24, m31, m32, m34, m41, m42, m43]) (by simp [fromTriplet, Pt.lt, Pt.gt, f1, f2, f3, f4, c11, c12, c13, c14, c21, c22, c23, c24, c31, c32, c33, c34, c41, c42, c43, c44, e12, e13, e14, e21, e23, e24, e31, e32, e34, e41, e42, e43, x11, x12, x13, x14, x21, x22, x23, x24, x31, x32, x33, x34, x41, x42, x43, x44, m12, m13, m14, m21, m23, m24, m31, m32, m34, m41, m42, m43]) (by simp [fromTriplet, Pt.lt, Pt.gt, f1, f2, f3, f4, c11, c12, c13, c14, c21, c22, c23, c24, c31, c32, c33, c34, c41, c42, c43, c44, e12, e13, e14, e21, e23, e24, e31, e32, e34, e41, e42, e43, x11, x12, x13, x14, x21, x22, x23, x24, x31, x32, x33, x34, x41, x42, x43, x44, m12, m13, m14, m21, m23, m24, m31, m32, m34, m41, m42, m43]) (by simp [fromTriplet, Pt.lt, Pt.gt, f1, f2, f3, f4, c11, c12, c13, c14, c21, c22, c23, c24, c31, c32, c33, c34, c41, c42, c43, c44, e12, e13, e14, e21, e23, e24, e31, e32, e34, e41, e42, e43, x11, x12, x13, x14, x21, x22, x23, x24, x31, x32, x33, x34, x41, x42, x43, x44, m12, m13, m14, m21, m23, m24, m31, m32, m34, m41, m42, m43])
      (by simp [f1, f2, f3, f4, c11, c12, c13, c14, c21, c22, c23, c24, c31, c32, c33, c34, c41, c42, c43, c44, e12, e13, e14, e21, e23, e24, e31, e32, e34, e41, e42, e43, x11, x12, x13, x14, x21, x22, x23, x24, x31, x32, x33, x34, x41, x42, x43, x44, m12, m13, m14, m21, m23, m24, m31, m32, m34, m41, m42, m43])) hr ho hm, ?_⟩
    sym8 hg
  · -- abscissae in the order of the input positions (2, 0, 1, 3): ring `Z`
    obtain ⟨f1, f2, f3, f4, c11, c12, c13, c14, c21, c22, c23, c24, c31, c32, c33, c34, c41, c42, c43, c44, e12, e13, e14, e21, e23, e24, e31, e32, e34, e41, e42, e43, x11, x12, x13, x14, x21, x22, x23, x24, x31, x32, x33, x34, x41, x42, x43, x44, m12, m13, m14, m21, m23, m24, m31, m32, m34, m41, m42, m43⟩ := ord4_fin (P 2) (P 0) (P 1) (P 3) h12 h23 h34
    have hsq : SimpleQuad (P 2) (P 1) (P 0) (P 3) := by sym8 hs
    obtain ⟨s', t1, t2, hr, ho, hm, hg⟩ := ringZ_run false
      (ringQ (Fq (P 0)) (Fq (P 1)) (Fq (P 2)) (Fq (P 3))) 2 0 1 3 (P 2) (P 0) (P 1) (P 3)
      rfl rfl rfl rfl h12 h23 h34 hsq
    refine ⟨t1, t2, sweepMon_quad (setup_quad _ _ _ _ [(2, []), (0, [])] .start .end_ .start .end_
      (validPt_fq _ _ (by simp)) (validPt_fq _ _ (by simp [f1, f2, f3, f4, c11, c12, c13, c14, c21, c22, c23, c24, c31, c32, c33, c34, c41, c42, c43, c44, e12, e13, e14, e21, e23, e24, e31, e32, e34, e41, e42, e43, x11, x12, x13, x14, x21, x22, x23, x24, x31, x32, x33, x34, x41, x42, x43, x44, m12, m13, m14, m21, m23, m24, m31, m32, m34, m41, m42, m43]))
      (validPt_fq _ _ (by simp [f1, f2, f3, f4, c11, c12, c13, c14, c21, c22, c23, c24, c31, c32, c33, c34, c41, c42, c43, c44, e12, e13, e14, e21, e23, e24, e31, e32, e34, e41, e42, e43, x11, x12, x13, x14, x21, x22, x23, x24, x31, x32, x33, x34, x41, x42, x43, x44, m12, m13, m14, m21, m23, m24, m31, m32, m34, m41, m42, m43])) (validPt_fq _ _ (by simp [f1, f2, f3, f4, c11, c12, c13, c14, c21, c22, c23, c24, c31, c32, c33, c34, c41, c42, c43, c44, e12, e13, e14, e21, e23, e24, e31, e32, e34, e41, e42, e43, x11, x12, x13, x14, x21, x22, x23, x24, x31, x32, x33, x34, x41, x42, x43, x44, m12, m13, m14, m21, m23, m24, m31, m32, m34, m41, m42, m43]))
      (by simp [fromTriplet, Pt.lt, Pt.gt, f1, f2, f3, f4, c11, c12, c13, c14, c21, c22, c23, c24, c31, c32, c33, c34, c41, c42, c43, c44, e12, e13, e14, e21, e23, e24, e31, e32, e34, e41, e42, e43, x11, x12, x13, x14, x21, x22, x23, x24, x31, x32, x33, x34, x41, x42, x43, x44, m12, m13, m14, m21, m23, m24, m31, m32, m34, m41, m42, m43]) (by simp [fromTriplet, Pt.lt, Pt.gt, f1, f2, f3, f4, c11, c12, c13, c14, c21, c22, c23, c24, c31, c32, c33, c34, c41, c42, c43, c44, e12, e13, e14, e21, e23, e24, e31, e32, e34, e41, e42, e43, x11, x12, x13, x14, x21, x22, x23, x24, x31, x32, x33, x34, x41, x42, x43, x44, m12, m13, m14, m21, m23, m24, m31, m32, m34, m41, m42, m43]) (by simp [fromTriplet, Pt.lt, Pt.gt, f1, f2, f3, f4, c11, c12, c13, c14, c21, c22, c23, c24, c31, c32, c33, c34, c41, c42, c43, c44, e12, e13, e14, e21, e23, e24, e31, e32, e34, e41, e42, e43, x11, x12, x13, x14, x21, x22, x23, x24, x31, x32, x33, x34, x41, x42, x43, x44, m12, m13, m14, m21, m23, m24, m31, m32, m34, m41, m42, m43]) (by simp [fromTriplet, Pt.lt, Pt.gt, f1, f2, f3, f4, c11, c12, c13, c14, c21, c22, c23, c24, c31, c32, c33, c34, c41, c42, c43, c44, e12, e13, e14, e21, e23, e24, e31, e32, e34, e41, e42, e43, x11, x12, x13, x14, x21, x22, x23, x24, x31, x32, x33, x34, x41, x42, x43, x44, m12, m13, m14, m21, m23, m24, m31, m32, m34, m41, m42, m43])
      (by simp [f1, f2, f3, f4, c11, c12, c13, c14, c21, c22, c23, c24, c31, c32, c33, c34, c41, c42, c43, c44, e12, e13, e14, e21, e23, e24, e31, e32, e34, e41, e42, e43, x11, x12, x13, x14, x21, x22, x23, x24, x31, x32, x33, x34, x41, x42, x43, x44, m12, m13, m14, m21, m23, m24, m31, m32, m34, m41, m42, m43])) hr ho hm, ?_⟩
    sym8 hg
  · -- abscissae in the order of the input positions (2, 0, 3, 1): ring `Z`
    obtain ⟨f1, f2, f3, f4, c11, c12, c13, c14, c21, c22, c23, c24, c31, c32, c33, c34, c41, c42, c43, c44, e12, e13, e14, e21, e23, e24, e31, e32, e34, e41, e42, e43, x11, x12, x13, x14, x21, x22, x23, x24, x31, x32, x33, x34, x41, x42, x43, x44, m12, m13, m14, m21, m23, m24, m31, m32, m34, m41, m42, m43⟩ := ord4_fin (P 2) (P 0) (P 3) (P 1) h12 h23 h34
    have hsq : SimpleQuad (P 2) (P 3) (P 0) (P 1) := by sym8 hs
    obtain ⟨s', t1, t2, hr, ho, hm, hg⟩ := ringZ_run true
      (ringQ (Fq (P 0)) (Fq (P 1)) (Fq (P 2)) (Fq (P 3))) 2 0 3 1 (P 2) (P 0) (P 3) (P 1)
      rfl rfl rfl rfl h12 h23 h34 hsq
    refine ⟨t1, t2, sweepMon_quad (setup_quad _ _ _ _ [(2, []), (0, [])] .start .end_ .start .end_
      (validPt_fq _ _ (by simp)) (validPt_fq _ _ (by simp [f1, f2, f3, f4, c11, c12, c13, c14, c21, c22, c23, c24, c31, c32, c33, c34, c41, c42, c43, c44, e12, e13, e14, e21, e23, e24, e31, e32, e34, e41, e42, e43, x11, x12, x13, x14, x21, x22, x23, x24, x31, x32, x33, x34, x41, x42, x43, x44, m12, m13, m14, m21, m23, m24, m31, m32, m34, m41, m42, m43]))
      (validPt_fq _ _ (by simp [f1, f2, f3, f4, c11, c12, c13, c14, c21, c22, c23, c24, c31, c32, c33, c34, c41, c42, c43, c44, e12, e13, e14, e21, e23, e24, e31, e32, e34, e41, e42, e43, x11, x12, x13, x14, x21, x22, x23, x24, x31, x32, x33, x34, x41, x42, x43, x44, m12, m13, m14, m21, m23, m24, m31, m32, m34, m41, m42, m43])) (validPt_fq _ _ (by simp [f1, f2, f3, f4, c11, c12, c13, c14, c21, c22, c23, c24, c31, c32, c33, c34, c41, c42, c43, c44, e12, e13, e14, e21, e23, e24, e31, e32, e34, e41, e42, e43, x11, x12, x13, x14, x21, x22, x23, x24, x31, x32, x33, x34, x41, x42, x43, x44, m12, m13, m14, m21, m23, m24, m31, m32, m34, m41, m42, m43]))
      (by simp [fromTriplet, Pt.lt, Pt.gt, f1, f2, f3, f4, c11, c12, c13, c14, c21, c22, c23, c24, c31, c32, c33, c34, c41, c42, c43, c44, e12, e13, e14, e21, e23, e24, e31, e32, e34, e41, e42, e43, x11, x12, x13, x14, x21, x22, x23, x24, x31, x32, x33, x34, x41, x42, x43, x44, m12, m13, m14, m21, m23, m24, m31, m32, m34, m41, m42, m43]) (by simp [fromTriplet, Pt.lt, Pt.gt, f1, f2, f3, f4, c11, c12, c13, c14, c21, c22, c23, c24, c31, c32, c33, c34, c41, c42, c43, c44, e12, e13, e14, e21, e23, e24, e31, e32, e34, e41, e42, e43, x11, x12, x13, x14, x21, x22, x23, x24, x31, x32, x33, x34, x41, x42, x43, x44, m12, m13, m14, m21, m23, m24, m31, m32, m34, m41, m42, m43]) (by simp [fromTriplet, Pt.lt, Pt.gt, f1, f2, f3, f4, c11, c12, c13, c14, c21, c22, c23, c24, c31, c32, c33, c34, c41, c42, c43, c44, e12, e13, e14, e21, e23, e24, e31, e32, e34, e41, e42, e43, x11, x12, x13, x14, x21, x22, x23, x24, x31, x32, x33, x34, x41, x42, x43, x44, m12, m13, m14, m21, m23, m24, m31, m32, m34, m41, m42, m43]) (by simp [fromTriplet, Pt.lt, Pt.gt, f1, f2, f3, f4, c11, c12, c13, c14, c21, c22, c23, c24, c31, c32, c33, c34, c41, c42, c43, c44, e12, e13, e14, e21, e23, e24, e31, e32, e34, e41, e42, e43, x11, x12, x13, x14, x21, x22, x23, x24, x31, x32, x33, x34, x41, x42, x43, x44, m12, m13, m14, m21, m23, m24, m31, m32, m34, m41, m42, m43])
      (by simp [f1, f2, f3, f4, c11, c12, c13, c14, c21, c22, c23, c24, c31, c32, c33, c34, c41, c42, c43, c44, e12, e13, e14, e21, e23, e24, e31, e32, e34, e41, e42, e43, x11, x12, x13, x14, x21, x22, x23, x24, x31, x32, x33, x34, x41, x42, x43, x44, m12, m13, m14, m21, m23, m24, m31, m32, m34, m41, m42, m43])) hr ho hm, ?_⟩
    sym8 hg
  · -- abscissae in the order of the input positions (2, 1, 0, 3): ring `A`
    obtain ⟨f1, f2, f3, f4, c11, c12, c13, c14, c21, c22, c23, c24, c31, c32, c33, c34, c41, c42, c43, c44, e12, e13, e14, e21, e23, e24, e31, e32, e34, e41, e42, e43, x11, x12, x13, x14, x21, x22, x23, x24, x31, x32, x33, x34, x41, x42, x43, x44, m12, m13, m14, m21, m23, m24, m31, m32, m34, m41, m42, m43⟩ := ord4_fin (P 2) (P 1) (P 0) (P 3) h12 h23 h34
    have hsq : SimpleQuad (P 2) (P 1) (P 0) (P 3) := by sym8 hs
    obtain ⟨s', t1, t2, hr, ho, hm, hg⟩ := ringA_run false
      (ringQ (Fq (P 0)) (Fq (P 1)) (Fq (P 2)) (Fq (P 3))) 2 1 0 3 (P 2) (P 1) (P 0) (P 3)
      rfl rfl rfl rfl h12 h23 h34 hsq
    refine ⟨t1, t2, sweepMon_quad (setup_quad _ _ _ _ [(2, [])] .bend .bend .start .end_
      (validPt_fq _ _ (by simp)) (validPt_fq _ _ (by simp [f1, f2, f3, f4, c11, c12, c13, c14, c21, c22, c23, c24, c31, c32, c33, c34, c41, c42, c43, c44, e12, e13, e14, e21, e23, e24, e31, e32, e34, e41, e42, e43, x11, x12, x13, x14, x21, x22, x23, x24, x31, x32, x33, x34, x41, x42, x43, x44, m12, m13, m14, m21, m23, m24, m31, m32, m34, m41, m42, m43]))
      (validPt_fq _ _ (by simp [f1, f2, f3, f4, c11, c12, c13, c14, c21, c22, c23, c24, c31, c32, c33, c34, c41, c42, c43, c44, e12, e13, e14, e21, e23, e24, e31, e32, e34, e41, e42, e43, x11, x12, x13, x14, x21, x22, x23, x24, x31, x32, x33, x34, x41, x42, x43, x44, m12, m13, m14, m21, m23, m24, m31, m32, m34, m41, m42, m43])) (validPt_fq _ _ (by simp [f1, f2, f3, f4, c11, c12, c13, c14, c21, c22, c23, c24, c31, c32, c33, c34, c41, c42, c43, c44, e12, e13, e14, e21, e23, e24, e31, e32, e34, e41, e42, e43, x11, x12, x13, x14, x21, x22, x23, x24, x31, x32, x33, x34, x41, x42, x43, x44, m12, m13, m14, m21, m23, m24, m31, m32, m34, m41, m42, m43]))
      (by simp [fromTriplet, Pt.lt, Pt.gt, f1, f2, f3, f4, c11, c12, c13, c14, c21, c22, c23, c24, c31, c32, c33, c34, c41, c42, c43, c44, e12, e13, e14, e21, e23, e24, e31, e32, e34, e41, e42, e43, x11, x12, x13, x14, x21, x22, x23, x24, x31, x32, x33, x34, x41, x42, x43, x44, m12, m13, m14, m21, m23, m24, m31, m32, m34, m41, m42, m43]) (by simp [fromTriplet, Pt.lt, Pt.gt, f1, f2, f3, f4, c11, c12, c13, c14, c21, c22, c23, c24, c31, c32, c33, c34, c41, c42, c43, c44, e12, e13, e14, e21, e23, e24, e31, e32, e34, e41, e42, e43, x11, x12, x13, x14, x21, x22, x23, x24, x31, x32, x33, x34, x41, x42, x43, x44, m12, m13, m14, m21, m23, m24, m31, m32, m34, m41, m42, m43]) (by simp [fromTriplet, Pt.lt, Pt.gt, f1, f2, f3, f4, c11, c12, c13, c14, c21, c22, c23, c24, c31, c32, c33, c34, c41, c42, c43, c44, e12, e13, e14, e21, e23, e24, e31, e32, e34, e41, e42, e43, x11, x12, x13, x14, x21, x22, x23, x24, x31, x32, x33, x34, x41, x42, x43, x44, m12, m13, m14, m21, m23, m24, m31, m32, m34, m41, m42, m43]) (by simp [fromTriplet, Pt.lt, Pt.gt, f1, f2, f3, f4, c11, c12, c13, c14, c21, c22, c23, c24, c31, c32, c33, c34, c41, c42, c43, c44, e12, e13, e14, e21, e23, e24, e31, e32, e34, e41, e42, e43, x11, x12, x13, x14, x21, x22, x23, x24, x31, x32, x33, x34, x41, x42, x43, x44, m12, m13, m14, m21, m23, m24, m31, m32, m34, m41, m42, m43])
      (by simp [f1, f2, f3, f4, c11, c12, c13, c14, c21, c22, c23, c24, c31, c32, c33, c34, c41, c42, c43, c44, e12, e13, e14, e21, e23, e24, e31, e32, e34, e41, e42, e43, x11, x12, x13, x14, x21, x22, x23, x24, x31, x32, x33, x34, x41, x42, x43, x44, m12, m13, m14, m21, m23, m24, m31, m32, m34, m41, m42, m43])) hr ho hm, ?_⟩
    sym8 hg
  · -- abscissae in the order of the input positions (2, 1, 3, 0): ring `O`
    obtain ⟨f1, f2, f3, f4, c11, c12, c13, c14, c21, c22, c23, c24, c31, c32, c33, c34, c41, c42, c43, c44, e12, e13, e14, e21, e23, e24, e31, e32, e34, e41, e42, e43, x11, x12, x13, x14, x21, x22, x23, x24, x31, x32, x33, x34, x41, x42, x43, x44, m12, m13, m14, m21, m23, m24, m31, m32, m34, m41, m42, m43⟩ := ord4_fin (P 2) (P 1) (P 3) (P 0) h12 h23 h34
    have hsq : SimpleQuad (P 2) (P 1) (P 0) (P 3) := by sym8 hs
    obtain ⟨s', t1, t2, hr, ho, hm, hg⟩ := ringO_run true
      (ringQ (Fq (P 0)) (Fq (P 1)) (Fq (P 2)) (Fq (P 3))) 2 1 3 0 (P 2) (P 1) (P 3) (P 0)
      rfl rfl rfl rfl h12 h23 h34 hsq
    refine ⟨t1, t2, sweepMon_quad (setup_quad _ _ _ _ [(2, [])] .end_ .bend .start .bend
      (validPt_fq _ _ (by simp)) (validPt_fq _ _ (by simp [f1, f2, f3, f4, c11, c12, c13, c14, c21, c22, c23, c24, c31, c32, c33, c34, c41, c42, c43, c44, e12, e13, e14, e21, e23, e24, e31, e32, e34, e41, e42, e43, x11, x12, x13, x14, x21, x22, x23, x24, x31, x32, x33, x34, x41, x42, x43, x44, m12, m13, m14, m21, m23, m24, m31, m32, m34, m41, m42, m43]))
      (validPt_fq _ _ (by simp [f1, f2, f3, f4, c11, c12, c13, c14, c21, c22, c23, c24, c31, c32, c33, c34, c41, c42, c43, c44, e12, e13, e14, e21, e23, e24, e31, e32, e34, e41, e42, e43, x11, x12, x13, x14, x21, x22, x23, x24, x31, x32, x33, x34, x41, x42, x43, x44, m12, m13, m14, m21, m23, m24, m31, m32, m34, m41, m42, m43])) (validPt_fq _ _ (by simp [f1, f2, f3, f4, c11, c12, c13, c14, c21, c22, c23, c24, c31, c32, c33, c34, c41, c42, c43, c44, e12, e13, e14, e21, e23, e24, e31, e32, e34, e41, e42, e43, x11, x12, x13, x14, x21, x22, x23, x24, x31, x32, x33, x34, x41, x42, x43, x44, m12, m13, m14, m21, m23, m24, m31, m32, m34, m41, m42, m43]))
      (by simp [fromTriplet, Pt.lt, Pt.gt, f1, f2, f3, f4, c11, c12, c13, c14, c21, c22, c23, c24, c31, c32, c33, c34, c41, c42, c43, c44, e12, e13, e14, e21, e23, e24, e31, e32, e34, e41, e42, e43, x11, x12, x13, x14, x21, x22, x23, x24, x31, x32, x33, x34, x41, x42, x43, x44, m12, m13, m14, m21, m23, m24, m31, m32, m34, m41, m42, m43]) (by simp [fromTriplet, Pt.lt, Pt.gt, f1, f2, f3, f4, c11, c12, c13, c14, c21, c22, c23, c24, c31, c32, c33, c34, c41, c42, c43, c44, e12, e13, e14, e21, e23, e24, e31, e32, e34, e41, e42, e43, x11, x12, x13, x14, x21, x22, x23, x24, x31, x32, x33, x34, x41, x42, x43, x44, m12, m13, m14, m21, m23, m24, m31, m32, m34, m41, m42, m43]) (by simp [fromTriplet, Pt.lt, Pt.gt, f1, f2, f3, f4, c11, c12, c13, c14, c21, c22, c23, c24, c31, c32, c33, c34, c41, c42, c43, c44, e12, e13, e14, e21, e23, e24, e31, e32, e34, e41, e42, e43, x11, x12, x13, x14, x21, x22, x23, x24, x31, x32, x33, x34, x41, x42, x43, x44, m12, m13, m14, m21, m23, m24, m31, m32, m34, m41, m42, m43]) (by simp [fromTriplet, Pt.lt, Pt.gt, f1, f2, f3, f4, c11, c12, c13, c14, c21, c22, c23, c24, c31, c32, c33, c34, c41, c42, c43, c44, e12, e13, e14, e21, e23, e24, e31, e32, e34, e41, e42, e43, x11, x12, x13, x14, x21, x22, x23, x24, x31, x32, x33, x34, x41, x42, x43, x44, m12, m13, m14, m21, m23, m24, m31, m32, m34, m41, m42, m43])
      (by simp [f1, f2, f3, f4, c11, c12, c13, c14, c21, c22, c23, c24, c31, c32, c33, c34, c41, c42, c43, c44, e12, e13, e14, e21, e23, e24, e31, e32, e34, e41, e42, e43, x11, x12, x13, x14, x21, x22, x23, x24, x31, x32, x33, x34, x41, x42, x43, x44, m12, m13, m14, m21, m23, m24, m31, m32, m34, m41, m42, m43])) hr ho hm, ?_⟩
    sym8 hg
  · -- abscissae in the order of the input positions (2, 3, 0, 1): ring `A`
    obtain ⟨f1, f2, f3, f4, c11, c12, c13, c14, c21, c22, c23, c24, c31, c32, c33, c34, c41, c42, c43, c44, e12, e13, e14, e21, e23, e24, e31, e32, e34, e41, e42, e43, x11, x12, x13, x14, x21, x22, x23, x24, x31, x32, x33, x34, x41, x42, x43, x44, m12, m13, m14, m21, m23, m24, m31, m32, m34, m41, m42, m43⟩ := ord4_fin (P 2) (P 3) (P 0) (P 1) h12 h23 h34
    have hsq : SimpleQuad (P 2) (P 3) (P 0) (P 1) := by sym8 hs
    obtain ⟨s', t1, t2, hr, ho, hm, hg⟩ := ringA_run true
      (ringQ (Fq (P 0)) (Fq (P 1)) (Fq (P 2)) (Fq (P 3))) 2 3 0 1 (P 2) (P 3) (P 0) (P 1)
      rfl rfl rfl rfl h12 h23 h34 hsq
    refine ⟨t1, t2, sweepMon_quad (setup_quad _ _ _ _ [(2, [])] .bend .end_ .start .bend
      (validPt_fq _ _ (by simp)) (validPt_fq _ _ (by simp [f1, f2, f3, f4, c11, c12, c13, c14, c21, c22, c23, c24, c31, c32, c33, c34, c41, c42, c43, c44, e12, e13, e14, e21, e23, e24, e31, e32, e34, e41, e42, e43, x11, x12, x13, x14, x21, x22, x23, x24, x31, x32, x33, x34, x41, x42, x43, x44, m12, m13, m14, m21, m23, m24, m31, m32, m34, m41, m42, m43]))
      (validPt_fq _ _ (by simp [f1, f2, f3, f4, c11, c12, c13, c14, c21, c22, c23, c24, c31, c32, c33, c34, c41, c42, c43, c44, e12, e13, e14, e21, e23, e24, e31, e32, e34, e41, e42, e43, x11, x12, x13, x14, x21, x22, x23, x24, x31, x32, x33, x34, x41, x42, x43, x44, m12, m13, m14, m21, m23, m24, m31, m32, m34, m41, m42, m43])) (validPt_fq _ _ (by simp [f1, f2, f3, f4, c11, c12, c13, c14, c21, c22, c23, c24, c31, c32, c33, c34, c41, c42, c43, c44, e12, e13, e14, e21, e23, e24, e31, e32, e34, e41, e42, e43, x11, x12, x13, x14, x21, x22, x23, x24, x31, x32, x33, x34, x41, x42, x43, x44, m12, m13, m14, m21, m23, m24, m31, m32, m34, m41, m42, m43]))
      (by simp [fromTriplet, Pt.lt, Pt.gt, f1, f2, f3, f4, c11, c12, c13, c14, c21, c22, c23, c24, c31, c32, c33, c34, c41, c42, c43, c44, e12, e13, e14, e21, e23, e24, e31, e32, e34, e41, e42, e43, x11, x12, x13, x14, x21, x22, x23, x24, x31, x32, x33, x34, x41, x42, x43, x44, m12, m13, m14, m21, m23, m24, m31, m32, m34, m41, m42, m43]) (by simp [fromTriplet, Pt.lt, Pt.gt, f1, f2, f3, f4, c11, c12, c13, c14, c21, c22, c23, c24, c31, c32, c33, c34, c41, c42, c43, c44, e12, e13, e14, e21, e23, e24, e31, e32, e34, e41, e42, e43, x11, x12, x13, x14, x21, x22, x23, x24, x31, x32, x33, x34, x41, x42, x43, x44, m12, m13, m14, m21, m23, m24, m31, m32, m34, m41, m42, m43]) (by simp [fromTriplet, Pt.lt, Pt.gt, f1, f2, f3, f4, c11, c12, c13, c14, c21, c22, c23, c24, c31, c32, c33, c34, c41, c42, c43, c44, e12, e13, e14, e21, e23, e24, e31, e32, e34, e41, e42, e43, x11, x12, x13, x14, x21, x22, x23, x24, x31, x32, x33, x34, x41, x42, x43, x44, m12, m13, m14, m21, m23, m24, m31, m32, m34, m41, m42, m43]) (by simp [fromTriplet, Pt.lt, Pt.gt, f1, f2, f3, f4, c11, c12, c13, c14, c21, c22, c23, c24, c31, c32, c33, c34, c41, c42, c43, c44, e12, e13, e14, e21, e23, e24, e31, e32, e34, e41, e42, e43, x11, x12, x13, x14, x21, x22, x23, x24, x31, x32, x33, x34, x41, x42, x43, x44, m12, m13, m14, m21, m23, m24, m31, m32, m34, m41, m42, m43])
      (by simp [f1, f2, f3, f4, c11, c12, c13, c14, c21, c22, c23, c24, c31, c32, c33, c34, c41, c42, c43, c44, e12, e13, e14, e21, e23, e24, e31, e32, e34, e41, e42, e43, x11, x12, x13, x14, x21, x22, x23, x24, x31, x32, x33, x34, x41, x42, x43, x44, m12, m13, m14, m21, m23, m24, m31, m32, m34, m41, m42, m43])) hr ho hm, ?_⟩
    sym8 hg
  · -- abscissae in the order of the input positions (2, 3, 1, 0): ring `O`
    obtain ⟨f1, f2, f3, f4, c11, c12, c13, c14, c21, c22, c23, c24, c31, c32, c33, c34, c41, c42, c43, c44, e12, e13, e14, e21, e23, e24, e31, e32, e34, e41, e42, e43, x11, x12, x13, x14, x21, x22, x23, x24, x31, x32, x33, x34, x41, x42, x43, x44, m12, m13, m14, m21, m23, m24, m31, m32, m34, m41, m42, m43⟩ := ord4_fin (P 2) (P 3) (P 1) (P 0) h12 h23 h34
    have hsq : SimpleQuad (P 2) (P 3) (P 0) (P 1) := by sym8 hs
    obtain ⟨s', t1, t2, hr, ho, hm, hg⟩ := ringO_run false
      (ringQ (Fq (P 0)) (Fq (P 1)) (Fq (P 2)) (Fq (P 3))) 2 3 1 0 (P 2) (P 3) (P 1) (P 0)
      rfl rfl rfl rfl h12 h23 h34 hsq
    refine ⟨t1, t2, sweepMon_quad (setup_quad _ _ _ _ [(2, [])] .end_ .bend .start .bend
      (validPt_fq _ _ (by simp)) (validPt_fq _ _ (by simp [f1, f2, f3, f4, c11, c12, c13, c14, c21, c22, c23, c24, c31, c32, c33, c34, c41, c42, c43, c44, e12, e13, e14, e21, e23, e24, e31, e32, e34, e41, e42, e43, x11, x12, x13, x14, x21, x22, x23, x24, x31, x32, x33, x34, x41, x42, x43, x44, m12, m13, m14, m21, m23, m24, m31, m32, m34, m41, m42, m43]))
      (validPt_fq _ _ (by simp [f1, f2, f3, f4, c11, c12, c13, c14, c21, c22, c23, c24, c31, c32, c33, c34, c41, c42, c43, c44, e12, e13, e14, e21, e23, e24, e31, e32, e34, e41, e42, e43, x11, x12, x13, x14, x21, x22, x23, x24, x31, x32, x33, x34, x41, x42, x43, x44, m12, m13, m14, m21, m23, m24, m31, m32, m34, m41, m42, m43])) (validPt_fq _ _ (by simp [f1, f2, f3, f4, c11, c12, c13, c14, c21, c22, c23, c24, c31, c32, c33, c34, c41, c42, c43, c44, e12, e13, e14, e21, e23, e24, e31, e32, e34, e41, e42, e43, x11, x12, x13, x14, x21, x22, x23, x24, x31, x32, x33, x34, x41, x42, x43, x44, m12, m13, m14, m21, m23, m24, m31, m32, m34, m41, m42, m43]))
      (by simp [fromTriplet, Pt.lt, Pt.gt, f1, f2, f3, f4, c11, c12, c13, c14, c21, c22, c23, c24, c31, c32, c33, c34, c41, c42, c43, c44, e12, e13, e14, e21, e23, e24, e31, e32, e34, e41, e42, e43, x11, x12, x13, x14, x21, x22, x23, x24, x31, x32, x33, x34, x41, x42, x43, x44, m12, m13, m14, m21, m23, m24, m31, m32, m34, m41, m42, m43]) (by simp [fromTriplet, Pt.lt, Pt.gt, f1, f2, f3, f4, c11, c12, c13, c14, c21, c22, c23, c24, c31, c32, c33, c34, c41, c42, c43, c44, e12, e13, e14, e21, e23, e24, e31, e32, e34, e41, e42, e43, x11, x12, x13, x14, x21, x22, x23, x24, x31, x32, x33, x34, x41, x42, x43, x44, m12, m13, m14, m21, m23, m24, m31, m32, m34, m41, m42, m43]) (by simp [fromTriplet, Pt.lt, Pt.gt, f1, f2, f3, f4, c11, c12, c13, c14, c21, c22, c23, c24, c31, c32, c33, c34, c41, c42, c43, c44, e12, e13, e14, e21, e23, e24, e31, e32, e34, e41, e42, e43, x11, x12, x13, x14, x21, x22, x23, x24, x31, x32, x33, x34, x41, x42, x43, x44, m12, m13, m14, m21, m23, m24, m31, m32, m34, m41, m42, m43]) (by simp [fromTriplet, Pt.lt, Pt.gt, f1, f2, f3, f4, c11, c12, c13, c14, c21, c22, c23, c24, c31, c32, c33, c34, c41, c42, c43, c44, e12, e13, e14, e21, e23, e24, e31, e32, e34, e41, e42, e43, x11, x12, x13, x14, x21, x22, x23, x24, x31, x32, x33, x34, x41, x42, x43, x44, m12, m13, m14, m21, m23, m24, m31, m32, m34, m41, m42, m43])
      (by simp [f1, f2, f3, f4, c11, c12, c13, c14, c21, c22, c23, c24, c31, c32, c33, c34, c41, c42, c43, c44, e12, e13, e14, e21, e23, e24, e31, e32, e34, e41, e42, e43, x11, x12, x13, x14, x21, x22, x23, x24, x31, x32, x33, x34, x41, x42, x43, x44, m12, m13, m14, m21, m23, m24, m31, m32, m34, m41, m42, m43])) hr ho hm, ?_⟩
    sym8 hg
  · -- abscissae in the order of the input positions (3, 0, 1, 2): ring `A`
    obtain ⟨f1, f2, f3, f4, c11, c12, c13, c14, c21, c22, c23, c24, c31, c32, c33, c34, c41, c42, c43, c44, e12, e13, e14, e21, e23, e24, e31, e32, e34, e41, e42, e43, x11, x12, x13, x14, x21, x22, x23, x24, x31, x32, x33, x34, x41, x42, x43, x44, m12, m13, m14, m21, m23, m24, m31, m32, m34, m41, m42, m43⟩ := ord4_fin (P 3) (P 0) (P 1) (P 2) h12 h23 h34
    have hsq : SimpleQuad (P 3) (P 0) (P 1) (P 2) := by sym8 hs
    obtain ⟨s', t1, t2, hr, ho, hm, hg⟩ := ringA_run true
      (ringQ (Fq (P 0)) (Fq (P 1)) (Fq (P 2)) (Fq (P 3))) 3 0 1 2 (P 3) (P 0) (P 1) (P 2)
      rfl rfl rfl rfl h12 h23 h34 hsq
    refine ⟨t1, t2, sweepMon_quad (setup_quad _ _ _ _ [(3, [])] .bend .bend .end_ .start
      (validPt_fq _ _ (by simp)) (validPt_fq _ _ (by simp [f1, f2, f3, f4, c11, c12, c13, c14, c21, c22, c23, c24, c31, c32, c33, c34, c41, c42, c43, c44, e12, e13, e14, e21, e23, e24, e31, e32, e34, e41, e42, e43, x11, x12, x13, x14, x21, x22, x23, x24, x31, x32, x33, x34, x41, x42, x43, x44, m12, m13, m14, m21, m23, m24, m31, m32, m34, m41, m42, m43]))
      (validPt_fq _ _ (by simp [f1, f2, f3, f4, c11, c12, c13, c14, c21, c22, c23, c24, c31, c32, c33, c34, c41, c42, c43, c44, e12, e13, e14, e21, e23, e24, e31, e32, e34, e41, e42, e43, x11, x12, x13, x14, x21, x22, x23, x24, x31, x32, x33, x34, x41, x42, x43, x44, m12, m13, m14, m21, m23, m24, m31, m32, m34, m41, m42, m43])) (validPt_fq _ _ (by simp [f1, f2, f3, f4, c11, c12, c13, c14, c21, c22, c23, c24, c31, c32, c33, c34, c41, c42, c43, c44, e12, e13, e14, e21, e23, e24, e31, e32, e34, e41, e42, e43, x11, x12, x13, x14, x21, x22, x23, x24, x31, x32, x33, x34, x41, x42, x43, x44, m12, m13, m14, m21, m23, m24, m31, m32, m34, m41, m42, m43]))
      (by simp [fromTriplet, Pt.lt, Pt.gt, f1, f2, f3, f4, c11, c12, c13, c14, c21, c22, c23, c24, c31, c32, c33, c34, c41, c42, c43, c44, e12, e13, e14, e21, e23, e24, e31, e32, e34, e41, e42, e43, x11, x12, x13, x14, x21, x22, x23, x24, x31, x32, x33, x34, x41, x42, x43, x44, m12, m13, m14, m21, m23, m24, m31, m32, m34, m41, m42, m43]) (by simp [fromTriplet, Pt.lt, Pt.gt, f1, f2, f3, f4, c11, c12, c13, c14, c21, c22, c23, c24, c31, c32, c33, c34, c41, c42, c43, c44, e12, e13, e14, e21, e23, e24, e31, e32, e34, e41, e42, e43, x11, x12, x13, x14, x21, x22, x23, x24, x31, x32, x33, x34, x41, x42, x43, x44, m12, m13, m14, m21, m23, m24, m31, m32, m34, m41, m42, m43]) (by simp [fromTriplet, Pt.lt, Pt.gt, f1, f2, f3, f4, c11, c12, c13, c14, c21, c22, c23, c24, c31, c32, c33, c34, c41, c42, c43, c44, e12, e13, e14, e21, e23, e24, e31, e32, e34, e41, e42, e43, x11, x12, x13, x14, x21, x22, x23, x24, x31, x32, x33, x34, x41, x42, x43, x44, m12, m13, m14, m21, m23, m24, m31, m32, m34, m41, m42, m43]) (by simp [fromTriplet, Pt.lt, Pt.gt, f1, f2, f3, f4, c11, c12, c13, c14, c21, c22, c23, c24, c31, c32, c33, c34, c41, c42, c43, c44, e12, e13, e14, e21, e23, e24, e31, e32, e34, e41, e42, e43, x11, x12, x13, x14, x21, x22, x23, x24, x31, x32, x33, x34, x41, x42, x43, x44, m12, m13, m14, m21, m23, m24, m31, m32, m34, m41, m42, m43])
      (by simp [f1, f2, f3, f4, c11, c12, c13, c14, c21, c22, c23, c24, c31, c32, c33, c34, c41, c42, c43, c44, e12, e13, e14, e21, e23, e24, e31, e32, e34, e41, e42, e43, x11, x12, x13, x14, x21, x22, x23, x24, x31, x32, x33, x34, x41, x42, x43, x44, m12, m13, m14, m21, m23, m24, m31, m32, m34, m41, m42, m43])) hr ho hm, ?_⟩
    sym8 hg
  · -- abscissae in the order of the input positions (3, 0, 2, 1): ring `O`
    obtain ⟨f1, f2, f3, f4, c11, c12, c13, c14, c21, c22, c23, c24, c31, c32, c33, c34, c41, c42, c43, c44, e12, e13, e14, e21, e23, e24, e31, e32, e34, e41, e42, e43, x11, x12, x13, x14, x21, x22, x23, x24, x31, x32, x33, x34, x41, x42, x43, x44, m12, m13, m14, m21, m23, m24, m31, m32, m34, m41, m42, m43⟩ := ord4_fin (P 3) (P 0) (P 2) (P 1) h12 h23 h34
    have hsq : SimpleQuad (P 3) (P 0) (P 1) (P 2) := by sym8 hs
    obtain ⟨s', t1, t2, hr, ho, hm, hg⟩ := ringO_run false
      (ringQ (Fq (P 0)) (Fq (P 1)) (Fq (P 2)) (Fq (P 3))) 3 0 2 1 (P 3) (P 0) (P 2) (P 1)
      rfl rfl rfl rfl h12 h23 h34 hsq
    refine ⟨t1, t2, sweepMon_quad (setup_quad _ _ _ _ [(3, [])] .bend .end_ .bend .start
      (validPt_fq _ _ (by simp)) (validPt_fq _ _ (by simp [f1, f2, f3, f4, c11, c12, c13, c14, c21, c22, c23, c24, c31, c32, c33, c34, c41, c42, c43, c44, e12, e13, e14, e21, e23, e24, e31, e32, e34, e41, e42, e43, x11, x12, x13, x14, x21, x22, x23, x24, x31, x32, x33, x34, x41, x42, x43, x44, m12, m13, m14, m21, m23, m24, m31, m32, m34, m41, m42, m43]))
      (validPt_fq _ _ (by simp [f1, f2, f3, f4, c11, c12, c13, c14, c21, c22, c23, c24, c31, c32, c33, c34, c41, c42, c43, c44, e12, e13, e14, e21, e23, e24, e31, e32, e34, e41, e42, e43, x11, x12, x13, x14, x21, x22, x23, x24, x31, x32, x33, x34, x41, x42, x43, x44, m12, m13, m14, m21, m23, m24, m31, m32, m34, m41, m42, m43])) (validPt_fq _ _ (by simp [f1, f2, f3, f4, c11, c12, c13, c14, c21, c22, c23, c24, c31, c32, c33, c34, c41, c42, c43, c44, e12, e13, e14, e21, e23, e24, e31, e32, e34, e41, e42, e43, x11, x12, x13, x14, x21, x22, x23, x24, x31, x32, x33, x34, x41, x42, x43, x44, m12, m13, m14, m21, m23, m24, m31, m32, m34, m41, m42, m43]))
      (by simp [fromTriplet, Pt.lt, Pt.gt, f1, f2, f3, f4, c11, c12, c13, c14, c21, c22, c23, c24, c31, c32, c33, c34, c41, c42, c43, c44, e12, e13, e14, e21, e23, e24, e31, e32, e34, e41, e42, e43, x11, x12, x13, x14, x21, x22, x23, x24, x31, x32, x33, x34, x41, x42, x43, x44, m12, m13, m14, m21, m23, m24, m31, m32, m34, m41, m42, m43]) (by simp [fromTriplet, Pt.lt, Pt.gt, f1, f2, f3, f4, c11, c12, c13, c14, c21, c22, c23, c24, c31, c32, c33, c34, c41, c42, c43, c44, e12, e13, e14, e21, e23, e24, e31, e32, e34, e41, e42, e43, x11, x12, x13, x14, x21, x22, x23, x24, x31, x32, x33, x34, x41, x42, x43, x44, m12, m13, m14, m21, m23, m24, m31, m32, m34, m41, m42, m43]) (by simp [fromTriplet, Pt.lt, Pt.gt, f1, f2, f3, f4, c11, c12, c13, c14, c21, c22, c23, c24, c31, c32, c33, c34, c41, c42, c43, c44, e12, e13, e14, e21, e23, e24, e31, e32, e34, e41, e42, e43, x11, x12, x13, x14, x21, x22, x23, x24, x31, x32, x33, x34, x41, x42, x43, x44, m12, m13, m14, m21, m23, m24, m31, m32, m34, m41, m42, m43]) (by simp [fromTriplet, Pt.lt, Pt.gt, f1, f2, f3, f4, c11, c12, c13, c14, c21, c22, c23, c24, c31, c32, c33, c34, c41, c42, c43, c44, e12, e13, e14, e21, e23, e24, e31, e32, e34, e41, e42, e43, x11, x12, x13, x14, x21, x22, x23, x24, x31, x32, x33, x34, x41, x42, x43, x44, m12, m13, m14, m21, m23, m24, m31, m32, m34, m41, m42, m43])
      (by simp [f1, f2, f3, f4, c11, c12, c13, c14, c21, c22, c23, c24, c31, c32, c33, c34, c41, c42, c43, c44, e12, e13, e14, e21, e23, e24, e31, e32, e34, e41, e42, e43, x11, x12, x13, x14, x21, x22, x23, x24, x31, x32, x33, x34, x41, x42, x43, x44, m12, m13, m14, m21, m23, m24, m31, m32, m34, m41, m42, m43])) hr ho hm, ?_⟩
    sym8 hg
  · -- abscissae in the order of the input positions (3, 1, 0, 2): ring `Z`
    obtain ⟨f1, f2, f3, f4, c11, c12, c13, c14, c21, c22, c23, c24, c31, c32, c33, c34, c41, c42, c43, c44, e12, e13, e14, e21, e23, e24, e31, e32, e34, e41, e42, e43, x11, x12, x13, x14, x21, x22, x23, x24, x31, x32, x33, x34, x41, x42, x43, x44, m12, m13, m14, m21, m23, m24, m31, m32, m34, m41, m42, m43⟩ := ord4_fin (P 3) (P 1) (P 0) (P 2) h12 h23 h34
    have hsq : SimpleQuad (P 3) (P 0) (P 1) (P 2) := by sym8 hs
    obtain ⟨s', t1, t2, hr, ho, hm, hg⟩ := ringZ_run true
      (ringQ (Fq (P 0)) (Fq (P 1)) (Fq (P 2)) (Fq (P 3))) 3 1 0 2 (P 3) (P 1) (P 0) (P 2)
      rfl rfl rfl rfl h12 h23 h34 hsq
    refine ⟨t1, t2, sweepMon_quad (setup_quad _ _ _ _ [(3, []), (1, [])] .end_ .start .end_ .start
      (validPt_fq _ _ (by simp)) (validPt_fq _ _ (by simp [f1, f2, f3, f4, c11, c12, c13, c14, c21, c22, c23, c24, c31, c32, c33, c34, c41, c42, c43, c44, e12, e13, e14, e21, e23, e24, e31, e32, e34, e41, e42, e43, x11, x12, x13, x14, x21, x22, x23, x24, x31, x32, x33, x34, x41, x42, x43, x44, m12, m13, m14, m21, m23, m24, m31, m32, m34, m41, m42, m43]))
      (validPt_fq _ _ (by simp [f1, f2, f3, f4, c11, c12, c13, c14, c21, c22, c23, c24, c31, c32, c33, c34, c41, c42, c43, c44, e12, e13, e14, e21, e23, e24, e31, e32, e34, e41, e42, e43, x11, x12, x13, x14, x21, x22, x23, x24, x31, x32, x33, x34, x41, x42, x43, x44, m12, m13, m14, m21, m23, m24, m31, m32, m34, m41, m42, m43])) (validPt_fq _ _ (by simp [f1, f2, f3, f4, c11, c12, c13, c14, c21, c22, c23, c24, c31, c32, c33, c34, c41, c42, c43, c44, e12, e13, e14, e21, e23, e24, e31, e32, e34, e41, e42, e43, x11, x12, x13, x14, x21, x22, x23, x24, x31, x32, x33, x34, x41, x42, x43, x44, m12, m13, m14, m21, m23, m24, m31, m32, m34, m41, m42, m43]))
      (by simp [fromTriplet, Pt.lt, Pt.gt, f1, f2, f3, f4, c11, c12, c13, c14, c21, c22, c23, c24, c31, c32, c33, c34, c41, c42, c43, c44, e12, e13, e14, e21, e23, e24, e31, e32, e34, e41, e42, e43, x11, x12, x13, x14, x21, x22, x23, x24, x31, x32, x33, x34, x41, x42, x43, x44, m12, m13, m14, m21, m23, m24, m31, m32, m34, m41, m42, m43]) (by simp [fromTriplet, Pt.lt, Pt.gt, f1, f2, f3, f4, c11, c12, c13, c14, c21, c22, c23, c24, c31, c32, c33, c34, c41, c42, c43, c44, e12, e13, e14, e21, e23, e24, e31, e32, e34, e41, e42, e43, x11, x12, x13, x14, x21, x22, x23, x24, x31, x32, x33, x34, x41, x42, x43, x44, m12, m13, m14, m21, m23, m24, m31, m32, m34, m41, m42, m43]) (by simp [fromTriplet, Pt.lt, Pt.gt, f1, f2, f3, f4, c11, c12, c13, c14, c21, c22, c23, c24, c31, c32, c33, c34, c41, c42, c43, c44, e12, e13, e14, e21, e23, e24, e31, e32, e34, e41, e42, e43, x11, x12, x13, x14, x21, x22, x23, x24, x31, x32, x33, x34, x41, x42, x43, x44, m12, m13, m14, m21, m23, m24, m31, m32, m34, m41, m42, m43]) (by simp [fromTriplet, Pt.lt, Pt.gt, f1, f2, f3, f4, c11, c12, c13, c14, c21, c22, c23, c24, c31, c32, c33, c34, c41, c42, c43, c44, e12, e13, e14, e21, e23, e24, e31, e32, e34, e41, e42, e43, x11, x12, x13, x14, x21, x22, x23, x24, x31, x32, x33, x34, x41, x42, x43, x44, m12, m13, m14, m21, m23, m24, m31, m32, m34, m41, m42, m43])
      (by simp [f1, f2, f3, f4, c11, c12, c13, c14, c21, c22, c23, c24, c31, c32, c33, c34, c41, c42, c43, c44, e12, e13, e14, e21, e23, e24, e31, e32, e34, e41, e42, e43, x11, x12, x13, x14, x21, x22, x23, x24, x31, x32, x33, x34, x41, x42, x43, x44, m12, m13, m14, m21, m23, m24, m31, m32, m34, m41, m42, m43])) hr ho hm, ?_⟩
    sym8 hg
  · -- abscissae in the order of the input positions (3, 1, 2, 0): ring `Z`
    obtain ⟨f1, f2, f3, f4, c11, c12, c13, c14, c21, c22, c23, c24, c31, c32, c33, c34, c41, c42, c43, c44, e12, e13, e14, e21, e23, e24, e31, e32, e34, e41, e42, e43, x11, x12, x13, x14, x21, x22, x23, x24, x31, x32, x33, x34, x41, x42, x43, x44, m12, m13, m14, m21, m23, m24, m31, m32, m34, m41, m42, m43⟩ := ord4_fin (P 3) (P 1) (P 2) (P 0) h12 h23 h34
    have hsq : SimpleQuad (P 3) (P 2) (P 1) (P 0) := by sym8 hs
    obtain ⟨s', t1, t2, hr, ho, hm, hg⟩ := ringZ_run false
      (ringQ (Fq (P 0)) (Fq (P 1)) (Fq (P 2)) (Fq (P 3))) 3 1 2 0 (P 3) (P 1) (P 2) (P 0)
      rfl rfl rfl rfl h12 h23 h34 hsq
    refine ⟨t1, t2, sweepMon_quad (setup_quad _ _ _ _ [(3, []), (1, [])] .end_ .start .end_ .start
      (validPt_fq _ _ (by simp)) (validPt_fq _ _ (by simp [f1, f2, f3, f4, c11, c12, c13, c14, c21, c22, c23, c24, c31, c32, c33, c34, c41, c42, c43, c44, e12, e13, e14, e21, e23, e24, e31, e32, e34, e41, e42, e43, x11, x12, x13, x14, x21, x22, x23, x24, x31, x32, x33, x34, x41, x42, x43, x44, m12, m13, m14, m21, m23, m24, m31, m32, m34, m41, m42, m43]))
      (validPt_fq _ _ (by simp [f1, f2, f3, f4, c11, c12, c13, c14, c21, c22, c23, c24, c31, c32, c33, c34, c41, c42, c43, c44, e12, e13, e14, e21, e23, e24, e31, e32, e34, e41, e42, e43, x11, x12, x13, x14, x21, x22, x23, x24, x31, x32, x33, x34, x41, x42, x43, x44, m12, m13, m14, m21, m23, m24, m31, m32, m34, m41, m42, m43])) (validPt_fq _ _ (by simp [f1, f2, f3, f4, c11, c12, c13, c14, c21, c22, c23, c24, c31, c32, c33, c34, c41, c42, c43, c44, e12, e13, e14, e21, e23, e24, e31, e32, e34, e41, e42, e43, x11, x12, x13, x14, x21, x22, x23, x24, x31, x32, x33, x34, x41, x42, x43, x44, m12, m13, m14, m21, m23, m24, m31, m32, m34, m41, m42, m43]))
      (by simp [fromTriplet, Pt.lt, Pt.gt, f1, f2, f3, f4, c11, c12, c13, c14, c21, c22, c23, c24, c31, c32, c33, c34, c41, c42, c43, c44, e12, e13, e14, e21, e23, e24, e31, e32, e34, e41, e42, e43, x11, x12, x13, x14, x21, x22, x23, x24, x31, x32, x33, x34, x41, x42, x43, x44, m12, m13, m14, m21, m23, m24, m31, m32, m34, m41, m42, m43]) (by simp [fromTriplet, Pt.lt, Pt.gt, f1, f2, f3, f4, c11, c12, c13, c14, c21, c22, c23, c24, c31, c32, c33, c34, c41, c42, c43, c44, e12, e13, e14, e21, e23, e24, e31, e32, e34, e41, e42, e43, x11, x12, x13, x14, x21, x22, x23, x24, x31, x32, x33, x34, x41, x42, x43, x44, m12, m13, m14, m21, m23, m24, m31, m32, m34, m41, m42, m43]) (by simp [fromTriplet, Pt.lt, Pt.gt, f1, f2, f3, f4, c11, c12, c13, c14, c21, c22, c23, c24, c31, c32, c33, c34, c41, c42, c43, c44, e12, e13, e14, e21, e23, e24, e31, e32, e34, e41, e42, e43, x11, x12, x13, x14, x21, x22, x23, x24, x31, x32, x33, x34, x41, x42, x43, x44, m12, m13, m14, m21, m23, m24, m31, m32, m34, m41, m42, m43]) (by simp [fromTriplet, Pt.lt, Pt.gt, f1, f2, f3, f4, c11, c12, c13, c14, c21, c22, c23, c24, c31, c32, c33, c34, c41, c42, c43, c44, e12, e13, e14, e21, e23, e24, e31, e32, e34, e41, e42, e43, x11, x12, x13, x14, x21, x22, x23, x24, x31, x32, x33, x34, x41, x42, x43, x44, m12, m13, m14, m21, m23, m24, m31, m32, m34, m41, m42, m43])
      (by simp [f1, f2, f3, f4, c11, c12, c13, c14, c21, c22, c23, c24, c31, c32, c33, c34, c41, c42, c43, c44, e12, e13, e14, e21, e23, e24, e31, e32, e34, e41, e42, e43, x11, x12, x13, x14, x21, x22, x23, x24, x31, x32, x33, x34, x41, x42, x43, x44, m12, m13, m14, m21, m23, m24, m31, m32, m34, m41, m42, m43])) hr ho hm, ?_⟩
    sym8 hg
  · -- abscissae in the order of the input positions (3, 2, 0, 1): ring `O`
    obtain ⟨f1, f2, f3, f4, c11, c12, c13, c14, c21, c22, c23, c24, c31, c32, c33, c34, c41, c42, c43, c44, e12, e13, e14, e21, e23, e24, e31, e32, e34, e41, e42, e43, x11, x12, x13, x14, x21, x22, x23, x24, x31, x32, x33, x34, x41, x42, x43, x44, m12, m13, m14, m21, m23, m24, m31, m32, m34, m41, m42, m43⟩ := ord4_fin (P 3) (P 2) (P 0) (P 1) h12 h23 h34
    have hsq : SimpleQuad (P 3) (P 2) (P 1) (P 0) := by sym8 hs
    obtain ⟨s', t1, t2, hr, ho, hm, hg⟩ := ringO_run true
      (ringQ (Fq (P 0)) (Fq (P 1)) (Fq (P 2)) (Fq (P 3))) 3 2 0 1 (P 3) (P 2) (P 0) (P 1)
      rfl rfl rfl rfl h12 h23 h34 hsq
    refine ⟨t1, t2, sweepMon_quad (setup_quad _ _ _ _ [(3, [])] .bend .end_ .bend .start
      (validPt_fq _ _ (by simp)) (validPt_fq _ _ (by simp [f1, f2, f3, f4, c11, c12, c13, c14, c21, c22, c23, c24, c31, c32, c33, c34, c41, c42, c43, c44, e12, e13, e14, e21, e23, e24, e31, e32, e34, e41, e42, e43, x11, x12, x13, x14, x21, x22, x23, x24, x31, x32, x33, x34, x41, x42, x43, x44, m12, m13, m14, m21, m23, m24, m31, m32, m34, m41, m42, m43]))
      (validPt_fq _ _ (by simp [f1, f2, f3, f4, c11, c12, c13, c14, c21, c22, c23, c24, c31, c32, c33, c34, c41, c42, c43, c44, e12, e13, e14, e21, e23, e24, e31, e32, e34, e41, e42, e43, x11, x12, x13, x14, x21, x22, x23, x24, x31, x32, x33, x34, x41, x42, x43, x44, m12, m13, m14, m21, m23, m24, m31, m32, m34, m41, m42, m43])) (validPt_fq _ _ (by simp [f1, f2, f3, f4, c11, c12, c13, c14, c21, c22, c23, c24, c31, c32, c33, c34, c41, c42, c43, c44, e12, e13, e14, e21, e23, e24, e31, e32, e34, e41, e42, e43, x11, x12, x13, x14, x21, x22, x23, x24, x31, x32, x33, x34, x41, x42, x43, x44, m12, m13, m14, m21, m23, m24, m31, m32, m34, m41, m42, m43]))
      (by simp [fromTriplet, Pt.lt, Pt.gt, f1, f2, f3, f4, c11, c12, c13, c14, c21, c22, c23, c24, c31, c32, c33, c34, c41, c42, c43, c44, e12, e13, e14, e21, e23, e24, e31, e32, e34, e41, e42, e43, x11, x12, x13, x14, x21, x22, x23, x24, x31, x32, x33, x34, x41, x42, x43, x44, m12, m13, m14, m21, m23, m24, m31, m32, m34, m41, m42, m43]) (by simp [fromTriplet, Pt.lt, Pt.gt, f1, f2, f3, f4, c11, c12, c13, c14, c21, c22, c23, c24, c31, c32, c33, c34, c41, c42, c43, c44, e12, e13, e14, e21, e23, e24, e31, e32, e34, e41, e42, e43, x11, x12, x13, x14, x21, x22, x23, x24, x31, x32, x33, x34, x41, x42, x43, x44, m12, m13, m14, m21, m23, m24, m31, m32, m34, m41, m42, m43]) (by simp [fromTriplet, Pt.lt, Pt.gt, f1, f2, f3, f4, c11, c12, c13, c14, c21, c22, c23, c24, c31, c32, c33, c34, c41, c42, c43, c44, e12, e13, e14, e21, e23, e24, e31, e32, e34, e41, e42, e43, x11, x12, x13, x14, x21, x22, x23, x24, x31, x32, x33, x34, x41, x42, x43, x44, m12, m13, m14, m21, m23, m24, m31, m32, m34, m41, m42, m43]) (by simp [fromTriplet, Pt.lt, Pt.gt, f1, f2, f3, f4, c11, c12, c13, c14, c21, c22, c23, c24, c31, c32, c33, c34, c41, c42, c43, c44, e12, e13, e14, e21, e23, e24, e31, e32, e34, e41, e42, e43, x11, x12, x13, x14, x21, x22, x23, x24, x31, x32, x33, x34, x41, x42, x43, x44, m12, m13, m14, m21, m23, m24, m31, m32, m34, m41, m42, m43])
      (by simp [f1, f2, f3, f4, c11, c12, c13, c14, c21, c22, c23, c24, c31, c32, c33, c34, c41, c42, c43, c44, e12, e13, e14, e21, e23, e24, e31, e32, e34, e41, e42, e43, x11, x12, x13, x14, x21, x22, x23, x24, x31, x32, x33, x34, x41, x42, x43, x44, m12, m13, m14, m21, m23, m24, m31, m32, m34, m41, m42, m43])) hr ho hm, ?_⟩
    sym8 hg
  · -- abscissae in the order of the input positions (3, 2, 1, 0): ring `A`
    obtain ⟨f1, f2, f3, f4, c11, c12, c13, c14, c21, c22, c23, c24, c31, c32, c33, c34, c41, c42, c43, c44, e12, e13, e14, e21, e23, e24, e31, e32, e34, e41, e42, e43, x11, x12, x13, x14, x21, x22, x23, x24, x31, x32, x33, x34, x41, x42, x43, x44, m12, m13, m14, m21, m23, m24, m31, m32, m34, m41, m42, m43⟩ := ord4_fin (P 3) (P 2) (P 1) (P 0) h12 h23 h34
    have hsq : SimpleQuad (P 3) (P 2) (P 1) (P 0) := by sym8 hs
    obtain ⟨s', t1, t2, hr, ho, hm, hg⟩ := ringA_run false
      (ringQ (Fq (P 0)) (Fq (P 1)) (Fq (P 2)) (Fq (P 3))) 3 2 1 0 (P 3) (P 2) (P 1) (P 0)
      rfl rfl rfl rfl h12 h23 h34 hsq
    refine ⟨t1, t2, sweepMon_quad (setup_quad _ _ _ _ [(3, [])] .end_ .bend .bend .start
      (validPt_fq _ _ (by simp)) (validPt_fq _ _ (by simp [f1, f2, f3, f4, c11, c12, c13, c14, c21, c22, c23, c24, c31, c32, c33, c34, c41, c42, c43, c44, e12, e13, e14, e21, e23, e24, e31, e32, e34, e41, e42, e43, x11, x12, x13, x14, x21, x22, x23, x24, x31, x32, x33, x34, x41, x42, x43, x44, m12, m13, m14, m21, m23, m24, m31, m32, m34, m41, m42, m43]))
      (validPt_fq _ _ (by simp [f1, f2, f3, f4, c11, c12, c13, c14, c21, c22, c23, c24, c31, c32, c33, c34, c41, c42, c43, c44, e12, e13, e14, e21, e23, e24, e31, e32, e34, e41, e42, e43, x11, x12, x13, x14, x21, x22, x23, x24, x31, x32, x33, x34, x41, x42, x43, x44, m12, m13, m14, m21, m23, m24, m31, m32, m34, m41, m42, m43])) (validPt_fq _ _ (by simp [f1, f2, f3, f4, c11, c12, c13, c14, c21, c22, c23, c24, c31, c32, c33, c34, c41, c42, c43, c44, e12, e13, e14, e21, e23, e24, e31, e32, e34, e41, e42, e43, x11, x12, x13, x14, x21, x22, x23, x24, x31, x32, x33, x34, x41, x42, x43, x44, m12, m13, m14, m21, m23, m24, m31, m32, m34, m41, m42, m43]))
      (by simp [fromTriplet, Pt.lt, Pt.gt, f1, f2, f3, f4, c11, c12, c13, c14, c21, c22, c23, c24, c31, c32, c33, c34, c41, c42, c43, c44, e12, e13, e14, e21, e23, e24, e31, e32, e34, e41, e42, e43, x11, x12, x13, x14, x21, x22, x23, x24, x31, x32, x33, x34, x41, x42, x43, x44, m12, m13, m14, m21, m23, m24, m31, m32, m34, m41, m42, m43]) (by simp [fromTriplet, Pt.lt, Pt.gt, f1, f2, f3, f4, c11, c12, c13, c14, c21, c22, c23, c24, c31, c32, c33, c34, c41, c42, c43, c44, e12, e13, e14, e21, e23, e24, e31, e32, e34, e41, e42, e43, x11, x12, x13, x14, x21, x22, x23, x24, x31, x32, x33, x34, x41, x42, x43, x44, m12, m13, m14, m21, m23, m24, m31, m32, m34, m41, m42, m43]) (by simp [fromTriplet, Pt.lt, Pt.gt, f1, f2, f3, f4, c11, c12, c13, c14, c21, c22, c23, c24, c31, c32, c33, c34, c41, c42, c43, c44, e12, e13, e14, e21, e23, e24, e31, e32, e34, e41, e42, e43, x11, x12, x13, x14, x21, x22, x23, x24, x31, x32, x33, x34, x41, x42, x43, x44, m12, m13, m14, m21, m23, m24, m31, m32, m34, m41, m42, m43]) (by simp [fromTriplet, Pt.lt, Pt.gt, f1, f2, f3, f4, c11, c12, c13, c14, c21, c22, c23, c24, c31, c32, c33, c34, c41, c42, c43, c44, e12, e13, e14, e21, e23, e24, e31, e32, e34, e41, e42, e43, x11, x12, x13, x14, x21, x22, x23, x24, x31, x32, x33, x34, x41, x42, x43, x44, m12, m13, m14, m21, m23, m24, m31, m32, m34, m41, m42, m43])
      (by simp [f1, f2, f3, f4, c11, c12, c13, c14, c21, c22, c23, c24, c31, c32, c33, c34, c41, c42, c43, c44, e12, e13, e14, e21, e23, e24, e31, e32, e34, e41, e42, e43, x11, x12, x13, x14, x21, x22, x23, x24, x31, x32, x33, x34, x41, x42, x43, x44, m12, m13, m14, m21, m23, m24, m31, m32, m34, m41, m42, m43])) hr ho hm, ?_⟩
    sym8 hg

/-- the four corners as a function of the input position -/
def corner4 (a b c d : Rat × Rat) : Nat → Rat × Rat
  | 0 => a
  | 1 => b
  | 2 => c
  | _ => d

/-- the definition of `SimpleQuad`, spelled out -/
theorem simpleQuad_iff (a b c d : Rat × Rat) :
    SimpleQuad a b c d ↔
      orient a b c ≠ 0 ∧ orient b c d ≠ 0 ∧ orient c d a ≠ 0 ∧ orient d a b ≠ 0 ∧
        ¬ (orient a b c * orient a b d < 0 ∧ orient c d a * orient c d b < 0) ∧
        ¬ (orient b c d * orient b c a < 0 ∧ orient d a b * orient d a c < 0) := Iff.rfl

/-- **Every simple quadrilateral in general position is accepted** (C04 for a single
    quadrilateral; `QuadGood` packages the claims about the two triangles, see
    `quad_accepted`). -/
theorem quad_accepted_good (a b c d : Rat × Rat)
    (hx : a.1 ≠ b.1 ∧ a.1 ≠ c.1 ∧ a.1 ≠ d.1 ∧ b.1 ≠ c.1 ∧ b.1 ≠ d.1 ∧ c.1 ≠ d.1)
    (hs : SimpleQuad a b c d) :
    ∃ t1 t2, sweepMon [#[F a.1 a.2, F b.1 b.2, F c.1 c.2, F d.1 d.2]] = .ok ([t1, t2], true) ∧
      QuadGood a b c d t1 t2 := by
  obtain ⟨n01, n02, n03, n12, n13, n23⟩ := hx
  have key := fun i1 i2 i3 i4 hperm h12 h23 h34 =>
    quad_sorted (corner4 a b c d) i1 i2 i3 i4 hperm h12 h23 h34 hs
  rcases lt_or_gt_of_ne n01 with h01 | h01
  · rcases lt_or_gt_of_ne n02 with h02 | h02
    · rcases lt_or_gt_of_ne n03 with h03 | h03
      · rcases lt_or_gt_of_ne n12 with h12 | h12
        · rcases lt_or_gt_of_ne n13 with h13 | h13
          · rcases lt_or_gt_of_ne n23 with h23 | h23
            · exact key 0 1 2 3 (by simp) h01 h12 h23
            · exact key 0 1 3 2 (by simp) h01 h13 h23
          · rcases lt_or_gt_of_ne n23 with h23 | h23
            · exfalso; linarith
            · exact key 0 3 1 2 (by simp) h03 h13 h12
        · rcases lt_or_gt_of_ne n13 with h13 | h13
          · rcases lt_or_gt_of_ne n23 with h23 | h23
            · exact key 0 2 1 3 (by simp) h02 h12 h13
            · exfalso; linarith
          · rcases lt_or_gt_of_ne n23 with h23 | h23
            · exact key 0 2 3 1 (by simp) h02 h23 h13
            · exact key 0 3 2 1 (by simp) h03 h23 h12
      · rcases lt_or_gt_of_ne n12 with h12 | h12
        · rcases lt_or_gt_of_ne n13 with h13 | h13
          · rcases lt_or_gt_of_ne n23 with h23 | h23
            · exfalso; linarith
            · exfalso; linarith
          · rcases lt_or_gt_of_ne n23 with h23 | h23
            · exfalso; linarith
            · exact key 3 0 1 2 (by simp) h03 h01 h12
        · rcases lt_or_gt_of_ne n13 with h13 | h13
          · rcases lt_or_gt_of_ne n23 with h23 | h23
            · exfalso; linarith
            · exfalso; linarith
          · rcases lt_or_gt_of_ne n23 with h23 | h23
            · exfalso; linarith
            · exact key 3 0 2 1 (by simp) h03 h02 h12
    · rcases lt_or_gt_of_ne n03 with h03 | h03
      · rcases lt_or_gt_of_ne n12 with h12 | h12
        · rcases lt_or_gt_of_ne n13 with h13 | h13
          · rcases lt_or_gt_of_ne n23 with h23 | h23
            · exfalso; linarith
            · exfalso; linarith
          · rcases lt_or_gt_of_ne n23 with h23 | h23
            · exfalso; linarith
            · exfalso; linarith
        · rcases lt_or_gt_of_ne n13 with h13 | h13
          · rcases lt_or_gt_of_ne n23 with h23 | h23
            · exact key 2 0 1 3 (by simp) h02 h01 h13
            · exfalso; linarith
          · rcases lt_or_gt_of_ne n23 with h23 | h23
            · exact key 2 0 3 1 (by simp) h02 h03 h13
            · exfalso; linarith
      · rcases lt_or_gt_of_ne n12 with h12 | h12
        · rcases lt_or_gt_of_ne n13 with h13 | h13
          · rcases lt_or_gt_of_ne n23 with h23 | h23
            · exfalso; linarith
            · exfalso; linarith
          · rcases lt_or_gt_of_ne n23 with h23 | h23
            · exfalso; linarith
            · exfalso; linarith
        · rcases lt_or_gt_of_ne n13 with h13 | h13
          · rcases lt_or_gt_of_ne n23 with h23 | h23
            · exfalso; linarith
            · exfalso; linarith
          · rcases lt_or_gt_of_ne n23 with h23 | h23
            · exact key 2 3 0 1 (by simp) h23 h03 h01
            · exact key 3 2 0 1 (by simp) h23 h02 h01
  · rcases lt_or_gt_of_ne n02 with h02 | h02
    · rcases lt_or_gt_of_ne n03 with h03 | h03
      · rcases lt_or_gt_of_ne n12 with h12 | h12
        · rcases lt_or_gt_of_ne n13 with h13 | h13
          · rcases lt_or_gt_of_ne n23 with h23 | h23
            · exact key 1 0 2 3 (by simp) h01 h02 h23
            · exact key 1 0 3 2 (by simp) h01 h03 h23
          · rcases lt_or_gt_of_ne n23 with h23 | h23
            · exfalso; linarith
            · exfalso; linarith
        · rcases lt_or_gt_of_ne n13 with h13 | h13
          · rcases lt_or_gt_of_ne n23 with h23 | h23
            · exfalso; linarith
            · exfalso; linarith
          · rcases lt_or_gt_of_ne n23 with h23 | h23
            · exfalso; linarith
            · exfalso; linarith
      · rcases lt_or_gt_of_ne n12 with h12 | h12
        · rcases lt_or_gt_of_ne n13 with h13 | h13
          · rcases lt_or_gt_of_ne n23 with h23 | h23
            · exfalso; linarith
            · exact key 1 3 0 2 (by simp) h13 h03 h02
          · rcases lt_or_gt_of_ne n23 with h23 | h23
            · exfalso; linarith
            · exact key 3 1 0 2 (by simp) h13 h01 h02
        · rcases lt_or_gt_of_ne n13 with h13 | h13
          · rcases lt_or_gt_of_ne n23 with h23 | h23
            · exfalso; linarith
            · exfalso; linarith
          · rcases lt_or_gt_of_ne n23 with h23 | h23
            · exfalso; linarith
            · exfalso; linarith
    · rcases lt_or_gt_of_ne n03 with h03 | h03
      · rcases lt_or_gt_of_ne n12 with h12 | h12
        · rcases lt_or_gt_of_ne n13 with h13 | h13
          · rcases lt_or_gt_of_ne n23 with h23 | h23
            · exact key 1 2 0 3 (by simp) h12 h02 h03
            · exfalso; linarith
          · rcases lt_or_gt_of_ne n23 with h23 | h23
            · exfalso; linarith
            · exfalso; linarith
        · rcases lt_or_gt_of_ne n13 with h13 | h13
          · rcases lt_or_gt_of_ne n23 with h23 | h23
            · exact key 2 1 0 3 (by simp) h12 h01 h03
            · exfalso; linarith
          · rcases lt_or_gt_of_ne n23 with h23 | h23
            · exfalso; linarith
            · exfalso; linarith
      · rcases lt_or_gt_of_ne n12 with h12 | h12
        · rcases lt_or_gt_of_ne n13 with h13 | h13
          · rcases lt_or_gt_of_ne n23 with h23 | h23
            · exact key 1 2 3 0 (by simp) h12 h23 h03
            · exact key 1 3 2 0 (by simp) h13 h23 h02
          · rcases lt_or_gt_of_ne n23 with h23 | h23
            · exfalso; linarith
            · exact key 3 1 2 0 (by simp) h13 h12 h02
        · rcases lt_or_gt_of_ne n13 with h13 | h13
          · rcases lt_or_gt_of_ne n23 with h23 | h23
            · exact key 2 1 3 0 (by simp) h12 h13 h03
            · exfalso; linarith
          · rcases lt_or_gt_of_ne n23 with h23 | h23
            · exact key 2 3 1 0 (by simp) h23 h13 h01
            · exact key 3 2 1 0 (by simp) h23 h12 h01

/-- **C04 for a single simple quadrilateral, general position** — the statement in full:
    for rational points `a b c d` with pairwise distinct abscissae forming a simple quadrilateral
    in this cyclic order (any start vertex, either orientation), the model returns exactly two
    triangles and the ghost flag `mono` is `true`; all six corners are input points; both
    triangles are non-degenerate; and their absolute doubled areas add up to the absolute
    doubled shoelace area `|a×b + b×c + c×d + d×a|` of the quadrilateral. -/
theorem quad_accepted (a b c d : Rat × Rat)
    (hx : a.1 ≠ b.1 ∧ a.1 ≠ c.1 ∧ a.1 ≠ d.1 ∧ b.1 ≠ c.1 ∧ b.1 ≠ d.1 ∧ c.1 ≠ d.1)
    (hs : SimpleQuad a b c d) :
    ∃ t1 t2 : Pt XQ × Pt XQ × Pt XQ,
      sweepMon [#[F a.1 a.2, F b.1 b.2, F c.1 c.2, F d.1 d.2]] = .ok ([t1, t2], true) ∧
      (∀ p ∈ [t1.1, t1.2.1, t1.2.2, t2.1, t2.2.1, t2.2.2],
        p ∈ [F a.1 a.2, F b.1 b.2, F c.1 c.2, F d.1 d.2]) ∧
      orientPt t1.1 t1.2.1 t1.2.2 ≠ 0 ∧ orientPt t2.1 t2.2.1 t2.2.2 ≠ 0 ∧
      |orientPt t1.1 t1.2.1 t1.2.2| + |orientPt t2.1 t2.2.1 t2.2.2| =
        |(a.1 * b.2 - a.2 * b.1) + (b.1 * c.2 - b.2 * c.1) + (c.1 * d.2 - c.2 * d.1) +
          (d.1 * a.2 - d.2 * a.1)| := by
  obtain ⟨t1, t2, h, hg⟩ := quad_accepted_good a b c d hx hs
  exact ⟨t1, t2, h, hg⟩

/-- the plain result of the model (without the ghost flag) -/
theorem quad_accepted_sweep (a b c d : Rat × Rat)
    (hx : a.1 ≠ b.1 ∧ a.1 ≠ c.1 ∧ a.1 ≠ d.1 ∧ b.1 ≠ c.1 ∧ b.1 ≠ d.1 ∧ c.1 ≠ d.1)
    (hs : SimpleQuad a b c d) :
    ∃ t1 t2, sweep [#[F a.1 a.2, F b.1 b.2, F c.1 c.2, F d.1 d.2]] = .ok [t1, t2] := by
  obtain ⟨t1, t2, h, -⟩ := quad_accepted_good a b c d hx hs
  refine ⟨t1, t2, ?_⟩
  unfold sweepMon at h
  unfold sweep
  cases hr : (Sweep.run [#[F a.1 a.2, F b.1 b.2, F c.1 c.2, F d.1 d.2]]).run (Sweep.initSt : St XQ) with
  | error e => rw [hr] at h; cases h
  | ok r =>
    rw [hr] at h
    simp only [Except.ok.injEq, Prod.mk.injEq] at h
    simp only [h.1]

/-- a convex quadrilateral: all four corners turn the same way -/
def ConvexQuad (a b c d : Rat × Rat) : Prop :=
  (0 < orient a b c ∧ 0 < orient b c d ∧ 0 < orient c d a ∧ 0 < orient d a b) ∨
    (orient a b c < 0 ∧ orient b c d < 0 ∧ orient c d a < 0 ∧ orient d a b < 0)

theorem ConvexQuad.simple {a b c d : Rat × Rat} (h : ConvexQuad a b c d) : SimpleQuad a b c d := by
  have e1 : orient a b d = orient d a b := by unfold orient; ring
  have e2 : orient b c a = orient a b c := by unfold orient; ring
  rcases h with ⟨h1, h2, h3, h4⟩ | ⟨h1, h2, h3, h4⟩
  · refine ⟨ne_of_gt h1, ne_of_gt h2, ne_of_gt h3, ne_of_gt h4, ?_, ?_⟩
    · rintro ⟨hc, -⟩; rw [e1] at hc; nlinarith
    · rintro ⟨hc, -⟩; rw [e2] at hc; nlinarith
  · refine ⟨ne_of_lt h1, ne_of_lt h2, ne_of_lt h3, ne_of_lt h4, ?_, ?_⟩
    · rintro ⟨hc, -⟩; rw [e1] at hc; nlinarith
    · rintro ⟨hc, -⟩; rw [e2] at hc; nlinarith

/-- **every convex quadrilateral in general position is accepted** -/
theorem quad_accepted_convex (a b c d : Rat × Rat)
    (hx : a.1 ≠ b.1 ∧ a.1 ≠ c.1 ∧ a.1 ≠ d.1 ∧ b.1 ≠ c.1 ∧ b.1 ≠ d.1 ∧ c.1 ≠ d.1)
    (hc : ConvexQuad a b c d) :
    ∃ t1 t2, sweepMon [#[F a.1 a.2, F b.1 b.2, F c.1 c.2, F d.1 d.2]] = .ok ([t1, t2], true) ∧
      QuadGood a b c d t1 t2 :=
  quad_accepted_good a b c d hx hc.simple

/-! ### non-vacuity: one concrete quadrilateral per class, evaluated by the kernel, and the
    theorem applied to it (so its hypotheses are satisfiable) -/

-- convex, the two bends on different chains (ring `O`)
example : sweepMon [#[F 0 0, F 2 (-2), F 5 0, F 3 2]] =
    .ok ([(F 0 0, F 2 (-2), F 3 2), (F 2 (-2), F 3 2, F 5 0)], true) := by decide +kernel
example : ∃ t1 t2, sweepMon [#[F 0 0, F 2 (-2), F 5 0, F 3 2]] = .ok ([t1, t2], true) ∧
    QuadGood (0, 0) (2, -2) (5, 0) (3, 2) t1 t2 :=
  quad_accepted_convex (0, 0) (2, -2) (5, 0) (3, 2) (by norm_num) (by unfold ConvexQuad orient; norm_num)
-- convex, both bends on the upper chain (ring `A`)
example : sweepMon [#[F 0 0, F 1 2, F 3 3, F 5 0]] =
    .ok ([(F 0 0, F 1 2, F 3 3), (F 0 0, F 3 3, F 5 0)], true) := by decide +kernel
example : ∃ t1 t2, sweepMon [#[F 0 0, F 1 2, F 3 3, F 5 0]] = .ok ([t1, t2], true) ∧
    QuadGood (0, 0) (1, 2) (3, 3) (5, 0) t1 t2 :=
  quad_accepted_good (0, 0) (1, 2) (3, 3) (5, 0) (by norm_num) (by decide +kernel)
-- reflex vertex at a Bend (ring `A`, nothing emitted at the second Bend)
example : sweepMon [#[F 0 0, F 1 1, F 2 4, F 5 0]] =
    .ok ([(F 1 1, F 2 4, F 5 0), (F 0 0, F 1 1, F 5 0)], true) := by decide +kernel
example : ∃ t1 t2, sweepMon [#[F 0 0, F 1 1, F 2 4, F 5 0]] = .ok ([t1, t2], true) ∧
    QuadGood (0, 0) (1, 1) (2, 4) (5, 0) t1 t2 :=
  quad_accepted_good (0, 0) (1, 1) (2, 4) (5, 0) (by norm_num) (by decide +kernel)
-- dart, reflex vertex pointing left: improper Start (back-chain split), ring `Z`
example : sweepMon [#[F 0 0, F 4 0, F 1 1, F 2 3]] =
    .ok ([(F 0 0, F 1 1, F 2 3), (F 0 0, F 1 1, F 4 0)], true) := by decide +kernel
example : ∃ t1 t2, sweepMon [#[F 0 0, F 4 0, F 1 1, F 2 3]] = .ok ([t1, t2], true) ∧
    QuadGood (0, 0) (4, 0) (1, 1) (2, 3) t1 t2 :=
  quad_accepted_good (0, 0) (4, 0) (1, 1) (2, 3) (by norm_num) (by decide +kernel)
-- the same dart, other start vertex and other orientation
example : ∃ t1 t2, sweepMon [#[F 2 3, F 1 1, F 4 0, F 0 0]] = .ok ([t1, t2], true) ∧
    QuadGood (2, 3) (1, 1) (4, 0) (0, 0) t1 t2 :=
  quad_accepted_good (2, 3) (1, 1) (4, 0) (0, 0) (by norm_num) (by decide +kernel)
example : sweepMon [#[F 2 3, F 1 1, F 4 0, F 0 0]] =
    .ok ([(F 0 0, F 1 1, F 2 3), (F 0 0, F 1 1, F 4 0)], true) := by decide +kernel
-- dart, reflex vertex pointing right: the first End merges two back-chains, ring `Z`
example : sweepMon [#[F 0 0, F 4 0, F 1 5, F 2 1]] =
    .ok ([(F 1 5, F 2 1, F 4 0), (F 0 0, F 2 1, F 4 0)], true) := by decide +kernel
example : ∃ t1 t2, sweepMon [#[F 0 0, F 4 0, F 1 5, F 2 1]] = .ok ([t1, t2], true) ∧
    QuadGood (0, 0) (4, 0) (1, 5) (2, 1) t1 t2 :=
  quad_accepted_good (0, 0) (4, 0) (1, 5) (2, 1) (by norm_num) (by decide +kernel)
-- the full statement on the left-pointing dart: areas 1·… add up to the shoelace area
example : ∃ t1 t2 : Pt XQ × Pt XQ × Pt XQ,
    sweepMon [#[F 0 0, F 4 0, F 1 1, F 2 3]] = .ok ([t1, t2], true) ∧
      (∀ p ∈ [t1.1, t1.2.1, t1.2.2, t2.1, t2.2.1, t2.2.2], p ∈ [F 0 0, F 4 0, F 1 1, F 2 3]) ∧
      orientPt t1.1 t1.2.1 t1.2.2 ≠ 0 ∧ orientPt t2.1 t2.2.1 t2.2.2 ≠ 0 ∧
      |orientPt t1.1 t1.2.1 t1.2.2| + |orientPt t2.1 t2.2.1 t2.2.2| = 5 := by
  obtain ⟨t1, t2, h1, h2, h3, h4, h5⟩ :=
    quad_accepted (0, 0) (4, 0) (1, 1) (2, 3) (by norm_num) (by decide +kernel)
  refine ⟨t1, t2, h1, h2, h3, h4, ?_⟩
  rw [h5]; norm_num
-- darts with two vertices on a vertical line (NOT covered by the theorem: abscissae not
-- distinct); the model accepts them as well
example : sweepMon [#[F 0 0, F 3 1, F 0 2, F 1 1]] =
    .ok ([(F 0 2, F 1 1, F 3 1), (F 0 0, F 1 1, F 3 1)], true) := by decide +kernel
example : sweepMon [#[F 3 0, F 0 1, F 3 2, F 2 1]] =
    .ok ([(F 0 1, F 2 1, F 3 0), (F 0 1, F 2 1, F 3 2)], true) := by decide +kernel
-- the hypothesis `SimpleQuad` is needed: a self-crossing quadrilateral (bow-tie) is rejected
example : ¬ SimpleQuad (0, 0) (4, 3) (4, 0) (0, 3) := by decide +kernel
example : ∀ t1 t2, sweepMon [#[F 0 0, F 5 3, F 4 0, F 1 4]] ≠ .ok ([t1, t2], true) := by
  intro t1 t2 h
  have : (sweepMon [#[F 0 0, F 5 3, F 4 0, F 1 4]]).toBool = false := by decide +kernel
  rw [h] at this
  cases this

end Cav.C04Quad
