/-
  C15 (heap adequacy and absence of panics) — the heap-explicit model of the sweep-line
  triangulator never leaves its own heap encoding, and `handle_next` is never called on an
  empty event queue.

  `Rc<RefCell<…>>` cells of the implementation are array entries of the model addressed by
  index; an index out of range of its array has no counterpart in the Rust code and is reported
  by the model as `.panic "model-bad-node" | "model-bad-chain" | "model-bad-edge" |
  "model-bad-vertex"`.  The theorems below show, for EVERY `Num` instance and every input, that
  these four outcomes and `.panic "unreachable"` are impossible: the only panics `sweep` can
  report are `"borrow"` (RefCell aliasing) and `"index"` (`r_edges[0]` / `r_edges[1]`).

  Method (`Cav/Lemmas/SweepHeap*.lean`): the invariant `W V N C D` (vertex ring `V` with links in
  range; exactly `N` nodes, `C` chains, `D` edges; every index stored in a node, chain, edge,
  in the active list or in the event queue is in range) is preserved by every program of the
  sweep; under it the getters are called with indices in range only.  The set-up loop
  establishes it (`SW`, `SetupOK`).

  Over `XQ` (exact rationals extended by ±∞/NaN; validation guarantees finite coordinates) the
  index panic is impossible as well (`sweep_no_index`): when a Bend vertex is taken from the
  event queue at least one edge is registered with it, and at least two with an End vertex.
  Method (`Cav/Lemmas/SweepReg.lean`, `SweepIndex.lean`, `SweepRing.lean`): a vertex registers
  one edge with each ring neighbour that lies after it (`handleStart_lb`, `handleBend_lb`); the
  queue is handled in increasing order and no vertex is skipped (`no_gap`); hence every vertex
  has at least as many registered edges as it has neighbours before it (`K`, `pop_count`).  The
  set-up loop builds rings whose `prev`/`next` are mutually inverse, with pairwise different
  finite points, and queues every Start vertex (`Glob`).
  So over `XQ` the only panic the model can report is `"borrow"`.

  Model path used: everything in `Cav/Model/Sweep.lean` (`sweep`, `Sweep.run`, `setupPolygon`,
  `loop`, `handleNext`, the three handlers and all programs below them).
-/
import Cav.Lemmas.SweepHeapLoop
import Cav.Lemmas.SweepRing

namespace Cav.C15Heap
open Cav Num Cav.Geo Cav.Sweep Cav.SweepHeap

-- decidable equality of model outcomes, for the kernel-evaluated examples
deriving instance DecidableEq for SErr
deriving instance DecidableEq for Except

variable {α : Type} [Num α]

/-- every panic reported by the model is the `RefCell` borrow panic or the `r_edges[i]` index
    panic of the Bend/End handlers -/
theorem sweep_panic_borrow_or_index (polys : List (Array (Pt α))) (k : String)
    (h : sweep polys = .error (.panic k)) : k = "borrow" ∨ k = "index" :=
  sweep_panic_kinds h

/-- **heap adequacy**: the model never fails with one of its four own panics (an index of the
    heap encoding out of range), for any `Num` instance and any input -/
theorem sweep_no_model_panic (polys : List (Array (Pt α))) :
    ∀ k, k ∈ ["model-bad-node", "model-bad-chain", "model-bad-edge", "model-bad-vertex"] →
      sweep polys ≠ .error (.panic k) := by
  intro k hk h
  rcases sweep_panic_kinds h with rfl | rfl <;> simp at hk

theorem sweep_no_bad_node (polys : List (Array (Pt α))) :
    sweep polys ≠ .error (.panic "model-bad-node") :=
  sweep_no_model_panic polys _ (by simp)
theorem sweep_no_bad_chain (polys : List (Array (Pt α))) :
    sweep polys ≠ .error (.panic "model-bad-chain") :=
  sweep_no_model_panic polys _ (by simp)
theorem sweep_no_bad_edge (polys : List (Array (Pt α))) :
    sweep polys ≠ .error (.panic "model-bad-edge") :=
  sweep_no_model_panic polys _ (by simp)
theorem sweep_no_bad_vertex (polys : List (Array (Pt α))) :
    sweep polys ≠ .error (.panic "model-bad-vertex") :=
  sweep_no_model_panic polys _ (by simp)

/-- **`handle_next` is never called on an empty queue**: the `unreachable!()` of `handle_next`
    is unreachable (any `Num` instance, any input) -/
theorem sweep_no_unreachable (polys : List (Array (Pt α))) :
    sweep polys ≠ .error (.panic "unreachable") := by
  intro h
  rcases sweep_panic_kinds h with h' | h' <;> simp at h'

/-! ### no index panic (over `XQ`) -/

/-- **the `r_edges[0]` / `r_edges[1]` look-ups of the Bend and End handlers never fail**: for
    every input over `XQ` (finite or not) the model does not report `.panic "index"` -/
theorem sweep_no_index (polys : List (Array (Pt XQ))) : sweep polys ≠ .error (.panic "index") :=
  SweepRing.sweep_ne_index polys

/-- over `XQ` the only panic the model can report is the `RefCell` borrow panic -/
theorem sweep_panic_only_borrow (polys : List (Array (Pt XQ))) (k : String)
    (h : sweep polys = .error (.panic k)) : k = "borrow" := by
  rcases sweep_panic_kinds h with rfl | rfl
  · rfl
  · exact absurd h (sweep_no_index polys)

/-- the invariant behind `sweep_no_index`, at the moment a vertex `u` is taken from the queue:
    a Bend vertex has at least one registered edge, an End vertex at least two
    (`Ring V`: what the set-up phase guarantees of the vertex ring; `K V lo s`: the invariant
    between two passes of `handle_next`, `lo` the point of the vertex handled last) -/
theorem popped_vertex_has_edges {V : Array (Vtx XQ)} {lo : Option (Rat × Rat)} {s : St XQ}
    (hR : SweepIndex.Ring V) (hK : SweepIndex.K V lo s) {u : Nat} {es : List Nat}
    {rest : List (Nat × List Nat)} (hev : s.events = (u, es) :: rest) {v vp vn : Vtx XQ}
    (hv : V[u]? = some v) (hvp : V[v.prev]? = some vp) (hvn : V[v.next]? = some vn) :
    (fromTriplet v.p vp.p vn.p = some .bend → 1 ≤ es.length) ∧
      (fromTriplet v.p vp.p vn.p = some .end_ → 2 ≤ es.length) :=
  SweepIndex.pop_count hR hK hev hv hvp hvn

/-! ### non-vacuity -/

/-- the panics excluded above are real outcomes of the model's programs on ill-formed states:
    the getters fail on an empty heap, `handleNext` on an empty queue, the Bend handler without
    a registered edge and the End handler with a single one -/
example : (getNode 0 : SM XQ _).run initSt = .error (.panic "model-bad-node") := rfl
example : (getChain 0 : SM XQ _).run initSt = .error (.panic "model-bad-chain") := rfl
example : (getEdge 0 : SM XQ _).run initSt = .error (.panic "model-bad-edge") := rfl
example : (getVtx 0 : SM XQ _).run initSt = .error (.panic "model-bad-vertex") := rfl
example : (handleNext : SM XQ Unit).run initSt = .error (.panic "unreachable") := rfl
example : (handleBend (F 0 0) 0 0 []).run initSt = .error (.panic "index") := rfl
example : (handleEnd (F 0 0) [0]).run initSt = .error (.panic "index") := rfl

/-- the invariants are not vacuous: the initial state is well-formed, and a run that goes
    through all three handlers (Start, Bend, End) succeeds -/
example : W (#[] : Array (Vtx XQ)) 0 0 0 initSt := w_of_setupOK setupOK_init
example : sweep [#[F 0 0, F 1 0, F 1 1, F 0 1]] =
    .ok [(F 0 0, F 0 1, F 1 0), (F 0 1, F 1 0, F 1 1)] := by decide +kernel
example : sweep [#[F 0 0, F 2 1, F 4 0, F 2 3]] ≠ .error (.panic "model-bad-node") :=
  sweep_no_bad_node _
example : sweep [#[F 0 0, F 2 1, F 4 0, F 2 3]] ≠ .error (.panic "unreachable") :=
  sweep_no_unreachable _
example : sweep [#[F 0 0, F 2 1, F 4 0, F 2 3]] ≠ .error (.panic "index") :=
  sweep_no_index _
/-- errors other than panics remain possible (the theorems do not say "no error") -/
example : sweep [#[F 0 2, F 0 1, F 0 0]] = .error (.overlap .end_ (F 0 2)) := by decide +kernel

end Cav.C15Heap
