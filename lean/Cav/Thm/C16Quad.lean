/-
  C16 (a polygon set with two properly crossing edges is rejected with an `overlap` error) for a
  single SELF-INTERSECTING QUADRILATERAL (bow-tie) in general position (pairwise distinct
  abscissae) — the full path through the model, from the input array to the error value: for any
  four rational points `a b c d` such that the opposite edges `ab`/`cd` or `bc`/`da` of the closed
  quadrilateral `a → b → c → d → a` cross properly (`BowTie`, orientation determinants only; this
  implies that no three of the points are collinear, so no further non-degeneracy hypothesis is
  needed), in any input rotation and either orientation, the sweep model over `XQ` returns
  `overlap k q` where `q` is the vertex with the SECOND SMALLEST abscissa, and
    * `k = bend` if `q` is a ring neighbour of the leftmost vertex `p` (rings `A`, `O`:
      Start Bend …): after the Bend arm has replaced the edge `p q` by the edge out of `q`, its
      nesting partner (the other edge out of `p`) lies on the wrong side at the nearer right end
      point — `will_overlap_bot` (`q` above the partner) or `will_overlap_top` (`q` below);
    * `k = start` otherwise (ring `Z`: Start Start End End): `q` lies outside the wedge of the two
      edges out of `p`, one of its two edges gets an edge out of `p` as nesting partner and is on
      the wrong side of it at the third abscissa — `will_overlap_top` (`q` below the wedge) or
      `will_overlap_bot` (`q` above the wedge) of the Start arm.
  The other overlap tests of the model (`bot.cmp(top) == Equal`, vertical crossing, "edge between
  nesting partners", the tests of the End arm) never fire first on a bow-tie in general position.

  Proof: the eight failing event chains (`Cav/Lemmas/BowEvents.lean`, symbolic execution with the
  geometric tests as hypotheses), their geometric hypotheses from orientation signs
  (`BowFlows.lean`, lemmas of `QuadGeom.lean`), the sign analysis of bow-ties (`BowCases.lean`),
  the set-up loop (`QuadSetup.lean`), and here the 24 orders of the abscissae.
-/
import Cav.Lemmas.BowCases

set_option linter.unusedSimpArgs false
set_option linter.unusedVariables false
set_option linter.unusedTactic false
set_option linter.unreachableTactic false

namespace Cav.C16Quad
open Cav Num Cav.Geo Cav.Sweep Cav.SweepSetup Cav.TriRun Cav.QuadRun Cav.QuadGeom Cav.QuadSetup
  Cav.QuadCases Cav.BowRun Cav.BowCases

export Cav.QuadCases (Cross)
export Cav.BowCases (BowTie)
export Cav.QuadGeom (Fq)

/-- `BowTie` is invariant under the eight symmetries of the 4-cycle -/
local macro "sym8" h:ident : tactic =>
  `(tactic| (first
      | exact $h
      | exact ($h).rot
      | exact ($h).rot.rot
      | exact ($h).rot.rot.rot
      | exact ($h).rev
      | exact ($h).rev.rot
      | exact ($h).rev.rot.rot
      | exact ($h).rev.rot.rot.rot))

theorem validPt_fq (seen : List (Pt XQ)) (q : Rat × Rat) (h : ∀ s ∈ seen, s.eq (Fq q) = false) :
    validPt seen (Fq q) = .ok (Fq q :: seen) :=
  (validPt_ok_iff _ _ _).mpr ⟨rfl, h, rfl⟩

/-- `i1 i2 i3 i4` is a permutation of `0 1 2 3` -/
def IsPerm4 (i1 i2 i3 i4 : Nat) : Prop :=
  (i1 = 0 ∧ i2 = 1 ∧ i3 = 2 ∧ i4 = 3) ∨
    (i1 = 0 ∧ i2 = 1 ∧ i3 = 3 ∧ i4 = 2) ∨
    (i1 = 0 ∧ i2 = 2 ∧ i3 = 1 ∧ i4 = 3) ∨
    (i1 = 0 ∧ i2 = 2 ∧ i3 = 3 ∧ i4 = 1) ∨
    (i1 = 0 ∧ i2 = 3 ∧ i3 = 1 ∧ i4 = 2) ∨
    (i1 = 0 ∧ i2 = 3 ∧ i3 = 2 ∧ i4 = 1) ∨
    (i1 = 1 ∧ i2 = 0 ∧ i3 = 2 ∧ i4 = 3) ∨
    (i1 = 1 ∧ i2 = 0 ∧ i3 = 3 ∧ i4 = 2) ∨
    (i1 = 1 ∧ i2 = 2 ∧ i3 = 0 ∧ i4 = 3) ∨
    (i1 = 1 ∧ i2 = 2 ∧ i3 = 3 ∧ i4 = 0) ∨
    (i1 = 1 ∧ i2 = 3 ∧ i3 = 0 ∧ i4 = 2) ∨
    (i1 = 1 ∧ i2 = 3 ∧ i3 = 2 ∧ i4 = 0) ∨
    (i1 = 2 ∧ i2 = 0 ∧ i3 = 1 ∧ i4 = 3) ∨
    (i1 = 2 ∧ i2 = 0 ∧ i3 = 3 ∧ i4 = 1) ∨
    (i1 = 2 ∧ i2 = 1 ∧ i3 = 0 ∧ i4 = 3) ∨
    (i1 = 2 ∧ i2 = 1 ∧ i3 = 3 ∧ i4 = 0) ∨
    (i1 = 2 ∧ i2 = 3 ∧ i3 = 0 ∧ i4 = 1) ∨
    (i1 = 2 ∧ i2 = 3 ∧ i3 = 1 ∧ i4 = 0) ∨
    (i1 = 3 ∧ i2 = 0 ∧ i3 = 1 ∧ i4 = 2) ∨
    (i1 = 3 ∧ i2 = 0 ∧ i3 = 2 ∧ i4 = 1) ∨
    (i1 = 3 ∧ i2 = 1 ∧ i3 = 0 ∧ i4 = 2) ∨
    (i1 = 3 ∧ i2 = 1 ∧ i3 = 2 ∧ i4 = 0) ∨
    (i1 = 3 ∧ i2 = 2 ∧ i3 = 0 ∧ i4 = 1) ∨
    (i1 = 3 ∧ i2 = 2 ∧ i3 = 1 ∧ i4 = 0)

/-- the bow-tie with corners `P 0, P 1, P 2, P 3` (input order) whose abscissae increase along
    the input positions `i1, i2, i3, i4`: the overlap is reported at the vertex `P i2` with the
    second smallest abscissa, by the Bend handler if `P i2` is a ring neighbour of the leftmost
    vertex `P i1` (positions of different parity), else by the Start handler -/
theorem bowtie_sorted (P : Nat → Rat × Rat) (i1 i2 i3 i4 : Nat)
    (hperm : IsPerm4 i1 i2 i3 i4)
    (h12 : (P i1).1 < (P i2).1) (h23 : (P i2).1 < (P i3).1) (h34 : (P i3).1 < (P i4).1)
    (hb : BowTie (P 0) (P 1) (P 2) (P 3)) :
    sweep [#[Fq (P 0), Fq (P 1), Fq (P 2), Fq (P 3)]] =
        .error (.overlap (if (i1 + i2) % 2 = 1 then .bend else .start) (Fq (P i2))) ∧
      sweepMon [#[Fq (P 0), Fq (P 1), Fq (P 2), Fq (P 3)]] =
        .error (.overlap (if (i1 + i2) % 2 = 1 then .bend else .start) (Fq (P i2))) := by
  unfold IsPerm4 at hperm
  rcases hperm with ⟨rfl, rfl, rfl, rfl⟩ | ⟨rfl, rfl, rfl, rfl⟩ | ⟨rfl, rfl, rfl, rfl⟩ | ⟨rfl, rfl, rfl, rfl⟩ | ⟨rfl, rfl, rfl, rfl⟩ | ⟨rfl, rfl, rfl, rfl⟩ | ⟨rfl, rfl, rfl, rfl⟩ | ⟨rfl, rfl, rfl, rfl⟩ | ⟨rfl, rfl, rfl, rfl⟩ | ⟨rfl, rfl, rfl, rfl⟩ | ⟨rfl, rfl, rfl, rfl⟩ | ⟨rfl, rfl, rfl, rfl⟩ | ⟨rfl, rfl, rfl, rfl⟩ | ⟨rfl, rfl, rfl, rfl⟩ | ⟨rfl, rfl, rfl, rfl⟩ | ⟨rfl, rfl, rfl, rfl⟩ | ⟨rfl, rfl, rfl, rfl⟩ | ⟨rfl, rfl, rfl, rfl⟩ | ⟨rfl, rfl, rfl, rfl⟩ | ⟨rfl, rfl, rfl, rfl⟩ | ⟨rfl, rfl, rfl, rfl⟩ | ⟨rfl, rfl, rfl, rfl⟩ | ⟨rfl, rfl, rfl, rfl⟩ | ⟨rfl, rfl, rfl, rfl⟩
  · -- abscissae in the order of the input positions (0, 1, 2, 3): ring `A`, `P 1` is a Bend
    obtain ⟨f1, f2, f3, f4, c11, c12, c13, c14, c21, c22, c23, c24, c31, c32, c33, c34, c41, c42, c43, c44, e12, e13, e14, e21, e23, e24, e31, e32, e34, e41, e42, e43, x11, x12, x13, x14, x21, x22, x23, x24, x31, x32, x33, x34, x41, x42, x43, x44, m12, m13, m14, m21, m23, m24, m31, m32, m34, m41, m42, m43⟩ := ord4_fin (P 0) (P 1) (P 2) (P 3) h12 h23 h34
    have hbq : BowTie (P 0) (P 1) (P 2) (P 3) := by sym8 hb
    have hr := ringA_bow true
      (ringQ (Fq (P 0)) (Fq (P 1)) (Fq (P 2)) (Fq (P 3))) 0 1 2 3 (P 0) (P 1) (P 2) (P 3)
      rfl rfl rfl rfl h12 h23 h34 hbq
    have hsetup := setup_quad (Fq (P 0)) (Fq (P 1)) (Fq (P 2)) (Fq (P 3)) [(0, [])] .start .bend .bend .end_
      (validPt_fq _ _ (by simp)) (validPt_fq _ _ (by simp [f1, f2, f3, f4, c11, c12, c13, c14, c21, c22, c23, c24, c31, c32, c33, c34, c41, c42, c43, c44, e12, e13, e14, e21, e23, e24, e31, e32, e34, e41, e42, e43, x11, x12, x13, x14, x21, x22, x23, x24, x31, x32, x33, x34, x41, x42, x43, x44, m12, m13, m14, m21, m23, m24, m31, m32, m34, m41, m42, m43]))
      (validPt_fq _ _ (by simp [f1, f2, f3, f4, c11, c12, c13, c14, c21, c22, c23, c24, c31, c32, c33, c34, c41, c42, c43, c44, e12, e13, e14, e21, e23, e24, e31, e32, e34, e41, e42, e43, x11, x12, x13, x14, x21, x22, x23, x24, x31, x32, x33, x34, x41, x42, x43, x44, m12, m13, m14, m21, m23, m24, m31, m32, m34, m41, m42, m43])) (validPt_fq _ _ (by simp [f1, f2, f3, f4, c11, c12, c13, c14, c21, c22, c23, c24, c31, c32, c33, c34, c41, c42, c43, c44, e12, e13, e14, e21, e23, e24, e31, e32, e34, e41, e42, e43, x11, x12, x13, x14, x21, x22, x23, x24, x31, x32, x33, x34, x41, x42, x43, x44, m12, m13, m14, m21, m23, m24, m31, m32, m34, m41, m42, m43]))
      (by simp [fromTriplet, Pt.lt, Pt.gt, f1, f2, f3, f4, c11, c12, c13, c14, c21, c22, c23, c24, c31, c32, c33, c34, c41, c42, c43, c44, e12, e13, e14, e21, e23, e24, e31, e32, e34, e41, e42, e43, x11, x12, x13, x14, x21, x22, x23, x24, x31, x32, x33, x34, x41, x42, x43, x44, m12, m13, m14, m21, m23, m24, m31, m32, m34, m41, m42, m43]) (by simp [fromTriplet, Pt.lt, Pt.gt, f1, f2, f3, f4, c11, c12, c13, c14, c21, c22, c23, c24, c31, c32, c33, c34, c41, c42, c43, c44, e12, e13, e14, e21, e23, e24, e31, e32, e34, e41, e42, e43, x11, x12, x13, x14, x21, x22, x23, x24, x31, x32, x33, x34, x41, x42, x43, x44, m12, m13, m14, m21, m23, m24, m31, m32, m34, m41, m42, m43]) (by simp [fromTriplet, Pt.lt, Pt.gt, f1, f2, f3, f4, c11, c12, c13, c14, c21, c22, c23, c24, c31, c32, c33, c34, c41, c42, c43, c44, e12, e13, e14, e21, e23, e24, e31, e32, e34, e41, e42, e43, x11, x12, x13, x14, x21, x22, x23, x24, x31, x32, x33, x34, x41, x42, x43, x44, m12, m13, m14, m21, m23, m24, m31, m32, m34, m41, m42, m43]) (by simp [fromTriplet, Pt.lt, Pt.gt, f1, f2, f3, f4, c11, c12, c13, c14, c21, c22, c23, c24, c31, c32, c33, c34, c41, c42, c43, c44, e12, e13, e14, e21, e23, e24, e31, e32, e34, e41, e42, e43, x11, x12, x13, x14, x21, x22, x23, x24, x31, x32, x33, x34, x41, x42, x43, x44, m12, m13, m14, m21, m23, m24, m31, m32, m34, m41, m42, m43])
      (by simp [f1, f2, f3, f4, c11, c12, c13, c14, c21, c22, c23, c24, c31, c32, c33, c34, c41, c42, c43, c44, e12, e13, e14, e21, e23, e24, e31, e32, e34, e41, e42, e43, x11, x12, x13, x14, x21, x22, x23, x24, x31, x32, x33, x34, x41, x42, x43, x44, m12, m13, m14, m21, m23, m24, m31, m32, m34, m41, m42, m43])
    exact ⟨sweep_quad_err hsetup hr, sweepMon_quad_err hsetup hr⟩
  · -- abscissae in the order of the input positions (0, 1, 3, 2): ring `O`, `P 1` is a Bend
    obtain ⟨f1, f2, f3, f4, c11, c12, c13, c14, c21, c22, c23, c24, c31, c32, c33, c34, c41, c42, c43, c44, e12, e13, e14, e21, e23, e24, e31, e32, e34, e41, e42, e43, x11, x12, x13, x14, x21, x22, x23, x24, x31, x32, x33, x34, x41, x42, x43, x44, m12, m13, m14, m21, m23, m24, m31, m32, m34, m41, m42, m43⟩ := ord4_fin (P 0) (P 1) (P 3) (P 2) h12 h23 h34
    have hbq : BowTie (P 0) (P 1) (P 2) (P 3) := by sym8 hb
    have hr := ringO_bow false
      (ringQ (Fq (P 0)) (Fq (P 1)) (Fq (P 2)) (Fq (P 3))) 0 1 3 2 (P 0) (P 1) (P 3) (P 2)
      rfl rfl rfl rfl h12 h23 h34 hbq
    have hsetup := setup_quad (Fq (P 0)) (Fq (P 1)) (Fq (P 2)) (Fq (P 3)) [(0, [])] .start .bend .end_ .bend
      (validPt_fq _ _ (by simp)) (validPt_fq _ _ (by simp [f1, f2, f3, f4, c11, c12, c13, c14, c21, c22, c23, c24, c31, c32, c33, c34, c41, c42, c43, c44, e12, e13, e14, e21, e23, e24, e31, e32, e34, e41, e42, e43, x11, x12, x13, x14, x21, x22, x23, x24, x31, x32, x33, x34, x41, x42, x43, x44, m12, m13, m14, m21, m23, m24, m31, m32, m34, m41, m42, m43]))
      (validPt_fq _ _ (by simp [f1, f2, f3, f4, c11, c12, c13, c14, c21, c22, c23, c24, c31, c32, c33, c34, c41, c42, c43, c44, e12, e13, e14, e21, e23, e24, e31, e32, e34, e41, e42, e43, x11, x12, x13, x14, x21, x22, x23, x24, x31, x32, x33, x34, x41, x42, x43, x44, m12, m13, m14, m21, m23, m24, m31, m32, m34, m41, m42, m43])) (validPt_fq _ _ (by simp [f1, f2, f3, f4, c11, c12, c13, c14, c21, c22, c23, c24, c31, c32, c33, c34, c41, c42, c43, c44, e12, e13, e14, e21, e23, e24, e31, e32, e34, e41, e42, e43, x11, x12, x13, x14, x21, x22, x23, x24, x31, x32, x33, x34, x41, x42, x43, x44, m12, m13, m14, m21, m23, m24, m31, m32, m34, m41, m42, m43]))
      (by simp [fromTriplet, Pt.lt, Pt.gt, f1, f2, f3, f4, c11, c12, c13, c14, c21, c22, c23, c24, c31, c32, c33, c34, c41, c42, c43, c44, e12, e13, e14, e21, e23, e24, e31, e32, e34, e41, e42, e43, x11, x12, x13, x14, x21, x22, x23, x24, x31, x32, x33, x34, x41, x42, x43, x44, m12, m13, m14, m21, m23, m24, m31, m32, m34, m41, m42, m43]) (by simp [fromTriplet, Pt.lt, Pt.gt, f1, f2, f3, f4, c11, c12, c13, c14, c21, c22, c23, c24, c31, c32, c33, c34, c41, c42, c43, c44, e12, e13, e14, e21, e23, e24, e31, e32, e34, e41, e42, e43, x11, x12, x13, x14, x21, x22, x23, x24, x31, x32, x33, x34, x41, x42, x43, x44, m12, m13, m14, m21, m23, m24, m31, m32, m34, m41, m42, m43]) (by simp [fromTriplet, Pt.lt, Pt.gt, f1, f2, f3, f4, c11, c12, c13, c14, c21, c22, c23, c24, c31, c32, c33, c34, c41, c42, c43, c44, e12, e13, e14, e21, e23, e24, e31, e32, e34, e41, e42, e43, x11, x12, x13, x14, x21, x22, x23, x24, x31, x32, x33, x34, x41, x42, x43, x44, m12, m13, m14, m21, m23, m24, m31, m32, m34, m41, m42, m43]) (by simp [fromTriplet, Pt.lt, Pt.gt, f1, f2, f3, f4, c11, c12, c13, c14, c21, c22, c23, c24, c31, c32, c33, c34, c41, c42, c43, c44, e12, e13, e14, e21, e23, e24, e31, e32, e34, e41, e42, e43, x11, x12, x13, x14, x21, x22, x23, x24, x31, x32, x33, x34, x41, x42, x43, x44, m12, m13, m14, m21, m23, m24, m31, m32, m34, m41, m42, m43])
      (by simp [f1, f2, f3, f4, c11, c12, c13, c14, c21, c22, c23, c24, c31, c32, c33, c34, c41, c42, c43, c44, e12, e13, e14, e21, e23, e24, e31, e32, e34, e41, e42, e43, x11, x12, x13, x14, x21, x22, x23, x24, x31, x32, x33, x34, x41, x42, x43, x44, m12, m13, m14, m21, m23, m24, m31, m32, m34, m41, m42, m43])
    exact ⟨sweep_quad_err hsetup hr, sweepMon_quad_err hsetup hr⟩
  · -- abscissae in the order of the input positions (0, 2, 1, 3): ring `Z`, `P 2` is a second Start
    obtain ⟨f1, f2, f3, f4, c11, c12, c13, c14, c21, c22, c23, c24, c31, c32, c33, c34, c41, c42, c43, c44, e12, e13, e14, e21, e23, e24, e31, e32, e34, e41, e42, e43, x11, x12, x13, x14, x21, x22, x23, x24, x31, x32, x33, x34, x41, x42, x43, x44, m12, m13, m14, m21, m23, m24, m31, m32, m34, m41, m42, m43⟩ := ord4_fin (P 0) (P 2) (P 1) (P 3) h12 h23 h34
    have hbq : BowTie (P 0) (P 1) (P 2) (P 3) := by sym8 hb
    have hr := ringZ_bow true
      (ringQ (Fq (P 0)) (Fq (P 1)) (Fq (P 2)) (Fq (P 3))) 0 2 1 3 (P 0) (P 2) (P 1) (P 3)
      rfl rfl rfl rfl h12 h23 h34 hbq
    have hsetup := setup_quad (Fq (P 0)) (Fq (P 1)) (Fq (P 2)) (Fq (P 3)) [(0, []), (2, [])] .start .end_ .start .end_
      (validPt_fq _ _ (by simp)) (validPt_fq _ _ (by simp [f1, f2, f3, f4, c11, c12, c13, c14, c21, c22, c23, c24, c31, c32, c33, c34, c41, c42, c43, c44, e12, e13, e14, e21, e23, e24, e31, e32, e34, e41, e42, e43, x11, x12, x13, x14, x21, x22, x23, x24, x31, x32, x33, x34, x41, x42, x43, x44, m12, m13, m14, m21, m23, m24, m31, m32, m34, m41, m42, m43]))
      (validPt_fq _ _ (by simp [f1, f2, f3, f4, c11, c12, c13, c14, c21, c22, c23, c24, c31, c32, c33, c34, c41, c42, c43, c44, e12, e13, e14, e21, e23, e24, e31, e32, e34, e41, e42, e43, x11, x12, x13, x14, x21, x22, x23, x24, x31, x32, x33, x34, x41, x42, x43, x44, m12, m13, m14, m21, m23, m24, m31, m32, m34, m41, m42, m43])) (validPt_fq _ _ (by simp [f1, f2, f3, f4, c11, c12, c13, c14, c21, c22, c23, c24, c31, c32, c33, c34, c41, c42, c43, c44, e12, e13, e14, e21, e23, e24, e31, e32, e34, e41, e42, e43, x11, x12, x13, x14, x21, x22, x23, x24, x31, x32, x33, x34, x41, x42, x43, x44, m12, m13, m14, m21, m23, m24, m31, m32, m34, m41, m42, m43]))
      (by simp [fromTriplet, Pt.lt, Pt.gt, f1, f2, f3, f4, c11, c12, c13, c14, c21, c22, c23, c24, c31, c32, c33, c34, c41, c42, c43, c44, e12, e13, e14, e21, e23, e24, e31, e32, e34, e41, e42, e43, x11, x12, x13, x14, x21, x22, x23, x24, x31, x32, x33, x34, x41, x42, x43, x44, m12, m13, m14, m21, m23, m24, m31, m32, m34, m41, m42, m43]) (by simp [fromTriplet, Pt.lt, Pt.gt, f1, f2, f3, f4, c11, c12, c13, c14, c21, c22, c23, c24, c31, c32, c33, c34, c41, c42, c43, c44, e12, e13, e14, e21, e23, e24, e31, e32, e34, e41, e42, e43, x11, x12, x13, x14, x21, x22, x23, x24, x31, x32, x33, x34, x41, x42, x43, x44, m12, m13, m14, m21, m23, m24, m31, m32, m34, m41, m42, m43]) (by simp [fromTriplet, Pt.lt, Pt.gt, f1, f2, f3, f4, c11, c12, c13, c14, c21, c22, c23, c24, c31, c32, c33, c34, c41, c42, c43, c44, e12, e13, e14, e21, e23, e24, e31, e32, e34, e41, e42, e43, x11, x12, x13, x14, x21, x22, x23, x24, x31, x32, x33, x34, x41, x42, x43, x44, m12, m13, m14, m21, m23, m24, m31, m32, m34, m41, m42, m43]) (by simp [fromTriplet, Pt.lt, Pt.gt, f1, f2, f3, f4, c11, c12, c13, c14, c21, c22, c23, c24, c31, c32, c33, c34, c41, c42, c43, c44, e12, e13, e14, e21, e23, e24, e31, e32, e34, e41, e42, e43, x11, x12, x13, x14, x21, x22, x23, x24, x31, x32, x33, x34, x41, x42, x43, x44, m12, m13, m14, m21, m23, m24, m31, m32, m34, m41, m42, m43])
      (by simp [f1, f2, f3, f4, c11, c12, c13, c14, c21, c22, c23, c24, c31, c32, c33, c34, c41, c42, c43, c44, e12, e13, e14, e21, e23, e24, e31, e32, e34, e41, e42, e43, x11, x12, x13, x14, x21, x22, x23, x24, x31, x32, x33, x34, x41, x42, x43, x44, m12, m13, m14, m21, m23, m24, m31, m32, m34, m41, m42, m43])
    exact ⟨sweep_quad_err hsetup hr, sweepMon_quad_err hsetup hr⟩
  · -- abscissae in the order of the input positions (0, 2, 3, 1): ring `Z`, `P 2` is a second Start
    obtain ⟨f1, f2, f3, f4, c11, c12, c13, c14, c21, c22, c23, c24, c31, c32, c33, c34, c41, c42, c43, c44, e12, e13, e14, e21, e23, e24, e31, e32, e34, e41, e42, e43, x11, x12, x13, x14, x21, x22, x23, x24, x31, x32, x33, x34, x41, x42, x43, x44, m12, m13, m14, m21, m23, m24, m31, m32, m34, m41, m42, m43⟩ := ord4_fin (P 0) (P 2) (P 3) (P 1) h12 h23 h34
    have hbq : BowTie (P 0) (P 3) (P 2) (P 1) := by sym8 hb
    have hr := ringZ_bow false
      (ringQ (Fq (P 0)) (Fq (P 1)) (Fq (P 2)) (Fq (P 3))) 0 2 3 1 (P 0) (P 2) (P 3) (P 1)
      rfl rfl rfl rfl h12 h23 h34 hbq
    have hsetup := setup_quad (Fq (P 0)) (Fq (P 1)) (Fq (P 2)) (Fq (P 3)) [(0, []), (2, [])] .start .end_ .start .end_
      (validPt_fq _ _ (by simp)) (validPt_fq _ _ (by simp [f1, f2, f3, f4, c11, c12, c13, c14, c21, c22, c23, c24, c31, c32, c33, c34, c41, c42, c43, c44, e12, e13, e14, e21, e23, e24, e31, e32, e34, e41, e42, e43, x11, x12, x13, x14, x21, x22, x23, x24, x31, x32, x33, x34, x41, x42, x43, x44, m12, m13, m14, m21, m23, m24, m31, m32, m34, m41, m42, m43]))
      (validPt_fq _ _ (by simp [f1, f2, f3, f4, c11, c12, c13, c14, c21, c22, c23, c24, c31, c32, c33, c34, c41, c42, c43, c44, e12, e13, e14, e21, e23, e24, e31, e32, e34, e41, e42, e43, x11, x12, x13, x14, x21, x22, x23, x24, x31, x32, x33, x34, x41, x42, x43, x44, m12, m13, m14, m21, m23, m24, m31, m32, m34, m41, m42, m43])) (validPt_fq _ _ (by simp [f1, f2, f3, f4, c11, c12, c13, c14, c21, c22, c23, c24, c31, c32, c33, c34, c41, c42, c43, c44, e12, e13, e14, e21, e23, e24, e31, e32, e34, e41, e42, e43, x11, x12, x13, x14, x21, x22, x23, x24, x31, x32, x33, x34, x41, x42, x43, x44, m12, m13, m14, m21, m23, m24, m31, m32, m34, m41, m42, m43]))
      (by simp [fromTriplet, Pt.lt, Pt.gt, f1, f2, f3, f4, c11, c12, c13, c14, c21, c22, c23, c24, c31, c32, c33, c34, c41, c42, c43, c44, e12, e13, e14, e21, e23, e24, e31, e32, e34, e41, e42, e43, x11, x12, x13, x14, x21, x22, x23, x24, x31, x32, x33, x34, x41, x42, x43, x44, m12, m13, m14, m21, m23, m24, m31, m32, m34, m41, m42, m43]) (by simp [fromTriplet, Pt.lt, Pt.gt, f1, f2, f3, f4, c11, c12, c13, c14, c21, c22, c23, c24, c31, c32, c33, c34, c41, c42, c43, c44, e12, e13, e14, e21, e23, e24, e31, e32, e34, e41, e42, e43, x11, x12, x13, x14, x21, x22, x23, x24, x31, x32, x33, x34, x41, x42, x43, x44, m12, m13, m14, m21, m23, m24, m31, m32, m34, m41, m42, m43]) (by simp [fromTriplet, Pt.lt, Pt.gt, f1, f2, f3, f4, c11, c12, c13, c14, c21, c22, c23, c24, c31, c32, c33, c34, c41, c42, c43, c44, e12, e13, e14, e21, e23, e24, e31, e32, e34, e41, e42, e43, x11, x12, x13, x14, x21, x22, x23, x24, x31, x32, x33, x34, x41, x42, x43, x44, m12, m13, m14, m21, m23, m24, m31, m32, m34, m41, m42, m43]) (by simp [fromTriplet, Pt.lt, Pt.gt, f1, f2, f3, f4, c11, c12, c13, c14, c21, c22, c23, c24, c31, c32, c33, c34, c41, c42, c43, c44, e12, e13, e14, e21, e23, e24, e31, e32, e34, e41, e42, e43, x11, x12, x13, x14, x21, x22, x23, x24, x31, x32, x33, x34, x41, x42, x43, x44, m12, m13, m14, m21, m23, m24, m31, m32, m34, m41, m42, m43])
      (by simp [f1, f2, f3, f4, c11, c12, c13, c14, c21, c22, c23, c24, c31, c32, c33, c34, c41, c42, c43, c44, e12, e13, e14, e21, e23, e24, e31, e32, e34, e41, e42, e43, x11, x12, x13, x14, x21, x22, x23, x24, x31, x32, x33, x34, x41, x42, x43, x44, m12, m13, m14, m21, m23, m24, m31, m32, m34, m41, m42, m43])
    exact ⟨sweep_quad_err hsetup hr, sweepMon_quad_err hsetup hr⟩
  · -- abscissae in the order of the input positions (0, 3, 1, 2): ring `O`, `P 3` is a Bend
    obtain ⟨f1, f2, f3, f4, c11, c12, c13, c14, c21, c22, c23, c24, c31, c32, c33, c34, c41, c42, c43, c44, e12, e13, e14, e21, e23, e24, e31, e32, e34, e41, e42, e43, x11, x12, x13, x14, x21, x22, x23, x24, x31, x32, x33, x34, x41, x42, x43, x44, m12, m13, m14, m21, m23, m24, m31, m32, m34, m41, m42, m43⟩ := ord4_fin (P 0) (P 3) (P 1) (P 2) h12 h23 h34
    have hbq : BowTie (P 0) (P 3) (P 2) (P 1) := by sym8 hb
    have hr := ringO_bow true
      (ringQ (Fq (P 0)) (Fq (P 1)) (Fq (P 2)) (Fq (P 3))) 0 3 1 2 (P 0) (P 3) (P 1) (P 2)
      rfl rfl rfl rfl h12 h23 h34 hbq
    have hsetup := setup_quad (Fq (P 0)) (Fq (P 1)) (Fq (P 2)) (Fq (P 3)) [(0, [])] .start .bend .end_ .bend
      (validPt_fq _ _ (by simp)) (validPt_fq _ _ (by simp [f1, f2, f3, f4, c11, c12, c13, c14, c21, c22, c23, c24, c31, c32, c33, c34, c41, c42, c43, c44, e12, e13, e14, e21, e23, e24, e31, e32, e34, e41, e42, e43, x11, x12, x13, x14, x21, x22, x23, x24, x31, x32, x33, x34, x41, x42, x43, x44, m12, m13, m14, m21, m23, m24, m31, m32, m34, m41, m42, m43]))
      (validPt_fq _ _ (by simp [f1, f2, f3, f4, c11, c12, c13, c14, c21, c22, c23, c24, c31, c32, c33, c34, c41, c42, c43, c44, e12, e13, e14, e21, e23, e24, e31, e32, e34, e41, e42, e43, x11, x12, x13, x14, x21, x22, x23, x24, x31, x32, x33, x34, x41, x42, x43, x44, m12, m13, m14, m21, m23, m24, m31, m32, m34, m41, m42, m43])) (validPt_fq _ _ (by simp [f1, f2, f3, f4, c11, c12, c13, c14, c21, c22, c23, c24, c31, c32, c33, c34, c41, c42, c43, c44, e12, e13, e14, e21, e23, e24, e31, e32, e34, e41, e42, e43, x11, x12, x13, x14, x21, x22, x23, x24, x31, x32, x33, x34, x41, x42, x43, x44, m12, m13, m14, m21, m23, m24, m31, m32, m34, m41, m42, m43]))
      (by simp [fromTriplet, Pt.lt, Pt.gt, f1, f2, f3, f4, c11, c12, c13, c14, c21, c22, c23, c24, c31, c32, c33, c34, c41, c42, c43, c44, e12, e13, e14, e21, e23, e24, e31, e32, e34, e41, e42, e43, x11, x12, x13, x14, x21, x22, x23, x24, x31, x32, x33, x34, x41, x42, x43, x44, m12, m13, m14, m21, m23, m24, m31, m32, m34, m41, m42, m43]) (by simp [fromTriplet, Pt.lt, Pt.gt, f1, f2, f3, f4, c11, c12, c13, c14, c21, c22, c23, c24, c31, c32, c33, c34, c41, c42, c43, c44, e12, e13, e14, e21, e23, e24, e31, e32, e34, e41, e42, e43, x11, x12, x13, x14, x21, x22, x23, x24, x31, x32, x33, x34, x41, x42, x43, x44, m12, m13, m14, m21, m23, m24, m31, m32, m34, m41, m42, m43]) (by simp [fromTriplet, Pt.lt, Pt.gt, f1, f2, f3, f4, c11, c12, c13, c14, c21, c22, c23, c24, c31, c32, c33, c34, c41, c42, c43, c44, e12, e13, e14, e21, e23, e24, e31, e32, e34, e41, e42, e43, x11, x12, x13, x14, x21, x22, x23, x24, x31, x32, x33, x34, x41, x42, x43, x44, m12, m13, m14, m21, m23, m24, m31, m32, m34, m41, m42, m43]) (by simp [fromTriplet, Pt.lt, Pt.gt, f1, f2, f3, f4, c11, c12, c13, c14, c21, c22, c23, c24, c31, c32, c33, c34, c41, c42, c43, c44, e12, e13, e14, e21, e23, e24, e31, e32, e34, e41, e42, e43, x11, x12, x13, x14, x21, x22, x23, x24, x31, x32, x33, x34, x41, x42, x43, x44, m12, m13, m14, m21, m23, m24, m31, m32, m34, m41, m42, m43])
      (by simp [f1, f2, f3, f4, c11, c12, c13, c14, c21, c22, c23, c24, c31, c32, c33, c34, c41, c42, c43, c44, e12, e13, e14, e21, e23, e24, e31, e32, e34, e41, e42, e43, x11, x12, x13, x14, x21, x22, x23, x24, x31, x32, x33, x34, x41, x42, x43, x44, m12, m13, m14, m21, m23, m24, m31, m32, m34, m41, m42, m43])
    exact ⟨sweep_quad_err hsetup hr, sweepMon_quad_err hsetup hr⟩
  · -- abscissae in the order of the input positions (0, 3, 2, 1): ring `A`, `P 3` is a Bend
    obtain ⟨f1, f2, f3, f4, c11, c12, c13, c14, c21, c22, c23, c24, c31, c32, c33, c34, c41, c42, c43, c44, e12, e13, e14, e21, e23, e24, e31, e32, e34, e41, e42, e43, x11, x12, x13, x14, x21, x22, x23, x24, x31, x32, x33, x34, x41, x42, x43, x44, m12, m13, m14, m21, m23, m24, m31, m32, m34, m41, m42, m43⟩ := ord4_fin (P 0) (P 3) (P 2) (P 1) h12 h23 h34
    have hbq : BowTie (P 0) (P 3) (P 2) (P 1) := by sym8 hb
    have hr := ringA_bow false
      (ringQ (Fq (P 0)) (Fq (P 1)) (Fq (P 2)) (Fq (P 3))) 0 3 2 1 (P 0) (P 3) (P 2) (P 1)
      rfl rfl rfl rfl h12 h23 h34 hbq
    have hsetup := setup_quad (Fq (P 0)) (Fq (P 1)) (Fq (P 2)) (Fq (P 3)) [(0, [])] .start .end_ .bend .bend
      (validPt_fq _ _ (by simp)) (validPt_fq _ _ (by simp [f1, f2, f3, f4, c11, c12, c13, c14, c21, c22, c23, c24, c31, c32, c33, c34, c41, c42, c43, c44, e12, e13, e14, e21, e23, e24, e31, e32, e34, e41, e42, e43, x11, x12, x13, x14, x21, x22, x23, x24, x31, x32, x33, x34, x41, x42, x43, x44, m12, m13, m14, m21, m23, m24, m31, m32, m34, m41, m42, m43]))
      (validPt_fq _ _ (by simp [f1, f2, f3, f4, c11, c12, c13, c14, c21, c22, c23, c24, c31, c32, c33, c34, c41, c42, c43, c44, e12, e13, e14, e21, e23, e24, e31, e32, e34, e41, e42, e43, x11, x12, x13, x14, x21, x22, x23, x24, x31, x32, x33, x34, x41, x42, x43, x44, m12, m13, m14, m21, m23, m24, m31, m32, m34, m41, m42, m43])) (validPt_fq _ _ (by simp [f1, f2, f3, f4, c11, c12, c13, c14, c21, c22, c23, c24, c31, c32, c33, c34, c41, c42, c43, c44, e12, e13, e14, e21, e23, e24, e31, e32, e34, e41, e42, e43, x11, x12, x13, x14, x21, x22, x23, x24, x31, x32, x33, x34, x41, x42, x43, x44, m12, m13, m14, m21, m23, m24, m31, m32, m34, m41, m42, m43]))
      (by simp [fromTriplet, Pt.lt, Pt.gt, f1, f2, f3, f4, c11, c12, c13, c14, c21, c22, c23, c24, c31, c32, c33, c34, c41, c42, c43, c44, e12, e13, e14, e21, e23, e24, e31, e32, e34, e41, e42, e43, x11, x12, x13, x14, x21, x22, x23, x24, x31, x32, x33, x34, x41, x42, x43, x44, m12, m13, m14, m21, m23, m24, m31, m32, m34, m41, m42, m43]) (by simp [fromTriplet, Pt.lt, Pt.gt, f1, f2, f3, f4, c11, c12, c13, c14, c21, c22, c23, c24, c31, c32, c33, c34, c41, c42, c43, c44, e12, e13, e14, e21, e23, e24, e31, e32, e34, e41, e42, e43, x11, x12, x13, x14, x21, x22, x23, x24, x31, x32, x33, x34, x41, x42, x43, x44, m12, m13, m14, m21, m23, m24, m31, m32, m34, m41, m42, m43]) (by simp [fromTriplet, Pt.lt, Pt.gt, f1, f2, f3, f4, c11, c12, c13, c14, c21, c22, c23, c24, c31, c32, c33, c34, c41, c42, c43, c44, e12, e13, e14, e21, e23, e24, e31, e32, e34, e41, e42, e43, x11, x12, x13, x14, x21, x22, x23, x24, x31, x32, x33, x34, x41, x42, x43, x44, m12, m13, m14, m21, m23, m24, m31, m32, m34, m41, m42, m43]) (by simp [fromTriplet, Pt.lt, Pt.gt, f1, f2, f3, f4, c11, c12, c13, c14, c21, c22, c23, c24, c31, c32, c33, c34, c41, c42, c43, c44, e12, e13, e14, e21, e23, e24, e31, e32, e34, e41, e42, e43, x11, x12, x13, x14, x21, x22, x23, x24, x31, x32, x33, x34, x41, x42, x43, x44, m12, m13, m14, m21, m23, m24, m31, m32, m34, m41, m42, m43])
      (by simp [f1, f2, f3, f4, c11, c12, c13, c14, c21, c22, c23, c24, c31, c32, c33, c34, c41, c42, c43, c44, e12, e13, e14, e21, e23, e24, e31, e32, e34, e41, e42, e43, x11, x12, x13, x14, x21, x22, x23, x24, x31, x32, x33, x34, x41, x42, x43, x44, m12, m13, m14, m21, m23, m24, m31, m32, m34, m41, m42, m43])
    exact ⟨sweep_quad_err hsetup hr, sweepMon_quad_err hsetup hr⟩
  · -- abscissae in the order of the input positions (1, 0, 2, 3): ring `O`, `P 0` is a Bend
    obtain ⟨f1, f2, f3, f4, c11, c12, c13, c14, c21, c22, c23, c24, c31, c32, c33, c34, c41, c42, c43, c44, e12, e13, e14, e21, e23, e24, e31, e32, e34, e41, e42, e43, x11, x12, x13, x14, x21, x22, x23, x24, x31, x32, x33, x34, x41, x42, x43, x44, m12, m13, m14, m21, m23, m24, m31, m32, m34, m41, m42, m43⟩ := ord4_fin (P 1) (P 0) (P 2) (P 3) h12 h23 h34
    have hbq : BowTie (P 1) (P 0) (P 3) (P 2) := by sym8 hb
    have hr := ringO_bow true
      (ringQ (Fq (P 0)) (Fq (P 1)) (Fq (P 2)) (Fq (P 3))) 1 0 2 3 (P 1) (P 0) (P 2) (P 3)
      rfl rfl rfl rfl h12 h23 h34 hbq
    have hsetup := setup_quad (Fq (P 0)) (Fq (P 1)) (Fq (P 2)) (Fq (P 3)) [(1, [])] .bend .start .bend .end_
      (validPt_fq _ _ (by simp)) (validPt_fq _ _ (by simp [f1, f2, f3, f4, c11, c12, c13, c14, c21, c22, c23, c24, c31, c32, c33, c34, c41, c42, c43, c44, e12, e13, e14, e21, e23, e24, e31, e32, e34, e41, e42, e43, x11, x12, x13, x14, x21, x22, x23, x24, x31, x32, x33, x34, x41, x42, x43, x44, m12, m13, m14, m21, m23, m24, m31, m32, m34, m41, m42, m43]))
      (validPt_fq _ _ (by simp [f1, f2, f3, f4, c11, c12, c13, c14, c21, c22, c23, c24, c31, c32, c33, c34, c41, c42, c43, c44, e12, e13, e14, e21, e23, e24, e31, e32, e34, e41, e42, e43, x11, x12, x13, x14, x21, x22, x23, x24, x31, x32, x33, x34, x41, x42, x43, x44, m12, m13, m14, m21, m23, m24, m31, m32, m34, m41, m42, m43])) (validPt_fq _ _ (by simp [f1, f2, f3, f4, c11, c12, c13, c14, c21, c22, c23, c24, c31, c32, c33, c34, c41, c42, c43, c44, e12, e13, e14, e21, e23, e24, e31, e32, e34, e41, e42, e43, x11, x12, x13, x14, x21, x22, x23, x24, x31, x32, x33, x34, x41, x42, x43, x44, m12, m13, m14, m21, m23, m24, m31, m32, m34, m41, m42, m43]))
      (by simp [fromTriplet, Pt.lt, Pt.gt, f1, f2, f3, f4, c11, c12, c13, c14, c21, c22, c23, c24, c31, c32, c33, c34, c41, c42, c43, c44, e12, e13, e14, e21, e23, e24, e31, e32, e34, e41, e42, e43, x11, x12, x13, x14, x21, x22, x23, x24, x31, x32, x33, x34, x41, x42, x43, x44, m12, m13, m14, m21, m23, m24, m31, m32, m34, m41, m42, m43]) (by simp [fromTriplet, Pt.lt, Pt.gt, f1, f2, f3, f4, c11, c12, c13, c14, c21, c22, c23, c24, c31, c32, c33, c34, c41, c42, c43, c44, e12, e13, e14, e21, e23, e24, e31, e32, e34, e41, e42, e43, x11, x12, x13, x14, x21, x22, x23, x24, x31, x32, x33, x34, x41, x42, x43, x44, m12, m13, m14, m21, m23, m24, m31, m32, m34, m41, m42, m43]) (by simp [fromTriplet, Pt.lt, Pt.gt, f1, f2, f3, f4, c11, c12, c13, c14, c21, c22, c23, c24, c31, c32, c33, c34, c41, c42, c43, c44, e12, e13, e14, e21, e23, e24, e31, e32, e34, e41, e42, e43, x11, x12, x13, x14, x21, x22, x23, x24, x31, x32, x33, x34, x41, x42, x43, x44, m12, m13, m14, m21, m23, m24, m31, m32, m34, m41, m42, m43]) (by simp [fromTriplet, Pt.lt, Pt.gt, f1, f2, f3, f4, c11, c12, c13, c14, c21, c22, c23, c24, c31, c32, c33, c34, c41, c42, c43, c44, e12, e13, e14, e21, e23, e24, e31, e32, e34, e41, e42, e43, x11, x12, x13, x14, x21, x22, x23, x24, x31, x32, x33, x34, x41, x42, x43, x44, m12, m13, m14, m21, m23, m24, m31, m32, m34, m41, m42, m43])
      (by simp [f1, f2, f3, f4, c11, c12, c13, c14, c21, c22, c23, c24, c31, c32, c33, c34, c41, c42, c43, c44, e12, e13, e14, e21, e23, e24, e31, e32, e34, e41, e42, e43, x11, x12, x13, x14, x21, x22, x23, x24, x31, x32, x33, x34, x41, x42, x43, x44, m12, m13, m14, m21, m23, m24, m31, m32, m34, m41, m42, m43])
    exact ⟨sweep_quad_err hsetup hr, sweepMon_quad_err hsetup hr⟩
  · -- abscissae in the order of the input positions (1, 0, 3, 2): ring `A`, `P 0` is a Bend
    obtain ⟨f1, f2, f3, f4, c11, c12, c13, c14, c21, c22, c23, c24, c31, c32, c33, c34, c41, c42, c43, c44, e12, e13, e14, e21, e23, e24, e31, e32, e34, e41, e42, e43, x11, x12, x13, x14, x21, x22, x23, x24, x31, x32, x33, x34, x41, x42, x43, x44, m12, m13, m14, m21, m23, m24, m31, m32, m34, m41, m42, m43⟩ := ord4_fin (P 1) (P 0) (P 3) (P 2) h12 h23 h34
    have hbq : BowTie (P 1) (P 0) (P 3) (P 2) := by sym8 hb
    have hr := ringA_bow false
      (ringQ (Fq (P 0)) (Fq (P 1)) (Fq (P 2)) (Fq (P 3))) 1 0 3 2 (P 1) (P 0) (P 3) (P 2)
      rfl rfl rfl rfl h12 h23 h34 hbq
    have hsetup := setup_quad (Fq (P 0)) (Fq (P 1)) (Fq (P 2)) (Fq (P 3)) [(1, [])] .bend .start .end_ .bend
      (validPt_fq _ _ (by simp)) (validPt_fq _ _ (by simp [f1, f2, f3, f4, c11, c12, c13, c14, c21, c22, c23, c24, c31, c32, c33, c34, c41, c42, c43, c44, e12, e13, e14, e21, e23, e24, e31, e32, e34, e41, e42, e43, x11, x12, x13, x14, x21, x22, x23, x24, x31, x32, x33, x34, x41, x42, x43, x44, m12, m13, m14, m21, m23, m24, m31, m32, m34, m41, m42, m43]))
      (validPt_fq _ _ (by simp [f1, f2, f3, f4, c11, c12, c13, c14, c21, c22, c23, c24, c31, c32, c33, c34, c41, c42, c43, c44, e12, e13, e14, e21, e23, e24, e31, e32, e34, e41, e42, e43, x11, x12, x13, x14, x21, x22, x23, x24, x31, x32, x33, x34, x41, x42, x43, x44, m12, m13, m14, m21, m23, m24, m31, m32, m34, m41, m42, m43])) (validPt_fq _ _ (by simp [f1, f2, f3, f4, c11, c12, c13, c14, c21, c22, c23, c24, c31, c32, c33, c34, c41, c42, c43, c44, e12, e13, e14, e21, e23, e24, e31, e32, e34, e41, e42, e43, x11, x12, x13, x14, x21, x22, x23, x24, x31, x32, x33, x34, x41, x42, x43, x44, m12, m13, m14, m21, m23, m24, m31, m32, m34, m41, m42, m43]))
      (by simp [fromTriplet, Pt.lt, Pt.gt, f1, f2, f3, f4, c11, c12, c13, c14, c21, c22, c23, c24, c31, c32, c33, c34, c41, c42, c43, c44, e12, e13, e14, e21, e23, e24, e31, e32, e34, e41, e42, e43, x11, x12, x13, x14, x21, x22, x23, x24, x31, x32, x33, x34, x41, x42, x43, x44, m12, m13, m14, m21, m23, m24, m31, m32, m34, m41, m42, m43]) (by simp [fromTriplet, Pt.lt, Pt.gt, f1, f2, f3, f4, c11, c12, c13, c14, c21, c22, c23, c24, c31, c32, c33, c34, c41, c42, c43, c44, e12, e13, e14, e21, e23, e24, e31, e32, e34, e41, e42, e43, x11, x12, x13, x14, x21, x22, x23, x24, x31, x32, x33, x34, x41, x42, x43, x44, m12, m13, m14, m21, m23, m24, m31, m32, m34, m41, m42, m43]) (by simp [fromTriplet, Pt.lt, Pt.gt, f1, f2, f3, f4, c11, c12, c13, c14, c21, c22, c23, c24, c31, c32, c33, c34, c41, c42, c43, c44, e12, e13, e14, e21, e23, e24, e31, e32, e34, e41, e42, e43, x11, x12, x13, x14, x21, x22, x23, x24, x31, x32, x33, x34, x41, x42, x43, x44, m12, m13, m14, m21, m23, m24, m31, m32, m34, m41, m42, m43]) (by simp [fromTriplet, Pt.lt, Pt.gt, f1, f2, f3, f4, c11, c12, c13, c14, c21, c22, c23, c24, c31, c32, c33, c34, c41, c42, c43, c44, e12, e13, e14, e21, e23, e24, e31, e32, e34, e41, e42, e43, x11, x12, x13, x14, x21, x22, x23, x24, x31, x32, x33, x34, x41, x42, x43, x44, m12, m13, m14, m21, m23, m24, m31, m32, m34, m41, m42, m43])
      (by simp [f1, f2, f3, f4, c11, c12, c13, c14, c21, c22, c23, c24, c31, c32, c33, c34, c41, c42, c43, c44, e12, e13, e14, e21, e23, e24, e31, e32, e34, e41, e42, e43, x11, x12, x13, x14, x21, x22, x23, x24, x31, x32, x33, x34, x41, x42, x43, x44, m12, m13, m14, m21, m23, m24, m31, m32, m34, m41, m42, m43])
    exact ⟨sweep_quad_err hsetup hr, sweepMon_quad_err hsetup hr⟩
  · -- abscissae in the order of the input positions (1, 2, 0, 3): ring `O`, `P 2` is a Bend
    obtain ⟨f1, f2, f3, f4, c11, c12, c13, c14, c21, c22, c23, c24, c31, c32, c33, c34, c41, c42, c43, c44, e12, e13, e14, e21, e23, e24, e31, e32, e34, e41, e42, e43, x11, x12, x13, x14, x21, x22, x23, x24, x31, x32, x33, x34, x41, x42, x43, x44, m12, m13, m14, m21, m23, m24, m31, m32, m34, m41, m42, m43⟩ := ord4_fin (P 1) (P 2) (P 0) (P 3) h12 h23 h34
    have hbq : BowTie (P 1) (P 2) (P 3) (P 0) := by sym8 hb
    have hr := ringO_bow false
      (ringQ (Fq (P 0)) (Fq (P 1)) (Fq (P 2)) (Fq (P 3))) 1 2 0 3 (P 1) (P 2) (P 0) (P 3)
      rfl rfl rfl rfl h12 h23 h34 hbq
    have hsetup := setup_quad (Fq (P 0)) (Fq (P 1)) (Fq (P 2)) (Fq (P 3)) [(1, [])] .bend .start .bend .end_
      (validPt_fq _ _ (by simp)) (validPt_fq _ _ (by simp [f1, f2, f3, f4, c11, c12, c13, c14, c21, c22, c23, c24, c31, c32, c33, c34, c41, c42, c43, c44, e12, e13, e14, e21, e23, e24, e31, e32, e34, e41, e42, e43, x11, x12, x13, x14, x21, x22, x23, x24, x31, x32, x33, x34, x41, x42, x43, x44, m12, m13, m14, m21, m23, m24, m31, m32, m34, m41, m42, m43]))
      (validPt_fq _ _ (by simp [f1, f2, f3, f4, c11, c12, c13, c14, c21, c22, c23, c24, c31, c32, c33, c34, c41, c42, c43, c44, e12, e13, e14, e21, e23, e24, e31, e32, e34, e41, e42, e43, x11, x12, x13, x14, x21, x22, x23, x24, x31, x32, x33, x34, x41, x42, x43, x44, m12, m13, m14, m21, m23, m24, m31, m32, m34, m41, m42, m43])) (validPt_fq _ _ (by simp [f1, f2, f3, f4, c11, c12, c13, c14, c21, c22, c23, c24, c31, c32, c33, c34, c41, c42, c43, c44, e12, e13, e14, e21, e23, e24, e31, e32, e34, e41, e42, e43, x11, x12, x13, x14, x21, x22, x23, x24, x31, x32, x33, x34, x41, x42, x43, x44, m12, m13, m14, m21, m23, m24, m31, m32, m34, m41, m42, m43]))
      (by simp [fromTriplet, Pt.lt, Pt.gt, f1, f2, f3, f4, c11, c12, c13, c14, c21, c22, c23, c24, c31, c32, c33, c34, c41, c42, c43, c44, e12, e13, e14, e21, e23, e24, e31, e32, e34, e41, e42, e43, x11, x12, x13, x14, x21, x22, x23, x24, x31, x32, x33, x34, x41, x42, x43, x44, m12, m13, m14, m21, m23, m24, m31, m32, m34, m41, m42, m43]) (by simp [fromTriplet, Pt.lt, Pt.gt, f1, f2, f3, f4, c11, c12, c13, c14, c21, c22, c23, c24, c31, c32, c33, c34, c41, c42, c43, c44, e12, e13, e14, e21, e23, e24, e31, e32, e34, e41, e42, e43, x11, x12, x13, x14, x21, x22, x23, x24, x31, x32, x33, x34, x41, x42, x43, x44, m12, m13, m14, m21, m23, m24, m31, m32, m34, m41, m42, m43]) (by simp [fromTriplet, Pt.lt, Pt.gt, f1, f2, f3, f4, c11, c12, c13, c14, c21, c22, c23, c24, c31, c32, c33, c34, c41, c42, c43, c44, e12, e13, e14, e21, e23, e24, e31, e32, e34, e41, e42, e43, x11, x12, x13, x14, x21, x22, x23, x24, x31, x32, x33, x34, x41, x42, x43, x44, m12, m13, m14, m21, m23, m24, m31, m32, m34, m41, m42, m43]) (by simp [fromTriplet, Pt.lt, Pt.gt, f1, f2, f3, f4, c11, c12, c13, c14, c21, c22, c23, c24, c31, c32, c33, c34, c41, c42, c43, c44, e12, e13, e14, e21, e23, e24, e31, e32, e34, e41, e42, e43, x11, x12, x13, x14, x21, x22, x23, x24, x31, x32, x33, x34, x41, x42, x43, x44, m12, m13, m14, m21, m23, m24, m31, m32, m34, m41, m42, m43])
      (by simp [f1, f2, f3, f4, c11, c12, c13, c14, c21, c22, c23, c24, c31, c32, c33, c34, c41, c42, c43, c44, e12, e13, e14, e21, e23, e24, e31, e32, e34, e41, e42, e43, x11, x12, x13, x14, x21, x22, x23, x24, x31, x32, x33, x34, x41, x42, x43, x44, m12, m13, m14, m21, m23, m24, m31, m32, m34, m41, m42, m43])
    exact ⟨sweep_quad_err hsetup hr, sweepMon_quad_err hsetup hr⟩
  · -- abscissae in the order of the input positions (1, 2, 3, 0): ring `A`, `P 2` is a Bend
    obtain ⟨f1, f2, f3, f4, c11, c12, c13, c14, c21, c22, c23, c24, c31, c32, c33, c34, c41, c42, c43, c44, e12, e13, e14, e21, e23, e24, e31, e32, e34, e41, e42, e43, x11, x12, x13, x14, x21, x22, x23, x24, x31, x32, x33, x34, x41, x42, x43, x44, m12, m13, m14, m21, m23, m24, m31, m32, m34, m41, m42, m43⟩ := ord4_fin (P 1) (P 2) (P 3) (P 0) h12 h23 h34
    have hbq : BowTie (P 1) (P 2) (P 3) (P 0) := by sym8 hb
    have hr := ringA_bow true
      (ringQ (Fq (P 0)) (Fq (P 1)) (Fq (P 2)) (Fq (P 3))) 1 2 3 0 (P 1) (P 2) (P 3) (P 0)
      rfl rfl rfl rfl h12 h23 h34 hbq
    have hsetup := setup_quad (Fq (P 0)) (Fq (P 1)) (Fq (P 2)) (Fq (P 3)) [(1, [])] .end_ .start .bend .bend
      (validPt_fq _ _ (by simp)) (validPt_fq _ _ (by simp [f1, f2, f3, f4, c11, c12, c13, c14, c21, c22, c23, c24, c31, c32, c33, c34, c41, c42, c43, c44, e12, e13, e14, e21, e23, e24, e31, e32, e34, e41, e42, e43, x11, x12, x13, x14, x21, x22, x23, x24, x31, x32, x33, x34, x41, x42, x43, x44, m12, m13, m14, m21, m23, m24, m31, m32, m34, m41, m42, m43]))
      (validPt_fq _ _ (by simp [f1, f2, f3, f4, c11, c12, c13, c14, c21, c22, c23, c24, c31, c32, c33, c34, c41, c42, c43, c44, e12, e13, e14, e21, e23, e24, e31, e32, e34, e41, e42, e43, x11, x12, x13, x14, x21, x22, x23, x24, x31, x32, x33, x34, x41, x42, x43, x44, m12, m13, m14, m21, m23, m24, m31, m32, m34, m41, m42, m43])) (validPt_fq _ _ (by simp [f1, f2, f3, f4, c11, c12, c13, c14, c21, c22, c23, c24, c31, c32, c33, c34, c41, c42, c43, c44, e12, e13, e14, e21, e23, e24, e31, e32, e34, e41, e42, e43, x11, x12, x13, x14, x21, x22, x23, x24, x31, x32, x33, x34, x41, x42, x43, x44, m12, m13, m14, m21, m23, m24, m31, m32, m34, m41, m42, m43]))
      (by simp [fromTriplet, Pt.lt, Pt.gt, f1, f2, f3, f4, c11, c12, c13, c14, c21, c22, c23, c24, c31, c32, c33, c34, c41, c42, c43, c44, e12, e13, e14, e21, e23, e24, e31, e32, e34, e41, e42, e43, x11, x12, x13, x14, x21, x22, x23, x24, x31, x32, x33, x34, x41, x42, x43, x44, m12, m13, m14, m21, m23, m24, m31, m32, m34, m41, m42, m43]) (by simp [fromTriplet, Pt.lt, Pt.gt, f1, f2, f3, f4, c11, c12, c13, c14, c21, c22, c23, c24, c31, c32, c33, c34, c41, c42, c43, c44, e12, e13, e14, e21, e23, e24, e31, e32, e34, e41, e42, e43, x11, x12, x13, x14, x21, x22, x23, x24, x31, x32, x33, x34, x41, x42, x43, x44, m12, m13, m14, m21, m23, m24, m31, m32, m34, m41, m42, m43]) (by simp [fromTriplet, Pt.lt, Pt.gt, f1, f2, f3, f4, c11, c12, c13, c14, c21, c22, c23, c24, c31, c32, c33, c34, c41, c42, c43, c44, e12, e13, e14, e21, e23, e24, e31, e32, e34, e41, e42, e43, x11, x12, x13, x14, x21, x22, x23, x24, x31, x32, x33, x34, x41, x42, x43, x44, m12, m13, m14, m21, m23, m24, m31, m32, m34, m41, m42, m43]) (by simp [fromTriplet, Pt.lt, Pt.gt, f1, f2, f3, f4, c11, c12, c13, c14, c21, c22, c23, c24, c31, c32, c33, c34, c41, c42, c43, c44, e12, e13, e14, e21, e23, e24, e31, e32, e34, e41, e42, e43, x11, x12, x13, x14, x21, x22, x23, x24, x31, x32, x33, x34, x41, x42, x43, x44, m12, m13, m14, m21, m23, m24, m31, m32, m34, m41, m42, m43])
      (by simp [f1, f2, f3, f4, c11, c12, c13, c14, c21, c22, c23, c24, c31, c32, c33, c34, c41, c42, c43, c44, e12, e13, e14, e21, e23, e24, e31, e32, e34, e41, e42, e43, x11, x12, x13, x14, x21, x22, x23, x24, x31, x32, x33, x34, x41, x42, x43, x44, m12, m13, m14, m21, m23, m24, m31, m32, m34, m41, m42, m43])
    exact ⟨sweep_quad_err hsetup hr, sweepMon_quad_err hsetup hr⟩
  · -- abscissae in the order of the input positions (1, 3, 0, 2): ring `Z`, `P 3` is a second Start
    obtain ⟨f1, f2, f3, f4, c11, c12, c13, c14, c21, c22, c23, c24, c31, c32, c33, c34, c41, c42, c43, c44, e12, e13, e14, e21, e23, e24, e31, e32, e34, e41, e42, e43, x11, x12, x13, x14, x21, x22, x23, x24, x31, x32, x33, x34, x41, x42, x43, x44, m12, m13, m14, m21, m23, m24, m31, m32, m34, m41, m42, m43⟩ := ord4_fin (P 1) (P 3) (P 0) (P 2) h12 h23 h34
    have hbq : BowTie (P 1) (P 0) (P 3) (P 2) := by sym8 hb
    have hr := ringZ_bow false
      (ringQ (Fq (P 0)) (Fq (P 1)) (Fq (P 2)) (Fq (P 3))) 1 3 0 2 (P 1) (P 3) (P 0) (P 2)
      rfl rfl rfl rfl h12 h23 h34 hbq
    have hsetup := setup_quad (Fq (P 0)) (Fq (P 1)) (Fq (P 2)) (Fq (P 3)) [(1, []), (3, [])] .end_ .start .end_ .start
      (validPt_fq _ _ (by simp)) (validPt_fq _ _ (by simp [f1, f2, f3, f4, c11, c12, c13, c14, c21, c22, c23, c24, c31, c32, c33, c34, c41, c42, c43, c44, e12, e13, e14, e21, e23, e24, e31, e32, e34, e41, e42, e43, x11, x12, x13, x14, x21, x22, x23, x24, x31, x32, x33, x34, x41, x42, x43, x44, m12, m13, m14, m21, m23, m24, m31, m32, m34, m41, m42, m43]))
      (validPt_fq _ _ (by simp [f1, f2, f3, f4, c11, c12, c13, c14, c21, c22, c23, c24, c31, c32, c33, c34, c41, c42, c43, c44, e12, e13, e14, e21, e23, e24, e31, e32, e34, e41, e42, e43, x11, x12, x13, x14, x21, x22, x23, x24, x31, x32, x33, x34, x41, x42, x43, x44, m12, m13, m14, m21, m23, m24, m31, m32, m34, m41, m42, m43])) (validPt_fq _ _ (by simp [f1, f2, f3, f4, c11, c12, c13, c14, c21, c22, c23, c24, c31, c32, c33, c34, c41, c42, c43, c44, e12, e13, e14, e21, e23, e24, e31, e32, e34, e41, e42, e43, x11, x12, x13, x14, x21, x22, x23, x24, x31, x32, x33, x34, x41, x42, x43, x44, m12, m13, m14, m21, m23, m24, m31, m32, m34, m41, m42, m43]))
      (by simp [fromTriplet, Pt.lt, Pt.gt, f1, f2, f3, f4, c11, c12, c13, c14, c21, c22, c23, c24, c31, c32, c33, c34, c41, c42, c43, c44, e12, e13, e14, e21, e23, e24, e31, e32, e34, e41, e42, e43, x11, x12, x13, x14, x21, x22, x23, x24, x31, x32, x33, x34, x41, x42, x43, x44, m12, m13, m14, m21, m23, m24, m31, m32, m34, m41, m42, m43]) (by simp [fromTriplet, Pt.lt, Pt.gt, f1, f2, f3, f4, c11, c12, c13, c14, c21, c22, c23, c24, c31, c32, c33, c34, c41, c42, c43, c44, e12, e13, e14, e21, e23, e24, e31, e32, e34, e41, e42, e43, x11, x12, x13, x14, x21, x22, x23, x24, x31, x32, x33, x34, x41, x42, x43, x44, m12, m13, m14, m21, m23, m24, m31, m32, m34, m41, m42, m43]) (by simp [fromTriplet, Pt.lt, Pt.gt, f1, f2, f3, f4, c11, c12, c13, c14, c21, c22, c23, c24, c31, c32, c33, c34, c41, c42, c43, c44, e12, e13, e14, e21, e23, e24, e31, e32, e34, e41, e42, e43, x11, x12, x13, x14, x21, x22, x23, x24, x31, x32, x33, x34, x41, x42, x43, x44, m12, m13, m14, m21, m23, m24, m31, m32, m34, m41, m42, m43]) (by simp [fromTriplet, Pt.lt, Pt.gt, f1, f2, f3, f4, c11, c12, c13, c14, c21, c22, c23, c24, c31, c32, c33, c34, c41, c42, c43, c44, e12, e13, e14, e21, e23, e24, e31, e32, e34, e41, e42, e43, x11, x12, x13, x14, x21, x22, x23, x24, x31, x32, x33, x34, x41, x42, x43, x44, m12, m13, m14, m21, m23, m24, m31, m32, m34, m41, m42, m43])
      (by simp [f1, f2, f3, f4, c11, c12, c13, c14, c21, c22, c23, c24, c31, c32, c33, c34, c41, c42, c43, c44, e12, e13, e14, e21, e23, e24, e31, e32, e34, e41, e42, e43, x11, x12, x13, x14, x21, x22, x23, x24, x31, x32, x33, x34, x41, x42, x43, x44, m12, m13, m14, m21, m23, m24, m31, m32, m34, m41, m42, m43])
    exact ⟨sweep_quad_err hsetup hr, sweepMon_quad_err hsetup hr⟩
  · -- abscissae in the order of the input positions (1, 3, 2, 0): ring `Z`, `P 3` is a second Start
    obtain ⟨f1, f2, f3, f4, c11, c12, c13, c14, c21, c22, c23, c24, c31, c32, c33, c34, c41, c42, c43, c44, e12, e13, e14, e21, e23, e24, e31, e32, e34, e41, e42, e43, x11, x12, x13, x14, x21, x22, x23, x24, x31, x32, x33, x34, x41, x42, x43, x44, m12, m13, m14, m21, m23, m24, m31, m32, m34, m41, m42, m43⟩ := ord4_fin (P 1) (P 3) (P 2) (P 0) h12 h23 h34
    have hbq : BowTie (P 1) (P 2) (P 3) (P 0) := by sym8 hb
    have hr := ringZ_bow true
      (ringQ (Fq (P 0)) (Fq (P 1)) (Fq (P 2)) (Fq (P 3))) 1 3 2 0 (P 1) (P 3) (P 2) (P 0)
      rfl rfl rfl rfl h12 h23 h34 hbq
    have hsetup := setup_quad (Fq (P 0)) (Fq (P 1)) (Fq (P 2)) (Fq (P 3)) [(1, []), (3, [])] .end_ .start .end_ .start
      (validPt_fq _ _ (by simp)) (validPt_fq _ _ (by simp [f1, f2, f3, f4, c11, c12, c13, c14, c21, c22, c23, c24, c31, c32, c33, c34, c41, c42, c43, c44, e12, e13, e14, e21, e23, e24, e31, e32, e34, e41, e42, e43, x11, x12, x13, x14, x21, x22, x23, x24, x31, x32, x33, x34, x41, x42, x43, x44, m12, m13, m14, m21, m23, m24, m31, m32, m34, m41, m42, m43]))
      (validPt_fq _ _ (by simp [f1, f2, f3, f4, c11, c12, c13, c14, c21, c22, c23, c24, c31, c32, c33, c34, c41, c42, c43, c44, e12, e13, e14, e21, e23, e24, e31, e32, e34, e41, e42, e43, x11, x12, x13, x14, x21, x22, x23, x24, x31, x32, x33, x34, x41, x42, x43, x44, m12, m13, m14, m21, m23, m24, m31, m32, m34, m41, m42, m43])) (validPt_fq _ _ (by simp [f1, f2, f3, f4, c11, c12, c13, c14, c21, c22, c23, c24, c31, c32, c33, c34, c41, c42, c43, c44, e12, e13, e14, e21, e23, e24, e31, e32, e34, e41, e42, e43, x11, x12, x13, x14, x21, x22, x23, x24, x31, x32, x33, x34, x41, x42, x43, x44, m12, m13, m14, m21, m23, m24, m31, m32, m34, m41, m42, m43]))
      (by simp [fromTriplet, Pt.lt, Pt.gt, f1, f2, f3, f4, c11, c12, c13, c14, c21, c22, c23, c24, c31, c32, c33, c34, c41, c42, c43, c44, e12, e13, e14, e21, e23, e24, e31, e32, e34, e41, e42, e43, x11, x12, x13, x14, x21, x22, x23, x24, x31, x32, x33, x34, x41, x42, x43, x44, m12, m13, m14, m21, m23, m24, m31, m32, m34, m41, m42, m43]) (by simp [fromTriplet, Pt.lt, Pt.gt, f1, f2, f3, f4, c11, c12, c13, c14, c21, c22, c23, c24, c31, c32, c33, c34, c41, c42, c43, c44, e12, e13, e14, e21, e23, e24, e31, e32, e34, e41, e42, e43, x11, x12, x13, x14, x21, x22, x23, x24, x31, x32, x33, x34, x41, x42, x43, x44, m12, m13, m14, m21, m23, m24, m31, m32, m34, m41, m42, m43]) (by simp [fromTriplet, Pt.lt, Pt.gt, f1, f2, f3, f4, c11, c12, c13, c14, c21, c22, c23, c24, c31, c32, c33, c34, c41, c42, c43, c44, e12, e13, e14, e21, e23, e24, e31, e32, e34, e41, e42, e43, x11, x12, x13, x14, x21, x22, x23, x24, x31, x32, x33, x34, x41, x42, x43, x44, m12, m13, m14, m21, m23, m24, m31, m32, m34, m41, m42, m43]) (by simp [fromTriplet, Pt.lt, Pt.gt, f1, f2, f3, f4, c11, c12, c13, c14, c21, c22, c23, c24, c31, c32, c33, c34, c41, c42, c43, c44, e12, e13, e14, e21, e23, e24, e31, e32, e34, e41, e42, e43, x11, x12, x13, x14, x21, x22, x23, x24, x31, x32, x33, x34, x41, x42, x43, x44, m12, m13, m14, m21, m23, m24, m31, m32, m34, m41, m42, m43])
      (by simp [f1, f2, f3, f4, c11, c12, c13, c14, c21, c22, c23, c24, c31, c32, c33, c34, c41, c42, c43, c44, e12, e13, e14, e21, e23, e24, e31, e32, e34, e41, e42, e43, x11, x12, x13, x14, x21, x22, x23, x24, x31, x32, x33, x34, x41, x42, x43, x44, m12, m13, m14, m21, m23, m24, m31, m32, m34, m41, m42, m43])
    exact ⟨sweep_quad_err hsetup hr, sweepMon_quad_err hsetup hr⟩
  · -- abscissae in the order of the input positions (2, 0, 1, 3): ring `Z`, `P 0` is a second Start
    obtain ⟨f1, f2, f3, f4, c11, c12, c13, c14, c21, c22, c23, c24, c31, c32, c33, c34, c41, c42, c43, c44, e12, e13, e14, e21, e23, e24, e31, e32, e34, e41, e42, e43, x11, x12, x13, x14, x21, x22, x23, x24, x31, x32, x33, x34, x41, x42, x43, x44, m12, m13, m14, m21, m23, m24, m31, m32, m34, m41, m42, m43⟩ := ord4_fin (P 2) (P 0) (P 1) (P 3) h12 h23 h34
    have hbq : BowTie (P 2) (P 1) (P 0) (P 3) := by sym8 hb
    have hr := ringZ_bow false
      (ringQ (Fq (P 0)) (Fq (P 1)) (Fq (P 2)) (Fq (P 3))) 2 0 1 3 (P 2) (P 0) (P 1) (P 3)
      rfl rfl rfl rfl h12 h23 h34 hbq
    have hsetup := setup_quad (Fq (P 0)) (Fq (P 1)) (Fq (P 2)) (Fq (P 3)) [(2, []), (0, [])] .start .end_ .start .end_
      (validPt_fq _ _ (by simp)) (validPt_fq _ _ (by simp [f1, f2, f3, f4, c11, c12, c13, c14, c21, c22, c23, c24, c31, c32, c33, c34, c41, c42, c43, c44, e12, e13, e14, e21, e23, e24, e31, e32, e34, e41, e42, e43, x11, x12, x13, x14, x21, x22, x23, x24, x31, x32, x33, x34, x41, x42, x43, x44, m12, m13, m14, m21, m23, m24, m31, m32, m34, m41, m42, m43]))
      (validPt_fq _ _ (by simp [f1, f2, f3, f4, c11, c12, c13, c14, c21, c22, c23, c24, c31, c32, c33, c34, c41, c42, c43, c44, e12, e13, e14, e21, e23, e24, e31, e32, e34, e41, e42, e43, x11, x12, x13, x14, x21, x22, x23, x24, x31, x32, x33, x34, x41, x42, x43, x44, m12, m13, m14, m21, m23, m24, m31, m32, m34, m41, m42, m43])) (validPt_fq _ _ (by simp [f1, f2, f3, f4, c11, c12, c13, c14, c21, c22, c23, c24, c31, c32, c33, c34, c41, c42, c43, c44, e12, e13, e14, e21, e23, e24, e31, e32, e34, e41, e42, e43, x11, x12, x13, x14, x21, x22, x23, x24, x31, x32, x33, x34, x41, x42, x43, x44, m12, m13, m14, m21, m23, m24, m31, m32, m34, m41, m42, m43]))
      (by simp [fromTriplet, Pt.lt, Pt.gt, f1, f2, f3, f4, c11, c12, c13, c14, c21, c22, c23, c24, c31, c32, c33, c34, c41, c42, c43, c44, e12, e13, e14, e21, e23, e24, e31, e32, e34, e41, e42, e43, x11, x12, x13, x14, x21, x22, x23, x24, x31, x32, x33, x34, x41, x42, x43, x44, m12, m13, m14, m21, m23, m24, m31, m32, m34, m41, m42, m43]) (by simp [fromTriplet, Pt.lt, Pt.gt, f1, f2, f3, f4, c11, c12, c13, c14, c21, c22, c23, c24, c31, c32, c33, c34, c41, c42, c43, c44, e12, e13, e14, e21, e23, e24, e31, e32, e34, e41, e42, e43, x11, x12, x13, x14, x21, x22, x23, x24, x31, x32, x33, x34, x41, x42, x43, x44, m12, m13, m14, m21, m23, m24, m31, m32, m34, m41, m42, m43]) (by simp [fromTriplet, Pt.lt, Pt.gt, f1, f2, f3, f4, c11, c12, c13, c14, c21, c22, c23, c24, c31, c32, c33, c34, c41, c42, c43, c44, e12, e13, e14, e21, e23, e24, e31, e32, e34, e41, e42, e43, x11, x12, x13, x14, x21, x22, x23, x24, x31, x32, x33, x34, x41, x42, x43, x44, m12, m13, m14, m21, m23, m24, m31, m32, m34, m41, m42, m43]) (by simp [fromTriplet, Pt.lt, Pt.gt, f1, f2, f3, f4, c11, c12, c13, c14, c21, c22, c23, c24, c31, c32, c33, c34, c41, c42, c43, c44, e12, e13, e14, e21, e23, e24, e31, e32, e34, e41, e42, e43, x11, x12, x13, x14, x21, x22, x23, x24, x31, x32, x33, x34, x41, x42, x43, x44, m12, m13, m14, m21, m23, m24, m31, m32, m34, m41, m42, m43])
      (by simp [f1, f2, f3, f4, c11, c12, c13, c14, c21, c22, c23, c24, c31, c32, c33, c34, c41, c42, c43, c44, e12, e13, e14, e21, e23, e24, e31, e32, e34, e41, e42, e43, x11, x12, x13, x14, x21, x22, x23, x24, x31, x32, x33, x34, x41, x42, x43, x44, m12, m13, m14, m21, m23, m24, m31, m32, m34, m41, m42, m43])
    exact ⟨sweep_quad_err hsetup hr, sweepMon_quad_err hsetup hr⟩
  · -- abscissae in the order of the input positions (2, 0, 3, 1): ring `Z`, `P 0` is a second Start
    obtain ⟨f1, f2, f3, f4, c11, c12, c13, c14, c21, c22, c23, c24, c31, c32, c33, c34, c41, c42, c43, c44, e12, e13, e14, e21, e23, e24, e31, e32, e34, e41, e42, e43, x11, x12, x13, x14, x21, x22, x23, x24, x31, x32, x33, x34, x41, x42, x43, x44, m12, m13, m14, m21, m23, m24, m31, m32, m34, m41, m42, m43⟩ := ord4_fin (P 2) (P 0) (P 3) (P 1) h12 h23 h34
    have hbq : BowTie (P 2) (P 3) (P 0) (P 1) := by sym8 hb
    have hr := ringZ_bow true
      (ringQ (Fq (P 0)) (Fq (P 1)) (Fq (P 2)) (Fq (P 3))) 2 0 3 1 (P 2) (P 0) (P 3) (P 1)
      rfl rfl rfl rfl h12 h23 h34 hbq
    have hsetup := setup_quad (Fq (P 0)) (Fq (P 1)) (Fq (P 2)) (Fq (P 3)) [(2, []), (0, [])] .start .end_ .start .end_
      (validPt_fq _ _ (by simp)) (validPt_fq _ _ (by simp [f1, f2, f3, f4, c11, c12, c13, c14, c21, c22, c23, c24, c31, c32, c33, c34, c41, c42, c43, c44, e12, e13, e14, e21, e23, e24, e31, e32, e34, e41, e42, e43, x11, x12, x13, x14, x21, x22, x23, x24, x31, x32, x33, x34, x41, x42, x43, x44, m12, m13, m14, m21, m23, m24, m31, m32, m34, m41, m42, m43]))
      (validPt_fq _ _ (by simp [f1, f2, f3, f4, c11, c12, c13, c14, c21, c22, c23, c24, c31, c32, c33, c34, c41, c42, c43, c44, e12, e13, e14, e21, e23, e24, e31, e32, e34, e41, e42, e43, x11, x12, x13, x14, x21, x22, x23, x24, x31, x32, x33, x34, x41, x42, x43, x44, m12, m13, m14, m21, m23, m24, m31, m32, m34, m41, m42, m43])) (validPt_fq _ _ (by simp [f1, f2, f3, f4, c11, c12, c13, c14, c21, c22, c23, c24, c31, c32, c33, c34, c41, c42, c43, c44, e12, e13, e14, e21, e23, e24, e31, e32, e34, e41, e42, e43, x11, x12, x13, x14, x21, x22, x23, x24, x31, x32, x33, x34, x41, x42, x43, x44, m12, m13, m14, m21, m23, m24, m31, m32, m34, m41, m42, m43]))
      (by simp [fromTriplet, Pt.lt, Pt.gt, f1, f2, f3, f4, c11, c12, c13, c14, c21, c22, c23, c24, c31, c32, c33, c34, c41, c42, c43, c44, e12, e13, e14, e21, e23, e24, e31, e32, e34, e41, e42, e43, x11, x12, x13, x14, x21, x22, x23, x24, x31, x32, x33, x34, x41, x42, x43, x44, m12, m13, m14, m21, m23, m24, m31, m32, m34, m41, m42, m43]) (by simp [fromTriplet, Pt.lt, Pt.gt, f1, f2, f3, f4, c11, c12, c13, c14, c21, c22, c23, c24, c31, c32, c33, c34, c41, c42, c43, c44, e12, e13, e14, e21, e23, e24, e31, e32, e34, e41, e42, e43, x11, x12, x13, x14, x21, x22, x23, x24, x31, x32, x33, x34, x41, x42, x43, x44, m12, m13, m14, m21, m23, m24, m31, m32, m34, m41, m42, m43]) (by simp [fromTriplet, Pt.lt, Pt.gt, f1, f2, f3, f4, c11, c12, c13, c14, c21, c22, c23, c24, c31, c32, c33, c34, c41, c42, c43, c44, e12, e13, e14, e21, e23, e24, e31, e32, e34, e41, e42, e43, x11, x12, x13, x14, x21, x22, x23, x24, x31, x32, x33, x34, x41, x42, x43, x44, m12, m13, m14, m21, m23, m24, m31, m32, m34, m41, m42, m43]) (by simp [fromTriplet, Pt.lt, Pt.gt, f1, f2, f3, f4, c11, c12, c13, c14, c21, c22, c23, c24, c31, c32, c33, c34, c41, c42, c43, c44, e12, e13, e14, e21, e23, e24, e31, e32, e34, e41, e42, e43, x11, x12, x13, x14, x21, x22, x23, x24, x31, x32, x33, x34, x41, x42, x43, x44, m12, m13, m14, m21, m23, m24, m31, m32, m34, m41, m42, m43])
      (by simp [f1, f2, f3, f4, c11, c12, c13, c14, c21, c22, c23, c24, c31, c32, c33, c34, c41, c42, c43, c44, e12, e13, e14, e21, e23, e24, e31, e32, e34, e41, e42, e43, x11, x12, x13, x14, x21, x22, x23, x24, x31, x32, x33, x34, x41, x42, x43, x44, m12, m13, m14, m21, m23, m24, m31, m32, m34, m41, m42, m43])
    exact ⟨sweep_quad_err hsetup hr, sweepMon_quad_err hsetup hr⟩
  · -- abscissae in the order of the input positions (2, 1, 0, 3): ring `A`, `P 1` is a Bend
    obtain ⟨f1, f2, f3, f4, c11, c12, c13, c14, c21, c22, c23, c24, c31, c32, c33, c34, c41, c42, c43, c44, e12, e13, e14, e21, e23, e24, e31, e32, e34, e41, e42, e43, x11, x12, x13, x14, x21, x22, x23, x24, x31, x32, x33, x34, x41, x42, x43, x44, m12, m13, m14, m21, m23, m24, m31, m32, m34, m41, m42, m43⟩ := ord4_fin (P 2) (P 1) (P 0) (P 3) h12 h23 h34
    have hbq : BowTie (P 2) (P 1) (P 0) (P 3) := by sym8 hb
    have hr := ringA_bow false
      (ringQ (Fq (P 0)) (Fq (P 1)) (Fq (P 2)) (Fq (P 3))) 2 1 0 3 (P 2) (P 1) (P 0) (P 3)
      rfl rfl rfl rfl h12 h23 h34 hbq
    have hsetup := setup_quad (Fq (P 0)) (Fq (P 1)) (Fq (P 2)) (Fq (P 3)) [(2, [])] .bend .bend .start .end_
      (validPt_fq _ _ (by simp)) (validPt_fq _ _ (by simp [f1, f2, f3, f4, c11, c12, c13, c14, c21, c22, c23, c24, c31, c32, c33, c34, c41, c42, c43, c44, e12, e13, e14, e21, e23, e24, e31, e32, e34, e41, e42, e43, x11, x12, x13, x14, x21, x22, x23, x24, x31, x32, x33, x34, x41, x42, x43, x44, m12, m13, m14, m21, m23, m24, m31, m32, m34, m41, m42, m43]))
      (validPt_fq _ _ (by simp [f1, f2, f3, f4, c11, c12, c13, c14, c21, c22, c23, c24, c31, c32, c33, c34, c41, c42, c43, c44, e12, e13, e14, e21, e23, e24, e31, e32, e34, e41, e42, e43, x11, x12, x13, x14, x21, x22, x23, x24, x31, x32, x33, x34, x41, x42, x43, x44, m12, m13, m14, m21, m23, m24, m31, m32, m34, m41, m42, m43])) (validPt_fq _ _ (by simp [f1, f2, f3, f4, c11, c12, c13, c14, c21, c22, c23, c24, c31, c32, c33, c34, c41, c42, c43, c44, e12, e13, e14, e21, e23, e24, e31, e32, e34, e41, e42, e43, x11, x12, x13, x14, x21, x22, x23, x24, x31, x32, x33, x34, x41, x42, x43, x44, m12, m13, m14, m21, m23, m24, m31, m32, m34, m41, m42, m43]))
      (by simp [fromTriplet, Pt.lt, Pt.gt, f1, f2, f3, f4, c11, c12, c13, c14, c21, c22, c23, c24, c31, c32, c33, c34, c41, c42, c43, c44, e12, e13, e14, e21, e23, e24, e31, e32, e34, e41, e42, e43, x11, x12, x13, x14, x21, x22, x23, x24, x31, x32, x33, x34, x41, x42, x43, x44, m12, m13, m14, m21, m23, m24, m31, m32, m34, m41, m42, m43]) (by simp [fromTriplet, Pt.lt, Pt.gt, f1, f2, f3, f4, c11, c12, c13, c14, c21, c22, c23, c24, c31, c32, c33, c34, c41, c42, c43, c44, e12, e13, e14, e21, e23, e24, e31, e32, e34, e41, e42, e43, x11, x12, x13, x14, x21, x22, x23, x24, x31, x32, x33, x34, x41, x42, x43, x44, m12, m13, m14, m21, m23, m24, m31, m32, m34, m41, m42, m43]) (by simp [fromTriplet, Pt.lt, Pt.gt, f1, f2, f3, f4, c11, c12, c13, c14, c21, c22, c23, c24, c31, c32, c33, c34, c41, c42, c43, c44, e12, e13, e14, e21, e23, e24, e31, e32, e34, e41, e42, e43, x11, x12, x13, x14, x21, x22, x23, x24, x31, x32, x33, x34, x41, x42, x43, x44, m12, m13, m14, m21, m23, m24, m31, m32, m34, m41, m42, m43]) (by simp [fromTriplet, Pt.lt, Pt.gt, f1, f2, f3, f4, c11, c12, c13, c14, c21, c22, c23, c24, c31, c32, c33, c34, c41, c42, c43, c44, e12, e13, e14, e21, e23, e24, e31, e32, e34, e41, e42, e43, x11, x12, x13, x14, x21, x22, x23, x24, x31, x32, x33, x34, x41, x42, x43, x44, m12, m13, m14, m21, m23, m24, m31, m32, m34, m41, m42, m43])
      (by simp [f1, f2, f3, f4, c11, c12, c13, c14, c21, c22, c23, c24, c31, c32, c33, c34, c41, c42, c43, c44, e12, e13, e14, e21, e23, e24, e31, e32, e34, e41, e42, e43, x11, x12, x13, x14, x21, x22, x23, x24, x31, x32, x33, x34, x41, x42, x43, x44, m12, m13, m14, m21, m23, m24, m31, m32, m34, m41, m42, m43])
    exact ⟨sweep_quad_err hsetup hr, sweepMon_quad_err hsetup hr⟩
  · -- abscissae in the order of the input positions (2, 1, 3, 0): ring `O`, `P 1` is a Bend
    obtain ⟨f1, f2, f3, f4, c11, c12, c13, c14, c21, c22, c23, c24, c31, c32, c33, c34, c41, c42, c43, c44, e12, e13, e14, e21, e23, e24, e31, e32, e34, e41, e42, e43, x11, x12, x13, x14, x21, x22, x23, x24, x31, x32, x33, x34, x41, x42, x43, x44, m12, m13, m14, m21, m23, m24, m31, m32, m34, m41, m42, m43⟩ := ord4_fin (P 2) (P 1) (P 3) (P 0) h12 h23 h34
    have hbq : BowTie (P 2) (P 1) (P 0) (P 3) := by sym8 hb
    have hr := ringO_bow true
      (ringQ (Fq (P 0)) (Fq (P 1)) (Fq (P 2)) (Fq (P 3))) 2 1 3 0 (P 2) (P 1) (P 3) (P 0)
      rfl rfl rfl rfl h12 h23 h34 hbq
    have hsetup := setup_quad (Fq (P 0)) (Fq (P 1)) (Fq (P 2)) (Fq (P 3)) [(2, [])] .end_ .bend .start .bend
      (validPt_fq _ _ (by simp)) (validPt_fq _ _ (by simp [f1, f2, f3, f4, c11, c12, c13, c14, c21, c22, c23, c24, c31, c32, c33, c34, c41, c42, c43, c44, e12, e13, e14, e21, e23, e24, e31, e32, e34, e41, e42, e43, x11, x12, x13, x14, x21, x22, x23, x24, x31, x32, x33, x34, x41, x42, x43, x44, m12, m13, m14, m21, m23, m24, m31, m32, m34, m41, m42, m43]))
      (validPt_fq _ _ (by simp [f1, f2, f3, f4, c11, c12, c13, c14, c21, c22, c23, c24, c31, c32, c33, c34, c41, c42, c43, c44, e12, e13, e14, e21, e23, e24, e31, e32, e34, e41, e42, e43, x11, x12, x13, x14, x21, x22, x23, x24, x31, x32, x33, x34, x41, x42, x43, x44, m12, m13, m14, m21, m23, m24, m31, m32, m34, m41, m42, m43])) (validPt_fq _ _ (by simp [f1, f2, f3, f4, c11, c12, c13, c14, c21, c22, c23, c24, c31, c32, c33, c34, c41, c42, c43, c44, e12, e13, e14, e21, e23, e24, e31, e32, e34, e41, e42, e43, x11, x12, x13, x14, x21, x22, x23, x24, x31, x32, x33, x34, x41, x42, x43, x44, m12, m13, m14, m21, m23, m24, m31, m32, m34, m41, m42, m43]))
      (by simp [fromTriplet, Pt.lt, Pt.gt, f1, f2, f3, f4, c11, c12, c13, c14, c21, c22, c23, c24, c31, c32, c33, c34, c41, c42, c43, c44, e12, e13, e14, e21, e23, e24, e31, e32, e34, e41, e42, e43, x11, x12, x13, x14, x21, x22, x23, x24, x31, x32, x33, x34, x41, x42, x43, x44, m12, m13, m14, m21, m23, m24, m31, m32, m34, m41, m42, m43]) (by simp [fromTriplet, Pt.lt, Pt.gt, f1, f2, f3, f4, c11, c12, c13, c14, c21, c22, c23, c24, c31, c32, c33, c34, c41, c42, c43, c44, e12, e13, e14, e21, e23, e24, e31, e32, e34, e41, e42, e43, x11, x12, x13, x14, x21, x22, x23, x24, x31, x32, x33, x34, x41, x42, x43, x44, m12, m13, m14, m21, m23, m24, m31, m32, m34, m41, m42, m43]) (by simp [fromTriplet, Pt.lt, Pt.gt, f1, f2, f3, f4, c11, c12, c13, c14, c21, c22, c23, c24, c31, c32, c33, c34, c41, c42, c43, c44, e12, e13, e14, e21, e23, e24, e31, e32, e34, e41, e42, e43, x11, x12, x13, x14, x21, x22, x23, x24, x31, x32, x33, x34, x41, x42, x43, x44, m12, m13, m14, m21, m23, m24, m31, m32, m34, m41, m42, m43]) (by simp [fromTriplet, Pt.lt, Pt.gt, f1, f2, f3, f4, c11, c12, c13, c14, c21, c22, c23, c24, c31, c32, c33, c34, c41, c42, c43, c44, e12, e13, e14, e21, e23, e24, e31, e32, e34, e41, e42, e43, x11, x12, x13, x14, x21, x22, x23, x24, x31, x32, x33, x34, x41, x42, x43, x44, m12, m13, m14, m21, m23, m24, m31, m32, m34, m41, m42, m43])
      (by simp [f1, f2, f3, f4, c11, c12, c13, c14, c21, c22, c23, c24, c31, c32, c33, c34, c41, c42, c43, c44, e12, e13, e14, e21, e23, e24, e31, e32, e34, e41, e42, e43, x11, x12, x13, x14, x21, x22, x23, x24, x31, x32, x33, x34, x41, x42, x43, x44, m12, m13, m14, m21, m23, m24, m31, m32, m34, m41, m42, m43])
    exact ⟨sweep_quad_err hsetup hr, sweepMon_quad_err hsetup hr⟩
  · -- abscissae in the order of the input positions (2, 3, 0, 1): ring `A`, `P 3` is a Bend
    obtain ⟨f1, f2, f3, f4, c11, c12, c13, c14, c21, c22, c23, c24, c31, c32, c33, c34, c41, c42, c43, c44, e12, e13, e14, e21, e23, e24, e31, e32, e34, e41, e42, e43, x11, x12, x13, x14, x21, x22, x23, x24, x31, x32, x33, x34, x41, x42, x43, x44, m12, m13, m14, m21, m23, m24, m31, m32, m34, m41, m42, m43⟩ := ord4_fin (P 2) (P 3) (P 0) (P 1) h12 h23 h34
    have hbq : BowTie (P 2) (P 3) (P 0) (P 1) := by sym8 hb
    have hr := ringA_bow true
      (ringQ (Fq (P 0)) (Fq (P 1)) (Fq (P 2)) (Fq (P 3))) 2 3 0 1 (P 2) (P 3) (P 0) (P 1)
      rfl rfl rfl rfl h12 h23 h34 hbq
    have hsetup := setup_quad (Fq (P 0)) (Fq (P 1)) (Fq (P 2)) (Fq (P 3)) [(2, [])] .bend .end_ .start .bend
      (validPt_fq _ _ (by simp)) (validPt_fq _ _ (by simp [f1, f2, f3, f4, c11, c12, c13, c14, c21, c22, c23, c24, c31, c32, c33, c34, c41, c42, c43, c44, e12, e13, e14, e21, e23, e24, e31, e32, e34, e41, e42, e43, x11, x12, x13, x14, x21, x22, x23, x24, x31, x32, x33, x34, x41, x42, x43, x44, m12, m13, m14, m21, m23, m24, m31, m32, m34, m41, m42, m43]))
      (validPt_fq _ _ (by simp [f1, f2, f3, f4, c11, c12, c13, c14, c21, c22, c23, c24, c31, c32, c33, c34, c41, c42, c43, c44, e12, e13, e14, e21, e23, e24, e31, e32, e34, e41, e42, e43, x11, x12, x13, x14, x21, x22, x23, x24, x31, x32, x33, x34, x41, x42, x43, x44, m12, m13, m14, m21, m23, m24, m31, m32, m34, m41, m42, m43])) (validPt_fq _ _ (by simp [f1, f2, f3, f4, c11, c12, c13, c14, c21, c22, c23, c24, c31, c32, c33, c34, c41, c42, c43, c44, e12, e13, e14, e21, e23, e24, e31, e32, e34, e41, e42, e43, x11, x12, x13, x14, x21, x22, x23, x24, x31, x32, x33, x34, x41, x42, x43, x44, m12, m13, m14, m21, m23, m24, m31, m32, m34, m41, m42, m43]))
      (by simp [fromTriplet, Pt.lt, Pt.gt, f1, f2, f3, f4, c11, c12, c13, c14, c21, c22, c23, c24, c31, c32, c33, c34, c41, c42, c43, c44, e12, e13, e14, e21, e23, e24, e31, e32, e34, e41, e42, e43, x11, x12, x13, x14, x21, x22, x23, x24, x31, x32, x33, x34, x41, x42, x43, x44, m12, m13, m14, m21, m23, m24, m31, m32, m34, m41, m42, m43]) (by simp [fromTriplet, Pt.lt, Pt.gt, f1, f2, f3, f4, c11, c12, c13, c14, c21, c22, c23, c24, c31, c32, c33, c34, c41, c42, c43, c44, e12, e13, e14, e21, e23, e24, e31, e32, e34, e41, e42, e43, x11, x12, x13, x14, x21, x22, x23, x24, x31, x32, x33, x34, x41, x42, x43, x44, m12, m13, m14, m21, m23, m24, m31, m32, m34, m41, m42, m43]) (by simp [fromTriplet, Pt.lt, Pt.gt, f1, f2, f3, f4, c11, c12, c13, c14, c21, c22, c23, c24, c31, c32, c33, c34, c41, c42, c43, c44, e12, e13, e14, e21, e23, e24, e31, e32, e34, e41, e42, e43, x11, x12, x13, x14, x21, x22, x23, x24, x31, x32, x33, x34, x41, x42, x43, x44, m12, m13, m14, m21, m23, m24, m31, m32, m34, m41, m42, m43]) (by simp [fromTriplet, Pt.lt, Pt.gt, f1, f2, f3, f4, c11, c12, c13, c14, c21, c22, c23, c24, c31, c32, c33, c34, c41, c42, c43, c44, e12, e13, e14, e21, e23, e24, e31, e32, e34, e41, e42, e43, x11, x12, x13, x14, x21, x22, x23, x24, x31, x32, x33, x34, x41, x42, x43, x44, m12, m13, m14, m21, m23, m24, m31, m32, m34, m41, m42, m43])
      (by simp [f1, f2, f3, f4, c11, c12, c13, c14, c21, c22, c23, c24, c31, c32, c33, c34, c41, c42, c43, c44, e12, e13, e14, e21, e23, e24, e31, e32, e34, e41, e42, e43, x11, x12, x13, x14, x21, x22, x23, x24, x31, x32, x33, x34, x41, x42, x43, x44, m12, m13, m14, m21, m23, m24, m31, m32, m34, m41, m42, m43])
    exact ⟨sweep_quad_err hsetup hr, sweepMon_quad_err hsetup hr⟩
  · -- abscissae in the order of the input positions (2, 3, 1, 0): ring `O`, `P 3` is a Bend
    obtain ⟨f1, f2, f3, f4, c11, c12, c13, c14, c21, c22, c23, c24, c31, c32, c33, c34, c41, c42, c43, c44, e12, e13, e14, e21, e23, e24, e31, e32, e34, e41, e42, e43, x11, x12, x13, x14, x21, x22, x23, x24, x31, x32, x33, x34, x41, x42, x43, x44, m12, m13, m14, m21, m23, m24, m31, m32, m34, m41, m42, m43⟩ := ord4_fin (P 2) (P 3) (P 1) (P 0) h12 h23 h34
    have hbq : BowTie (P 2) (P 3) (P 0) (P 1) := by sym8 hb
    have hr := ringO_bow false
      (ringQ (Fq (P 0)) (Fq (P 1)) (Fq (P 2)) (Fq (P 3))) 2 3 1 0 (P 2) (P 3) (P 1) (P 0)
      rfl rfl rfl rfl h12 h23 h34 hbq
    have hsetup := setup_quad (Fq (P 0)) (Fq (P 1)) (Fq (P 2)) (Fq (P 3)) [(2, [])] .end_ .bend .start .bend
      (validPt_fq _ _ (by simp)) (validPt_fq _ _ (by simp [f1, f2, f3, f4, c11, c12, c13, c14, c21, c22, c23, c24, c31, c32, c33, c34, c41, c42, c43, c44, e12, e13, e14, e21, e23, e24, e31, e32, e34, e41, e42, e43, x11, x12, x13, x14, x21, x22, x23, x24, x31, x32, x33, x34, x41, x42, x43, x44, m12, m13, m14, m21, m23, m24, m31, m32, m34, m41, m42, m43]))
      (validPt_fq _ _ (by simp [f1, f2, f3, f4, c11, c12, c13, c14, c21, c22, c23, c24, c31, c32, c33, c34, c41, c42, c43, c44, e12, e13, e14, e21, e23, e24, e31, e32, e34, e41, e42, e43, x11, x12, x13, x14, x21, x22, x23, x24, x31, x32, x33, x34, x41, x42, x43, x44, m12, m13, m14, m21, m23, m24, m31, m32, m34, m41, m42, m43])) (validPt_fq _ _ (by simp [f1, f2, f3, f4, c11, c12, c13, c14, c21, c22, c23, c24, c31, c32, c33, c34, c41, c42, c43, c44, e12, e13, e14, e21, e23, e24, e31, e32, e34, e41, e42, e43, x11, x12, x13, x14, x21, x22, x23, x24, x31, x32, x33, x34, x41, x42, x43, x44, m12, m13, m14, m21, m23, m24, m31, m32, m34, m41, m42, m43]))
      (by simp [fromTriplet, Pt.lt, Pt.gt, f1, f2, f3, f4, c11, c12, c13, c14, c21, c22, c23, c24, c31, c32, c33, c34, c41, c42, c43, c44, e12, e13, e14, e21, e23, e24, e31, e32, e34, e41, e42, e43, x11, x12, x13, x14, x21, x22, x23, x24, x31, x32, x33, x34, x41, x42, x43, x44, m12, m13, m14, m21, m23, m24, m31, m32, m34, m41, m42, m43]) (by simp [fromTriplet, Pt.lt, Pt.gt, f1, f2, f3, f4, c11, c12, c13, c14, c21, c22, c23, c24, c31, c32, c33, c34, c41, c42, c43, c44, e12, e13, e14, e21, e23, e24, e31, e32, e34, e41, e42, e43, x11, x12, x13, x14, x21, x22, x23, x24, x31, x32, x33, x34, x41, x42, x43, x44, m12, m13, m14, m21, m23, m24, m31, m32, m34, m41, m42, m43]) (by simp [fromTriplet, Pt.lt, Pt.gt, f1, f2, f3, f4, c11, c12, c13, c14, c21, c22, c23, c24, c31, c32, c33, c34, c41, c42, c43, c44, e12, e13, e14, e21, e23, e24, e31, e32, e34, e41, e42, e43, x11, x12, x13, x14, x21, x22, x23, x24, x31, x32, x33, x34, x41, x42, x43, x44, m12, m13, m14, m21, m23, m24, m31, m32, m34, m41, m42, m43]) (by simp [fromTriplet, Pt.lt, Pt.gt, f1, f2, f3, f4, c11, c12, c13, c14, c21, c22, c23, c24, c31, c32, c33, c34, c41, c42, c43, c44, e12, e13, e14, e21, e23, e24, e31, e32, e34, e41, e42, e43, x11, x12, x13, x14, x21, x22, x23, x24, x31, x32, x33, x34, x41, x42, x43, x44, m12, m13, m14, m21, m23, m24, m31, m32, m34, m41, m42, m43])
      (by simp [f1, f2, f3, f4, c11, c12, c13, c14, c21, c22, c23, c24, c31, c32, c33, c34, c41, c42, c43, c44, e12, e13, e14, e21, e23, e24, e31, e32, e34, e41, e42, e43, x11, x12, x13, x14, x21, x22, x23, x24, x31, x32, x33, x34, x41, x42, x43, x44, m12, m13, m14, m21, m23, m24, m31, m32, m34, m41, m42, m43])
    exact ⟨sweep_quad_err hsetup hr, sweepMon_quad_err hsetup hr⟩
  · -- abscissae in the order of the input positions (3, 0, 1, 2): ring `A`, `P 0` is a Bend
    obtain ⟨f1, f2, f3, f4, c11, c12, c13, c14, c21, c22, c23, c24, c31, c32, c33, c34, c41, c42, c43, c44, e12, e13, e14, e21, e23, e24, e31, e32, e34, e41, e42, e43, x11, x12, x13, x14, x21, x22, x23, x24, x31, x32, x33, x34, x41, x42, x43, x44, m12, m13, m14, m21, m23, m24, m31, m32, m34, m41, m42, m43⟩ := ord4_fin (P 3) (P 0) (P 1) (P 2) h12 h23 h34
    have hbq : BowTie (P 3) (P 0) (P 1) (P 2) := by sym8 hb
    have hr := ringA_bow true
      (ringQ (Fq (P 0)) (Fq (P 1)) (Fq (P 2)) (Fq (P 3))) 3 0 1 2 (P 3) (P 0) (P 1) (P 2)
      rfl rfl rfl rfl h12 h23 h34 hbq
    have hsetup := setup_quad (Fq (P 0)) (Fq (P 1)) (Fq (P 2)) (Fq (P 3)) [(3, [])] .bend .bend .end_ .start
      (validPt_fq _ _ (by simp)) (validPt_fq _ _ (by simp [f1, f2, f3, f4, c11, c12, c13, c14, c21, c22, c23, c24, c31, c32, c33, c34, c41, c42, c43, c44, e12, e13, e14, e21, e23, e24, e31, e32, e34, e41, e42, e43, x11, x12, x13, x14, x21, x22, x23, x24, x31, x32, x33, x34, x41, x42, x43, x44, m12, m13, m14, m21, m23, m24, m31, m32, m34, m41, m42, m43]))
      (validPt_fq _ _ (by simp [f1, f2, f3, f4, c11, c12, c13, c14, c21, c22, c23, c24, c31, c32, c33, c34, c41, c42, c43, c44, e12, e13, e14, e21, e23, e24, e31, e32, e34, e41, e42, e43, x11, x12, x13, x14, x21, x22, x23, x24, x31, x32, x33, x34, x41, x42, x43, x44, m12, m13, m14, m21, m23, m24, m31, m32, m34, m41, m42, m43])) (validPt_fq _ _ (by simp [f1, f2, f3, f4, c11, c12, c13, c14, c21, c22, c23, c24, c31, c32, c33, c34, c41, c42, c43, c44, e12, e13, e14, e21, e23, e24, e31, e32, e34, e41, e42, e43, x11, x12, x13, x14, x21, x22, x23, x24, x31, x32, x33, x34, x41, x42, x43, x44, m12, m13, m14, m21, m23, m24, m31, m32, m34, m41, m42, m43]))
      (by simp [fromTriplet, Pt.lt, Pt.gt, f1, f2, f3, f4, c11, c12, c13, c14, c21, c22, c23, c24, c31, c32, c33, c34, c41, c42, c43, c44, e12, e13, e14, e21, e23, e24, e31, e32, e34, e41, e42, e43, x11, x12, x13, x14, x21, x22, x23, x24, x31, x32, x33, x34, x41, x42, x43, x44, m12, m13, m14, m21, m23, m24, m31, m32, m34, m41, m42, m43]) (by simp [fromTriplet, Pt.lt, Pt.gt, f1, f2, f3, f4, c11, c12, c13, c14, c21, c22, c23, c24, c31, c32, c33, c34, c41, c42, c43, c44, e12, e13, e14, e21, e23, e24, e31, e32, e34, e41, e42, e43, x11, x12, x13, x14, x21, x22, x23, x24, x31, x32, x33, x34, x41, x42, x43, x44, m12, m13, m14, m21, m23, m24, m31, m32, m34, m41, m42, m43]) (by simp [fromTriplet, Pt.lt, Pt.gt, f1, f2, f3, f4, c11, c12, c13, c14, c21, c22, c23, c24, c31, c32, c33, c34, c41, c42, c43, c44, e12, e13, e14, e21, e23, e24, e31, e32, e34, e41, e42, e43, x11, x12, x13, x14, x21, x22, x23, x24, x31, x32, x33, x34, x41, x42, x43, x44, m12, m13, m14, m21, m23, m24, m31, m32, m34, m41, m42, m43]) (by simp [fromTriplet, Pt.lt, Pt.gt, f1, f2, f3, f4, c11, c12, c13, c14, c21, c22, c23, c24, c31, c32, c33, c34, c41, c42, c43, c44, e12, e13, e14, e21, e23, e24, e31, e32, e34, e41, e42, e43, x11, x12, x13, x14, x21, x22, x23, x24, x31, x32, x33, x34, x41, x42, x43, x44, m12, m13, m14, m21, m23, m24, m31, m32, m34, m41, m42, m43])
      (by simp [f1, f2, f3, f4, c11, c12, c13, c14, c21, c22, c23, c24, c31, c32, c33, c34, c41, c42, c43, c44, e12, e13, e14, e21, e23, e24, e31, e32, e34, e41, e42, e43, x11, x12, x13, x14, x21, x22, x23, x24, x31, x32, x33, x34, x41, x42, x43, x44, m12, m13, m14, m21, m23, m24, m31, m32, m34, m41, m42, m43])
    exact ⟨sweep_quad_err hsetup hr, sweepMon_quad_err hsetup hr⟩
  · -- abscissae in the order of the input positions (3, 0, 2, 1): ring `O`, `P 0` is a Bend
    obtain ⟨f1, f2, f3, f4, c11, c12, c13, c14, c21, c22, c23, c24, c31, c32, c33, c34, c41, c42, c43, c44, e12, e13, e14, e21, e23, e24, e31, e32, e34, e41, e42, e43, x11, x12, x13, x14, x21, x22, x23, x24, x31, x32, x33, x34, x41, x42, x43, x44, m12, m13, m14, m21, m23, m24, m31, m32, m34, m41, m42, m43⟩ := ord4_fin (P 3) (P 0) (P 2) (P 1) h12 h23 h34
    have hbq : BowTie (P 3) (P 0) (P 1) (P 2) := by sym8 hb
    have hr := ringO_bow false
      (ringQ (Fq (P 0)) (Fq (P 1)) (Fq (P 2)) (Fq (P 3))) 3 0 2 1 (P 3) (P 0) (P 2) (P 1)
      rfl rfl rfl rfl h12 h23 h34 hbq
    have hsetup := setup_quad (Fq (P 0)) (Fq (P 1)) (Fq (P 2)) (Fq (P 3)) [(3, [])] .bend .end_ .bend .start
      (validPt_fq _ _ (by simp)) (validPt_fq _ _ (by simp [f1, f2, f3, f4, c11, c12, c13, c14, c21, c22, c23, c24, c31, c32, c33, c34, c41, c42, c43, c44, e12, e13, e14, e21, e23, e24, e31, e32, e34, e41, e42, e43, x11, x12, x13, x14, x21, x22, x23, x24, x31, x32, x33, x34, x41, x42, x43, x44, m12, m13, m14, m21, m23, m24, m31, m32, m34, m41, m42, m43]))
      (validPt_fq _ _ (by simp [f1, f2, f3, f4, c11, c12, c13, c14, c21, c22, c23, c24, c31, c32, c33, c34, c41, c42, c43, c44, e12, e13, e14, e21, e23, e24, e31, e32, e34, e41, e42, e43, x11, x12, x13, x14, x21, x22, x23, x24, x31, x32, x33, x34, x41, x42, x43, x44, m12, m13, m14, m21, m23, m24, m31, m32, m34, m41, m42, m43])) (validPt_fq _ _ (by simp [f1, f2, f3, f4, c11, c12, c13, c14, c21, c22, c23, c24, c31, c32, c33, c34, c41, c42, c43, c44, e12, e13, e14, e21, e23, e24, e31, e32, e34, e41, e42, e43, x11, x12, x13, x14, x21, x22, x23, x24, x31, x32, x33, x34, x41, x42, x43, x44, m12, m13, m14, m21, m23, m24, m31, m32, m34, m41, m42, m43]))
      (by simp [fromTriplet, Pt.lt, Pt.gt, f1, f2, f3, f4, c11, c12, c13, c14, c21, c22, c23, c24, c31, c32, c33, c34, c41, c42, c43, c44, e12, e13, e14, e21, e23, e24, e31, e32, e34, e41, e42, e43, x11, x12, x13, x14, x21, x22, x23, x24, x31, x32, x33, x34, x41, x42, x43, x44, m12, m13, m14, m21, m23, m24, m31, m32, m34, m41, m42, m43]) (by simp [fromTriplet, Pt.lt, Pt.gt, f1, f2, f3, f4, c11, c12, c13, c14, c21, c22, c23, c24, c31, c32, c33, c34, c41, c42, c43, c44, e12, e13, e14, e21, e23, e24, e31, e32, e34, e41, e42, e43, x11, x12, x13, x14, x21, x22, x23, x24, x31, x32, x33, x34, x41, x42, x43, x44, m12, m13, m14, m21, m23, m24, m31, m32, m34, m41, m42, m43]) (by simp [fromTriplet, Pt.lt, Pt.gt, f1, f2, f3, f4, c11, c12, c13, c14, c21, c22, c23, c24, c31, c32, c33, c34, c41, c42, c43, c44, e12, e13, e14, e21, e23, e24, e31, e32, e34, e41, e42, e43, x11, x12, x13, x14, x21, x22, x23, x24, x31, x32, x33, x34, x41, x42, x43, x44, m12, m13, m14, m21, m23, m24, m31, m32, m34, m41, m42, m43]) (by simp [fromTriplet, Pt.lt, Pt.gt, f1, f2, f3, f4, c11, c12, c13, c14, c21, c22, c23, c24, c31, c32, c33, c34, c41, c42, c43, c44, e12, e13, e14, e21, e23, e24, e31, e32, e34, e41, e42, e43, x11, x12, x13, x14, x21, x22, x23, x24, x31, x32, x33, x34, x41, x42, x43, x44, m12, m13, m14, m21, m23, m24, m31, m32, m34, m41, m42, m43])
      (by simp [f1, f2, f3, f4, c11, c12, c13, c14, c21, c22, c23, c24, c31, c32, c33, c34, c41, c42, c43, c44, e12, e13, e14, e21, e23, e24, e31, e32, e34, e41, e42, e43, x11, x12, x13, x14, x21, x22, x23, x24, x31, x32, x33, x34, x41, x42, x43, x44, m12, m13, m14, m21, m23, m24, m31, m32, m34, m41, m42, m43])
    exact ⟨sweep_quad_err hsetup hr, sweepMon_quad_err hsetup hr⟩
  · -- abscissae in the order of the input positions (3, 1, 0, 2): ring `Z`, `P 1` is a second Start
    obtain ⟨f1, f2, f3, f4, c11, c12, c13, c14, c21, c22, c23, c24, c31, c32, c33, c34, c41, c42, c43, c44, e12, e13, e14, e21, e23, e24, e31, e32, e34, e41, e42, e43, x11, x12, x13, x14, x21, x22, x23, x24, x31, x32, x33, x34, x41, x42, x43, x44, m12, m13, m14, m21, m23, m24, m31, m32, m34, m41, m42, m43⟩ := ord4_fin (P 3) (P 1) (P 0) (P 2) h12 h23 h34
    have hbq : BowTie (P 3) (P 0) (P 1) (P 2) := by sym8 hb
    have hr := ringZ_bow true
      (ringQ (Fq (P 0)) (Fq (P 1)) (Fq (P 2)) (Fq (P 3))) 3 1 0 2 (P 3) (P 1) (P 0) (P 2)
      rfl rfl rfl rfl h12 h23 h34 hbq
    have hsetup := setup_quad (Fq (P 0)) (Fq (P 1)) (Fq (P 2)) (Fq (P 3)) [(3, []), (1, [])] .end_ .start .end_ .start
      (validPt_fq _ _ (by simp)) (validPt_fq _ _ (by simp [f1, f2, f3, f4, c11, c12, c13, c14, c21, c22, c23, c24, c31, c32, c33, c34, c41, c42, c43, c44, e12, e13, e14, e21, e23, e24, e31, e32, e34, e41, e42, e43, x11, x12, x13, x14, x21, x22, x23, x24, x31, x32, x33, x34, x41, x42, x43, x44, m12, m13, m14, m21, m23, m24, m31, m32, m34, m41, m42, m43]))
      (validPt_fq _ _ (by simp [f1, f2, f3, f4, c11, c12, c13, c14, c21, c22, c23, c24, c31, c32, c33, c34, c41, c42, c43, c44, e12, e13, e14, e21, e23, e24, e31, e32, e34, e41, e42, e43, x11, x12, x13, x14, x21, x22, x23, x24, x31, x32, x33, x34, x41, x42, x43, x44, m12, m13, m14, m21, m23, m24, m31, m32, m34, m41, m42, m43])) (validPt_fq _ _ (by simp [f1, f2, f3, f4, c11, c12, c13, c14, c21, c22, c23, c24, c31, c32, c33, c34, c41, c42, c43, c44, e12, e13, e14, e21, e23, e24, e31, e32, e34, e41, e42, e43, x11, x12, x13, x14, x21, x22, x23, x24, x31, x32, x33, x34, x41, x42, x43, x44, m12, m13, m14, m21, m23, m24, m31, m32, m34, m41, m42, m43]))
      (by simp [fromTriplet, Pt.lt, Pt.gt, f1, f2, f3, f4, c11, c12, c13, c14, c21, c22, c23, c24, c31, c32, c33, c34, c41, c42, c43, c44, e12, e13, e14, e21, e23, e24, e31, e32, e34, e41, e42, e43, x11, x12, x13, x14, x21, x22, x23, x24, x31, x32, x33, x34, x41, x42, x43, x44, m12, m13, m14, m21, m23, m24, m31, m32, m34, m41, m42, m43]) (by simp [fromTriplet, Pt.lt, Pt.gt, f1, f2, f3, f4, c11, c12, c13, c14, c21, c22, c23, c24, c31, c32, c33, c34, c41, c42, c43, c44, e12, e13, e14, e21, e23, e24, e31, e32, e34, e41, e42, e43, x11, x12, x13, x14, x21, x22, x23, x24, x31, x32, x33, x34, x41, x42, x43, x44, m12, m13, m14, m21, m23, m24, m31, m32, m34, m41, m42, m43]) (by simp [fromTriplet, Pt.lt, Pt.gt, f1, f2, f3, f4, c11, c12, c13, c14, c21, c22, c23, c24, c31, c32, c33, c34, c41, c42, c43, c44, e12, e13, e14, e21, e23, e24, e31, e32, e34, e41, e42, e43, x11, x12, x13, x14, x21, x22, x23, x24, x31, x32, x33, x34, x41, x42, x43, x44, m12, m13, m14, m21, m23, m24, m31, m32, m34, m41, m42, m43]) (by simp [fromTriplet, Pt.lt, Pt.gt, f1, f2, f3, f4, c11, c12, c13, c14, c21, c22, c23, c24, c31, c32, c33, c34, c41, c42, c43, c44, e12, e13, e14, e21, e23, e24, e31, e32, e34, e41, e42, e43, x11, x12, x13, x14, x21, x22, x23, x24, x31, x32, x33, x34, x41, x42, x43, x44, m12, m13, m14, m21, m23, m24, m31, m32, m34, m41, m42, m43])
      (by simp [f1, f2, f3, f4, c11, c12, c13, c14, c21, c22, c23, c24, c31, c32, c33, c34, c41, c42, c43, c44, e12, e13, e14, e21, e23, e24, e31, e32, e34, e41, e42, e43, x11, x12, x13, x14, x21, x22, x23, x24, x31, x32, x33, x34, x41, x42, x43, x44, m12, m13, m14, m21, m23, m24, m31, m32, m34, m41, m42, m43])
    exact ⟨sweep_quad_err hsetup hr, sweepMon_quad_err hsetup hr⟩
  · -- abscissae in the order of the input positions (3, 1, 2, 0): ring `Z`, `P 1` is a second Start
    obtain ⟨f1, f2, f3, f4, c11, c12, c13, c14, c21, c22, c23, c24, c31, c32, c33, c34, c41, c42, c43, c44, e12, e13, e14, e21, e23, e24, e31, e32, e34, e41, e42, e43, x11, x12, x13, x14, x21, x22, x23, x24, x31, x32, x33, x34, x41, x42, x43, x44, m12, m13, m14, m21, m23, m24, m31, m32, m34, m41, m42, m43⟩ := ord4_fin (P 3) (P 1) (P 2) (P 0) h12 h23 h34
    have hbq : BowTie (P 3) (P 2) (P 1) (P 0) := by sym8 hb
    have hr := ringZ_bow false
      (ringQ (Fq (P 0)) (Fq (P 1)) (Fq (P 2)) (Fq (P 3))) 3 1 2 0 (P 3) (P 1) (P 2) (P 0)
      rfl rfl rfl rfl h12 h23 h34 hbq
    have hsetup := setup_quad (Fq (P 0)) (Fq (P 1)) (Fq (P 2)) (Fq (P 3)) [(3, []), (1, [])] .end_ .start .end_ .start
      (validPt_fq _ _ (by simp)) (validPt_fq _ _ (by simp [f1, f2, f3, f4, c11, c12, c13, c14, c21, c22, c23, c24, c31, c32, c33, c34, c41, c42, c43, c44, e12, e13, e14, e21, e23, e24, e31, e32, e34, e41, e42, e43, x11, x12, x13, x14, x21, x22, x23, x24, x31, x32, x33, x34, x41, x42, x43, x44, m12, m13, m14, m21, m23, m24, m31, m32, m34, m41, m42, m43]))
      (validPt_fq _ _ (by simp [f1, f2, f3, f4, c11, c12, c13, c14, c21, c22, c23, c24, c31, c32, c33, c34, c41, c42, c43, c44, e12, e13, e14, e21, e23, e24, e31, e32, e34, e41, e42, e43, x11, x12, x13, x14, x21, x22, x23, x24, x31, x32, x33, x34, x41, x42, x43, x44, m12, m13, m14, m21, m23, m24, m31, m32, m34, m41, m42, m43])) (validPt_fq _ _ (by simp [f1, f2, f3, f4, c11, c12, c13, c14, c21, c22, c23, c24, c31, c32, c33, c34, c41, c42, c43, c44, e12, e13, e14, e21, e23, e24, e31, e32, e34, e41, e42, e43, x11, x12, x13, x14, x21, x22, x23, x24, x31, x32, x33, x34, x41, x42, x43, x44, m12, m13, m14, m21, m23, m24, m31, m32, m34, m41, m42, m43]))
      (by simp [fromTriplet, Pt.lt, Pt.gt, f1, f2, f3, f4, c11, c12, c13, c14, c21, c22, c23, c24, c31, c32, c33, c34, c41, c42, c43, c44, e12, e13, e14, e21, e23, e24, e31, e32, e34, e41, e42, e43, x11, x12, x13, x14, x21, x22, x23, x24, x31, x32, x33, x34, x41, x42, x43, x44, m12, m13, m14, m21, m23, m24, m31, m32, m34, m41, m42, m43]) (by simp [fromTriplet, Pt.lt, Pt.gt, f1, f2, f3, f4, c11, c12, c13, c14, c21, c22, c23, c24, c31, c32, c33, c34, c41, c42, c43, c44, e12, e13, e14, e21, e23, e24, e31, e32, e34, e41, e42, e43, x11, x12, x13, x14, x21, x22, x23, x24, x31, x32, x33, x34, x41, x42, x43, x44, m12, m13, m14, m21, m23, m24, m31, m32, m34, m41, m42, m43]) (by simp [fromTriplet, Pt.lt, Pt.gt, f1, f2, f3, f4, c11, c12, c13, c14, c21, c22, c23, c24, c31, c32, c33, c34, c41, c42, c43, c44, e12, e13, e14, e21, e23, e24, e31, e32, e34, e41, e42, e43, x11, x12, x13, x14, x21, x22, x23, x24, x31, x32, x33, x34, x41, x42, x43, x44, m12, m13, m14, m21, m23, m24, m31, m32, m34, m41, m42, m43]) (by simp [fromTriplet, Pt.lt, Pt.gt, f1, f2, f3, f4, c11, c12, c13, c14, c21, c22, c23, c24, c31, c32, c33, c34, c41, c42, c43, c44, e12, e13, e14, e21, e23, e24, e31, e32, e34, e41, e42, e43, x11, x12, x13, x14, x21, x22, x23, x24, x31, x32, x33, x34, x41, x42, x43, x44, m12, m13, m14, m21, m23, m24, m31, m32, m34, m41, m42, m43])
      (by simp [f1, f2, f3, f4, c11, c12, c13, c14, c21, c22, c23, c24, c31, c32, c33, c34, c41, c42, c43, c44, e12, e13, e14, e21, e23, e24, e31, e32, e34, e41, e42, e43, x11, x12, x13, x14, x21, x22, x23, x24, x31, x32, x33, x34, x41, x42, x43, x44, m12, m13, m14, m21, m23, m24, m31, m32, m34, m41, m42, m43])
    exact ⟨sweep_quad_err hsetup hr, sweepMon_quad_err hsetup hr⟩
  · -- abscissae in the order of the input positions (3, 2, 0, 1): ring `O`, `P 2` is a Bend
    obtain ⟨f1, f2, f3, f4, c11, c12, c13, c14, c21, c22, c23, c24, c31, c32, c33, c34, c41, c42, c43, c44, e12, e13, e14, e21, e23, e24, e31, e32, e34, e41, e42, e43, x11, x12, x13, x14, x21, x22, x23, x24, x31, x32, x33, x34, x41, x42, x43, x44, m12, m13, m14, m21, m23, m24, m31, m32, m34, m41, m42, m43⟩ := ord4_fin (P 3) (P 2) (P 0) (P 1) h12 h23 h34
    have hbq : BowTie (P 3) (P 2) (P 1) (P 0) := by sym8 hb
    have hr := ringO_bow true
      (ringQ (Fq (P 0)) (Fq (P 1)) (Fq (P 2)) (Fq (P 3))) 3 2 0 1 (P 3) (P 2) (P 0) (P 1)
      rfl rfl rfl rfl h12 h23 h34 hbq
    have hsetup := setup_quad (Fq (P 0)) (Fq (P 1)) (Fq (P 2)) (Fq (P 3)) [(3, [])] .bend .end_ .bend .start
      (validPt_fq _ _ (by simp)) (validPt_fq _ _ (by simp [f1, f2, f3, f4, c11, c12, c13, c14, c21, c22, c23, c24, c31, c32, c33, c34, c41, c42, c43, c44, e12, e13, e14, e21, e23, e24, e31, e32, e34, e41, e42, e43, x11, x12, x13, x14, x21, x22, x23, x24, x31, x32, x33, x34, x41, x42, x43, x44, m12, m13, m14, m21, m23, m24, m31, m32, m34, m41, m42, m43]))
      (validPt_fq _ _ (by simp [f1, f2, f3, f4, c11, c12, c13, c14, c21, c22, c23, c24, c31, c32, c33, c34, c41, c42, c43, c44, e12, e13, e14, e21, e23, e24, e31, e32, e34, e41, e42, e43, x11, x12, x13, x14, x21, x22, x23, x24, x31, x32, x33, x34, x41, x42, x43, x44, m12, m13, m14, m21, m23, m24, m31, m32, m34, m41, m42, m43])) (validPt_fq _ _ (by simp [f1, f2, f3, f4, c11, c12, c13, c14, c21, c22, c23, c24, c31, c32, c33, c34, c41, c42, c43, c44, e12, e13, e14, e21, e23, e24, e31, e32, e34, e41, e42, e43, x11, x12, x13, x14, x21, x22, x23, x24, x31, x32, x33, x34, x41, x42, x43, x44, m12, m13, m14, m21, m23, m24, m31, m32, m34, m41, m42, m43]))
      (by simp [fromTriplet, Pt.lt, Pt.gt, f1, f2, f3, f4, c11, c12, c13, c14, c21, c22, c23, c24, c31, c32, c33, c34, c41, c42, c43, c44, e12, e13, e14, e21, e23, e24, e31, e32, e34, e41, e42, e43, x11, x12, x13, x14, x21, x22, x23, x24, x31, x32, x33, x34, x41, x42, x43, x44, m12, m13, m14, m21, m23, m24, m31, m32, m34, m41, m42, m43]) (by simp [fromTriplet, Pt.lt, Pt.gt, f1, f2, f3, f4, c11, c12, c13, c14, c21, c22, c23, c24, c31, c32, c33, c34, c41, c42, c43, c44, e12, e13, e14, e21, e23, e24, e31, e32, e34, e41, e42, e43, x11, x12, x13, x14, x21, x22, x23, x24, x31, x32, x33, x34, x41, x42, x43, x44, m12, m13, m14, m21, m23, m24, m31, m32, m34, m41, m42, m43]) (by simp [fromTriplet, Pt.lt, Pt.gt, f1, f2, f3, f4, c11, c12, c13, c14, c21, c22, c23, c24, c31, c32, c33, c34, c41, c42, c43, c44, e12, e13, e14, e21, e23, e24, e31, e32, e34, e41, e42, e43, x11, x12, x13, x14, x21, x22, x23, x24, x31, x32, x33, x34, x41, x42, x43, x44, m12, m13, m14, m21, m23, m24, m31, m32, m34, m41, m42, m43]) (by simp [fromTriplet, Pt.lt, Pt.gt, f1, f2, f3, f4, c11, c12, c13, c14, c21, c22, c23, c24, c31, c32, c33, c34, c41, c42, c43, c44, e12, e13, e14, e21, e23, e24, e31, e32, e34, e41, e42, e43, x11, x12, x13, x14, x21, x22, x23, x24, x31, x32, x33, x34, x41, x42, x43, x44, m12, m13, m14, m21, m23, m24, m31, m32, m34, m41, m42, m43])
      (by simp [f1, f2, f3, f4, c11, c12, c13, c14, c21, c22, c23, c24, c31, c32, c33, c34, c41, c42, c43, c44, e12, e13, e14, e21, e23, e24, e31, e32, e34, e41, e42, e43, x11, x12, x13, x14, x21, x22, x23, x24, x31, x32, x33, x34, x41, x42, x43, x44, m12, m13, m14, m21, m23, m24, m31, m32, m34, m41, m42, m43])
    exact ⟨sweep_quad_err hsetup hr, sweepMon_quad_err hsetup hr⟩
  · -- abscissae in the order of the input positions (3, 2, 1, 0): ring `A`, `P 2` is a Bend
    obtain ⟨f1, f2, f3, f4, c11, c12, c13, c14, c21, c22, c23, c24, c31, c32, c33, c34, c41, c42, c43, c44, e12, e13, e14, e21, e23, e24, e31, e32, e34, e41, e42, e43, x11, x12, x13, x14, x21, x22, x23, x24, x31, x32, x33, x34, x41, x42, x43, x44, m12, m13, m14, m21, m23, m24, m31, m32, m34, m41, m42, m43⟩ := ord4_fin (P 3) (P 2) (P 1) (P 0) h12 h23 h34
    have hbq : BowTie (P 3) (P 2) (P 1) (P 0) := by sym8 hb
    have hr := ringA_bow false
      (ringQ (Fq (P 0)) (Fq (P 1)) (Fq (P 2)) (Fq (P 3))) 3 2 1 0 (P 3) (P 2) (P 1) (P 0)
      rfl rfl rfl rfl h12 h23 h34 hbq
    have hsetup := setup_quad (Fq (P 0)) (Fq (P 1)) (Fq (P 2)) (Fq (P 3)) [(3, [])] .end_ .bend .bend .start
      (validPt_fq _ _ (by simp)) (validPt_fq _ _ (by simp [f1, f2, f3, f4, c11, c12, c13, c14, c21, c22, c23, c24, c31, c32, c33, c34, c41, c42, c43, c44, e12, e13, e14, e21, e23, e24, e31, e32, e34, e41, e42, e43, x11, x12, x13, x14, x21, x22, x23, x24, x31, x32, x33, x34, x41, x42, x43, x44, m12, m13, m14, m21, m23, m24, m31, m32, m34, m41, m42, m43]))
      (validPt_fq _ _ (by simp [f1, f2, f3, f4, c11, c12, c13, c14, c21, c22, c23, c24, c31, c32, c33, c34, c41, c42, c43, c44, e12, e13, e14, e21, e23, e24, e31, e32, e34, e41, e42, e43, x11, x12, x13, x14, x21, x22, x23, x24, x31, x32, x33, x34, x41, x42, x43, x44, m12, m13, m14, m21, m23, m24, m31, m32, m34, m41, m42, m43])) (validPt_fq _ _ (by simp [f1, f2, f3, f4, c11, c12, c13, c14, c21, c22, c23, c24, c31, c32, c33, c34, c41, c42, c43, c44, e12, e13, e14, e21, e23, e24, e31, e32, e34, e41, e42, e43, x11, x12, x13, x14, x21, x22, x23, x24, x31, x32, x33, x34, x41, x42, x43, x44, m12, m13, m14, m21, m23, m24, m31, m32, m34, m41, m42, m43]))
      (by simp [fromTriplet, Pt.lt, Pt.gt, f1, f2, f3, f4, c11, c12, c13, c14, c21, c22, c23, c24, c31, c32, c33, c34, c41, c42, c43, c44, e12, e13, e14, e21, e23, e24, e31, e32, e34, e41, e42, e43, x11, x12, x13, x14, x21, x22, x23, x24, x31, x32, x33, x34, x41, x42, x43, x44, m12, m13, m14, m21, m23, m24, m31, m32, m34, m41, m42, m43]) (by simp [fromTriplet, Pt.lt, Pt.gt, f1, f2, f3, f4, c11, c12, c13, c14, c21, c22, c23, c24, c31, c32, c33, c34, c41, c42, c43, c44, e12, e13, e14, e21, e23, e24, e31, e32, e34, e41, e42, e43, x11, x12, x13, x14, x21, x22, x23, x24, x31, x32, x33, x34, x41, x42, x43, x44, m12, m13, m14, m21, m23, m24, m31, m32, m34, m41, m42, m43]) (by simp [fromTriplet, Pt.lt, Pt.gt, f1, f2, f3, f4, c11, c12, c13, c14, c21, c22, c23, c24, c31, c32, c33, c34, c41, c42, c43, c44, e12, e13, e14, e21, e23, e24, e31, e32, e34, e41, e42, e43, x11, x12, x13, x14, x21, x22, x23, x24, x31, x32, x33, x34, x41, x42, x43, x44, m12, m13, m14, m21, m23, m24, m31, m32, m34, m41, m42, m43]) (by simp [fromTriplet, Pt.lt, Pt.gt, f1, f2, f3, f4, c11, c12, c13, c14, c21, c22, c23, c24, c31, c32, c33, c34, c41, c42, c43, c44, e12, e13, e14, e21, e23, e24, e31, e32, e34, e41, e42, e43, x11, x12, x13, x14, x21, x22, x23, x24, x31, x32, x33, x34, x41, x42, x43, x44, m12, m13, m14, m21, m23, m24, m31, m32, m34, m41, m42, m43])
      (by simp [f1, f2, f3, f4, c11, c12, c13, c14, c21, c22, c23, c24, c31, c32, c33, c34, c41, c42, c43, c44, e12, e13, e14, e21, e23, e24, e31, e32, e34, e41, e42, e43, x11, x12, x13, x14, x21, x22, x23, x24, x31, x32, x33, x34, x41, x42, x43, x44, m12, m13, m14, m21, m23, m24, m31, m32, m34, m41, m42, m43])
    exact ⟨sweep_quad_err hsetup hr, sweepMon_quad_err hsetup hr⟩

/-- the four corners as a function of the input position -/
def corner4 (a b c d : Rat × Rat) : Nat → Rat × Rat
  | 0 => a
  | 1 => b
  | 2 => c
  | _ => d

/-- the definition of `BowTie`, spelled out -/
theorem bowTie_iff (a b c d : Rat × Rat) :
    BowTie a b c d ↔
      (orient a b c * orient a b d < 0 ∧ orient c d a * orient c d b < 0) ∨
        (orient b c d * orient b c a < 0 ∧ orient d a b * orient d a c < 0) := Iff.rfl

/-- `p` and `q` are the end points of one of the four edges of the closed quadrilateral
    `a → b → c → d → a` -/
def Adjacent (a b c d p q : Rat × Rat) : Prop :=
  (p = a ∧ q = b) ∨ (p = b ∧ q = a) ∨ (p = b ∧ q = c) ∨ (p = c ∧ q = b) ∨
    (p = c ∧ q = d) ∨ (p = d ∧ q = c) ∨ (p = d ∧ q = a) ∨ (p = a ∧ q = d)

instance (a b c d p q : Rat × Rat) : Decidable (Adjacent a b c d p q) := by
  unfold Adjacent; exact inferInstance

/-- **Every bow-tie in general position is rejected at its second vertex** — the result for a
    given order of the abscissae: if the abscissae increase along the input positions
    `i1, i2, i3, i4` then the error is `overlap bend` at the corner in position `i2` when `i1`,
    `i2` are neighbouring positions, and `overlap start` at that corner otherwise. -/
theorem bowtie_rejected_sorted (a b c d : Rat × Rat) (i1 i2 i3 i4 : Nat)
    (hperm : IsPerm4 i1 i2 i3 i4)
    (h12 : (corner4 a b c d i1).1 < (corner4 a b c d i2).1)
    (h23 : (corner4 a b c d i2).1 < (corner4 a b c d i3).1)
    (h34 : (corner4 a b c d i3).1 < (corner4 a b c d i4).1)
    (hc : Cross a b c d ∨ Cross b c d a) :
    sweep [#[F a.1 a.2, F b.1 b.2, F c.1 c.2, F d.1 d.2]] =
        .error (.overlap (if (i1 + i2) % 2 = 1 then .bend else .start)
          (F (corner4 a b c d i2).1 (corner4 a b c d i2).2)) ∧
      sweepMon [#[F a.1 a.2, F b.1 b.2, F c.1 c.2, F d.1 d.2]] =
        .error (.overlap (if (i1 + i2) % 2 = 1 then .bend else .start)
          (F (corner4 a b c d i2).1 (corner4 a b c d i2).2)) :=
  bowtie_sorted (corner4 a b c d) i1 i2 i3 i4 hperm h12 h23 h34 hc

/-- the points at the positions `i1 … i4` of a permutation are all four corners, and the corners
    at `i1`, `i2` are joined by an edge iff the positions have different parity -/
theorem corner4_perm (a b c d : Rat × Rat) (i1 i2 i3 i4 : Nat) (hperm : IsPerm4 i1 i2 i3 i4)
    (hx : a.1 ≠ b.1 ∧ a.1 ≠ c.1 ∧ a.1 ≠ d.1 ∧ b.1 ≠ c.1 ∧ b.1 ≠ d.1 ∧ c.1 ≠ d.1) :
    corner4 a b c d i1 ∈ [a, b, c, d] ∧ corner4 a b c d i2 ∈ [a, b, c, d] ∧
      (∀ r ∈ [a, b, c, d], r = corner4 a b c d i1 ∨ r = corner4 a b c d i2 ∨
        r = corner4 a b c d i3 ∨ r = corner4 a b c d i4) ∧
      (Adjacent a b c d (corner4 a b c d i1) (corner4 a b c d i2) ↔ (i1 + i2) % 2 = 1) := by
  obtain ⟨n01, n02, n03, n12, n13, n23⟩ := hx
  have ab : a ≠ b := fun h => n01 (by rw [h])
  have ac : a ≠ c := fun h => n02 (by rw [h])
  have ad : a ≠ d := fun h => n03 (by rw [h])
  have bc : b ≠ c := fun h => n12 (by rw [h])
  have bd : b ≠ d := fun h => n13 (by rw [h])
  have cd : c ≠ d := fun h => n23 (by rw [h])
  unfold IsPerm4 at hperm
  rcases hperm with ⟨rfl, rfl, rfl, rfl⟩ | ⟨rfl, rfl, rfl, rfl⟩ | ⟨rfl, rfl, rfl, rfl⟩ | ⟨rfl, rfl, rfl, rfl⟩ | ⟨rfl, rfl, rfl, rfl⟩ | ⟨rfl, rfl, rfl, rfl⟩ | ⟨rfl, rfl, rfl, rfl⟩ | ⟨rfl, rfl, rfl, rfl⟩ | ⟨rfl, rfl, rfl, rfl⟩ | ⟨rfl, rfl, rfl, rfl⟩ | ⟨rfl, rfl, rfl, rfl⟩ | ⟨rfl, rfl, rfl, rfl⟩ | ⟨rfl, rfl, rfl, rfl⟩ | ⟨rfl, rfl, rfl, rfl⟩ | ⟨rfl, rfl, rfl, rfl⟩ | ⟨rfl, rfl, rfl, rfl⟩ | ⟨rfl, rfl, rfl, rfl⟩ | ⟨rfl, rfl, rfl, rfl⟩ | ⟨rfl, rfl, rfl, rfl⟩ | ⟨rfl, rfl, rfl, rfl⟩ | ⟨rfl, rfl, rfl, rfl⟩ | ⟨rfl, rfl, rfl, rfl⟩ | ⟨rfl, rfl, rfl, rfl⟩ | ⟨rfl, rfl, rfl, rfl⟩
  all_goals
    simp [corner4, Adjacent, ab, ac, ad, bc, bd, cd, ab.symm, ac.symm, ad.symm, bc.symm, bd.symm,
      cd.symm]

/-- **C16 for a single bow-tie, general position** — where and by which handler: for rational
    points `a b c d` with pairwise distinct abscissae such that two opposite edges of the closed
    quadrilateral `a → b → c → d → a` cross properly (any start vertex, either orientation), let
    `p` be the leftmost corner and `q` the leftmost of the other three.  The model (with or
    without the ghost flag) returns the error `overlap bend q` if `p q` is an edge of the
    quadrilateral, and `overlap start q` if it is a diagonal. -/
theorem bowtie_rejected_at (a b c d : Rat × Rat)
    (hx : a.1 ≠ b.1 ∧ a.1 ≠ c.1 ∧ a.1 ≠ d.1 ∧ b.1 ≠ c.1 ∧ b.1 ≠ d.1 ∧ c.1 ≠ d.1)
    (hc : Cross a b c d ∨ Cross b c d a) :
    ∃ p q : Rat × Rat, p ∈ [a, b, c, d] ∧ q ∈ [a, b, c, d] ∧
      (∀ r ∈ [a, b, c, d], p.1 ≤ r.1) ∧ q ≠ p ∧ (∀ r ∈ [a, b, c, d], r ≠ p → q.1 ≤ r.1) ∧
      sweep [#[F a.1 a.2, F b.1 b.2, F c.1 c.2, F d.1 d.2]] =
        .error (.overlap (if Adjacent a b c d p q then .bend else .start) (F q.1 q.2)) ∧
      sweepMon [#[F a.1 a.2, F b.1 b.2, F c.1 c.2, F d.1 d.2]] =
        .error (.overlap (if Adjacent a b c d p q then .bend else .start) (F q.1 q.2)) := by
  have key : ∀ i1 i2 i3 i4, IsPerm4 i1 i2 i3 i4 →
      (corner4 a b c d i1).1 < (corner4 a b c d i2).1 →
      (corner4 a b c d i2).1 < (corner4 a b c d i3).1 →
      (corner4 a b c d i3).1 < (corner4 a b c d i4).1 →
      ∃ p q : Rat × Rat, p ∈ [a, b, c, d] ∧ q ∈ [a, b, c, d] ∧
        (∀ r ∈ [a, b, c, d], p.1 ≤ r.1) ∧ q ≠ p ∧ (∀ r ∈ [a, b, c, d], r ≠ p → q.1 ≤ r.1) ∧
        sweep [#[F a.1 a.2, F b.1 b.2, F c.1 c.2, F d.1 d.2]] =
          .error (.overlap (if Adjacent a b c d p q then .bend else .start) (F q.1 q.2)) ∧
        sweepMon [#[F a.1 a.2, F b.1 b.2, F c.1 c.2, F d.1 d.2]] =
          .error (.overlap (if Adjacent a b c d p q then .bend else .start) (F q.1 q.2)) := by
    intro i1 i2 i3 i4 hperm h12 h23 h34
    obtain ⟨m1, m2, hcov, hadj⟩ := corner4_perm a b c d i1 i2 i3 i4 hperm hx
    obtain ⟨hs, hm⟩ := bowtie_rejected_sorted a b c d i1 i2 i3 i4 hperm h12 h23 h34 hc
    refine ⟨corner4 a b c d i1, corner4 a b c d i2, m1, m2, ?_, ?_, ?_, ?_, ?_⟩
    · intro r hr
      rcases hcov r hr with rfl | rfl | rfl | rfl <;> linarith
    · intro h; rw [h] at h12; exact lt_irrefl _ h12
    · intro r hr hne
      rcases hcov r hr with rfl | rfl | rfl | rfl
      · exact absurd rfl hne
      · exact le_rfl
      · linarith
      · linarith
    · simp only [hadj]; exact hs
    · simp only [hadj]; exact hm
  obtain ⟨n01, n02, n03, n12, n13, n23⟩ := hx
  rcases lt_or_gt_of_ne n01 with h01 | h01
  · rcases lt_or_gt_of_ne n02 with h02 | h02
    · rcases lt_or_gt_of_ne n03 with h03 | h03
      · rcases lt_or_gt_of_ne n12 with h12 | h12
        · rcases lt_or_gt_of_ne n13 with h13 | h13
          · rcases lt_or_gt_of_ne n23 with h23 | h23
            · exact key 0 1 2 3 (by simp [IsPerm4]) h01 h12 h23
            · exact key 0 1 3 2 (by simp [IsPerm4]) h01 h13 h23
          · rcases lt_or_gt_of_ne n23 with h23 | h23
            · exfalso; linarith
            · exact key 0 3 1 2 (by simp [IsPerm4]) h03 h13 h12
        · rcases lt_or_gt_of_ne n13 with h13 | h13
          · rcases lt_or_gt_of_ne n23 with h23 | h23
            · exact key 0 2 1 3 (by simp [IsPerm4]) h02 h12 h13
            · exfalso; linarith
          · rcases lt_or_gt_of_ne n23 with h23 | h23
            · exact key 0 2 3 1 (by simp [IsPerm4]) h02 h23 h13
            · exact key 0 3 2 1 (by simp [IsPerm4]) h03 h23 h12
      · rcases lt_or_gt_of_ne n12 with h12 | h12
        · rcases lt_or_gt_of_ne n13 with h13 | h13
          · rcases lt_or_gt_of_ne n23 with h23 | h23
            · exfalso; linarith
            · exfalso; linarith
          · rcases lt_or_gt_of_ne n23 with h23 | h23
            · exfalso; linarith
            · exact key 3 0 1 2 (by simp [IsPerm4]) h03 h01 h12
        · rcases lt_or_gt_of_ne n13 with h13 | h13
          · rcases lt_or_gt_of_ne n23 with h23 | h23
            · exfalso; linarith
            · exfalso; linarith
          · rcases lt_or_gt_of_ne n23 with h23 | h23
            · exfalso; linarith
            · exact key 3 0 2 1 (by simp [IsPerm4]) h03 h02 h12
    · rcases lt_or_gt_of_ne n03 with h03 | h03
      · rcases lt_or_gt_of_ne n12 with h12 | h12
        · rcases lt_or_gt_of_ne n13 with h13 | h13
          · rcases lt_or_gt_of_ne n23 with h23 | h23
            · exfalso; linarith
            · exfalso; linarith
          · rcases lt_or_gt_of_ne n23 with h23 | h23
            · exfalso; linarith
            · exfalso; linarith
        · rcases lt_or_gt_of_ne n13 with h13 | h13
          · rcases lt_or_gt_of_ne n23 with h23 | h23
            · exact key 2 0 1 3 (by simp [IsPerm4]) h02 h01 h13
            · exfalso; linarith
          · rcases lt_or_gt_of_ne n23 with h23 | h23
            · exact key 2 0 3 1 (by simp [IsPerm4]) h02 h03 h13
            · exfalso; linarith
      · rcases lt_or_gt_of_ne n12 with h12 | h12
        · rcases lt_or_gt_of_ne n13 with h13 | h13
          · rcases lt_or_gt_of_ne n23 with h23 | h23
            · exfalso; linarith
            · exfalso; linarith
          · rcases lt_or_gt_of_ne n23 with h23 | h23
            · exfalso; linarith
            · exfalso; linarith
        · rcases lt_or_gt_of_ne n13 with h13 | h13
          · rcases lt_or_gt_of_ne n23 with h23 | h23
            · exfalso; linarith
            · exfalso; linarith
          · rcases lt_or_gt_of_ne n23 with h23 | h23
            · exact key 2 3 0 1 (by simp [IsPerm4]) h23 h03 h01
            · exact key 3 2 0 1 (by simp [IsPerm4]) h23 h02 h01
  · rcases lt_or_gt_of_ne n02 with h02 | h02
    · rcases lt_or_gt_of_ne n03 with h03 | h03
      · rcases lt_or_gt_of_ne n12 with h12 | h12
        · rcases lt_or_gt_of_ne n13 with h13 | h13
          · rcases lt_or_gt_of_ne n23 with h23 | h23
            · exact key 1 0 2 3 (by simp [IsPerm4]) h01 h02 h23
            · exact key 1 0 3 2 (by simp [IsPerm4]) h01 h03 h23
          · rcases lt_or_gt_of_ne n23 with h23 | h23
            · exfalso; linarith
            · exfalso; linarith
        · rcases lt_or_gt_of_ne n13 with h13 | h13
          · rcases lt_or_gt_of_ne n23 with h23 | h23
            · exfalso; linarith
            · exfalso; linarith
          · rcases lt_or_gt_of_ne n23 with h23 | h23
            · exfalso; linarith
            · exfalso; linarith
      · rcases lt_or_gt_of_ne n12 with h12 | h12
        · rcases lt_or_gt_of_ne n13 with h13 | h13
          · rcases lt_or_gt_of_ne n23 with h23 | h23
            · exfalso; linarith
            · exact key 1 3 0 2 (by simp [IsPerm4]) h13 h03 h02
          · rcases lt_or_gt_of_ne n23 with h23 | h23
            · exfalso; linarith
            · exact key 3 1 0 2 (by simp [IsPerm4]) h13 h01 h02
        · rcases lt_or_gt_of_ne n13 with h13 | h13
          · rcases lt_or_gt_of_ne n23 with h23 | h23
            · exfalso; linarith
            · exfalso; linarith
          · rcases lt_or_gt_of_ne n23 with h23 | h23
            · exfalso; linarith
            · exfalso; linarith
    · rcases lt_or_gt_of_ne n03 with h03 | h03
      · rcases lt_or_gt_of_ne n12 with h12 | h12
        · rcases lt_or_gt_of_ne n13 with h13 | h13
          · rcases lt_or_gt_of_ne n23 with h23 | h23
            · exact key 1 2 0 3 (by simp [IsPerm4]) h12 h02 h03
            · exfalso; linarith
          · rcases lt_or_gt_of_ne n23 with h23 | h23
            · exfalso; linarith
            · exfalso; linarith
        · rcases lt_or_gt_of_ne n13 with h13 | h13
          · rcases lt_or_gt_of_ne n23 with h23 | h23
            · exact key 2 1 0 3 (by simp [IsPerm4]) h12 h01 h03
            · exfalso; linarith
          · rcases lt_or_gt_of_ne n23 with h23 | h23
            · exfalso; linarith
            · exfalso; linarith
      · rcases lt_or_gt_of_ne n12 with h12 | h12
        · rcases lt_or_gt_of_ne n13 with h13 | h13
          · rcases lt_or_gt_of_ne n23 with h23 | h23
            · exact key 1 2 3 0 (by simp [IsPerm4]) h12 h23 h03
            · exact key 1 3 2 0 (by simp [IsPerm4]) h13 h23 h02
          · rcases lt_or_gt_of_ne n23 with h23 | h23
            · exfalso; linarith
            · exact key 3 1 2 0 (by simp [IsPerm4]) h13 h12 h02
        · rcases lt_or_gt_of_ne n13 with h13 | h13
          · rcases lt_or_gt_of_ne n23 with h23 | h23
            · exact key 2 1 3 0 (by simp [IsPerm4]) h12 h13 h03
            · exfalso; linarith
          · rcases lt_or_gt_of_ne n23 with h23 | h23
            · exact key 2 3 1 0 (by simp [IsPerm4]) h23 h13 h01
            · exact key 3 2 1 0 (by simp [IsPerm4]) h23 h12 h01

/-- **C16 for a single bow-tie, general position**: a self-intersecting quadrilateral is rejected
    with an `overlap` error -/
theorem bowtie_rejected (a b c d : Rat × Rat)
    (hx : a.1 ≠ b.1 ∧ a.1 ≠ c.1 ∧ a.1 ≠ d.1 ∧ b.1 ≠ c.1 ∧ b.1 ≠ d.1 ∧ c.1 ≠ d.1)
    (hc : Cross a b c d ∨ Cross b c d a) :
    ∃ k p, sweep [#[F a.1 a.2, F b.1 b.2, F c.1 c.2, F d.1 d.2]] = .error (.overlap k p) := by
  obtain ⟨p, q, -, -, -, -, -, h, -⟩ := bowtie_rejected_at a b c d hx hc
  exact ⟨_, _, h⟩

/-- the same for the model with the ghost flag -/
theorem bowtie_rejected_mon (a b c d : Rat × Rat)
    (hx : a.1 ≠ b.1 ∧ a.1 ≠ c.1 ∧ a.1 ≠ d.1 ∧ b.1 ≠ c.1 ∧ b.1 ≠ d.1 ∧ c.1 ≠ d.1)
    (hc : Cross a b c d ∨ Cross b c d a) :
    ∃ k p, sweepMon [#[F a.1 a.2, F b.1 b.2, F c.1 c.2, F d.1 d.2]] = .error (.overlap k p) := by
  obtain ⟨p, q, -, -, -, -, -, -, h⟩ := bowtie_rejected_at a b c d hx hc
  exact ⟨_, _, h⟩

/-- … never triangulated -/
theorem bowtie_not_triangulated (a b c d : Rat × Rat)
    (hx : a.1 ≠ b.1 ∧ a.1 ≠ c.1 ∧ a.1 ≠ d.1 ∧ b.1 ≠ c.1 ∧ b.1 ≠ d.1 ∧ c.1 ≠ d.1)
    (hc : Cross a b c d ∨ Cross b c d a) (ts : List (Pt XQ × Pt XQ × Pt XQ)) :
    sweep [#[F a.1 a.2, F b.1 b.2, F c.1 c.2, F d.1 d.2]] ≠ .ok ts := by
  obtain ⟨k, p, h⟩ := bowtie_rejected a b c d hx hc
  rw [h]; exact fun h' => nomatch h'

/-! ### the two normal forms (every bow-tie is one of them up to rotation and reflection of the
    input) -/

/-- the leftmost corner `a` and the second corner `b` are neighbours: reported by the Bend arm
    at `b` -/
theorem bowtie_bend (a b c d : Rat × Rat) (hab : a.1 < b.1) (hbc : b.1 < c.1) (hbd : b.1 < d.1)
    (hcd : c.1 ≠ d.1) (hc : Cross a b c d ∨ Cross b c d a) :
    sweep [#[F a.1 a.2, F b.1 b.2, F c.1 c.2, F d.1 d.2]] = .error (.overlap .bend (F b.1 b.2)) := by
  rcases lt_or_gt_of_ne hcd with h | h
  · exact (bowtie_rejected_sorted a b c d 0 1 2 3 (by simp [IsPerm4]) hab hbc h hc).1
  · exact (bowtie_rejected_sorted a b c d 0 1 3 2 (by simp [IsPerm4]) hab hbd h hc).1

/-- the leftmost corner `a` and the second corner `c` are opposite: reported by the Start arm
    at `c` -/
theorem bowtie_start (a b c d : Rat × Rat) (hac : a.1 < c.1) (hcb : c.1 < b.1) (hcd : c.1 < d.1)
    (hbd : b.1 ≠ d.1) (hc : Cross a b c d ∨ Cross b c d a) :
    sweep [#[F a.1 a.2, F b.1 b.2, F c.1 c.2, F d.1 d.2]] = .error (.overlap .start (F c.1 c.2)) := by
  rcases lt_or_gt_of_ne hbd with h | h
  · exact (bowtie_rejected_sorted a b c d 0 2 1 3 (by simp [IsPerm4]) hac hcb h hc).1
  · exact (bowtie_rejected_sorted a b c d 0 2 3 1 (by simp [IsPerm4]) hac hcd h hc).1

/-! ### non-vacuity: one concrete bow-tie per configuration, evaluated by the kernel, and the
    theorems applied to it (so their hypotheses are satisfiable) -/

-- ring `A`, second vertex above the edge from the first to the last vertex (`will_overlap_bot`)
example : sweep [#[F 0 0, F 1 2, F 2 (-2), F 3 0]] = .error (.overlap .bend (F 1 2)) := by
  decide +kernel
example : sweep [#[F 0 0, F 1 2, F 2 (-2), F 3 0]] = .error (.overlap .bend (F 1 2)) :=
  bowtie_bend (0, 0) (1, 2) (2, -2) (3, 0) (by norm_num) (by norm_num) (by norm_num) (by norm_num)
    (by decide +kernel)
-- ring `A`, second vertex below (`will_overlap_top`)
example : sweep [#[F 0 0, F 1 (-2), F 2 2, F 3 0]] = .error (.overlap .bend (F 1 (-2))) := by
  decide +kernel
example : sweep [#[F 0 0, F 1 (-2), F 2 2, F 3 0]] = .error (.overlap .bend (F 1 (-2))) :=
  bowtie_bend (0, 0) (1, -2) (2, 2) (3, 0) (by norm_num) (by norm_num) (by norm_num) (by norm_num)
    (by decide +kernel)
-- ring `O`, second vertex below (`will_overlap_top`)
example : sweep [#[F 0 0, F 1 0, F 3 5, F 2 2]] = .error (.overlap .bend (F 1 0)) := by
  decide +kernel
example : sweep [#[F 0 0, F 1 0, F 3 5, F 2 2]] = .error (.overlap .bend (F 1 0)) :=
  bowtie_bend (0, 0) (1, 0) (3, 5) (2, 2) (by norm_num) (by norm_num) (by norm_num) (by norm_num)
    (by decide +kernel)
-- ring `O`, second vertex above (`will_overlap_bot`)
example : sweep [#[F 0 0, F 1 0, F 3 (-5), F 2 (-2)]] = .error (.overlap .bend (F 1 0)) := by
  decide +kernel
example : sweep [#[F 0 0, F 1 0, F 3 (-5), F 2 (-2)]] = .error (.overlap .bend (F 1 0)) :=
  bowtie_bend (0, 0) (1, 0) (3, -5) (2, -2) (by norm_num) (by norm_num) (by norm_num) (by norm_num)
    (by decide +kernel)
-- ring `Z`, the edges out of the two Start vertices cross, second Start below (`will_overlap_top`)
example : sweep [#[F 0 0, F 2 2, F 1 (-1), F 3 6]] = .error (.overlap .start (F 1 (-1))) := by
  decide +kernel
example : sweep [#[F 0 0, F 2 2, F 1 (-1), F 3 6]] = .error (.overlap .start (F 1 (-1))) :=
  bowtie_start (0, 0) (2, 2) (1, -1) (3, 6) (by norm_num) (by norm_num) (by norm_num) (by norm_num)
    (by decide +kernel)
-- the same, second Start above (`will_overlap_bot`)
example : sweep [#[F 0 0, F 2 (-2), F 1 1, F 3 (-6)]] = .error (.overlap .start (F 1 1)) := by
  decide +kernel
example : sweep [#[F 0 0, F 2 (-2), F 1 1, F 3 (-6)]] = .error (.overlap .start (F 1 1)) :=
  bowtie_start (0, 0) (2, -2) (1, 1) (3, -6) (by norm_num) (by norm_num) (by norm_num) (by norm_num)
    (by decide +kernel)
-- ring `Z`, the edge between the second Start and the first End crosses the edge from the first
-- to the last vertex, second Start below (`will_overlap_top`)
example : sweep [#[F 0 0, F 2 2, F 1 (-1), F 3 0]] = .error (.overlap .start (F 1 (-1))) := by
  decide +kernel
example : sweep [#[F 0 0, F 2 2, F 1 (-1), F 3 0]] = .error (.overlap .start (F 1 (-1))) :=
  bowtie_start (0, 0) (2, 2) (1, -1) (3, 0) (by norm_num) (by norm_num) (by norm_num) (by norm_num)
    (by decide +kernel)
-- the same, second Start above (`will_overlap_bot`)
example : sweep [#[F 0 0, F 2 (-2), F 1 1, F 3 0]] = .error (.overlap .start (F 1 1)) := by
  decide +kernel
example : sweep [#[F 0 0, F 2 (-2), F 1 1, F 3 0]] = .error (.overlap .start (F 1 1)) :=
  bowtie_start (0, 0) (2, -2) (1, 1) (3, 0) (by norm_num) (by norm_num) (by norm_num) (by norm_num)
    (by decide +kernel)
-- other start vertex and other orientation of the first bow-tie; the general statements
example : sweep [#[F 2 (-2), F 1 2, F 0 0, F 3 0]] = .error (.overlap .bend (F 1 2)) := by
  decide +kernel
example : sweep [#[F 2 (-2), F 1 2, F 0 0, F 3 0]] = .error (.overlap .bend (F 1 2)) :=
  (bowtie_rejected_sorted (2, -2) (1, 2) (0, 0) (3, 0) 2 1 0 3 (by simp [IsPerm4]) (by norm_num [corner4])
    (by norm_num [corner4]) (by norm_num [corner4]) (by decide +kernel)).1
example : ∃ k p, sweep [#[F 2 (-2), F 1 2, F 0 0, F 3 0]] = .error (.overlap k p) :=
  bowtie_rejected (2, -2) (1, 2) (0, 0) (3, 0) (by norm_num) (by decide +kernel)
-- the bow-tie (0,0) (3,3) (3,0) (0,2), sheared to distinct abscissae
example : sweep [#[F 0 0, F 6 6, F 7 0, F 1 4]] = .error (.overlap .bend (F 1 4)) := by
  decide +kernel
example : ∃ k p, sweep [#[F 0 0, F 6 6, F 7 0, F 1 4]] = .error (.overlap k p) :=
  bowtie_rejected (0, 0) (6, 6) (7, 0) (1, 4) (by norm_num) (by decide +kernel)
-- bow-ties with equal abscissae are NOT covered by the theorems (only kernel evaluations): the
-- unit-square bow-tie and the bow-tie (0,0) (3,3) (3,0) (0,2) are rejected at their second vertex,
-- a Bend (the first edge is vertical)
example : sweep [#[F 0 0, F 1 1, F 1 0, F 0 1]] = .error (.overlap .bend (F 0 1)) := by
  decide +kernel
example : sweep [#[F 0 0, F 3 3, F 3 0, F 0 2]] = .error (.overlap .bend (F 0 2)) := by
  decide +kernel
-- a simple quadrilateral is not a bow-tie
example : ¬ BowTie (0, 0) (2, -2) (5, 0) (3, 2) := by decide +kernel

end Cav.C16Quad
