/-
  C15 (the triangulator is total) WITHOUT THE HYPOTHESIS OF DISTINCT ABSCISSAE: for every list
  of polygons with `GeneralV polys` (`C16GeneralV.lean`: at least three vertices per polygon,
  pairwise different VERTICES, `NoSpikeV`, `NoTouchV` — vertical edges and several vertices on one
  vertical line allowed; nothing about simplicity or nesting) the sweep model over `XQ` has
  exactly two possible outcomes:

    * a triangle list, and then the ghost flag is `true`
      (`sweep = .ok T`, `sweepMon = .ok (T, true)`), or
    * `.error (.overlap k p)` with `p` an input point.

  It never panics (borrow conflict, `unreachable!`, index, B-tree range, bad cell), never runs
  out of fuel, and never returns `NoPointType`, `Duplicate`, `NonFinite` or `NoPolygon`
  (`general_total_V`, `general_error_is_overlap_V`, `general_never_panics_V`,
  `general_never_oof_V`, `general_no_input_error_V`).

  The two outcomes are characterised exactly (`general_accept_iff_V`, `general_reject_iff_V`):
  under `GeneralV` the input is accepted iff it is valid in the sense `ValidSetV` of
  `C04GeneralV.lean` (two ring edges without a common vertex are apart) iff no two ring edges
  without a common vertex cross properly (`HasCrossing`); it is rejected iff there is such a
  crossing.

  Proof: `Cav/Lemmas/GenXVLoop.lean`, `GenXVMain.lean` — the event loop under the invariant
  `XInvV` of `C16GeneralV.lean` runs to the end or stops with `.overlap` (`xinvV_handleNext` at
  every event), after the set-up phase; exactness from `C04GeneralV` (`general_accepted_V`),
  `C16GeneralV` (`crossing_rejected_V`) and the geometric lemma `hasCrossing_of_not_apart`
  (`GenXVCross.lean`: without touching, segments that are not apart cross properly).
-/
import Cav.Thm.C16GeneralV
import Cav.Thm.C04GeneralV

set_option linter.unusedSimpArgs false
set_option linter.unusedVariables false

namespace Cav.C15GeneralV
open Cav Num Cav.Geo Cav.Sweep Cav.TriRun Cav.QuadRun Cav.QuadGeom
open Cav.GenGeom Cav.GenInv Cav.GenRing Cav.GenVShear Cav.GenXMain Cav.GenXV Cav.C16GeneralV

/-! ### (T1) the dichotomy -/

/-- **under `GeneralV`: a triangle list with `mono = true`, or `.overlap` at an input point** (both
    entry points of the model) -/
theorem general_total_V' (polys : List (Array (Rat × Rat))) (hg : GeneralV polys) :
    (∃ T, sweep (toInput polys) = .ok T ∧ sweepMon (toInput polys) = .ok (T, true)) ∨
    (∃ k p, sweep (toInput polys) = .error (.overlap k p) ∧
      sweepMon (toInput polys) = .error (.overlap k p) ∧ IsInput polys p) := by
  obtain ⟨h3, hnd, hS, hT⟩ := hg
  rcases totalV_of_general polys h3 hnd hS hT with h | ⟨k, z, hz, r1, r2⟩
  · exact Or.inl h
  · exact Or.inr ⟨k, _, r1, r2, z, hz, rfl⟩

/-- **the triangulator is total** — no hypothesis on the abscissae -/
theorem general_total_V (polys : List (Array (Rat × Rat))) (hg : GeneralV polys) :
    (∃ T, sweepMon (toInput polys) = .ok (T, true)) ∨
    (∃ k p, sweep (toInput polys) = .error (.overlap k p) ∧
      sweepMon (toInput polys) = .error (.overlap k p) ∧ IsInput polys p) := by
  rcases general_total_V' polys hg with ⟨T, -, h⟩ | h
  · exact Or.inl ⟨T, h⟩
  · exact Or.inr h

/-- every error under `GeneralV` is `.overlap` at an input point -/
theorem general_error_is_overlap_V (polys : List (Array (Rat × Rat))) (hg : GeneralV polys)
    {e : SErr XQ} (h : sweep (toInput polys) = .error e ∨ sweepMon (toInput polys) = .error e) :
    ∃ k p, e = .overlap k p ∧ IsInput polys p := by
  rcases general_total_V' polys hg with ⟨T, r1, r2⟩ | ⟨k, p, r1, r2, hp⟩
  · rcases h with h | h
    · rw [r1] at h; cases h
    · rw [r2] at h; cases h
  · rcases h with h | h
    · rw [r1] at h; cases h; exact ⟨k, p, rfl, hp⟩
    · rw [r2] at h; cases h; exact ⟨k, p, rfl, hp⟩

/-- no panic of any kind -/
theorem general_never_panics_V (polys : List (Array (Rat × Rat))) (hg : GeneralV polys) :
    ∀ k, sweep (toInput polys) ≠ .error (.panic k) ∧ sweepMon (toInput polys) ≠ .error (.panic k) := by
  intro k
  constructor
  · intro h
    obtain ⟨_, _, e, -⟩ := general_error_is_overlap_V polys hg (Or.inl h)
    cases e
  · intro h
    obtain ⟨_, _, e, -⟩ := general_error_is_overlap_V polys hg (Or.inr h)
    cases e

/-- the fuel of the event loop suffices -/
theorem general_never_oof_V (polys : List (Array (Rat × Rat))) (hg : GeneralV polys) :
    sweep (toInput polys) ≠ .error .oof ∧ sweepMon (toInput polys) ≠ .error .oof := by
  constructor
  · intro h
    obtain ⟨_, _, e, -⟩ := general_error_is_overlap_V polys hg (Or.inl h)
    cases e
  · intro h
    obtain ⟨_, _, e, -⟩ := general_error_is_overlap_V polys hg (Or.inr h)
    cases e

/-- none of the input errors -/
theorem general_no_input_error_V (polys : List (Array (Rat × Rat))) (hg : GeneralV polys) :
    sweep (toInput polys) ≠ .error .noPolygon ∧ sweep (toInput polys) ≠ .error .nonFinite ∧
    (∀ p, sweep (toInput polys) ≠ .error (.duplicate p)) ∧
    (∀ p, sweep (toInput polys) ≠ .error (.noPointType p)) := by
  refine ⟨?_, ?_, ?_, ?_⟩
  · intro h
    obtain ⟨_, _, e, -⟩ := general_error_is_overlap_V polys hg (Or.inl h)
    cases e
  · intro h
    obtain ⟨_, _, e, -⟩ := general_error_is_overlap_V polys hg (Or.inl h)
    cases e
  · intro p h
    obtain ⟨_, _, e, -⟩ := general_error_is_overlap_V polys hg (Or.inl h)
    cases e
  · intro p h
    obtain ⟨_, _, e, -⟩ := general_error_is_overlap_V polys hg (Or.inl h)
    cases e

/-! ### (T2) the two outcomes exactly -/

/-- under `GeneralV`, validity in the sense of `C04GeneralV` is the apartness of the ring edges -/
theorem validSetV_iff (polys : List (Array (Rat × Rat))) (hg : GeneralV polys) :
    C04GeneralV.ValidSetV polys ↔ EdgesApartV (ringOf polys) :=
  ⟨fun h => h.2.2.1, fun h => ⟨hg.1, hg.2.1, h, hg.2.2.1⟩⟩

/-- under `GeneralV`: valid ⇔ no two ring edges without a common vertex cross properly -/
theorem validSetV_iff_noCrossing (polys : List (Array (Rat × Rat))) (hg : GeneralV polys) :
    C04GeneralV.ValidSetV polys ↔ ¬ HasCrossing (ringOf polys) :=
  (validSetV_iff polys hg).trans (acceptV_iff polys hg.1 hg.2.1 hg.2.2.1 hg.2.2.2).2

/-- **acceptance characterises validity** — no hypothesis on the abscissae -/
theorem general_accept_iff_V (polys : List (Array (Rat × Rat))) (hg : GeneralV polys) :
    ((∃ T, sweepMon (toInput polys) = .ok (T, true)) ↔ C04GeneralV.ValidSetV polys) ∧
    ((∃ T, sweep (toInput polys) = .ok T) ↔ C04GeneralV.ValidSetV polys) ∧
    ((∃ T, sweep (toInput polys) = .ok T) ↔ ¬ HasCrossing (ringOf polys)) := by
  have hA := (acceptV_iff polys hg.1 hg.2.1 hg.2.2.1 hg.2.2.2).1
  have hV := validSetV_iff polys hg
  have hmon : (∃ T, sweepMon (toInput polys) = .ok (T, true)) ↔ C04GeneralV.ValidSetV polys :=
    hA.trans hV.symm
  have hsw : (∃ T, sweep (toInput polys) = .ok T) ↔ (∃ T, sweepMon (toInput polys) = .ok (T, true)) := by
    constructor
    · rintro ⟨T, hT⟩
      rcases general_total_V' polys hg with ⟨T', -, r2⟩ | ⟨k, p, r1, -, -⟩
      · exact ⟨T', r2⟩
      · rw [r1] at hT; cases hT
    · rintro ⟨T, hT⟩
      rcases general_total_V' polys hg with ⟨T', r1, -⟩ | ⟨k, p, -, r2, -⟩
      · exact ⟨T', r1⟩
      · rw [r2] at hT; cases hT
  exact ⟨hmon, hsw.trans hmon, (hsw.trans hmon).trans (validSetV_iff_noCrossing polys hg)⟩

/-- **rejection ⇔ two ring edges without a common vertex cross properly** -/
theorem general_reject_iff_V (polys : List (Array (Rat × Rat))) (hg : GeneralV polys) :
    (∃ k p, sweep (toInput polys) = .error (.overlap k p)) ↔ HasCrossing (ringOf polys) := by
  constructor
  · rintro ⟨k, p, h⟩
    by_contra hno
    obtain ⟨T, hT⟩ := (general_accept_iff_V polys hg).2.2.mpr hno
    rw [hT] at h; cases h
  · intro hc
    obtain ⟨k, p, r1, -, -⟩ := crossing_rejected_V polys hg hc
    exact ⟨k, p, r1⟩

/-! ### non-vacuity -/

/-- a rectangle with a rectangular hole (valid, axis-parallel) -/
def RectHole : List (Array (Rat × Rat)) :=
  [#[(0, 0), (4, 0), (4, 4), (0, 4)], #[(1, 1), (3, 1), (3, 3), (1, 3)]]

/-- an L-shape (valid, axis-parallel) -/
def Lshape : List (Array (Rat × Rat)) := [#[(0, 0), (2, 0), (2, 1), (1, 1), (1, 2), (0, 2)]]

example : GeneralV RectHole ∧ GeneralV Lshape ∧ GeneralV BowTie ∧ GeneralV TwoRectX ∧ GeneralV LRect := by
  decide +kernel

-- both outcomes occur
example : (match sweepMon (toInput RectHole) with | .ok (_, m) => m | _ => false) = true := by
  decide +kernel
example : (match sweepMon (toInput Lshape) with | .ok (_, m) => m | _ => false) = true := by
  decide +kernel
example : stopsAt (sweep (toInput TwoRectX)) .start (F 1 1) = true := by decide +kernel

-- the theorems on these inputs
example : (∃ T, sweepMon (toInput RectHole) = .ok (T, true)) ∨
    (∃ k p, sweep (toInput RectHole) = .error (.overlap k p) ∧
      sweepMon (toInput RectHole) = .error (.overlap k p) ∧ IsInput RectHole p) :=
  general_total_V RectHole (by decide +kernel)
example : (∃ T, sweepMon (toInput LRect) = .ok (T, true)) ∨
    (∃ k p, sweep (toInput LRect) = .error (.overlap k p) ∧
      sweepMon (toInput LRect) = .error (.overlap k p) ∧ IsInput LRect p) :=
  general_total_V LRect (by decide +kernel)
example : ∀ k, sweep (toInput BowTie) ≠ .error (.panic k) ∧ sweepMon (toInput BowTie) ≠ .error (.panic k) :=
  general_never_panics_V BowTie (by decide +kernel)
-- exactness: `RectHole` is accepted because it is valid; `TwoRectX` has a crossing, hence it is
-- rejected, hence it is not valid
example : ∃ T, sweepMon (toInput RectHole) = .ok (T, true) :=
  (general_accept_iff_V RectHole (by decide +kernel)).1.mpr (by decide +kernel)
example : ¬ HasCrossing (ringOf Lshape) :=
  (validSetV_iff_noCrossing Lshape (by decide +kernel)).mp (by decide +kernel)
example : ∃ k p, sweep (toInput TwoRectX) = .error (.overlap k p) :=
  (general_reject_iff_V TwoRectX (by decide +kernel)).mpr (by decide +kernel)
example : ¬ C04GeneralV.ValidSetV TwoRectX := fun h =>
  (validSetV_iff_noCrossing TwoRectX (by decide +kernel)).mp h (by decide +kernel)

end Cav.C15GeneralV
