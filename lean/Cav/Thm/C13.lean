/-
  C13 — `gen_display_rs`: the pieces of one interval are a gap-free chain from `a` to `b`
  (split points from `split_translational`), several intervals are handled independently;
  and facts about the sort / clustering used by `split_translational`.

  STRUCTURAL theorems (every `Num α`, no law of arithmetic used) plus `Rat` forms.

  Model path: `genDisplayRs` (`pieces`, `ivs`), `rsPiece` (only: which record it returns),
  `chainPairs`, `splitTranslational` (opaque in the chain theorems), `stableSort`,
  `insertSorted`.
-/
import Cav.Lemmas.Disp2D
import Cav.Lemmas.DispExamples
import Cav.Lemmas.DispChainRat
import Cav.Lemmas.DispSort

namespace Cav.C13
open Cav Num Gen Cav.DispL

variable {α : Type} [Num α]

/-- the end points `(a_k, b_k)` of a list of displays -/
def ends (ds : List (Disp2D α)) : List (α × α) := ds.map fun d => (d.a, d.b)

/-- **C13 main**: a successful run on the single interval `[a,b]` is: `split_translational`
    on the grid of `[a,b]` succeeded with some `splits`, and the displays' end points are exactly
    the consecutive pairs of `a :: splits ++ [b]`. -/
theorem rs_pieces_chain (f g : AD α → AD α) (a b : α) (cfg : Cfg2D α) (ds : List (Disp2D α))
    (h : genDisplayRs f g [(a, b)] cfg = .ok ds) :
    ∃ splits, splitTranslational f g (vecFromRes a b cfg.xRes) cfg.tol cfg.maxRfIters = .ok splits ∧
      ends ds = chainPairs (a :: splits ++ [b]) := by
  rw [genDisplayRs_eq, bindListE_singleton] at h
  unfold rsIntervalE at h
  split at h
  · cases h
  · rename_i splits hS
    exact ⟨splits, hS, by
      have := mapE_map_eq h (fun d => (d.a, d.b)) id (fun p d hp => by
        obtain ⟨ha, hb, _⟩ := rsPiece_ok (f := f) (g := g) (cfg := cfg) (a := p.1) (b := p.2) hp
        simp [ha, hb])
      simpa [ends] using this⟩

/-- the end points form a chain from `a` to `b` -/
theorem rs_pieces_chainG (f g : AD α → AD α) (a b : α) (cfg : Cfg2D α) (ds : List (Disp2D α))
    (h : genDisplayRs f g [(a, b)] cfg = .ok ds) : ChainG a b (ends ds) := by
  obtain ⟨splits, _, he⟩ := rs_pieces_chain f g a b cfg ds h
  rw [he]; exact chainPairs_chainG a b splits

theorem rs_pieces_ne_nil (f g : AD α → AD α) (a b : α) (cfg : Cfg2D α) (ds : List (Disp2D α))
    (h : genDisplayRs f g [(a, b)] cfg = .ok ds) : ds ≠ [] := by
  have := (rs_pieces_chainG f g a b cfg ds h).ne_nil
  intro h0; subst h0; exact this rfl

theorem rs_pieces_count (f g : AD α → AD α) (a b : α) (cfg : Cfg2D α) (ds : List (Disp2D α))
    (h : genDisplayRs f g [(a, b)] cfg = .ok ds) :
    ∃ splits, splitTranslational f g (vecFromRes a b cfg.xRes) cfg.tol cfg.maxRfIters = .ok splits ∧
      ds.length = splits.length + 1 := by
  obtain ⟨splits, hS, he⟩ := rs_pieces_chain f g a b cfg ds h
  refine ⟨splits, hS, ?_⟩
  have := congrArg List.length he
  rw [chainPairs_length] at this
  simpa [ends] using this

theorem rs_pieces_first (f g : AD α → AD α) (a b : α) (cfg : Cfg2D α) (ds : List (Disp2D α))
    (h : genDisplayRs f g [(a, b)] cfg = .ok ds) : ds.head?.map (·.a) = some a := by
  have := (rs_pieces_chainG f g a b cfg ds h).head
  cases ds with
  | nil => simp [ends] at this
  | cons d _ => simpa [ends] using this

theorem rs_pieces_last (f g : AD α → AD α) (a b : α) (cfg : Cfg2D α) (ds : List (Disp2D α))
    (h : genDisplayRs f g [(a, b)] cfg = .ok ds) : ds.getLast?.map (·.b) = some b := by
  have := (rs_pieces_chainG f g a b cfg ds h).last
  simpa [ends, List.getLast?_map] using this

theorem rs_pieces_consecutive (f g : AD α → AD α) (a b : α) (cfg : Cfg2D α)
    (ds : List (Disp2D α)) (h : genDisplayRs f g [(a, b)] cfg = .ok ds)
    (i : Nat) (hi : i + 1 < ds.length) :
    (ds[i]'(Nat.lt_of_succ_lt hi)).b = (ds[i + 1]'hi).a := by
  have := (rs_pieces_chainG f g a b cfg ds h).consecutive i (by simpa [ends] using hi)
  simpa [ends] using this

/-- over `Rat`: the pieces form a chain in the sense of C02 -/
theorem rs_pieces_isChain (f g : AD Rat → AD Rat) (a b : Rat) (cfg : Cfg2D Rat)
    (ds : List (Disp2D Rat)) (h : genDisplayRs f g [(a, b)] cfg = .ok ds) :
    C02.IsChain a b (ends ds) :=
  (chainG_iff_isChain a b _).mp (rs_pieces_chainG f g a b cfg ds h)

/-- several intervals are handled independently -/
theorem genDisplayRs_append (f g : AD α → AD α) (I₁ I₂ : List (α × α)) (cfg : Cfg2D α)
    (ds₁ ds₂ : List (Disp2D α)) (h₁ : genDisplayRs f g I₁ cfg = .ok ds₁)
    (h₂ : genDisplayRs f g I₂ cfg = .ok ds₂) :
    genDisplayRs f g (I₁ ++ I₂) cfg = .ok (ds₁ ++ ds₂) := by
  rw [genDisplayRs_eq] at h₁ h₂ ⊢
  exact bindListE_append h₁ h₂

theorem genDisplayRs_append_ok (f g : AD α → AD α) (I₁ I₂ : List (α × α)) (cfg : Cfg2D α)
    (ds : List (Disp2D α)) (h : genDisplayRs f g (I₁ ++ I₂) cfg = .ok ds) :
    ∃ ds₁ ds₂, genDisplayRs f g I₁ cfg = .ok ds₁ ∧ genDisplayRs f g I₂ cfg = .ok ds₂ ∧
      ds = ds₁ ++ ds₂ := by
  rw [genDisplayRs_eq] at h
  obtain ⟨r1, r2, h1, h2, rfl⟩ := bindListE_append_ok h
  exact ⟨r1, r2, by rw [genDisplayRs_eq]; exact h1, by rw [genDisplayRs_eq]; exact h2, rfl⟩

theorem genDisplayRs_nil (f g : AD α → AD α) (cfg : Cfg2D α) : genDisplayRs f g [] cfg = .ok [] := by
  rw [genDisplayRs_eq]; rfl

/-- what every display of a successful run records: its own grid, `f` on the grid, `g'` on the
    grid, and the integration value of exactly its piece -/
theorem rs_piece_fields (f g : AD α → AD α) (ivs : List (α × α)) (cfg : Cfg2D α)
    (ds : List (Disp2D α)) (h : genDisplayRs f g ivs cfg = .ok ds) (d : Disp2D α) (hd : d ∈ ds) :
    d.xv = vecFromRes d.a d.b cfg.xRes ∧ d.fv = d.xv.map (D1.f f) ∧
      d.dgv = d.xv.map (fun x => (D1.fdf g x).2) ∧ pieceInteg cfg f g d.a d.b = .ok d.integ := by
  obtain ⟨_, _, hI, hx, hf, hdg⟩ := rsPiece_ok (genDisplayRs_mem h hd)
  exact ⟨hx, hf, hdg, hI⟩

/-- the curves of every display: attached at `curveIdx xv.length interm_cs`, one point per
    `y`-sample `r` with abscissa `r · fv[i]`; and `gv` is `g(xv)` shifted by one constant
    (`k = c_raw(0)`; the ordinates depend on root finding and are not characterised) -/
theorem rs_piece_curves (f g : AD α → AD α) (ivs : List (α × α)) (cfg : Cfg2D α)
    (ds : List (Disp2D α)) (h : genDisplayRs f g ivs cfg = .ok ds) (d : Disp2D α) (hd : d ∈ ds) :
    d.cvs.map (·.1) = curveIdx (α := α) d.xv.length cfg.intermCs ∧
    (∃ k, d.gv = (d.xv.map (fun x => (D1.fdf g x).1)).map (· + k)) ∧
    ∀ cv ∈ d.cvs, cv.2.map (·.1) =
      (vecFromRes (zero : α) one cfg.yRes).map (· * d.fv.getD cv.1 zero) :=
  rsPiece_ok_curves (genDisplayRs_mem h hd)

/-! ### the split points of `split_translational`: sort and clustering

`stableSort` is the model of `slice.sort_by`; `transCmp s` (Cav/Lemmas/DispSort.lean) is the
comparator closure of `split_translational` with `s = x_sign`; `IsRunMean m r`: `r` is the mean
of a non-empty contiguous run of `m`. -/

section sort
variable {β : Type}

/-- structural (any carrier, any comparator): the sort returns a permutation of its input -/
theorem stableSort_perm (cmp : β → β → Ordering) (l : List β) : (stableSort cmp l).Perm l :=
  DispL.stableSort_perm cmp l

/-- structural: for a comparator with asymmetric `Less` and transitive "not after", the output
    is sorted (no later element compares `Less` than an earlier one) -/
theorem stableSort_sorted (cmp : β → β → Ordering)
    (hasym : ∀ x y, cmp x y = .lt → cmp y x ≠ .lt)
    (htrans : ∀ x y z, NotAfter cmp x y → NotAfter cmp y z → NotAfter cmp x z)
    (l : List β) : (stableSort cmp l).Pairwise (fun p q => cmp q p ≠ .lt) :=
  DispL.stableSort_sorted cmp hasym htrans l

end sort

/-- over `Rat` the comparator of `split_translational` returns `Less` iff `s·p < s·q` -/
theorem transCmp_lt_iff (s p q : Rat) : transCmp s p q = .lt ↔ s * p < s * q :=
  DispL.transCmp_lt_iff s p q

/-- over `Rat` the merged root list is sorted in the direction `s` of the interval -/
theorem merged_sorted (s : Rat) (l : List Rat) :
    (stableSort (transCmp s) l).Pairwise (fun p q => s * p ≤ s * q) :=
  stableSort_transCmp_sorted s l

/-- what `split_translational` computes (over `Rat`, grid of at least two points): the
    monotonicity roots of `f` and of `g`, merged, sorted in the direction of the interval, and
    clustered -/
theorem splitTranslational_eq (f g : AD Rat → AD Rat) (xv : List Rat) (tol : Rat) (maxRf : Nat)
    (hn : 2 ≤ xv.length) (r : List Rat) (h : splitTranslational f g xv tol maxRf = .ok r) :
    ∃ fr gr, splitStrictlyMonotone f xv tol maxRf = .ok fr ∧
      splitStrictlyMonotone g xv tol maxRf = .ok gr ∧
      r = clusterRoots tol
        (stableSort (transCmp (signVal (xv.getLastD zero - xv.headD zero))) (fr ++ gr)).toArray := by
  unfold splitTranslational at h
  rw [if_neg (by omega)] at h
  simp only [] at h
  split at h
  · cases h
  · rename_i fr hfr
    split at h
    · cases h
    · rename_i gr hgr
      cases h
      exact ⟨fr, gr, hfr, hgr, rfl⟩

/-- a grid of fewer than two points has no split points -/
theorem splitTranslational_short {α : Type} [Num α] (f g : AD α → AD α) (xv : List α) (tol : α)
    (maxRf : Nat) (hn : xv.length < 2) : splitTranslational f g xv tol maxRf = .ok [] := by
  unfold splitTranslational
  rw [if_pos hn]

/-- **every split point is the mean of a non-empty run of consecutive (sorted) roots**, hence
    lies between the least and the greatest root of its cluster (tolerance `≥ 0`) -/
theorem split_point_is_cluster_mean (f g : AD Rat → AD Rat) (xv : List Rat) (tol : Rat)
    (maxRf : Nat) (htol : 0 ≤ tol) (hn : 2 ≤ xv.length) (r : List Rat)
    (h : splitTranslational f g xv tol maxRf = .ok r) :
    ∃ fr gr, splitStrictlyMonotone f xv tol maxRf = .ok fr ∧
      splitStrictlyMonotone g xv tol maxRf = .ok gr ∧
      ∀ x ∈ r, ∃ seg : List Rat, seg ≠ [] ∧
        seg <:+: stableSort (transCmp (signVal (xv.getLastD zero - xv.headD zero))) (fr ++ gr) ∧
        x = seg.sum / seg.length ∧
        ∃ lo ∈ seg, ∃ hi ∈ seg, (∀ y ∈ seg, lo ≤ y ∧ y ≤ hi) ∧ lo ≤ x ∧ x ≤ hi := by
  obtain ⟨fr, gr, hfr, hgr, rfl⟩ := splitTranslational_eq f g xv tol maxRf hn r h
  refine ⟨fr, gr, hfr, hgr, ?_⟩
  intro x hx
  obtain ⟨seg, hne, hinf, rfl⟩ := clusterRoots_means tol htol _ x hx
  obtain ⟨lo, hlo, hi, hhi, hb, hm⟩ := mean_between_min_max seg hne
  exact ⟨seg, hne, by simpa using hinf, rfl, lo, hlo, hi, hhi, hb, hm⟩

/-- in particular no split point leaves the range of the monotonicity roots of `f` and `g` -/
theorem split_points_between (f g : AD Rat → AD Rat) (xv : List Rat) (tol : Rat)
    (maxRf : Nat) (htol : 0 ≤ tol) (hn : 2 ≤ xv.length) (r fr gr : List Rat)
    (h : splitTranslational f g xv tol maxRf = .ok r)
    (hfr : splitStrictlyMonotone f xv tol maxRf = .ok fr)
    (hgr : splitStrictlyMonotone g xv tol maxRf = .ok gr) (lo hi : Rat)
    (hb : ∀ y ∈ fr ++ gr, lo ≤ y ∧ y ≤ hi) : ∀ x ∈ r, lo ≤ x ∧ x ≤ hi := by
  obtain ⟨fr', gr', hfr', hgr', rfl⟩ := splitTranslational_eq f g xv tol maxRf hn r h
  rw [hfr] at hfr'; rw [hgr] at hgr'
  cases hfr'; cases hgr'
  apply clusterRoots_between tol htol _ lo hi
  intro y hy
  exact hb y ((mem_stableSort _ _ y).mp (by simpa using hy))

/-- a negative tolerance is outside these statements for a reason: the clustering then closes an
    EMPTY first cluster (`0/0`) — here `[1, 2]` with `tol = −1` yields a leading junk value -/
example : clusterRoots (-1 : Rat) #[1, 2] = [0, 1, 2] := by decide +kernel
example : clusterRoots (1/10 : Rat) #[1, 21/20, 2] = [41/40, 2] := by decide +kernel
example : stableSort (transCmp (-1)) [1, 3, 2] = [3, 2, 1] := by decide +kernel

/-- the hypotheses of `split_point_is_cluster_mean` are satisfiable (`f = x`, `g = x − x²`,
    grid `[0, 1/2, 1]`): one split point, the root `1/2` of `g'` -/
example : splitTranslational DispEx.idF (cavG DispEx.idF DispEx.sqC 0) (vecFromRes 0 1 2) (1/100) 20
    = .ok [1/2] := by decide +kernel

/-! ### concrete instances -/

open Cav.DispEx in
example : ∃ ds, genDisplayRs idF (cavG idF sqC 0) [(0, 1)] cfgEx = .ok ds ∧
    ends ds = [(0, 1/2), (1/2, 1)] ∧ C02.IsChain 0 1 (ends ds) ∧ ds.length = 2 := by
  obtain ⟨ds, h, he⟩ := DispEx.ends_some rs_run_ends
  exact ⟨ds, h, he, rs_pieces_isChain _ _ _ _ _ _ h, by simpa using congrArg List.length he⟩

open Cav.DispEx in
example : ∃ ds₁ ds₂, genDisplayRs idF (cavG idF sqC 0) [(0, 1)] cfgEx = .ok ds₁ ∧
    genDisplayRs idF (cavG idF sqC 0) [(2, 3)] cfgEx = .ok ds₂ ∧
    genDisplayRs idF (cavG idF sqC 0) ([(0, 1)] ++ [(2, 3)]) cfgEx = .ok (ds₁ ++ ds₂) := by
  obtain ⟨ds₁, h₁, _⟩ := DispEx.ends_some rs_run_ends
  obtain ⟨ds₂, h₂, _⟩ := DispEx.ends_some rs_run_ends_second
  exact ⟨ds₁, ds₂, h₁, h₂, genDisplayRs_append _ _ _ _ _ _ _ h₁ h₂⟩

end Cav.C13
