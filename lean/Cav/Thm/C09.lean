/-
  C09 — nested / 2-D / triangle quadrature: symmetry, degenerate triangles, tiling
  (exact-arithmetic part).

  Statements over `Rat` (the `instNumRat` instance of `Num`): what the program text of
  `nested_gauss_kronrod_quadrature`, `gauss_kronrod_quadrature_2d` and
  `gauss_kronrod_quadrature_triangle` computes when `+ - * /` are exact.  Rounding is modelled,
  not verified (DESIGN §1.2).

  Model path used: `nested`, `gkApprox2`, `gk2dLoop`, `gk2d`, `triFactor`, `triIntegrand`,
  `gkTriangle`, `gk1d`, `gk1dLoop`, `gkApprox`, `symRule`, `unitRule`, `denorm`, `setInsert`,
  `setRemove`, `panelCmp`, `sumVals`, `ofMax`; `Num` operations used: `+ - * /`, `ofNat`, `lt`,
  `le`, `beq`, `isNaN`, `abs`.

  The working lemmas are in `Cav/Lemmas/Quad2D.lean`; the central one is
  `Quad2D.nested_res_ok_iff` (closed form of `nested`, restated here as `nested_closed_form`).
-/
import Cav.Model.Quad
import Cav.Inst.Rat
import Cav.Thm.C01
import Cav.Thm.C02
import Cav.Lemmas.Quad2D
import Mathlib.Logic.Equiv.Defs

namespace Cav.C09
open Cav Num Cav.C01 Cav.Quad2D

/-! ## The nested rule in closed form -/

/-- **closed form of `nested`** (every integrand `f`, outer bounds in either order, every
    inner-bound function, tolerance, budget and rule list).  With
    `innerRes node = (gk1d (f (denorm a b node)) (innerAB x).1 (innerAB x).2 tol mi).res` at
    `x = denorm a b node`, and `innerVal` its payload: the run succeeds iff every inner
    integration succeeds, the value is `(b−a)/2 · unitRule (innerVal ·).1 rule` and the estimate
    `|(b−a)/2| · unitRule (innerVal ·).2 rule`. -/
theorem nested_closed_form (f : Rat → Rat → Rat) (a b : Rat) (innerAB : Rat → Rat × Rat)
    (tol : Rat) (mi : Option Nat) (rule : List (Rat × Rat)) (v e : Rat) :
    (nested f a b innerAB tol mi rule).res = .ok (v, e) ↔
      (∀ x ∈ unitNodes rule, ∃ p, innerRes f a b innerAB tol mi x = .ok p) ∧
      v = (b - a) / 2 * unitRule (fun x => (innerVal f a b innerAB tol mi x).1) rule ∧
      e = |(b - a) / 2| * unitRule (fun x => (innerVal f a b innerAB tol mi x).2) rule :=
  nested_res_ok_iff f a b innerAB tol mi rule v e

/-! ## B1 — swapping bounds -/

/-- **outer swap**: for every integrand, inner-bound function, tolerance, budget and rule list
    (in particular `Gen.g10`, `Gen.k21`): if the nested run over `[a,b]` succeeds with `(v,e)`
    then the run over `[b,a]` succeeds with `(−v, e)`.  (The two runs make the same inner calls
    with the unit nodes `−n ↔ n` exchanged; on FAILURE the error reported may differ because the
    first failing inner call differs, hence the statement is for success.) -/
theorem nested_outer_swap (f : Rat → Rat → Rat) (a b : Rat) (innerAB : Rat → Rat × Rat)
    (tol : Rat) (mi : Option Nat) (rule : List (Rat × Rat)) (v e : Rat)
    (h : (nested f a b innerAB tol mi rule).res = .ok (v, e)) :
    (nested f b a innerAB tol mi rule).res = .ok (-v, e) :=
  Quad2D.nested_outer_swap f a b innerAB tol mi rule v e h

/-- the success statuses of the two orientations coincide -/
theorem nested_outer_swap_iff (f : Rat → Rat → Rat) (a b : Rat) (innerAB : Rat → Rat × Rat)
    (tol : Rat) (mi : Option Nat) (rule : List (Rat × Rat)) (v e : Rat) :
    (nested f a b innerAB tol mi rule).res = .ok (v, e) ↔
      (nested f b a innerAB tol mi rule).res = .ok (-v, e) := by
  constructor
  · exact nested_outer_swap f a b innerAB tol mi rule v e
  · intro h
    have := nested_outer_swap f b a innerAB tol mi rule (-v) e h
    rwa [neg_neg] at this

/-- **outer swap of one 2-D panel**: value negated, estimate
    `|G10 − K21| + max(e_G10, e_K21)` unchanged -/
theorem gkApprox2_outer_swap (f : Rat → Rat → Rat) (innerAB : Rat → Rat × Rat) (tol : Rat)
    (mi : Option Nat) (a b v e : Rat) (h : (gkApprox2 f innerAB tol mi a b).1 = .ok (v, e)) :
    (gkApprox2 f innerAB tol mi b a).1 = .ok (-v, e) := by
  obtain ⟨li, ki, hl, hk, hv, he⟩ := (gkApprox2_ok_iff f innerAB tol mi a b v e).mp h
  rw [gkApprox2_ok_iff]
  refine ⟨(-li.1, li.2), (-ki.1, ki.2), nested_outer_swap f a b innerAB _ mi _ _ _ hl,
    nested_outer_swap f a b innerAB _ mi _ _ _ hk, by rw [hv], ?_⟩
  rw [he, ← abs_neg (li.1 - ki.1)]
  congr 2; ring

/-- **inner swap, conditional form**: if every inner run made by the rule is swap-symmetric
    (`gk1d g ib ia = (−v, e)` whenever `gk1d g ia ib = (v, e)`, errors preserved), then swapping
    the inner bounds negates the nested value and keeps the estimate. -/
theorem nested_inner_swap_of (f : Rat → Rat → Rat) (a b : Rat) (innerAB : Rat → Rat × Rat)
    (tol : Rat) (mi : Option Nat) (rule : List (Rat × Rat))
    (hsym : ∀ x ∈ unitNodes rule,
      innerRes f a b (swapAB innerAB) tol mi x = negVal (innerRes f a b innerAB tol mi x))
    (v e : Rat) (h : (nested f a b innerAB tol mi rule).res = .ok (v, e)) :
    (nested f a b (swapAB innerAB) tol mi rule).res = .ok (-v, e) :=
  Quad2D.nested_inner_swap_of f a b innerAB tol mi rule hsym v e h

/-- **inner swap, single-inner-panel case** (`_partial`: the general adaptive inner loop is
    swap-symmetric only up to the tie-breaking caveat of `C01.gk1d_poly_swap`).  If the budget
    is not `0` and every inner integration is decided on its first panel (`FirstPanel`:
    coincident inner bounds, or first estimate `< tol`) then replacing `innerAB` by its swap
    negates the value exactly and keeps the estimate. -/
theorem nested_inner_swap_partial (f : Rat → Rat → Rat) (a b : Rat) (innerAB : Rat → Rat × Rat)
    (tol : Rat) (mi : Option Nat) (rule : List (Rat × Rat)) (hmi : mi ≠ some 0)
    (hfirst : ∀ x ∈ unitNodes rule,
      FirstPanel (fun y => f (denorm a b x) y) (innerAB (denorm a b x)).1 (innerAB (denorm a b x)).2 tol)
    (v e : Rat) (h : (nested f a b innerAB tol mi rule).res = .ok (v, e)) :
    (nested f a b (swapAB innerAB) tol mi rule).res = .ok (-v, e) :=
  nested_inner_swap_of f a b innerAB tol mi rule
    (fun x hx => gk1d_swap_first_panel _ _ _ tol mi hmi (hfirst x hx)) v e h

/-- under the same hypothesis the original run does succeed (so the statement is not vacuous) -/
theorem nested_first_panel_ok (f : Rat → Rat → Rat) (a b : Rat) (innerAB : Rat → Rat × Rat)
    (tol : Rat) (mi : Option Nat) (rule : List (Rat × Rat)) (hmi : mi ≠ some 0)
    (hfirst : ∀ x ∈ unitNodes rule,
      FirstPanel (fun y => f (denorm a b x) y) (innerAB (denorm a b x)).1 (innerAB (denorm a b x)).2 tol) :
    ∃ v e, (nested f a b innerAB tol mi rule).res = .ok (v, e) := by
  refine ⟨_, _, (nested_res_ok_iff f a b innerAB tol mi rule _ _).mpr ⟨?_, rfl, rfl⟩⟩
  intro x hx
  unfold innerRes
  by_cases hab : (innerAB (denorm a b x)).1 = (innerAB (denorm a b x)).2
  · exact ⟨_, (C10.gk1d_eq_bounds _ _ _ tol mi (decide_eq_true hab)).1⟩
  · exact ⟨_, gk1d_first_panel _ _ _ tol mi hab hmi ((hfirst x hx).resolve_left hab)⟩

/-! ## B2 — the triangle factor and degenerate triangles -/

theorem triFactor_eq (p0 p1 p2 : Rat × Rat) :
    triFactor (p0, p1, p2) =
      |p1.1 * (p2.2 - p0.2) + p0.1 * (p1.2 - p2.2) + p2.1 * (p0.2 - p1.2)| := by
  rw [← numAbs_eq]; rfl

/-- `triFactor` is twice the area: `|(p1 − p0) × (p2 − p0)|` -/
theorem triFactor_cross (p0 p1 p2 : Rat × Rat) :
    triFactor (p0, p1, p2) =
      |(p1.1 - p0.1) * (p2.2 - p0.2) - (p2.1 - p0.1) * (p1.2 - p0.2)| := by
  rw [triFactor_eq]; congr 1; ring

theorem triFactor_nonneg (t : (Rat × Rat) × (Rat × Rat) × (Rat × Rat)) : 0 ≤ triFactor t := by
  obtain ⟨p0, p1, p2⟩ := t
  rw [triFactor_eq]; exact abs_nonneg _

theorem triFactor_swap01 (p0 p1 p2 : Rat × Rat) :
    triFactor (p1, p0, p2) = triFactor (p0, p1, p2) := by
  rw [triFactor_eq, triFactor_eq, ← abs_neg]; congr 1; ring

theorem triFactor_swap12 (p0 p1 p2 : Rat × Rat) :
    triFactor (p0, p2, p1) = triFactor (p0, p1, p2) := by
  rw [triFactor_eq, triFactor_eq, ← abs_neg]; congr 1; ring

theorem triFactor_swap02 (p0 p1 p2 : Rat × Rat) :
    triFactor (p2, p1, p0) = triFactor (p0, p1, p2) := by
  rw [triFactor_eq, triFactor_eq, ← abs_neg]; congr 1; ring

theorem triFactor_rot (p0 p1 p2 : Rat × Rat) :
    triFactor (p1, p2, p0) = triFactor (p0, p1, p2) := by
  rw [triFactor_eq, triFactor_eq]; congr 1; ring

theorem triFactor_rot' (p0 p1 p2 : Rat × Rat) :
    triFactor (p2, p0, p1) = triFactor (p0, p1, p2) := by
  rw [triFactor_eq, triFactor_eq]; congr 1; ring

/-- **`triFactor` is invariant under every permutation of the three vertices** -/
theorem triFactor_perm (v : Fin 3 → Rat × Rat) (σ : Equiv.Perm (Fin 3)) :
    triFactor (v (σ 0), v (σ 1), v (σ 2)) = triFactor (v 0, v 1, v 2) := by
  have h01 : σ 0 ≠ σ 1 := fun h => absurd (σ.injective h) (by decide)
  have h02 : σ 0 ≠ σ 2 := fun h => absurd (σ.injective h) (by decide)
  have h12 : σ 1 ≠ σ 2 := fun h => absurd (σ.injective h) (by decide)
  have key : ∀ i j k : Fin 3, i ≠ j → i ≠ k → j ≠ k →
      (i = 0 ∧ j = 1 ∧ k = 2) ∨ (i = 0 ∧ j = 2 ∧ k = 1) ∨ (i = 1 ∧ j = 0 ∧ k = 2) ∨
      (i = 1 ∧ j = 2 ∧ k = 0) ∨ (i = 2 ∧ j = 0 ∧ k = 1) ∨ (i = 2 ∧ j = 1 ∧ k = 0) := by decide
  rcases key _ _ _ h01 h02 h12 with ⟨h0, h1, h2⟩ | ⟨h0, h1, h2⟩ | ⟨h0, h1, h2⟩ | ⟨h0, h1, h2⟩ |
    ⟨h0, h1, h2⟩ | ⟨h0, h1, h2⟩ <;> rw [h0, h1, h2]
  · exact triFactor_swap12 _ _ _
  · exact triFactor_swap01 _ _ _
  · exact triFactor_rot _ _ _
  · exact triFactor_rot' _ _ _
  · exact triFactor_swap02 _ _ _

/-- the three vertices lie on a line (zero cross product; covers coincident vertices) -/
def Collinear (t : (Rat × Rat) × (Rat × Rat) × (Rat × Rat)) : Prop :=
  (t.2.1.1 - t.1.1) * (t.2.2.2 - t.1.2) = (t.2.2.1 - t.1.1) * (t.2.1.2 - t.1.2)

/-- **degenerate triangle**: `triFactor t = 0` exactly for collinear vertices -/
theorem triFactor_eq_zero_iff (t : (Rat × Rat) × (Rat × Rat) × (Rat × Rat)) :
    triFactor t = 0 ↔ Collinear t := by
  obtain ⟨p0, p1, p2⟩ := t
  rw [triFactor_cross, abs_eq_zero, sub_eq_zero]
  rfl

instance (t : (Rat × Rat) × (Rat × Rat) × (Rat × Rat)) : Decidable (Collinear t) := by
  unfold Collinear; infer_instance

theorem triFactor_degenerate (t : (Rat × Rat) × (Rat × Rat) × (Rat × Rat)) (h : Collinear t) :
    triFactor t = 0 := (triFactor_eq_zero_iff t).mpr h

/-- a third vertex on the line through the first two: `p2 = p0 + s·(p1 − p0)` -/
theorem collinear_of_param (p0 p1 : Rat × Rat) (s : Rat) :
    Collinear (p0, p1, (p0.1 + s * (p1.1 - p0.1), p0.2 + s * (p1.2 - p0.2))) := by
  show (p1.1 - p0.1) * (p0.2 + s * (p1.2 - p0.2) - p0.2) =
    (p0.1 + s * (p1.1 - p0.1) - p0.1) * (p1.2 - p0.2)
  ring

/-- two coincident vertices -/
theorem collinear_of_eq01 (p0 p2 : Rat × Rat) : Collinear (p0, p0, p2) := by
  show (p0.1 - p0.1) * (p2.2 - p0.2) = (p2.1 - p0.1) * (p0.2 - p0.2)
  ring

theorem collinear_of_eq02 (p0 p1 : Rat × Rat) : Collinear (p0, p1, p0) := by
  show (p1.1 - p0.1) * (p0.2 - p0.2) = (p0.1 - p0.1) * (p1.2 - p0.2)
  ring

theorem collinear_of_eq12 (p0 p1 : Rat × Rat) : Collinear (p0, p1, p1) := by
  show (p1.1 - p0.1) * (p1.2 - p0.2) = (p1.1 - p0.1) * (p1.2 - p0.2)
  ring

/-- on a degenerate triangle the integrand handed to the 2-D routine vanishes identically -/
theorem triIntegrand_degenerate (f : Rat → Rat → Rat) (t : (Rat × Rat) × (Rat × Rat) × (Rat × Rat))
    (h : triFactor t = 0) (u0 u1 : Rat) : triIntegrand f t u0 u1 = 0 := by
  obtain ⟨p0, p1, p2⟩ := t
  show triFactor (p0, p1, p2) * _ = 0
  rw [h, zero_mul]

/-- **degenerate triangle ⇒ `(0, 0)`**: every integrand, every positive tolerance, every budget
    other than `0` (including `none`): all rule values are `0`, the first estimate `0 < tol`. -/
theorem gkTriangle_degenerate_zero' (f : Rat → Rat → Rat)
    (t : (Rat × Rat) × (Rat × Rat) × (Rat × Rat)) (tol : Rat) (mi : Option Nat)
    (h : triFactor t = 0) (htol : 0 < tol) (hmi : mi ≠ some 0) :
    (gkTriangle f t tol mi).res = .ok (0, 0) :=
  gk2d_zero _ (triIntegrand_degenerate f t h) _ _ _ tol mi htol hmi

theorem gkTriangle_degenerate_zero (f : Rat → Rat → Rat)
    (t : (Rat × Rat) × (Rat × Rat) × (Rat × Rat)) (tol : Rat) (n : Nat)
    (h : triFactor t = 0) (htol : 0 < tol) (hn : 1 ≤ n) :
    (gkTriangle f t tol (some n)).res = .ok (0, 0) :=
  gkTriangle_degenerate_zero' f t tol (some n) h htol
    (by intro h'; injection h' with h'; omega)

/-! ## B3 — a successful 2-D result is a tiling sum -/

/-- **MAIN THEOREM (2-D analogue of `C02.gk1d_ok_is_tiling_sum`).**  For every integrand, all
    outer bounds `a ≠ b` in either order, every inner-bound function, tolerance and budget: a
    successful result `(v, e)` of `gk2d` is the sum of the single-panel values of `gkApprox2`
    (`approx2 … p.1 p.2`, each of which is a success) over a chain `L` of outer intervals
    tiling `[a,b]` with no gap, overlap or repetition, `e` is the sum of those panels'
    estimates, and every panel of the tiling was actually evaluated (its trace entry occurs in
    `panels`). -/
theorem gk2d_ok_is_tiling_sum (f : Rat → Rat → Rat) (a b : Rat) (innerAB : Rat → Rat × Rat)
    (tol : Rat) (mi : Option Nat) (v e : Rat) (hab : a ≠ b)
    (h : (gk2d f a b innerAB tol mi).res = .ok (v, e)) :
    ∃ L : List (Rat × Rat), C02.IsChain a b L ∧ C02.Directed a b L ∧
      (∀ p ∈ L, (gkApprox2 f innerAB tol mi p.1 p.2).1 = .ok (approx2 f innerAB tol mi p.1 p.2)) ∧
      v = (L.map (fun p => (approx2 f innerAB tol mi p.1 p.2).1)).sum ∧
      e = (L.map (fun p => (approx2 f innerAB tol mi p.1 p.2).2)).sum ∧
      ∀ p ∈ L, (gkApprox2 f innerAB tol mi p.1 p.2).2 ∈ (gk2d f a b innerAB tol mi).panels :=
  gk2d_ok_tiling f a b innerAB tol mi v e hab h

/-- the triangle form: a tiling of `[0,1]` in the outer barycentric coordinate -/
theorem gkTriangle_ok_is_tiling_sum (f : Rat → Rat → Rat)
    (t : (Rat × Rat) × (Rat × Rat) × (Rat × Rat)) (tol : Rat) (mi : Option Nat) (v e : Rat)
    (h : (gkTriangle f t tol mi).res = .ok (v, e)) :
    ∃ L : List (Rat × Rat), C02.IsChain 0 1 L ∧ C02.Directed 0 1 L ∧
      (∀ p ∈ L, (gkApprox2 (triIntegrand f t) (fun u1 => (0, 1 - u1)) tol mi p.1 p.2).1 =
        .ok (approx2 (triIntegrand f t) (fun u1 => (0, 1 - u1)) tol mi p.1 p.2)) ∧
      v = (L.map (fun p => (approx2 (triIntegrand f t) (fun u1 => (0, 1 - u1)) tol mi p.1 p.2).1)).sum ∧
      e = (L.map (fun p => (approx2 (triIntegrand f t) (fun u1 => (0, 1 - u1)) tol mi p.1 p.2).2)).sum :=by
  have h01 : (Num.zero : Rat) = 0 := QuadTiling.zero_eq
  have h11 : (Num.one : Rat) = 1 := by simp [Num.one, Num.ofNat]
  unfold gkTriangle at h
  simp only [h01, h11] at h
  obtain ⟨L, hc, hd, hok, hv, he, _⟩ := gk2d_ok_tiling _ 0 1 _ tol mi v e (by norm_num) h
  exact ⟨L, hc, hd, hok, hv, he⟩

/-! ## B4 — single-panel accuracy of the nested K21 rule on bivariate polynomials

`f x y = Σ_k (cs x)[k]·y^k` is a polynomial of degree ≤ 31 in `y` for every `x` (degree ≤ 19 makes
G10 exact as well, but only the K21 values enter the returned VALUE), and the exact inner integral
`x ↦ ∫_{l(x)}^{u(x)} f(x,y) dy` (`l, u = innerAB`) is a polynomial `Fs` of degree ≤ 31 in `x`.  If
every inner run stops on its first panel, the nested K21 value is the tensor-product rule
(`Quad2D.nested_first_panel_value`) and differs from the exact iterated integral by the outer
table defect plus the inner table defects weighted by the outer rule. -/

/-- the K21 weights sum to `2` up to the table defect -/
theorem k21_weight_sum_le : unitRule (fun _ => (1 : Rat)) Gen.k21 ≤ 2 + 1 / 10 ^ 16 := by
  decide +kernel

/-- **single-panel accuracy, rational form** (`_partial`: the exact iterated integral is expressed
    through `C01.exactInt` — inner: hypothesis `hF`, outer: `exactInt Fs a b` — see
    `nested_single_panel_poly_accuracy` for the bridge to Mathlib's interval integrals).
    `ε` bounds the inner one-panel errors `|(u−l)/2|·1e-16·Σ_k|cs x[k]|·max(|l|,|u|)^k` at the 21
    outer abscissae. -/
theorem nested_single_panel_poly_accuracy_partial (f : Rat → Rat → Rat) (cs : Rat → List Rat)
    (Fs : List Rat) (a b : Rat) (innerAB : Rat → Rat × Rat) (tol : Rat) (mi : Option Nat) (ε : Rat)
    (hf : ∀ x y, f x y = evalPoly (cs x) y) (hdy : ∀ x, (cs x).length ≤ 32)
    (hF : ∀ x, evalPoly Fs x = exactInt (cs x) (innerAB x).1 (innerAB x).2)
    (hdx : Fs.length ≤ 32) (hmi : mi ≠ some 0)
    (hfirst : ∀ node ∈ unitNodes (Gen.k21 : List (Rat × Rat)),
      FirstPanel (fun y => f (denorm a b node) y) (innerAB (denorm a b node)).1
        (innerAB (denorm a b node)).2 tol)
    (hε : ∀ node ∈ unitNodes (Gen.k21 : List (Rat × Rat)),
      |((innerAB (denorm a b node)).2 - (innerAB (denorm a b node)).1) / 2| * (1 / 10 ^ 16) *
        absPolyAt (cs (denorm a b node))
          (max |(innerAB (denorm a b node)).1| |(innerAB (denorm a b node)).2|) ≤ ε)
    (v e : Rat) (h : (nested f a b innerAB tol mi Gen.k21).res = .ok (v, e)) :
    |v - exactInt Fs a b| ≤
      |(b - a) / 2| * (1 / 10 ^ 16) * absPolyAt Fs (max |a| |b|) +
        |(b - a) / 2| * (ε * unitRule (fun _ => 1) Gen.k21) := by
  have hv := nested_first_panel_value f a b innerAB tol mi _ hmi hfirst v e h
  have hsym : symRule (evalPoly Fs) a b Gen.k21 =
      (b - a) / 2 * unitRule (fun node => evalPoly Fs (denorm a b node)) Gen.k21 := by
    simp only [symRule, QuadTiling.two_eq]
  have hsplit : v - exactInt Fs a b =
      (b - a) / 2 * unitRule (fun node =>
        symRule (fun y => f (denorm a b node) y) (innerAB (denorm a b node)).1
          (innerAB (denorm a b node)).2 Gen.k21 - evalPoly Fs (denorm a b node)) Gen.k21 +
      (symRule (evalPoly Fs) a b Gen.k21 - exactInt Fs a b) := by
    rw [unitRule_sub, hsym, hv]; ring
  rw [hsplit, add_comm]
  refine le_trans (abs_add_le _ _) (add_le_add (panel_poly_error_rat Fs hdx a b) ?_)
  rw [abs_mul]
  refine mul_le_mul_of_nonneg_left ?_ (abs_nonneg _)
  apply unitRule_abs_le _ ε _ k21_weights_nonneg
  intro node hnode
  have hfun : (fun y => f (denorm a b node) y) = evalPoly (cs (denorm a b node)) :=
    funext (fun y => hf _ y)
  rw [hfun, hF]
  exact le_trans (panel_poly_error_rat _ (hdy _) _ _) (hε node hnode)

/-- **single-panel accuracy against Mathlib's interval integrals.**  Under the hypotheses above,
    `Fs` IS the inner integral at every rational abscissa,
    `∫_{l(x)}^{u(x)} f(x,y) dy = evalPolyR Fs x`, and the nested K21 value differs from
    `∫_a^b evalPolyR Fs x dx` by at most the stated bound (with `Σ weights ≤ 2 + 1e-16`).
    (Not stated: the identification of `evalPolyR Fs x` with the inner integral at IRRATIONAL `x`,
    which needs `innerAB` and `cs` as real functions; the model only ever evaluates rational `x`.) -/
theorem nested_single_panel_poly_accuracy (f : Rat → Rat → Rat) (cs : Rat → List Rat)
    (Fs : List Rat) (a b : Rat) (innerAB : Rat → Rat × Rat) (tol : Rat) (mi : Option Nat) (ε : Rat)
    (hf : ∀ x y, f x y = evalPoly (cs x) y) (hdy : ∀ x, (cs x).length ≤ 32)
    (hF : ∀ x, evalPoly Fs x = exactInt (cs x) (innerAB x).1 (innerAB x).2)
    (hdx : Fs.length ≤ 32) (hmi : mi ≠ some 0)
    (hfirst : ∀ node ∈ unitNodes (Gen.k21 : List (Rat × Rat)),
      FirstPanel (fun y => f (denorm a b node) y) (innerAB (denorm a b node)).1
        (innerAB (denorm a b node)).2 tol)
    (hε : ∀ node ∈ unitNodes (Gen.k21 : List (Rat × Rat)),
      |((innerAB (denorm a b node)).2 - (innerAB (denorm a b node)).1) / 2| * (1 / 10 ^ 16) *
        absPolyAt (cs (denorm a b node))
          (max |(innerAB (denorm a b node)).1| |(innerAB (denorm a b node)).2|) ≤ ε)
    (v e : Rat) (h : (nested f a b innerAB tol mi Gen.k21).res = .ok (v, e)) :
    (∀ x : Rat, ∫ y in ((innerAB x).1 : ℝ)..((innerAB x).2 : ℝ), evalPolyR (cs x) y =
      evalPolyR Fs (x : ℝ)) ∧
    |(v : ℝ) - ∫ x in (a : ℝ)..(b : ℝ), evalPolyR Fs x| ≤
      (((|(b - a) / 2| * (1 / 10 ^ 16) * absPolyAt Fs (max |a| |b|) +
        |(b - a) / 2| * (ε * (2 + 1 / 10 ^ 16)) : Rat)) : ℝ) := by
  constructor
  · intro x
    rw [integral_eq_exactInt, ← hF x, evalPolyR_cast]
  · rw [integral_eq_exactInt, ← Rat.cast_sub, ← Rat.cast_abs, Rat.cast_le]
    refine le_trans (nested_single_panel_poly_accuracy_partial f cs Fs a b innerAB tol mi ε hf hdy hF
      hdx hmi hfirst hε v e h) ?_
    have hε0 : 0 ≤ ε := by
      obtain ⟨n, hn⟩ : ∃ n, n ∈ unitNodes (Gen.k21 : List (Rat × Rat)) := ⟨0, by decide +kernel⟩
      refine le_trans ?_ (hε n hn)
      have : 0 ≤ absPolyAt (cs (denorm a b n))
          (max |(innerAB (denorm a b n)).1| |(innerAB (denorm a b n)).2|) :=
        absPolyAt_nonneg _ (le_trans (abs_nonneg (innerAB (denorm a b n)).1) (le_max_left _ _))
      positivity
    have := mul_le_mul_of_nonneg_left k21_weight_sum_le hε0
    have h2 := mul_le_mul_of_nonneg_left this (abs_nonneg ((b - a) / 2))
    linarith

/-! ## Non-vacuity: concrete instances evaluated by the kernel (`decide +kernel`) -/

/-- `f(x,y) = x + y` -/
def fxy : Rat → Rat → Rat := fun x y => x + y
/-- inner bounds `[0,1]` for every outer abscissa: the unit square -/
def unitSq : Rat → Rat × Rat := fun _ => (0, 1)

theorem fxy_nested_res : (nested fxy 0 1 unitSq (1/10) (some 2) Gen.g10).res =
    .ok (41538374868278620956186376595832825 / 41538374868278621028243970633760768,
      1080863910568919025 / 41538374868278621028243970633760768) := by
  decide +kernel

/-- `nested_outer_swap` applied to it … -/
example : (nested fxy 1 0 unitSq (1/10) (some 2) Gen.g10).res =
    .ok (-(41538374868278620956186376595832825 / 41538374868278621028243970633760768),
      1080863910568919025 / 41538374868278621028243970633760768) :=
  nested_outer_swap fxy 0 1 unitSq (1/10) (some 2) _ _ _ fxy_nested_res

/-- … agrees with the direct evaluation of the reversed run -/
example : (nested fxy 1 0 unitSq (1/10) (some 2) Gen.g10).res =
    .ok (-(41538374868278620956186376595832825 / 41538374868278621028243970633760768),
      1080863910568919025 / 41538374868278621028243970633760768) := by
  decide +kernel

theorem fxy_gkApprox2_res : (gkApprox2 fxy unitSq (1/10) (some 2) 0 1).1 =
    .ok (332306998946228976296402297318015025 / 332306998946228968225951765070086144,
      8646911284551352425 / 166153499473114484112975882535043072) := by
  decide +kernel

example : (gkApprox2 fxy unitSq (1/10) (some 2) 1 0).1 =
    .ok (-(332306998946228976296402297318015025 / 332306998946228968225951765070086144),
      8646911284551352425 / 166153499473114484112975882535043072) :=
  gkApprox2_outer_swap fxy unitSq (1/10) (some 2) 0 1 _ _ fxy_gkApprox2_res

/-- every inner integration of that run is decided on its first panel … -/
theorem fxy_first_panel : ∀ x ∈ unitNodes (Gen.g10 : List (Rat × Rat)),
    FirstPanel (fun y => fxy (denorm 0 1 x) y) (unitSq (denorm 0 1 x)).1 (unitSq (denorm 0 1 x)).2
      (1/10) := by
  decide +kernel

/-- … so the inner swap negates exactly: integrating `y` from `1` down to `0` -/
example : (nested fxy 0 1 (swapAB unitSq) (1/10) (some 2) Gen.g10).res =
    .ok (-(41538374868278620956186376595832825 / 41538374868278621028243970633760768),
      1080863910568919025 / 41538374868278621028243970633760768) :=
  nested_inner_swap_partial fxy 0 1 unitSq (1/10) (some 2) _ (by decide) fxy_first_panel _ _
    fxy_nested_res

example : (nested fxy 0 1 (swapAB unitSq) (1/10) (some 2) Gen.g10).res =
    .ok (-(41538374868278620956186376595832825 / 41538374868278621028243970633760768),
      1080863910568919025 / 41538374868278621028243970633760768) := by
  decide +kernel

/-- a degenerate triangle: three points on the diagonal -/
example : Collinear (((0 : Rat), (0 : Rat)), ((1 : Rat), (1 : Rat)), ((2 : Rat), (2 : Rat))) := by
  decide +kernel

example : triFactor (((0 : Rat), (0 : Rat)), ((1 : Rat), (1 : Rat)), ((2 : Rat), (2 : Rat))) = 0 :=
  triFactor_degenerate _ (by decide +kernel)

example : (gkTriangle fxy ((0, 0), (1, 1), (2, 2)) (1/10) (some 2)).res = .ok (0, 0) :=
  gkTriangle_degenerate_zero fxy _ (1/10) 2 (triFactor_degenerate _ (by decide +kernel))
    (by norm_num) (by decide)

/-- the same by direct evaluation -/
example : (gkTriangle fxy ((0, 0), (1, 1), (2, 2)) (1/10) (some 2)).res = .ok (0, 0) := by
  decide +kernel

/-- a non-degenerate triangle and a permutation of its vertices -/
example : triFactor (((0 : Rat), (0 : Rat)), ((1 : Rat), (0 : Rat)), ((0 : Rat), (1 : Rat))) = 1 ∧
    triFactor (((0 : Rat), (1 : Rat)), ((0 : Rat), (0 : Rat)), ((1 : Rat), (0 : Rat))) = 1 := by
  decide +kernel

/-- a 2-D run that really bisects: the step `x ↦ [x ≥ 1/3]` (constant in `y`) on the unit square,
    tolerance `1/100`, budget 40 -/
def stepxy : Rat → Rat → Rat := fun x _ => if x < 1/3 then 0 else 1

theorem stepxy_run_res : (gk2d stepxy 0 1 unitSq (1/100) (some 40)).res =
    .ok (1782906078756467694747257477959601565 / 2658455991569831745807614120560689152,
      11583157897226193456324319226926725 / 1329227995784915872903807060280344576) := by
  decide +kernel

theorem stepxy_run_panels :
    (gk2d stepxy 0 1 unitSq (1/100) (some 40)).panels.map (fun p => (p.1, p.2.1)) =
      [(0, 1), (0, 1/2), (1/2, 1), (0, 1/4), (1/4, 1/2)] := by
  decide +kernel

/-- the main theorem yields a tiling for it -/
example : ∃ L : List (Rat × Rat), C02.IsChain 0 1 L ∧ C02.Directed 0 1 L ∧
    (∀ p ∈ L, (gkApprox2 stepxy unitSq (1/100) (some 40) p.1 p.2).1 =
      .ok (approx2 stepxy unitSq (1/100) (some 40) p.1 p.2)) ∧
    (1782906078756467694747257477959601565 / 2658455991569831745807614120560689152 : Rat) =
      (L.map (fun p => (approx2 stepxy unitSq (1/100) (some 40) p.1 p.2).1)).sum ∧
    (11583157897226193456324319226926725 / 1329227995784915872903807060280344576 : Rat) =
      (L.map (fun p => (approx2 stepxy unitSq (1/100) (some 40) p.1 p.2).2)).sum ∧
    ∀ p ∈ L, (gkApprox2 stepxy unitSq (1/100) (some 40) p.1 p.2).2 ∈
      (gk2d stepxy 0 1 unitSq (1/100) (some 40)).panels :=
  gk2d_ok_is_tiling_sum stepxy 0 1 unitSq (1/100) (some 40) _ _ (by decide) stepxy_run_res

/-- … and the value and estimate are the sums over the 3-piece tiling `[0,¼], [¼,½], [½,1]` -/
example :
    (1782906078756467694747257477959601565 / 2658455991569831745807614120560689152 : Rat) =
      ([((0 : Rat), (1/4 : Rat)), (1/4, 1/2), (1/2, 1)].map
        (fun p => (approx2 stepxy unitSq (1/100) (some 40) p.1 p.2).1)).sum ∧
    (11583157897226193456324319226926725 / 1329227995784915872903807060280344576 : Rat) =
      ([((0 : Rat), (1/4 : Rat)), (1/4, 1/2), (1/2, 1)].map
        (fun p => (approx2 stepxy unitSq (1/100) (some 40) p.1 p.2).2)).sum := by
  decide +kernel

/-- B4 on `x + y` over the unit square: `cs x = [x, 1]`, inner integral `x + 1/2`, i.e.
    `Fs = [1/2, 1]`, exact double integral `1` -/
theorem fxy_nested_k21_res : (nested fxy 0 1 unitSq (1/10) (some 2) Gen.k21).res =
    .ok (332306998946228976296402297318015025 / 332306998946228968225951765070086144,
      8646911284551352425 / 332306998946228968225951765070086144) := by
  decide +kernel

example : |(332306998946228976296402297318015025 / 332306998946228968225951765070086144 : Rat) -
      exactInt [1/2, 1] 0 1| ≤
    |((1 : Rat) - 0) / 2| * (1 / 10 ^ 16) * absPolyAt [1/2, 1] (max |(0 : Rat)| |(1 : Rat)|) +
      |((1 : Rat) - 0) / 2| * ((1 / 10 ^ 16) * unitRule (fun _ => 1) Gen.k21) :=
  nested_single_panel_poly_accuracy_partial fxy (fun x => [x, 1]) [1/2, 1] 0 1 unitSq (1/10) (some 2)
    (1 / 10 ^ 16)
    (by intro x y; simp [fxy])
    (by intro x; simp)
    (by intro x; simp [exactInt, compAffine, mulLinAux, wsum, mom, unitSq]; ring)
    (by decide) (by decide) (by decide +kernel) (by decide +kernel) _ _ fxy_nested_k21_res

example : exactInt [1/2, 1] 0 1 = 1 := by decide +kernel

end Cav.C09
