/-
  C19 — the string-level display API is faithful to the closure-level API (wiring).

  `Gen/Wiring.lean` is regenerated from `standardized_gui_methods.rs` on every run; the
  theorems below are decided by the kernel on that data.  They say that the model
  `Model/Api.lean` (whose behaviour is compared with the implementation bit-for-bit) wires
  the three entry points exactly as the source does.
-/
import Cav.Gen.Wiring
import Cav.Model.Api

namespace Cav.C19
open Cav Gen

def api (n : String) : Option ApiRec := apis.find? (·.name == n)

/-- **Config pass-through:** every field of `DisplayConfig2D/3D` is initialised from the
    parameter of the same name (so `max_rf_iters`/`max_int_iters`, `x_res`/`y_res`, … cannot be
    swapped), and the fields are exactly the parameters that follow the compiled strings. -/
theorem cfg_passthrough :
    ∀ a ∈ apis, (∀ f ∈ a.fields, f.1 = f.2 ∧ f.1 ∈ a.params.map (·.1)) ∧
      a.fields.map (·.1) = (a.params.map (·.1)).drop (a.comps.length) := by
  decide

/-- the three entry points exist with the documented positional parameters -/
theorem api_signatures :
    apis.map (fun a => (a.name, a.params.map (·.1))) =
      [("display_cav2d", ["f_expr", "c_expr", "intervals", "compute_integ", "x_res", "y_res", "interm_cs", "max_rf_iters", "max_int_iters", "tol"]),
       ("display_cav2d_rs", ["f_expr", "g_expr", "intervals", "compute_integ", "x_res", "y_res", "interm_cs", "max_rf_iters", "max_int_iters", "tol"]),
       ("display_cav3d", ["f_expr", "c1_expr", "c2_expr", "polygon_set", "compute_integ", "radial_res", "x_res", "y_res", "max_int_iters", "tol"])] := by
  decide

/-- **Variable bindings:** the integrand binds `x ↦ 0` (and `y ↦ 1` in 3-D), the c-curve binds
    `y ↦ 0` (2-D) / `z ↦ 0` (3-D), the Riemann–Stieltjes integrator shares the integrand's
    context, the interval / polygon context binds no variable — exactly the contexts of
    `displayCav2d` / `displayCav3d` in `Model/Api.lean`. -/
theorem ctx_bindings :
    apis.map (fun a => (a.name, a.ctxs.map (·.2), a.comps.map (·.2))) =
      [("display_cav2d", ["x=0", "y=0", ""],
          ["compile_expression(f_expr,f_context)", "compile_expression(c_expr,c_context)", "compile_interval_list(intervals,intervals_context)"]),
       ("display_cav2d_rs", ["x=0", ""],
          ["compile_expression(f_expr,context)", "compile_expression(g_expr,context)", "compile_interval_list(intervals,intervals_context)"]),
       ("display_cav3d", ["x=0;y=1", "z=0", ""],
          ["compile_expression(f_expr,f_context)", "compile_expression(c1_expr,c_context)", "compile_expression(c2_expr,c_context)", "compile_polygon_set(polygon_set,poly_set_context)"])] ∧
    apis.map (fun a => a.ctxs.map (·.1)) =
      [["f_context", "c_context", "intervals_context"], ["context", "intervals_context"], ["f_context", "c_context", "poly_set_context"]] := by
  decide

/-- **Delegation:** which generator is called, and the closures handed to it evaluate the compiled
    expressions on `[x]` (1-variable), `x` (the coordinate pair) and `[c1, c2]` in that order. -/
theorem delegation :
    apis.map (fun a => (a.name, a.gen, a.args, a.cfg)) =
      [("display_cav2d", "gen_display_cav", "&move |x| f_expr.eval(&[x]), &move |y| c_expr.eval(&[y]), intervals", "DisplayConfig2D"),
       ("display_cav2d_rs", "gen_display_rs", "&move |x| f_expr.eval(&[x]), &move |x| g_expr.eval(&[x]), intervals", "DisplayConfig2D"),
       ("display_cav3d", "gen_display_cav3d", "move |x| f_expr.eval(&x), move |x| [c1_expr.eval(&[x]), c2_expr.eval(&[x])], poly_set", "DisplayConfig3D")] := by
  decide

/-- **Error stage order (model):** the string API reports the error of the first failing stage
    in source order: integrand, c-curve (or integrator), intervals, then display generation. -/
theorem api2d_error_stage {α : Type} [Num α] (k : Consts α) (rs : Bool) (f c iv : List Char) (cfg : Cfg2D α)
    (e : CompileErr) (h : compile 1 (defaultCtx.insert "x" (.var 0)) f = .error e) :
    ∃ e', displayCav2d k rs f c iv cfg = .error e' ∧ (match e' with | .parse e'' => e'' = e | _ => False) := by
  refine ⟨.parse e, ?_, rfl⟩
  simp [displayCav2d, h]

/-- the interval / polygon contexts of the API are variable-free, so an entry that mentions
    `x` is an unknown name there -/
theorem api_list_ctx_var_free : ∀ p ∈ defaultCtx, ∀ i, p.2 ≠ .var i := by
  intro p hp i
  have h : defaultCtx.all (fun p => match p.2 with | .var _ => false | _ => true) = true := by decide
  have := List.all_eq_true.1 h p hp
  intro hi; rw [hi] at this; cases this

/-- every error type that can reach the API boundary is converted by formatting its `Display`
    text (`PyProxyError(format!("{}", e))`) -/
theorem error_conversions : proxyFrom = ["ParsedFuncError", "Display2DError", "Display3DError"] := by decide

end Cav.C19
