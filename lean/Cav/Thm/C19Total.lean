/-
  C19 — the string-level display API is TOTAL (every input yields displays or an error value,
  never a panic of the API layer) and FAITHFUL (each outcome is the outcome of the stage that
  produced it, on the compiled trees and the evaluated list entries).

  Model path: `Model/Api.lean` (`displayCav2d`, `displayCav3d`, `evalEntries`, `closure1`).

  (A) `displayCav2d_never_panics`   — all `Num` instances, all strings, both entry points.
  (B) `displayCav3d_no_api_panic`   — the same for the 3-D entry point.
      Reason: `compileIntervalList defaultCtx` / `compilePolygonSet defaultCtx` only return
      variable-free trees (C18), and a variable-free tree evaluates on `[]` (C17
      `eval_in_bounds`), so the `none` branch of `evalEntries` (the Rust index panic of
      `eval(&[])`) is never taken.
  (C) `displayCav3d_outcomes`, `displayCav3d_stages` — classification of every result; a
      `.tri e` result is exactly the triangulator's error on the evaluated polygons
      (`displayCav3d_tri_iff`).  Over `XQ`: a triangulator panic can only be `"borrow"`
      (`displayCav3d_tri_panic_only_borrow`, from `C15Heap.sweep_panic_only_borrow`), and there is
      no panic at all when the evaluated polygon set is `toInput polys` with `GeneralV polys`
      (`displayCav3d_never_panics_of_generalV`, from `C15GeneralV`).
  (D) `displayCav2d_outcomes`, `displayCav2d_stages`, `displayCav2d_ok_iff`.

  What is NOT proved here: that the triangulator never reports `.panic "borrow"` for inputs
  outside `GeneralV` (polygons with repeated vertices, touching edges, spikes): for those the
  3-D statement is `kk = "borrow"` only.
-/
import Cav.Lemmas.ApiTot
import Cav.Thm.C19
import Cav.Thm.C15Heap
import Cav.Thm.C15GeneralV
import Cav.Inst.Rat
import Cav.Inst.XQ

namespace Cav.C19Total
open Cav Num Gen Cav.Geo Cav.ApiTot

variable {α : Type} [Num α]

/-! ## the contexts and closures of the API (names for the statements) -/

/-- integrand context of `display_cav2d` / `display_cav2d_rs`: `x ↦ 0` -/
def fCtx2 : Ctx := defaultCtx.insert "x" (.var 0)
/-- c-curve context: `y ↦ 0` (`display_cav2d`), the integrand's context (`display_cav2d_rs`) -/
def cCtx2 (rs : Bool) : Ctx := if rs then fCtx2 else defaultCtx.insert "y" (.var 0)
/-- integrand context of `display_cav3d`: `x ↦ 0`, `y ↦ 1` -/
def fCtx3 : Ctx := (defaultCtx.insert "x" (.var 0)).insert "y" (.var 1)
/-- c-curve context of `display_cav3d`: `z ↦ 0` -/
def cCtx3 : Ctx := defaultCtx.insert "z" (.var 0)

/-- the generator called by the 2-D entry points -/
def gen2 (rs : Bool) (f c : AD α → AD α) (ivs : List (α × α)) (cfg : Cfg2D α) :
    Except DispErr (List (Disp2D α)) :=
  if rs then genDisplayRs f c ivs cfg else genDisplayCav f c ivs cfg

/-- values of the entries of an accepted interval list -/
def entryVals (k : Consts α) (l : List (E × E)) : List (α × α) :=
  l.map fun p => (constVal k p.1, constVal k p.2)

/-- the polygons handed to `gen_display_cav3d` for an accepted polygon set -/
def polysOf (k : Consts α) (pst : List (List (E × E))) : List (Array (Pt α)) :=
  (pst.map (entryVals k)).map fun poly => (poly.map fun q => (⟨q.1, q.2⟩ : Pt α)).toArray

/-- `move |x| f_expr.eval(&x)` of `display_cav3d` -/
def closure2 (k : Consts α) (t : E) : AD α × AD α → AD α :=
  fun x => (t.evalAD (envADOf k) [x.1, x.2]).getD ⟨Num.nan, Num.nan⟩

/-- `move |x| [c1_expr.eval(&[x]), c2_expr.eval(&[x])]` -/
def closureC (k : Consts α) (t1 t2 : E) : AD α → AD α × AD α :=
  fun z => (closure1 k t1 z, closure1 k t2 z)

/-! ## evaluation of accepted lists never fails -/

/-- an accepted interval list (default context) evaluates: the `panic` branch of `displayCav2d`
    is not taken -/
theorem intervals_eval_total (k : Consts α) {ctx : Ctx} {src : List Char} {l : List (E × E)}
    (h : compileIntervalList ctx src = .ok l) : evalEntries k l = some (entryVals k l) :=
  evalEntries_of_const k l (C18.intervals_entries_constant h)

/-- an accepted polygon set evaluates -/
theorem polygons_eval_total (k : Consts α) {ctx : Ctx} {src : List Char} {l : List (List (E × E))}
    (h : compilePolygonSet ctx src = .ok l) : l.mapM (evalEntries k) = some (l.map (entryVals k)) :=
  mapM_evalEntries_of_const k l (polygons_entries_constant h)

/-! ## (D) the 2-D entry points: stages and outcomes -/

/-- `displayCav2d` with its contexts and generator named -/
theorem displayCav2d_eq (k : Consts α) (rs : Bool) (f c iv : List Char) (cfg : Cfg2D α) :
    displayCav2d k rs f c iv cfg =
      match compile 1 fCtx2 f with
      | .error e => .error (.parse e)
      | .ok ft =>
        match compile 1 (cCtx2 rs) c with
        | .error e => .error (.parse e)
        | .ok ct =>
          match compileIntervalList defaultCtx iv with
          | .error e => .error (.list e)
          | .ok ivt =>
            match evalEntries k ivt with
            | none => .error .panic
            | some ivs =>
              match gen2 rs (closure1 k ft) (closure1 k ct) ivs cfg with
              | .ok d => .ok d
              | .error e => .error (.disp e) := rfl

/-- **stage structure of `display_cav2d` / `display_cav2d_rs`**: the result is the error of the
    first failing stage in source order (integrand, c-curve / integrator, interval list, display
    generation) or the displays of the generator applied to the closures of the compiled trees
    and the values of the interval entries.  There is no other case. -/
theorem displayCav2d_stages (k : Consts α) (rs : Bool) (f c iv : List Char) (cfg : Cfg2D α) :
    (∃ e, compile 1 fCtx2 f = .error e ∧ displayCav2d k rs f c iv cfg = .error (.parse e)) ∨
    (∃ ft e, compile 1 fCtx2 f = .ok ft ∧ compile 1 (cCtx2 rs) c = .error e ∧
      displayCav2d k rs f c iv cfg = .error (.parse e)) ∨
    (∃ ft ct e, compile 1 fCtx2 f = .ok ft ∧ compile 1 (cCtx2 rs) c = .ok ct ∧
      compileIntervalList defaultCtx iv = .error e ∧ e ≠ .panic ∧
      displayCav2d k rs f c iv cfg = .error (.list e)) ∨
    (∃ ft ct ivt e, compile 1 fCtx2 f = .ok ft ∧ compile 1 (cCtx2 rs) c = .ok ct ∧
      compileIntervalList defaultCtx iv = .ok ivt ∧
      gen2 rs (closure1 k ft) (closure1 k ct) (entryVals k ivt) cfg = .error e ∧
      displayCav2d k rs f c iv cfg = .error (.disp e)) ∨
    (∃ ft ct ivt ds, compile 1 fCtx2 f = .ok ft ∧ compile 1 (cCtx2 rs) c = .ok ct ∧
      compileIntervalList defaultCtx iv = .ok ivt ∧
      gen2 rs (closure1 k ft) (closure1 k ct) (entryVals k ivt) cfg = .ok ds ∧
      displayCav2d k rs f c iv cfg = .ok ds) := by
  rw [displayCav2d_eq]
  cases hf : compile 1 fCtx2 f with
  | error e => exact Or.inl ⟨e, rfl, rfl⟩
  | ok ft =>
    refine Or.inr ?_
    cases hc : compile 1 (cCtx2 rs) c with
    | error e => exact Or.inl ⟨ft, e, rfl, rfl, rfl⟩
    | ok ct =>
      refine Or.inr ?_
      cases hi : compileIntervalList defaultCtx iv with
      | error e =>
        refine Or.inl ⟨ft, ct, e, rfl, rfl, rfl, ?_, rfl⟩
        rintro rfl
        exact C18.intervals_no_panic _ _ hi
      | ok ivt =>
        refine Or.inr ?_
        simp only [intervals_eval_total k hi]
        cases hg : gen2 rs (closure1 k ft) (closure1 k ct) (entryVals k ivt) cfg with
        | error e =>
          exact Or.inl ⟨ft, ct, ivt, e, rfl, rfl, rfl, hg, rfl⟩
        | ok ds => exact Or.inr ⟨ft, ct, ivt, ds, rfl, rfl, rfl, hg, rfl⟩

/-- **(A) `display_cav2d` and `display_cav2d_rs` never panic**: for every `Num` instance, all
    constants, ALL strings and every configuration the result is displays or an error value. -/
theorem displayCav2d_never_panics (k : Consts α) (rs : Bool) (fExpr cExpr intervals : List Char)
    (cfg : Cfg2D α) : displayCav2d k rs fExpr cExpr intervals cfg ≠ .error .panic := by
  intro h
  rcases displayCav2d_stages k rs fExpr cExpr intervals cfg with
    ⟨e, -, h'⟩ | ⟨_, e, -, -, h'⟩ | ⟨_, _, e, -, -, -, -, h'⟩ | ⟨_, _, _, e, -, -, -, -, h'⟩ |
    ⟨_, _, _, ds, -, -, -, -, h'⟩ <;> rw [h'] at h <;> cases h

/-- the list stage never reports its own `panic` value either -/
theorem displayCav2d_no_list_panic (k : Consts α) (rs : Bool) (fExpr cExpr intervals : List Char)
    (cfg : Cfg2D α) : displayCav2d k rs fExpr cExpr intervals cfg ≠ .error (.list .panic) := by
  intro h
  rcases displayCav2d_stages k rs fExpr cExpr intervals cfg with
    ⟨e, -, h'⟩ | ⟨_, e, -, -, h'⟩ | ⟨_, _, e, -, -, -, hne, h'⟩ | ⟨_, _, _, e, -, -, -, -, h'⟩ |
    ⟨_, _, _, ds, -, -, -, -, h'⟩ <;> rw [h'] at h <;> cases h
  exact hne rfl

/-- **(D) outcomes of the 2-D entry points**: displays, a parse error, a list error (not the
    list parser's `panic`), or a display-generation error -/
theorem displayCav2d_outcomes (k : Consts α) (rs : Bool) (fExpr cExpr intervals : List Char)
    (cfg : Cfg2D α) :
    (∃ ds, displayCav2d k rs fExpr cExpr intervals cfg = .ok ds) ∨
    (∃ e, displayCav2d k rs fExpr cExpr intervals cfg = .error (.parse e)) ∨
    (∃ e, e ≠ ListErr.panic ∧ displayCav2d k rs fExpr cExpr intervals cfg = .error (.list e)) ∨
    (∃ e, displayCav2d k rs fExpr cExpr intervals cfg = .error (.disp e)) := by
  rcases displayCav2d_stages k rs fExpr cExpr intervals cfg with
    ⟨e, -, h'⟩ | ⟨_, e, -, -, h'⟩ | ⟨_, _, e, -, -, -, hne, h'⟩ | ⟨_, _, _, e, -, -, -, -, h'⟩ |
    ⟨_, _, _, ds, -, -, -, -, h'⟩
  · exact Or.inr (Or.inl ⟨e, h'⟩)
  · exact Or.inr (Or.inl ⟨e, h'⟩)
  · exact Or.inr (Or.inr (Or.inl ⟨e, hne, h'⟩))
  · exact Or.inr (Or.inr (Or.inr ⟨e, h'⟩))
  · exact Or.inl ⟨ds, h'⟩

/-- **faithfulness of success (2-D)**: the API returns `ds` iff all three strings compile and
    the closure-level generator returns `ds` on the closures of the compiled trees and the
    values of the interval entries -/
theorem displayCav2d_ok_iff (k : Consts α) (rs : Bool) (f c iv : List Char) (cfg : Cfg2D α)
    (ds : List (Disp2D α)) :
    displayCav2d k rs f c iv cfg = .ok ds ↔
      ∃ ft ct ivt, compile 1 fCtx2 f = .ok ft ∧ compile 1 (cCtx2 rs) c = .ok ct ∧
        compileIntervalList defaultCtx iv = .ok ivt ∧
        gen2 rs (closure1 k ft) (closure1 k ct) (entryVals k ivt) cfg = .ok ds := by
  constructor
  · intro h
    rcases displayCav2d_stages k rs f c iv cfg with
      ⟨e, -, h'⟩ | ⟨_, e, -, -, h'⟩ | ⟨_, _, e, -, -, -, -, h'⟩ | ⟨_, _, _, e, -, -, -, -, h'⟩ |
      ⟨ft, ct, ivt, ds', h1, h2, h3, h4, h'⟩
    all_goals rw [h'] at h
    all_goals first | (cases h; done) | skip
    cases h
    exact ⟨ft, ct, ivt, h1, h2, h3, h4⟩
  · rintro ⟨ft, ct, ivt, h1, h2, h3, h4⟩
    rcases displayCav2d_stages k rs f c iv cfg with
      ⟨e, h1', h'⟩ | ⟨_, e, h1', h2', h'⟩ | ⟨_, _, e, h1', h2', h3', -, h'⟩ |
      ⟨ft', ct', ivt', e, h1', h2', h3', h4', h'⟩ | ⟨ft', ct', ivt', ds', h1', h2', h3', h4', h'⟩
    · rw [h1] at h1'; cases h1'
    · rw [h2] at h2'; cases h2'
    · rw [h3] at h3'; cases h3'
    · rw [h1] at h1'; rw [h2] at h2'; rw [h3] at h3'; cases h1'; cases h2'; cases h3'
      rw [h4] at h4'; cases h4'
    · rw [h1] at h1'; rw [h2] at h2'; rw [h3] at h3'; cases h1'; cases h2'; cases h3'
      rw [h4] at h4'; cases h4'; exact h'

/-- a display-generation error is the generator's error (2-D) -/
theorem displayCav2d_disp_iff (k : Consts α) (rs : Bool) (f c iv : List Char) (cfg : Cfg2D α)
    (e : DispErr) :
    displayCav2d k rs f c iv cfg = .error (.disp e) ↔
      ∃ ft ct ivt, compile 1 fCtx2 f = .ok ft ∧ compile 1 (cCtx2 rs) c = .ok ct ∧
        compileIntervalList defaultCtx iv = .ok ivt ∧
        gen2 rs (closure1 k ft) (closure1 k ct) (entryVals k ivt) cfg = .error e := by
  constructor
  · intro h
    rcases displayCav2d_stages k rs f c iv cfg with
      ⟨e, -, h'⟩ | ⟨_, e, -, -, h'⟩ | ⟨_, _, e, -, -, -, -, h'⟩ | ⟨ft, ct, ivt, e', h1, h2, h3, h4, h'⟩ |
      ⟨_, _, _, ds', -, -, -, -, h'⟩
    all_goals rw [h'] at h
    all_goals first | (cases h; done) | skip
    cases h
    exact ⟨ft, ct, ivt, h1, h2, h3, h4⟩
  · rintro ⟨ft, ct, ivt, h1, h2, h3, h4⟩
    rcases displayCav2d_stages k rs f c iv cfg with
      ⟨e, h1', h'⟩ | ⟨_, e, h1', h2', h'⟩ | ⟨_, _, e, h1', h2', h3', -, h'⟩ |
      ⟨ft', ct', ivt', e, h1', h2', h3', h4', h'⟩ | ⟨ft', ct', ivt', ds', h1', h2', h3', h4', h'⟩
    · rw [h1] at h1'; cases h1'
    · rw [h2] at h2'; cases h2'
    · rw [h3] at h3'; cases h3'
    · rw [h1] at h1'; rw [h2] at h2'; rw [h3] at h3'; cases h1'; cases h2'; cases h3'
      rw [h4] at h4'; cases h4'; exact h'
    · rw [h1] at h1'; rw [h2] at h2'; rw [h3] at h3'; cases h1'; cases h2'; cases h3'
      rw [h4] at h4'; cases h4'

/-! ## (B), (C) the 3-D entry point -/

/-- how `display_cav3d` passes on the result of `gen_display_cav3d` -/
def relay3 (r : Except (Disp3Err α) (List (Disp3D α))) : Except (ApiErr α) (List (Disp3D α)) :=
  match r with
  | .ok d => .ok d
  | .error (.tri e) => .error (.tri e)
  | .error (.integ b) => .error (.integ b)

omit [Num α] in
theorem relay3_cases (r : Except (Disp3Err α) (List (Disp3D α))) :
    (∃ e, r = .error (.tri e) ∧ relay3 r = .error (.tri e)) ∨
    (∃ b, r = .error (.integ b) ∧ relay3 r = .error (.integ b)) ∨
    (∃ ds, r = .ok ds ∧ relay3 r = .ok ds) := by
  cases r with
  | ok ds => exact Or.inr (Or.inr ⟨ds, rfl, rfl⟩)
  | error e =>
    cases e with
    | tri e => exact Or.inl ⟨e, rfl, rfl⟩
    | integ b => exact Or.inr (Or.inl ⟨b, rfl, rfl⟩)

/-- `displayCav3d` with its contexts and closures named -/
theorem displayCav3d_eq (k : Consts α) (f c1 c2 ps : List Char) (cfg : Cfg3D α) :
    displayCav3d k f c1 c2 ps cfg =
      match compile 2 fCtx3 f with
      | .error e => .error (.parse e)
      | .ok ft =>
        match compile 1 cCtx3 c1 with
        | .error e => .error (.parse e)
        | .ok c1t =>
          match compile 1 cCtx3 c2 with
          | .error e => .error (.parse e)
          | .ok c2t =>
            match compilePolygonSet defaultCtx ps with
            | .error e => .error (.list e)
            | .ok pst =>
              match pst.mapM (evalEntries k) with
              | none => .error .panic
              | some pv =>
                relay3 (genDisplayCav3 (closure2 k ft) (closureC k c1t c2t)
                    (pv.map fun poly => (poly.map fun q => (⟨q.1, q.2⟩ : Pt α)).toArray) cfg) := rfl

/-- **stage structure of `display_cav3d`**: the error of the first failing stage in source order
    (integrand, `c1`, `c2`, polygon set, then the generator: triangulation, integration) or the
    generator's displays, on the closures of the compiled trees and the polygons `polysOf`. -/
theorem displayCav3d_stages (k : Consts α) (f c1 c2 ps : List Char) (cfg : Cfg3D α) :
    (∃ e, compile 2 fCtx3 f = .error e ∧ displayCav3d k f c1 c2 ps cfg = .error (.parse e)) ∨
    (∃ ft e, compile 2 fCtx3 f = .ok ft ∧ compile 1 cCtx3 c1 = .error e ∧
      displayCav3d k f c1 c2 ps cfg = .error (.parse e)) ∨
    (∃ ft c1t e, compile 2 fCtx3 f = .ok ft ∧ compile 1 cCtx3 c1 = .ok c1t ∧
      compile 1 cCtx3 c2 = .error e ∧ displayCav3d k f c1 c2 ps cfg = .error (.parse e)) ∨
    (∃ ft c1t c2t e, compile 2 fCtx3 f = .ok ft ∧ compile 1 cCtx3 c1 = .ok c1t ∧
      compile 1 cCtx3 c2 = .ok c2t ∧ compilePolygonSet defaultCtx ps = .error e ∧ e ≠ .panic ∧
      displayCav3d k f c1 c2 ps cfg = .error (.list e)) ∨
    (∃ ft c1t c2t pst, compile 2 fCtx3 f = .ok ft ∧ compile 1 cCtx3 c1 = .ok c1t ∧
      compile 1 cCtx3 c2 = .ok c2t ∧ compilePolygonSet defaultCtx ps = .ok pst ∧
      ((∃ e, genDisplayCav3 (closure2 k ft) (closureC k c1t c2t) (polysOf k pst) cfg = .error (.tri e) ∧
          displayCav3d k f c1 c2 ps cfg = .error (.tri e)) ∨
       (∃ b, genDisplayCav3 (closure2 k ft) (closureC k c1t c2t) (polysOf k pst) cfg = .error (.integ b) ∧
          displayCav3d k f c1 c2 ps cfg = .error (.integ b)) ∨
       (∃ ds, genDisplayCav3 (closure2 k ft) (closureC k c1t c2t) (polysOf k pst) cfg = .ok ds ∧
          displayCav3d k f c1 c2 ps cfg = .ok ds))) := by
  rw [displayCav3d_eq]
  cases hf : compile 2 fCtx3 f with
  | error e => exact Or.inl ⟨e, rfl, rfl⟩
  | ok ft =>
    refine Or.inr ?_
    cases hc1 : compile 1 cCtx3 c1 with
    | error e => exact Or.inl ⟨ft, e, rfl, rfl, rfl⟩
    | ok c1t =>
      refine Or.inr ?_
      cases hc2 : compile 1 cCtx3 c2 with
      | error e => exact Or.inl ⟨ft, c1t, e, rfl, rfl, rfl, rfl⟩
      | ok c2t =>
        refine Or.inr ?_
        cases hp : compilePolygonSet defaultCtx ps with
        | error e =>
          refine Or.inl ⟨ft, c1t, c2t, e, rfl, rfl, rfl, rfl, ?_, rfl⟩
          rintro rfl
          exact C18.polygons_no_panic _ _ hp
        | ok pst =>
          refine Or.inr ⟨ft, c1t, c2t, pst, rfl, rfl, rfl, rfl, ?_⟩
          simp only [polygons_eval_total k hp]
          exact relay3_cases _

/-- **(B) `display_cav3d` never panics in the API layer** (evaluation of the polygon entries):
    every `Num` instance, ALL strings, every configuration -/
theorem displayCav3d_no_api_panic (k : Consts α) (fExpr c1Expr c2Expr polygonSet : List Char)
    (cfg : Cfg3D α) : displayCav3d k fExpr c1Expr c2Expr polygonSet cfg ≠ .error .panic := by
  intro h
  rcases displayCav3d_stages k fExpr c1Expr c2Expr polygonSet cfg with
    ⟨e, -, h'⟩ | ⟨_, e, -, -, h'⟩ | ⟨_, _, e, -, -, -, h'⟩ | ⟨_, _, _, e, -, -, -, -, -, h'⟩ |
    ⟨_, _, _, _, -, -, -, -, ⟨e, -, h'⟩ | ⟨b, -, h'⟩ | ⟨ds, -, h'⟩⟩ <;> rw [h'] at h <;> cases h

/-- **(C) outcomes of `display_cav3d`**: displays, a parse error, a list error (not the list
    parser's `panic`), a triangulation error, or an integration error.  (`ApiErr.disp` and
    `ApiErr.panic` do not occur.) -/
theorem displayCav3d_outcomes (k : Consts α) (fExpr c1Expr c2Expr polygonSet : List Char)
    (cfg : Cfg3D α) :
    (∃ ds, displayCav3d k fExpr c1Expr c2Expr polygonSet cfg = .ok ds) ∨
    (∃ e, displayCav3d k fExpr c1Expr c2Expr polygonSet cfg = .error (.parse e)) ∨
    (∃ e, e ≠ ListErr.panic ∧ displayCav3d k fExpr c1Expr c2Expr polygonSet cfg = .error (.list e)) ∨
    (∃ e, displayCav3d k fExpr c1Expr c2Expr polygonSet cfg = .error (.tri e)) ∨
    (∃ b, displayCav3d k fExpr c1Expr c2Expr polygonSet cfg = .error (.integ b)) := by
  rcases displayCav3d_stages k fExpr c1Expr c2Expr polygonSet cfg with
    ⟨e, -, h'⟩ | ⟨_, e, -, -, h'⟩ | ⟨_, _, e, -, -, -, h'⟩ | ⟨_, _, _, e, -, -, -, -, hne, h'⟩ |
    ⟨_, _, _, _, -, -, -, -, ⟨e, -, h'⟩ | ⟨b, -, h'⟩ | ⟨ds, -, h'⟩⟩
  · exact Or.inr (Or.inl ⟨e, h'⟩)
  · exact Or.inr (Or.inl ⟨e, h'⟩)
  · exact Or.inr (Or.inl ⟨e, h'⟩)
  · exact Or.inr (Or.inr (Or.inl ⟨e, hne, h'⟩))
  · exact Or.inr (Or.inr (Or.inr (Or.inl ⟨e, h'⟩)))
  · exact Or.inr (Or.inr (Or.inr (Or.inr ⟨b, h'⟩)))
  · exact Or.inl ⟨ds, h'⟩

/-- **a `.tri e` result is the triangulator's error on the evaluated polygon set**: the four
    strings compile, and `sweep` returns `.error e` on `polysOf k pst` -/
theorem displayCav3d_tri (k : Consts α) (f c1 c2 ps : List Char) (cfg : Cfg3D α) (e : SErr α)
    (h : displayCav3d k f c1 c2 ps cfg = .error (.tri e)) :
    ∃ pst, compilePolygonSet defaultCtx ps = .ok pst ∧ sweep (polysOf k pst) = .error e := by
  rcases displayCav3d_stages k f c1 c2 ps cfg with
    ⟨e', -, h'⟩ | ⟨_, e', -, -, h'⟩ | ⟨_, _, e', -, -, -, h'⟩ | ⟨_, _, _, e', -, -, -, -, -, h'⟩ |
    ⟨_, _, _, pst, -, -, -, hp, ⟨e', hg, h'⟩ | ⟨b, -, h'⟩ | ⟨ds, -, h'⟩⟩
  all_goals rw [h'] at h
  all_goals first | (cases h; done) | skip
  cases h
  exact ⟨pst, hp, (genDisplayCav3_tri_iff _ _ _ _ _).1 hg⟩

/-- conversely: if the three expressions compile and the triangulator fails on the evaluated
    polygon set, the API reports exactly that error -/
theorem displayCav3d_tri_of_sweep (k : Consts α) (f c1 c2 ps : List Char) (cfg : Cfg3D α)
    {ft c1t c2t : E} {pst : List (List (E × E))} {e : SErr α}
    (hf : compile 2 fCtx3 f = .ok ft) (h1 : compile 1 cCtx3 c1 = .ok c1t)
    (h2 : compile 1 cCtx3 c2 = .ok c2t) (hp : compilePolygonSet defaultCtx ps = .ok pst)
    (hs : sweep (polysOf k pst) = .error e) :
    displayCav3d k f c1 c2 ps cfg = .error (.tri e) := by
  have hg := (genDisplayCav3_tri_iff (closure2 k ft) (closureC k c1t c2t) (polysOf k pst) cfg e).2 hs
  rcases displayCav3d_stages k f c1 c2 ps cfg with
    ⟨e', hf', h'⟩ | ⟨_, e', -, h1', h'⟩ | ⟨_, _, e', -, -, h2', h'⟩ | ⟨_, _, _, e', -, -, -, hp', -, h'⟩ |
    ⟨ft', c1t', c2t', pst', hf', h1', h2', hp', hh⟩
  · rw [hf] at hf'; cases hf'
  · rw [h1] at h1'; cases h1'
  · rw [h2] at h2'; cases h2'
  · rw [hp] at hp'; cases hp'
  · rw [hf] at hf'; rw [h1] at h1'; rw [h2] at h2'; rw [hp] at hp'
    cases hf'; cases h1'; cases h2'; cases hp'
    rcases hh with ⟨e', hg', h'⟩ | ⟨b, hg', h'⟩ | ⟨ds, hg', h'⟩
    · rw [hg] at hg'; cases hg'; exact h'
    · rw [hg] at hg'; cases hg'
    · rw [hg] at hg'; cases hg'

/-- **faithfulness of success (3-D)**: the API returns `ds` iff the four strings compile and the
    closure-level generator returns `ds` on the closures of the compiled trees and the evaluated
    polygon set -/
theorem displayCav3d_ok_iff (k : Consts α) (f c1 c2 ps : List Char) (cfg : Cfg3D α)
    (ds : List (Disp3D α)) :
    displayCav3d k f c1 c2 ps cfg = .ok ds ↔
      ∃ ft c1t c2t pst, compile 2 fCtx3 f = .ok ft ∧ compile 1 cCtx3 c1 = .ok c1t ∧
        compile 1 cCtx3 c2 = .ok c2t ∧ compilePolygonSet defaultCtx ps = .ok pst ∧
        genDisplayCav3 (closure2 k ft) (closureC k c1t c2t) (polysOf k pst) cfg = .ok ds := by
  constructor
  · intro h
    rcases displayCav3d_stages k f c1 c2 ps cfg with
      ⟨e', -, h'⟩ | ⟨_, e', -, -, h'⟩ | ⟨_, _, e', -, -, -, h'⟩ | ⟨_, _, _, e', -, -, -, -, -, h'⟩ |
      ⟨ft, c1t, c2t, pst, hf, h1, h2, hp, ⟨e', -, h'⟩ | ⟨b, -, h'⟩ | ⟨ds', hg, h'⟩⟩
    all_goals rw [h'] at h
    all_goals first | (cases h; done) | skip
    cases h
    exact ⟨ft, c1t, c2t, pst, hf, h1, h2, hp, hg⟩
  · rintro ⟨ft, c1t, c2t, pst, hf, h1, h2, hp, hg⟩
    rcases displayCav3d_stages k f c1 c2 ps cfg with
      ⟨e', hf', h'⟩ | ⟨_, e', -, h1', h'⟩ | ⟨_, _, e', -, -, h2', h'⟩ | ⟨_, _, _, e', -, -, -, hp', -, h'⟩ |
      ⟨ft', c1t', c2t', pst', hf', h1', h2', hp', hh⟩
    · rw [hf] at hf'; cases hf'
    · rw [h1] at h1'; cases h1'
    · rw [h2] at h2'; cases h2'
    · rw [hp] at hp'; cases hp'
    · rw [hf] at hf'; rw [h1] at h1'; rw [h2] at h2'; rw [hp] at hp'
      cases hf'; cases h1'; cases h2'; cases hp'
      rcases hh with ⟨e', hg', h'⟩ | ⟨b, hg', h'⟩ | ⟨ds', hg', h'⟩
      · rw [hg] at hg'; cases hg'
      · rw [hg] at hg'; cases hg'
      · rw [hg] at hg'; cases hg'; exact h'

/-- **over `XQ`, for ALL strings: the only panic `display_cav3d` can report is the `RefCell`
    borrow panic of the triangulator** (`C15Heap.sweep_panic_only_borrow`) -/
theorem displayCav3d_tri_panic_only_borrow (k : Consts XQ) (f c1 c2 ps : List Char)
    (cfg : Cfg3D XQ) (kk : String)
    (h : displayCav3d k f c1 c2 ps cfg = .error (.tri (.panic kk))) : kk = "borrow" := by
  obtain ⟨pst, -, hs⟩ := displayCav3d_tri k f c1 c2 ps cfg _ h
  exact C15Heap.sweep_panic_only_borrow _ _ hs

/-- closure level: under `GeneralV polys` the 3-D generator never reports a triangulator panic
    (nor `oof`) on `toInput polys`, for any closures and configuration -/
theorem genDisplayCav3_no_panic_of_generalV (f : AD XQ × AD XQ → AD XQ) (c : AD XQ → AD XQ × AD XQ)
    (polys : List (Array (Rat × Rat))) (hg : C16GeneralV.GeneralV polys) (cfg : Cfg3D XQ) :
    (∀ kk, genDisplayCav3 f c (C16GeneralV.toInput polys) cfg ≠ .error (.tri (.panic kk))) ∧
    genDisplayCav3 f c (C16GeneralV.toInput polys) cfg ≠ .error (.tri .oof) := by
  constructor
  · intro kk h
    exact (C15GeneralV.general_never_panics_V polys hg kk).1 ((genDisplayCav3_tri_iff _ _ _ _ _).1 h)
  · intro h
    exact (C15GeneralV.general_never_oof_V polys hg).1 ((genDisplayCav3_tri_iff _ _ _ _ _).1 h)

/-- closure level: under `GeneralV polys` every triangulation error of the 3-D generator is an
    overlap at an input point -/
theorem genDisplayCav3_tri_is_overlap_of_generalV (f : AD XQ × AD XQ → AD XQ)
    (c : AD XQ → AD XQ × AD XQ) (polys : List (Array (Rat × Rat)))
    (hg : C16GeneralV.GeneralV polys) (cfg : Cfg3D XQ) (e : SErr XQ)
    (h : genDisplayCav3 f c (C16GeneralV.toInput polys) cfg = .error (.tri e)) :
    ∃ kd p, e = .overlap kd p ∧ C16GeneralV.IsInput polys p :=
  C15GeneralV.general_error_is_overlap_V polys hg (Or.inl ((genDisplayCav3_tri_iff _ _ _ _ _).1 h))

/-- **string level, over `XQ`: no panic of any kind when the polygon-set string denotes a
    general-position input.**  Hypothesis: whenever the polygon-set string is accepted, the
    polygons handed to the generator are `toInput polys` (finite rational points) for some
    `polys` with `GeneralV polys`.  Then the result is not `.panic` and not `.tri (.panic _)`;
    a triangulation error, if any, is an overlap at an input point. -/
theorem displayCav3d_never_panics_of_generalV (k : Consts XQ) (f c1 c2 ps : List Char)
    (cfg : Cfg3D XQ)
    (hg : ∀ pst, compilePolygonSet defaultCtx ps = .ok pst →
      ∃ polys, polysOf k pst = C16GeneralV.toInput polys ∧ C16GeneralV.GeneralV polys) :
    displayCav3d k f c1 c2 ps cfg ≠ .error .panic ∧
    (∀ kk, displayCav3d k f c1 c2 ps cfg ≠ .error (.tri (.panic kk))) ∧
    (∀ e, displayCav3d k f c1 c2 ps cfg = .error (.tri e) → ∃ kd p, e = .overlap kd p) := by
  have key : ∀ e, displayCav3d k f c1 c2 ps cfg = .error (.tri e) → ∃ kd p, e = .overlap kd p := by
    intro e h
    obtain ⟨pst, hp, hs⟩ := displayCav3d_tri k f c1 c2 ps cfg e h
    obtain ⟨polys, hpo, hgv⟩ := hg pst hp
    rw [hpo] at hs
    obtain ⟨kd, p, he, -⟩ := C15GeneralV.general_error_is_overlap_V polys hgv (Or.inl hs)
    exact ⟨kd, p, he⟩
  refine ⟨displayCav3d_no_api_panic k f c1 c2 ps cfg, ?_, key⟩
  intro kk h
  obtain ⟨_, _, he⟩ := key _ h
  cases he

/-! ## non-vacuity: concrete strings, evaluated by the kernel -/

/-- constants used in the examples (rational stand-ins for `pi`, `e`) -/
def kQ : Consts Rat := ⟨22/7, 19/7⟩
def kX : Consts XQ := ⟨.fin (22/7), .fin (19/7)⟩

/-- `xRes = yRes = 2`, one intermediate curve, no integration -/
def cfgQ : Cfg2D Rat := ⟨false, 2, 2, 1, 20, 20, 1/100⟩

/-- observable summary of a 2-D result: end points of the displays, or the stage of the error -/
inductive Obs2 where
  | ok (ends : List (Rat × Rat))
  | parse (e : CompileErr)
  | list (e : ListErr)
  | disp (e : DispErr)
  | panic
  | other
  deriving DecidableEq

def obs2 (r : Except (ApiErr Rat) (List (Disp2D Rat))) : Obs2 :=
  match r with
  | .ok ds => .ok (ds.map fun d => (d.a, d.b))
  | .error (.parse e) => .parse e
  | .error (.list e) => .list e
  | .error (.disp e) => .disp e
  | .error .panic => .panic
  | .error _ => .other

theorem obs2_parse {r : Except (ApiErr Rat) (List (Disp2D Rat))} {e : CompileErr}
    (h : obs2 r = .parse e) : r = .error (.parse e) := by
  unfold obs2 at h
  split at h <;> cases h
  rfl

theorem obs2_list {r : Except (ApiErr Rat) (List (Disp2D Rat))} {e : ListErr}
    (h : obs2 r = .list e) : r = .error (.list e) := by
  unfold obs2 at h
  split at h <;> cases h
  rfl

theorem obs2_disp {r : Except (ApiErr Rat) (List (Disp2D Rat))} {e : DispErr}
    (h : obs2 r = .disp e) : r = .error (.disp e) := by
  unfold obs2 at h
  split at h <;> cases h
  rfl

theorem obs2_ok {r : Except (ApiErr Rat) (List (Disp2D Rat))} {l : List (Rat × Rat)}
    (h : obs2 r = .ok l) : ∃ ds, r = .ok ds ∧ ds.map (fun d => (d.a, d.b)) = l := by
  unfold obs2 at h
  split at h <;> cases h
  exact ⟨_, rfl, rfl⟩

/-- `f(x) = x`, `c(y) = y/2`, `[0,1]`: `g(x) = x/2` is strictly monotone, one display on `[0,1]` -/
theorem ex2d_ok : ∃ ds, displayCav2d kQ false "x".toList "y/2".toList "[0,1]".toList cfgQ = .ok ds ∧
    ds.map (fun d => (d.a, d.b)) = [(0, 1)] :=
  obs2_ok (by decide +kernel)

/-- the Riemann–Stieltjes entry point: both strings use `x` -/
theorem ex2d_rs_ok : ∃ ds, displayCav2d kQ true "x".toList "x/2".toList "[0, 1], [2, pi]".toList cfgQ = .ok ds ∧
    ds.map (fun d => (d.a, d.b)) = [(0, 1), (2, 22/7)] :=
  obs2_ok (by decide +kernel)

/-- `f(x) = x`, `c(y) = y·y`: `g(x) = x − x²` is not monotone on `[0,1]`; the interval is split
    at the grid point `1/2` (the run of `Lemmas/DispExamples.lean`, through the strings) -/
theorem ex2d_split : ∃ ds, displayCav2d kQ false "x".toList "y*y".toList "[0,1]".toList cfgQ = .ok ds ∧
    ds.map (fun d => (d.a, d.b)) = [(0, 1/2), (1/2, 1)] :=
  obs2_ok (by decide +kernel)

/-- integration requested with `max_int_iters = 0`: the generator's convergence error, as a value -/
theorem ex2d_disp : displayCav2d kQ false "x".toList "y*y".toList "[0,1]".toList
    ⟨true, 2, 2, 1, 20, 0, 1/100⟩ = .error (.disp (.integ true)) :=
  obs2_disp (by decide +kernel)

/-- a malformed integrand: parse error -/
theorem ex2d_parse : displayCav2d kQ false "x+".toList "y/2".toList "[0,1]".toList cfgQ =
    .error (.parse .parsing) :=
  obs2_parse (by decide +kernel)

/-- `y` is not a name of the integrand's context (and `x` not of the c-curve's in `display_cav2d`) -/
theorem ex2d_parse_c : displayCav2d kQ false "x".toList "x/2".toList "[0,1]".toList cfgQ =
    .error (.parse .parsing) :=
  obs2_parse (by decide +kernel)

/-- **a variable in an interval entry is a list error, not a panic** -/
theorem ex2d_var_in_list : displayCav2d kQ false "x".toList "y/2".toList "[x,1]".toList cfgQ =
    .error (.list .parsing) :=
  obs2_list (by decide +kernel)

theorem ex2d_list_residue : displayCav2d kQ false "x".toList "y/2".toList "[0,1][2,3]".toList cfgQ =
    .error (.list .residue) :=
  obs2_list (by decide +kernel)

/-- the `panic` branch of the model is a real branch of `evalEntries`: a tree with a variable
    does not evaluate on `[]` — what excludes it is C18 (such a tree is never returned) -/
example : evalEntries kQ [(.var 0, .lit 1 0)] = none := rfl
example : evalEntries kQ [(.lit 0 0, .bin .div (.cst "pi") (.lit 2 0))] = some [(0, 11/7)] := by
  decide +kernel

/-- the theorems on these inputs -/
example : displayCav2d kQ false "x".toList "y/2".toList "[x,1]".toList cfgQ ≠ .error .panic :=
  displayCav2d_never_panics _ _ _ _ _ _

/-! ### 3-D -/

def cfgX : Cfg3D XQ := ⟨false, 2, 2, 2, 20, .fin (1/100)⟩

inductive Obs3 where
  | ok (n : Nat)
  | parse (e : CompileErr)
  | list (e : ListErr)
  | tri (e : SErr XQ)
  | integ (b : Bool)
  | panic
  | other

deriving instance DecidableEq for Obs3

def obs3 (r : Except (ApiErr XQ) (List (Disp3D XQ))) : Obs3 :=
  match r with
  | .ok ds => .ok ds.length
  | .error (.parse e) => .parse e
  | .error (.list e) => .list e
  | .error (.tri e) => .tri e
  | .error (.integ b) => .integ b
  | .error .panic => .panic
  | .error _ => .other

theorem obs3_ok {r : Except (ApiErr XQ) (List (Disp3D XQ))} {n : Nat}
    (h : obs3 r = .ok n) : ∃ ds, r = .ok ds ∧ ds.length = n := by
  unfold obs3 at h
  split at h <;> cases h
  exact ⟨_, rfl, rfl⟩

theorem obs3_list {r : Except (ApiErr XQ) (List (Disp3D XQ))} {e : ListErr}
    (h : obs3 r = .list e) : r = .error (.list e) := by
  unfold obs3 at h
  split at h <;> cases h
  rfl

theorem obs3_parse {r : Except (ApiErr XQ) (List (Disp3D XQ))} {e : CompileErr}
    (h : obs3 r = .parse e) : r = .error (.parse e) := by
  unfold obs3 at h
  split at h <;> cases h
  rfl

theorem obs3_tri {r : Except (ApiErr XQ) (List (Disp3D XQ))} {e : SErr XQ}
    (h : obs3 r = .tri e) : r = .error (.tri e) := by
  unfold obs3 at h
  split at h <;> cases h
  rfl

theorem obs3_integ {r : Except (ApiErr XQ) (List (Disp3D XQ))} {b : Bool}
    (h : obs3 r = .integ b) : r = .error (.integ b) := by
  unfold obs3 at h
  split at h <;> cases h
  rfl

/-- the unit square: two triangles, two displays -/
theorem ex3d_ok : ∃ ds, displayCav3d kX "x+y".toList "z".toList "z/2".toList
    "[[0,0],[1,0],[1,1],[0,1]]".toList cfgX = .ok ds ∧ ds.length = 2 :=
  obs3_ok (by decide +kernel)

/-- a variable in a polygon entry: list error, not a panic -/
theorem ex3d_var_in_list : displayCav3d kX "x+y".toList "z".toList "z/2".toList
    "[[0,0],[1,0],[x,1]]".toList cfgX = .error (.list .parsing) :=
  obs3_list (by decide +kernel)

/-- `z` is not a name of the integrand's context -/
theorem ex3d_parse : displayCav3d kX "x+z".toList "z".toList "z/2".toList
    "[[0,0],[1,0],[0,1]]".toList cfgX = .error (.parse .parsing) :=
  obs3_parse (by decide +kernel)

/-- three collinear points: a triangulation error value (`C15Heap`'s example, through the API) -/
theorem ex3d_tri : displayCav3d kX "x+y".toList "z".toList "z/2".toList
    "[[0,2],[0,1],[0,0]]".toList cfgX = .error (.tri (.overlap .end_ (F 0 2))) :=
  obs3_tri (by decide +kernel)

/-- integration requested with `max_int_iters = 0`: convergence error, as a value -/
theorem ex3d_integ_conv : displayCav3d kX "x+y".toList "z".toList "z/2".toList
    "[[0,0],[1,0],[1,1],[0,1]]".toList ⟨true, 2, 2, 2, 0, .fin (1/100)⟩ = .error (.integ true) :=
  obs3_integ (by decide +kernel)

/-- a NaN integrand (`sin` is NaN over `XQ`): the NaN error of the integrator, as a value -/
theorem ex3d_integ_nan : displayCav3d kX "sin(x)".toList "z".toList "z/2".toList
    "[[0,0],[1,0],[1,1],[0,1]]".toList ⟨true, 2, 2, 2, 3, .fin (1/100)⟩ = .error (.integ false) :=
  obs3_integ (by decide +kernel)

/-- the hypothesis of `displayCav3d_never_panics_of_generalV` holds for the unit square string -/
theorem ex3d_generalV_hyp : ∀ pst, compilePolygonSet defaultCtx "[[0,0],[1,0],[1,1],[0,1]]".toList = .ok pst →
    ∃ polys, polysOf kX pst = C16GeneralV.toInput polys ∧ C16GeneralV.GeneralV polys := by
  intro pst h
  have h0 : compilePolygonSet defaultCtx "[[0,0],[1,0],[1,1],[0,1]]".toList =
      .ok [[(.lit 0 0, .lit 0 0), (.lit 1 0, .lit 0 0), (.lit 1 0, .lit 1 0), (.lit 0 0, .lit 1 0)]] :=
    C18.of_lokIs (by decide +kernel)
  rw [h0] at h
  cases h
  refine ⟨[#[(0, 0), (1, 0), (1, 1), (0, 1)]], by decide +kernel, by decide +kernel⟩

example (f c1 c2 : List Char) (cfg : Cfg3D XQ) : ∀ kk,
    displayCav3d kX f c1 c2 "[[0,0],[1,0],[1,1],[0,1]]".toList cfg ≠ .error (.tri (.panic kk)) :=
  (displayCav3d_never_panics_of_generalV kX f c1 c2 _ cfg ex3d_generalV_hyp).2.1

end Cav.C19Total
