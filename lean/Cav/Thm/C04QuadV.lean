/-
  C04 (every valid polygon set is accepted) for a single SIMPLE QUADRILATERAL — all positions:
  the hypothesis "pairwise distinct abscissae" of `Cav.C04Quad.quad_accepted` is dropped.
  Vertical edges, vertically aligned vertices (e.g. the darts (0,0),(3,1),(0,2),(1,1) and its
  mirror image) are covered; the vertices are processed in lexicographic order and the
  vertical-edge tie-breaks of the comparator (`tieGrad`, the common-right-end rule,
  `verticalIsCrossed`, the equal-abscissa branch of `willOverlapBot/Top`) come into play.

  Proof: the ten event chains re-evaluated with `verticalIsCrossed` / `willOverlap*` abstracted
  into pure mirrors (`QuadVRun.lean`, `QuadVEvents{O,A,Z}.lean`: the chains do not depend on
  which abscissae coincide), the geometric tests in lexicographic position (`QuadVGeom.lean`,
  `QuadVFlows.lean`), the sign analysis transported by a small shear (`QuadVCases.lean`), and
  here the 24 lexicographic orders of the corners.
-/
import Cav.Thm.C04Quad
import Cav.Lemmas.QuadVCases

set_option linter.unusedSimpArgs false
set_option linter.unusedVariables false
set_option linter.unusedTactic false
set_option linter.unreachableTactic false

namespace Cav.C04QuadV
open Cav Num Cav.Geo Cav.Sweep Cav.SweepSetup Cav.TriRun Cav.QuadRun Cav.QuadVRun Cav.QuadGeom
  Cav.QuadSetup Cav.QuadCases Cav.QuadVCases Cav.QuadVFlows Cav.C04Quad

local macro "sym8" h:ident : tactic =>
  `(tactic| (first
      | exact $h
      | exact ($h).rot
      | exact ($h).rot.rot
      | exact ($h).rot.rot.rot
      | exact ($h).rev
      | exact ($h).rev.rot
      | exact ($h).rev.rot.rot
      | exact ($h).rev.rot.rot.rot))

/-- the quadrilateral with corners `P 0, P 1, P 2, P 3` (input order) whose corners increase
    lexicographically along the input positions `i1, i2, i3, i4` -/
theorem quad_sortedV (P : Nat → Rat × Rat) (i1 i2 i3 i4 : Nat)
    (hperm : (i1 = 0 ∧ i2 = 1 ∧ i3 = 2 ∧ i4 = 3) ∨
      (i1 = 0 ∧ i2 = 1 ∧ i3 = 3 ∧ i4 = 2) ∨
      (i1 = 0 ∧ i2 = 2 ∧ i3 = 1 ∧ i4 = 3) ∨
      (i1 = 0 ∧ i2 = 2 ∧ i3 = 3 ∧ i4 = 1) ∨
      (i1 = 0 ∧ i2 = 3 ∧ i3 = 1 ∧ i4 = 2) ∨
      (i1 = 0 ∧ i2 = 3 ∧ i3 = 2 ∧ i4 = 1) ∨
      (i1 = 1 ∧ i2 = 0 ∧ i3 = 2 ∧ i4 = 3) ∨
      (i1 = 1 ∧ i2 = 0 ∧ i3 = 3 ∧ i4 = 2) ∨
      (i1 = 1 ∧ i2 = 2 ∧ i3 = 0 ∧ i4 = 3) ∨
      (i1 = 1 ∧ i2 = 2 ∧ i3 = 3 ∧ i4 = 0) ∨
      (i1 = 1 ∧ i2 = 3 ∧ i3 = 0 ∧ i4 = 2) ∨
      (i1 = 1 ∧ i2 = 3 ∧ i3 = 2 ∧ i4 = 0) ∨
      (i1 = 2 ∧ i2 = 0 ∧ i3 = 1 ∧ i4 = 3) ∨
      (i1 = 2 ∧ i2 = 0 ∧ i3 = 3 ∧ i4 = 1) ∨
      (i1 = 2 ∧ i2 = 1 ∧ i3 = 0 ∧ i4 = 3) ∨
      (i1 = 2 ∧ i2 = 1 ∧ i3 = 3 ∧ i4 = 0) ∨
      (i1 = 2 ∧ i2 = 3 ∧ i3 = 0 ∧ i4 = 1) ∨
      (i1 = 2 ∧ i2 = 3 ∧ i3 = 1 ∧ i4 = 0) ∨
      (i1 = 3 ∧ i2 = 0 ∧ i3 = 1 ∧ i4 = 2) ∨
      (i1 = 3 ∧ i2 = 0 ∧ i3 = 2 ∧ i4 = 1) ∨
      (i1 = 3 ∧ i2 = 1 ∧ i3 = 0 ∧ i4 = 2) ∨
      (i1 = 3 ∧ i2 = 1 ∧ i3 = 2 ∧ i4 = 0) ∨
      (i1 = 3 ∧ i2 = 2 ∧ i3 = 0 ∧ i4 = 1) ∨
      (i1 = 3 ∧ i2 = 2 ∧ i3 = 1 ∧ i4 = 0))
    (l12 : lexLt (P i1) (P i2)) (l23 : lexLt (P i2) (P i3)) (l34 : lexLt (P i3) (P i4))
    (hs : SimpleQuad (P 0) (P 1) (P 2) (P 3)) :
    ∃ t1 t2, sweepMon [#[Fq (P 0), Fq (P 1), Fq (P 2), Fq (P 3)]] = .ok ([t1, t2], true) ∧
      QuadGood (P 0) (P 1) (P 2) (P 3) t1 t2 := by
  rcases hperm with ⟨rfl, rfl, rfl, rfl⟩ | ⟨rfl, rfl, rfl, rfl⟩ | ⟨rfl, rfl, rfl, rfl⟩ | ⟨rfl, rfl, rfl, rfl⟩ | ⟨rfl, rfl, rfl, rfl⟩ | ⟨rfl, rfl, rfl, rfl⟩ | ⟨rfl, rfl, rfl, rfl⟩ | ⟨rfl, rfl, rfl, rfl⟩ | ⟨rfl, rfl, rfl, rfl⟩ | ⟨rfl, rfl, rfl, rfl⟩ | ⟨rfl, rfl, rfl, rfl⟩ | ⟨rfl, rfl, rfl, rfl⟩ | ⟨rfl, rfl, rfl, rfl⟩ | ⟨rfl, rfl, rfl, rfl⟩ | ⟨rfl, rfl, rfl, rfl⟩ | ⟨rfl, rfl, rfl, rfl⟩ | ⟨rfl, rfl, rfl, rfl⟩ | ⟨rfl, rfl, rfl, rfl⟩ | ⟨rfl, rfl, rfl, rfl⟩ | ⟨rfl, rfl, rfl, rfl⟩ | ⟨rfl, rfl, rfl, rfl⟩ | ⟨rfl, rfl, rfl, rfl⟩ | ⟨rfl, rfl, rfl, rfl⟩ | ⟨rfl, rfl, rfl, rfl⟩
  · -- lexicographic order along the input positions (0, 1, 2, 3): ring `A`
    obtain ⟨f1, f2, f3, f4, c11, c12, c13, c14, c21, c22, c23, c24, c31, c32, c33, c34, c41, c42, c43, c44, e12, e13, e14, e21, e23, e24, e31, e32, e34, e41, e42, e43⟩ := ord4L_fin (P 0) (P 1) (P 2) (P 3) l12 l23 l34
    have hsq : SimpleQuad (P 0) (P 1) (P 2) (P 3) := by sym8 hs
    obtain ⟨s', t1, t2, hr, ho, hm, hg⟩ := ringAV_run true
      (ringQ (Fq (P 0)) (Fq (P 1)) (Fq (P 2)) (Fq (P 3))) 0 1 2 3 (P 0) (P 1) (P 2) (P 3)
      rfl rfl rfl rfl l12 l23 l34 hsq
    refine ⟨t1, t2, sweepMon_quad (setup_quad _ _ _ _ [(0, [])] .start .bend .bend .end_
      (validPt_fq _ _ (by simp)) (validPt_fq _ _ (by simp [f1, f2, f3, f4, c11, c12, c13, c14, c21, c22, c23, c24, c31, c32, c33, c34, c41, c42, c43, c44, e12, e13, e14, e21, e23, e24, e31, e32, e34, e41, e42, e43]))
      (validPt_fq _ _ (by simp [f1, f2, f3, f4, c11, c12, c13, c14, c21, c22, c23, c24, c31, c32, c33, c34, c41, c42, c43, c44, e12, e13, e14, e21, e23, e24, e31, e32, e34, e41, e42, e43])) (validPt_fq _ _ (by simp [f1, f2, f3, f4, c11, c12, c13, c14, c21, c22, c23, c24, c31, c32, c33, c34, c41, c42, c43, c44, e12, e13, e14, e21, e23, e24, e31, e32, e34, e41, e42, e43]))
      (by simp [fromTriplet, Pt.lt, Pt.gt, f1, f2, f3, f4, c11, c12, c13, c14, c21, c22, c23, c24, c31, c32, c33, c34, c41, c42, c43, c44, e12, e13, e14, e21, e23, e24, e31, e32, e34, e41, e42, e43]) (by simp [fromTriplet, Pt.lt, Pt.gt, f1, f2, f3, f4, c11, c12, c13, c14, c21, c22, c23, c24, c31, c32, c33, c34, c41, c42, c43, c44, e12, e13, e14, e21, e23, e24, e31, e32, e34, e41, e42, e43]) (by simp [fromTriplet, Pt.lt, Pt.gt, f1, f2, f3, f4, c11, c12, c13, c14, c21, c22, c23, c24, c31, c32, c33, c34, c41, c42, c43, c44, e12, e13, e14, e21, e23, e24, e31, e32, e34, e41, e42, e43]) (by simp [fromTriplet, Pt.lt, Pt.gt, f1, f2, f3, f4, c11, c12, c13, c14, c21, c22, c23, c24, c31, c32, c33, c34, c41, c42, c43, c44, e12, e13, e14, e21, e23, e24, e31, e32, e34, e41, e42, e43])
      (by simp [f1, f2, f3, f4, c11, c12, c13, c14, c21, c22, c23, c24, c31, c32, c33, c34, c41, c42, c43, c44, e12, e13, e14, e21, e23, e24, e31, e32, e34, e41, e42, e43])) hr ho hm, ?_⟩
    sym8 hg
  · -- lexicographic order along the input positions (0, 1, 3, 2): ring `O`
    obtain ⟨f1, f2, f3, f4, c11, c12, c13, c14, c21, c22, c23, c24, c31, c32, c33, c34, c41, c42, c43, c44, e12, e13, e14, e21, e23, e24, e31, e32, e34, e41, e42, e43⟩ := ord4L_fin (P 0) (P 1) (P 3) (P 2) l12 l23 l34
    have hsq : SimpleQuad (P 0) (P 1) (P 2) (P 3) := by sym8 hs
    obtain ⟨s', t1, t2, hr, ho, hm, hg⟩ := ringOV_run false
      (ringQ (Fq (P 0)) (Fq (P 1)) (Fq (P 2)) (Fq (P 3))) 0 1 3 2 (P 0) (P 1) (P 3) (P 2)
      rfl rfl rfl rfl l12 l23 l34 hsq
    refine ⟨t1, t2, sweepMon_quad (setup_quad _ _ _ _ [(0, [])] .start .bend .end_ .bend
      (validPt_fq _ _ (by simp)) (validPt_fq _ _ (by simp [f1, f2, f3, f4, c11, c12, c13, c14, c21, c22, c23, c24, c31, c32, c33, c34, c41, c42, c43, c44, e12, e13, e14, e21, e23, e24, e31, e32, e34, e41, e42, e43]))
      (validPt_fq _ _ (by simp [f1, f2, f3, f4, c11, c12, c13, c14, c21, c22, c23, c24, c31, c32, c33, c34, c41, c42, c43, c44, e12, e13, e14, e21, e23, e24, e31, e32, e34, e41, e42, e43])) (validPt_fq _ _ (by simp [f1, f2, f3, f4, c11, c12, c13, c14, c21, c22, c23, c24, c31, c32, c33, c34, c41, c42, c43, c44, e12, e13, e14, e21, e23, e24, e31, e32, e34, e41, e42, e43]))
      (by simp [fromTriplet, Pt.lt, Pt.gt, f1, f2, f3, f4, c11, c12, c13, c14, c21, c22, c23, c24, c31, c32, c33, c34, c41, c42, c43, c44, e12, e13, e14, e21, e23, e24, e31, e32, e34, e41, e42, e43]) (by simp [fromTriplet, Pt.lt, Pt.gt, f1, f2, f3, f4, c11, c12, c13, c14, c21, c22, c23, c24, c31, c32, c33, c34, c41, c42, c43, c44, e12, e13, e14, e21, e23, e24, e31, e32, e34, e41, e42, e43]) (by simp [fromTriplet, Pt.lt, Pt.gt, f1, f2, f3, f4, c11, c12, c13, c14, c21, c22, c23, c24, c31, c32, c33, c34, c41, c42, c43, c44, e12, e13, e14, e21, e23, e24, e31, e32, e34, e41, e42, e43]) (by simp [fromTriplet, Pt.lt, Pt.gt, f1, f2, f3, f4, c11, c12, c13, c14, c21, c22, c23, c24, c31, c32, c33, c34, c41, c42, c43, c44, e12, e13, e14, e21, e23, e24, e31, e32, e34, e41, e42, e43])
      (by simp [f1, f2, f3, f4, c11, c12, c13, c14, c21, c22, c23, c24, c31, c32, c33, c34, c41, c42, c43, c44, e12, e13, e14, e21, e23, e24, e31, e32, e34, e41, e42, e43])) hr ho hm, ?_⟩
    sym8 hg
  · -- lexicographic order along the input positions (0, 2, 1, 3): ring `Z`
    obtain ⟨f1, f2, f3, f4, c11, c12, c13, c14, c21, c22, c23, c24, c31, c32, c33, c34, c41, c42, c43, c44, e12, e13, e14, e21, e23, e24, e31, e32, e34, e41, e42, e43⟩ := ord4L_fin (P 0) (P 2) (P 1) (P 3) l12 l23 l34
    have hsq : SimpleQuad (P 0) (P 1) (P 2) (P 3) := by sym8 hs
    obtain ⟨s', t1, t2, hr, ho, hm, hg⟩ := ringZV_run true
      (ringQ (Fq (P 0)) (Fq (P 1)) (Fq (P 2)) (Fq (P 3))) 0 2 1 3 (P 0) (P 2) (P 1) (P 3)
      rfl rfl rfl rfl l12 l23 l34 hsq
    refine ⟨t1, t2, sweepMon_quad (setup_quad _ _ _ _ [(0, []), (2, [])] .start .end_ .start .end_
      (validPt_fq _ _ (by simp)) (validPt_fq _ _ (by simp [f1, f2, f3, f4, c11, c12, c13, c14, c21, c22, c23, c24, c31, c32, c33, c34, c41, c42, c43, c44, e12, e13, e14, e21, e23, e24, e31, e32, e34, e41, e42, e43]))
      (validPt_fq _ _ (by simp [f1, f2, f3, f4, c11, c12, c13, c14, c21, c22, c23, c24, c31, c32, c33, c34, c41, c42, c43, c44, e12, e13, e14, e21, e23, e24, e31, e32, e34, e41, e42, e43])) (validPt_fq _ _ (by simp [f1, f2, f3, f4, c11, c12, c13, c14, c21, c22, c23, c24, c31, c32, c33, c34, c41, c42, c43, c44, e12, e13, e14, e21, e23, e24, e31, e32, e34, e41, e42, e43]))
      (by simp [fromTriplet, Pt.lt, Pt.gt, f1, f2, f3, f4, c11, c12, c13, c14, c21, c22, c23, c24, c31, c32, c33, c34, c41, c42, c43, c44, e12, e13, e14, e21, e23, e24, e31, e32, e34, e41, e42, e43]) (by simp [fromTriplet, Pt.lt, Pt.gt, f1, f2, f3, f4, c11, c12, c13, c14, c21, c22, c23, c24, c31, c32, c33, c34, c41, c42, c43, c44, e12, e13, e14, e21, e23, e24, e31, e32, e34, e41, e42, e43]) (by simp [fromTriplet, Pt.lt, Pt.gt, f1, f2, f3, f4, c11, c12, c13, c14, c21, c22, c23, c24, c31, c32, c33, c34, c41, c42, c43, c44, e12, e13, e14, e21, e23, e24, e31, e32, e34, e41, e42, e43]) (by simp [fromTriplet, Pt.lt, Pt.gt, f1, f2, f3, f4, c11, c12, c13, c14, c21, c22, c23, c24, c31, c32, c33, c34, c41, c42, c43, c44, e12, e13, e14, e21, e23, e24, e31, e32, e34, e41, e42, e43])
      (by simp [f1, f2, f3, f4, c11, c12, c13, c14, c21, c22, c23, c24, c31, c32, c33, c34, c41, c42, c43, c44, e12, e13, e14, e21, e23, e24, e31, e32, e34, e41, e42, e43])) hr ho hm, ?_⟩
    sym8 hg
  · -- lexicographic order along the input positions (0, 2, 3, 1): ring `Z`
    obtain ⟨f1, f2, f3, f4, c11, c12, c13, c14, c21, c22, c23, c24, c31, c32, c33, c34, c41, c42, c43, c44, e12, e13, e14, e21, e23, e24, e31, e32, e34, e41, e42, e43⟩ := ord4L_fin (P 0) (P 2) (P 3) (P 1) l12 l23 l34
    have hsq : SimpleQuad (P 0) (P 3) (P 2) (P 1) := by sym8 hs
    obtain ⟨s', t1, t2, hr, ho, hm, hg⟩ := ringZV_run false
      (ringQ (Fq (P 0)) (Fq (P 1)) (Fq (P 2)) (Fq (P 3))) 0 2 3 1 (P 0) (P 2) (P 3) (P 1)
      rfl rfl rfl rfl l12 l23 l34 hsq
    refine ⟨t1, t2, sweepMon_quad (setup_quad _ _ _ _ [(0, []), (2, [])] .start .end_ .start .end_
      (validPt_fq _ _ (by simp)) (validPt_fq _ _ (by simp [f1, f2, f3, f4, c11, c12, c13, c14, c21, c22, c23, c24, c31, c32, c33, c34, c41, c42, c43, c44, e12, e13, e14, e21, e23, e24, e31, e32, e34, e41, e42, e43]))
      (validPt_fq _ _ (by simp [f1, f2, f3, f4, c11, c12, c13, c14, c21, c22, c23, c24, c31, c32, c33, c34, c41, c42, c43, c44, e12, e13, e14, e21, e23, e24, e31, e32, e34, e41, e42, e43])) (validPt_fq _ _ (by simp [f1, f2, f3, f4, c11, c12, c13, c14, c21, c22, c23, c24, c31, c32, c33, c34, c41, c42, c43, c44, e12, e13, e14, e21, e23, e24, e31, e32, e34, e41, e42, e43]))
      (by simp [fromTriplet, Pt.lt, Pt.gt, f1, f2, f3, f4, c11, c12, c13, c14, c21, c22, c23, c24, c31, c32, c33, c34, c41, c42, c43, c44, e12, e13, e14, e21, e23, e24, e31, e32, e34, e41, e42, e43]) (by simp [fromTriplet, Pt.lt, Pt.gt, f1, f2, f3, f4, c11, c12, c13, c14, c21, c22, c23, c24, c31, c32, c33, c34, c41, c42, c43, c44, e12, e13, e14, e21, e23, e24, e31, e32, e34, e41, e42, e43]) (by simp [fromTriplet, Pt.lt, Pt.gt, f1, f2, f3, f4, c11, c12, c13, c14, c21, c22, c23, c24, c31, c32, c33, c34, c41, c42, c43, c44, e12, e13, e14, e21, e23, e24, e31, e32, e34, e41, e42, e43]) (by simp [fromTriplet, Pt.lt, Pt.gt, f1, f2, f3, f4, c11, c12, c13, c14, c21, c22, c23, c24, c31, c32, c33, c34, c41, c42, c43, c44, e12, e13, e14, e21, e23, e24, e31, e32, e34, e41, e42, e43])
      (by simp [f1, f2, f3, f4, c11, c12, c13, c14, c21, c22, c23, c24, c31, c32, c33, c34, c41, c42, c43, c44, e12, e13, e14, e21, e23, e24, e31, e32, e34, e41, e42, e43])) hr ho hm, ?_⟩
    sym8 hg
  · -- lexicographic order along the input positions (0, 3, 1, 2): ring `O`
    obtain ⟨f1, f2, f3, f4, c11, c12, c13, c14, c21, c22, c23, c24, c31, c32, c33, c34, c41, c42, c43, c44, e12, e13, e14, e21, e23, e24, e31, e32, e34, e41, e42, e43⟩ := ord4L_fin (P 0) (P 3) (P 1) (P 2) l12 l23 l34
    have hsq : SimpleQuad (P 0) (P 3) (P 2) (P 1) := by sym8 hs
    obtain ⟨s', t1, t2, hr, ho, hm, hg⟩ := ringOV_run true
      (ringQ (Fq (P 0)) (Fq (P 1)) (Fq (P 2)) (Fq (P 3))) 0 3 1 2 (P 0) (P 3) (P 1) (P 2)
      rfl rfl rfl rfl l12 l23 l34 hsq
    refine ⟨t1, t2, sweepMon_quad (setup_quad _ _ _ _ [(0, [])] .start .bend .end_ .bend
      (validPt_fq _ _ (by simp)) (validPt_fq _ _ (by simp [f1, f2, f3, f4, c11, c12, c13, c14, c21, c22, c23, c24, c31, c32, c33, c34, c41, c42, c43, c44, e12, e13, e14, e21, e23, e24, e31, e32, e34, e41, e42, e43]))
      (validPt_fq _ _ (by simp [f1, f2, f3, f4, c11, c12, c13, c14, c21, c22, c23, c24, c31, c32, c33, c34, c41, c42, c43, c44, e12, e13, e14, e21, e23, e24, e31, e32, e34, e41, e42, e43])) (validPt_fq _ _ (by simp [f1, f2, f3, f4, c11, c12, c13, c14, c21, c22, c23, c24, c31, c32, c33, c34, c41, c42, c43, c44, e12, e13, e14, e21, e23, e24, e31, e32, e34, e41, e42, e43]))
      (by simp [fromTriplet, Pt.lt, Pt.gt, f1, f2, f3, f4, c11, c12, c13, c14, c21, c22, c23, c24, c31, c32, c33, c34, c41, c42, c43, c44, e12, e13, e14, e21, e23, e24, e31, e32, e34, e41, e42, e43]) (by simp [fromTriplet, Pt.lt, Pt.gt, f1, f2, f3, f4, c11, c12, c13, c14, c21, c22, c23, c24, c31, c32, c33, c34, c41, c42, c43, c44, e12, e13, e14, e21, e23, e24, e31, e32, e34, e41, e42, e43]) (by simp [fromTriplet, Pt.lt, Pt.gt, f1, f2, f3, f4, c11, c12, c13, c14, c21, c22, c23, c24, c31, c32, c33, c34, c41, c42, c43, c44, e12, e13, e14, e21, e23, e24, e31, e32, e34, e41, e42, e43]) (by simp [fromTriplet, Pt.lt, Pt.gt, f1, f2, f3, f4, c11, c12, c13, c14, c21, c22, c23, c24, c31, c32, c33, c34, c41, c42, c43, c44, e12, e13, e14, e21, e23, e24, e31, e32, e34, e41, e42, e43])
      (by simp [f1, f2, f3, f4, c11, c12, c13, c14, c21, c22, c23, c24, c31, c32, c33, c34, c41, c42, c43, c44, e12, e13, e14, e21, e23, e24, e31, e32, e34, e41, e42, e43])) hr ho hm, ?_⟩
    sym8 hg
  · -- lexicographic order along the input positions (0, 3, 2, 1): ring `A`
    obtain ⟨f1, f2, f3, f4, c11, c12, c13, c14, c21, c22, c23, c24, c31, c32, c33, c34, c41, c42, c43, c44, e12, e13, e14, e21, e23, e24, e31, e32, e34, e41, e42, e43⟩ := ord4L_fin (P 0) (P 3) (P 2) (P 1) l12 l23 l34
    have hsq : SimpleQuad (P 0) (P 3) (P 2) (P 1) := by sym8 hs
    obtain ⟨s', t1, t2, hr, ho, hm, hg⟩ := ringAV_run false
      (ringQ (Fq (P 0)) (Fq (P 1)) (Fq (P 2)) (Fq (P 3))) 0 3 2 1 (P 0) (P 3) (P 2) (P 1)
      rfl rfl rfl rfl l12 l23 l34 hsq
    refine ⟨t1, t2, sweepMon_quad (setup_quad _ _ _ _ [(0, [])] .start .end_ .bend .bend
      (validPt_fq _ _ (by simp)) (validPt_fq _ _ (by simp [f1, f2, f3, f4, c11, c12, c13, c14, c21, c22, c23, c24, c31, c32, c33, c34, c41, c42, c43, c44, e12, e13, e14, e21, e23, e24, e31, e32, e34, e41, e42, e43]))
      (validPt_fq _ _ (by simp [f1, f2, f3, f4, c11, c12, c13, c14, c21, c22, c23, c24, c31, c32, c33, c34, c41, c42, c43, c44, e12, e13, e14, e21, e23, e24, e31, e32, e34, e41, e42, e43])) (validPt_fq _ _ (by simp [f1, f2, f3, f4, c11, c12, c13, c14, c21, c22, c23, c24, c31, c32, c33, c34, c41, c42, c43, c44, e12, e13, e14, e21, e23, e24, e31, e32, e34, e41, e42, e43]))
      (by simp [fromTriplet, Pt.lt, Pt.gt, f1, f2, f3, f4, c11, c12, c13, c14, c21, c22, c23, c24, c31, c32, c33, c34, c41, c42, c43, c44, e12, e13, e14, e21, e23, e24, e31, e32, e34, e41, e42, e43]) (by simp [fromTriplet, Pt.lt, Pt.gt, f1, f2, f3, f4, c11, c12, c13, c14, c21, c22, c23, c24, c31, c32, c33, c34, c41, c42, c43, c44, e12, e13, e14, e21, e23, e24, e31, e32, e34, e41, e42, e43]) (by simp [fromTriplet, Pt.lt, Pt.gt, f1, f2, f3, f4, c11, c12, c13, c14, c21, c22, c23, c24, c31, c32, c33, c34, c41, c42, c43, c44, e12, e13, e14, e21, e23, e24, e31, e32, e34, e41, e42, e43]) (by simp [fromTriplet, Pt.lt, Pt.gt, f1, f2, f3, f4, c11, c12, c13, c14, c21, c22, c23, c24, c31, c32, c33, c34, c41, c42, c43, c44, e12, e13, e14, e21, e23, e24, e31, e32, e34, e41, e42, e43])
      (by simp [f1, f2, f3, f4, c11, c12, c13, c14, c21, c22, c23, c24, c31, c32, c33, c34, c41, c42, c43, c44, e12, e13, e14, e21, e23, e24, e31, e32, e34, e41, e42, e43])) hr ho hm, ?_⟩
    sym8 hg
  · -- lexicographic order along the input positions (1, 0, 2, 3): ring `O`
    obtain ⟨f1, f2, f3, f4, c11, c12, c13, c14, c21, c22, c23, c24, c31, c32, c33, c34, c41, c42, c43, c44, e12, e13, e14, e21, e23, e24, e31, e32, e34, e41, e42, e43⟩ := ord4L_fin (P 1) (P 0) (P 2) (P 3) l12 l23 l34
    have hsq : SimpleQuad (P 1) (P 0) (P 3) (P 2) := by sym8 hs
    obtain ⟨s', t1, t2, hr, ho, hm, hg⟩ := ringOV_run true
      (ringQ (Fq (P 0)) (Fq (P 1)) (Fq (P 2)) (Fq (P 3))) 1 0 2 3 (P 1) (P 0) (P 2) (P 3)
      rfl rfl rfl rfl l12 l23 l34 hsq
    refine ⟨t1, t2, sweepMon_quad (setup_quad _ _ _ _ [(1, [])] .bend .start .bend .end_
      (validPt_fq _ _ (by simp)) (validPt_fq _ _ (by simp [f1, f2, f3, f4, c11, c12, c13, c14, c21, c22, c23, c24, c31, c32, c33, c34, c41, c42, c43, c44, e12, e13, e14, e21, e23, e24, e31, e32, e34, e41, e42, e43]))
      (validPt_fq _ _ (by simp [f1, f2, f3, f4, c11, c12, c13, c14, c21, c22, c23, c24, c31, c32, c33, c34, c41, c42, c43, c44, e12, e13, e14, e21, e23, e24, e31, e32, e34, e41, e42, e43])) (validPt_fq _ _ (by simp [f1, f2, f3, f4, c11, c12, c13, c14, c21, c22, c23, c24, c31, c32, c33, c34, c41, c42, c43, c44, e12, e13, e14, e21, e23, e24, e31, e32, e34, e41, e42, e43]))
      (by simp [fromTriplet, Pt.lt, Pt.gt, f1, f2, f3, f4, c11, c12, c13, c14, c21, c22, c23, c24, c31, c32, c33, c34, c41, c42, c43, c44, e12, e13, e14, e21, e23, e24, e31, e32, e34, e41, e42, e43]) (by simp [fromTriplet, Pt.lt, Pt.gt, f1, f2, f3, f4, c11, c12, c13, c14, c21, c22, c23, c24, c31, c32, c33, c34, c41, c42, c43, c44, e12, e13, e14, e21, e23, e24, e31, e32, e34, e41, e42, e43]) (by simp [fromTriplet, Pt.lt, Pt.gt, f1, f2, f3, f4, c11, c12, c13, c14, c21, c22, c23, c24, c31, c32, c33, c34, c41, c42, c43, c44, e12, e13, e14, e21, e23, e24, e31, e32, e34, e41, e42, e43]) (by simp [fromTriplet, Pt.lt, Pt.gt, f1, f2, f3, f4, c11, c12, c13, c14, c21, c22, c23, c24, c31, c32, c33, c34, c41, c42, c43, c44, e12, e13, e14, e21, e23, e24, e31, e32, e34, e41, e42, e43])
      (by simp [f1, f2, f3, f4, c11, c12, c13, c14, c21, c22, c23, c24, c31, c32, c33, c34, c41, c42, c43, c44, e12, e13, e14, e21, e23, e24, e31, e32, e34, e41, e42, e43])) hr ho hm, ?_⟩
    sym8 hg
  · -- lexicographic order along the input positions (1, 0, 3, 2): ring `A`
    obtain ⟨f1, f2, f3, f4, c11, c12, c13, c14, c21, c22, c23, c24, c31, c32, c33, c34, c41, c42, c43, c44, e12, e13, e14, e21, e23, e24, e31, e32, e34, e41, e42, e43⟩ := ord4L_fin (P 1) (P 0) (P 3) (P 2) l12 l23 l34
    have hsq : SimpleQuad (P 1) (P 0) (P 3) (P 2) := by sym8 hs
    obtain ⟨s', t1, t2, hr, ho, hm, hg⟩ := ringAV_run false
      (ringQ (Fq (P 0)) (Fq (P 1)) (Fq (P 2)) (Fq (P 3))) 1 0 3 2 (P 1) (P 0) (P 3) (P 2)
      rfl rfl rfl rfl l12 l23 l34 hsq
    refine ⟨t1, t2, sweepMon_quad (setup_quad _ _ _ _ [(1, [])] .bend .start .end_ .bend
      (validPt_fq _ _ (by simp)) (validPt_fq _ _ (by simp [f1, f2, f3, f4, c11, c12, c13, c14, c21, c22, c23, c24, c31, c32, c33, c34, c41, c42, c43, c44, e12, e13, e14, e21, e23, e24, e31, e32, e34, e41, e42, e43]))
      (validPt_fq _ _ (by simp [f1, f2, f3, f4, c11, c12, c13, c14, c21, c22, c23, c24, c31, c32, c33, c34, c41, c42, c43, c44, e12, e13, e14, e21, e23, e24, e31, e32, e34, e41, e42, e43])) (validPt_fq _ _ (by simp [f1, f2, f3, f4, c11, c12, c13, c14, c21, c22, c23, c24, c31, c32, c33, c34, c41, c42, c43, c44, e12, e13, e14, e21, e23, e24, e31, e32, e34, e41, e42, e43]))
      (by simp [fromTriplet, Pt.lt, Pt.gt, f1, f2, f3, f4, c11, c12, c13, c14, c21, c22, c23, c24, c31, c32, c33, c34, c41, c42, c43, c44, e12, e13, e14, e21, e23, e24, e31, e32, e34, e41, e42, e43]) (by simp [fromTriplet, Pt.lt, Pt.gt, f1, f2, f3, f4, c11, c12, c13, c14, c21, c22, c23, c24, c31, c32, c33, c34, c41, c42, c43, c44, e12, e13, e14, e21, e23, e24, e31, e32, e34, e41, e42, e43]) (by simp [fromTriplet, Pt.lt, Pt.gt, f1, f2, f3, f4, c11, c12, c13, c14, c21, c22, c23, c24, c31, c32, c33, c34, c41, c42, c43, c44, e12, e13, e14, e21, e23, e24, e31, e32, e34, e41, e42, e43]) (by simp [fromTriplet, Pt.lt, Pt.gt, f1, f2, f3, f4, c11, c12, c13, c14, c21, c22, c23, c24, c31, c32, c33, c34, c41, c42, c43, c44, e12, e13, e14, e21, e23, e24, e31, e32, e34, e41, e42, e43])
      (by simp [f1, f2, f3, f4, c11, c12, c13, c14, c21, c22, c23, c24, c31, c32, c33, c34, c41, c42, c43, c44, e12, e13, e14, e21, e23, e24, e31, e32, e34, e41, e42, e43])) hr ho hm, ?_⟩
    sym8 hg
  · -- lexicographic order along the input positions (1, 2, 0, 3): ring `O`
    obtain ⟨f1, f2, f3, f4, c11, c12, c13, c14, c21, c22, c23, c24, c31, c32, c33, c34, c41, c42, c43, c44, e12, e13, e14, e21, e23, e24, e31, e32, e34, e41, e42, e43⟩ := ord4L_fin (P 1) (P 2) (P 0) (P 3) l12 l23 l34
    have hsq : SimpleQuad (P 1) (P 2) (P 3) (P 0) := by sym8 hs
    obtain ⟨s', t1, t2, hr, ho, hm, hg⟩ := ringOV_run false
      (ringQ (Fq (P 0)) (Fq (P 1)) (Fq (P 2)) (Fq (P 3))) 1 2 0 3 (P 1) (P 2) (P 0) (P 3)
      rfl rfl rfl rfl l12 l23 l34 hsq
    refine ⟨t1, t2, sweepMon_quad (setup_quad _ _ _ _ [(1, [])] .bend .start .bend .end_
      (validPt_fq _ _ (by simp)) (validPt_fq _ _ (by simp [f1, f2, f3, f4, c11, c12, c13, c14, c21, c22, c23, c24, c31, c32, c33, c34, c41, c42, c43, c44, e12, e13, e14, e21, e23, e24, e31, e32, e34, e41, e42, e43]))
      (validPt_fq _ _ (by simp [f1, f2, f3, f4, c11, c12, c13, c14, c21, c22, c23, c24, c31, c32, c33, c34, c41, c42, c43, c44, e12, e13, e14, e21, e23, e24, e31, e32, e34, e41, e42, e43])) (validPt_fq _ _ (by simp [f1, f2, f3, f4, c11, c12, c13, c14, c21, c22, c23, c24, c31, c32, c33, c34, c41, c42, c43, c44, e12, e13, e14, e21, e23, e24, e31, e32, e34, e41, e42, e43]))
      (by simp [fromTriplet, Pt.lt, Pt.gt, f1, f2, f3, f4, c11, c12, c13, c14, c21, c22, c23, c24, c31, c32, c33, c34, c41, c42, c43, c44, e12, e13, e14, e21, e23, e24, e31, e32, e34, e41, e42, e43]) (by simp [fromTriplet, Pt.lt, Pt.gt, f1, f2, f3, f4, c11, c12, c13, c14, c21, c22, c23, c24, c31, c32, c33, c34, c41, c42, c43, c44, e12, e13, e14, e21, e23, e24, e31, e32, e34, e41, e42, e43]) (by simp [fromTriplet, Pt.lt, Pt.gt, f1, f2, f3, f4, c11, c12, c13, c14, c21, c22, c23, c24, c31, c32, c33, c34, c41, c42, c43, c44, e12, e13, e14, e21, e23, e24, e31, e32, e34, e41, e42, e43]) (by simp [fromTriplet, Pt.lt, Pt.gt, f1, f2, f3, f4, c11, c12, c13, c14, c21, c22, c23, c24, c31, c32, c33, c34, c41, c42, c43, c44, e12, e13, e14, e21, e23, e24, e31, e32, e34, e41, e42, e43])
      (by simp [f1, f2, f3, f4, c11, c12, c13, c14, c21, c22, c23, c24, c31, c32, c33, c34, c41, c42, c43, c44, e12, e13, e14, e21, e23, e24, e31, e32, e34, e41, e42, e43])) hr ho hm, ?_⟩
    sym8 hg
  · -- lexicographic order along the input positions (1, 2, 3, 0): ring `A`
    obtain ⟨f1, f2, f3, f4, c11, c12, c13, c14, c21, c22, c23, c24, c31, c32, c33, c34, c41, c42, c43, c44, e12, e13, e14, e21, e23, e24, e31, e32, e34, e41, e42, e43⟩ := ord4L_fin (P 1) (P 2) (P 3) (P 0) l12 l23 l34
    have hsq : SimpleQuad (P 1) (P 2) (P 3) (P 0) := by sym8 hs
    obtain ⟨s', t1, t2, hr, ho, hm, hg⟩ := ringAV_run true
      (ringQ (Fq (P 0)) (Fq (P 1)) (Fq (P 2)) (Fq (P 3))) 1 2 3 0 (P 1) (P 2) (P 3) (P 0)
      rfl rfl rfl rfl l12 l23 l34 hsq
    refine ⟨t1, t2, sweepMon_quad (setup_quad _ _ _ _ [(1, [])] .end_ .start .bend .bend
      (validPt_fq _ _ (by simp)) (validPt_fq _ _ (by simp [f1, f2, f3, f4, c11, c12, c13, c14, c21, c22, c23, c24, c31, c32, c33, c34, c41, c42, c43, c44, e12, e13, e14, e21, e23, e24, e31, e32, e34, e41, e42, e43]))
      (validPt_fq _ _ (by simp [f1, f2, f3, f4, c11, c12, c13, c14, c21, c22, c23, c24, c31, c32, c33, c34, c41, c42, c43, c44, e12, e13, e14, e21, e23, e24, e31, e32, e34, e41, e42, e43])) (validPt_fq _ _ (by simp [f1, f2, f3, f4, c11, c12, c13, c14, c21, c22, c23, c24, c31, c32, c33, c34, c41, c42, c43, c44, e12, e13, e14, e21, e23, e24, e31, e32, e34, e41, e42, e43]))
      (by simp [fromTriplet, Pt.lt, Pt.gt, f1, f2, f3, f4, c11, c12, c13, c14, c21, c22, c23, c24, c31, c32, c33, c34, c41, c42, c43, c44, e12, e13, e14, e21, e23, e24, e31, e32, e34, e41, e42, e43]) (by simp [fromTriplet, Pt.lt, Pt.gt, f1, f2, f3, f4, c11, c12, c13, c14, c21, c22, c23, c24, c31, c32, c33, c34, c41, c42, c43, c44, e12, e13, e14, e21, e23, e24, e31, e32, e34, e41, e42, e43]) (by simp [fromTriplet, Pt.lt, Pt.gt, f1, f2, f3, f4, c11, c12, c13, c14, c21, c22, c23, c24, c31, c32, c33, c34, c41, c42, c43, c44, e12, e13, e14, e21, e23, e24, e31, e32, e34, e41, e42, e43]) (by simp [fromTriplet, Pt.lt, Pt.gt, f1, f2, f3, f4, c11, c12, c13, c14, c21, c22, c23, c24, c31, c32, c33, c34, c41, c42, c43, c44, e12, e13, e14, e21, e23, e24, e31, e32, e34, e41, e42, e43])
      (by simp [f1, f2, f3, f4, c11, c12, c13, c14, c21, c22, c23, c24, c31, c32, c33, c34, c41, c42, c43, c44, e12, e13, e14, e21, e23, e24, e31, e32, e34, e41, e42, e43])) hr ho hm, ?_⟩
    sym8 hg
  · -- lexicographic order along the input positions (1, 3, 0, 2): ring `Z`
    obtain ⟨f1, f2, f3, f4, c11, c12, c13, c14, c21, c22, c23, c24, c31, c32, c33, c34, c41, c42, c43, c44, e12, e13, e14, e21, e23, e24, e31, e32, e34, e41, e42, e43⟩ := ord4L_fin (P 1) (P 3) (P 0) (P 2) l12 l23 l34
    have hsq : SimpleQuad (P 1) (P 0) (P 3) (P 2) := by sym8 hs
    obtain ⟨s', t1, t2, hr, ho, hm, hg⟩ := ringZV_run false
      (ringQ (Fq (P 0)) (Fq (P 1)) (Fq (P 2)) (Fq (P 3))) 1 3 0 2 (P 1) (P 3) (P 0) (P 2)
      rfl rfl rfl rfl l12 l23 l34 hsq
    refine ⟨t1, t2, sweepMon_quad (setup_quad _ _ _ _ [(1, []), (3, [])] .end_ .start .end_ .start
      (validPt_fq _ _ (by simp)) (validPt_fq _ _ (by simp [f1, f2, f3, f4, c11, c12, c13, c14, c21, c22, c23, c24, c31, c32, c33, c34, c41, c42, c43, c44, e12, e13, e14, e21, e23, e24, e31, e32, e34, e41, e42, e43]))
      (validPt_fq _ _ (by simp [f1, f2, f3, f4, c11, c12, c13, c14, c21, c22, c23, c24, c31, c32, c33, c34, c41, c42, c43, c44, e12, e13, e14, e21, e23, e24, e31, e32, e34, e41, e42, e43])) (validPt_fq _ _ (by simp [f1, f2, f3, f4, c11, c12, c13, c14, c21, c22, c23, c24, c31, c32, c33, c34, c41, c42, c43, c44, e12, e13, e14, e21, e23, e24, e31, e32, e34, e41, e42, e43]))
      (by simp [fromTriplet, Pt.lt, Pt.gt, f1, f2, f3, f4, c11, c12, c13, c14, c21, c22, c23, c24, c31, c32, c33, c34, c41, c42, c43, c44, e12, e13, e14, e21, e23, e24, e31, e32, e34, e41, e42, e43]) (by simp [fromTriplet, Pt.lt, Pt.gt, f1, f2, f3, f4, c11, c12, c13, c14, c21, c22, c23, c24, c31, c32, c33, c34, c41, c42, c43, c44, e12, e13, e14, e21, e23, e24, e31, e32, e34, e41, e42, e43]) (by simp [fromTriplet, Pt.lt, Pt.gt, f1, f2, f3, f4, c11, c12, c13, c14, c21, c22, c23, c24, c31, c32, c33, c34, c41, c42, c43, c44, e12, e13, e14, e21, e23, e24, e31, e32, e34, e41, e42, e43]) (by simp [fromTriplet, Pt.lt, Pt.gt, f1, f2, f3, f4, c11, c12, c13, c14, c21, c22, c23, c24, c31, c32, c33, c34, c41, c42, c43, c44, e12, e13, e14, e21, e23, e24, e31, e32, e34, e41, e42, e43])
      (by simp [f1, f2, f3, f4, c11, c12, c13, c14, c21, c22, c23, c24, c31, c32, c33, c34, c41, c42, c43, c44, e12, e13, e14, e21, e23, e24, e31, e32, e34, e41, e42, e43])) hr ho hm, ?_⟩
    sym8 hg
  · -- lexicographic order along the input positions (1, 3, 2, 0): ring `Z`
    obtain ⟨f1, f2, f3, f4, c11, c12, c13, c14, c21, c22, c23, c24, c31, c32, c33, c34, c41, c42, c43, c44, e12, e13, e14, e21, e23, e24, e31, e32, e34, e41, e42, e43⟩ := ord4L_fin (P 1) (P 3) (P 2) (P 0) l12 l23 l34
    have hsq : SimpleQuad (P 1) (P 2) (P 3) (P 0) := by sym8 hs
    obtain ⟨s', t1, t2, hr, ho, hm, hg⟩ := ringZV_run true
      (ringQ (Fq (P 0)) (Fq (P 1)) (Fq (P 2)) (Fq (P 3))) 1 3 2 0 (P 1) (P 3) (P 2) (P 0)
      rfl rfl rfl rfl l12 l23 l34 hsq
    refine ⟨t1, t2, sweepMon_quad (setup_quad _ _ _ _ [(1, []), (3, [])] .end_ .start .end_ .start
      (validPt_fq _ _ (by simp)) (validPt_fq _ _ (by simp [f1, f2, f3, f4, c11, c12, c13, c14, c21, c22, c23, c24, c31, c32, c33, c34, c41, c42, c43, c44, e12, e13, e14, e21, e23, e24, e31, e32, e34, e41, e42, e43]))
      (validPt_fq _ _ (by simp [f1, f2, f3, f4, c11, c12, c13, c14, c21, c22, c23, c24, c31, c32, c33, c34, c41, c42, c43, c44, e12, e13, e14, e21, e23, e24, e31, e32, e34, e41, e42, e43])) (validPt_fq _ _ (by simp [f1, f2, f3, f4, c11, c12, c13, c14, c21, c22, c23, c24, c31, c32, c33, c34, c41, c42, c43, c44, e12, e13, e14, e21, e23, e24, e31, e32, e34, e41, e42, e43]))
      (by simp [fromTriplet, Pt.lt, Pt.gt, f1, f2, f3, f4, c11, c12, c13, c14, c21, c22, c23, c24, c31, c32, c33, c34, c41, c42, c43, c44, e12, e13, e14, e21, e23, e24, e31, e32, e34, e41, e42, e43]) (by simp [fromTriplet, Pt.lt, Pt.gt, f1, f2, f3, f4, c11, c12, c13, c14, c21, c22, c23, c24, c31, c32, c33, c34, c41, c42, c43, c44, e12, e13, e14, e21, e23, e24, e31, e32, e34, e41, e42, e43]) (by simp [fromTriplet, Pt.lt, Pt.gt, f1, f2, f3, f4, c11, c12, c13, c14, c21, c22, c23, c24, c31, c32, c33, c34, c41, c42, c43, c44, e12, e13, e14, e21, e23, e24, e31, e32, e34, e41, e42, e43]) (by simp [fromTriplet, Pt.lt, Pt.gt, f1, f2, f3, f4, c11, c12, c13, c14, c21, c22, c23, c24, c31, c32, c33, c34, c41, c42, c43, c44, e12, e13, e14, e21, e23, e24, e31, e32, e34, e41, e42, e43])
      (by simp [f1, f2, f3, f4, c11, c12, c13, c14, c21, c22, c23, c24, c31, c32, c33, c34, c41, c42, c43, c44, e12, e13, e14, e21, e23, e24, e31, e32, e34, e41, e42, e43])) hr ho hm, ?_⟩
    sym8 hg
  · -- lexicographic order along the input positions (2, 0, 1, 3): ring `Z`
    obtain ⟨f1, f2, f3, f4, c11, c12, c13, c14, c21, c22, c23, c24, c31, c32, c33, c34, c41, c42, c43, c44, e12, e13, e14, e21, e23, e24, e31, e32, e34, e41, e42, e43⟩ := ord4L_fin (P 2) (P 0) (P 1) (P 3) l12 l23 l34
    have hsq : SimpleQuad (P 2) (P 1) (P 0) (P 3) := by sym8 hs
    obtain ⟨s', t1, t2, hr, ho, hm, hg⟩ := ringZV_run false
      (ringQ (Fq (P 0)) (Fq (P 1)) (Fq (P 2)) (Fq (P 3))) 2 0 1 3 (P 2) (P 0) (P 1) (P 3)
      rfl rfl rfl rfl l12 l23 l34 hsq
    refine ⟨t1, t2, sweepMon_quad (setup_quad _ _ _ _ [(2, []), (0, [])] .start .end_ .start .end_
      (validPt_fq _ _ (by simp)) (validPt_fq _ _ (by simp [f1, f2, f3, f4, c11, c12, c13, c14, c21, c22, c23, c24, c31, c32, c33, c34, c41, c42, c43, c44, e12, e13, e14, e21, e23, e24, e31, e32, e34, e41, e42, e43]))
      (validPt_fq _ _ (by simp [f1, f2, f3, f4, c11, c12, c13, c14, c21, c22, c23, c24, c31, c32, c33, c34, c41, c42, c43, c44, e12, e13, e14, e21, e23, e24, e31, e32, e34, e41, e42, e43])) (validPt_fq _ _ (by simp [f1, f2, f3, f4, c11, c12, c13, c14, c21, c22, c23, c24, c31, c32, c33, c34, c41, c42, c43, c44, e12, e13, e14, e21, e23, e24, e31, e32, e34, e41, e42, e43]))
      (by simp [fromTriplet, Pt.lt, Pt.gt, f1, f2, f3, f4, c11, c12, c13, c14, c21, c22, c23, c24, c31, c32, c33, c34, c41, c42, c43, c44, e12, e13, e14, e21, e23, e24, e31, e32, e34, e41, e42, e43]) (by simp [fromTriplet, Pt.lt, Pt.gt, f1, f2, f3, f4, c11, c12, c13, c14, c21, c22, c23, c24, c31, c32, c33, c34, c41, c42, c43, c44, e12, e13, e14, e21, e23, e24, e31, e32, e34, e41, e42, e43]) (by simp [fromTriplet, Pt.lt, Pt.gt, f1, f2, f3, f4, c11, c12, c13, c14, c21, c22, c23, c24, c31, c32, c33, c34, c41, c42, c43, c44, e12, e13, e14, e21, e23, e24, e31, e32, e34, e41, e42, e43]) (by simp [fromTriplet, Pt.lt, Pt.gt, f1, f2, f3, f4, c11, c12, c13, c14, c21, c22, c23, c24, c31, c32, c33, c34, c41, c42, c43, c44, e12, e13, e14, e21, e23, e24, e31, e32, e34, e41, e42, e43])
      (by simp [f1, f2, f3, f4, c11, c12, c13, c14, c21, c22, c23, c24, c31, c32, c33, c34, c41, c42, c43, c44, e12, e13, e14, e21, e23, e24, e31, e32, e34, e41, e42, e43])) hr ho hm, ?_⟩
    sym8 hg
  · -- lexicographic order along the input positions (2, 0, 3, 1): ring `Z`
    obtain ⟨f1, f2, f3, f4, c11, c12, c13, c14, c21, c22, c23, c24, c31, c32, c33, c34, c41, c42, c43, c44, e12, e13, e14, e21, e23, e24, e31, e32, e34, e41, e42, e43⟩ := ord4L_fin (P 2) (P 0) (P 3) (P 1) l12 l23 l34
    have hsq : SimpleQuad (P 2) (P 3) (P 0) (P 1) := by sym8 hs
    obtain ⟨s', t1, t2, hr, ho, hm, hg⟩ := ringZV_run true
      (ringQ (Fq (P 0)) (Fq (P 1)) (Fq (P 2)) (Fq (P 3))) 2 0 3 1 (P 2) (P 0) (P 3) (P 1)
      rfl rfl rfl rfl l12 l23 l34 hsq
    refine ⟨t1, t2, sweepMon_quad (setup_quad _ _ _ _ [(2, []), (0, [])] .start .end_ .start .end_
      (validPt_fq _ _ (by simp)) (validPt_fq _ _ (by simp [f1, f2, f3, f4, c11, c12, c13, c14, c21, c22, c23, c24, c31, c32, c33, c34, c41, c42, c43, c44, e12, e13, e14, e21, e23, e24, e31, e32, e34, e41, e42, e43]))
      (validPt_fq _ _ (by simp [f1, f2, f3, f4, c11, c12, c13, c14, c21, c22, c23, c24, c31, c32, c33, c34, c41, c42, c43, c44, e12, e13, e14, e21, e23, e24, e31, e32, e34, e41, e42, e43])) (validPt_fq _ _ (by simp [f1, f2, f3, f4, c11, c12, c13, c14, c21, c22, c23, c24, c31, c32, c33, c34, c41, c42, c43, c44, e12, e13, e14, e21, e23, e24, e31, e32, e34, e41, e42, e43]))
      (by simp [fromTriplet, Pt.lt, Pt.gt, f1, f2, f3, f4, c11, c12, c13, c14, c21, c22, c23, c24, c31, c32, c33, c34, c41, c42, c43, c44, e12, e13, e14, e21, e23, e24, e31, e32, e34, e41, e42, e43]) (by simp [fromTriplet, Pt.lt, Pt.gt, f1, f2, f3, f4, c11, c12, c13, c14, c21, c22, c23, c24, c31, c32, c33, c34, c41, c42, c43, c44, e12, e13, e14, e21, e23, e24, e31, e32, e34, e41, e42, e43]) (by simp [fromTriplet, Pt.lt, Pt.gt, f1, f2, f3, f4, c11, c12, c13, c14, c21, c22, c23, c24, c31, c32, c33, c34, c41, c42, c43, c44, e12, e13, e14, e21, e23, e24, e31, e32, e34, e41, e42, e43]) (by simp [fromTriplet, Pt.lt, Pt.gt, f1, f2, f3, f4, c11, c12, c13, c14, c21, c22, c23, c24, c31, c32, c33, c34, c41, c42, c43, c44, e12, e13, e14, e21, e23, e24, e31, e32, e34, e41, e42, e43])
      (by simp [f1, f2, f3, f4, c11, c12, c13, c14, c21, c22, c23, c24, c31, c32, c33, c34, c41, c42, c43, c44, e12, e13, e14, e21, e23, e24, e31, e32, e34, e41, e42, e43])) hr ho hm, ?_⟩
    sym8 hg
  · -- lexicographic order along the input positions (2, 1, 0, 3): ring `A`
    obtain ⟨f1, f2, f3, f4, c11, c12, c13, c14, c21, c22, c23, c24, c31, c32, c33, c34, c41, c42, c43, c44, e12, e13, e14, e21, e23, e24, e31, e32, e34, e41, e42, e43⟩ := ord4L_fin (P 2) (P 1) (P 0) (P 3) l12 l23 l34
    have hsq : SimpleQuad (P 2) (P 1) (P 0) (P 3) := by sym8 hs
    obtain ⟨s', t1, t2, hr, ho, hm, hg⟩ := ringAV_run false
      (ringQ (Fq (P 0)) (Fq (P 1)) (Fq (P 2)) (Fq (P 3))) 2 1 0 3 (P 2) (P 1) (P 0) (P 3)
      rfl rfl rfl rfl l12 l23 l34 hsq
    refine ⟨t1, t2, sweepMon_quad (setup_quad _ _ _ _ [(2, [])] .bend .bend .start .end_
      (validPt_fq _ _ (by simp)) (validPt_fq _ _ (by simp [f1, f2, f3, f4, c11, c12, c13, c14, c21, c22, c23, c24, c31, c32, c33, c34, c41, c42, c43, c44, e12, e13, e14, e21, e23, e24, e31, e32, e34, e41, e42, e43]))
      (validPt_fq _ _ (by simp [f1, f2, f3, f4, c11, c12, c13, c14, c21, c22, c23, c24, c31, c32, c33, c34, c41, c42, c43, c44, e12, e13, e14, e21, e23, e24, e31, e32, e34, e41, e42, e43])) (validPt_fq _ _ (by simp [f1, f2, f3, f4, c11, c12, c13, c14, c21, c22, c23, c24, c31, c32, c33, c34, c41, c42, c43, c44, e12, e13, e14, e21, e23, e24, e31, e32, e34, e41, e42, e43]))
      (by simp [fromTriplet, Pt.lt, Pt.gt, f1, f2, f3, f4, c11, c12, c13, c14, c21, c22, c23, c24, c31, c32, c33, c34, c41, c42, c43, c44, e12, e13, e14, e21, e23, e24, e31, e32, e34, e41, e42, e43]) (by simp [fromTriplet, Pt.lt, Pt.gt, f1, f2, f3, f4, c11, c12, c13, c14, c21, c22, c23, c24, c31, c32, c33, c34, c41, c42, c43, c44, e12, e13, e14, e21, e23, e24, e31, e32, e34, e41, e42, e43]) (by simp [fromTriplet, Pt.lt, Pt.gt, f1, f2, f3, f4, c11, c12, c13, c14, c21, c22, c23, c24, c31, c32, c33, c34, c41, c42, c43, c44, e12, e13, e14, e21, e23, e24, e31, e32, e34, e41, e42, e43]) (by simp [fromTriplet, Pt.lt, Pt.gt, f1, f2, f3, f4, c11, c12, c13, c14, c21, c22, c23, c24, c31, c32, c33, c34, c41, c42, c43, c44, e12, e13, e14, e21, e23, e24, e31, e32, e34, e41, e42, e43])
      (by simp [f1, f2, f3, f4, c11, c12, c13, c14, c21, c22, c23, c24, c31, c32, c33, c34, c41, c42, c43, c44, e12, e13, e14, e21, e23, e24, e31, e32, e34, e41, e42, e43])) hr ho hm, ?_⟩
    sym8 hg
  · -- lexicographic order along the input positions (2, 1, 3, 0): ring `O`
    obtain ⟨f1, f2, f3, f4, c11, c12, c13, c14, c21, c22, c23, c24, c31, c32, c33, c34, c41, c42, c43, c44, e12, e13, e14, e21, e23, e24, e31, e32, e34, e41, e42, e43⟩ := ord4L_fin (P 2) (P 1) (P 3) (P 0) l12 l23 l34
    have hsq : SimpleQuad (P 2) (P 1) (P 0) (P 3) := by sym8 hs
    obtain ⟨s', t1, t2, hr, ho, hm, hg⟩ := ringOV_run true
      (ringQ (Fq (P 0)) (Fq (P 1)) (Fq (P 2)) (Fq (P 3))) 2 1 3 0 (P 2) (P 1) (P 3) (P 0)
      rfl rfl rfl rfl l12 l23 l34 hsq
    refine ⟨t1, t2, sweepMon_quad (setup_quad _ _ _ _ [(2, [])] .end_ .bend .start .bend
      (validPt_fq _ _ (by simp)) (validPt_fq _ _ (by simp [f1, f2, f3, f4, c11, c12, c13, c14, c21, c22, c23, c24, c31, c32, c33, c34, c41, c42, c43, c44, e12, e13, e14, e21, e23, e24, e31, e32, e34, e41, e42, e43]))
      (validPt_fq _ _ (by simp [f1, f2, f3, f4, c11, c12, c13, c14, c21, c22, c23, c24, c31, c32, c33, c34, c41, c42, c43, c44, e12, e13, e14, e21, e23, e24, e31, e32, e34, e41, e42, e43])) (validPt_fq _ _ (by simp [f1, f2, f3, f4, c11, c12, c13, c14, c21, c22, c23, c24, c31, c32, c33, c34, c41, c42, c43, c44, e12, e13, e14, e21, e23, e24, e31, e32, e34, e41, e42, e43]))
      (by simp [fromTriplet, Pt.lt, Pt.gt, f1, f2, f3, f4, c11, c12, c13, c14, c21, c22, c23, c24, c31, c32, c33, c34, c41, c42, c43, c44, e12, e13, e14, e21, e23, e24, e31, e32, e34, e41, e42, e43]) (by simp [fromTriplet, Pt.lt, Pt.gt, f1, f2, f3, f4, c11, c12, c13, c14, c21, c22, c23, c24, c31, c32, c33, c34, c41, c42, c43, c44, e12, e13, e14, e21, e23, e24, e31, e32, e34, e41, e42, e43]) (by simp [fromTriplet, Pt.lt, Pt.gt, f1, f2, f3, f4, c11, c12, c13, c14, c21, c22, c23, c24, c31, c32, c33, c34, c41, c42, c43, c44, e12, e13, e14, e21, e23, e24, e31, e32, e34, e41, e42, e43]) (by simp [fromTriplet, Pt.lt, Pt.gt, f1, f2, f3, f4, c11, c12, c13, c14, c21, c22, c23, c24, c31, c32, c33, c34, c41, c42, c43, c44, e12, e13, e14, e21, e23, e24, e31, e32, e34, e41, e42, e43])
      (by simp [f1, f2, f3, f4, c11, c12, c13, c14, c21, c22, c23, c24, c31, c32, c33, c34, c41, c42, c43, c44, e12, e13, e14, e21, e23, e24, e31, e32, e34, e41, e42, e43])) hr ho hm, ?_⟩
    sym8 hg
  · -- lexicographic order along the input positions (2, 3, 0, 1): ring `A`
    obtain ⟨f1, f2, f3, f4, c11, c12, c13, c14, c21, c22, c23, c24, c31, c32, c33, c34, c41, c42, c43, c44, e12, e13, e14, e21, e23, e24, e31, e32, e34, e41, e42, e43⟩ := ord4L_fin (P 2) (P 3) (P 0) (P 1) l12 l23 l34
    have hsq : SimpleQuad (P 2) (P 3) (P 0) (P 1) := by sym8 hs
    obtain ⟨s', t1, t2, hr, ho, hm, hg⟩ := ringAV_run true
      (ringQ (Fq (P 0)) (Fq (P 1)) (Fq (P 2)) (Fq (P 3))) 2 3 0 1 (P 2) (P 3) (P 0) (P 1)
      rfl rfl rfl rfl l12 l23 l34 hsq
    refine ⟨t1, t2, sweepMon_quad (setup_quad _ _ _ _ [(2, [])] .bend .end_ .start .bend
      (validPt_fq _ _ (by simp)) (validPt_fq _ _ (by simp [f1, f2, f3, f4, c11, c12, c13, c14, c21, c22, c23, c24, c31, c32, c33, c34, c41, c42, c43, c44, e12, e13, e14, e21, e23, e24, e31, e32, e34, e41, e42, e43]))
      (validPt_fq _ _ (by simp [f1, f2, f3, f4, c11, c12, c13, c14, c21, c22, c23, c24, c31, c32, c33, c34, c41, c42, c43, c44, e12, e13, e14, e21, e23, e24, e31, e32, e34, e41, e42, e43])) (validPt_fq _ _ (by simp [f1, f2, f3, f4, c11, c12, c13, c14, c21, c22, c23, c24, c31, c32, c33, c34, c41, c42, c43, c44, e12, e13, e14, e21, e23, e24, e31, e32, e34, e41, e42, e43]))
      (by simp [fromTriplet, Pt.lt, Pt.gt, f1, f2, f3, f4, c11, c12, c13, c14, c21, c22, c23, c24, c31, c32, c33, c34, c41, c42, c43, c44, e12, e13, e14, e21, e23, e24, e31, e32, e34, e41, e42, e43]) (by simp [fromTriplet, Pt.lt, Pt.gt, f1, f2, f3, f4, c11, c12, c13, c14, c21, c22, c23, c24, c31, c32, c33, c34, c41, c42, c43, c44, e12, e13, e14, e21, e23, e24, e31, e32, e34, e41, e42, e43]) (by simp [fromTriplet, Pt.lt, Pt.gt, f1, f2, f3, f4, c11, c12, c13, c14, c21, c22, c23, c24, c31, c32, c33, c34, c41, c42, c43, c44, e12, e13, e14, e21, e23, e24, e31, e32, e34, e41, e42, e43]) (by simp [fromTriplet, Pt.lt, Pt.gt, f1, f2, f3, f4, c11, c12, c13, c14, c21, c22, c23, c24, c31, c32, c33, c34, c41, c42, c43, c44, e12, e13, e14, e21, e23, e24, e31, e32, e34, e41, e42, e43])
      (by simp [f1, f2, f3, f4, c11, c12, c13, c14, c21, c22, c23, c24, c31, c32, c33, c34, c41, c42, c43, c44, e12, e13, e14, e21, e23, e24, e31, e32, e34, e41, e42, e43])) hr ho hm, ?_⟩
    sym8 hg
  · -- lexicographic order along the input positions (2, 3, 1, 0): ring `O`
    obtain ⟨f1, f2, f3, f4, c11, c12, c13, c14, c21, c22, c23, c24, c31, c32, c33, c34, c41, c42, c43, c44, e12, e13, e14, e21, e23, e24, e31, e32, e34, e41, e42, e43⟩ := ord4L_fin (P 2) (P 3) (P 1) (P 0) l12 l23 l34
    have hsq : SimpleQuad (P 2) (P 3) (P 0) (P 1) := by sym8 hs
    obtain ⟨s', t1, t2, hr, ho, hm, hg⟩ := ringOV_run false
      (ringQ (Fq (P 0)) (Fq (P 1)) (Fq (P 2)) (Fq (P 3))) 2 3 1 0 (P 2) (P 3) (P 1) (P 0)
      rfl rfl rfl rfl l12 l23 l34 hsq
    refine ⟨t1, t2, sweepMon_quad (setup_quad _ _ _ _ [(2, [])] .end_ .bend .start .bend
      (validPt_fq _ _ (by simp)) (validPt_fq _ _ (by simp [f1, f2, f3, f4, c11, c12, c13, c14, c21, c22, c23, c24, c31, c32, c33, c34, c41, c42, c43, c44, e12, e13, e14, e21, e23, e24, e31, e32, e34, e41, e42, e43]))
      (validPt_fq _ _ (by simp [f1, f2, f3, f4, c11, c12, c13, c14, c21, c22, c23, c24, c31, c32, c33, c34, c41, c42, c43, c44, e12, e13, e14, e21, e23, e24, e31, e32, e34, e41, e42, e43])) (validPt_fq _ _ (by simp [f1, f2, f3, f4, c11, c12, c13, c14, c21, c22, c23, c24, c31, c32, c33, c34, c41, c42, c43, c44, e12, e13, e14, e21, e23, e24, e31, e32, e34, e41, e42, e43]))
      (by simp [fromTriplet, Pt.lt, Pt.gt, f1, f2, f3, f4, c11, c12, c13, c14, c21, c22, c23, c24, c31, c32, c33, c34, c41, c42, c43, c44, e12, e13, e14, e21, e23, e24, e31, e32, e34, e41, e42, e43]) (by simp [fromTriplet, Pt.lt, Pt.gt, f1, f2, f3, f4, c11, c12, c13, c14, c21, c22, c23, c24, c31, c32, c33, c34, c41, c42, c43, c44, e12, e13, e14, e21, e23, e24, e31, e32, e34, e41, e42, e43]) (by simp [fromTriplet, Pt.lt, Pt.gt, f1, f2, f3, f4, c11, c12, c13, c14, c21, c22, c23, c24, c31, c32, c33, c34, c41, c42, c43, c44, e12, e13, e14, e21, e23, e24, e31, e32, e34, e41, e42, e43]) (by simp [fromTriplet, Pt.lt, Pt.gt, f1, f2, f3, f4, c11, c12, c13, c14, c21, c22, c23, c24, c31, c32, c33, c34, c41, c42, c43, c44, e12, e13, e14, e21, e23, e24, e31, e32, e34, e41, e42, e43])
      (by simp [f1, f2, f3, f4, c11, c12, c13, c14, c21, c22, c23, c24, c31, c32, c33, c34, c41, c42, c43, c44, e12, e13, e14, e21, e23, e24, e31, e32, e34, e41, e42, e43])) hr ho hm, ?_⟩
    sym8 hg
  · -- lexicographic order along the input positions (3, 0, 1, 2): ring `A`
    obtain ⟨f1, f2, f3, f4, c11, c12, c13, c14, c21, c22, c23, c24, c31, c32, c33, c34, c41, c42, c43, c44, e12, e13, e14, e21, e23, e24, e31, e32, e34, e41, e42, e43⟩ := ord4L_fin (P 3) (P 0) (P 1) (P 2) l12 l23 l34
    have hsq : SimpleQuad (P 3) (P 0) (P 1) (P 2) := by sym8 hs
    obtain ⟨s', t1, t2, hr, ho, hm, hg⟩ := ringAV_run true
      (ringQ (Fq (P 0)) (Fq (P 1)) (Fq (P 2)) (Fq (P 3))) 3 0 1 2 (P 3) (P 0) (P 1) (P 2)
      rfl rfl rfl rfl l12 l23 l34 hsq
    refine ⟨t1, t2, sweepMon_quad (setup_quad _ _ _ _ [(3, [])] .bend .bend .end_ .start
      (validPt_fq _ _ (by simp)) (validPt_fq _ _ (by simp [f1, f2, f3, f4, c11, c12, c13, c14, c21, c22, c23, c24, c31, c32, c33, c34, c41, c42, c43, c44, e12, e13, e14, e21, e23, e24, e31, e32, e34, e41, e42, e43]))
      (validPt_fq _ _ (by simp [f1, f2, f3, f4, c11, c12, c13, c14, c21, c22, c23, c24, c31, c32, c33, c34, c41, c42, c43, c44, e12, e13, e14, e21, e23, e24, e31, e32, e34, e41, e42, e43])) (validPt_fq _ _ (by simp [f1, f2, f3, f4, c11, c12, c13, c14, c21, c22, c23, c24, c31, c32, c33, c34, c41, c42, c43, c44, e12, e13, e14, e21, e23, e24, e31, e32, e34, e41, e42, e43]))
      (by simp [fromTriplet, Pt.lt, Pt.gt, f1, f2, f3, f4, c11, c12, c13, c14, c21, c22, c23, c24, c31, c32, c33, c34, c41, c42, c43, c44, e12, e13, e14, e21, e23, e24, e31, e32, e34, e41, e42, e43]) (by simp [fromTriplet, Pt.lt, Pt.gt, f1, f2, f3, f4, c11, c12, c13, c14, c21, c22, c23, c24, c31, c32, c33, c34, c41, c42, c43, c44, e12, e13, e14, e21, e23, e24, e31, e32, e34, e41, e42, e43]) (by simp [fromTriplet, Pt.lt, Pt.gt, f1, f2, f3, f4, c11, c12, c13, c14, c21, c22, c23, c24, c31, c32, c33, c34, c41, c42, c43, c44, e12, e13, e14, e21, e23, e24, e31, e32, e34, e41, e42, e43]) (by simp [fromTriplet, Pt.lt, Pt.gt, f1, f2, f3, f4, c11, c12, c13, c14, c21, c22, c23, c24, c31, c32, c33, c34, c41, c42, c43, c44, e12, e13, e14, e21, e23, e24, e31, e32, e34, e41, e42, e43])
      (by simp [f1, f2, f3, f4, c11, c12, c13, c14, c21, c22, c23, c24, c31, c32, c33, c34, c41, c42, c43, c44, e12, e13, e14, e21, e23, e24, e31, e32, e34, e41, e42, e43])) hr ho hm, ?_⟩
    sym8 hg
  · -- lexicographic order along the input positions (3, 0, 2, 1): ring `O`
    obtain ⟨f1, f2, f3, f4, c11, c12, c13, c14, c21, c22, c23, c24, c31, c32, c33, c34, c41, c42, c43, c44, e12, e13, e14, e21, e23, e24, e31, e32, e34, e41, e42, e43⟩ := ord4L_fin (P 3) (P 0) (P 2) (P 1) l12 l23 l34
    have hsq : SimpleQuad (P 3) (P 0) (P 1) (P 2) := by sym8 hs
    obtain ⟨s', t1, t2, hr, ho, hm, hg⟩ := ringOV_run false
      (ringQ (Fq (P 0)) (Fq (P 1)) (Fq (P 2)) (Fq (P 3))) 3 0 2 1 (P 3) (P 0) (P 2) (P 1)
      rfl rfl rfl rfl l12 l23 l34 hsq
    refine ⟨t1, t2, sweepMon_quad (setup_quad _ _ _ _ [(3, [])] .bend .end_ .bend .start
      (validPt_fq _ _ (by simp)) (validPt_fq _ _ (by simp [f1, f2, f3, f4, c11, c12, c13, c14, c21, c22, c23, c24, c31, c32, c33, c34, c41, c42, c43, c44, e12, e13, e14, e21, e23, e24, e31, e32, e34, e41, e42, e43]))
      (validPt_fq _ _ (by simp [f1, f2, f3, f4, c11, c12, c13, c14, c21, c22, c23, c24, c31, c32, c33, c34, c41, c42, c43, c44, e12, e13, e14, e21, e23, e24, e31, e32, e34, e41, e42, e43])) (validPt_fq _ _ (by simp [f1, f2, f3, f4, c11, c12, c13, c14, c21, c22, c23, c24, c31, c32, c33, c34, c41, c42, c43, c44, e12, e13, e14, e21, e23, e24, e31, e32, e34, e41, e42, e43]))
      (by simp [fromTriplet, Pt.lt, Pt.gt, f1, f2, f3, f4, c11, c12, c13, c14, c21, c22, c23, c24, c31, c32, c33, c34, c41, c42, c43, c44, e12, e13, e14, e21, e23, e24, e31, e32, e34, e41, e42, e43]) (by simp [fromTriplet, Pt.lt, Pt.gt, f1, f2, f3, f4, c11, c12, c13, c14, c21, c22, c23, c24, c31, c32, c33, c34, c41, c42, c43, c44, e12, e13, e14, e21, e23, e24, e31, e32, e34, e41, e42, e43]) (by simp [fromTriplet, Pt.lt, Pt.gt, f1, f2, f3, f4, c11, c12, c13, c14, c21, c22, c23, c24, c31, c32, c33, c34, c41, c42, c43, c44, e12, e13, e14, e21, e23, e24, e31, e32, e34, e41, e42, e43]) (by simp [fromTriplet, Pt.lt, Pt.gt, f1, f2, f3, f4, c11, c12, c13, c14, c21, c22, c23, c24, c31, c32, c33, c34, c41, c42, c43, c44, e12, e13, e14, e21, e23, e24, e31, e32, e34, e41, e42, e43])
      (by simp [f1, f2, f3, f4, c11, c12, c13, c14, c21, c22, c23, c24, c31, c32, c33, c34, c41, c42, c43, c44, e12, e13, e14, e21, e23, e24, e31, e32, e34, e41, e42, e43])) hr ho hm, ?_⟩
    sym8 hg
  · -- lexicographic order along the input positions (3, 1, 0, 2): ring `Z`
    obtain ⟨f1, f2, f3, f4, c11, c12, c13, c14, c21, c22, c23, c24, c31, c32, c33, c34, c41, c42, c43, c44, e12, e13, e14, e21, e23, e24, e31, e32, e34, e41, e42, e43⟩ := ord4L_fin (P 3) (P 1) (P 0) (P 2) l12 l23 l34
    have hsq : SimpleQuad (P 3) (P 0) (P 1) (P 2) := by sym8 hs
    obtain ⟨s', t1, t2, hr, ho, hm, hg⟩ := ringZV_run true
      (ringQ (Fq (P 0)) (Fq (P 1)) (Fq (P 2)) (Fq (P 3))) 3 1 0 2 (P 3) (P 1) (P 0) (P 2)
      rfl rfl rfl rfl l12 l23 l34 hsq
    refine ⟨t1, t2, sweepMon_quad (setup_quad _ _ _ _ [(3, []), (1, [])] .end_ .start .end_ .start
      (validPt_fq _ _ (by simp)) (validPt_fq _ _ (by simp [f1, f2, f3, f4, c11, c12, c13, c14, c21, c22, c23, c24, c31, c32, c33, c34, c41, c42, c43, c44, e12, e13, e14, e21, e23, e24, e31, e32, e34, e41, e42, e43]))
      (validPt_fq _ _ (by simp [f1, f2, f3, f4, c11, c12, c13, c14, c21, c22, c23, c24, c31, c32, c33, c34, c41, c42, c43, c44, e12, e13, e14, e21, e23, e24, e31, e32, e34, e41, e42, e43])) (validPt_fq _ _ (by simp [f1, f2, f3, f4, c11, c12, c13, c14, c21, c22, c23, c24, c31, c32, c33, c34, c41, c42, c43, c44, e12, e13, e14, e21, e23, e24, e31, e32, e34, e41, e42, e43]))
      (by simp [fromTriplet, Pt.lt, Pt.gt, f1, f2, f3, f4, c11, c12, c13, c14, c21, c22, c23, c24, c31, c32, c33, c34, c41, c42, c43, c44, e12, e13, e14, e21, e23, e24, e31, e32, e34, e41, e42, e43]) (by simp [fromTriplet, Pt.lt, Pt.gt, f1, f2, f3, f4, c11, c12, c13, c14, c21, c22, c23, c24, c31, c32, c33, c34, c41, c42, c43, c44, e12, e13, e14, e21, e23, e24, e31, e32, e34, e41, e42, e43]) (by simp [fromTriplet, Pt.lt, Pt.gt, f1, f2, f3, f4, c11, c12, c13, c14, c21, c22, c23, c24, c31, c32, c33, c34, c41, c42, c43, c44, e12, e13, e14, e21, e23, e24, e31, e32, e34, e41, e42, e43]) (by simp [fromTriplet, Pt.lt, Pt.gt, f1, f2, f3, f4, c11, c12, c13, c14, c21, c22, c23, c24, c31, c32, c33, c34, c41, c42, c43, c44, e12, e13, e14, e21, e23, e24, e31, e32, e34, e41, e42, e43])
      (by simp [f1, f2, f3, f4, c11, c12, c13, c14, c21, c22, c23, c24, c31, c32, c33, c34, c41, c42, c43, c44, e12, e13, e14, e21, e23, e24, e31, e32, e34, e41, e42, e43])) hr ho hm, ?_⟩
    sym8 hg
  · -- lexicographic order along the input positions (3, 1, 2, 0): ring `Z`
    obtain ⟨f1, f2, f3, f4, c11, c12, c13, c14, c21, c22, c23, c24, c31, c32, c33, c34, c41, c42, c43, c44, e12, e13, e14, e21, e23, e24, e31, e32, e34, e41, e42, e43⟩ := ord4L_fin (P 3) (P 1) (P 2) (P 0) l12 l23 l34
    have hsq : SimpleQuad (P 3) (P 2) (P 1) (P 0) := by sym8 hs
    obtain ⟨s', t1, t2, hr, ho, hm, hg⟩ := ringZV_run false
      (ringQ (Fq (P 0)) (Fq (P 1)) (Fq (P 2)) (Fq (P 3))) 3 1 2 0 (P 3) (P 1) (P 2) (P 0)
      rfl rfl rfl rfl l12 l23 l34 hsq
    refine ⟨t1, t2, sweepMon_quad (setup_quad _ _ _ _ [(3, []), (1, [])] .end_ .start .end_ .start
      (validPt_fq _ _ (by simp)) (validPt_fq _ _ (by simp [f1, f2, f3, f4, c11, c12, c13, c14, c21, c22, c23, c24, c31, c32, c33, c34, c41, c42, c43, c44, e12, e13, e14, e21, e23, e24, e31, e32, e34, e41, e42, e43]))
      (validPt_fq _ _ (by simp [f1, f2, f3, f4, c11, c12, c13, c14, c21, c22, c23, c24, c31, c32, c33, c34, c41, c42, c43, c44, e12, e13, e14, e21, e23, e24, e31, e32, e34, e41, e42, e43])) (validPt_fq _ _ (by simp [f1, f2, f3, f4, c11, c12, c13, c14, c21, c22, c23, c24, c31, c32, c33, c34, c41, c42, c43, c44, e12, e13, e14, e21, e23, e24, e31, e32, e34, e41, e42, e43]))
      (by simp [fromTriplet, Pt.lt, Pt.gt, f1, f2, f3, f4, c11, c12, c13, c14, c21, c22, c23, c24, c31, c32, c33, c34, c41, c42, c43, c44, e12, e13, e14, e21, e23, e24, e31, e32, e34, e41, e42, e43]) (by simp [fromTriplet, Pt.lt, Pt.gt, f1, f2, f3, f4, c11, c12, c13, c14, c21, c22, c23, c24, c31, c32, c33, c34, c41, c42, c43, c44, e12, e13, e14, e21, e23, e24, e31, e32, e34, e41, e42, e43]) (by simp [fromTriplet, Pt.lt, Pt.gt, f1, f2, f3, f4, c11, c12, c13, c14, c21, c22, c23, c24, c31, c32, c33, c34, c41, c42, c43, c44, e12, e13, e14, e21, e23, e24, e31, e32, e34, e41, e42, e43]) (by simp [fromTriplet, Pt.lt, Pt.gt, f1, f2, f3, f4, c11, c12, c13, c14, c21, c22, c23, c24, c31, c32, c33, c34, c41, c42, c43, c44, e12, e13, e14, e21, e23, e24, e31, e32, e34, e41, e42, e43])
      (by simp [f1, f2, f3, f4, c11, c12, c13, c14, c21, c22, c23, c24, c31, c32, c33, c34, c41, c42, c43, c44, e12, e13, e14, e21, e23, e24, e31, e32, e34, e41, e42, e43])) hr ho hm, ?_⟩
    sym8 hg
  · -- lexicographic order along the input positions (3, 2, 0, 1): ring `O`
    obtain ⟨f1, f2, f3, f4, c11, c12, c13, c14, c21, c22, c23, c24, c31, c32, c33, c34, c41, c42, c43, c44, e12, e13, e14, e21, e23, e24, e31, e32, e34, e41, e42, e43⟩ := ord4L_fin (P 3) (P 2) (P 0) (P 1) l12 l23 l34
    have hsq : SimpleQuad (P 3) (P 2) (P 1) (P 0) := by sym8 hs
    obtain ⟨s', t1, t2, hr, ho, hm, hg⟩ := ringOV_run true
      (ringQ (Fq (P 0)) (Fq (P 1)) (Fq (P 2)) (Fq (P 3))) 3 2 0 1 (P 3) (P 2) (P 0) (P 1)
      rfl rfl rfl rfl l12 l23 l34 hsq
    refine ⟨t1, t2, sweepMon_quad (setup_quad _ _ _ _ [(3, [])] .bend .end_ .bend .start
      (validPt_fq _ _ (by simp)) (validPt_fq _ _ (by simp [f1, f2, f3, f4, c11, c12, c13, c14, c21, c22, c23, c24, c31, c32, c33, c34, c41, c42, c43, c44, e12, e13, e14, e21, e23, e24, e31, e32, e34, e41, e42, e43]))
      (validPt_fq _ _ (by simp [f1, f2, f3, f4, c11, c12, c13, c14, c21, c22, c23, c24, c31, c32, c33, c34, c41, c42, c43, c44, e12, e13, e14, e21, e23, e24, e31, e32, e34, e41, e42, e43])) (validPt_fq _ _ (by simp [f1, f2, f3, f4, c11, c12, c13, c14, c21, c22, c23, c24, c31, c32, c33, c34, c41, c42, c43, c44, e12, e13, e14, e21, e23, e24, e31, e32, e34, e41, e42, e43]))
      (by simp [fromTriplet, Pt.lt, Pt.gt, f1, f2, f3, f4, c11, c12, c13, c14, c21, c22, c23, c24, c31, c32, c33, c34, c41, c42, c43, c44, e12, e13, e14, e21, e23, e24, e31, e32, e34, e41, e42, e43]) (by simp [fromTriplet, Pt.lt, Pt.gt, f1, f2, f3, f4, c11, c12, c13, c14, c21, c22, c23, c24, c31, c32, c33, c34, c41, c42, c43, c44, e12, e13, e14, e21, e23, e24, e31, e32, e34, e41, e42, e43]) (by simp [fromTriplet, Pt.lt, Pt.gt, f1, f2, f3, f4, c11, c12, c13, c14, c21, c22, c23, c24, c31, c32, c33, c34, c41, c42, c43, c44, e12, e13, e14, e21, e23, e24, e31, e32, e34, e41, e42, e43]) (by simp [fromTriplet, Pt.lt, Pt.gt, f1, f2, f3, f4, c11, c12, c13, c14, c21, c22, c23, c24, c31, c32, c33, c34, c41, c42, c43, c44, e12, e13, e14, e21, e23, e24, e31, e32, e34, e41, e42, e43])
      (by simp [f1, f2, f3, f4, c11, c12, c13, c14, c21, c22, c23, c24, c31, c32, c33, c34, c41, c42, c43, c44, e12, e13, e14, e21, e23, e24, e31, e32, e34, e41, e42, e43])) hr ho hm, ?_⟩
    sym8 hg
  · -- lexicographic order along the input positions (3, 2, 1, 0): ring `A`
    obtain ⟨f1, f2, f3, f4, c11, c12, c13, c14, c21, c22, c23, c24, c31, c32, c33, c34, c41, c42, c43, c44, e12, e13, e14, e21, e23, e24, e31, e32, e34, e41, e42, e43⟩ := ord4L_fin (P 3) (P 2) (P 1) (P 0) l12 l23 l34
    have hsq : SimpleQuad (P 3) (P 2) (P 1) (P 0) := by sym8 hs
    obtain ⟨s', t1, t2, hr, ho, hm, hg⟩ := ringAV_run false
      (ringQ (Fq (P 0)) (Fq (P 1)) (Fq (P 2)) (Fq (P 3))) 3 2 1 0 (P 3) (P 2) (P 1) (P 0)
      rfl rfl rfl rfl l12 l23 l34 hsq
    refine ⟨t1, t2, sweepMon_quad (setup_quad _ _ _ _ [(3, [])] .end_ .bend .bend .start
      (validPt_fq _ _ (by simp)) (validPt_fq _ _ (by simp [f1, f2, f3, f4, c11, c12, c13, c14, c21, c22, c23, c24, c31, c32, c33, c34, c41, c42, c43, c44, e12, e13, e14, e21, e23, e24, e31, e32, e34, e41, e42, e43]))
      (validPt_fq _ _ (by simp [f1, f2, f3, f4, c11, c12, c13, c14, c21, c22, c23, c24, c31, c32, c33, c34, c41, c42, c43, c44, e12, e13, e14, e21, e23, e24, e31, e32, e34, e41, e42, e43])) (validPt_fq _ _ (by simp [f1, f2, f3, f4, c11, c12, c13, c14, c21, c22, c23, c24, c31, c32, c33, c34, c41, c42, c43, c44, e12, e13, e14, e21, e23, e24, e31, e32, e34, e41, e42, e43]))
      (by simp [fromTriplet, Pt.lt, Pt.gt, f1, f2, f3, f4, c11, c12, c13, c14, c21, c22, c23, c24, c31, c32, c33, c34, c41, c42, c43, c44, e12, e13, e14, e21, e23, e24, e31, e32, e34, e41, e42, e43]) (by simp [fromTriplet, Pt.lt, Pt.gt, f1, f2, f3, f4, c11, c12, c13, c14, c21, c22, c23, c24, c31, c32, c33, c34, c41, c42, c43, c44, e12, e13, e14, e21, e23, e24, e31, e32, e34, e41, e42, e43]) (by simp [fromTriplet, Pt.lt, Pt.gt, f1, f2, f3, f4, c11, c12, c13, c14, c21, c22, c23, c24, c31, c32, c33, c34, c41, c42, c43, c44, e12, e13, e14, e21, e23, e24, e31, e32, e34, e41, e42, e43]) (by simp [fromTriplet, Pt.lt, Pt.gt, f1, f2, f3, f4, c11, c12, c13, c14, c21, c22, c23, c24, c31, c32, c33, c34, c41, c42, c43, c44, e12, e13, e14, e21, e23, e24, e31, e32, e34, e41, e42, e43])
      (by simp [f1, f2, f3, f4, c11, c12, c13, c14, c21, c22, c23, c24, c31, c32, c33, c34, c41, c42, c43, c44, e12, e13, e14, e21, e23, e24, e31, e32, e34, e41, e42, e43])) hr ho hm, ?_⟩
    sym8 hg

theorem lex_or {p q : Rat × Rat} (h : p ≠ q) : lexLt p q ∨ lexLt q p := by
  rcases C15.lexLt_trichotomy p q with h1 | h1 | h1
  · exact Or.inl h1
  · exact absurd h1 h
  · exact Or.inr h1

/-- **Every simple quadrilateral is accepted** (C04 for a single quadrilateral, all positions;
    `QuadGood` packages the claims about the two triangles, see `quad_accepted_general`). -/
theorem quad_accepted_general_good (a b c d : Rat × Rat) (hs : SimpleQuad a b c d) :
    ∃ t1 t2, sweepMon [#[F a.1 a.2, F b.1 b.2, F c.1 c.2, F d.1 d.2]] = .ok ([t1, t2], true) ∧
      QuadGood a b c d t1 t2 := by
  have n01 : corner4 a b c d 0 ≠ corner4 a b c d 1 := by
    show a ≠ b; rintro rfl; exact hs.1 (by unfold orient; ring)
  have n02 : corner4 a b c d 0 ≠ corner4 a b c d 2 := by
    show a ≠ c; rintro rfl; exact hs.1 (by unfold orient; ring)
  have n03 : corner4 a b c d 0 ≠ corner4 a b c d 3 := by
    show a ≠ d; rintro rfl; exact hs.2.2.2.1 (by unfold orient; ring)
  have n12 : corner4 a b c d 1 ≠ corner4 a b c d 2 := by
    show b ≠ c; rintro rfl; exact hs.1 (by unfold orient; ring)
  have n13 : corner4 a b c d 1 ≠ corner4 a b c d 3 := by
    show b ≠ d; rintro rfl; exact hs.2.1 (by unfold orient; ring)
  have n23 : corner4 a b c d 2 ≠ corner4 a b c d 3 := by
    show c ≠ d; rintro rfl; exact hs.2.1 (by unfold orient; ring)
  have key := fun i1 i2 i3 i4 hperm l12 l23 l34 =>
    quad_sortedV (corner4 a b c d) i1 i2 i3 i4 hperm l12 l23 l34 hs
  rcases lex_or n01 with h01 | h01
  · rcases lex_or n02 with h02 | h02
    · rcases lex_or n03 with h03 | h03
      · rcases lex_or n12 with h12 | h12
        · rcases lex_or n13 with h13 | h13
          · rcases lex_or n23 with h23 | h23
            · exact key 0 1 2 3 (by simp) h01 h12 h23
            · exact key 0 1 3 2 (by simp) h01 h13 h23
          · rcases lex_or n23 with h23 | h23
            · exact absurd (C15.lexLt_trans (C15.lexLt_trans h12 h23) h13) (C15.lexLt_irrefl _)
            · exact key 0 3 1 2 (by simp) h03 h13 h12
        · rcases lex_or n13 with h13 | h13
          · rcases lex_or n23 with h23 | h23
            · exact key 0 2 1 3 (by simp) h02 h12 h13
            · exact absurd (C15.lexLt_trans (C15.lexLt_trans h13 h23) h12) (C15.lexLt_irrefl _)
          · rcases lex_or n23 with h23 | h23
            · exact key 0 2 3 1 (by simp) h02 h23 h13
            · exact key 0 3 2 1 (by simp) h03 h23 h12
      · rcases lex_or n12 with h12 | h12
        · rcases lex_or n13 with h13 | h13
          · rcases lex_or n23 with h23 | h23
            · exact absurd (C15.lexLt_trans (C15.lexLt_trans h01 h13) h03) (C15.lexLt_irrefl _)
            · exact absurd (C15.lexLt_trans (C15.lexLt_trans h01 h13) h03) (C15.lexLt_irrefl _)
          · rcases lex_or n23 with h23 | h23
            · exact absurd (C15.lexLt_trans (C15.lexLt_trans h02 h23) h03) (C15.lexLt_irrefl _)
            · exact key 3 0 1 2 (by simp) h03 h01 h12
        · rcases lex_or n13 with h13 | h13
          · rcases lex_or n23 with h23 | h23
            · exact absurd (C15.lexLt_trans (C15.lexLt_trans h01 h13) h03) (C15.lexLt_irrefl _)
            · exact absurd (C15.lexLt_trans (C15.lexLt_trans h01 h13) h03) (C15.lexLt_irrefl _)
          · rcases lex_or n23 with h23 | h23
            · exact absurd (C15.lexLt_trans (C15.lexLt_trans h02 h23) h03) (C15.lexLt_irrefl _)
            · exact key 3 0 2 1 (by simp) h03 h02 h12
    · rcases lex_or n03 with h03 | h03
      · rcases lex_or n12 with h12 | h12
        · rcases lex_or n13 with h13 | h13
          · rcases lex_or n23 with h23 | h23
            · exact absurd (C15.lexLt_trans (C15.lexLt_trans h01 h12) h02) (C15.lexLt_irrefl _)
            · exact absurd (C15.lexLt_trans (C15.lexLt_trans h01 h12) h02) (C15.lexLt_irrefl _)
          · rcases lex_or n23 with h23 | h23
            · exact absurd (C15.lexLt_trans (C15.lexLt_trans h01 h12) h02) (C15.lexLt_irrefl _)
            · exact absurd (C15.lexLt_trans (C15.lexLt_trans h01 h12) h02) (C15.lexLt_irrefl _)
        · rcases lex_or n13 with h13 | h13
          · rcases lex_or n23 with h23 | h23
            · exact key 2 0 1 3 (by simp) h02 h01 h13
            · exact absurd (C15.lexLt_trans (C15.lexLt_trans h03 h23) h02) (C15.lexLt_irrefl _)
          · rcases lex_or n23 with h23 | h23
            · exact key 2 0 3 1 (by simp) h02 h03 h13
            · exact absurd (C15.lexLt_trans (C15.lexLt_trans h03 h23) h02) (C15.lexLt_irrefl _)
      · rcases lex_or n12 with h12 | h12
        · rcases lex_or n13 with h13 | h13
          · rcases lex_or n23 with h23 | h23
            · exact absurd (C15.lexLt_trans (C15.lexLt_trans h01 h12) h02) (C15.lexLt_irrefl _)
            · exact absurd (C15.lexLt_trans (C15.lexLt_trans h01 h12) h02) (C15.lexLt_irrefl _)
          · rcases lex_or n23 with h23 | h23
            · exact absurd (C15.lexLt_trans (C15.lexLt_trans h01 h12) h02) (C15.lexLt_irrefl _)
            · exact absurd (C15.lexLt_trans (C15.lexLt_trans h01 h12) h02) (C15.lexLt_irrefl _)
        · rcases lex_or n13 with h13 | h13
          · rcases lex_or n23 with h23 | h23
            · exact absurd (C15.lexLt_trans (C15.lexLt_trans h01 h13) h03) (C15.lexLt_irrefl _)
            · exact absurd (C15.lexLt_trans (C15.lexLt_trans h01 h13) h03) (C15.lexLt_irrefl _)
          · rcases lex_or n23 with h23 | h23
            · exact key 2 3 0 1 (by simp) h23 h03 h01
            · exact key 3 2 0 1 (by simp) h23 h02 h01
  · rcases lex_or n02 with h02 | h02
    · rcases lex_or n03 with h03 | h03
      · rcases lex_or n12 with h12 | h12
        · rcases lex_or n13 with h13 | h13
          · rcases lex_or n23 with h23 | h23
            · exact key 1 0 2 3 (by simp) h01 h02 h23
            · exact key 1 0 3 2 (by simp) h01 h03 h23
          · rcases lex_or n23 with h23 | h23
            · exact absurd (C15.lexLt_trans (C15.lexLt_trans h03 h13) h01) (C15.lexLt_irrefl _)
            · exact absurd (C15.lexLt_trans (C15.lexLt_trans h03 h13) h01) (C15.lexLt_irrefl _)
        · rcases lex_or n13 with h13 | h13
          · rcases lex_or n23 with h23 | h23
            · exact absurd (C15.lexLt_trans (C15.lexLt_trans h02 h12) h01) (C15.lexLt_irrefl _)
            · exact absurd (C15.lexLt_trans (C15.lexLt_trans h02 h12) h01) (C15.lexLt_irrefl _)
          · rcases lex_or n23 with h23 | h23
            · exact absurd (C15.lexLt_trans (C15.lexLt_trans h02 h12) h01) (C15.lexLt_irrefl _)
            · exact absurd (C15.lexLt_trans (C15.lexLt_trans h02 h12) h01) (C15.lexLt_irrefl _)
      · rcases lex_or n12 with h12 | h12
        · rcases lex_or n13 with h13 | h13
          · rcases lex_or n23 with h23 | h23
            · exact absurd (C15.lexLt_trans (C15.lexLt_trans h02 h23) h03) (C15.lexLt_irrefl _)
            · exact key 1 3 0 2 (by simp) h13 h03 h02
          · rcases lex_or n23 with h23 | h23
            · exact absurd (C15.lexLt_trans (C15.lexLt_trans h02 h23) h03) (C15.lexLt_irrefl _)
            · exact key 3 1 0 2 (by simp) h13 h01 h02
        · rcases lex_or n13 with h13 | h13
          · rcases lex_or n23 with h23 | h23
            · exact absurd (C15.lexLt_trans (C15.lexLt_trans h02 h12) h01) (C15.lexLt_irrefl _)
            · exact absurd (C15.lexLt_trans (C15.lexLt_trans h02 h12) h01) (C15.lexLt_irrefl _)
          · rcases lex_or n23 with h23 | h23
            · exact absurd (C15.lexLt_trans (C15.lexLt_trans h02 h12) h01) (C15.lexLt_irrefl _)
            · exact absurd (C15.lexLt_trans (C15.lexLt_trans h02 h12) h01) (C15.lexLt_irrefl _)
    · rcases lex_or n03 with h03 | h03
      · rcases lex_or n12 with h12 | h12
        · rcases lex_or n13 with h13 | h13
          · rcases lex_or n23 with h23 | h23
            · exact key 1 2 0 3 (by simp) h12 h02 h03
            · exact absurd (C15.lexLt_trans (C15.lexLt_trans h03 h23) h02) (C15.lexLt_irrefl _)
          · rcases lex_or n23 with h23 | h23
            · exact absurd (C15.lexLt_trans (C15.lexLt_trans h03 h13) h01) (C15.lexLt_irrefl _)
            · exact absurd (C15.lexLt_trans (C15.lexLt_trans h03 h13) h01) (C15.lexLt_irrefl _)
        · rcases lex_or n13 with h13 | h13
          · rcases lex_or n23 with h23 | h23
            · exact key 2 1 0 3 (by simp) h12 h01 h03
            · exact absurd (C15.lexLt_trans (C15.lexLt_trans h03 h23) h02) (C15.lexLt_irrefl _)
          · rcases lex_or n23 with h23 | h23
            · exact absurd (C15.lexLt_trans (C15.lexLt_trans h03 h13) h01) (C15.lexLt_irrefl _)
            · exact absurd (C15.lexLt_trans (C15.lexLt_trans h03 h13) h01) (C15.lexLt_irrefl _)
      · rcases lex_or n12 with h12 | h12
        · rcases lex_or n13 with h13 | h13
          · rcases lex_or n23 with h23 | h23
            · exact key 1 2 3 0 (by simp) h12 h23 h03
            · exact key 1 3 2 0 (by simp) h13 h23 h02
          · rcases lex_or n23 with h23 | h23
            · exact absurd (C15.lexLt_trans (C15.lexLt_trans h12 h23) h13) (C15.lexLt_irrefl _)
            · exact key 3 1 2 0 (by simp) h13 h12 h02
        · rcases lex_or n13 with h13 | h13
          · rcases lex_or n23 with h23 | h23
            · exact key 2 1 3 0 (by simp) h12 h13 h03
            · exact absurd (C15.lexLt_trans (C15.lexLt_trans h13 h23) h12) (C15.lexLt_irrefl _)
          · rcases lex_or n23 with h23 | h23
            · exact key 2 3 1 0 (by simp) h23 h13 h01
            · exact key 3 2 1 0 (by simp) h23 h12 h01

/-- **C04 for a single simple quadrilateral — the statement in full, no position hypothesis**:
    for rational points `a b c d` forming a simple quadrilateral in this cyclic order (any start
    vertex, either orientation, abscissae may coincide), the model returns exactly two triangles
    and the ghost flag `mono` is `true`; all six corners are input points; both triangles are
    non-degenerate; and their absolute doubled areas add up to the absolute doubled shoelace
    area `|a×b + b×c + c×d + d×a|`. -/
theorem quad_accepted_general (a b c d : Rat × Rat) (hs : SimpleQuad a b c d) :
    ∃ t1 t2 : Pt XQ × Pt XQ × Pt XQ,
      sweepMon [#[F a.1 a.2, F b.1 b.2, F c.1 c.2, F d.1 d.2]] = .ok ([t1, t2], true) ∧
      (∀ p ∈ [t1.1, t1.2.1, t1.2.2, t2.1, t2.2.1, t2.2.2],
        p ∈ [F a.1 a.2, F b.1 b.2, F c.1 c.2, F d.1 d.2]) ∧
      orientPt t1.1 t1.2.1 t1.2.2 ≠ 0 ∧ orientPt t2.1 t2.2.1 t2.2.2 ≠ 0 ∧
      |orientPt t1.1 t1.2.1 t1.2.2| + |orientPt t2.1 t2.2.1 t2.2.2| =
        |(a.1 * b.2 - a.2 * b.1) + (b.1 * c.2 - b.2 * c.1) + (c.1 * d.2 - c.2 * d.1) +
          (d.1 * a.2 - d.2 * a.1)| := by
  obtain ⟨t1, t2, h, hg⟩ := quad_accepted_general_good a b c d hs
  exact ⟨t1, t2, h, hg⟩

/-- the plain result of the model (without the ghost flag) -/
theorem quad_accepted_general_sweep (a b c d : Rat × Rat) (hs : SimpleQuad a b c d) :
    ∃ t1 t2, sweep [#[F a.1 a.2, F b.1 b.2, F c.1 c.2, F d.1 d.2]] = .ok [t1, t2] := by
  obtain ⟨t1, t2, h, -⟩ := quad_accepted_general_good a b c d hs
  refine ⟨t1, t2, ?_⟩
  unfold sweepMon at h
  unfold sweep
  cases hr : (Sweep.run [#[F a.1 a.2, F b.1 b.2, F c.1 c.2, F d.1 d.2]]).run (Sweep.initSt : St XQ) with
  | error e => rw [hr] at h; cases h
  | ok r =>
    rw [hr] at h
    simp only [Except.ok.injEq, Prod.mk.injEq] at h
    simp only [h.1]

/-- every convex quadrilateral is accepted (all positions) -/
theorem quad_accepted_general_convex (a b c d : Rat × Rat) (hc : ConvexQuad a b c d) :
    ∃ t1 t2, sweepMon [#[F a.1 a.2, F b.1 b.2, F c.1 c.2, F d.1 d.2]] = .ok ([t1, t2], true) ∧
      QuadGood a b c d t1 t2 :=
  quad_accepted_general_good a b c d hc.simple

/-! ### non-vacuity: quadrilaterals with coinciding abscissae, evaluated by the kernel, and the
    theorem applied to them -/

-- the dart (0,0),(3,1),(0,2),(1,1): two vertices on a vertical line, reflex vertex pointing left
example : sweepMon [#[F 0 0, F 3 1, F 0 2, F 1 1]] =
    .ok ([(F 0 2, F 1 1, F 3 1), (F 0 0, F 1 1, F 3 1)], true) := by decide +kernel
example : ∃ t1 t2, sweepMon [#[F 0 0, F 3 1, F 0 2, F 1 1]] = .ok ([t1, t2], true) ∧
    QuadGood (0, 0) (3, 1) (0, 2) (1, 1) t1 t2 :=
  quad_accepted_general_good (0, 0) (3, 1) (0, 2) (1, 1) (by decide +kernel)
-- its mirror image: reflex vertex pointing right (merge)
example : sweepMon [#[F 3 0, F 0 1, F 3 2, F 2 1]] =
    .ok ([(F 0 1, F 2 1, F 3 0), (F 0 1, F 2 1, F 3 2)], true) := by decide +kernel
example : ∃ t1 t2, sweepMon [#[F 3 0, F 0 1, F 3 2, F 2 1]] = .ok ([t1, t2], true) ∧
    QuadGood (3, 0) (0, 1) (3, 2) (2, 1) t1 t2 :=
  quad_accepted_general_good (3, 0) (0, 1) (3, 2) (2, 1) (by decide +kernel)
-- the axis-parallel square: two vertical edges
example : sweepMon [#[F 0 0, F 2 0, F 2 2, F 0 2]] =
    .ok ([(F 0 0, F 0 2, F 2 0), (F 0 2, F 2 0, F 2 2)], true) := by decide +kernel
example : ∃ t1 t2, sweepMon [#[F 0 0, F 2 0, F 2 2, F 0 2]] = .ok ([t1, t2], true) ∧
    QuadGood (0, 0) (2, 0) (2, 2) (0, 2) t1 t2 :=
  quad_accepted_general_good (0, 0) (2, 0) (2, 2) (0, 2) (by decide +kernel)
-- a trapezoid with two vertical edges, clockwise input
example : ∃ t1 t2, sweepMon [#[F 0 0, F 0 2, F 3 3, F 3 1]] = .ok ([t1, t2], true) ∧
    QuadGood (0, 0) (0, 2) (3, 3) (3, 1) t1 t2 :=
  quad_accepted_general_good (0, 0) (0, 2) (3, 3) (3, 1) (by decide +kernel)
-- a non-convex quadrilateral with two vertical edges
example : sweepMon [#[F 0 1, F 1 0, F 1 3, F 0 2]] =
    .ok ([(F 0 1, F 0 2, F 1 0), (F 0 2, F 1 0, F 1 3)], true) := by decide +kernel
example : ∃ t1 t2, sweepMon [#[F 0 1, F 1 0, F 1 3, F 0 2]] = .ok ([t1, t2], true) ∧
    QuadGood (0, 1) (1, 0) (1, 3) (0, 2) t1 t2 :=
  quad_accepted_general_good (0, 1) (1, 0) (1, 3) (0, 2) (by decide +kernel)
-- a left-pointing dart whose reflex vertex lies vertically below a corner (one vertical edge)
example : sweepMon [#[F 0 0, F 4 0, F 1 1, F 1 3]] =
    .ok ([(F 0 0, F 1 1, F 1 3), (F 0 0, F 1 1, F 4 0)], true) := by decide +kernel
example : ∃ t1 t2, sweepMon [#[F 0 0, F 4 0, F 1 1, F 1 3]] = .ok ([t1, t2], true) ∧
    QuadGood (0, 0) (4, 0) (1, 1) (1, 3) t1 t2 :=
  quad_accepted_general_good (0, 0) (4, 0) (1, 1) (1, 3) (by decide +kernel)
-- the full statement on the dart (0,0),(3,1),(0,2),(1,1): doubled area 4
example : ∃ t1 t2 : Pt XQ × Pt XQ × Pt XQ,
    sweepMon [#[F 0 0, F 3 1, F 0 2, F 1 1]] = .ok ([t1, t2], true) ∧
      (∀ p ∈ [t1.1, t1.2.1, t1.2.2, t2.1, t2.2.1, t2.2.2], p ∈ [F 0 0, F 3 1, F 0 2, F 1 1]) ∧
      orientPt t1.1 t1.2.1 t1.2.2 ≠ 0 ∧ orientPt t2.1 t2.2.1 t2.2.2 ≠ 0 ∧
      |orientPt t1.1 t1.2.1 t1.2.2| + |orientPt t2.1 t2.2.1 t2.2.2| = 4 := by
  obtain ⟨t1, t2, h1, h2, h3, h4, h5⟩ :=
    quad_accepted_general (0, 0) (3, 1) (0, 2) (1, 1) (by decide +kernel)
  refine ⟨t1, t2, h1, h2, h3, h4, ?_⟩
  rw [h5]; norm_num
-- general position is a special case
example : ∃ t1 t2, sweepMon [#[F 0 0, F 4 0, F 1 5, F 2 1]] = .ok ([t1, t2], true) ∧
    QuadGood (0, 0) (4, 0) (1, 5) (2, 1) t1 t2 :=
  quad_accepted_general_good (0, 0) (4, 0) (1, 5) (2, 1) (by decide +kernel)

end Cav.C04QuadV
