/-
  C08 (accuracy clause, beyond the exact class) — `gen_display_cav` (3-D) integrates `f · |det Dg|`
  over the whole region when the integrand is only CLOSE to a polynomial.

  `C08Accuracy` treats the exact class (the integrand `f · |det Dg|` IS a polynomial of total degree
  ≤ 30 on each triangle).  Here the integrand may be arbitrary, as long as it stays within `δ'` of
  such a polynomial at the points of the triangle the routine can look at (rational barycentric
  coordinates).  The per-triangle bound is that of `C09Approx.gkTriangle_approx_accuracy`: the
  exact-class bound with the inner accuracy enlarged by `½·(2 + 1e-16)·(twice the area)·δ'`.

  * `triangle_accuracy_approx`      the triangle routine, as an inequality between rationals
  * `piece_of_display_approx`       one sweep triangle and its display
  * `cav3_piece_accuracy_approx`    (L1) one display of a successful run
  * `cav3_total_approx_local`       (L2) the whole triangulation, polynomial and `δ'` per triangle
  * `cav3_total_approx`             (L2) one polynomial and one `δ'` for all triangles
-/
import Cav.Thm.C08Accuracy
import Cav.Thm.C09Approx

namespace Cav.C08Approx
open Cav Num Cav.Gen Cav.Geo Cav.Acc2 Cav.Acc3 Cav.DispL Cav.C01 Cav.C08 Cav.C09Accuracy
open Cav.C08Accuracy Cav.C09Approx

/-- `f` is within `δ'` of the polynomial with the given terms at every point
    `(1−s−r)·p0 + s·p1 + r·p2` of the triangle `t = (p0, p1, p2)` with rational barycentric
    coordinates `0 ≤ s ≤ 1`, `0 ≤ r ≤ 1−s` — exactly the point set that
    `C09Approx.gkTriangle_approx_accuracy` asks for. -/
def CloseOnTri (t : (Rat × Rat) × (Rat × Rat) × (Rat × Rat)) (f : Rat → Rat → Rat)
    (terms : List (Nat × Nat × Rat)) (δ' : Rat) : Prop :=
  ∀ s r : Rat, 0 ≤ s → s ≤ 1 → 0 ≤ r → r ≤ 1 - s →
    |f ((1 - s - r) * t.1.1 + s * t.2.1.1 + r * t.2.2.1)
        ((1 - s - r) * t.1.2 + s * t.2.1.2 + r * t.2.2.2) -
      evalTerms terms ((1 - s - r) * t.1.1 + s * t.2.1.1 + r * t.2.2.1)
        ((1 - s - r) * t.1.2 + s * t.2.1.2 + r * t.2.2.2)| ≤ δ'

/-- closeness at every rational point of the plane gives closeness on every triangle -/
theorem CloseOnTri.of_forall {t : (Rat × Rat) × (Rat × Rat) × (Rat × Rat)} {f : Rat → Rat → Rat}
    {terms : List (Nat × Nat × Rat)} {δ' : Rat}
    (h : ∀ x y : Rat, |f x y - evalTerms terms x y| ≤ δ') : CloseOnTri t f terms δ' :=
  fun _ _ _ _ _ _ => h _ _

/-- the per-triangle bound when the integrand is within `δ'` of the polynomial: the bound of
    `gkTriangle_approx_accuracy`, i.e. the exact-class bound with the inner accuracy `triEps`
    enlarged by `½·(2 + 1e-16)·(triFactor t · δ')` (`triFactor t` = twice the area) -/
def triBoundApproxQ (terms : List (Nat × Nat × Rat))
    (t : (Rat × Rat) × (Rat × Rat) × (Rat × Rat)) (δ' : Rat) : Rat :=
  triBoundOf (triInner (triPoly terms t))
    (triEps (triPoly terms t) + 1 / 2 * (2 + 1 / 10 ^ 16) * (triFactor t * δ'))

/-- `gkTriangle_approx_accuracy` as an inequality between rational numbers: a successful run of the
    triangle routine on an integrand within `δ'` of the polynomial on the triangle is within
    `triBoundApproxQ terms t δ'` of the exact iterated integral `triExactQ terms t` of the
    polynomial, and the reported estimate satisfies `0 ≤ e < tol`. -/
theorem triangle_accuracy_approx (terms : List (Nat × Nat × Rat)) (hdeg : DegLe 30 terms)
    (f : Rat → Rat → Rat) (t : (Rat × Rat) × (Rat × Rat) × (Rat × Rat)) (δ' : Rat)
    (hf : CloseOnTri t f terms δ') (tol : Rat) (mi : Option Nat) (v e : Rat)
    (h : (gkTriangle f t tol mi).res = .ok (v, e)) :
    |v - triExactQ terms t| ≤ triBoundApproxQ terms t δ' ∧ e < tol ∧ 0 ≤ e := by
  obtain ⟨h3, h4⟩ := gkTriangle_approx_accuracy terms hdeg f t δ' hf tol mi v e h
  refine ⟨?_, h4⟩
  have h5 : triIntegral terms t = _ := triIntegral_eq terms t
  unfold triIntegral at h5
  rw [h5, ← Rat.cast_sub, ← Rat.cast_abs, Rat.cast_le] at h3
  exact h3

/-- the step for one sweep triangle: the display built for the triangle `tr` stores the corners of
    `tr`, and a stored value `(v, e)` is finite, within `triBoundApproxQ` of the exact integral of
    the polynomial over `tr`, with `0 ≤ e < tol`.  The integrand has to be close to the polynomial
    only at the points of that triangle. -/
theorem piece_of_display_approx (F : AD XQ × AD XQ → AD XQ) (f : AD Rat × AD Rat → AD Rat)
    (C : AD XQ → AD XQ × AD XQ) (c : AD Rat → AD Rat × AD Rat) (hF : HomF F f) (hC : HomC C c)
    (terms' : List (Nat × Nat × Rat)) (hdeg : DegLe 30 terms') (δ' : Rat) (cfg : Cfg3D XQ)
    (tol : Rat) (htol : cfg.tol = .fin tol) (tr : Pt XQ × Pt XQ × Pt XQ) (hft : FinTri tr)
    (hI : CloseOnTri (triQ tr) (integrand3 f c) terms' δ')
    (d : Disp3D XQ) (hD : IsDisplayOf F C cfg tr d) (v e : XQ) (hv : d.integ = some (v, e)) :
    d.triag = finTri (triQ tr) ∧
      ∃ v' e' : Rat, v = .fin v' ∧ e = .fin e' ∧
        |v' - triExactQ terms' (triQ tr)| ≤ triBoundApproxQ terms' (triQ tr) δ' ∧
        e' < tol ∧ 0 ≤ e' := by
  have ht : d.triag = triOf tr := by
    have := congrArg Disp3D.triag hD.1
    rwa [disp3DNew_triag] at this
  refine ⟨by rw [ht, triOf_fin hft], ?_⟩
  rcases hD.2 with ⟨_, hn⟩ | ⟨_, w, hw, hg⟩
  · rw [hn] at hv; cases hv
  · rw [hw] at hv
    cases hv
    rw [triOf_fin hft, htol,
      gkTriangle_fin (integrand3 F C) (integrand3 f c) (integrand3_fin F f C c hF hC)] at hg
    obtain ⟨v', e', hr, rfl, rfl⟩ := finRes_eq_ok hg
    exact ⟨v', e', rfl, rfl,
      triangle_accuracy_approx terms' hdeg _ (triQ tr) δ' hI tol _ v' e' hr⟩

/-- **(L1) `cav3_piece_accuracy_approx`.**  Let the closures `F`, `C` over `XQ` be the images of
    closures `f`, `c` over `Rat` on finite dual numbers (`HomF`, `HomC`), and let the integrand
    `f · absJacobianDet g` over `Rat` be ARBITRARY but within `δ'` of the polynomial with the terms
    `terms'` (total degree ≤ 30) at the points of the triangle `d.triag` with rational barycentric
    coordinates.  For finite polygons and a finite tolerance `tol`: if `gen_display_cav` succeeds,
    a display `d` with a stored value `(v, e)` has a finite triangle, finite `v` and `e`,
    `|v − I(d.triag)| ≤ triBoundApproxQ terms' (d.triag) δ'` and `0 ≤ e < tol`, where
    `I(t) = triExactQ terms' t` is the exact iterated integral of the transformed polynomial over
    the unit simplex — after any number of outer and inner bisections of the triangle routine. -/
theorem cav3_piece_accuracy_approx (F : AD XQ × AD XQ → AD XQ) (f : AD Rat × AD Rat → AD Rat)
    (C : AD XQ → AD XQ × AD XQ) (c : AD Rat → AD Rat × AD Rat) (hF : HomF F f) (hC : HomC C c)
    (terms' : List (Nat × Nat × Rat)) (hdeg : DegLe 30 terms') (δ' : Rat)
    (polys : List (Array (Pt XQ)))
    (hfin : ∀ p ∈ SweepSetup.allPts polys, Finite p) (cfg : Cfg3D XQ) (tol : Rat)
    (htol : cfg.tol = .fin tol) (ds : List (Disp3D XQ))
    (h : genDisplayCav3 F C polys cfg = .ok ds) (d : Disp3D XQ) (hd : d ∈ ds)
    (hI : CloseOnTri (ratTri d.triag) (integrand3 f c) terms' δ')
    (v e : XQ) (hv : d.integ = some (v, e)) :
    d.triag = finTri (ratTri d.triag) ∧ v = .fin (toRat v) ∧ e = .fin (toRat e) ∧
      |toRat v - triExactQ terms' (ratTri d.triag)| ≤ triBoundApproxQ terms' (ratTri d.triag) δ' ∧
      toRat e < tol ∧ 0 ≤ toRat e := by
  rw [genDisplayCav3_eq] at h
  cases hs : sweep polys with
  | error err => rw [hs] at h; cases h
  | ok tris =>
    rw [hs] at h
    obtain ⟨tr, htr, hE⟩ := mapE_mem h hd
    have hD := tri3E_ok F C cfg tr d hE
    have ht : d.triag = triOf tr := by
      have := congrArg Disp3D.triag hD.1
      rwa [disp3DNew_triag] at this
    rw [ht, ratTri_triOf] at hI
    obtain ⟨ht', v', e', rfl, rfl, hacc⟩ := piece_of_display_approx F f C c hF hC terms' hdeg δ'
      cfg tol htol tr (sweep_finTri hfin hs tr htr) hI d hD v e hv
    rw [ht', ratTri_finTri]
    exact ⟨rfl, rfl, rfl, hacc⟩

/-- (L1) the same when the integrand is within `δ'` of the polynomial at every rational point -/
theorem cav3_piece_accuracy_approx_of_forall (F : AD XQ × AD XQ → AD XQ)
    (f : AD Rat × AD Rat → AD Rat)
    (C : AD XQ → AD XQ × AD XQ) (c : AD Rat → AD Rat × AD Rat) (hF : HomF F f) (hC : HomC C c)
    (terms' : List (Nat × Nat × Rat)) (δ' : Rat)
    (hI : ∀ x y : Rat, |integrand3 f c x y - evalTerms terms' x y| ≤ δ')
    (hdeg : DegLe 30 terms') (polys : List (Array (Pt XQ)))
    (hfin : ∀ p ∈ SweepSetup.allPts polys, Finite p) (cfg : Cfg3D XQ) (tol : Rat)
    (htol : cfg.tol = .fin tol) (ds : List (Disp3D XQ))
    (h : genDisplayCav3 F C polys cfg = .ok ds) (d : Disp3D XQ) (hd : d ∈ ds) (v e : XQ)
    (hv : d.integ = some (v, e)) :
    d.triag = finTri (ratTri d.triag) ∧ v = .fin (toRat v) ∧ e = .fin (toRat e) ∧
      |toRat v - triExactQ terms' (ratTri d.triag)| ≤ triBoundApproxQ terms' (ratTri d.triag) δ' ∧
      toRat e < tol ∧ 0 ≤ toRat e :=
  cav3_piece_accuracy_approx F f C c hF hC terms' hdeg δ' polys hfin cfg tol htol ds h d hd
    (CloseOnTri.of_forall hI) v e hv

/-! ## (L2) the whole triangulation -/

/-- **(L2) `cav3_total_approx`, general form.**  The polynomial and the distance `δ'` may depend on
    the triangle, and the integrand has to be within `δ' t` of `terms' t` only at the points of that
    triangle, for every triangle of `sweep polys`.  With integration switched on: the displays
    correspond one-to-one to the triangles of `sweep polys`, every display stores a finite value,
    and the sum of the stored values is within the sum of the per-triangle bounds
    `triBoundApproxQ` of the sum of the exact per-triangle integrals of the polynomials. -/
theorem cav3_total_approx_local (F : AD XQ × AD XQ → AD XQ) (f : AD Rat × AD Rat → AD Rat)
    (C : AD XQ → AD XQ × AD XQ) (c : AD Rat → AD Rat × AD Rat) (hF : HomF F f) (hC : HomC C c)
    (terms' : (Rat × Rat) × (Rat × Rat) × (Rat × Rat) → List (Nat × Nat × Rat))
    (δ' : (Rat × Rat) × (Rat × Rat) × (Rat × Rat) → Rat)
    (polys : List (Array (Pt XQ)))
    (hloc : ∀ tris, sweep polys = .ok tris → ∀ tr ∈ tris, DegLe 30 (terms' (triQ tr)) ∧
      CloseOnTri (triQ tr) (integrand3 f c) (terms' (triQ tr)) (δ' (triQ tr)))
    (hfin : ∀ p ∈ SweepSetup.allPts polys, Finite p) (cfg : Cfg3D XQ) (tol : Rat)
    (htol : cfg.tol = .fin tol) (hci : cfg.computeInteg = true) (ds : List (Disp3D XQ))
    (h : genDisplayCav3 F C polys cfg = .ok ds) :
    ∃ tris, sweep polys = .ok tris ∧ ds.map (·.triag) = tris.map triOf ∧
      (∀ d ∈ ds, ∃ v e : Rat, d.integ = some (.fin v, .fin e)) ∧
      |(ds.map dispVal).sum - (tris.map fun tr => triExactQ (terms' (triQ tr)) (triQ tr)).sum| ≤
        (tris.map fun tr => triBoundApproxQ (terms' (triQ tr)) (triQ tr) (δ' (triQ tr))).sum := by
  obtain ⟨tris, hs, hf⟩ := cav3_integ_per_triangle F C polys cfg ds h
  obtain ⟨tris', hs', -, hmap⟩ := cav3_count_and_triag F C polys cfg ds h
  rw [hs] at hs'
  cases hs'
  have hpiece : ∀ tr ∈ tris, ∀ d, IsDisplayOf F C cfg tr d →
      ∃ v' e' : Rat, d.integ = some (.fin v', .fin e') ∧
        |v' - triExactQ (terms' (triQ tr)) (triQ tr)| ≤
          triBoundApproxQ (terms' (triQ tr)) (triQ tr) (δ' (triQ tr)) := by
    intro tr htr d hD
    have hft := sweep_finTri hfin hs tr htr
    obtain ⟨hdeg, hI⟩ := hloc tris hs tr htr
    rcases hD.2 with ⟨hc, _⟩ | ⟨_, ⟨v, e⟩, hw, _⟩
    · rw [hc] at hci; cases hci
    · obtain ⟨-, v', e', rfl, rfl, hacc, -⟩ := piece_of_display_approx F f C c hF hC
        (terms' (triQ tr)) hdeg (δ' (triQ tr)) cfg tol htol tr hft hI d hD v e hw
      exact ⟨v', e', hw, hacc⟩
  refine ⟨tris, hs, hmap, ?_, ?_⟩
  · intro d hd
    rw [genDisplayCav3_eq, hs] at h
    obtain ⟨tr, htr, hE⟩ := mapE_mem h hd
    obtain ⟨v', e', hw, -⟩ := hpiece tr htr d (tri3E_ok F C cfg tr d hE)
    exact ⟨v', e', hw⟩
  · refine sum_abs_sub_le (IsDisplayOf F C cfg) dispVal _ _ hf ?_
    intro tr htr d hD
    obtain ⟨v', e', hw, hacc⟩ := hpiece tr htr d hD
    have : dispVal d = v' := by simp only [dispVal, hw]; rfl
    rw [this]
    exact hacc

/-- **(L2)** for an integrand within one `δ'` of one polynomial `terms'` at every rational point:
    the sum of the stored values is within `Σ_t triBoundApproxQ terms' t δ'` of the sum of the
    exact per-triangle integrals of the polynomial. -/
theorem cav3_total_approx (F : AD XQ × AD XQ → AD XQ) (f : AD Rat × AD Rat → AD Rat)
    (C : AD XQ → AD XQ × AD XQ) (c : AD Rat → AD Rat × AD Rat) (hF : HomF F f) (hC : HomC C c)
    (terms' : List (Nat × Nat × Rat)) (δ' : Rat)
    (hI : ∀ x y : Rat, |integrand3 f c x y - evalTerms terms' x y| ≤ δ')
    (hdeg : DegLe 30 terms') (polys : List (Array (Pt XQ)))
    (hfin : ∀ p ∈ SweepSetup.allPts polys, Finite p) (cfg : Cfg3D XQ) (tol : Rat)
    (htol : cfg.tol = .fin tol) (hci : cfg.computeInteg = true) (ds : List (Disp3D XQ))
    (h : genDisplayCav3 F C polys cfg = .ok ds) :
    ∃ tris, sweep polys = .ok tris ∧ ds.map (·.triag) = tris.map triOf ∧
      (∀ d ∈ ds, ∃ v e : Rat, d.integ = some (.fin v, .fin e)) ∧
      |(ds.map dispVal).sum - (tris.map fun tr => triExactQ terms' (triQ tr)).sum| ≤
        (tris.map fun tr => triBoundApproxQ terms' (triQ tr) δ').sum :=
  cav3_total_approx_local F f C c hF hC (fun _ => terms') (fun _ => δ') polys
    (fun _ _ _ _ => ⟨hdeg, CloseOnTri.of_forall hI⟩) hfin cfg tol htol hci ds h

end Cav.C08Approx
