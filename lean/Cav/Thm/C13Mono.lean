/-
  C13 — "pieces on which both the integrand f and the integrator g are strictly monotone".

  The Riemann–Stieltjes display cuts an interval at the points returned by
  `splitTranslational f g xv tol m`.  That list is obtained (`C13Split.splitTranslational_ok`,
  `C13.splitTranslational_eq`) by computing the monotonicity roots `fr` of `f` and `gr` of `g` with
  `splitStrictlyMonotone`, merging and sorting them, and replacing every cluster of nearby roots by
  its arithmetic mean.

  (L1) `rs_both_strictMono_of_far`: on a real interval `[u, v]` inside the hull of the shifted grid
       all of whose points are at least `2·tol` away from every un-clustered root of `f` and of `g`,
       BOTH real functions are strictly monotone (each one increasing or decreasing).  This is
       `C11Glue.strictMono_between_boundaries` applied once to `f` and once to `g`.
  (L2) `root_near_split_point`: every un-clustered root lies within `4·tol` of some split point
       (each member of a cluster is within `2·tol` of the cluster's first member, and so is the
       cluster's mean).  `rs_both_strictMono_of_far_from_split_points`: hence the distance condition
       of (L1) may be stated on the SPLIT POINTS: `6·tol` away from every split point suffices.

  The hypotheses on the zeros of the two derivatives are the explicit `hsep` / `hchg` of
  `C11Glue.strictMono_between_boundaries`, once for each function.  Nothing is claimed in the two end
  strips of width `tol` outside the hull, nor inside the neighbourhoods of the split points.
-/
import Cav.Thm.C11Glue
import Cav.Thm.C13Split

namespace Cav.C13Mono
open Cav Num Gen Cav.BrentL Cav.SplitL Cav.C13Split Cav.C11Roots Cav.C11Mono Cav.C11Glue

/-- "every closed cell of the shifted grid contains at most one real zero of `F`" -/
def CellSep (F : ℝ → ℝ) (xv : List Rat) (tol : Rat) : Prop :=
  ∀ i, 1 ≤ i → i < xv.length → ∀ ζ ζ' : ℝ, F ζ = 0 → F ζ' = 0 →
    InCellR (gridSign xv) ((shiftedGrid xv tol).getD (i - 1) 0) ((shiftedGrid xv tol).getD i 0) ζ →
    InCellR (gridSign xv) ((shiftedGrid xv tol).getD (i - 1) 0) ((shiftedGrid xv tol).getD i 0) ζ' →
    ζ' = ζ

/-- "a closed cell of the shifted grid that contains a real zero of `F` has grid ends at which the
    computed derivative of `f` has opposite strict signs" -/
def CellChg (f : AD Rat → AD Rat) (F : ℝ → ℝ) (xv : List Rat) (tol : Rat) : Prop :=
  ∀ i, 1 ≤ i → i < xv.length → ∀ ζ : ℝ, F ζ = 0 →
    InCellR (gridSign xv) ((shiftedGrid xv tol).getD (i - 1) 0) ((shiftedGrid xv tol).getD i 0) ζ →
    D1.df f ((shiftedGrid xv tol).getD (i - 1) 0) * D1.df f ((shiftedGrid xv tol).getD i 0) < 0

/-- **(L1).**  Let `splitTranslational f g xv tol m` succeed on a grid of at least two points.  Then
    the two root lists `fr` (of `f`) and `gr` (of `g`) it was built from exist, and: for continuous
    real extensions `Ff`, `Fg` of the computed derivatives of `f`, `g`, real functions `Gf`, `Gg`
    with these derivatives, and the cell hypotheses (`CellSep`, `CellChg`) for both functions, on
    every real interval `[u, v]` with both ends in the hull of the shifted grid and all points at
    least `2·tol` away from every element of `fr` and of `gr`, `Gf` is strictly increasing or strictly
    decreasing, AND `Gg` is strictly increasing or strictly decreasing (with the derivative of the
    corresponding strict sign throughout `[u, v]`). -/
theorem rs_both_strictMono_of_far (f g : AD Rat → AD Rat) (Ff Fg Gf Gg : ℝ → ℝ)
    (hFfc : Continuous Ff) (hFgc : Continuous Fg)
    (hFf : ∀ q : Rat, Ff (q : ℝ) = ((D1.df f q : Rat) : ℝ))
    (hFg : ∀ q : Rat, Fg (q : ℝ) = ((D1.df g q : Rat) : ℝ))
    (hGf : ∀ z, HasDerivAt Gf (Ff z) z) (hGg : ∀ z, HasDerivAt Gg (Fg z) z)
    (xv : List Rat) (tol : Rat) (m : Nat) (r : List Rat) (hc : CellHyp xv tol) (htol : 0 < tol)
    (hn : 2 ≤ xv.length)
    (hsepf : CellSep Ff xv tol) (hchgf : CellChg f Ff xv tol)
    (hsepg : CellSep Fg xv tol) (hchgg : CellChg g Fg xv tol)
    (h : splitTranslational f g xv tol m = .ok r) :
    ∃ fr gr, splitStrictlyMonotone f xv tol m = .ok fr ∧ splitStrictlyMonotone g xv tol m = .ok gr ∧
      r = clusterRoots tol (stableSort (transCmp (transSign xv)) (fr ++ gr)).toArray ∧
      ∀ u v : ℝ, InHull xv tol u → InHull xv tol v →
        (∀ z ∈ Set.Icc u v, ∀ y ∈ fr ++ gr, 2 * (tol : ℝ) ≤ |(y : ℝ) - z|) →
        (((∀ w ∈ Set.Icc u v, 0 < Ff w) ∧ StrictMonoOn Gf (Set.Icc u v)) ∨
          ((∀ w ∈ Set.Icc u v, Ff w < 0) ∧ StrictAntiOn Gf (Set.Icc u v))) ∧
        (((∀ w ∈ Set.Icc u v, 0 < Fg w) ∧ StrictMonoOn Gg (Set.Icc u v)) ∨
          ((∀ w ∈ Set.Icc u v, Fg w < 0) ∧ StrictAntiOn Gg (Set.Icc u v))) := by
  obtain ⟨fr, gr, hfr, hgr, hr⟩ := splitTranslational_ok f g xv tol m r (by omega) h
  refine ⟨fr, gr, hfr, hgr, hr, ?_⟩
  intro u v hu hv hfar
  refine ⟨?_, ?_⟩
  · exact strictMono_between_boundaries f Ff Gf hFfc hFf hGf xv tol m fr hc htol hn hsepf hchgf hfr
      u v hu hv (fun z hz y hy => hfar z hz y (List.mem_append_left _ hy))
  · exact strictMono_between_boundaries g Fg Gg hFgc hFg hGg xv tol m gr hc htol hn hsepg hchgg hgr
      u v hu hv (fun z hz y hy => hfar z hz y (List.mem_append_right _ hy))

/-- **(L2), clustering radius.**  For `0 ≤ tol` and a grid of at least two points: every un-clustered
    root (element of `fr ++ gr`) lies within `4·tol` of some split point returned by
    `splitTranslational` — namely the mean of its cluster: every member of a cluster is within
    `2·tol` of the cluster's first member, hence so is the mean. -/
theorem root_near_split_point (f g : AD Rat → AD Rat) (xv : List Rat) (tol : Rat) (m : Nat)
    (r fr gr : List Rat) (h0 : 0 ≤ tol) (hn : 2 ≤ xv.length)
    (hfr : splitStrictlyMonotone f xv tol m = .ok fr)
    (hgr : splitStrictlyMonotone g xv tol m = .ok gr)
    (h : splitTranslational f g xv tol m = .ok r) :
    ∀ y ∈ fr ++ gr, ∃ x ∈ r, |y - x| ≤ 4 * tol := by
  obtain ⟨fr', gr', hfr', hgr', rfl⟩ := splitTranslational_ok f g xv tol m r (by omega) h
  rw [hfr] at hfr'; rw [hgr] at hgr'
  cases hfr'; cases hgr'
  intro y hy
  obtain ⟨e, hfl, hg⟩ :=
    cluster_width tol (stableSort (transCmp (transSign xv)) (fr ++ gr)).toArray h0
  have hy' : y ∈ (stableSort (transCmp (transSign xv)) (fr ++ gr)).toArray.toList := by
    simpa using (stableSort_perm (transCmp (transSign xv)) (fr ++ gr)).mem_iff.mpr hy
  rw [← hfl] at hy'
  obtain ⟨grp, hgm, hyg⟩ := List.mem_flatten.mp hy'
  obtain ⟨hne, hw⟩ := hg grp hgm
  refine ⟨mean grp, ?_, ?_⟩
  · rw [e]; exact List.mem_map.mpr ⟨grp, hgm, rfl⟩
  · have hb := mean_bounds grp (grp.headD 0 - 2 * tol) (grp.headD 0 + 2 * tol) hne (fun x hx => by
      have := abs_le.mp (hw x hx)
      constructor <;> linarith [this.1, this.2])
    have hyb := abs_le.mp (hw y hyg)
    rw [abs_le]
    constructor <;> linarith [hb.1, hb.2, hyb.1, hyb.2]

/-- **(L2), distance to the split points.**  Hypotheses of `rs_both_strictMono_of_far`.  If `[u, v]`
    is a real interval with both ends in the hull of the shifted grid all of whose points are at
    least `6·tol` away from every SPLIT POINT (every element of the list `r` returned by
    `splitTranslational`), then both `Gf` and `Gg` are strictly increasing or strictly decreasing on
    `[u, v]` (each with its derivative of the corresponding strict sign throughout). -/
theorem rs_both_strictMono_of_far_from_split_points (f g : AD Rat → AD Rat) (Ff Fg Gf Gg : ℝ → ℝ)
    (hFfc : Continuous Ff) (hFgc : Continuous Fg)
    (hFf : ∀ q : Rat, Ff (q : ℝ) = ((D1.df f q : Rat) : ℝ))
    (hFg : ∀ q : Rat, Fg (q : ℝ) = ((D1.df g q : Rat) : ℝ))
    (hGf : ∀ z, HasDerivAt Gf (Ff z) z) (hGg : ∀ z, HasDerivAt Gg (Fg z) z)
    (xv : List Rat) (tol : Rat) (m : Nat) (r : List Rat) (hc : CellHyp xv tol) (htol : 0 < tol)
    (hn : 2 ≤ xv.length)
    (hsepf : CellSep Ff xv tol) (hchgf : CellChg f Ff xv tol)
    (hsepg : CellSep Fg xv tol) (hchgg : CellChg g Fg xv tol)
    (h : splitTranslational f g xv tol m = .ok r) (u v : ℝ)
    (hu : InHull xv tol u) (hv : InHull xv tol v)
    (hfar : ∀ z ∈ Set.Icc u v, ∀ x ∈ r, 6 * (tol : ℝ) ≤ |(x : ℝ) - z|) :
    (((∀ w ∈ Set.Icc u v, 0 < Ff w) ∧ StrictMonoOn Gf (Set.Icc u v)) ∨
      ((∀ w ∈ Set.Icc u v, Ff w < 0) ∧ StrictAntiOn Gf (Set.Icc u v))) ∧
    (((∀ w ∈ Set.Icc u v, 0 < Fg w) ∧ StrictMonoOn Gg (Set.Icc u v)) ∨
      ((∀ w ∈ Set.Icc u v, Fg w < 0) ∧ StrictAntiOn Gg (Set.Icc u v))) := by
  obtain ⟨fr, gr, hfr, hgr, _, hmono⟩ :=
    rs_both_strictMono_of_far f g Ff Fg Gf Gg hFfc hFgc hFf hFg hGf hGg xv tol m r hc htol hn
      hsepf hchgf hsepg hchgg h
  refine hmono u v hu hv ?_
  intro z hz y hy
  obtain ⟨x, hx, hxy⟩ := root_near_split_point f g xv tol m r fr gr htol.le hn hfr hgr h y hy
  have h6 := hfar z hz x hx
  have hxy' : |(y : ℝ) - (x : ℝ)| ≤ 4 * (tol : ℝ) := by exact_mod_cast hxy
  have htri : |(x : ℝ) - z| ≤ |(y : ℝ) - (x : ℝ)| + |(y : ℝ) - z| := by
    have := abs_sub_le (x : ℝ) (y : ℝ) z
    rwa [abs_sub_comm (x : ℝ) (y : ℝ)] at this
  linarith

end Cav.C13Mono
