/-
  C11 — the monotonicity clause with hypotheses about the derivative only.

  `C11Glue.strictMono_on_trimmed_piece` (cells glued, Mathlib `StrictMonoOn`) still assumed `hchg`
  ("a cell that contains a real zero of g' has grid-end derivatives of opposite strict sign");
  `C11Simple.hchg_of_simple_zeros` derives `hchg` from: g' is non-zero at every sampled grid point,
  every closed cell holds at most one real zero, and every zero is simple.  Together:

  PROPERTY TEXT: "When the sign changes of the derivative of g are separated by more than one sampling
  cell, g is strictly monotone on every piece … and no boundary is placed where g' touches zero
  without changing sign."

  THEOREM (`strictMono_on_trimmed_piece_of_simple`): let `F` be continuous with `F = g'` at the
  rationals and `G' = F`; if `F` does not vanish at the sampled grid points (`GridNonzero`), has at
  most one real zero per closed cell (`ZerosSeparated`) and only simple zeros (`ZerosSimple`), then for
  every successful call and every way of cutting the returned boundary list in two, `G` is
  `StrictMonoOn` or `StrictAntiOn` on any `[u,v]` of the hull that stays `2·tol` beyond the last
  boundary before the cut and `2·tol` before the first boundary after it.
  Not claimed: the `2·tol` neighbourhoods of the boundaries, the two `tol`-wide end strips.
  Non-vacuity: `C11FinalEx.fine_middle_piece_strictAnti` applies the theorem to the kernel-evaluated run
  (`fineGrid`, `exG`) with every hypothesis discharged:
  `C11Mono.fine_run`, `fine_cellHyp`, `C11Simple.fine_gridNonzero`, `fine_zerosSeparated`,
  `fine_second_deriv` (simple zeros), `C11Glue.fine_inHull` and the examples at the end of those files.
-/
import Cav.Thm.C11Glue
import Cav.Thm.C11Simple

namespace Cav.C11Final
open Cav Num Gen Cav.BrentL Cav.SplitL Cav.C13Split Cav.C11Roots Cav.C11Mono Cav.C01 Cav.C07Accuracy
open Cav.RootGlue Cav.C11Glue Cav.C11Simple

/-- the monotonicity clause of C11 from hypotheses about `F = g'` only -/
theorem strictMono_on_trimmed_piece_of_simple (f : AD Rat → AD Rat) (F G : ℝ → ℝ)
    (hF : Continuous F) (hFf : ∀ q : Rat, F (q : ℝ) = ((D1.df f q : Rat) : ℝ))
    (hG : ∀ z, HasDerivAt G (F z) z)
    (xv : List Rat) (tol : Rat) (m : Nat) (l₁ l₂ : List Rat) (hc : CellHyp xv tol) (htol : 0 < tol)
    (hn : 2 ≤ xv.length)
    (hne : GridNonzero f xv tol) (hsep : ZerosSeparated F xv tol) (hsimple : ZerosSimple F xv tol)
    (h : splitStrictlyMonotone f xv tol m = .ok (l₁ ++ l₂)) (u v : ℝ)
    (hu : InHull xv tol u) (hv : InHull xv tol v)
    (hp : ∀ p, l₁.getLast? = some p →
      ((gridSign xv : Rat) : ℝ) * (p : ℝ) + 2 * (tol : ℝ) ≤ ((gridSign xv : Rat) : ℝ) * u ∧
      ((gridSign xv : Rat) : ℝ) * (p : ℝ) + 2 * (tol : ℝ) ≤ ((gridSign xv : Rat) : ℝ) * v)
    (hq : ∀ q, l₂.head? = some q →
      ((gridSign xv : Rat) : ℝ) * u ≤ ((gridSign xv : Rat) : ℝ) * (q : ℝ) - 2 * (tol : ℝ) ∧
      ((gridSign xv : Rat) : ℝ) * v ≤ ((gridSign xv : Rat) : ℝ) * (q : ℝ) - 2 * (tol : ℝ)) :
    ((∀ w ∈ Set.Icc u v, 0 < F w) ∧ StrictMonoOn G (Set.Icc u v)) ∨
    ((∀ w ∈ Set.Icc u v, F w < 0) ∧ StrictAntiOn G (Set.Icc u v)) :=
  strictMono_on_trimmed_piece f F G hF hFf hG xv tol m l₁ l₂ hc htol hn hsep
    (hchg_of_simple_zeros f F hF hFf xv tol hne hsep hsimple) h u v hu hv hp hq

/-- the same for any two hull points whose segment keeps `2·tol` away from every boundary: `g'` has
    one strict sign on it -/
theorem deriv_same_sign_global_of_simple (f : AD Rat → AD Rat) (F : ℝ → ℝ)
    (hF : Continuous F) (hFf : ∀ q : Rat, F (q : ℝ) = ((D1.df f q : Rat) : ℝ))
    (xv : List Rat) (tol : Rat) (m : Nat) (res : List Rat) (hc : CellHyp xv tol) (htol : 0 < tol)
    (hn : 2 ≤ xv.length)
    (hne : GridNonzero f xv tol) (hsep : ZerosSeparated F xv tol) (hsimple : ZerosSimple F xv tol)
    (h : splitStrictlyMonotone f xv tol m = .ok res) (x y : ℝ)
    (hx : InHull xv tol x) (hy : InHull xv tol y)
    (hfar : ∀ z : ℝ, min x y ≤ z → z ≤ max x y → ∀ r ∈ res, 2 * (tol : ℝ) ≤ |(r : ℝ) - z|) :
    0 < F x * F y :=
  deriv_same_sign_outside_neighbourhoods_global f F hF hFf xv tol m res hc htol hn hsep
    (hchg_of_simple_zeros f F hF hFf xv tol hne hsep hsimple) h x y hx hy hfar

end Cav.C11Final
