/-
  C08 — `gen_display_cav` (3-D): one display per triangle of the triangulation, each with the
  triangle quadrature of `f · |det Dg|`, `g(x) = x − c(f(x))`, over exactly its own triangle;
  the Jacobian weight does not see additive constants of the `c`-curve.

  * sections 1–2: STRUCTURAL (every `Num α`; no law of arithmetic): the triangle loop, and
    `absJacobianDet g` only reads the tangent parts of `c`.
  * section 3: over `Rat`: adding constants to the `c`-curve changes neither the weight nor any
    display.

  Model path: `genDisplayCav3` (`go`), `disp3DNew`, `absJacobianDet`, `AD.sub`, `AD.add`;
  `sweep` and `gkTriangle` are opaque (only their results are named).
  The concrete instance at the end runs over `XQ` (exact arithmetic with IEEE special values),
  because the sweep starts at `x = −∞`, which `Rat` cannot represent.
-/
import Cav.Lemmas.Disp3D
import Cav.Inst.XQ
import Cav.Thm.C10
import Cav.Thm.C14

namespace Cav.C08
open Cav Num Gen Cav.DispL

/-! ## 1. one display per triangle, with the quadrature over exactly that triangle -/

section
variable {α : Type} [Num α]

/-- the integrand of the triangle quadrature: `f(x,y) · |det Dg(x,y)|` -/
def integrand3 (f : AD α × AD α → AD α) (c : AD α → AD α × AD α) : α → α → α :=
  fun x y => (f (AD.ofF x, AD.ofF y)).v * absJacobianDet (gAD3 f c) (x, y)

/-- what the loop records for the sweep triangle `tr` -/
def IsDisplayOf (f : AD α × AD α → AD α) (c : AD α → AD α × AD α) (cfg : Cfg3D α)
    (tr : Pt α × Pt α × Pt α) (d : Disp3D α) : Prop :=
  d = disp3DNew (fPlain3 f) (cPlain3 c) (triOf tr) d.integ cfg ∧
  ((cfg.computeInteg = false ∧ d.integ = none) ∨
   (cfg.computeInteg = true ∧ ∃ v, d.integ = some v ∧
      (gkTriangle (integrand3 f c) (triOf tr) cfg.tol (some cfg.maxIntIters)).res = .ok v))

theorem tri3E_ok (f : AD α × AD α → AD α) (c : AD α → AD α × AD α) (cfg : Cfg3D α)
    (tr : Pt α × Pt α × Pt α) (d : Disp3D α)
    (h : tri3E f cfg (fPlain3 f) (cPlain3 c) (gAD3 f c) tr = .ok d) : IsDisplayOf f c cfg tr d := by
  unfold tri3E at h
  split at h
  · cases h
  · rename_i iv hI
    cases h
    unfold IsDisplayOf
    rw [disp3DNew_integ]
    refine ⟨rfl, ?_⟩
    unfold integ3E at hI
    by_cases hc : cfg.computeInteg = true
    · rw [if_pos hc] at hI
      right
      refine ⟨hc, ?_⟩
      split at hI
      · rename_i v hv
        cases hI
        exact ⟨v, rfl, hv⟩
      · cases hI
    · rw [if_neg hc] at hI
      cases hI
      exact Or.inl ⟨by simpa using hc, rfl⟩

/-- **C08 main (structural)**: a successful run is: the sweep succeeded with triangles `tris`,
    and the displays correspond one-to-one, in order, to the triangles; display `k` is
    `CavDisplay3D::new` on triangle `k` and carries the `gkTriangle` result over triangle `k`
    with integrand `f · absJacobianDet g` (or `None` when integration is off). -/
theorem cav3_integ_per_triangle (f : AD α × AD α → AD α) (c : AD α → AD α × AD α)
    (polys : List (Array (Pt α))) (cfg : Cfg3D α) (ds : List (Disp3D α))
    (h : genDisplayCav3 f c polys cfg = .ok ds) :
    ∃ tris, sweep polys = .ok tris ∧ Forall2 (IsDisplayOf f c cfg) tris ds := by
  rw [genDisplayCav3_eq] at h
  cases hs : sweep polys with
  | error e => rw [hs] at h; cases h
  | ok tris =>
    rw [hs] at h
    refine ⟨tris, rfl, ?_⟩
    have hf := (mapE_ok_iff _ _ _).mp h
    clear h hs
    induction hf with
    | nil => exact Forall2.nil
    | cons h1 _ ih => exact Forall2.cons (tri3E_ok f c cfg _ _ h1) ih

/-- as many displays as triangles, and display `k` belongs to triangle `k` -/
theorem cav3_count_and_triag (f : AD α × AD α → AD α) (c : AD α → AD α × AD α)
    (polys : List (Array (Pt α))) (cfg : Cfg3D α) (ds : List (Disp3D α))
    (h : genDisplayCav3 f c polys cfg = .ok ds) :
    ∃ tris, sweep polys = .ok tris ∧ ds.length = tris.length ∧ ds.map (·.triag) = tris.map triOf := by
  obtain ⟨tris, hs, hf⟩ := cav3_integ_per_triangle f c polys cfg ds h
  refine ⟨tris, hs, hf.length_eq.symm, ?_⟩
  clear hs h
  induction hf with
  | nil => rfl
  | cons h1 _ ih =>
    simp only [List.map_cons, ih]
    rw [h1.1, disp3DNew_triag]

/-- `integ = None` iff integration was not requested -/
theorem cav3_integ_none_iff (f : AD α × AD α → AD α) (c : AD α → AD α × AD α)
    (polys : List (Array (Pt α))) (cfg : Cfg3D α) (ds : List (Disp3D α))
    (h : genDisplayCav3 f c polys cfg = .ok ds) (d : Disp3D α) (hd : d ∈ ds) :
    d.integ = none ↔ cfg.computeInteg = false := by
  rw [genDisplayCav3_eq] at h
  cases hs : sweep polys with
  | error e => rw [hs] at h; cases h
  | ok tris =>
    rw [hs] at h
    obtain ⟨tr, _, htr⟩ := mapE_mem h hd
    rcases (tri3E_ok f c cfg tr d htr).2 with ⟨hc, hn⟩ | ⟨hc, v, hv, _⟩
    · simp [hc, hn]
    · simp [hc, hv]

/-- with C10: every stored error estimate is honest -/
theorem cav3_integ_honest (f : AD α × AD α → AD α) (c : AD α → AD α × AD α)
    (polys : List (Array (Pt α))) (cfg : Cfg3D α) (ds : List (Disp3D α))
    (h : genDisplayCav3 f c polys cfg = .ok ds) (d : Disp3D α) (hd : d ∈ ds) (v e : α)
    (hv : d.integ = some (v, e)) :
    (Num.beq (zero : α) one = true ∧ v = zero ∧ e = zero) ∨
      (Num.isNaN e = false ∧ Num.lt e cfg.tol = true) := by
  rw [genDisplayCav3_eq] at h
  cases hs : sweep polys with
  | error e => rw [hs] at h; cases h
  | ok tris =>
    rw [hs] at h
    obtain ⟨tr, _, htr⟩ := mapE_mem h hd
    rcases (tri3E_ok f c cfg tr d htr).2 with ⟨_, hn⟩ | ⟨_, w, hw, hg⟩
    · rw [hn] at hv; cases hv
    · rw [hw] at hv; cases hv
      exact C10.gkTriangle_ok_honest _ _ _ _ _ _ hg

/-- a triangulation failure is reported as such and nothing else is computed -/
theorem cav3_sweep_error (f : AD α × AD α → AD α) (c : AD α → AD α × AD α)
    (polys : List (Array (Pt α))) (cfg : Cfg3D α) (e : SErr α) (hs : sweep polys = .error e) :
    genDisplayCav3 f c polys cfg = .error (.tri e) := by
  rw [genDisplayCav3_eq, hs]

/-! ## 2. the Jacobian weight only reads the tangent parts of `c` (structural) -/

/-- if `c'` and `c` have the same tangent parts, `g' = x − c'(f(x))` and `g = x − c(f(x))` have
    the same `absJacobianDet` — for every `Num α`, no arithmetic law needed -/
theorem absJacDet_tangent_invariant (f : AD α × AD α → AD α) (c c' : AD α → AD α × AD α)
    (hd : ∀ a, (c' a).1.d = (c a).1.d ∧ (c' a).2.d = (c a).2.d) :
    absJacobianDet (gAD3 f c') = absJacobianDet (gAD3 f c) := by
  funext x
  simp only [absJacobianDet, gAD3, AD.sub, (hd _).1, (hd _).2]

end

/-! ## 3. over `Rat`: additive constants of the `c`-curve -/

/-- `c'` is `c` plus the constant `(k₁, k₂)` (constants have tangent `0`) -/
def IsOffset (c c' : AD Rat → AD Rat × AD Rat) (k : Rat × Rat) : Prop :=
  ∀ a, (c' a).1 = AD.add (c a).1 ⟨k.1, 0⟩ ∧ (c' a).2 = AD.add (c a).2 ⟨k.2, 0⟩

/-- **C08**: adding constants to the `c`-curve does not change `absJacobianDet g` -/
theorem absJacDet_offset_invariant (f : AD Rat × AD Rat → AD Rat) (c c' : AD Rat → AD Rat × AD Rat)
    (k : Rat × Rat) (hk : IsOffset c c' k) :
    absJacobianDet (gAD3 f c') = absJacobianDet (gAD3 f c) :=
  absJacDet_tangent_invariant f c c' (fun a => by
    rw [(hk a).1, (hk a).2]; simp [AD.add])

/-- … hence the integrand of the triangle quadrature is unchanged … -/
theorem integrand3_offset_invariant (f : AD Rat × AD Rat → AD Rat)
    (c c' : AD Rat → AD Rat × AD Rat) (k : Rat × Rat) (hk : IsOffset c c' k) :
    integrand3 f c' = integrand3 f c := by
  unfold integrand3
  rw [absJacDet_offset_invariant f c c' k hk]

/-- … and so is the whole result of `gen_display_cav` (3-D): triangles, integration values,
    curtains and meshes -/
theorem cav3_offset_invariant (f : AD Rat × AD Rat → AD Rat) (c c' : AD Rat → AD Rat × AD Rat)
    (k : Rat × Rat) (hk : IsOffset c c' k) (polys : List (Array (Pt Rat))) (cfg : Cfg3D Rat) :
    genDisplayCav3 f c' polys cfg = genDisplayCav3 f c polys cfg := by
  rw [genDisplayCav3_eq, genDisplayCav3_eq]
  cases sweep polys with
  | error e => rfl
  | ok tris =>
    simp only []
    congr 1
    funext tr
    have hJ := absJacDet_offset_invariant f c c' k hk
    have hP : ∀ y, cPlain3 c' y = ((cPlain3 c y).1 + k.1, (cPlain3 c y).2 + k.2) := by
      intro y
      simp only [cPlain3, (hk _).1, (hk _).2, AD.add]
    unfold tri3E integ3E
    rw [hJ]
    split
    · rfl
    · rw [C14.disp3_offset_invariant (fPlain3 f) (cPlain3 c) _ _ cfg (cPlain3 c') k hP]

/-- the hypothesis `IsOffset` is satisfiable: `c(z) = (z, 2z)`, `c'(z) = (z + 3, 2z − 1)` -/
example : IsOffset (fun z => (z, AD.add z z))
    (fun z => (AD.add z ⟨3, 0⟩, AD.add (AD.add z z) ⟨-1, 0⟩)) (3, -1) :=
  fun _ => ⟨rfl, rfl⟩

example (f : AD Rat × AD Rat → AD Rat) :
    absJacobianDet (gAD3 f fun z => (AD.add z ⟨3, 0⟩, AD.add (AD.add z z) ⟨-1, 0⟩)) =
      absJacobianDet (gAD3 f fun z => (z, AD.add z z)) :=
  absJacDet_offset_invariant f _ _ (3, -1) (fun _ => ⟨rfl, rfl⟩)

/-! ## concrete instance over `XQ`: `f(x,y) = x + y`, `c(z) = (z, 2z)` on the unit square

`g(x,y) = (−y, −2x − y)`, `|det Dg| = 2`; the sweep cuts the square into two triangles and the
two integration values sum to `∫∫ 2(x+y) = 2` up to the (honest) error estimates. -/

def q (r : Rat) : XQ := .fin r
def fEx : AD XQ × AD XQ → AD XQ := fun p => AD.add p.1 p.2
def cEx : AD XQ → AD XQ × AD XQ := fun z => (z, AD.add z z)
def cfgEx : Cfg3D XQ := ⟨true, 1, 1, 1, 20, q (1/100)⟩
def squareEx : List (Array (Pt XQ)) := [#[⟨q 0, q 0⟩, ⟨q 1, q 0⟩, ⟨q 1, q 1⟩, ⟨q 0, q 1⟩]]

def triags (r : Except (Disp3Err XQ) (List (Disp3D XQ))) : Option (List (P2 XQ × P2 XQ × P2 XQ)) :=
  match r with
  | .ok ds => some (ds.map (·.triag))
  | .error _ => none

theorem square_run : triags (genDisplayCav3 fEx cEx squareEx cfgEx) =
    some [((q 0, q 0), (q 0, q 1), (q 1, q 0)), ((q 0, q 1), (q 1, q 0), (q 1, q 1))] := by
  decide +kernel

/-- the hypothesis of `cav3_integ_per_triangle` is satisfiable, with two triangles -/
example : ∃ ds tris, genDisplayCav3 fEx cEx squareEx cfgEx = .ok ds ∧ sweep squareEx = .ok tris ∧
    ds.length = 2 ∧ Forall2 (IsDisplayOf fEx cEx cfgEx) tris ds := by
  have h := square_run
  cases hr : genDisplayCav3 fEx cEx squareEx cfgEx with
  | error e => rw [hr] at h; cases h
  | ok ds =>
    rw [hr] at h
    obtain ⟨tris, hs, hf⟩ := cav3_integ_per_triangle fEx cEx squareEx cfgEx ds hr
    refine ⟨ds, tris, rfl, hs, ?_, hf⟩
    simp only [triags, Option.some.injEq] at h
    simpa using congrArg List.length h

/-- `|det Dg| = 2` at a sample point -/
example : absJacobianDet (gAD3 fEx cEx) (q (1/3), q (1/5)) = q 2 := by decide +kernel

end Cav.C08
