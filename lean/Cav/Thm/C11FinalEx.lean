/-
  C11 — non-vacuity of `C11Final.strictMono_on_trimmed_piece_of_simple` and its polynomial instance.

  Every hypothesis of the theorem (hypotheses about `g'` only: `GridNonzero`, `ZerosSeparated`,
  `ZerosSimple`) is discharged on the kernel-evaluated run of `C11Mono` (`fineGrid`, `exG`,
  `tol = 1/100`), and the conclusion is a Mathlib `StrictAntiOn` statement about the real polynomial.
-/
import Cav.Thm.C11Final

namespace Cav.C11FinalEx
open Cav Num Gen Cav.BrentL Cav.SplitL Cav.C13Split Cav.C11Roots Cav.C11Mono Cav.C01 Cav.C07Accuracy
open Cav.RootGlue Cav.C11Glue Cav.C11Simple Cav.C11Final

/-- polynomial instance of `C11Final.strictMono_on_trimmed_piece_of_simple`: `g = adPoly pg`,
    `F = evalPolyR (derivCoeffs pg)`, `G = evalPolyR pg`; the hypotheses are about `g'` only: `g'`
    vanishes at no shifted grid point, each closed cell holds at most one real zero of `g'`, and at
    every real zero of `g'` in a cell the second derivative `g''` is non-zero. -/
theorem rs_strictMono_on_trimmed_piece_of_simple (pg : List Rat) (xv : List Rat) (tol : Rat)
    (m : Nat) (l₁ l₂ : List Rat) (hc : CellHyp xv tol) (htol : 0 < tol) (hn : 2 ≤ xv.length)
    (hne : ∀ j, j < xv.length → evalPoly (derivCoeffs pg) ((shiftedGrid xv tol).getD j 0) ≠ 0)
    (hsep : ZerosSeparated (evalPolyR (derivCoeffs pg)) xv tol)
    (h2nd : ∀ i, 1 ≤ i → i < xv.length → ∀ ζ : ℝ, evalPolyR (derivCoeffs pg) ζ = 0 →
      InCellR (gridSign xv) ((shiftedGrid xv tol).getD (i - 1) 0) ((shiftedGrid xv tol).getD i 0) ζ →
      evalPolyR (derivCoeffs (derivCoeffs pg)) ζ ≠ 0)
    (h : splitStrictlyMonotone (adPoly pg) xv tol m = .ok (l₁ ++ l₂)) (u v : ℝ)
    (hu : InHull xv tol u) (hv : InHull xv tol v)
    (hp : ∀ p, l₁.getLast? = some p →
      ((gridSign xv : Rat) : ℝ) * (p : ℝ) + 2 * (tol : ℝ) ≤ ((gridSign xv : Rat) : ℝ) * u ∧
      ((gridSign xv : Rat) : ℝ) * (p : ℝ) + 2 * (tol : ℝ) ≤ ((gridSign xv : Rat) : ℝ) * v)
    (hq : ∀ q, l₂.head? = some q →
      ((gridSign xv : Rat) : ℝ) * u ≤ ((gridSign xv : Rat) : ℝ) * (q : ℝ) - 2 * (tol : ℝ) ∧
      ((gridSign xv : Rat) : ℝ) * v ≤ ((gridSign xv : Rat) : ℝ) * (q : ℝ) - 2 * (tol : ℝ)) :
    ((∀ w ∈ Set.Icc u v, 0 < evalPolyR (derivCoeffs pg) w) ∧
      StrictMonoOn (evalPolyR pg) (Set.Icc u v)) ∨
    ((∀ w ∈ Set.Icc u v, evalPolyR (derivCoeffs pg) w < 0) ∧
      StrictAntiOn (evalPolyR pg) (Set.Icc u v)) :=
  strictMono_on_trimmed_piece_of_simple (adPoly pg) (evalPolyR (derivCoeffs pg)) (evalPolyR pg)
    (evalPolyR_continuous _) (fun q => by rw [evalPolyR_cast, D1_df_adPoly])
    (evalPolyR_hasDerivAt pg) xv tol m l₁ l₂ hc htol hn (gridNonzero_poly pg xv tol hne) hsep
    (zerosSimple_poly pg xv tol h2nd) h u v hu hv hp hq

/-- **non-vacuity of `C11Final.strictMono_on_trimmed_piece_of_simple`, middle piece of the run**:
    with `f = adPoly exG`, `F = evalPolyR (derivCoeffs exG)`, `G = evalPolyR exG`, the cut
    `[r₁] ++ [r₂]` and `[u,v] = [−47/100, 31/100]` every hypothesis holds
    (`fine_cellHyp`, `fine_gridNonzero`, `fine_zerosSeparated`, `fine_second_deriv`, `fine_run`,
    `fine_inHull`), and `g' < 0` at `0`: `g = 2x³ + x²/2 − x` is strictly decreasing on
    `[−47/100, 31/100]`. -/
theorem fine_middle_piece_strictAnti :
    StrictAntiOn (evalPolyR exG) (Set.Icc (-47 / 100 : ℝ) (31 / 100)) := by
  rcases strictMono_on_trimmed_piece_of_simple (adPoly exG) (evalPolyR (derivCoeffs exG))
      (evalPolyR exG) (evalPolyR_continuous _) (fun q => by rw [evalPolyR_cast, D1_df_adPoly])
      (evalPolyR_hasDerivAt exG) fineGrid (1 / 100) 50
      [-10334933164937 / 20671302440920] [93157 / 277816] fine_cellHyp (by norm_num) (by decide)
      (gridNonzero_poly exG fineGrid (1 / 100) fine_gridNonzero) fine_zerosSeparated
      (zerosSimple_poly exG fineGrid (1 / 100) fine_second_deriv) fine_run (-47 / 100) (31 / 100)
      (fine_inHull _ (by norm_num) (by norm_num)) (fine_inHull _ (by norm_num) (by norm_num))
      (fun p hp => by
        rw [fine_sign]
        simp only [List.getLast?_singleton, Option.some.injEq] at hp
        subst hp
        constructor <;> norm_num)
      (fun q hq => by
        rw [fine_sign]
        simp only [List.head?_cons, Option.some.injEq] at hq
        subst hq
        constructor <;> norm_num) with ⟨hpos, -⟩ | ⟨-, hanti⟩
  · exfalso
    have h0 := hpos 0 ⟨by norm_num, by norm_num⟩
    rw [exG'_eq] at h0
    simp only [exG', evalPolyR_cons, evalPolyR_nil] at h0
    norm_num at h0
  · exact hanti

/-- the same through the polynomial wrapper, together with the strict sign of `g'` on the piece -/
theorem fine_middle_piece_deriv_neg_and_strictAnti :
    (∀ w ∈ Set.Icc (-47 / 100 : ℝ) (31 / 100), evalPolyR (derivCoeffs exG) w < 0) ∧
    StrictAntiOn (evalPolyR exG) (Set.Icc (-47 / 100 : ℝ) (31 / 100)) := by
  rcases rs_strictMono_on_trimmed_piece_of_simple exG fineGrid (1 / 100) 50
      [-10334933164937 / 20671302440920] [93157 / 277816] fine_cellHyp (by norm_num) (by decide)
      fine_gridNonzero fine_zerosSeparated fine_second_deriv fine_run (-47 / 100) (31 / 100)
      (fine_inHull _ (by norm_num) (by norm_num)) (fine_inHull _ (by norm_num) (by norm_num))
      (fun p hp => by
        rw [fine_sign]
        simp only [List.getLast?_singleton, Option.some.injEq] at hp
        subst hp
        constructor <;> norm_num)
      (fun q hq => by
        rw [fine_sign]
        simp only [List.head?_cons, Option.some.injEq] at hq
        subst hq
        constructor <;> norm_num) with ⟨hpos, -⟩ | h
  · exfalso
    have h0 := hpos 0 ⟨by norm_num, by norm_num⟩
    rw [exG'_eq] at h0
    simp only [exG', evalPolyR_cons, evalPolyR_nil] at h0
    norm_num at h0
  · exact h

end Cav.C11FinalEx
