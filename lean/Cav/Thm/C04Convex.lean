/-
  C04 (every valid polygon set is accepted) — the first acceptance theorem for a class of
  UNBOUNDED size: every strictly convex polygon with `n ≥ 3` vertices in general position
  (pairwise distinct abscissae), given from any starting vertex and in either orientation, is
  accepted by the sweep model over `XQ`; the model returns exactly `n - 2` triangles, the ghost
  flag `mono` is `true`, every corner of every triangle is an input vertex, every triangle is
  non-degenerate, and the absolute doubled areas of the triangles add up to the absolute doubled
  shoelace area of the polygon.

  Hypotheses (all decidable, on rationals; `cyc P k = P[k % n]`):
    * `StrictlyConvex P`: all `n` cyclically consecutive triples have orientation determinants of
      one strict sign;
    * `DistinctX P`: pairwise distinct abscissae;
    * `XMonotone P`: there are a vertex `L` and `0 < m < n` such that the abscissae increase
      strictly along the `m` edges after `L` and along the `n - m` edges before `L` (walking
      away from `L`), i.e. the boundary splits into two x-monotone chains from the leftmost to
      the rightmost vertex.  Together with `StrictlyConvex` this says that the polygon winds
      exactly once (a pentagram has all turns of one sign but four x-monotone chains).

  Proof: induction over the event queue (`Cav/Lemmas/CvxLoop.lean`, `loop_from`) with the state
  invariant "two active edges, one shared back-chain `[b i, t j]`"; the events are evaluated
  symbolically on an abstract node array (`CvxHeap.lean`, `CvxEvents.lean`), the geometric tests
  are discharged from `Chains.wB_*`, `wT_*` (`CvxGeom.lean`), the set-up loop is evaluated for
  arbitrary `n` in `CvxSetup.lean`, and `CvxPoly.lean` connects the input array with the chains.
-/
import Cav.Lemmas.CvxPoly

set_option linter.unusedSimpArgs false

namespace Cav.C04Convex
open Cav Num Cav.Geo Cav.Sweep Cav.SweepRun Cav.SweepSetup Cav.TriRun Cav.QuadRun Cav.QuadGeom
open Cav.CvxEvents Cav.CvxLoop Cav.CvxSetup Cav.CvxPoly

theorem areaSum_nonneg (l : List Tri) : 0 ≤ areaSum l := by
  induction l with
  | nil => simp [areaSum]
  | cons a l ih =>
    have : areaSum (a :: l) = triArea a + areaSum l := by simp [areaSum]
    rw [this]
    have : 0 ≤ triArea a := abs_nonneg _
    linarith

theorem areaSum_reverse (l : List Tri) : areaSum l.reverse = areaSum l := by
  unfold areaSum
  rw [List.map_reverse, List.sum_reverse]

/-- a vertex of one of the two chains is an input vertex -/
theorem isVtx_input {P : Array (Rat × Rat)} {L mB mT : Nat} {p : Pt XQ} (hn : 0 < P.size)
    (h : IsVtx mB mT (pf P L) (pb P L) p ∨ IsVtx mB mT (pb P L) (pf P L) p) :
    ∃ (i : Nat) (hi : i < P.size), p = F (P[i]).1 (P[i]).2 := by
  have key : ∀ a, ∃ (i : Nat) (hi : i < P.size), Fq (cyc P a) = F (P[i]).1 (P[i]).2 := by
    intro a
    refine ⟨a % P.size, Nat.mod_lt _ hn, ?_⟩
    unfold cyc
    simp [Array.getD, Nat.mod_lt _ hn]
  rcases h with (⟨k, -, rfl⟩ | ⟨k, -, rfl⟩) | (⟨k, -, rfl⟩ | ⟨k, -, rfl⟩)
  · exact key _
  · exact key _
  · exact key _
  · exact key _

/-- the theorem with the two chains given explicitly -/
theorem convex_accepted_chains (P : Array (Rat × Rat)) (hn : 3 ≤ P.size) (hx : DistinctX P)
    (hc : StrictlyConvex P) (L m : Nat) (h2 : TwoChains P L m) :
    ∃ T : List Tri, sweepMon [P.map (fun p => F p.1 p.2)] = .ok (T, true) ∧
      T.length = P.size - 2 ∧
      (∀ tr ∈ T, ∀ p ∈ [tr.1, tr.2.1, tr.2.2], ∃ (i : Nat) (hi : i < P.size), p = F (P[i]).1 (P[i]).2) ∧
      (∀ tr ∈ T, orientPt tr.1 tr.2.1 tr.2.2 ≠ 0) ∧
      (T.map fun tr => |orientPt tr.1 tr.2.1 tr.2.2|).sum = |shoelace P| := by
  have hL : L < P.size := h2.1
  have hm : m < P.size := h2.2.2.1
  have hs := polyOf_size P
  have hsetup := setup_single (polyOf P) L (by rw [hs]; exact hn) (by rw [hs]; exact hL)
    (valid_all hx) (ft_all h2)
  have hsz : (stQ (ringOf (polyOf P)) [(L, [])]).verts.size = P.size := by
    simp [stQ, ringOf, ringPre, hs]
  have hf0 : fwd P L 0 = L := by unfold fwd; rw [Nat.add_zero, Nat.mod_eq_of_lt hL]
  have hb0 : bwd P L 0 = L := by rw [bwd_zero, hf0]
  show ∃ T : List Tri, sweepMon [polyOf P] = .ok (T, true) ∧ _
  unfold sweepMon
  rw [run_eq, hsetup]
  simp only [hsz]
  -- the event loop, in the two orientations
  have fin : ∀ (mB mT : Nat) (b t : Nat → Rat × Rat) (s' : St XQ),
      s'.mono = true → s'.out.length = mB + mT - 2 → mB + mT = P.size →
      (∀ tr ∈ s'.out, TriOK mB mT b t tr ∧ 0 < triArea tr) →
      (∀ p, IsVtx mB mT b t p → ∃ (i : Nat) (hi : i < P.size), p = F (P[i]).1 (P[i]).2) →
      areaSum s'.out = |shoelace P| →
      ∃ T : List Tri, (.ok (s'.out.reverse, s'.mono) : Except (SErr XQ) (List Tri × Bool)) =
          .ok (T, true) ∧
        T.length = P.size - 2 ∧
        (∀ tr ∈ T, ∀ p ∈ [tr.1, tr.2.1, tr.2.2], ∃ (i : Nat) (hi : i < P.size), p = F (P[i]).1 (P[i]).2) ∧
        (∀ tr ∈ T, orientPt tr.1 tr.2.1 tr.2.2 ≠ 0) ∧
        (T.map fun tr => |orientPt tr.1 tr.2.1 tr.2.2|).sum = |shoelace P| := by
    intro mB mT b t s' hmono hlen hsum hv hin ha
    refine ⟨s'.out.reverse, ?_, ?_, ?_, ?_, ?_⟩
    · rw [hmono]
    · rw [List.length_reverse, hlen, hsum]
    · intro tr htr p hp
      obtain ⟨⟨h1, h2, h3⟩, -⟩ := hv tr (List.mem_reverse.mp htr)
      simp only [List.mem_cons, List.not_mem_nil, or_false] at hp
      rcases hp with rfl | rfl | rfl
      · exact hin _ h1
      · exact hin _ h2
      · exact hin _ h3
    · intro tr htr
      have := (hv tr (List.mem_reverse.mp htr)).2
      unfold triArea at this
      exact abs_pos.mp this
    · have := areaSum_reverse s'.out
      unfold areaSum triArea at this ha
      rw [this, ha]
  rcases hc with hpos | hneg
  · have hC := conv_ccw hx h2 hpos hn
    obtain ⟨s', hrun, hmono, hlen, hv, ha⟩ := loop_conv hC (P.size + 1) (by omega)
    rw [hf0] at hrun
    rw [hrun]
    refine fin m (P.size - m) _ _ s' hmono hlen (by omega) hv
      (fun p hp => isVtx_input (by omega) (Or.inl hp)) ?_
    rw [ha, SAtot_ccw L m hm]
    have h0 := areaSum_nonneg s'.out
    rw [ha, SAtot_ccw L m hm] at h0
    exact (abs_of_nonneg h0).symm
  · have hC := conv_cw hx h2 hneg hn
    obtain ⟨s', hrun, hmono, hlen, hv, ha⟩ := loop_conv hC (P.size + 1) (by omega)
    rw [hb0] at hrun
    rw [hrun]
    refine fin (P.size - m) m _ _ s' hmono hlen (by omega) hv
      (fun p hp => isVtx_input (by omega) (Or.inr hp)) ?_
    rw [ha, SAtot_cw L m hm]
    have h0 := areaSum_nonneg s'.out
    rw [ha, SAtot_cw L m hm] at h0
    exact (abs_of_nonpos (by linarith)).symm

/-- **Every strictly convex polygon in general position is accepted** (C04 for the class of
    strictly convex polygons, any number `n ≥ 3` of vertices, any starting vertex, either
    orientation): the model returns `n - 2` triangles with `mono = true`; all corners are input
    vertices; all triangles are non-degenerate; the absolute doubled areas add up to the absolute
    doubled shoelace area. -/
theorem convex_accepted (P : Array (Rat × Rat)) (hn : 3 ≤ P.size) (hx : DistinctX P)
    (hc : StrictlyConvex P) (hm : XMonotone P) :
    ∃ T : List (Pt XQ × Pt XQ × Pt XQ),
      sweepMon [P.map (fun p => F p.1 p.2)] = .ok (T, true) ∧
      T.length = P.size - 2 ∧
      (∀ tr ∈ T, ∀ p ∈ [tr.1, tr.2.1, tr.2.2], ∃ (i : Nat) (hi : i < P.size), p = F (P[i]).1 (P[i]).2) ∧
      (∀ tr ∈ T, orientPt tr.1 tr.2.1 tr.2.2 ≠ 0) ∧
      (T.map fun tr => |orientPt tr.1 tr.2.1 tr.2.2|).sum = |shoelace P| := by
  obtain ⟨L, -, m, -, h2⟩ := hm
  exact convex_accepted_chains P hn hx hc L m h2

/-- the plain result of the model (without the ghost flag) -/
theorem convex_accepted_sweep (P : Array (Rat × Rat)) (hn : 3 ≤ P.size) (hx : DistinctX P)
    (hc : StrictlyConvex P) (hm : XMonotone P) :
    ∃ T, sweep [P.map (fun p => F p.1 p.2)] = .ok T ∧ T.length = P.size - 2 := by
  obtain ⟨T, h, hl, -⟩ := convex_accepted P hn hx hc hm
  refine ⟨T, ?_, hl⟩
  unfold sweepMon at h
  unfold sweep
  cases hr : (Sweep.run [P.map (fun p => F p.1 p.2)]).run (Sweep.initSt : St XQ) with
  | error e => rw [hr] at h; cases h
  | ok r =>
    rw [hr] at h
    simp only [Except.ok.injEq, Prod.mk.injEq] at h
    simp only [h.1]

/-! ### non-vacuity: a concrete convex pentagon and hexagon, evaluated by the kernel, and the
    theorem applied to them (so its hypotheses are satisfiable) -/

/-- a convex pentagon, counter-clockwise, starting at its leftmost vertex -/
def P5 : Array (Rat × Rat) := #[(0, 0), (2, -2), (5, -1), (6, 2), (3, 4)]
/-- a convex hexagon, clockwise, starting at an arbitrary vertex (the leftmost one is `P6[4]`) -/
def P6 : Array (Rat × Rat) := #[(6, 2), (7, -1), (4, -3), (1, -2), (0, 0), (2, 3)]

example : P5.map (fun p => F p.1 p.2) = #[F 0 0, F 2 (-2), F 5 (-1), F 6 2, F 3 4] := by
  decide +kernel
example : P6.map (fun p => F p.1 p.2) = #[F 6 2, F 7 (-1), F 4 (-3), F 1 (-2), F 0 0, F 2 3] := by
  decide +kernel

-- the model on the pentagon: three triangles, `mono = true`
example : sweepMon [#[F 0 0, F 2 (-2), F 5 (-1), F 6 2, F 3 4]] =
    .ok ([(F 0 0, F 2 (-2), F 3 4), (F 2 (-2), F 3 4, F 5 (-1)), (F 3 4, F 5 (-1), F 6 2)], true) := by
  decide +kernel
-- the model on the hexagon: four triangles, `mono = true`
example : sweepMon [#[F 6 2, F 7 (-1), F 4 (-3), F 1 (-2), F 0 0, F 2 3]] =
    .ok ([(F 0 0, F 1 (-2), F 2 3), (F 1 (-2), F 2 3, F 4 (-3)), (F 2 3, F 4 (-3), F 6 2),
      (F 4 (-3), F 6 2, F 7 (-1))], true) := by
  decide +kernel

-- the hypotheses of the theorem hold for both polygons
example : 3 ≤ P5.size ∧ DistinctX P5 ∧ StrictlyConvex P5 ∧ XMonotone P5 := by decide +kernel
example : 3 ≤ P6.size ∧ DistinctX P6 ∧ StrictlyConvex P6 ∧ XMonotone P6 := by decide +kernel
-- orientation and chains: the pentagon is counter-clockwise with chains of 3 and 2 edges from
-- vertex 0, the hexagon is clockwise with chains of 3 and 3 edges from vertex 4
example : (∀ i, i < P5.size → 0 < orient (cyc P5 i) (cyc P5 (i + 1)) (cyc P5 (i + 2))) ∧
    TwoChains P5 0 3 := by decide +kernel
example : (∀ i, i < P6.size → orient (cyc P6 i) (cyc P6 (i + 1)) (cyc P6 (i + 2)) < 0) ∧
    TwoChains P6 4 3 := by decide +kernel

-- the theorem on the pentagon and on the hexagon
example : ∃ T : List (Pt XQ × Pt XQ × Pt XQ),
    sweepMon [P5.map (fun p => F p.1 p.2)] = .ok (T, true) ∧ T.length = 3 ∧
      (∀ tr ∈ T, ∀ p ∈ [tr.1, tr.2.1, tr.2.2], ∃ (i : Nat) (hi : i < P5.size), p = F (P5[i]).1 (P5[i]).2) ∧
      (∀ tr ∈ T, orientPt tr.1 tr.2.1 tr.2.2 ≠ 0) ∧
      (T.map fun tr => |orientPt tr.1 tr.2.1 tr.2.2|).sum = |shoelace P5| :=
  convex_accepted P5 (by decide) (by decide +kernel) (by decide +kernel) (by decide +kernel)
example : ∃ T : List (Pt XQ × Pt XQ × Pt XQ),
    sweepMon [P6.map (fun p => F p.1 p.2)] = .ok (T, true) ∧ T.length = 4 ∧
      (∀ tr ∈ T, ∀ p ∈ [tr.1, tr.2.1, tr.2.2], ∃ (i : Nat) (hi : i < P6.size), p = F (P6[i]).1 (P6[i]).2) ∧
      (∀ tr ∈ T, orientPt tr.1 tr.2.1 tr.2.2 ≠ 0) ∧
      (T.map fun tr => |orientPt tr.1 tr.2.1 tr.2.2|).sum = |shoelace P6| :=
  convex_accepted P6 (by decide) (by decide +kernel) (by decide +kernel) (by decide +kernel)
-- the shoelace areas (doubled): 42 and -56; the emitted triangles have areas 14 + 17 + 11 and
-- 7 + 16 + 22 + 11
example : shoelace P5 = 42 ∧ shoelace P6 = -56 := by
  constructor
  · have : P5.size = 5 := rfl
    simp [shoelace, this, Finset.sum_range_succ, cyc, P5]
    norm_num
  · have : P6.size = 6 := rfl
    simp [shoelace, this, Finset.sum_range_succ, cyc, P6]
    norm_num
example : (([(F 0 0, F 2 (-2), F 3 4), (F 2 (-2), F 3 4, F 5 (-1)), (F 3 4, F 5 (-1), F 6 2)] :
    List (Pt XQ × Pt XQ × Pt XQ)).map fun tr => |orientPt tr.1 tr.2.1 tr.2.2|).sum = 42 := by
  decide +kernel
example : (([(F 0 0, F 1 (-2), F 2 3), (F 1 (-2), F 2 3, F 4 (-3)), (F 2 3, F 4 (-3), F 6 2),
    (F 4 (-3), F 6 2, F 7 (-1))] :
    List (Pt XQ × Pt XQ × Pt XQ)).map fun tr => |orientPt tr.1 tr.2.1 tr.2.2|).sum = 56 := by
  decide +kernel
-- the hypotheses are needed: a pentagram has all turns of one sign and distinct abscissae but is
-- not `XMonotone`, and the model rejects it
def Star : Array (Rat × Rat) := #[(0, 3), (6, -4), (-5, 1), (5, 2), (-4, -5)]
example : StrictlyConvex Star ∧ DistinctX Star ∧ ¬ XMonotone Star := by decide +kernel
example : (sweepMon [Star.map (fun p => F p.1 p.2)]).toBool = false := by decide +kernel

end Cav.C04Convex
