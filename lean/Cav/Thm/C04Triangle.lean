/-
  C04 (every valid polygon set is accepted) — the first all-input acceptance theorem: a single
  triangle.  For ANY three non-collinear points with rational coordinates, in any input order
  and orientation, with or without vertical edges, the sweep model over `XQ` accepts the
  polygon and returns exactly one triangle, the input triangle with its corners sorted
  (`sort3`, the normal form in which the implementation emits triangles).

  Proof: symbolic execution of the model (`Cav/Lemmas/TriRun.lean`, `TriEvents.lean`) with the
  pure geometric tests as hypotheses, discharged for finite points in `Cav/Lemmas/TriGeom.lean`.
-/
import Cav.Lemmas.TriGeom

set_option linter.unusedSimpArgs false

namespace Cav.C04Triangle
open Cav Num Cav.Geo Cav.Sweep Cav.SweepSetup Cav.TriRun Cav.TriEvents Cav.TriGeom

/-- a finite point from a rational pair -/
abbrev Fp (q : Rat × Rat) : Pt XQ := F q.1 q.2

theorem validPt_fin (seen : List (Pt XQ)) (q : Rat × Rat) (h : ∀ s ∈ seen, s.eq (Fp q) = false) :
    validPt seen (Fp q) = .ok (Fp q :: seen) :=
  (validPt_ok_iff _ _ _).mpr ⟨rfl, h, rfl⟩

theorem eq_false_of_lexLt {p q : Rat × Rat} (h : lexLt p q) : (Fp p).eq (Fp q) = false := by
  rw [Geo.Pt.eq_fin]; simp only [decide_eq_false_iff_not]
  rintro ⟨h1, h2⟩
  exact C15.lexLt_irrefl q (by rwa [show p = q from Prod.ext h1 h2] at h)

theorem eq_false_of_lexLt' {p q : Rat × Rat} (h : lexLt p q) : (Fp q).eq (Fp p) = false := by
  rw [Geo.Pt.eq_fin]; simp only [decide_eq_false_iff_not]
  rintro ⟨h1, h2⟩
  exact C15.lexLt_irrefl q (by rwa [show p = q from (Prod.ext h1 h2).symm] at h)

/-- closes `fromTriplet … = some ?k` with the matching field of a `FlowC` -/
local macro "pick_ft" h:ident : tactic =>
  `(tactic| (first
      | exact ($h).sLMR
      | exact ($h).sLRM
      | exact ($h).bMLR
      | exact ($h).bMRL
      | exact ($h).eRLM
      | exact ($h).eRML))

/-- a triangle whose corners `P 0, P 1, P 2` are, in lexicographic order, `P L < P M < P R` -/
theorem tri_sorted (P : Nat → Rat × Rat) (L M R : Nat)
    (hperm : (L = 0 ∧ M = 1 ∧ R = 2) ∨ (L = 0 ∧ M = 2 ∧ R = 1) ∨ (L = 1 ∧ M = 0 ∧ R = 2) ∨
      (L = 1 ∧ M = 2 ∧ R = 0) ∨ (L = 2 ∧ M = 0 ∧ R = 1) ∨ (L = 2 ∧ M = 1 ∧ R = 0))
    (hLM : lexLt (P L) (P M)) (hMR : lexLt (P M) (P R)) (hD : orient (P L) (P M) (P R) ≠ 0) :
    sweepMon [#[Fp (P 0), Fp (P 1), Fp (P 2)]] = .ok ([(Fp (P L), Fp (P M), Fp (P R))], true) ∧
      sweep [#[Fp (P 0), Fp (P 1), Fp (P 2)]] = .ok [(Fp (P L), Fp (P M), Fp (P R))] ∧
      sort3 (Fp (P 0)) (Fp (P 1)) (Fp (P 2)) = (Fp (P L), Fp (P M), Fp (P R)) := by
  have hLR : lexLt (P L) (P R) := C15.lexLt_trans hLM hMR
  have hC := flowC (P L).1 (P L).2 (P M).1 (P M).2 (P R).1 (P R).2 hLM hMR
  -- comparisons
  have cLM : (Fp (P L)).cmp (Fp (P M)) = .lt := (Geo.Pt.cmp_fin_lt _ _ _ _).mpr hLM
  have cML : (Fp (P M)).cmp (Fp (P L)) = .gt := (Geo.Pt.cmp_fin_gt _ _ _ _).mpr hLM
  have cLR : (Fp (P L)).cmp (Fp (P R)) = .lt := (Geo.Pt.cmp_fin_lt _ _ _ _).mpr hLR
  have cRL : (Fp (P R)).cmp (Fp (P L)) = .gt := (Geo.Pt.cmp_fin_gt _ _ _ _).mpr hLR
  have cMR : (Fp (P M)).cmp (Fp (P R)) = .lt := (Geo.Pt.cmp_fin_lt _ _ _ _).mpr hMR
  have cRM : (Fp (P R)).cmp (Fp (P M)) = .gt := (Geo.Pt.cmp_fin_gt _ _ _ _).mpr hMR
  have sA : sort3 (Fp (P M)) (Fp (P L)) (Fp (P R)) = (Fp (P L), Fp (P M), Fp (P R)) := by
    simp [sort3, cLM, cML, cLR, cRL, cMR, cRM]
  have sB : sort3 (Fp (P L)) (Fp (P M)) (Fp (P R)) = (Fp (P L), Fp (P M), Fp (P R)) := by
    simp [sort3, cLM, cML, cLR, cRL, cMR, cRM]
  -- the run, given the set-up facts and the ring
  have key : ∀ (hs : SetupOk (Fp (P 0)) (Fp (P 1)) (Fp (P 2)) L)
      (hV : RingAt (ring (Fp (P 0)) (Fp (P 1)) (Fp (P 2))) L M R (Fp (P L)) (Fp (P M)) (Fp (P R))),
      sweepMon [#[Fp (P 0), Fp (P 1), Fp (P 2)]] = .ok ([(Fp (P L), Fp (P M), Fp (P R))], true) ∧
      sweep [#[Fp (P 0), Fp (P 1), Fp (P 2)]] = .ok [(Fp (P L), Fp (P M), Fp (P R))] := by
    intro hs hV
    rcases lt_or_gt_of_ne hD with h | h
    · have := sweep_B hs hV (flowB _ _ _ _ _ _ hLM hMR h)
      rwa [sB] at this
    · have := sweep_A hs hV (flowA _ _ _ _ _ _ hLM hMR h)
      rwa [sA] at this
  have e1 := eq_false_of_lexLt hLM
  have e2 := eq_false_of_lexLt' hLM
  have e3 := eq_false_of_lexLt hLR
  have e4 := eq_false_of_lexLt' hLR
  have e5 := eq_false_of_lexLt hMR
  have e6 := eq_false_of_lexLt' hMR
  rcases hperm with ⟨rfl, rfl, rfl⟩ | ⟨rfl, rfl, rfl⟩ | ⟨rfl, rfl, rfl⟩ | ⟨rfl, rfl, rfl⟩ |
    ⟨rfl, rfl, rfl⟩ | ⟨rfl, rfl, rfl⟩
  all_goals
    refine ⟨(key ?hs ?hV).1, (key ?hs ?hV).2, ?hsort⟩
    case hsort => simp [sort3, cLM, cML, cLR, cRL, cMR, cRM]
    case hV =>
      refine ⟨⟨_, _, rfl, ?_⟩, ⟨_, _, rfl, ?_⟩, ⟨_, _, rfl, ?_⟩⟩ <;> (unfold Nbrs; decide)
    case hs =>
      refine ⟨validPt_fin _ _ (by simp), validPt_fin _ _ (by simp [e1, e2, e3, e4, e5, e6]),
        validPt_fin _ _ (by simp [e1, e2, e3, e4, e5, e6]), ?_⟩
      exact ⟨_, _, _, by pick_ft hC, by pick_ft hC, by pick_ft hC, by simp⟩


/-- the three corners as a function of the input position -/
def corner (a b c : Rat × Rat) : Nat → Rat × Rat
  | 0 => a
  | 1 => b
  | _ => c

/-- **Every non-degenerate triangle is accepted** (C04 for a single triangle, all inputs over ℚ):
    three non-collinear points in any order and orientation — equal abscissae and vertical edges
    included — are triangulated into exactly one triangle, the input with its corners in
    lexicographic order; every ordered look-up of the run was order-consistent (`mono = true`). -/
theorem triangle_accepted_mon (a b c : Rat × Rat)
    (hncol : (b.1 - a.1) * (c.2 - a.2) - (b.2 - a.2) * (c.1 - a.1) ≠ 0) :
    sweepMon [#[F a.1 a.2, F b.1 b.2, F c.1 c.2]] =
        .ok ([sort3 (F a.1 a.2) (F b.1 b.2) (F c.1 c.2)], true) ∧
      sweep [#[F a.1 a.2, F b.1 b.2, F c.1 c.2]] =
        .ok [sort3 (F a.1 a.2) (F b.1 b.2) (F c.1 c.2)] := by
  have hO : orient a b c ≠ 0 := hncol
  have hab : a ≠ b := by rintro rfl; apply hO; unfold orient; ring
  have hac : a ≠ c := by rintro rfl; apply hO; unfold orient; ring
  have hbc : b ≠ c := by rintro rfl; apply hO; unfold orient; ring
  have fin : ∀ (L M R : Nat)
      (hperm : (L = 0 ∧ M = 1 ∧ R = 2) ∨ (L = 0 ∧ M = 2 ∧ R = 1) ∨ (L = 1 ∧ M = 0 ∧ R = 2) ∨
        (L = 1 ∧ M = 2 ∧ R = 0) ∨ (L = 2 ∧ M = 0 ∧ R = 1) ∨ (L = 2 ∧ M = 1 ∧ R = 0))
      (hLM : lexLt (corner a b c L) (corner a b c M)) (hMR : lexLt (corner a b c M) (corner a b c R))
      (hD : orient (corner a b c L) (corner a b c M) (corner a b c R) ≠ 0),
      sweepMon [#[F a.1 a.2, F b.1 b.2, F c.1 c.2]] =
          .ok ([sort3 (F a.1 a.2) (F b.1 b.2) (F c.1 c.2)], true) ∧
        sweep [#[F a.1 a.2, F b.1 b.2, F c.1 c.2]] =
          .ok [sort3 (F a.1 a.2) (F b.1 b.2) (F c.1 c.2)] := by
    intro L M R hperm hLM hMR hD
    obtain ⟨h1, h2, h3⟩ := tri_sorted (corner a b c) L M R hperm hLM hMR hD
    have h3' : sort3 (F a.1 a.2) (F b.1 b.2) (F c.1 c.2) =
      (Fp (corner a b c L), Fp (corner a b c M), Fp (corner a b c R)) := h3
    rw [h3']
    exact ⟨h1, h2⟩
  have oz : ∀ {p q r : Rat × Rat}, (orient p q r = orient a b c ∨ orient p q r = - orient a b c) →
      orient p q r ≠ 0 := by
    intro p q r h
    rcases h with h | h <;> rw [h]
    · exact hO
    · exact neg_ne_zero.mpr hO
  rcases C15.lexLt_trichotomy a b with ab | ab | ab
  · rcases C15.lexLt_trichotomy b c with bc | bc | bc
    · exact fin 0 1 2 (by simp) ab bc (oz (Or.inl rfl))
    · exact absurd bc hbc
    · rcases C15.lexLt_trichotomy a c with ac | ac | ac
      · exact fin 0 2 1 (by simp) ac bc (oz (Or.inr (orient_swap a b c)))
      · exact absurd ac hac
      · exact fin 2 0 1 (by simp) ac ab (oz (Or.inl (orient_rot c a b).symm))
  · exact absurd ab hab
  · rcases C15.lexLt_trichotomy b c with bc | bc | bc
    · rcases C15.lexLt_trichotomy a c with ac | ac | ac
      · exact fin 1 0 2 (by simp) ab ac (oz (Or.inr (by
          show orient b a c = - orient a b c
          unfold orient; ring)))
      · exact absurd ac hac
      · exact fin 1 2 0 (by simp) bc ac (oz (Or.inl (orient_rot a b c)))
    · exact absurd bc hbc
    · exact fin 2 1 0 (by simp) bc ab (oz (Or.inr (by
        show orient c b a = - orient a b c
        unfold orient; ring)))

/-- **C04 for a single triangle, general position or not**: any three non-collinear rational
    points are accepted and yield exactly the input triangle (corners sorted by `sort3`). -/
theorem triangle_accepted_general (a b c : Rat × Rat)
    (hncol : (b.1 - a.1) * (c.2 - a.2) - (b.2 - a.2) * (c.1 - a.1) ≠ 0) :
    sweep [#[F a.1 a.2, F b.1 b.2, F c.1 c.2]] =
      .ok [sort3 (F a.1 a.2) (F b.1 b.2) (F c.1 c.2)] :=
  (triangle_accepted_mon a b c hncol).2

set_option linter.unusedVariables false in
/-- **C04 for a single triangle with pairwise distinct abscissae** (the statement asked for;
    the hypothesis `hx` is not needed, see `triangle_accepted_general`). -/
theorem triangle_accepted (a b c : Rat × Rat) (hx : a.1 ≠ b.1 ∧ a.1 ≠ c.1 ∧ b.1 ≠ c.1)
    (hncol : (b.1 - a.1) * (c.2 - a.2) - (b.2 - a.2) * (c.1 - a.1) ≠ 0) :
    sweep [#[F a.1 a.2, F b.1 b.2, F c.1 c.2]] =
      .ok [sort3 (F a.1 a.2) (F b.1 b.2) (F c.1 c.2)] :=
  triangle_accepted_general a b c hncol

/-- acceptance in the sense of C04: the model answers `.ok` -/
theorem triangle_accepted_exists (a b c : Rat × Rat)
    (hncol : (b.1 - a.1) * (c.2 - a.2) - (b.2 - a.2) * (c.1 - a.1) ≠ 0) :
    ∃ T, sweep [#[F a.1 a.2, F b.1 b.2, F c.1 c.2]] = .ok T :=
  ⟨_, triangle_accepted_general a b c hncol⟩

/-- the emitted triangle has the corners of the input (as a multiset) -/
theorem triangle_output_corners (a b c : Rat × Rat)
    (hncol : (b.1 - a.1) * (c.2 - a.2) - (b.2 - a.2) * (c.1 - a.1) ≠ 0) :
    ∃ t, sweep [#[F a.1 a.2, F b.1 b.2, F c.1 c.2]] = .ok [t] ∧
      [t.1, t.2.1, t.2.2].Perm [F a.1 a.2, F b.1 b.2, F c.1 c.2] :=
  ⟨_, triangle_accepted_general a b c hncol, sort3_perm _ _ _⟩

/-! ### non-vacuity: concrete triangles, evaluated by the kernel and by the theorem -/

-- counter-clockwise input, general position
example : sweep [#[F 0 0, F 2 1, F 1 3]] = .ok [(F 0 0, F 1 3, F 2 1)] := by decide +kernel
-- the same triangle, clockwise input
example : sweep [#[F 0 0, F 1 3, F 2 1]] = .ok [(F 0 0, F 1 3, F 2 1)] := by decide +kernel
-- the theorem on these inputs (hypotheses are satisfiable), and the value of `sort3`
example : sweep [#[F 0 0, F 2 1, F 1 3]] = .ok [sort3 (F 0 0) (F 2 1) (F 1 3)] :=
  triangle_accepted (0, 0) (2, 1) (1, 3) (by norm_num) (by norm_num)
example : sweep [#[F 0 0, F 1 3, F 2 1]] = .ok [sort3 (F 0 0) (F 1 3) (F 2 1)] :=
  triangle_accepted (0, 0) (1, 3) (2, 1) (by norm_num) (by norm_num)
example : sort3 (F 0 0) (F 2 1) (F 1 3) = (F 0 0, F 1 3, F 2 1) := by decide +kernel
example : sort3 (F 0 0) (F 1 3) (F 2 1) = (F 0 0, F 1 3, F 2 1) := by decide +kernel
-- middle vertex below the long edge, start vertex not first in the input
example : sweep [#[F 1 (-2), F 3 0, F 0 0]] = .ok [(F 0 0, F 1 (-2), F 3 0)] := by decide +kernel
example : sweep [#[F 1 (-2), F 3 0, F 0 0]] = .ok [sort3 (F 1 (-2)) (F 3 0) (F 0 0)] :=
  triangle_accepted (1, -2) (3, 0) (0, 0) (by norm_num) (by norm_num)
-- vertical edges (only `triangle_accepted_general` applies): on the left, on the right
example : sweep [#[F 0 0, F 0 2, F 3 1]] = .ok [(F 0 0, F 0 2, F 3 1)] := by decide +kernel
example : sweep [#[F 0 0, F 0 2, F 3 1]] = .ok [sort3 (F 0 0) (F 0 2) (F 3 1)] :=
  triangle_accepted_general (0, 0) (0, 2) (3, 1) (by norm_num)
example : sweep [#[F 3 2, F 0 1, F 3 0]] = .ok [(F 0 1, F 3 0, F 3 2)] := by decide +kernel
example : sweep [#[F 3 2, F 0 1, F 3 0]] = .ok [sort3 (F 3 2) (F 0 1) (F 3 0)] :=
  triangle_accepted_general (3, 2) (0, 1) (3, 0) (by norm_num)
-- the non-collinearity hypothesis is needed: collinear points are rejected
example : sweep [#[F 0 0, F 1 1, F 2 2]] ≠ .ok [sort3 (F 0 0) (F 1 1) (F 2 2)] := by decide +kernel

end Cav.C04Triangle
