/-
  C14 — the 3-D display solid built by `CavDisplay3D::new`: shapes of the three curtains and the
  two meshes, the top mesh is the graph of `f`, the bottom mesh its image under
  `g(x) = x − (c(f(x)) − c(0))`; over `Rat` the solid is closed: the curtains' first rows are
  the outer ring of the bottom mesh, their last rows the outer ring of the top mesh, and every
  curtain column is a translate of the `c`-curve.

  * sections 1–2: STRUCTURAL (every `Num α`; no law of arithmetic).
  * section 3: over `Rat` (`instNumRat`; `Num` operations used: `+ - * /`, `ofNat`).

  Notation (Cav/Lemmas/Disp3D.lean): `xvs3 t cfg` the three edge sample lists
  (`t1→t2`, `t2→t0`, `t0→t1`), `boundary3 t cfg` their concatenation with repeated corners
  dropped, `center3 t` the centroid, `lerp3 ctr radr x = (1−radr)·ctr + radr·x`,
  `g3 f c x = x − (c(f x) − c 0)`, `cn3 c y = c y − c 0`.
-/
import Cav.Lemmas.Disp3D

namespace Cav.C14
open Cav Num Gen Cav.DispL

/-- `(x, y)` of a 3-D point -/
def xy {α : Type} (p : P3 α) : P2 α := (p.1, p.2.1)
/-- the height of a 3-D point -/
def hz {α : Type} (p : P3 α) : α := p.2.2

/-- `a ++ b.drop 1 ++ c.drop 1`: the closed walk along three edge lists that share corners -/
def stitch {β : Type} : List (List β) → List β
  | [a, b, c] => a ++ b.drop 1 ++ c.drop 1
  | _ => []

/-! ## 1. shapes (structural) -/

section
variable {α : Type} [Num α]
variable (f : P2 α → α) (c : α → P2 α) (t : P2 α × P2 α × P2 α) (integ : Option (α × α))
  (cfg : Cfg3D α)

theorem triag_eq : (disp3DNew f c t integ cfg).triag = t := disp3DNew_triag f c t integ cfg
theorem integ_eq : (disp3DNew f c t integ cfg).integ = integ := disp3DNew_integ f c t integ cfg

/-- three curtains, one per edge -/
theorem curtains_length : (disp3DNew f c t integ cfg).curtains.length = 3 := by
  rw [disp3DNew_curtains]; simp [xvs3]

/-- every curtain has one row per height sample, every row one point per edge sample -/
theorem curtain_shape : ∀ cur ∈ (disp3DNew f c t integ cfg).curtains,
    cur.length = (vecFromRes (zero : α) one cfg.yRes).length ∧ cur.length = max (cfg.yRes + 1) 2 ∧
      ∀ row ∈ cur, row.length = max (cfg.xRes + 1) 2 := by
  intro cur hcur
  rw [disp3DNew_curtains, List.mem_map] at hcur
  obtain ⟨xv, hxv, rfl⟩ := hcur
  refine ⟨by simp, by simp [DispL.vecFromRes_length], ?_⟩
  intro row hrow
  obtain ⟨yr, _, rfl⟩ := List.mem_map.mp hrow
  rw [List.length_map]
  simp only [xvs3, List.mem_cons, List.not_mem_nil, or_false] at hxv
  rcases hxv with rfl | rfl | rfl <;> exact vecFromRes2_length _ _ _

/-- the k-th curtain stands over the k-th edge: row `j`, column `i` is `curtainPt f c r_j x_i` -/
theorem curtain_rows : (disp3DNew f c t integ cfg).curtains =
    (xvs3 t cfg).map fun xv =>
      (vecFromRes (zero : α) one cfg.yRes).map fun yr => xv.map (curtainPt f c yr) :=
  disp3DNew_curtains f c t integ cfg

/-- both meshes have one ring per radial sample and `3·max(x_res+1,2) − 2` points per ring -/
theorem topMesh_shape :
    (disp3DNew f c t integ cfg).topMesh.length = max (cfg.radialRes + 1) 2 ∧
    ∀ ring ∈ (disp3DNew f c t integ cfg).topMesh, ring.length = 3 * max (cfg.xRes + 1) 2 - 2 := by
  rw [disp3DNew_topMesh]
  refine ⟨by simp [DispL.vecFromRes_length], ?_⟩
  intro ring hring
  obtain ⟨r, _, rfl⟩ := List.mem_map.mp hring
  rw [List.length_map, boundary3_length]

theorem botMesh_shape :
    (disp3DNew f c t integ cfg).botMesh.length = max (cfg.radialRes + 1) 2 ∧
    ∀ ring ∈ (disp3DNew f c t integ cfg).botMesh, ring.length = 3 * max (cfg.xRes + 1) 2 - 2 := by
  rw [disp3DNew_botMesh]
  refine ⟨by simp [DispL.vecFromRes_length], ?_⟩
  intro ring hring
  obtain ⟨r, _, rfl⟩ := List.mem_map.mp hring
  rw [List.length_map, boundary3_length]

/-- `3·max(x_res+1,2) − 2 = 3·max(x_res,1) + 1` -/
theorem ring_length_alt (xRes : Nat) : 3 * max (xRes + 1) 2 - 2 = 3 * max xRes 1 + 1 := by omega

/-! ## 2. the meshes (structural) -/

/-- **top mesh = graph of `f`**: every top-mesh point is `(q.1, q.2, f q)` -/
theorem top_is_graph : ∀ ring ∈ (disp3DNew f c t integ cfg).topMesh, ∀ p ∈ ring,
    hz p = f (xy p) := by
  intro ring hring p hp
  rw [disp3DNew_topMesh] at hring
  obtain ⟨r, _, rfl⟩ := List.mem_map.mp hring
  obtain ⟨x, _, rfl⟩ := List.mem_map.mp hp
  rfl

/-- **bottom mesh = image of the top mesh's base points under `g`**:
    the bottom point corresponding to the top point over `q` is
    `(q.1 − ((c (f q)).1 − (c 0).1), q.2 − ((c (f q)).2 − (c 0).2))` -/
theorem bot_is_image : (disp3DNew f c t integ cfg).botMesh =
    (disp3DNew f c t integ cfg).topMesh.map fun ring => ring.map fun p =>
      ((xy p).1 - ((c (f (xy p))).1 - (c zero).1), (xy p).2 - ((c (f (xy p))).2 - (c zero).2)) := by
  rw [disp3DNew_botMesh, disp3DNew_topMesh]
  simp only [List.map_map, Function.comp_def]
  rfl

/-- the base points of ring `radr` are the boundary samples pulled towards the centroid -/
theorem top_base_points : (disp3DNew f c t integ cfg).topMesh.map (·.map xy) =
    (vecFromRes (zero : α) one cfg.radialRes).map fun radr =>
      (boundary3 t cfg).map (lerp3 (center3 t) radr) := by
  rw [disp3DNew_topMesh]
  simp only [List.map_map, Function.comp_def]
  rfl

/-- every curtain point's height is `r_j · f(x_i)` for its row's `r_j` and its column's `x_i` -/
theorem curtain_heights : (disp3DNew f c t integ cfg).curtains.map (·.map (·.map hz)) =
    (xvs3 t cfg).map fun xv =>
      (vecFromRes (zero : α) one cfg.yRes).map fun yr => xv.map fun x => yr * f x := by
  rw [disp3DNew_curtains]
  simp only [List.map_map, Function.comp_def]
  rfl

end

/-! ## 3. closure of the solid (over `Rat`) -/

section
variable (f : P2 Rat → Rat) (c : Rat → P2 Rat) (t : P2 Rat × P2 Rat × P2 Rat)
  (integ : Option (Rat × Rat)) (cfg : Cfg3D Rat)

theorem lerp3_one (ctr x : P2 Rat) : lerp3 ctr 1 x = x := by
  simp [lerp3, rat_one]

theorem lerp3_zero (ctr x : P2 Rat) : lerp3 ctr 0 x = ctr := by
  simp [lerp3, rat_one]

theorem curtainPt_zero (x : P2 Rat) : curtainPt f c 0 x = ((g3 f c x).1, (g3 f c x).2, 0) := by
  simp [curtainPt, cn3, rat_zero]

theorem curtainPt_one (x : P2 Rat) : curtainPt f c 1 x = (x.1, x.2, f x) := by
  simp [curtainPt, cn3, g3, rat_zero]

/-- the first row of the `k`-th curtain: the edge samples mapped by `g`, at height `0` -/
theorem curtain_first_rows : (disp3DNew f c t integ cfg).curtains.map (·.head?) =
    (xvs3 t cfg).map fun xv => some (xv.map fun x => ((g3 f c x).1, (g3 f c x).2, (0 : Rat))) := by
  rw [disp3DNew_curtains]
  simp only [List.map_map]
  apply List.map_congr_left
  intro xv _
  simp only [Function.comp, List.head?_map, DispL.vecFromRes_head, rat_zero, Option.map_some]
  rw [show curtainPt f c 0 = fun x => ((g3 f c x).1, (g3 f c x).2, (0 : Rat)) from
    funext (curtainPt_zero f c)]

/-- the last row of the `k`-th curtain: the edge samples themselves, at height `f` -/
theorem curtain_last_rows : (disp3DNew f c t integ cfg).curtains.map (·.getLast?) =
    (xvs3 t cfg).map fun xv => some (xv.map fun x => (x.1, x.2, f x)) := by
  rw [disp3DNew_curtains]
  simp only [List.map_map]
  apply List.map_congr_left
  intro xv _
  simp only [Function.comp, List.getLast?_map, DispL.vecFromRes_getLast, rat_zero, rat_one,
    Option.map_some]
  rw [show curtainPt f c 1 = fun x => (x.1, x.2, f x) from funext (curtainPt_one f c)]

/-- **the curtains stand on the floor**: the first row of every curtain has height `0` -/
theorem curtain_bottom_height_zero : ∀ cur ∈ (disp3DNew f c t integ cfg).curtains,
    ∃ row, cur.head? = some row ∧ ∀ p ∈ row, hz p = 0 := by
  intro cur hcur
  have h := curtain_first_rows f c t integ cfg
  obtain ⟨k, hk, rfl⟩ := List.getElem_of_mem hcur
  have h1 := congrArg (fun l => l[k]?) h
  simp only [List.getElem?_map, List.getElem?_eq_getElem hk, Option.map_some] at h1
  cases hx : (xvs3 t cfg)[k]? with
  | none => rw [hx] at h1; cases h1
  | some xv =>
    rw [hx] at h1
    simp only [Option.map_some, Option.some.injEq] at h1
    refine ⟨_, h1, ?_⟩
    intro p hp
    obtain ⟨x, _, rfl⟩ := List.mem_map.mp hp
    rfl

/-- the outer ring (`radr = 1`, the last radial sample) of the bottom mesh is `g` of the
    boundary walk -/
theorem bot_outer_ring : (disp3DNew f c t integ cfg).botMesh.getLast? =
    some ((boundary3 t cfg).map (g3 f c)) := by
  rw [disp3DNew_botMesh, List.getLast?_map, DispL.vecFromRes_getLast, rat_one]
  simp only [Option.map_some, lerp3_one]

/-- the outer ring of the top mesh is the graph of `f` over the boundary walk -/
theorem top_outer_ring : (disp3DNew f c t integ cfg).topMesh.getLast? =
    some ((boundary3 t cfg).map fun x => (x.1, x.2, f x)) := by
  rw [disp3DNew_topMesh, List.getLast?_map, DispL.vecFromRes_getLast, rat_one]
  simp only [Option.map_some, lerp3_one]

/-- the innermost ring (`radr = 0`) of the top mesh is the centroid, repeated -/
theorem top_inner_ring : (disp3DNew f c t integ cfg).topMesh.head? =
    some ((boundary3 t cfg).map fun _ => ((center3 t).1, (center3 t).2, f (center3 t))) := by
  rw [disp3DNew_topMesh, List.head?_map, DispL.vecFromRes_head, rat_zero]
  simp only [Option.map_some, lerp3_zero]

/-- **floor seam**: the curtains' first rows (their `(x,y)`), stitched along the boundary walk,
    are exactly the outer ring of the bottom mesh (same boundary sample ↦ same point) -/
theorem curtain_bottom_eq_bot_outer_ring :
    (disp3DNew f c t integ cfg).botMesh.getLast? =
      some (stitch ((disp3DNew f c t integ cfg).curtains.map fun cur =>
        (cur.head?.getD []).map xy)) := by
  rw [bot_outer_ring]
  have h := curtain_first_rows f c t integ cfg
  have h2 : (disp3DNew f c t integ cfg).curtains.map (fun cur => (cur.head?.getD []).map xy) =
      (xvs3 t cfg).map fun xv => xv.map (g3 f c) := by
    have := congrArg (List.map fun o : Option (List (P3 Rat)) => (o.getD []).map xy) h
    simp only [List.map_map] at this
    rw [show (fun cur : List (List (P3 Rat)) => (cur.head?.getD []).map xy) =
      ((fun o : Option (List (P3 Rat)) => (o.getD []).map xy) ∘ fun x => x.head?) from rfl, this]
    apply List.map_congr_left
    intro xv _
    simp only [Function.comp, Option.getD_some, List.map_map]
    apply List.map_congr_left
    intro x _
    rfl
  rw [h2]
  simp only [xvs3, List.map_cons, List.map_nil, stitch, boundary3, List.map_append, List.map_drop]

/-- **roof seam**: the curtains' last rows, stitched along the boundary walk, are exactly the
    outer ring of the top mesh; in particular each such point is `(x_i, f(x_i))` -/
theorem curtain_top_eq_top_outer_ring :
    (disp3DNew f c t integ cfg).topMesh.getLast? =
      some (stitch ((disp3DNew f c t integ cfg).curtains.map fun cur => cur.getLast?.getD [])) := by
  rw [top_outer_ring]
  have h := curtain_last_rows f c t integ cfg
  have h2 : (disp3DNew f c t integ cfg).curtains.map (fun cur => cur.getLast?.getD []) =
      (xvs3 t cfg).map fun xv => xv.map fun x => (x.1, x.2, f x) := by
    have := congrArg (List.map fun o : Option (List (P3 Rat)) => o.getD []) h
    simp only [List.map_map] at this
    rw [show (fun cur : List (List (P3 Rat)) => cur.getLast?.getD []) =
      ((fun o : Option (List (P3 Rat)) => o.getD []) ∘ fun x => x.getLast?) from rfl, this]
    apply List.map_congr_left
    intro xv _
    simp only [Function.comp, Option.getD_some]
  rw [h2]
  simp only [xvs3, List.map_cons, List.map_nil, stitch, boundary3, List.map_append, List.map_drop]

/-- **every curtain column is a translate of the `c`-curve**: for every row of the curtain over
    the edge samples `xv`, `(x,y) − (c(z) − c(0))` is the same list `g(xv)` — it does not depend
    on the row -/
theorem curtain_col_is_c_translate :
    (disp3DNew f c t integ cfg).curtains.map (fun cur => cur.map fun row => row.map fun p =>
      ((xy p).1 - ((c (hz p)).1 - (c 0).1), (xy p).2 - ((c (hz p)).2 - (c 0).2))) =
    (xvs3 t cfg).map fun xv =>
      (vecFromRes (0 : Rat) 1 cfg.yRes).map fun _ => xv.map (g3 f c) := by
  rw [disp3DNew_curtains]
  simp only [List.map_map, Function.comp_def, rat_zero, rat_one]
  apply List.map_congr_left
  intro xv _
  apply List.map_congr_left
  intro yr _
  apply List.map_congr_left
  intro x _
  simp only [curtainPt, cn3, xy, hz, rat_zero]
  ext <;> simp

/-- consecutive edges share their corner, so `stitch` drops only repeated points -/
theorem edges_share_corners :
    (vecFromRes2 t.2.1 t.2.2 cfg.xRes).getLast? = (vecFromRes2 t.2.2 t.1 cfg.xRes).head? ∧
    (vecFromRes2 t.2.2 t.1 cfg.xRes).getLast? = (vecFromRes2 t.1 t.2.1 cfg.xRes).head? ∧
    (vecFromRes2 t.1 t.2.1 cfg.xRes).getLast? = (vecFromRes2 t.2.1 t.2.2 cfg.xRes).head? := by
  simp only [vecFromRes2, linspace2_head, linspace2_getLast, and_self]

/-- **offset invariance**: replacing `c` by `c + const` changes nothing in the display -/
theorem disp3_offset_invariant (c' : Rat → P2 Rat) (k : P2 Rat)
    (hc : ∀ y, c' y = ((c y).1 + k.1, (c y).2 + k.2)) :
    disp3DNew f c' t integ cfg = disp3DNew f c t integ cfg := by
  have hcn : cn3 c' = cn3 c := by
    funext y; simp only [cn3, hc]; ext <;> simp
  have hg : g3 f c' = g3 f c := by
    funext x; simp only [g3, hc]; ext <;> simp
  have hpt : curtainPt f c' = curtainPt f c := by
    funext yr x; simp only [curtainPt, hcn, hg]
  have e1 := disp3DNew_curtains f c' t integ cfg
  have e2 := disp3DNew_botMesh f c' t integ cfg
  rw [hpt, ← disp3DNew_curtains f c t integ cfg] at e1
  rw [hg, ← disp3DNew_botMesh f c t integ cfg] at e2
  have e3 : (disp3DNew f c' t integ cfg).topMesh = (disp3DNew f c t integ cfg).topMesh := by
    rw [disp3DNew_topMesh, disp3DNew_topMesh]
  have e4 : (disp3DNew f c' t integ cfg).triag = (disp3DNew f c t integ cfg).triag := by
    rw [disp3DNew_triag, disp3DNew_triag]
  have e5 : (disp3DNew f c' t integ cfg).integ = (disp3DNew f c t integ cfg).integ := by
    rw [disp3DNew_integ, disp3DNew_integ]
  cases hA : disp3DNew f c' t integ cfg
  cases hB : disp3DNew f c t integ cfg
  rw [hA, hB] at e1 e2 e3 e4 e5
  simp only at e1 e2 e3 e4 e5
  simp [e1, e2, e3, e4, e5]

end

/-! ## concrete instance: `f(x,y) = x + y`, `c(z) = (z, 2z)`, unit triangle, all resolutions 2 -/

def fEx : P2 Rat → Rat := fun p => p.1 + p.2
def cEx : Rat → P2 Rat := fun z => (z, 2 * z)
def tEx : P2 Rat × P2 Rat × P2 Rat := ((0, 0), (1, 0), (0, 1))
def cfgEx : Cfg3D Rat := ⟨false, 2, 2, 2, 20, 1/100⟩

example : (disp3DNew fEx cEx tEx none cfgEx).topMesh.getLast? =
    some [(1, 0, 1), (1/2, 1/2, 1), (0, 1, 1), (0, 1/2, 1/2), (0, 0, 0), (1/2, 0, 1/2), (1, 0, 1)] := by
  decide +kernel

example : (disp3DNew fEx cEx tEx none cfgEx).botMesh.getLast? =
    some [(0, -2), (-1/2, -3/2), (-1, -1), (-1/2, -1/2), (0, 0), (0, -1), (0, -2)] := by
  decide +kernel

/-- first curtain (edge `t1→t2`): rows at relative heights `0, 1/2, 1` -/
example : (disp3DNew fEx cEx tEx none cfgEx).curtains.head? =
    some [[(0, -2, 0), (-1/2, -3/2, 0), (-1, -1, 0)],
          [(1/2, -1, 1/2), (0, -1/2, 1/2), (-1/2, 0, 1/2)],
          [(1, 0, 1), (1/2, 1/2, 1), (0, 1, 1)]] := by
  decide +kernel

/-- `c'(z) = (z + 5, 2z − 1)` is an offset of `cEx`: same display -/
example : disp3DNew fEx (fun z => (z + 5, 2 * z - 1)) tEx none cfgEx = disp3DNew fEx cEx tEx none cfgEx :=
  disp3_offset_invariant fEx cEx tEx none cfgEx _ (5, -1) (fun y => by simp [cEx]; ring)

end Cav.C14
