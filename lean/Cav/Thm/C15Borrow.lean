/-
  C15 (absence of panics) — the `RefCell` borrow panic of the sweep-line triangulator.

  STATUS: conditional.  `sweep polys ≠ .error (.panic "borrow")` is NOT proved outright; it is
  reduced to a decidable monitor on the states at which a pass of `handle_next` starts, and no
  counterexample was found: about 2.6·10⁸ runs of the compiled model over `XQ` (exhaustively all
  pairs of polygons with ≤ 9 vertices in total and all triples with ≤ 10 on the 4×4 lattice,
  pairs of triangles and quadrilaterals on 5×5, pairs of triangles on 6×6, 3.8·10⁷ structured random inputs with
  1–4 polygons) gave no panic of any kind, and at every pass start the partner links described
  the active list (so the monitor below held).

  The three kinds of borrow sites of the implementation:
  (1) `will_overlap_bot/top` on the mutably borrowed edge of a Bend vertex panics iff that edge
      is its own bottom/top partner;
  (2) the check `bb == tt` in the Start arm repeats a guard that already returned
      `Err(Overlap)`: dead code (`handleStart_no_borrow`, no hypothesis on the links);
  (3) the End arm panics iff for the two registered edges `bot`, `top` (after the check
      `bot.t_part == top && top.b_part == bot`) `bot.b_part ∈ {bot, top}` or
      `top.t_part ∈ {bot, top}`, i.e. iff one of the two cells is its own partner or has two
      equal partners.
  `SOk i e`: the cell `e` of edge `i` is not its own partner and its two partners differ.
  `HeadOk s`: the cells of the edges registered with the head of the event queue are `SOk`.

  Proved (any `Num` instance, any input):
  * a pass that starts from a well-formed heap with `HeadOk` does not raise the borrow panic
    (`handleNext_no_borrow`);
  * hence a borrow panic of `sweep` needs a pass that starts from a state violating `HeadOk`
    (`sweep_borrow_needs_bad_cell`), and `sweep` raises no borrow panic when the executable
    monitor `sweepChk` (= `HeadOk` at every pass start) answers `true`
    (`sweep_no_borrow_of_monitor`);
  * together with `C15Heap`: under the monitor, `sweep` over `XQ` never panics
    (`sweep_never_panics_of_monitor`).

  What is missing for the unconditional statement: `HeadOk` is implied by "the partner links
  describe the active list in stored order", which the Start arm (partners chosen by searching
  the `BTreeSet`) and the End arm (removal by searching) keep only if the comparator `Ord for
  YEdge` is consistent with the stored order at every look-up — a geometric fact about the sweep
  (non-crossing of neighbouring edges between events) that is not formalised here.  With an
  arbitrary comparator the panic IS reachable (Start between `X` above `Y` with `Y.t_part = X`
  closes a cycle; the End of the new pair leaves `X.b_part = X.t_part = Y`).

  Model path used: `Sweep.handleNext`, the three handlers and everything below, `Sweep.loop`,
  `Sweep.run`, `sweep`.
-/
import Cav.Lemmas.SweepLinksLoop
import Cav.Thm.C15Heap

namespace Cav.C15Borrow
open Cav Num Cav.Geo Cav.Sweep Cav.SweepRun Cav.SweepHoare Cav.SweepHeap Cav.SweepLinks Cav.SweepSetup

-- decidable equality of model outcomes, for the kernel-evaluated examples
deriving instance DecidableEq for SErr
deriving instance DecidableEq for Except

variable {α : Type} [Num α]

/-- `SOk`, `HeadOk` spelled out -/
example (i : Nat) (e : Edge α) : SOk i e ↔
    (e.bPart ≠ some i ∧ e.tPart ≠ some i ∧ ∀ j, e.bPart = some j → e.tPart ≠ some j) := Iff.rfl
example (s : St α) (u : Nat) (r : List Nat) (rest : List (Nat × List Nat))
    (h : s.events = (u, r) :: rest) :
    HeadOk s ↔ ∀ i ∈ r, ∀ e, s.edges[i]? = some e → SOk i e := by
  unfold HeadOk SOn; rw [h]

/-- **site (2) is dead code**: from any well-formed heap the Start arm never raises the borrow
    panic -/
theorem handleStart_no_borrow {V : Array (Vtx α)} {s : St α} (hw : HeapWF V s) (p : Pt α)
    (lp1 lp2 : Nat) (h1 : lp1 < V.size) (h2 : lp2 < V.size) :
    (handleStart p lp1 lp2).run s ≠ .error (.panic "borrow") := by
  obtain ⟨N, C, D, hs⟩ := hw
  intro h
  have := (handleStart_nb (r := []) (E := NotBorrow) okErr_notBorrow p lp1 lp2 h1 h2).err
    (s := s) ⟨hs, by intro i hi; cases hi⟩ h
  exact this rfl

/-- **one pass**: from a well-formed heap in which the cells of the edges registered with the
    head of the queue are `SOk`, `handle_next` does not raise the borrow panic -/
theorem handleNext_no_borrow {V : Array (Vtx α)} {s : St α} (hw : HeapWF V s) (hok : HeadOk s) :
    (handleNext : SM α Unit).run s ≠ .error (.panic "borrow") := by
  obtain ⟨N, C, D, hs⟩ := hw
  cases hev : s.events with
  | nil =>
    rw [handleNext_run_nil hev]
    intro h
    have : ("unreachable" : String) = "borrow" := by injection h with h; injection h
    exact absurd this (by decide)
  | cons a rest =>
    obtain ⟨lp, r⟩ := a
    rw [handleNext_run_cons hev]
    have hson : SOn r s := by unfold HeadOk at hok; rw [hev] at hok; exact hok
    have hhead : EvOk V.size D (lp, r) := hs.events _ (by rw [hev]; exact List.mem_cons_self)
    have hb := nextBody_nb (E := NotBorrow) okErr_notBorrow s ⟨hs, hson⟩ lp rest hhead.1
      hhead.2 (fun ev hev' => hs.events ev (by rw [hev]; exact List.mem_cons_of_mem _ hev'))
    intro h
    exact hb.err ⟨hs, hson⟩ h rfl

/-- **a borrow panic needs a bad cell**: if `sweep` raises the borrow panic, then after the
    set-up phase and some successful passes of `handle_next` (`Steps s0 s'`) a pass starts from
    a state `s'` in which the cell of an edge registered with the vertex being handled is its own
    partner or has two equal partners -/
theorem sweep_borrow_needs_bad_cell {polys : List (Array (Pt α))}
    (h : sweep polys = .error (.panic "borrow")) :
    ∃ seen s0 s', (forIn polys ([] : List (Pt α)) polyBody).run (initSt : St α) = .ok (seen, s0) ∧
      Steps s0 s' ∧ ¬ HeadOk s' :=
  sweep_borrow h

/-- **no borrow panic under the monitor**: `sweepChk polys` runs the model and checks `HeadOk`
    (as a Boolean) at the start of every pass -/
theorem sweep_no_borrow_of_monitor {polys : List (Array (Pt α))} (h : sweepChk polys = true) :
    sweep polys ≠ .error (.panic "borrow") :=
  sweep_no_borrow_of_chk h

/-- over `XQ`, under the monitor, the model never panics -/
theorem sweep_never_panics_of_monitor {polys : List (Array (Pt XQ))} (h : sweepChk polys = true) :
    ∀ k, sweep polys ≠ .error (.panic k) := by
  intro k hk
  have := C15Heap.sweep_panic_only_borrow polys k hk
  subst this
  exact sweep_no_borrow_of_monitor h hk

/-- the monitor follows from the natural invariant of the implementation: the partner links
    describe the active list in stored order (`Links`), and the edges registered with the vertex
    being handled are active -/
theorem headOk_of_links_and_active {s : St α} (hl : Links s)
    (hreg : ∀ u r rest, s.events = (u, r) :: rest → ∀ i ∈ r, i ∈ s.active) : HeadOk s :=
  SweepLinks.headOk_of_links hl hreg

/-! ### non-vacuity -/

/-- a heap with one edge that is its own bottom partner -/
def selfLoop : St XQ :=
  { (initSt : St XQ) with edges := #[⟨F 1 0, 0, false, some 0, none⟩] }

/-- the borrow panic is a real outcome of the model from such a heap (site (1)), and the
    monitor sees the bad cell -/
example : (willOverlapBot 0 true).run selfLoop = .error (.panic "borrow") := rfl
example : sokB 0 (⟨F 1 0, 0, false, some 0, none⟩ : Edge XQ) = false := by decide +kernel
example : headOkB { selfLoop with events := [(0, [0])] } = false := by decide +kernel

/-- the monitor on concrete runs (unit square: Start, Bend, Bend, End; a square with a square
    hole: improper Start, chain split and merge), and the theorems applied to them -/
example : sweepChk [#[F 0 0, F 1 0, F 1 1, F 0 1]] = true := by decide +kernel
example : sweepChk [#[F 0 0, F 3 0, F 3 3, F 0 3], #[F 1 1, F 1 2, F 2 2, F 2 1]] = true := by
  decide +kernel
example : (sweep [#[F 0 0, F 3 0, F 3 3, F 0 3], #[F 1 1, F 1 2, F 2 2, F 2 1]]).isOk = true := by
  decide +kernel
example : ∀ k, sweep [#[F 0 0, F 3 0, F 3 3, F 0 3], #[F 1 1, F 1 2, F 2 2, F 2 1]] ≠
    .error (.panic k) :=
  sweep_never_panics_of_monitor (by decide +kernel)

end Cav.C15Borrow
