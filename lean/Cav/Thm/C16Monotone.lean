/-
  C16 (invalid input is rejected) for a class of UNBOUNDED size: a polygon that consists of two
  x-monotone chains from its leftmost to its rightmost vertex (`TwoChains P L m`, pairwise
  distinct abscissae) whose chains CROSS is rejected by the sweep model over `XQ` with
  `.overlap .bend p`, and `p` is located: it is the first Bend, in sweep order, whose look-ahead
  test (`willOverlapTop` / `willOverlapBot`: the new edge against its partner at the nearer of
  their right end points) fails.

  Notation (`CvxPoly.lean`): `pf P L k = cyc P (L + k)` is the chain after the leftmost vertex
  `L`, `pb P L k = cyc P (L + n - k)` the chain before it.  The chain whose first edge is lower
  at `L` is the bottom chain `b` (edge 0 of the model), the other one the top chain `t`.

  WHERE the model detects a crossing.  The fact "`b k` lies below the top edge `t l → t (l+1)`
  that spans its abscissa" is tested when the LATER of the two edges `b (k-1) → b k`,
  `t l → t (l+1)` is created, i.e. at the later of the vertices `b (k-1)`, `t l` (a Bend, or the
  Start for `k = 1`, `l = 0`) — one event before the vertex `b k` itself is reached; symmetrically
  for "`t l` above the bottom edge `b k → b (k+1)`".  `AboveTo b t mB mT ξ` collects the facts
  tested at abscissae `≤ ξ`.  The End vertex never is the first place of detection: the two
  final edges share the rightmost vertex, their look-ahead test is skipped (`ofEq x1 x2`), and if
  every Bend passes its test the chains do not cross at all (`MonoXPoly.above_of_all`).

  * `crossing_rejected_at_*` (X2, exact location): in a reachable sweep position `(i, j)` up to
    which all tested facts hold (`AboveTo … ξ`), if the next vertex is a Bend whose new edge ends
    strictly on the wrong side of the partner edge (or the partner edge ends strictly on the
    wrong side of the new edge), then `sweep = .error (.overlap .bend p)` for that Bend `p`.
  * `crossing_rejected` (X3): if the first edges at `L` are not collinear, no vertex lies ON the
    line of the spanning edge of the other chain (`NoTouch`) and the polygon is not `MonoSimple`
    (one chain strictly above the other), then it is rejected with `.overlap .bend p` at some
    input vertex `p`.
  The case excluded by `NoTouch` (a vertex exactly on the other chain) is not covered: there the
  answer of `cmpAt` depends on the gradients, and the model may or may not reject at that Bend.

  Proof: `MonoXConv.lean` … `MonoXPoly.lean` (X1: the monotone invariant `MInv` of
  `MonoStep.lean` holds as long as the tested facts hold, `MonoXReach.reach`; the failing Bend is
  evaluated symbolically in `MonoXFail.lean`; `MonoXFirst.first_viol` finds the first violation).
-/
import Cav.Lemmas.MonoXPoly
import Cav.Thm.C04Monotone

set_option linter.unusedSimpArgs false

namespace Cav.C16Monotone
open Cav Num Cav.Geo Cav.Sweep Cav.QuadRun Cav.QuadGeom Cav.CvxEvents Cav.CvxLoop Cav.CvxSetup
open Cav.CvxPoly Cav.MonoPoly Cav.MonoXConv Cav.MonoXReach Cav.MonoXFirst Cav.MonoXPoly
open Cav.C04Convex (isVtx_input)

/-- the guards of `AboveTo` cannot be met to the left of the leftmost vertex -/
theorem chain_ge {c : Nat → Rat × Rat} {mc : Nat} (hx : ∀ k < mc, (c k).1 < (c (k + 1)).1)
    (a : Nat) (ha : a ≤ mc) : (c 0).1 ≤ (c a).1 := by
  rcases Nat.eq_zero_or_pos a with rfl | h
  · exact le_refl _
  · exact le_of_lt (Cav.CvxGeom.chain_x_lt hx 0 a h ha)

theorem aboveTo_vacuous {b t : Nat → Rat × Rat} {mB mT : Nat}
    (hx : ∀ k < mB, (b k).1 < (b (k + 1)).1) : AboveTo b t mB mT ((b 0).1 - 1) := by
  constructor
  · intro k hk l hl hk0 _ _ g _
    have := chain_ge hx (k - 1) (by omega)
    linarith
  · intro l hl k hk _ _ _ _ g
    have := chain_ge hx k (by omega)
    linarith

theorem fwd0 (P : Array (Rat × Rat)) (L m : Nat) (h2 : TwoChains P L m) : fwd P L 0 = L := by
  unfold fwd; rw [Nat.add_zero, Nat.mod_eq_of_lt h2.1]
theorem bwd0 (P : Array (Rat × Rat)) (L m : Nat) (h2 : TwoChains P L m) : bwd P L 0 = L := by
  rw [bwd_zero, fwd0 P L m h2]

section
variable (P : Array (Rat × Rat)) (hn : 3 ≤ P.size) (hx : DistinctX P) (L m : Nat)
  (h2 : TwoChains P L m)
include hn hx h2


/-! ### exact location (X2) -/

/-- chain after `L` below; the failing Bend lies on it -/
theorem crossing_rejected_at_fwd_B (i j : Nat) (ξ : Rat)
    (ha : AboveTo (pf P L) (pb P L) m (P.size - m) ξ)
    (hr : Reach m (P.size - m) (pf P L) (pb P L) i j)
    (g1 : (pf P L i).1 ≤ ξ) (g2 : (pb P L j).1 ≤ ξ)
    (hlt : (pf P L (i + 1)).1 < (pb P L (j + 1)).1)
    (hbad : ((pf P L (i + 2)).1 < (pb P L (j + 1)).1 ∧
        0 < orient (pb P L j) (pb P L (j + 1)) (pf P L (i + 2))) ∨
      ((pb P L (j + 1)).1 < (pf P L (i + 2)).1 ∧
        orient (pf P L (i + 1)) (pf P L (i + 2)) (pb P L (j + 1)) < 0)) :
    sweep [P.map (fun p => F p.1 p.2)] = .error (.overlap .bend (Fq (pf P L (i + 1)))) ∧
      sweepMon [P.map (fun p => F p.1 p.2)] = .error (.overlap .bend (Fq (pf P L (i + 1)))) := by
  have hC := mconvx_fwd hx h2 ha hn
  have := reject_B hC hr g1 g2 hlt hbad (P.size + 1) (by have := hr.1; have := hr.2.1; omega)
  rw [fwd0 P L m h2] at this
  exact sweep_of_loop_error hx h2 hn this

/-- chain after `L` below; the failing Bend lies on the chain before `L` -/
theorem crossing_rejected_at_fwd_T (i j : Nat) (ξ : Rat)
    (ha : AboveTo (pf P L) (pb P L) m (P.size - m) ξ)
    (hr : Reach m (P.size - m) (pf P L) (pb P L) i j)
    (g1 : (pf P L i).1 ≤ ξ) (g2 : (pb P L j).1 ≤ ξ)
    (hlt : (pb P L (j + 1)).1 < (pf P L (i + 1)).1)
    (hbad : ((pb P L (j + 2)).1 < (pf P L (i + 1)).1 ∧
        orient (pf P L i) (pf P L (i + 1)) (pb P L (j + 2)) < 0) ∨
      ((pf P L (i + 1)).1 < (pb P L (j + 2)).1 ∧
        0 < orient (pb P L (j + 1)) (pb P L (j + 2)) (pf P L (i + 1)))) :
    sweep [P.map (fun p => F p.1 p.2)] = .error (.overlap .bend (Fq (pb P L (j + 1)))) ∧
      sweepMon [P.map (fun p => F p.1 p.2)] = .error (.overlap .bend (Fq (pb P L (j + 1)))) := by
  have hC := mconvx_fwd hx h2 ha hn
  have := reject_T hC hr g1 g2 hlt hbad (P.size + 1) (by have := hr.1; have := hr.2.1; omega)
  rw [fwd0 P L m h2] at this
  exact sweep_of_loop_error hx h2 hn this

/-- chain before `L` below; the failing Bend lies on it -/
theorem crossing_rejected_at_bwd_B (i j : Nat) (ξ : Rat)
    (ha : AboveTo (pb P L) (pf P L) (P.size - m) m ξ)
    (hr : Reach (P.size - m) m (pb P L) (pf P L) i j)
    (g1 : (pb P L i).1 ≤ ξ) (g2 : (pf P L j).1 ≤ ξ)
    (hlt : (pb P L (i + 1)).1 < (pf P L (j + 1)).1)
    (hbad : ((pb P L (i + 2)).1 < (pf P L (j + 1)).1 ∧
        0 < orient (pf P L j) (pf P L (j + 1)) (pb P L (i + 2))) ∨
      ((pf P L (j + 1)).1 < (pb P L (i + 2)).1 ∧
        orient (pb P L (i + 1)) (pb P L (i + 2)) (pf P L (j + 1)) < 0)) :
    sweep [P.map (fun p => F p.1 p.2)] = .error (.overlap .bend (Fq (pb P L (i + 1)))) ∧
      sweepMon [P.map (fun p => F p.1 p.2)] = .error (.overlap .bend (Fq (pb P L (i + 1)))) := by
  have hC := mconvx_bwd hx h2 ha hn
  have := reject_B hC hr g1 g2 hlt hbad (P.size + 1) (by have := hr.1; have := hr.2.1; omega)
  rw [bwd0 P L m h2] at this
  exact sweep_of_loop_error hx h2 hn this

/-- chain before `L` below; the failing Bend lies on the chain after `L` -/
theorem crossing_rejected_at_bwd_T (i j : Nat) (ξ : Rat)
    (ha : AboveTo (pb P L) (pf P L) (P.size - m) m ξ)
    (hr : Reach (P.size - m) m (pb P L) (pf P L) i j)
    (g1 : (pb P L i).1 ≤ ξ) (g2 : (pf P L j).1 ≤ ξ)
    (hlt : (pf P L (j + 1)).1 < (pb P L (i + 1)).1)
    (hbad : ((pf P L (j + 2)).1 < (pb P L (i + 1)).1 ∧
        orient (pb P L i) (pb P L (i + 1)) (pf P L (j + 2)) < 0) ∨
      ((pb P L (i + 1)).1 < (pf P L (j + 2)).1 ∧
        0 < orient (pf P L (j + 1)) (pf P L (j + 2)) (pb P L (i + 1)))) :
    sweep [P.map (fun p => F p.1 p.2)] = .error (.overlap .bend (Fq (pf P L (j + 1)))) ∧
      sweepMon [P.map (fun p => F p.1 p.2)] = .error (.overlap .bend (Fq (pf P L (j + 1)))) := by
  have hC := mconvx_bwd hx h2 ha hn
  have := reject_T hC hr g1 g2 hlt hbad (P.size + 1) (by have := hr.1; have := hr.2.1; omega)
  rw [bwd0 P L m h2] at this
  exact sweep_of_loop_error hx h2 hn this

/-! ### all cases (X3) -/

/-- **Two x-monotone chains that cross are rejected** (C16 for two-chain polygons of any size):
    `.overlap .bend p` at an input vertex `p`, the first Bend whose look-ahead test fails. -/
theorem crossing_rejected
    (hst : orient (pf P L 0) (pf P L 1) (pb P L 1) ≠ 0)
    (hnt : NoTouch (pf P L) (pb P L) m (P.size - m)) (hns : ¬ MonoSimple P L m) :
    ∃ p : Pt XQ, (∃ (i : Nat) (hi : i < P.size), p = F (P[i]).1 (P[i]).2) ∧
      sweep [P.map (fun p => F p.1 p.2)] = .error (.overlap .bend p) ∧
      sweepMon [P.map (fun p => F p.1 p.2)] = .error (.overlap .bend p) := by
  have hm : m < P.size := h2.2.2.1
  have hns' : ¬ Above (pf P L) (pb P L) m (P.size - m) ∧ ¬ Above (pb P L) (pf P L) (P.size - m) m :=
    ⟨fun h => hns (Or.inl h), fun h => hns (Or.inr h)⟩
  rcases lt_or_gt_of_ne hst with hneg | hpos
  · -- the chain before `L` starts below
    have hC := mconvx_bwd hx h2 (aboveTo_vacuous (t := pf P L) (mT := m) h2.2.2.2.2) hn
    have hs : 0 < orient (pb P L 0) (pb P L 1) (pf P L 1) := by
      rw [pb_zero]
      have e : orient (pf P L 0) (pb P L 1) (pf P L 1) = - orient (pf P L 0) (pf P L 1) (pb P L 1) := by
        unfold orient; ring
      rw [e]; linarith
    obtain ⟨p, hp, hloop⟩ := crossing_loop hC hs (Cav.MonoXPoly.NoTouch.swap hnt) hns'.2
    have := hloop (P.size + 1) (by omega)
    rw [bwd0 P L m h2] at this
    exact ⟨Fq p, isVtx_input (by omega) (Or.inr hp), sweep_of_loop_error hx h2 hn this⟩
  · -- the chain after `L` starts below
    have hC := mconvx_fwd hx h2 (aboveTo_vacuous (t := pb P L) (mT := P.size - m) h2.2.2.2.1) hn
    obtain ⟨p, hp, hloop⟩ := crossing_loop hC hpos hnt hns'.1
    have := hloop (P.size + 1) (by omega)
    rw [fwd0 P L m h2] at this
    exact ⟨Fq p, isVtx_input (by omega) (Or.inl hp), sweep_of_loop_error hx h2 hn this⟩

end

/-! ### non-vacuity: crossing two-chain polygons, evaluated by the kernel, and the theorems
    applied to them (so their hypotheses are satisfiable) -/

instance (mB mT : Nat) (b t : Nat → Rat × Rat) (i j : Nat) : Decidable (Reach mB mT b t i j) := by
  unfold Reach; exact inferInstance

/-- where the model stops, as a Boolean test -/
def stopsAtBend (r : Except (SErr XQ) (List (Pt XQ × Pt XQ × Pt XQ))) (p : Pt XQ) : Bool :=
  match r with
  | .error (.overlap .bend q) => decide (q = p)
  | _ => false

/-- the prototype: the chains `(0,0) (3,4) (6,-1) (10,0)` and `(0,0) (2,-2) (7,3) (10,0)` cross once -/
def X6 : Array (Rat × Rat) := #[(0, 0), (3, 4), (6, -1), (10, 0), (7, 3), (2, -2)]
/-- the sawtooth `S9` of `C04Monotone.lean` with the valley `(4,1)` pushed below the base edge -/
def X9 : Array (Rat × Rat) :=
  #[(0, 0), (10, 0), (7, 3), (6, 1), (5, 5), (4, -1), (3, 4), (2, 1), (1, 3)]
/-- the polygon `M10` of `C04Monotone.lean` with the vertex `(7,1)` of the upper chain pushed
    below the lower chain (clockwise, the leftmost vertex is `X10[7]`) -/
def X10 : Array (Rat × Rat) :=
  #[(5, 3), (7, -5), (8, 2), (9, 0), (6, -4), (4, -1), (2, -3), (0, 0), (1, 2), (3, 1)]

-- the model: `.overlap .bend` at `(3,4)`, `(3,4)` and `(6,-4)`
example : stopsAtBend (sweep [X6.map (fun p => F p.1 p.2)]) (F 3 4) = true := by decide +kernel
example : stopsAtBend (sweep [X9.map (fun p => F p.1 p.2)]) (F 3 4) = true := by decide +kernel
example : stopsAtBend (sweep [X10.map (fun p => F p.1 p.2)]) (F 6 (-4)) = true := by
  decide +kernel

-- the hypotheses of `crossing_rejected`
example : 3 ≤ X6.size ∧ DistinctX X6 ∧ TwoChains X6 0 3 ∧
    orient (pf X6 0 0) (pf X6 0 1) (pb X6 0 1) ≠ 0 ∧ NoTouch (pf X6 0) (pb X6 0) 3 (X6.size - 3) ∧
    ¬ MonoSimple X6 0 3 := by decide +kernel
example : 3 ≤ X10.size ∧ DistinctX X10 ∧ TwoChains X10 7 6 ∧
    orient (pf X10 7 0) (pf X10 7 1) (pb X10 7 1) ≠ 0 ∧ NoTouch (pf X10 7) (pb X10 7) 6 (X10.size - 6) ∧
    ¬ MonoSimple X10 7 6 := by decide +kernel

-- `crossing_rejected` on the three polygons
example : ∃ p : Pt XQ, (∃ (i : Nat) (hi : i < X6.size), p = F (X6[i]).1 (X6[i]).2) ∧
    sweep [X6.map (fun p => F p.1 p.2)] = .error (.overlap .bend p) ∧
    sweepMon [X6.map (fun p => F p.1 p.2)] = .error (.overlap .bend p) :=
  crossing_rejected X6 (by decide) (by decide +kernel) 0 3 (by decide +kernel) (by decide +kernel)
    (by decide +kernel) (by decide +kernel)
example : ∃ p : Pt XQ, (∃ (i : Nat) (hi : i < X9.size), p = F (X9[i]).1 (X9[i]).2) ∧
    sweep [X9.map (fun p => F p.1 p.2)] = .error (.overlap .bend p) ∧
    sweepMon [X9.map (fun p => F p.1 p.2)] = .error (.overlap .bend p) :=
  crossing_rejected X9 (by decide) (by decide +kernel) 0 1 (by decide +kernel) (by decide +kernel)
    (by decide +kernel) (by decide +kernel)
example : ∃ p : Pt XQ, (∃ (i : Nat) (hi : i < X10.size), p = F (X10[i]).1 (X10[i]).2) ∧
    sweep [X10.map (fun p => F p.1 p.2)] = .error (.overlap .bend p) ∧
    sweepMon [X10.map (fun p => F p.1 p.2)] = .error (.overlap .bend p) :=
  crossing_rejected X10 (by decide) (by decide +kernel) 7 6 (by decide +kernel) (by decide +kernel)
    (by decide +kernel) (by decide +kernel)

-- the exact location.  `X6`: the chain before vertex 0 is the lower one; after its Bend `(2,-2)`
-- (position `i = 1`, `j = 0`, everything tested up to abscissa 2 holds) the next vertex is the
-- Bend `(3,4)` of the upper chain, whose new edge ends at `(6,-1)`, strictly below the lower edge
-- `(2,-2) → (7,3)`: the model stops at `(3,4)`, one event before the vertex on the wrong side.
example : sweep [X6.map (fun p => F p.1 p.2)] = .error (.overlap .bend (F 3 4)) ∧
    sweepMon [X6.map (fun p => F p.1 p.2)] = .error (.overlap .bend (F 3 4)) :=
  crossing_rejected_at_bwd_T X6 (by decide) (by decide +kernel) 0 3 (by decide +kernel) 1 0 2
    (by decide +kernel) (by decide +kernel) (by decide +kernel) (by decide +kernel)
    (by decide +kernel) (by decide +kernel)
-- `X9`: the base edge is the lower chain; in position `i = 0`, `j = 2` (abscissa 2) the Bend
-- `(3,4)` creates the edge to `(4,-1)`, which ends below the base edge
example : sweep [X9.map (fun p => F p.1 p.2)] = .error (.overlap .bend (F 3 4)) ∧
    sweepMon [X9.map (fun p => F p.1 p.2)] = .error (.overlap .bend (F 3 4)) :=
  crossing_rejected_at_fwd_T X9 (by decide) (by decide +kernel) 0 1 (by decide +kernel) 0 2 2
    (by decide +kernel) (by decide +kernel) (by decide +kernel) (by decide +kernel)
    (by decide +kernel) (by decide +kernel)
-- `X10`: in position `i = 2`, `j = 3` (abscissa 5) the Bend `(6,-4)` of the lower chain creates the
-- edge to `(9,0)`; the upper edge `(5,3) → (7,-5)` ends first, below it
example : sweep [X10.map (fun p => F p.1 p.2)] = .error (.overlap .bend (F 6 (-4))) ∧
    sweepMon [X10.map (fun p => F p.1 p.2)] = .error (.overlap .bend (F 6 (-4))) :=
  crossing_rejected_at_bwd_B X10 (by decide) (by decide +kernel) 7 6 (by decide +kernel) 2 3 5
    (by decide +kernel) (by decide +kernel) (by decide +kernel) (by decide +kernel)
    (by decide +kernel) (by decide +kernel)

-- the simple polygons of `C04Monotone.lean` are not instances: they are `MonoSimple`
example : MonoSimple C04Monotone.S9 0 1 ∧ MonoSimple C04Monotone.M10 7 6 := by decide +kernel

end Cav.C16Monotone
