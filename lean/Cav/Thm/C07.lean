/-
  C07 — the integration value attached to every display piece.

  STRUCTURAL (every `Num α`): `integ` is absent exactly when `compute_integ` is off; otherwise
  it is the successful result of the 1-D Gauss–Kronrod routine over exactly that piece's
  `[a_k, b_k]` with integrand `f · g'` (same tolerance and iteration budget as configured); by
  C10 its error estimate is honest.  Over `Rat`: the pieces of one interval are a chain from `a`
  to `b`, so every additive interval functional (in particular the exact integral) summed over
  the pieces gives its value on `[a,b]` — "the sub-interval integrals add up".

  Model path: `genDisplayCav`, `genDisplayRs`, `rsPiece`, `pieceInteg`, `gk1d` (opaque).
-/
import Cav.Lemmas.Disp2D
import Cav.Lemmas.DispChainRat
import Cav.Lemmas.DispExamples
import Cav.Thm.C10
import Cav.Thm.C11
import Cav.Thm.C13

namespace Cav.C07
open Cav Num Gen Cav.DispL

variable {α : Type} [Num α]

/-- the integrand handed to the quadrature: `f(x) · g'(x)` -/
def integrand (f g : AD α → AD α) : α → α := fun x => D1.f f x * D1.df g x

/-- `pieceInteg` succeeds in exactly two ways -/
theorem pieceInteg_ok (cfg : Cfg2D α) (f g : AD α → AD α) (a b : α) (r : Option (α × α))
    (h : pieceInteg cfg f g a b = .ok r) :
    (cfg.computeInteg = false ∧ r = none) ∨
    (cfg.computeInteg = true ∧ ∃ v, r = some v ∧
      (gk1d (integrand f g) a b cfg.tol (some cfg.maxIntIters)).res = .ok v) := by
  unfold pieceInteg at h
  by_cases hc : cfg.computeInteg = true
  · rw [if_pos hc] at h
    right
    refine ⟨hc, ?_⟩
    split at h
    · rename_i v hv
      cases h
      exact ⟨v, rfl, hv⟩
    · cases h
  · rw [if_neg hc] at h
    cases h
    exact Or.inl ⟨by simpa using hc, rfl⟩

/-- a failing quadrature aborts the piece with the corresponding display error -/
theorem pieceInteg_error (cfg : Cfg2D α) (f g : AD α → AD α) (a b : α) (e : DispErr)
    (h : pieceInteg cfg f g a b = .error e) :
    cfg.computeInteg = true ∧ ∃ ie,
      (gk1d (integrand f g) a b cfg.tol (some cfg.maxIntIters)).res = .error ie ∧
      e = .integ (ie == .convergence) := by
  unfold pieceInteg at h
  by_cases hc : cfg.computeInteg = true
  · rw [if_pos hc] at h
    refine ⟨hc, ?_⟩
    split at h
    · cases h
    · rename_i ie hie
      cases h
      exact ⟨ie, hie, rfl⟩
  · rw [if_neg hc] at h; cases h

/-! ### `gen_display_cav` -/

/-- **C07**: `integ = None` iff integration was not requested -/
theorem integ_none_iff (f c : AD α → AD α) (ivs : List (α × α)) (cfg : Cfg2D α)
    (ds : List (Disp2D α)) (h : genDisplayCav f c ivs cfg = .ok ds) (d : Disp2D α) (hd : d ∈ ds) :
    d.integ = none ↔ cfg.computeInteg = false := by
  obtain ⟨hI, _⟩ := genDisplayCav_mem h hd
  rcases pieceInteg_ok _ _ _ _ _ _ hI with ⟨hc, hn⟩ | ⟨hc, v, hv, _⟩
  · simp [hc, hn]
  · simp [hc, hv]

/-- **C07**: every piece's value is the quadrature over exactly that piece, integrand `f·g'`
    with `g = x − c(f(x)) + c(0)` -/
theorem piece_integ_is_gk1d (f c : AD α → AD α) (ivs : List (α × α)) (cfg : Cfg2D α)
    (ds : List (Disp2D α)) (h : genDisplayCav f c ivs cfg = .ok ds) (d : Disp2D α) (hd : d ∈ ds)
    (hc : cfg.computeInteg = true) :
    ∃ v, d.integ = some v ∧
      (gk1d (fun x => D1.f f x * D1.df (cavG f c (D1.f c zero)) x) d.a d.b cfg.tol
        (some cfg.maxIntIters)).res = .ok v := by
  obtain ⟨hI, _⟩ := genDisplayCav_mem h hd
  rcases pieceInteg_ok _ _ _ _ _ _ hI with ⟨hc', _⟩ | ⟨_, v, hv, hg⟩
  · rw [hc] at hc'; cases hc'
  · exact ⟨v, hv, hg⟩

/-- with C10: the stored error estimate is honest (or the piece is degenerate, `a_k == b_k`) -/
theorem piece_integ_honest (f c : AD α → AD α) (ivs : List (α × α)) (cfg : Cfg2D α)
    (ds : List (Disp2D α)) (h : genDisplayCav f c ivs cfg = .ok ds) (d : Disp2D α) (hd : d ∈ ds)
    (v e : α) (hv : d.integ = some (v, e)) :
    (Num.beq d.a d.b = true ∧ v = zero ∧ e = zero) ∨ (Num.isNaN e = false ∧ Num.lt e cfg.tol = true) := by
  obtain ⟨hI, _⟩ := genDisplayCav_mem h hd
  rcases pieceInteg_ok _ _ _ _ _ _ hI with ⟨_, hn⟩ | ⟨_, w, hw, hg⟩
  · rw [hn] at hv; cases hv
  · rw [hw] at hv; cases hv
    exact C10.gk1d_ok_honest _ _ _ _ _ _ _ hg

/-- no piece is produced without its quadrature having succeeded: a run with integration on
    that returns displays has a value on every one of them -/
theorem all_pieces_integrated (f c : AD α → AD α) (ivs : List (α × α)) (cfg : Cfg2D α)
    (ds : List (Disp2D α)) (h : genDisplayCav f c ivs cfg = .ok ds)
    (hc : cfg.computeInteg = true) : ∀ d ∈ ds, d.integ.isSome = true := by
  intro d hd
  obtain ⟨v, hv, _⟩ := piece_integ_is_gk1d f c ivs cfg ds h d hd hc
  simp [hv]

/-! ### `gen_display_rs` -/

theorem rs_integ_none_iff (f g : AD α → AD α) (ivs : List (α × α)) (cfg : Cfg2D α)
    (ds : List (Disp2D α)) (h : genDisplayRs f g ivs cfg = .ok ds) (d : Disp2D α) (hd : d ∈ ds) :
    d.integ = none ↔ cfg.computeInteg = false := by
  obtain ⟨_, _, hI, _⟩ := rsPiece_ok (genDisplayRs_mem h hd)
  rcases pieceInteg_ok _ _ _ _ _ _ hI with ⟨hc, hn⟩ | ⟨hc, v, hv, _⟩
  · simp [hc, hn]
  · simp [hc, hv]

theorem rs_piece_integ_is_gk1d (f g : AD α → AD α) (ivs : List (α × α)) (cfg : Cfg2D α)
    (ds : List (Disp2D α)) (h : genDisplayRs f g ivs cfg = .ok ds) (d : Disp2D α) (hd : d ∈ ds)
    (hc : cfg.computeInteg = true) :
    ∃ v, d.integ = some v ∧
      (gk1d (fun x => D1.f f x * D1.df g x) d.a d.b cfg.tol (some cfg.maxIntIters)).res = .ok v := by
  obtain ⟨_, _, hI, _⟩ := rsPiece_ok (genDisplayRs_mem h hd)
  rcases pieceInteg_ok _ _ _ _ _ _ hI with ⟨hc', _⟩ | ⟨_, v, hv, hg⟩
  · rw [hc] at hc'; cases hc'
  · exact ⟨v, hv, hg⟩

/-! ### the pieces add up (exact arithmetic) -/

/-- **C07, `Rat`**: the pieces of `[a,b]` form a chain, so for any additive interval functional
    `F` (`F x y + F y z = F x z`; e.g. `F x y = ∫_x^y f g'`), `Σ_k F a_k b_k = F a b`. -/
theorem chain_total (f c : AD Rat → AD Rat) (a b : Rat) (cfg : Cfg2D Rat) (ds : List (Disp2D Rat))
    (h : genDisplayCav f c [(a, b)] cfg = .ok ds)
    (F : Rat → Rat → Rat) (hF : ∀ x y z, F x y + F y z = F x z) :
    (ds.map (fun d => F d.a d.b)).sum = F a b := by
  have := C02.chain_additive F hF a b _ (C11.cav_pieces_isChain f c a b cfg ds h)
  simpa [C11.ends, List.map_map, Function.comp_def] using this

/-- the pieces' signed lengths add up to `b − a` (no gap, no overlap) -/
theorem chain_length_total (f c : AD Rat → AD Rat) (a b : Rat) (cfg : Cfg2D Rat)
    (ds : List (Disp2D Rat)) (h : genDisplayCav f c [(a, b)] cfg = .ok ds) :
    (ds.map (fun d => d.b - d.a)).sum = b - a :=
  chain_total f c a b cfg ds h (fun x y => y - x) (by intro x y z; ring)

theorem rs_chain_total (f g : AD Rat → AD Rat) (a b : Rat) (cfg : Cfg2D Rat) (ds : List (Disp2D Rat))
    (h : genDisplayRs f g [(a, b)] cfg = .ok ds)
    (F : Rat → Rat → Rat) (hF : ∀ x y z, F x y + F y z = F x z) :
    (ds.map (fun d => F d.a d.b)).sum = F a b := by
  have := C02.chain_additive F hF a b _ (C13.rs_pieces_isChain f g a b cfg ds h)
  simpa [C13.ends, List.map_map, Function.comp_def] using this

/-! ### concrete instances (`f = x`, `c = y²`, pieces `[0,1/2]`, `[1/2,1]`) -/

open Cav.DispEx in
example : ∃ ds, genDisplayCav idF sqC [(0, 1)] cfgEx = .ok ds ∧ cfgEx.computeInteg = true ∧
    ds ≠ [] ∧ (∀ d ∈ ds, ∃ v, d.integ = some v ∧
      (gk1d (fun x => D1.f idF x * D1.df (cavG idF sqC (D1.f sqC zero)) x) d.a d.b cfgEx.tol
        (some cfgEx.maxIntIters)).res = .ok v) ∧
    (ds.map (fun d => d.b - d.a)).sum = 1 - 0 := by
  obtain ⟨ds, h, _⟩ := DispEx.ends_some cav_run_ends
  exact ⟨ds, h, rfl, C11.cav_pieces_ne_nil _ _ _ _ _ _ h,
    fun d hd => piece_integ_is_gk1d _ _ _ _ _ h d hd rfl, chain_length_total _ _ _ _ _ _ h⟩

open Cav.DispEx in
example : ∃ ds, genDisplayCav idF sqC [(0, 1)] cfgExNoInt = .ok ds ∧ ds ≠ [] ∧
    ∀ d ∈ ds, d.integ = none := by
  obtain ⟨ds, h, _⟩ := DispEx.ends_some cav_run_ends_noInt
  exact ⟨ds, h, C11.cav_pieces_ne_nil _ _ _ _ _ _ h,
    fun d hd => (integ_none_iff _ _ _ _ _ h d hd).mpr rfl⟩

end Cav.C07
