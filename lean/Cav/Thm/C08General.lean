/-
  C08 (accuracy clause, exact class) OVER THE WHOLE EVEN-ODD REGION, for EVERY valid polygon set:
  `gen_display_cav` (3-D) integrates `f · |det Dg|` over the region bounded by the input polygons
  (outer polygons minus holes plus islands …; any number of polygons, any nesting, vertical edges
  and equal abscissae allowed: `ValidSetV`, `Cav/Thm/C04GeneralV.lean`).

  `C08Accuracy.lean` ties the reported total to `Σ_{t ∈ sweep polys} (exact integral over t)`.
  Here that sum is identified with quantities of the POLYGON LIST alone.  Everything below is PROVEN
  (no `sorry`; axioms: `propext`, `Classical.choice`, `Quot.sound`).

  (G1) CONSTANT INTEGRAND (`cav3_region_const`, `cav3_region_const_affc`, general form
       `cav3_region_const_of`): for every `ValidSetV polys`, `f = k`, a successful run with
       integration on and a finite tolerance,
           ds.length = triCountV polys  ∧
           |Σ v − k · evenOddArea2V polys / 2| ≤ |k| · evenOddArea2V polys · constRel
       (`evenOddArea2V polys` = twice the area of the even-odd region,
       `|Σ_i (-1)^depth_i |shoelace P_i||`; `constRel ≈ 1.5e-16`).

  (G2) POLYNOMIAL INTEGRAND (`cav3_region_of_terms`; `cav3_region_poly`: `c` constant, total degree
       of `f` ≤ 30; `cav3_region_affine`: `f` and `c` affine, determinant of either sign;
       `cav3_region_sign`: `σ·det Dg ≥ 0`, degree ≤ 15): one and the same output `T` of the sweep
         * has `triCountV polys` triangles, one display each, every display stores a finite value;
         * TILES THE EVEN-ODD REGION (`TilesRegion`: the four clauses of `C03TilingV.tiling_V` —
           every non-vertex point lies in exactly one triangle if it is in the region and in none
           otherwise; open triangles inside the region; interiors pairwise disjoint; region covered);
         * `Σ_{t ∈ T} triExactQ terms' t = regionMoment terms' polys`                (ADDITIVITY)
         * `|Σ v − regionMoment terms' polys| ≤ Σ_{t ∈ T} triBoundQ terms' t`.
       `regionMoment terms' polys` (`Cav/Lemmas/Acc3GRing.lean`) is defined from the polygons alone
       — it does not mention the triangulation — by Green's formula:
           regionMoment terms' polys = Σ_i (-1)^depth_i · polyMoment terms' P_i,
           polyMoment terms' P = sgn(shoelace P) · Σ_k omegaQ terms' P_k P_{k+1},
           omegaQ terms' a b = (b.y − a.y) · ∫_0^1 F(a + τ(b − a)) dτ,   F = ∫ terms' dx
       (every edge integral a closed-form rational number, `Acc3G.edgeInt`).  So the sum of the exact
       per-triangle integrals does NOT depend on which triangulation the sweep produced; for
       degree 0 it is `k · area` (`regionMoment_const_valid`, consistent with (G1)), for degree ≤ 1
       the edge weight is the classical area/first-moment formula (`Acc3G.omegaQ_affine`).

  How additivity is proved: `Acc3G.triExactQ_boundary` (Green's formula on one triangle, proved for
  the iterated simplex integral via `MvPolynomial` induction: `Acc3GGreen.green_s`, `green_r`,
  `Acc3GEdge.simplex_green`) writes the exact value of a triangle as `±` the sum of the
  antisymmetric edge weights `omegaQ` around it; the tiling proof's generic identity
  (`GenOutInVLoop.ghostV_of_shOK`: for EVERY antisymmetric edge weight the triangle sums telescope
  to the boundary sum of the ring) does the rest.

  Not stated: the identification of `regionMoment` (equivalently of the iterated simplex integrals)
  with a 2-dimensional Lebesgue integral over the region; a closed form of `Σ triBoundQ` in terms
  of the polygons for non-constant integrands; the success clause (`.ok` for a given tolerance).
-/
import Cav.Thm.C08Accuracy
import Cav.Thm.C03TilingV
import Cav.Lemmas.Acc3GRing

namespace Cav.C08General
open Cav Num Cav.Gen Cav.Geo Cav.Acc2 Cav.Acc3 Cav.Acc3G Cav.DispL Cav.C01 Cav.C08 Cav.C09Accuracy
open Cav.C08Accuracy Cav.C04GeneralV Cav.GenOutVPoly Cav.GenRing Cav.CvxEvents
open Cav.GenOutIn Cav.GenOutInV Cav.MonoGeom

/-- the model's input made from rational polygons is finite -/
theorem toInput_finite (polys : List (Array (Rat × Rat))) :
    ∀ p ∈ SweepSetup.allPts (toInput polys), Finite p := by
  intro p hp
  simp only [SweepSetup.allPts, List.mem_flatMap, List.mem_map] at hp
  obtain ⟨_, ⟨P, -, rfl⟩, hp⟩ := hp
  simp only [Array.toList_map, List.mem_map] at hp
  obtain ⟨q, -, rfl⟩ := hp
  exact ⟨_, _, rfl⟩

/-- the result of the model is unique -/
theorem sweepMon_unique {polys : List (Array (Pt XQ))} {T T' : List Tri}
    (h : sweepMon polys = .ok (T, true)) (h' : sweepMon polys = .ok (T', true)) : T' = T := by
  rw [h] at h'
  simp only [Except.ok.injEq, Prod.mk.injEq, and_true] at h'
  exact h'.symm

/-! ## (G1) constant integrand: `k ·` area of the even-odd region -/

/-- **(G1), general form**: if `f · absJacobianDet g = k` at every rational point, then for EVERY
    valid polygon set a successful run with integration on returns `triCountV polys` displays whose
    values add up to `k` times the area of the even-odd region within
    `|k| · 2·area · constRel` -/
theorem cav3_region_const_of (F : AD XQ × AD XQ → AD XQ) (f : AD Rat × AD Rat → AD Rat)
    (C : AD XQ → AD XQ × AD XQ) (c : AD Rat → AD Rat × AD Rat) (hF : HomF F f) (hC : HomC C c)
    (k : Rat) (hI : ∀ x y : Rat, integrand3 f c x y = k)
    (polys : List (Array (Rat × Rat))) (hv : ValidSetV polys) (cfg : Cfg3D XQ) (tol : Rat)
    (htol : cfg.tol = .fin tol) (hci : cfg.computeInteg = true) (ds : List (Disp3D XQ))
    (h : genDisplayCav3 F C (toInput polys) cfg = .ok ds) :
    ds.length = triCountV polys ∧
      |(ds.map dispVal).sum - k * (evenOddArea2V polys / 2)| ≤
        |k| * evenOddArea2V polys * constRel := by
  obtain ⟨T, hm, hlenT, -, -, harea⟩ := Cav.C03GeneralV.general_output_V polys hv
  have hsw := sweep_of_sweepMon hm
  obtain ⟨tris, hs', hlen, hsum⟩ := cav3_total_const F f C c hF hC k hI _ (toInput_finite polys)
    cfg tol htol hci ds h
  rw [hsw] at hs'
  cases hs'
  have harea' : (T.map fun tr => |orientPt tr.1 tr.2.1 tr.2.2|).sum = evenOddArea2V polys := harea
  rw [harea'] at hsum
  exact ⟨by rw [hlen, hlenT], hsum⟩

/-- **(G1) `cav3_region_const`**: `f = k` constant, `c` constant.  For every valid polygon set —
    any number of polygons, holes, islands, vertical edges — the reported total is `k` times the
    AREA OF THE EVEN-ODD REGION up to `1.5e-16` relative -/
theorem cav3_region_const (polys : List (Array (Rat × Rat))) (hv : ValidSetV polys)
    (k k1 k2 tol : Rat) (cfg : Cfg3D XQ) (htol : cfg.tol = .fin tol)
    (hci : cfg.computeInteg = true) (ds : List (Disp3D XQ))
    (h : genDisplayCav3 (adPoly2 (finTerms [(0, 0, k)])) (cAff (.fin 0) (.fin 0) (.fin k1) (.fin k2))
      (toInput polys) cfg = .ok ds) :
    ds.length = triCountV polys ∧
      |(ds.map dispVal).sum - k * (evenOddArea2V polys / 2)| ≤
        |k| * evenOddArea2V polys * constRel :=
  cav3_region_const_of _ _ _ _ (homF_adPoly2 [(0, 0, k)]) (homC_cAff 0 0 k1 k2) k
    (integrand3_const k k1 k2) polys hv cfg tol htol hci ds h

/-- `f = k` constant and ANY affine `c`-curve: `det Dg = 1`, the integrand is `k` -/
theorem integrand3_const_affc (k a b k1 k2 x y : Rat) :
    integrand3 (adPoly2 [(0, 0, k)]) (cAff a b k1 k2) x y = k := by
  rw [integrand3_adPoly2_cAff, evalTerms_detTerms]
  simp [dxTerms, dyTerms, evalTerms]

/-- **(G1) with an affine `c`-curve** `c(z) = (a·z + k₁, b·z + k₂)` -/
theorem cav3_region_const_affc (polys : List (Array (Rat × Rat))) (hv : ValidSetV polys)
    (k a b k1 k2 tol : Rat) (cfg : Cfg3D XQ) (htol : cfg.tol = .fin tol)
    (hci : cfg.computeInteg = true) (ds : List (Disp3D XQ))
    (h : genDisplayCav3 (adPoly2 (finTerms [(0, 0, k)])) (cAff (.fin a) (.fin b) (.fin k1) (.fin k2))
      (toInput polys) cfg = .ok ds) :
    ds.length = triCountV polys ∧
      |(ds.map dispVal).sum - k * (evenOddArea2V polys / 2)| ≤
        |k| * evenOddArea2V polys * constRel :=
  cav3_region_const_of _ _ _ _ (homF_adPoly2 [(0, 0, k)]) (homC_cAff a b k1 k2) k
    (integrand3_const_affc k a b k1 k2) polys hv cfg tol htol hci ds h

/-! ## (G2) polynomial integrand: the region moment -/

/-- **the triangles `T` tile the even-odd region of `polys`** (the clauses of
    `C03TilingV.tiling_V`): every point that is not a vertex lies in exactly one triangle if it
    lies in the region and in none otherwise; the open triangles lie in the region; the interiors
    are pairwise disjoint; the region is covered by the closed triangles -/
def TilesRegion (polys : List (Array (Rat × Rat))) (T : List Tri) : Prop :=
  (∀ q : Rat × Rat, GenericL (ringOf polys) q →
    T.countP (fun tr => decide (inTriL q tr)) = if inRegionL (ringOf polys) q then 1 else 0) ∧
  (∀ tr ∈ T, ∀ q : Rat × Rat, GenericL (ringOf polys) q → StrictIn q tr →
    inRegionL (ringOf polys) q) ∧
  (∀ (i j : Nat) (hij : i < j) (hj : j < T.length) (q : Rat × Rat),
    ¬ (StrictIn q (T[i]'(lt_trans hij hj)) ∧ StrictIn q (T[j]'hj))) ∧
  (∀ q : Rat × Rat, GenericL (ringOf polys) q → inRegionL (ringOf polys) q →
    ∃ tr ∈ T, ClosedIn q tr)

/-- **the output of the sweep for a valid polygon set**: count, tiling, and ADDITIVITY of the exact
    integrals of every polynomial — their sum over the triangles is the region moment, which is
    defined from the polygons alone -/
theorem sweep_region (polys : List (Array (Rat × Rat))) (hv : ValidSetV polys) :
    ∃ T : List Tri, sweepMon (toInput polys) = .ok (T, true) ∧ T.length = triCountV polys ∧
      TilesRegion polys T ∧
      ∀ terms : List (Nat × Nat × Rat),
        (T.map fun tr => triExactQ terms (triQ tr)).sum = regionMoment terms polys := by
  obtain ⟨T, hT, t1, t2, t3, t4⟩ := Cav.C03TilingV.tiling_V polys hv
  obtain ⟨T1, hT1, hlen, -⟩ := Cav.C03GeneralV.general_output_V polys hv
  cases sweepMon_unique hT hT1
  refine ⟨T, hT, hlen, ⟨t1, t2, t3, t4⟩, fun terms => ?_⟩
  obtain ⟨T2, hT2, hsum⟩ := sum_exact_region polys hv terms
  cases sweepMon_unique hT hT2
  exact hsum

/-- **(G2) `cav3_region_of_terms`, general form.**  Let the closures `F`, `C` over `XQ` be the
    images of closures `f`, `c` over `Rat` (`HomF`, `HomC`) and let the integrand
    `f · absJacobianDet g` be the polynomial `terms'` (total degree ≤ 30) at every rational point.
    For EVERY valid polygon set: if `gen_display_cav` succeeds with integration on and a finite
    tolerance, then the output `T` of the sweep has `triCountV polys` triangles, the displays
    correspond to them one-to-one and store finite values, `T` TILES THE EVEN-ODD REGION, the exact
    integrals over the triangles add up to `regionMoment terms' polys` (defined from the polygons
    alone), and the reported total is within the summed per-triangle bounds of that number. -/
theorem cav3_region_of_terms (F : AD XQ × AD XQ → AD XQ) (f : AD Rat × AD Rat → AD Rat)
    (C : AD XQ → AD XQ × AD XQ) (c : AD Rat → AD Rat × AD Rat) (hF : HomF F f) (hC : HomC C c)
    (terms' : List (Nat × Nat × Rat)) (hI : ∀ x y : Rat, integrand3 f c x y = evalTerms terms' x y)
    (hdeg : DegLe 30 terms') (polys : List (Array (Rat × Rat))) (hv : ValidSetV polys)
    (cfg : Cfg3D XQ) (tol : Rat) (htol : cfg.tol = .fin tol) (hci : cfg.computeInteg = true)
    (ds : List (Disp3D XQ)) (h : genDisplayCav3 F C (toInput polys) cfg = .ok ds) :
    ∃ T : List Tri, sweepMon (toInput polys) = .ok (T, true) ∧
      ds.length = triCountV polys ∧ ds.map (·.triag) = T.map triOf ∧
      (∀ d ∈ ds, ∃ v e : Rat, d.integ = some (.fin v, .fin e)) ∧
      TilesRegion polys T ∧
      (T.map fun tr => triExactQ terms' (triQ tr)).sum = regionMoment terms' polys ∧
      |(ds.map dispVal).sum - regionMoment terms' polys| ≤
        (T.map fun tr => triBoundQ terms' (triQ tr)).sum := by
  obtain ⟨T, hT, hlen, htile, hadd⟩ := sweep_region polys hv
  obtain ⟨tris, hs, hmap, hfin, hsum⟩ := cav3_total_of_terms F f C c hF hC terms' hI hdeg _
    (toInput_finite polys) cfg tol htol hci ds h
  rw [sweep_of_sweepMon hT] at hs
  cases hs
  rw [hadd terms'] at hsum
  refine ⟨T, hT, ?_, hmap, hfin, htile, hadd terms', hsum⟩
  rw [← hlen]
  simpa using congrArg List.length hmap

/-- **(G2)(a) constant `c`-curve**: `f = adPoly2 terms` of total degree ≤ 30, `c(z) = (k₁, k₂)`; the
    reported total is the integral of `f` over the even-odd region, `regionMoment terms polys` -/
theorem cav3_region_poly (terms : List (Nat × Nat × Rat)) (hdeg : DegLe 30 terms) (k1 k2 : Rat)
    (polys : List (Array (Rat × Rat))) (hv : ValidSetV polys)
    (cfg : Cfg3D XQ) (tol : Rat) (htol : cfg.tol = .fin tol) (hci : cfg.computeInteg = true)
    (ds : List (Disp3D XQ))
    (h : genDisplayCav3 (adPoly2 (finTerms terms)) (cAff (.fin 0) (.fin 0) (.fin k1) (.fin k2))
      (toInput polys) cfg = .ok ds) :
    ∃ T : List Tri, sweepMon (toInput polys) = .ok (T, true) ∧
      ds.length = triCountV polys ∧ ds.map (·.triag) = T.map triOf ∧
      (∀ d ∈ ds, ∃ v e : Rat, d.integ = some (.fin v, .fin e)) ∧
      TilesRegion polys T ∧
      (T.map fun tr => triExactQ terms (triQ tr)).sum = regionMoment terms polys ∧
      |(ds.map dispVal).sum - regionMoment terms polys| ≤
        (T.map fun tr => triBoundQ terms (triQ tr)).sum :=
  cav3_region_of_terms _ _ _ _ (homF_adPoly2 terms) (homC_cAff 0 0 k1 k2) terms
    (integrand3_adPoly2_const terms k1 k2) hdeg polys hv cfg tol htol hci ds h

/-- **(G2)(b) affine `f`, affine `c`**: `f(x,y) = p + q·x + r·y`, `c(z) = (a·z + k₁, b·z + k₂)`; the
    integrand is `|1 − a·q − b·r| · f` (determinant of either sign, also `0`) -/
theorem cav3_region_affine (p q r a b k1 k2 : Rat)
    (polys : List (Array (Rat × Rat))) (hv : ValidSetV polys)
    (cfg : Cfg3D XQ) (tol : Rat) (htol : cfg.tol = .fin tol) (hci : cfg.computeInteg = true)
    (ds : List (Disp3D XQ))
    (h : genDisplayCav3 (adPoly2 (finTerms (affTerms p q r)))
      (cAff (.fin a) (.fin b) (.fin k1) (.fin k2)) (toInput polys) cfg = .ok ds) :
    ∃ T : List Tri, sweepMon (toInput polys) = .ok (T, true) ∧
      ds.length = triCountV polys ∧ ds.map (·.triag) = T.map triOf ∧
      (∀ d ∈ ds, ∃ v e : Rat, d.integ = some (.fin v, .fin e)) ∧
      TilesRegion polys T ∧
      (T.map fun tr => triExactQ (affCavTerms p q r a b) (triQ tr)).sum =
        regionMoment (affCavTerms p q r a b) polys ∧
      |(ds.map dispVal).sum - regionMoment (affCavTerms p q r a b) polys| ≤
        (T.map fun tr => triBoundQ (affCavTerms p q r a b) (triQ tr)).sum :=
  cav3_region_of_terms _ _ _ _ (homF_adPoly2 _) (homC_cAff a b k1 k2) (affCavTerms p q r a b)
    (integrand3_affine p q r a b k1 k2) (degLe_affCavTerms p q r a b) polys hv cfg tol htol hci ds h

/-- **(G2)(c) determinant of constant sign**: `f = adPoly2 terms` of total degree ≤ 15, `c` affine,
    `σ·(1 − a·f_x − b·f_y) ≥ 0` at every rational point for a `σ = ±1`; the integrand is
    `f · σ·det Dg` with the terms `cavTerms σ a b terms` -/
theorem cav3_region_sign (terms : List (Nat × Nat × Rat)) (hdeg : DegLe 15 terms)
    (σ a b k1 k2 : Rat) (hσ : σ = 1 ∨ σ = -1)
    (hs : ∀ x y : Rat, 0 ≤ σ * evalTerms (detTerms a b terms) x y)
    (polys : List (Array (Rat × Rat))) (hv : ValidSetV polys)
    (cfg : Cfg3D XQ) (tol : Rat) (htol : cfg.tol = .fin tol) (hci : cfg.computeInteg = true)
    (ds : List (Disp3D XQ))
    (h : genDisplayCav3 (adPoly2 (finTerms terms)) (cAff (.fin a) (.fin b) (.fin k1) (.fin k2))
      (toInput polys) cfg = .ok ds) :
    ∃ T : List Tri, sweepMon (toInput polys) = .ok (T, true) ∧
      ds.length = triCountV polys ∧ ds.map (·.triag) = T.map triOf ∧
      (∀ d ∈ ds, ∃ v e : Rat, d.integ = some (.fin v, .fin e)) ∧
      TilesRegion polys T ∧
      (T.map fun tr => triExactQ (cavTerms σ a b terms) (triQ tr)).sum =
        regionMoment (cavTerms σ a b terms) polys ∧
      |(ds.map dispVal).sum - regionMoment (cavTerms σ a b terms) polys| ≤
        (T.map fun tr => triBoundQ (cavTerms σ a b terms) (triQ tr)).sum :=
  cav3_region_of_terms _ _ _ _ (homF_adPoly2 terms) (homC_cAff a b k1 k2) (cavTerms σ a b terms)
    (integrand3_adPoly2_sign terms σ a b k1 k2 hσ hs) (DegLe_cavTerms 15 σ a b terms hdeg)
    polys hv cfg tol htol hci ds h

/-! ### the region moment in degree 0 and 1 -/

/-- **degree 0**: for a valid polygon set the region moment of the constant `k` is `k` times the
    area of the even-odd region — (G2) specialises to (G1) -/
theorem regionMoment_const_valid (k : Rat) (polys : List (Array (Rat × Rat))) (hv : ValidSetV polys) :
    regionMoment [(0, 0, k)] polys = k * (evenOddArea2V polys / 2) := by
  rw [regionMoment_const, Cav.C03GeneralV.general_output_V_area polys hv]

/-- the same for the plain result `sweep` of the model (the list `genDisplayCav3` iterates over):
    the sum of the exact values over its triangles is a function of the polygon list alone -/
theorem exact_sum_eq_regionMoment (polys : List (Array (Rat × Rat))) (hv : ValidSetV polys)
    (terms : List (Nat × Nat × Rat)) (tris : List Tri) (h : sweep (toInput polys) = .ok tris) :
    (tris.map fun tr => triExactQ terms (triQ tr)).sum = regionMoment terms polys := by
  obtain ⟨T, hT, -, -, hadd⟩ := sweep_region polys hv
  rw [sweep_of_sweepMon hT] at h
  cases h
  exact hadd terms

/-! ## Non-vacuity: concrete runs of the model, evaluated by the kernel (`decide +kernel`) -/

/-- the run on the rectangle `[0,4]²` with the hole `[1,3]²`, `f = 3`, `c = (5, −1)` succeeds -/
theorem hole_run :
    (runShape (genDisplayCav3 fThree cConst (toInput RectHole) C08Accuracy.cfgEx)).isSome = true := by
  decide +kernel

/-- the run on the rectangle `[0,6]²` with the hole `[1,5]²` and the island `[2,4]²` succeeds -/
theorem nest_run :
    (runShape (genDisplayCav3 fThree cConst (toInput RectNest) C08Accuracy.cfgEx)).isSome = true := by
  decide +kernel

theorem ok_of_isSome {r : Except (Disp3Err XQ) (List (Disp3D XQ))}
    (h : (runShape r).isSome = true) : ∃ ds, r = .ok ds := by
  cases r with
  | error e => cases h
  | ok ds => exact ⟨ds, rfl⟩

/-- **rectangle with a hole**: `8 = (4 − 2) + (4 + 2)` displays, the values add up to
    `3 · (16 − 4) = 36` within `3 · 24 · constRel ≈ 1.1e-14` -/
example : ∃ ds, genDisplayCav3 fThree cConst (toInput RectHole) C08Accuracy.cfgEx = .ok ds ∧
    ds.length = 8 ∧ |(ds.map dispVal).sum - 36| ≤ 72 * constRel := by
  obtain ⟨ds, hr⟩ := ok_of_isSome hole_run
  obtain ⟨hl, hsum⟩ := cav3_region_const RectHole (by decide +kernel) 3 5 (-1) (1 / 100)
    C08Accuracy.cfgEx rfl rfl ds hr
  have e1 : triCountV RectHole = 8 := by decide +kernel
  have e2 : evenOddArea2V RectHole = 24 := by decide +kernel
  rw [e1] at hl
  rw [e2] at hsum
  refine ⟨ds, hr, hl, ?_⟩
  norm_num at hsum ⊢
  linarith

/-- **rectangle, hole, island in the hole**: `10 = 2 + 6 + 2` displays, the values add up to
    `3 · (36 − 16 + 4) = 72` within `3 · 48 · constRel` -/
example : ∃ ds, genDisplayCav3 fThree cConst (toInput RectNest) C08Accuracy.cfgEx = .ok ds ∧
    ds.length = 10 ∧ |(ds.map dispVal).sum - 72| ≤ 144 * constRel := by
  obtain ⟨ds, hr⟩ := ok_of_isSome nest_run
  obtain ⟨hl, hsum⟩ := cav3_region_const RectNest (by decide +kernel) 3 5 (-1) (1 / 100)
    C08Accuracy.cfgEx rfl rfl ds hr
  have e1 : triCountV RectNest = 10 := by decide +kernel
  have e2 : evenOddArea2V RectNest = 48 := by decide +kernel
  rw [e1] at hl
  rw [e2] at hsum
  refine ⟨ds, hr, hl, ?_⟩
  norm_num at hsum ⊢
  linarith

/-! ### the region moment evaluated: area and first moments of the example regions -/

-- area: 16 − 4, and 36 − 16 + 4
example : regionMoment [(0, 0, 1)] RectHole = 12 ∧ regionMoment [(0, 0, 1)] RectNest = 24 := by
  decide +kernel
-- first moments `∫ x`, `∫ y` (centroids `(2, 2)` and `(3, 3)`), second moment `∫ x²`
example : regionMoment [(1, 0, 1)] RectHole = 24 ∧ regionMoment [(0, 1, 1)] RectHole = 24 ∧
    regionMoment [(1, 0, 1)] RectNest = 72 ∧ regionMoment [(0, 1, 1)] RectNest = 72 := by
  decide +kernel
-- `∫ x² = 4·64/3 − 2·26/3 = 68`, `∫ x·y = 64 − 16 = 48` over the rectangle with the hole
example : regionMoment [(2, 0, 1)] RectHole = 68 ∧ regionMoment [(1, 1, 1)] RectHole = 48 := by
  decide +kernel
-- an L-shape: area 3, `∫ x = 5/2`; vertical and slanted edges mixed: area 15
example : regionMoment [(0, 0, 1)] Lshape = 3 ∧ regionMoment [(1, 0, 1)] Lshape = 5 / 2 ∧
    regionMoment [(0, 0, 1)] MixedV = 15 := by
  decide +kernel

/-! ### `f(x,y) = x + y`, `c(z) = (z, 2z)` on the unit square (the run `C08Accuracy.square_run`)

`det Dg = −2`, integrand `2x + 2y`, `∫∫ = 2` over the square; `cav3_region_affine` applies to the
square as a polygon set with two vertical edges. -/

def unitSq : List (Array (Rat × Rat)) := [#[(0, 0), (1, 0), (1, 1), (0, 1)]]

example : ∃ ds, genDisplayCav3 fXY cZ2Z (toInput unitSq) C08Accuracy.cfgEx = .ok ds ∧ ds.length = 2 ∧
    ∃ T : List Tri, sweepMon (toInput unitSq) = .ok (T, true) ∧ TilesRegion unitSq T ∧
      (T.map fun tr => triExactQ (affCavTerms 0 1 1 1 2) (triQ tr)).sum = 2 ∧
      |(ds.map dispVal).sum - 2| ≤
        (T.map fun tr => triBoundQ (affCavTerms 0 1 1 1 2) (triQ tr)).sum := by
  obtain ⟨ds, hr, -⟩ := runShape_ok square_run
  have hin : toInput unitSq = unitSquare := by simp [toInput, unitSq, unitSquare]
  have hr' : genDisplayCav3 fXY cZ2Z (toInput unitSq) C08Accuracy.cfgEx = .ok ds := by
    rw [hin]; exact hr
  obtain ⟨T, hT, hl, -, -, htile, hadd, hsum⟩ := cav3_region_affine 0 1 1 1 2 0 0 unitSq
    (by decide +kernel) C08Accuracy.cfgEx (1 / 100) rfl rfl ds hr'
  have e1 : triCountV unitSq = 2 := by decide +kernel
  have e2 : regionMoment (affCavTerms 0 1 1 1 2) unitSq = 2 := by decide +kernel
  rw [e1] at hl
  rw [e2] at hadd hsum
  exact ⟨ds, hr', hl, T, hT, htile, hadd, hsum⟩

/- (A further kernel run, `f(x,y) = x` on the rectangle with the hole — eight triangles, 441 dual-number evaluations
   each, about 95 s of kernel time — was removed from the build to keep the set-up short; nothing depends on it.) -/

end Cav.C08General
