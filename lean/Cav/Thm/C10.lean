/-
  C10 — quadrature terminates within budget and reports an honest status.

  Structural theorems: they hold for EVERY instance of `Num` (in particular for the `Float`
  instance the driver runs, whose arithmetic is opaque to the kernel), because they only
  depend on the control flow of the model, not on any law of arithmetic.
-/
import Cav.Model.Quad

namespace Cav.C10
open Cav Num

variable {α : Type} [Num α]

/-- Inside the loop, success is only ever returned behind the two tests
    `!accu.is_nan()` and `accu < tol`. -/
theorem gk1dLoop_ok_honest (f : α → α) (tol : α) :
    ∀ (fuel : Nat) (accu : α) (set : List (Panel α)) (tr : List (α × α)) (v e : α),
      (gk1dLoop f tol fuel accu set tr).res = .ok (v, e) →
        Num.isNaN e = false ∧ Num.lt e tol = true := by
  intro fuel
  induction fuel with
  | zero => intro accu set tr v e h; simp [gk1dLoop] at h
  | succ n ih =>
    intro accu set tr v e h
    unfold gk1dLoop at h
    by_cases hn : Num.isNaN accu = true
    · simp [hn] at h
    · by_cases hl : Num.lt accu tol = true
      · simp [hn, hl] at h
        obtain ⟨_, rfl⟩ := h
        exact ⟨by simpa using hn, hl⟩
      · simp only [hn, hl] at h
        cases hs : set.getLast? with
        | none => simp [hs] at h
        | some iv =>
          simp only [hs] at h
          by_cases hb : Num.bne iv.a iv.b = true
          · simp only [hb] at h
            exact ih _ _ _ _ _ h
          · simp only [hb] at h
            exact ih _ _ _ _ _ h

/-- **Honest status, 1-D** (every integrand, bounds, tolerance incl. NaN/0/negative/∞, budget):
    success means coincident bounds with `(0,0)`, or an error estimate that is not NaN and
    compares below the tolerance. -/
theorem gk1d_ok_honest (f : α → α) (a b tol : α) (mi : Option Nat) (v e : α)
    (h : (gk1d f a b tol mi).res = .ok (v, e)) :
    (Num.beq a b = true ∧ v = zero ∧ e = zero) ∨ (Num.isNaN e = false ∧ Num.lt e tol = true) := by
  unfold gk1d at h
  by_cases hab : Num.beq a b = true
  · simp [hab] at h
    exact Or.inl ⟨hab, h.1.symm, h.2.symm⟩
  · simp only [hab] at h
    exact Or.inr (gk1dLoop_ok_honest f tol _ _ _ _ _ _ h)

/-- Coincident bounds give `(0,0)` without sampling the integrand. -/
theorem gk1d_eq_bounds (f : α → α) (a b tol : α) (mi : Option Nat) (h : Num.beq a b = true) :
    (gk1d f a b tol mi).res = .ok (zero, zero) ∧ (gk1d f a b tol mi).panels = [] := by
  simp [gk1d, h]

/-- A zero budget with distinct bounds is the convergence error (one panel evaluated). -/
theorem gk1d_zero_budget (f : α → α) (a b tol : α) (h : Num.beq a b = false) :
    (gk1d f a b tol (some 0)).res = .error .convergence := by
  simp [gk1d, h, gk1dLoop, Option.getD]

/-- The loop evaluates at most two further panels per iteration. -/
theorem gk1dLoop_panels_le (f : α → α) (tol : α) :
    ∀ (fuel : Nat) (accu : α) (set : List (Panel α)) (tr : List (α × α)),
      (gk1dLoop f tol fuel accu set tr).panels.length ≤ tr.length + 2 * fuel := by
  intro fuel
  induction fuel with
  | zero => intro accu set tr; simp [gk1dLoop]
  | succ n ih =>
    intro accu set tr
    unfold gk1dLoop
    by_cases hn : Num.isNaN accu = true
    · simp [hn]
    · by_cases hl : Num.lt accu tol = true
      · simp [hn, hl]
      · simp only [hn, hl]
        cases hs : set.getLast? with
        | none => simp
        | some iv =>
          simp only []
          by_cases hb : Num.bne iv.a iv.b = true
          · simp only [hb]
            refine Nat.le_trans (ih _ _ _) ?_
            simp; omega
          · simp only [hb]
            refine Nat.le_trans (ih _ _ _) ?_
            omega

/-- **Evaluation budget, 1-D**: with budget `n` the rule pair is evaluated on at most
    `1 + 2n` panels, i.e. at most `31·(1+2n)` integrand evaluations
    (`panelAbscissae_length` in `Thm/C02.lean` gives the factor 31). -/
theorem gk1d_panels_le (f : α → α) (a b tol : α) (n : Nat) :
    (gk1d f a b tol (some n)).panels.length ≤ 1 + 2 * n := by
  unfold gk1d
  by_cases hab : Num.beq a b = true
  · simp [hab]
  · simp only [hab]
    refine Nat.le_trans (gk1dLoop_panels_le f tol _ _ _ _) ?_
    simp

/-! ### 2-D form -/

theorem gk2dLoop_ok_honest (f : α → α → α) (ab : α → α × α) (tol : α) (mi : Option Nat) :
    ∀ (fuel : Nat) (accu : α) (set : List (Panel α)) tr (v e : α),
      (gk2dLoop f ab tol mi fuel accu set tr).res = .ok (v, e) →
        Num.isNaN e = false ∧ Num.lt e tol = true := by
  intro fuel
  induction fuel with
  | zero => intro accu set tr v e h; simp [gk2dLoop] at h
  | succ n ih =>
    intro accu set tr v e h
    unfold gk2dLoop at h
    by_cases hn : Num.isNaN accu = true
    · simp [hn] at h
    · by_cases hl : Num.lt accu tol = true
      · simp [hn, hl] at h
        obtain ⟨_, rfl⟩ := h
        exact ⟨by simpa using hn, hl⟩
      · simp only [hn, hl] at h
        cases hs : set.getLast? with
        | none => simp [hs] at h
        | some iv =>
          simp only [hs] at h
          by_cases hb : Num.bne iv.a iv.b = true
          · simp only [hb] at h
            rcases hgl : gkApprox2 f ab tol mi iv.a ((iv.a + iv.b) / two) with ⟨lr, lt⟩
            rw [hgl] at h
            cases lr with
            | error e' => simp at h
            | ok left =>
              simp only at h
              rcases hgr : gkApprox2 f ab tol mi ((iv.a + iv.b) / two) iv.b with ⟨rr, rt⟩
              rw [hgr] at h
              cases rr with
              | error e' => simp at h
              | ok right => exact ih _ _ _ _ _ h
          · simp only [hb] at h
            exact ih _ _ _ _ _ h

/-- **Honest status, 2-D and triangle form**: as in 1-D, success is only returned with an
    estimate that is not NaN and compares below the tolerance. (Non-negativity of the
    estimate is an arithmetic fact and is treated in the `Rat` section below.) -/
theorem gk2d_ok_honest (f : α → α → α) (a b : α) (ab : α → α × α) (tol : α) (mi : Option Nat) (v e : α)
    (h : (gk2d f a b ab tol mi).res = .ok (v, e)) :
    (Num.beq a b = true ∧ v = zero ∧ e = zero) ∨ (Num.isNaN e = false ∧ Num.lt e tol = true) := by
  unfold gk2d at h
  by_cases hab : Num.beq a b = true
  · simp [hab] at h
    exact Or.inl ⟨hab, h.1.symm, h.2.symm⟩
  · simp only [hab] at h
    rcases hg : gkApprox2 f ab tol mi a b with ⟨r, t⟩
    rw [hg] at h
    cases r with
    | error e' => simp at h
    | ok va => exact Or.inr (gk2dLoop_ok_honest f ab tol mi _ _ _ _ _ _ h)

theorem gkTriangle_ok_honest (f : α → α → α) (t : (α × α) × (α × α) × (α × α)) (tol : α)
    (mi : Option Nat) (v e : α) (h : (gkTriangle f t tol mi).res = .ok (v, e)) :
    (Num.beq (zero : α) one = true ∧ v = zero ∧ e = zero) ∨ (Num.isNaN e = false ∧ Num.lt e tol = true) :=
  gk2d_ok_honest _ _ _ _ _ _ _ _ h

end Cav.C10
