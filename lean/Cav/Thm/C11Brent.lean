/-
  C11 — what `roots::find_root_brent` with the `XConvergency` test guarantees.

  Model path: `Cav/Model/Brent.lean` (`brentArrange`, `BrentSt`, `xConverged`, `brentLoop`,
  `findRootBrent`), a line-by-line model of roots 0.0.7 `find_root_brent`.  Statements are over
  `Rat` (`instNumRat`: `+ - * /` exact, `x / 0 = 0`) unless marked *structural* (every `Num α`).
  `Num` operations used: `+ - * /`, `ofNat 0/2`, `ofInt 2/3/4`, `abs`, `lt`, `le`, `beq`.
  The function `f : Rat → Rat` is ARBITRARY in every theorem (no continuity, no monotonicity).

  One iteration of the loop is named in `Cav/Lemmas/Brent.lean` (`BrentL.s0`, `cond1`, `bis`, `sx`,
  `pair`, `next`, `init`); `BrentL.brentLoop_succ` and `BrentL.findRootBrent_eq` (both `rfl`) tie the
  names to the model text.

  Contents
    1  `brentArrange_perm`
    2  `Bracket`, `bracket_init`, `bracket_step`
    3  `InHull`, `inHull_init`, `inHull_step`, `brent_in_hull`
    4  `brent_ok_cases`, `brent_ok_within_two_tol`, `brent_noBracketing_iff`,
       `brent_iterations_le` (structural), and the DEFECT examples `brent_misses_tol_*`:
       the returned point can be farther than `tol` from every zero of `f` in the bracket.
-/
import Cav.Lemmas.Brent

namespace Cav.C11
open Cav Num Cav.BrentL

/-! ## 1  `arrange` -/

/-- `arrange` returns its two points unchanged or swapped, the one with the larger `|y|` first. -/
theorem brentArrange_perm (a ya b yb : Rat) :
    (brentArrange a ya b yb = (a, ya, b, yb) ∨ brentArrange a ya b yb = (b, yb, a, ya)) ∧
    |(brentArrange a ya b yb).2.2.2| ≤ |(brentArrange a ya b yb).2.1| := by
  rcases arrange_cases a ya b yb with ⟨e, h⟩ | ⟨e, h⟩
  · rw [e]; exact ⟨Or.inl rfl, le_of_lt h⟩
  · rw [e]; exact ⟨Or.inr rfl, h⟩

example : brentArrange (0 : Rat) (-1) 2 3 = (2, 3, 0, -1) := by decide +kernel
example : brentArrange (0 : Rat) (-3) 2 1 = (0, -3, 2, 1) := by decide +kernel
/-- ties are swapped -/
example : brentArrange (0 : Rat) (-1) 2 1 = (2, 1, 0, -1) := by decide +kernel

/-! ## 2  the bracket invariant -/

/-- the stored ordinates are the values of `f`, and they do not have the same strict sign -/
def Bracket (f : Rat → Rat) (s : BrentSt Rat) : Prop :=
  s.ya = f s.a ∧ s.yb = f s.b ∧ s.ya * s.yb ≤ 0

instance (f : Rat → Rat) (s : BrentSt Rat) : Decidable (Bracket f s) := by
  unfold Bracket; infer_instance

/-- the state in which `findRootBrent` enters the loop -/
theorem findRootBrent_enters (a b : Rat) (f : Rat → Rat) (tol : Rat) (n : Nat)
    (h : findRootBrent a b f tol n ≠ .error .noBracketing) :
    findRootBrent a b f tol n = brentLoop f tol n (n + 1) (init a b f) := by
  rw [findRootBrent_eq] at h ⊢
  split
  · rename_i hlt; rw [if_pos hlt] at h; exact absurd rfl h
  · rfl

/-- the initial state is `(a, f a, b, f b)` or `(b, f b, a, f a)`, with `c = d = a`-component -/
theorem init_cases (a b : Rat) (f : Rat → Rat) :
    let s := init a b f
    s.c = s.a ∧ s.yc = s.ya ∧ s.d = s.a ∧ s.flag = true ∧ s.iter = 0 ∧ |s.yb| ≤ |s.ya| ∧
    ((s.a = a ∧ s.ya = f a ∧ s.b = b ∧ s.yb = f b) ∨ (s.a = b ∧ s.ya = f b ∧ s.b = a ∧ s.yb = f a)) := by
  intro s
  refine ⟨rfl, rfl, rfl, rfl, rfl, ?_⟩
  show |(brentArrange a (f a) b (f b)).2.2.2| ≤ |(brentArrange a (f a) b (f b)).2.1| ∧
    (((brentArrange a (f a) b (f b)).1 = a ∧ (brentArrange a (f a) b (f b)).2.1 = f a ∧
      (brentArrange a (f a) b (f b)).2.2.1 = b ∧ (brentArrange a (f a) b (f b)).2.2.2 = f b) ∨
     ((brentArrange a (f a) b (f b)).1 = b ∧ (brentArrange a (f a) b (f b)).2.1 = f b ∧
      (brentArrange a (f a) b (f b)).2.2.1 = a ∧ (brentArrange a (f a) b (f b)).2.2.2 = f a))
  rcases arrange_cases a (f a) b (f b) with ⟨e, h⟩ | ⟨e, h⟩
  · rw [e]; exact ⟨le_of_lt h, Or.inl ⟨rfl, rfl, rfl, rfl⟩⟩
  · rw [e]; exact ⟨h, Or.inr ⟨rfl, rfl, rfl, rfl⟩⟩

/-- `findRootBrent` starts the loop in a bracketing state (unless it reports `noBracketing`). -/
theorem bracket_init (a b : Rat) (f : Rat → Rat) (tol : Rat) (n : Nat)
    (h : findRootBrent a b f tol n ≠ .error .noBracketing) : Bracket f (init a b f) := by
  have hnb : ¬ 0 < (init a b f).ya * (init a b f).yb := by
    intro hlt
    apply h
    rw [findRootBrent_eq, if_pos (by simpa using hlt)]
  obtain ⟨-, -, -, -, -, -, hc⟩ := init_cases a b f
  rcases hc with ⟨e1, e2, e3, e4⟩ | ⟨e1, e2, e3, e4⟩
  · exact ⟨by rw [e1, e2], by rw [e3, e4], not_lt.mp hnb⟩
  · exact ⟨by rw [e1, e2], by rw [e3, e4], not_lt.mp hnb⟩

/-- One executed iteration preserves the bracket.  The hypothesis `s.ya ≠ 0` is what the loop
    has checked before it reaches the update (`is_root_found(ya)` returned `false`); it is needed:
    in the `else` branch `0 ≤ ya*ys` and `ya*yb ≤ 0` give `ys*yb ≤ 0` only for `ya ≠ 0`. -/
theorem bracket_step (f : Rat → Rat) (tol : Rat) (s : BrentSt Rat) (hb : Bracket f s)
    (hya : s.ya ≠ 0) : Bracket f (next f tol s) := by
  obtain ⟨h1, h2, h3⟩ := hb
  obtain ⟨-, -, -, -, -, -, hc⟩ := next_cases f tol s
  rcases hc with ⟨hlt, hc⟩ | ⟨hge, hc⟩
  · rw [h1] at hlt
    rcases hc with ⟨e1, e2, e3, e4⟩ | ⟨e1, e2, e3, e4⟩
    · exact ⟨by rw [e1, e2], by rw [e3, e4], by rw [e2, e4]; exact le_of_lt hlt⟩
    · exact ⟨by rw [e1, e2], by rw [e3, e4], by rw [e2, e4, mul_comm]; exact le_of_lt hlt⟩
  · have key : f (sx tol s) * f s.b ≤ 0 := by
      rw [← h2]
      have hsq : 0 < s.ya * s.ya := mul_self_pos.mpr hya
      by_contra hpos
      have hpos' : 0 < f (sx tol s) * s.yb := not_le.mp hpos
      have hprod : (s.ya * f (sx tol s)) * (s.ya * s.yb) = (s.ya * s.ya) * (f (sx tol s) * s.yb) := by ring
      have h5 : 0 < (s.ya * s.ya) * (f (sx tol s) * s.yb) := mul_pos hsq hpos'
      have h6 : (s.ya * f (sx tol s)) * (s.ya * s.yb) ≤ 0 := mul_nonpos_of_nonneg_of_nonpos hge h3
      linarith
    rcases hc with ⟨e1, e2, e3, e4⟩ | ⟨e1, e2, e3, e4⟩
    · exact ⟨by rw [e1, e2], by rw [e3, e4], by rw [e2, e4]; exact key⟩
    · exact ⟨by rw [e1, e2], by rw [e3, e4], by rw [e2, e4, mul_comm]; exact key⟩

/-- the hypothesis `s.ya ≠ 0` of `bracket_step` cannot be dropped: with `ya = 0` the update can
    produce a pair with `f a * f b > 0` -/
example :
    Bracket (fun x => if x = 0 then 0 else 1) ⟨0, 0, 1, 1, 0, 0, 0, true, 0⟩ ∧
    ¬ Bracket (fun x => if x = 0 then 0 else 1)
        (next (fun x => if x = 0 then 0 else 1) 1 ⟨0, 0, 1, 1, 0, 0, 0, true, 0⟩) := by
  decide +kernel

example : Bracket (fun x => x * x - 2) (init 0 2 (fun x => x * x - 2)) := by decide +kernel
example : Bracket (fun x => x * x - 2) (next (fun x => x * x - 2) (1/100) (init 0 2 (fun x => x * x - 2))) := by
  decide +kernel

/-! ## 3  the hull invariant -/

/-- all four abscissae of the state lie in `[lo, hi]` -/
def InHull (lo hi : Rat) (s : BrentSt Rat) : Prop :=
  (lo ≤ s.a ∧ s.a ≤ hi) ∧ (lo ≤ s.b ∧ s.b ≤ hi) ∧ (lo ≤ s.c ∧ s.c ≤ hi) ∧ (lo ≤ s.d ∧ s.d ≤ hi)

theorem inHull_init (a b : Rat) (f : Rat → Rat) : InHull (min a b) (max a b) (init a b f) := by
  obtain ⟨hc, -, hd, -, -, -, hcs⟩ := init_cases a b f
  have ha : min a b ≤ a ∧ a ≤ max a b := ⟨min_le_left _ _, le_max_left _ _⟩
  have hb : min a b ≤ b ∧ b ≤ max a b := ⟨min_le_right _ _, le_max_right _ _⟩
  unfold InHull
  rw [hc, hd]
  rcases hcs with ⟨e1, -, e3, -⟩ | ⟨e1, -, e3, -⟩ <;> rw [e1, e3] <;> exact ⟨by assumption, by assumption, by assumption, by assumption⟩

/-- the point at which `f` is evaluated lies in the hull of the current bracket -/
theorem sx_in_hull (tol lo hi : Rat) (s : BrentSt Rat) (h : InHull lo hi s) :
    lo ≤ sx tol s ∧ sx tol s ≤ hi :=
  btw_bounds h.1 h.2.1 (sx_btw tol s).1

/-- One iteration preserves the hull (unconditionally: the interpolated point is accepted only if
    it lies strictly between `(3a+b)/4` and `b`, otherwise the midpoint is used). -/
theorem inHull_step (f : Rat → Rat) (tol lo hi : Rat) (s : BrentSt Rat) (h : InHull lo hi s) :
    InHull lo hi (next f tol s) := by
  have hx := sx_in_hull tol lo hi s h
  obtain ⟨ha, hb, hc, -⟩ := h
  obtain ⟨ec, -, ed, -, -, -, hcs⟩ := next_cases f tol s
  unfold InHull
  rw [ec, ed]
  rcases hcs with ⟨-, hcs⟩ | ⟨-, hcs⟩ <;> rcases hcs with ⟨e1, -, e3, -⟩ | ⟨e1, -, e3, -⟩ <;>
    rw [e1, e3] <;> exact ⟨by assumption, by assumption, by assumption, by assumption⟩

/-- `c` lies within four bracket widths of every point of the bracket -/
def CNear (s : BrentSt Rat) : Prop :=
  ∀ x, Btw s.a s.b x → |s.c - x| ≤ 4 * |s.b - s.a|

theorem cNear_init (a b : Rat) (f : Rat → Rat) : CNear (init a b f) := by
  obtain ⟨hc, -, -, -, -, -, -⟩ := init_cases a b f
  intro x hx
  rw [hc]
  rcases hx with ⟨h1, h2⟩ | ⟨h1, h2⟩
  · rw [abs_of_nonpos (by linarith), abs_of_nonneg (by linarith)]; linarith
  · rw [abs_of_nonneg (by linarith), abs_of_nonpos (by linarith)]; linarith

/-- after one iteration `c` is the previous `b`: an end of the new bracket, or at most four new
    bracket widths away from every point of the new bracket -/
theorem cNear_step (f : Rat → Rat) (tol : Rat) (s : BrentSt Rat) : CNear (next f tol s) := by
  obtain ⟨hbt, hq⟩ := sx_btw tol s
  obtain ⟨ec, -, -, -, -, -, hcs⟩ := next_cases f tol s
  intro x hx
  rw [ec]
  generalize sx tol s = p at *
  rcases hcs with ⟨-, hcs⟩ | ⟨-, hcs⟩ <;> rcases hcs with ⟨e1, -, e3, -⟩ | ⟨e1, -, e3, -⟩ <;>
    rw [e1, e3] at hx ⊢
  · -- bracket (a, p), c = b
    rcases hbt with ⟨g1, g2⟩ | ⟨g1, g2⟩ <;> rcases hx with ⟨k1, k2⟩ | ⟨k1, k2⟩ <;>
      rcases abs_cases (s.b - s.a) with ⟨q1, q2⟩ | ⟨q1, q2⟩ <;>
      rcases abs_cases (p - s.a) with ⟨q3, q4⟩ | ⟨q3, q4⟩ <;>
      rcases abs_cases (s.b - x) with ⟨q5, q6⟩ | ⟨q5, q6⟩ <;> linarith
  · -- bracket (p, a), c = b
    rw [abs_sub_comm s.a p]
    rcases hbt with ⟨g1, g2⟩ | ⟨g1, g2⟩ <;> rcases hx with ⟨k1, k2⟩ | ⟨k1, k2⟩ <;>
      rcases abs_cases (s.b - s.a) with ⟨q1, q2⟩ | ⟨q1, q2⟩ <;>
      rcases abs_cases (p - s.a) with ⟨q3, q4⟩ | ⟨q3, q4⟩ <;>
      rcases abs_cases (s.b - x) with ⟨q5, q6⟩ | ⟨q5, q6⟩ <;> linarith
  · -- bracket (p, b), c = b
    rcases hx with ⟨k1, k2⟩ | ⟨k1, k2⟩ <;>
      rcases abs_cases (s.b - p) with ⟨q3, q4⟩ | ⟨q3, q4⟩ <;>
      rcases abs_cases (s.b - x) with ⟨q5, q6⟩ | ⟨q5, q6⟩ <;> linarith
  · -- bracket (b, p), c = b
    rw [abs_sub_comm p s.b]
    rcases hx with ⟨k1, k2⟩ | ⟨k1, k2⟩ <;>
      rcases abs_cases (s.b - p) with ⟨q3, q4⟩ | ⟨q3, q4⟩ <;>
      rcases abs_cases (s.b - x) with ⟨q5, q6⟩ | ⟨q5, q6⟩ <;> linarith

/-- the invariants together (bracket, hull, `c` near the bracket, `b` is the better end) -/
def Inv (f : Rat → Rat) (lo hi : Rat) (s : BrentSt Rat) : Prop :=
  Bracket f s ∧ InHull lo hi s ∧ CNear s ∧ |s.yb| ≤ |s.ya|

theorem inv_step (f : Rat → Rat) (tol lo hi : Rat) (s : BrentSt Rat) (h : Inv f lo hi s)
    (hya : s.ya ≠ 0) : Inv f lo hi (next f tol s) :=
  ⟨bracket_step f tol s h.1 hya, inHull_step f tol lo hi s h.2.1, cNear_step f tol s, (next_cases f tol s).2.2.2.2.2.1⟩

/-- An `.ok r` result is produced in a state that satisfies all three invariants. -/
theorem brent_ok_state (a b : Rat) (f : Rat → Rat) (tol : Rat) (n : Nat) (r : Rat)
    (h : findRootBrent a b f tol n = .ok r) :
    ∃ s, Inv f (min a b) (max a b) s ∧ StopsAt tol s r := by
  have hne : findRootBrent a b f tol n ≠ .error .noBracketing := by rw [h]; intro h'; cases h'
  rw [findRootBrent_enters a b f tol n hne] at h
  refine brentLoop_ok_reach (Inv f (min a b) (max a b)) ?_ (n + 1) (init a b f)
    ⟨bracket_init a b f tol n hne, inHull_init a b f, cNear_init a b f, (init_cases a b f).2.2.2.2.2.1⟩ h
  intro s hs hya _ _
  exact inv_step f tol _ _ s hs (by simpa using hya)

/-- Every returned point lies in the closed interval spanned by the ORIGINAL `a` and `b`. -/
theorem brent_in_hull (a b : Rat) (f : Rat → Rat) (tol : Rat) (n : Nat) (r : Rat)
    (h : findRootBrent a b f tol n = .ok r) : min a b ≤ r ∧ r ≤ max a b := by
  obtain ⟨s, ⟨-, hh, -, -⟩, hs⟩ := brent_ok_state a b f tol n r h
  rcases hs with ⟨-, e⟩ | ⟨-, -, e⟩ | ⟨-, -, -, e⟩ <;> rw [e]
  · exact hh.1
  · exact hh.2.1
  · exact hh.2.2.1

/-- Every point at which the loop evaluates `f` lies in the hull as well: in a state that satisfies
    `InHull`, the evaluation point `sx` does (`sx_in_hull`), and the state keeps satisfying `InHull`
    (`inHull_step`, `inHull_init`). -/
theorem brent_evaluates_in_hull (a b : Rat) (f : Rat → Rat) (tol : Rat) (k : Nat) :
    let s := (next f tol)^[k] (init a b f)
    InHull (min a b) (max a b) s ∧ min a b ≤ sx tol s ∧ sx tol s ≤ max a b := by
  intro s
  have : InHull (min a b) (max a b) s := by
    induction k with
    | zero => exact inHull_init a b f
    | succ k ih =>
      show InHull _ _ ((next f tol)^[k + 1] (init a b f))
      rw [Function.iterate_succ_apply']
      exact inHull_step f tol _ _ _ ih
  exact ⟨this, sx_in_hull tol _ _ s this⟩

example : findRootBrent (0 : Rat) 2 (fun x => x * x - 2) (1 / 100) 50 = .ok (41 / 29) := by
  decide +kernel
example : min (0 : Rat) 2 ≤ 41 / 29 ∧ (41 / 29 : Rat) ≤ max 0 2 := by decide +kernel
/-- bounds given in decreasing order -/
example : findRootBrent (2 : Rat) 0 (fun x => x * x - 2) (1 / 100) 50 = .ok (149 / 105) := by
  decide +kernel

/-! ## 4  what an `.ok` result means -/

/-- MAIN THEOREM.  If `findRootBrent a b f tol n = .ok r` then
    * either `f r = 0`: an exact zero of `f` was sampled (and `r` lies in the original hull),
    * or the loop stopped by convergence in a state `s` with
        - `|s.b - s.a| < tol/2`, `f s.a ≠ 0`, `f s.b ≠ 0`, `f s.a * f s.b < 0` (a strict sign change
          of `f` between `s.a` and `s.b`), `|f s.b| ≤ |f s.a|`,
        - all of `s.a`, `s.b`, `s.c` in the original hull,
        - `r = s.c` — the PREVIOUS value of `b` (or the initial `a` if no iteration was made) — which
          is in general NOT a point of the final bracket: the code guarantees
          `|r - x| ≤ 4 * |s.b - s.a| < 2 * tol` for every `x` between `s.a` and `s.b` (so also for
          `x = s.b`, the best estimate).  A bound `|r - zero| ≤ tol` does NOT hold
          (`brent_misses_tol_kink`, `brent_misses_tol_small` below).  `r` is an end of the final
          bracket exactly when the last iteration took the `else` branch (`cNear_step`). -/
theorem brent_ok_cases (a b : Rat) (f : Rat → Rat) (tol : Rat) (n : Nat) (r : Rat)
    (h : findRootBrent a b f tol n = .ok r) :
    (f r = 0 ∧ min a b ≤ r ∧ r ≤ max a b) ∨
    ∃ s : BrentSt Rat, Bracket f s ∧ InHull (min a b) (max a b) s ∧ r = s.c ∧
      |s.b - s.a| < tol / 2 ∧ f s.a ≠ 0 ∧ f s.b ≠ 0 ∧ f s.a * f s.b < 0 ∧ |f s.b| ≤ |f s.a| ∧
      (∀ x, Btw s.a s.b x → |r - x| ≤ 4 * |s.b - s.a|) := by
  have hull := brent_in_hull a b f tol n r h
  obtain ⟨s, ⟨hb, hh, hc, hord⟩, hs⟩ := brent_ok_state a b f tol n r h
  rcases hs with ⟨h0, e⟩ | ⟨-, h0, e⟩ | ⟨h1, h2, h3, e⟩
  · left
    refine ⟨?_, hull⟩
    rw [e, ← hb.1]; simpa using h0
  · left
    refine ⟨?_, hull⟩
    rw [e, ← hb.2.1]; simpa using h0
  · right
    have hya : s.ya ≠ 0 := by simpa using h1
    have hyb : s.yb ≠ 0 := by simpa using h2
    refine ⟨s, hb, hh, e, by simpa using h3, by rw [← hb.1]; exact hya, by rw [← hb.2.1]; exact hyb, ?_,
      by rw [← hb.1, ← hb.2.1]; exact hord, ?_⟩
    · rw [← hb.1, ← hb.2.1]
      exact lt_of_le_of_ne hb.2.2 (mul_ne_zero hya hyb)
    · rw [e]; exact hc

/-- Consequence: in the convergence case the returned point is less than `2·tol` away from every
    point between the two final bracket ends, in particular from every zero of `f` there.
    (`tol` itself is NOT guaranteed, see below.) -/
theorem brent_ok_within_two_tol (a b : Rat) (f : Rat → Rat) (tol : Rat) (n : Nat) (r : Rat)
    (h : findRootBrent a b f tol n = .ok r) :
    f r = 0 ∨ ∃ u v : Rat, f u * f v < 0 ∧ |v - u| < tol / 2 ∧
      (min a b ≤ u ∧ u ≤ max a b) ∧ (min a b ≤ v ∧ v ≤ max a b) ∧
      ∀ x, Btw u v x → |r - x| < 2 * tol := by
  rcases brent_ok_cases a b f tol n r h with ⟨h0, -⟩ | ⟨s, -, hh, -, hw, -, -, hsc, -, hd⟩
  · exact Or.inl h0
  · refine Or.inr ⟨s.a, s.b, hsc, hw, hh.1, hh.2.1, fun x hx => ?_⟩
    have := hd x hx
    linarith

/-! ### the defect: `r` can be farther than `tol` from every zero in the bracket

`f` is continuous, piecewise linear and strictly increasing, so it has exactly one zero `z`.
The routine returns `.ok r` with `|r - z| > tol`. -/

/-- slopes 13 and 9/11, kink at `x = 1`, unique zero `12/13` -/
def fKink (x : Rat) : Rat := if x ≤ 1 then 13 * x - 12 else (9 * x + 2) / 11

theorem fKink_strictMono : ∀ x y : Rat, x < y → fKink x < fKink y := by
  intro x y hxy
  unfold fKink
  split <;> split
  · linarith
  · rename_i h1 h2
    have h2' : 1 < y := not_le.mp h2
    rw [lt_div_iff₀ (by norm_num : (0 : Rat) < 11)]
    nlinarith
  · rename_i h1 h2; exact absurd (le_trans (le_of_lt hxy) h2) h1
  · rw [div_lt_div_iff_of_pos_right (by norm_num : (0 : Rat) < 11)]; linarith

theorem fKink_zero_iff (x : Rat) : fKink x = 0 ↔ x = 12 / 13 := by
  constructor
  · intro h
    by_contra hne
    rcases lt_or_gt_of_ne hne with hlt | hgt
    · have := fKink_strictMono x (12 / 13) hlt
      have e : fKink (12 / 13) = 0 := by decide +kernel
      linarith
    · have := fKink_strictMono (12 / 13) x hgt
      have e : fKink (12 / 13) = 0 := by decide +kernel
      linarith
  · intro h; rw [h]; decide +kernel

/-- bracket `[0, 12]`, `tol = 4`: the result `72/11 ≈ 6.55` is `5.62 > tol` away from the only
    zero `12/13 ≈ 0.92`.  (The loop stopped with the bracket `[0, 67036/35013 ≈ 1.91]`, which does
    contain the zero and is shorter than `tol/2`, and returned the previous `b`.) -/
theorem brent_misses_tol_kink :
    findRootBrent (0 : Rat) 12 fKink 4 50 = .ok (72 / 11) ∧
    ∀ z : Rat, fKink z = 0 → 4 < |72 / 11 - z| := by
  refine ⟨by decide +kernel, fun z hz => ?_⟩
  rw [(fKink_zero_iff z).mp hz]
  decide +kernel

/-- the same with a tolerance that is small against the bracket: slopes `16/3` and `1/5`, kink and
    unique zero at `1/500` -/
def fKink2 (x : Rat) : Rat := if x ≤ 1 / 500 then 16 / 3 * (x - 1 / 500) else 1 / 5 * (x - 1 / 500)

theorem fKink2_zero_iff (x : Rat) : fKink2 x = 0 ↔ x = 1 / 500 := by
  unfold fKink2
  constructor
  · intro h
    split at h
    · have : x - 1 / 500 = 0 := by
        rcases mul_eq_zero.mp h with h' | h'
        · norm_num at h'
        · exact h'
      linarith
    · have : x - 1 / 500 = 0 := by
        rcases mul_eq_zero.mp h with h' | h'
        · norm_num at h'
        · exact h'
      linarith
  · intro h; rw [h]; norm_num

/-- bracket `[0, 1]`, `tol = 1/50`: the result `6400/241429 ≈ 0.0265` is `0.0245 > tol` away from
    the only zero `1/500`. -/
theorem brent_misses_tol_small :
    findRootBrent (0 : Rat) 1 fKink2 (1 / 50) 100 = .ok (6400 / 241429) ∧
    ∀ z : Rat, fKink2 z = 0 → 1 / 50 < |6400 / 241429 - z| := by
  refine ⟨by decide +kernel, fun z hz => ?_⟩
  rw [(fKink2_zero_iff z).mp hz]
  decide +kernel

/-- the instance of `brent_ok_cases` for the run above: not an exact zero, so the second
    alternative holds -/
example : fKink2 (6400 / 241429) ≠ 0 := by decide +kernel

/-! ### `noBracketing` -/

/-- `noBracketing` is reported exactly when `f a` and `f b` have the same strict sign. -/
theorem brent_noBracketing_iff (a b : Rat) (f : Rat → Rat) (tol : Rat) (n : Nat) :
    findRootBrent a b f tol n = .error .noBracketing ↔ 0 < f a * f b := by
  have hprod : (init a b f).ya * (init a b f).yb = f a * f b := by
    obtain ⟨-, -, -, -, -, -, hc⟩ := init_cases a b f
    rcases hc with ⟨-, e2, -, e4⟩ | ⟨-, e2, -, e4⟩
    · rw [e2, e4]
    · rw [e2, e4, mul_comm]
  rw [findRootBrent_eq]
  constructor
  · intro h
    by_contra hn
    rw [if_neg (by rw [hprod]; simpa using hn)] at h
    exact brentLoop_ne_noBracketing f tol n _ _ h
  · intro h
    rw [if_pos (by rw [hprod]; simpa using h)]

example : findRootBrent (0 : Rat) 2 (fun x => x * x + 2) (1 / 100) 50 = .error .noBracketing := by
  decide +kernel
example : (0 : Rat) < (fun x => x * x + 2) 0 * (fun x => x * x + 2) 2 := by decide +kernel

/-! ### iteration and evaluation count (structural: every `Num α`) -/

section Structural
variable {α : Type} [Num α]

/-- `findRootBrentC` is `findRootBrent` with a counter of the applications of `f` in the model
    text: its first component IS `findRootBrent`. -/
theorem findRootBrentC_fst (a b : α) (f : α → α) (tol : α) (n : Nat) :
    (findRootBrentC a b f tol n).1 = findRootBrent a b f tol n := by
  rw [findRootBrent_eq, findRootBrentC]
  split
  · rfl
  · exact brentLoopC_fst f tol n _ _ _

/-- At most `max n 1` iterations are executed, hence at most `2 + 2 * max n 1` applications of `f`
    (2 initially; per iteration `f sx` and one of `f a`, `f b` — the Rust source reuses the stored
    ordinate for the latter, so it evaluates `f` at most `2 + max n 1` times).  Note that
    `max_iters = 0` still costs one iteration: the limit is tested after the update. -/
theorem brent_iterations_le (a b : α) (f : α → α) (tol : α) (n : Nat) :
    (findRootBrentC a b f tol n).2 ≤ 2 + 2 * max n 1 := by
  rw [findRootBrentC]
  split
  · show 2 ≤ _; omega
  · refine Nat.le_trans (brentLoopC_snd f tol n _ _ _) ?_
    show 2 + 2 * (max n (0 + 1) - 0) ≤ _
    omega

/-- the loop never reports `noBracketing`; `findRootBrent` does so only before the loop -/
theorem brentLoop_never_noBracketing (f : α → α) (tol : α) (n fuel : Nat) (s : BrentSt α) :
    brentLoop f tol n fuel s ≠ .error .noBracketing :=
  brentLoop_ne_noBracketing f tol n fuel s

end Structural

example : findRootBrentC (0 : Rat) 2 (fun x => x * x - 2) (1 / 100) 50 = (.ok (41 / 29), 12) := by
  decide +kernel
/-- the bound is attained: `n = 3` -/
example : findRootBrentC (0 : Rat) 2 (fun x => x * x - 2) (1 / 100) 3 = (.error .noConvergency, 8) := by
  decide +kernel
/-- `n = 0` costs one iteration -/
example : findRootBrentC (0 : Rat) 2 (fun x => x * x - 2) (1 / 100) 0 = (.error .noConvergency, 4) := by
  decide +kernel

end Cav.C11
